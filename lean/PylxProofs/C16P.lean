/-
  C16P — `MacroStandardArgsParser.parse_args` (legacy) against `LatexArgumentsParser.parse` (new):
  the facts `ParserFacts` that `C16_legacy_args_partial` assumed, proved from the parser model, and the
  equivalence restated so that it does not assume a lexically clean input.
-/
import PylxProofs.C16
import PylxProofs.C05Tok
import Pylx.Gen.WalkerDb
namespace Pylx.Legacy.C16P
open Pylx Pylx.Legacy

/-! ### tokenizer: where a token sits relative to the reader -/

/-- a token (or recovery placeholder) read at character position `q` after the whitespace `pre` -/
def PosOk (q : Nat) (pre : Str) : PeekRes → Prop
  | .tok t => t.pos = q ∧ t.pre = pre
  | .err _ _ t _ => t.pos = q ∧ t.pre = pre
  | .eos _ => True

section pos
variable {ps : PState} {s : Str} {p : Nat} {c : Char} {pre : Str}

theorem charToken_pos : PosOk p pre (charToken ps c p pre) := by
  unfold charToken
  split <;> exact ⟨rfl, rfl⟩

theorem peekSpecialsOrChar_pos : PosOk p pre (peekSpecialsOrChar ps s p c pre) := by
  unfold peekSpecialsOrChar
  split
  · exact ⟨rfl, rfl⟩
  · exact charToken_pos

theorem peekGroups_pos : PosOk p pre (peekGroups ps s p c pre) := by
  unfold peekGroups
  split
  · split
    · exact ⟨rfl, rfl⟩
    · split
      · exact ⟨rfl, rfl⟩
      · exact peekSpecialsOrChar_pos
  · exact peekSpecialsOrChar_pos

theorem readComment_pos : PosOk p pre (readComment ps s p pre) := by
  unfold readComment
  dsimp only
  split <;> exact ⟨rfl, rfl⟩

theorem peekComment_pos : PosOk p pre (peekComment ps s p c pre) := by
  unfold peekComment
  split
  · exact readComment_pos
  · exact peekGroups_pos

theorem readMacro_pos : PosOk p pre (readMacro ps s p pre) := by
  unfold readMacro
  split
  · exact ⟨rfl, rfl⟩
  · split <;> exact ⟨rfl, rfl⟩

theorem readEnvironment_pos (b : Bool) : PosOk p pre (readEnvironment ps s p b pre) := by
  unfold readEnvironment
  split <;> exact ⟨rfl, rfl⟩

theorem peekEscape_pos : PosOk p pre (peekEscape ps s p c pre) := by
  unfold peekEscape
  split
  · split
    · exact readEnvironment_pos _
    · split
      · exact readMacro_pos
      · exact peekComment_pos
  · exact peekComment_pos

theorem peekAtChar_pos : PosOk p pre (peekAtChar ps s p c pre) := by
  unfold peekAtChar
  split
  · split
    · rename_i t ht
      obtain ⟨d, b, rfl⟩ := readMath_spec ht
      exact ⟨rfl, rfl⟩
    · exact peekEscape_pos
  · exact peekEscape_pos

end pos

/-- what `impl_peek_token` returns at reader position `p0`: the token starts after its own leading whitespace -/
def PosOk0 (p0 : Nat) : PeekRes → Prop
  | .tok t => t.pos = p0 + t.pre.length
  | .err _ _ t _ => t.pos = p0 + t.pre.length
  | .eos _ => True

theorem PosOk0.of_posOk {p0 : Nat} {pre : Str} : ∀ {r : PeekRes}, PosOk (p0 + pre.length) pre r → PosOk0 p0 r
  | .tok _, h => by show _ = _; rw [h.1, h.2]
  | .err _ _ _ _, h => by show _ = _; rw [h.1, h.2]
  | .eos _, _ => trivial

theorem peekImpl_pos (ps : PState) (s : Str) (p0 : Nat) : PosOk0 p0 (peekImpl ps s p0) := by
  unfold peekImpl
  dsimp only
  split
  · unfold peekPar
    dsimp only
    have h3 := firstNl_le (spaceRun s p0)
    split
    · show p0 + _ = p0 + (List.take _ _).length
      rw [List.length_take]; omega
    · show p0 + _ = p0 + (List.take _ _).length
      rw [List.length_take]; omega
  · split
    · trivial
    · exact PosOk0.of_posOk peekAtChar_pos

/-- a token read (strictly or tolerantly) with the reader at `p`: going back to it, leading whitespace included,
    is going back to `p` -/
theorem peekTok_pos {tol : Bool} {ps : PState} {s : Str} {p : Nat} {t : Token}
    (h : peekTok tol ps s p = .tok t) : moveToToken t true = p := by
  have hr := peekImpl_pos ps s p
  have : t.pos = p + t.pre.length := by
    unfold peekTok at h
    split at h
    · rename_i w ep t' r heq
      rw [heq] at hr
      split at h
      · cases h; exact hr
      · cases h
    · rw [h] at hr; exact hr
  simp [moveToToken, this]

/-! ### tokenizer: a `*` is read as the one-character token -/

/-- a `char` token is a single character of length 1, or does not begin with `*` (a paragraph break) -/
def StarTok (t : Token) : Prop :=
  t.kind = .char → (∃ c, t.arg = [c] ∧ t.posEnd = t.pos + 1) ∨ t.arg.head? ≠ some '*'

def StarRes : PeekRes → Prop
  | .tok t => StarTok t
  | _ => True

section star
variable {ps : PState} {s : Str} {p : Nat} {c : Char} {pre : Str}

theorem charToken_star : StarRes (charToken ps c p pre) := by
  unfold charToken
  split
  · trivial
  · exact fun _ => Or.inl ⟨c, rfl, rfl⟩

theorem peekSpecialsOrChar_star : StarRes (peekSpecialsOrChar ps s p c pre) := by
  unfold peekSpecialsOrChar
  split
  · exact fun h => by cases h
  · exact charToken_star

theorem peekGroups_star : StarRes (peekGroups ps s p c pre) := by
  unfold peekGroups
  split
  · split
    · exact fun h => by cases h
    · split
      · exact fun h => by cases h
      · exact peekSpecialsOrChar_star
  · exact peekSpecialsOrChar_star

theorem readComment_star : StarRes (readComment ps s p pre) := by
  unfold readComment
  dsimp only
  split <;> exact fun h => by cases h

theorem peekComment_star : StarRes (peekComment ps s p c pre) := by
  unfold peekComment
  split
  · exact readComment_star
  · exact peekGroups_star

theorem readMacro_star : StarRes (readMacro ps s p pre) := by
  unfold readMacro
  split
  · trivial
  · split <;> exact fun h => by cases h

theorem readEnvironment_star (b : Bool) : StarRes (readEnvironment ps s p b pre) := by
  unfold readEnvironment
  split
  · trivial
  · cases b <;> exact fun h => by cases h

theorem peekEscape_star : StarRes (peekEscape ps s p c pre) := by
  unfold peekEscape
  split
  · split
    · exact readEnvironment_star _
    · split
      · exact readMacro_star
      · exact peekComment_star
  · exact peekComment_star

theorem peekAtChar_star : StarRes (peekAtChar ps s p c pre) := by
  unfold peekAtChar
  split
  · split
    · rename_i t ht
      intro hk
      rcases readMath_kind ht with h | h <;> rw [hk] at h <;> cases h
    · exact peekEscape_star
  · exact peekEscape_star

end star

theorem isPySpace_star : isPySpace '*' = false := by decide

theorem mem_takeWhile {α : Type} (q : α → Bool) : ∀ (l : List α) (x : α), x ∈ l.takeWhile q → q x = true
  | [], _, h => by cases h
  | a :: l, x, h => by
    rw [List.takeWhile_cons] at h
    cases hq : q a with
    | true =>
      rw [hq] at h
      rcases List.mem_cons.mp h with h | h
      · rw [h]; exact hq
      · exact mem_takeWhile q l x h
    | false => rw [hq] at h; cases h

theorem mem_spaceRun {s : Str} {p : Nat} {x : Char} (h : x ∈ spaceRun s p) : isPySpace x = true :=
  mem_takeWhile isPySpace _ x h

theorem kbeq (a b : TokKind) : (a == b) = decide (a = b) := by
  cases a <;> cases b <;> rfl

/-- the characters of a slice inside the whitespace run are whitespace -/
theorem mem_slice_spaceRun {s : Str} {p0 i j : Nat} {x : Char} (hj : j ≤ (spaceRun s p0).length)
    (h : x ∈ slice s (p0 + i) (p0 + j)) : isPySpace x = true := by
  rcases Nat.lt_or_ge j i with hlt | hge
  · have : slice s (p0 + i) (p0 + j) = [] := by
      unfold slice
      have : p0 + j - (p0 + i) = 0 := by omega
      rw [this]; rfl
    rw [this] at h; cases h
  · have happ := slice_slice_append s p0 (p0 + i) (p0 + j) (by omega) (by omega)
    have hx : x ∈ slice s p0 (p0 + j) := by rw [← happ]; exact List.mem_append_right _ h
    rw [slice_of_prefix_take s _ p0 j (spaceRun_prefix s p0) hj] at hx
    exact mem_spaceRun (List.mem_of_mem_take hx)

theorem peekImpl_star (ps : PState) (s : Str) (p0 : Nat) : StarRes (peekImpl ps s p0) := by
  unfold peekImpl
  dsimp only
  split
  · unfold peekPar
    dsimp only
    split
    · exact fun h => by cases h
    · intro _
      right
      intro hh
      have hmem : '*' ∈ slice s (p0 + firstNl (spaceRun s p0)) (p0 + lastNlEnd (spaceRun s p0)) :=
        List.mem_of_mem_head? hh
      have := mem_slice_spaceRun (lastNlEnd_le _) hmem
      rw [isPySpace_star] at this
      cases this
  · split
    · trivial
    · exact peekAtChar_star

theorem star_core {sp : List Str} {t : Token} (hns : ['*'] ∉ sp) (hst : StarTok t)
    (hsp : t.kind = .specials → t.arg ∈ sp) :
    ((t.kind == .char && t.arg.head? == some '*') = ((t.kind == .char || t.kind == .specials) && t.arg == ['*'])) ∧
    ((t.kind == .char && t.arg.head? == some '*') = true → t.posEnd = t.pos + 1) := by
  have harg : ∀ c : Char, ([c] == ['*']) = (some c == some '*') := by
    intro c
    by_cases hcs : c = '*'
    · subst hcs; rfl
    · simp
  cases hk : t.kind
  case char =>
    rcases hst hk with ⟨c, hc, he⟩ | hne
    · rw [hc]
      refine ⟨?_, fun _ => he⟩
      simp only [kbeq, List.head?_cons, harg c, decide_true, Bool.true_and, Bool.true_or]
    · have h1 : (t.arg.head? == some '*') = false := by
        cases hh : (t.arg.head? == some '*')
        · rfl
        · exact absurd (by simpa using hh) hne
      have h2 : (t.arg == ['*']) = false := by
        cases hh : (t.arg == ['*'])
        · rfl
        · have : t.arg = ['*'] := by simpa using hh
          rw [this] at hne
          exact absurd rfl hne
      rw [h1, h2]
      exact ⟨by simp, by simp⟩
  case specials =>
    have hm := hsp hk
    have h2 : (t.arg == ['*']) = false := by
      cases hh : (t.arg == ['*'])
      · rfl
      · have : t.arg = ['*'] := by simpa using hh
        rw [this] at hm
        exact absurd hm hns
    rw [h2]
    exact ⟨by simp [kbeq], by simp [kbeq]⟩
  all_goals exact ⟨by simp [kbeq], by simp [kbeq]⟩

/-- part (d) of `ParserFacts`, from the decidable condition "`*` is not declared as specials" -/
theorem star_fact {ps : PState} {s : Str} {p : Nat} {t : Token} (hns : ['*'] ∉ ps.f.specials)
    (h : peekImpl ps s p = .tok t) :
    ((t.kind == .char && t.arg.head? == some '*') = ((t.kind == .char || t.kind == .specials) && t.arg == ['*'])) ∧
    ((t.kind == .char && t.arg.head? == some '*') = true → t.posEnd = t.pos + 1) := by
  have hst := peekImpl_star ps s p
  rw [h] at hst
  exact star_core hns hst (specials_arg_mem h)

/-! ### tokenizer: a token error under `f` is still one with environments disabled / with `[ ]` added -/

/-- the state the expression parser reads its token with (see `mkPS_noEnvs`) -/
@[reducible] def noEnvs (ps : PState) : PState := { f := { ps.f with enEnvs := false }, t := ps.t }

/-- a token error survives disabling environments, except the malformed `\begin` / `\end`, which is then read as
    the macro `\begin` / `\end` -/
def ErrA (r r' : PeekRes) : Prop :=
  ∀ w ep t rr, r = .err w ep t rr →
    r' = .err w ep t rr ∨
    (w = .badEnvName ∧ ∃ t', r' = .tok t' ∧ t'.kind = .macro ∧
      (t'.arg = "begin".toList ∨ t'.arg = "end".toList) ∧ t'.pos = ep)

/-- `\begin` and `\end` are control words: their letters are macro-name characters -/
def envAlpha (f : PSFields) : Bool := "begind".toList.all (fun x => f.macroAlpha.contains x)

theorem envAlpha_spec {f : PSFields} (h : envAlpha f = true) (b : Bool) :
    ∀ x ∈ envWordStr b, f.macroAlpha.contains x = true := by
  unfold envAlpha at h
  rw [List.all_eq_true] at h
  intro x hx
  apply h
  cases b
  · have : x ∈ ['e', 'n', 'd'] := hx
    simp only [List.mem_cons, List.not_mem_nil, or_false] at this
    rcases this with rfl | rfl | rfl <;> decide
  · have : x ∈ ['b', 'e', 'g', 'i', 'n'] := hx
    simp only [List.mem_cons, List.not_mem_nil, or_false] at this
    rcases this with rfl | rfl | rfl | rfl | rfl <;> decide

theorem envWordAt_follow {ps : PState} {s : Str} {p : Nat} {b : Bool} (h : envWordAt ps s p = some b) :
    notFollowedByAlpha ps s (p + 1 + envWordLen b) = true := by
  unfold envWordAt at h
  cases hw : envWord ps s p with
  | none => rw [hw] at h; cases h
  | some b' =>
    rw [hw] at h
    dsimp only at h
    by_cases hn : notFollowedByAlpha ps s (p + 1 + envWordLen b') = true
    · rw [if_pos hn] at h; cases h; exact hn
    · rw [if_neg hn] at h; cases h

/-- with environments disabled, `\begin` / `\end` is read as a macro of that name -/
theorem readMacro_env {ps : PState} {s : Str} {p : Nat} {b : Bool} (pre : Str) (hw : envWordAt ps s p = some b)
    (halpha : ∀ x ∈ envWordStr b, ps.f.macroAlpha.contains x = true) :
    ∃ t', readMacro ps s p pre = .tok t' ∧ t'.kind = .macro ∧ t'.arg = envWordStr b ∧ t'.pos = p := by
  have hsw := envWordAt_spec hw
  have hnf := envWordAt_follow hw
  obtain ⟨tail, htail⟩ := List.isPrefixOf_iff_prefix.mp (by unfold startsWithAt at hsw; exact hsw)
  obtain ⟨c0, w', hcw⟩ : ∃ c0 w', envWordStr b = c0 :: w' := by
    cases b
    · exact ⟨'e', ['n', 'd'], rfl⟩
    · exact ⟨'b', ['e', 'g', 'i', 'n'], rfl⟩
  have hlen : (envWordStr b).length = envWordLen b := envWordStr_length b
  have hs1 : s[p + 1]? = some c0 := by
    have : (s.drop (p + 1))[0]? = some c0 := by rw [← htail, hcw]; rfl
    rw [List.getElem?_drop] at this
    exact this
  have hd2 : s.drop (p + 2) = w' ++ tail := by
    have : s.drop (p + 2) = (s.drop (p + 1)).drop 1 := by rw [List.drop_drop]
    rw [this, ← htail, hcw]; rfl
  have htw : tail.takeWhile (fun x => ps.f.macroAlpha.contains x) = [] := by
    have hq : s[p + 1 + envWordLen b]? = tail[0]? := by
      rw [← hlen, ← List.getElem?_drop, ← htail, List.getElem?_append_right (Nat.le_refl _), Nat.sub_self]
    unfold notFollowedByAlpha at hnf
    rw [hq] at hnf
    cases tail with
    | nil => rfl
    | cons d tl =>
      simp only [List.getElem?_cons_zero] at hnf
      rw [List.takeWhile_cons]
      have : ps.f.macroAlpha.contains d = false := by simpa using hnf
      rw [this]; rfl
  have hc0 : ps.f.macroAlpha.contains c0 = true := halpha c0 (by rw [hcw]; exact List.mem_cons_self)
  have hw'a : ∀ a ∈ w', ps.f.macroAlpha.contains a = true :=
    fun a ha => halpha a (by rw [hcw]; exact List.mem_cons_of_mem _ ha)
  unfold readMacro
  rw [hs1]
  dsimp only
  rw [if_pos hc0]
  refine ⟨_, rfl, rfl, ?_, rfl⟩
  show c0 :: _ = _
  rw [hd2, List.takeWhile_append_of_pos hw'a, htw, List.append_nil, ← hcw]

section errA
variable {ps : PState} {s : Str} {p : Nat} {c : Char} {pre : Str}

theorem peekEscape_A (hm : ps.f.enMacros = true) (ha : envAlpha ps.f = true) :
    ErrA (peekEscape ps s p c pre) (peekEscape (noEnvs ps) s p c pre) := by
  intro w ep t rr h
  have hE : peekEscape (noEnvs ps) s p c pre =
      if c == ps.f.escapeChar then (if ps.f.enMacros then readMacro ps s p pre else peekComment ps s p c pre)
      else peekComment ps s p c pre := by
    unfold peekEscape
    rw [envWordAt_noEnvs rfl]
    rfl
  rw [hE]
  unfold peekEscape at h
  by_cases hc : (c == ps.f.escapeChar) = true
  · rw [if_pos hc] at h ⊢
    cases hw : envWordAt ps s p with
    | none => rw [hw] at h; left; exact h
    | some b =>
      rw [hw] at h
      dsimp only at h
      rw [if_pos hm]
      unfold readEnvironment at h
      cases hrn : readEnvName s (p + 1 + envWordLen b) with
      | none =>
        rw [hrn] at h
        dsimp only at h
        cases h
        right
        obtain ⟨t', h1, h2, h3, h4⟩ := readMacro_env pre hw (envAlpha_spec ha b)
        refine ⟨rfl, t', h1, h2, ?_, h4⟩
        rw [h3]
        cases b
        · right; rfl
        · left; rfl
      | some r => rw [hrn] at h; cases h
  · rw [if_neg hc] at h ⊢
    left; exact h

theorem peekAtChar_A (hm : ps.f.enMacros = true) (ha : envAlpha ps.f = true) :
    ErrA (peekAtChar ps s p c pre) (peekAtChar (noEnvs ps) s p c pre) := by
  intro w ep t rr h
  have hE : peekAtChar (noEnvs ps) s p c pre =
      if ps.t.mathStart.contains c && ps.f.enMath then
        match readMath ps s p pre with
        | some t => .tok t
        | none => peekEscape (noEnvs ps) s p c pre
      else peekEscape (noEnvs ps) s p c pre := rfl
  rw [hE]
  unfold peekAtChar at h
  split at h
  · rename_i hc
    rw [if_pos hc]
    split at h
    · cases h
    · rename_i hn
      rw [hn]
      exact peekEscape_A hm ha w ep t rr h
  · rename_i hc
    rw [if_neg hc]
    exact peekEscape_A hm ha w ep t rr h

end errA

theorem peekPar_no_err (ps : PState) (s : Str) (pos : Nat) (pre : Str) {w : TokErr} {ep : Nat} {t : Token} {rr : Nat} :
    peekPar ps s pos pre ≠ .err w ep t rr := by
  obtain ⟨t', ht', _⟩ := peekPar_kind ps s pos pre
  rw [ht']
  intro h; cases h

theorem peekImpl_A {ps : PState} (hm : ps.f.enMacros = true) (ha : envAlpha ps.f = true) (s : Str) (p0 : Nat) :
    ErrA (peekImpl ps s p0) (peekImpl (noEnvs ps) s p0) := by
  intro w ep t rr h
  have hE : peekImpl (noEnvs ps) s p0 =
      if ps.f.enDblNl && countNl (spaceRun s p0) ≥ 2 then peekPar (noEnvs ps) s p0 (spaceRun s p0)
      else match s[p0 + (spaceRun s p0).length]? with
        | none => .eos (spaceRun s p0)
        | some c => peekAtChar (noEnvs ps) s (p0 + (spaceRun s p0).length) c (spaceRun s p0) := rfl
  rw [hE]
  unfold peekImpl at h
  dsimp only at h
  split at h
  · exact absurd h (peekPar_no_err _ _ _ _)
  · rename_i hc
    rw [if_neg hc]
    cases hs : s[p0 + (spaceRun s p0).length]? with
    | none => rw [hs] at h; cases h
    | some c => rw [hs] at h; exact peekAtChar_A hm ha w ep t rr h

theorem mkPS_macroAlpha (f : PSFields) : (mkPS f).f.macroAlpha = f.macroAlpha := by
  unfold mkPS PState.fresh PSFields.normalize
  split <;> rfl

theorem mkPS_forbidden (f : PSFields) : (mkPS f).f.forbidden = f.forbidden := by
  unfold mkPS PState.fresh PSFields.normalize
  split <;> rfl

theorem mkPS_specials (f : PSFields) : (mkPS f).f.specials = f.specials := by
  unfold mkPS PState.fresh PSFields.normalize
  split <;> rfl

theorem mkPS_groupClose (f : PSFields) : (mkPS f).t.groupClose = f.groupDelims.map (·.2) := by
  unfold mkPS PState.fresh PSFields.normalize computeTables groupTables
  split <;> rfl

/-- the fields the expression parser reads its first token with -/
def exprFields (f : PSFields) : PSFields := ({ f with enEnvs := false } : PSFields).normalize

/-- **lexical errors, expression parser**: if the reader fails at `p` under `f`, then under the expression parser's
    state it fails in the same way, or (`\begin`/`\end` without a name) reads the macro `\begin` / `\end` -/
theorem err_exprFields {f : PSFields} (hm : f.enMacros = true) (ha : envAlpha f = true) (s : Str) (p : Nat)
    {w : TokErr} {ep : Nat} {t : Token} {rr : Nat} (h : peekTok false (mkPS f) s p = .err w ep t rr) :
    peekTok false (mkPS (exprFields f)) s p = .err w ep t rr ∨
    (w = .badEnvName ∧ ∃ t', peekTok false (mkPS (exprFields f)) s p = .tok t' ∧ t'.kind = .macro ∧
      (t'.arg = "begin".toList ∨ t'.arg = "end".toList) ∧ t'.pos = ep) := by
  rw [peekTok_false] at h ⊢
  unfold exprFields
  rw [mkPS_noEnvs]
  have ha' : envAlpha (mkPS f).f = true := by
    unfold envAlpha at ha ⊢
    rw [mkPS_macroAlpha]; exact ha
  exact peekImpl_A (by rw [mkPS_enMacros]; exact hm) ha' s p w ep t rr h

/-! ### a token error survives adding the square brackets as group delimiters -/

/-- the state with `[`, `]` appended to the group tables (see `mkPS_addBr`) -/
@[reducible] def addBr (gd : Pairs) (ps : PState) : PState :=
  { f := { ps.f with groupDelims := gd },
    t := { ps.t with groupByOpen := ps.t.groupByOpen ++ [(['['], [']'])], groupClose := ps.t.groupClose ++ [[']']] } }

def ErrB (r r' : PeekRes) : Prop := ∀ w ep t rr, r = .err w ep t rr → r' = .err w ep t rr

section errB
variable {ps : PState} {s : Str} {p : Nat} {c : Char} {pre : Str} {gd : Pairs}

theorem peekSpecialsOrChar_forbidden {w : TokErr} {ep : Nat} {t : Token} {rr : Nat}
    (h : peekSpecialsOrChar ps s p c pre = .err w ep t rr) : ps.f.forbidden.contains c = true := by
  unfold peekSpecialsOrChar at h
  split at h
  · cases h
  · unfold charToken at h
    dsimp only at h
    split at h
    · assumption
    · cases h

theorem peekGroups_B (h1 : ps.f.forbidden.contains '[' = false) (h2 : ps.f.forbidden.contains ']' = false) :
    ErrB (peekGroups ps s p c pre) (peekGroups (addBr gd ps) s p c pre) := by
  intro w ep t rr h
  have hE : peekGroups (addBr gd ps) s p c pre =
      if ps.f.enGroups then
        if (ps.t.groupByOpen ++ [(['['], [']'])]).any (fun d => d.1 == [c]) then
          .tok { kind := .braceOpen, arg := [c], pos := p, posEnd := p + 1, pre := pre }
        else if (ps.t.groupClose ++ [[']']]).any (fun d => d == [c]) then
          .tok { kind := .braceClose, arg := [c], pos := p, posEnd := p + 1, pre := pre }
        else peekSpecialsOrChar ps s p c pre
      else peekSpecialsOrChar ps s p c pre := rfl
  rw [hE]
  unfold peekGroups at h
  by_cases hg : ps.f.enGroups = true
  · rw [if_pos hg] at h ⊢
    by_cases ho : ps.t.groupByOpen.any (fun d => d.1 == [c]) = true
    · rw [if_pos ho] at h; cases h
    · rw [if_neg ho] at h
      by_cases hc : ps.t.groupClose.any (fun d => d == [c]) = true
      · rw [if_pos hc] at h; cases h
      · rw [if_neg hc] at h
        have hf := peekSpecialsOrChar_forbidden h
        have hc1 : c ≠ '[' := by intro he; rw [he, h1] at hf; cases hf
        have hc2 : c ≠ ']' := by intro he; rw [he, h2] at hf; cases hf
        have ho' : (ps.t.groupByOpen ++ [(['['], [']'])]).any (fun d => d.1 == [c]) = false := by
          rw [List.any_append]
          simp only [Bool.not_eq_true] at ho
          rw [ho]
          simp [Ne.symm hc1]
        have hc' : (ps.t.groupClose ++ [[']']]).any (fun d => d == [c]) = false := by
          rw [List.any_append]
          simp only [Bool.not_eq_true] at hc
          rw [hc]
          simp [Ne.symm hc2]
        rw [ho', hc']
        exact h
  · rw [if_neg hg] at h ⊢
    exact h

theorem peekComment_B (h1 : ps.f.forbidden.contains '[' = false) (h2 : ps.f.forbidden.contains ']' = false) :
    ErrB (peekComment ps s p c pre) (peekComment (addBr gd ps) s p c pre) := by
  intro w ep t rr h
  have hE : peekComment (addBr gd ps) s p c pre =
      if ps.f.enComments && startsWithAt s ps.f.commentStart p && !ps.f.commentStart.isEmpty then
        readComment ps s p pre
      else peekGroups (addBr gd ps) s p c pre := rfl
  rw [hE]
  unfold peekComment at h
  split at h
  · rename_i hc; rw [if_pos hc]; exact h
  · rename_i hc; rw [if_neg hc]; exact peekGroups_B h1 h2 w ep t rr h

theorem peekEscape_B (h1 : ps.f.forbidden.contains '[' = false) (h2 : ps.f.forbidden.contains ']' = false) :
    ErrB (peekEscape ps s p c pre) (peekEscape (addBr gd ps) s p c pre) := by
  intro w ep t rr h
  have hE : peekEscape (addBr gd ps) s p c pre =
      if c == ps.f.escapeChar then
        match envWordAt ps s p with
        | some b => readEnvironment ps s p b pre
        | none => if ps.f.enMacros then readMacro ps s p pre else peekComment (addBr gd ps) s p c pre
      else peekComment (addBr gd ps) s p c pre := rfl
  rw [hE]
  unfold peekEscape at h
  by_cases hc : (c == ps.f.escapeChar) = true
  · rw [if_pos hc] at h ⊢
    cases hw : envWordAt ps s p with
    | some b => rw [hw] at h; exact h
    | none =>
      rw [hw] at h
      dsimp only at h ⊢
      by_cases hm : ps.f.enMacros = true
      · rw [if_pos hm] at h ⊢; exact h
      · rw [if_neg hm] at h ⊢; exact peekComment_B h1 h2 w ep t rr h
  · rw [if_neg hc] at h ⊢
    exact peekComment_B h1 h2 w ep t rr h

theorem peekAtChar_B (h1 : ps.f.forbidden.contains '[' = false) (h2 : ps.f.forbidden.contains ']' = false) :
    ErrB (peekAtChar ps s p c pre) (peekAtChar (addBr gd ps) s p c pre) := by
  intro w ep t rr h
  have hE : peekAtChar (addBr gd ps) s p c pre =
      if ps.t.mathStart.contains c && ps.f.enMath then
        match readMath ps s p pre with
        | some t => .tok t
        | none => peekEscape (addBr gd ps) s p c pre
      else peekEscape (addBr gd ps) s p c pre := rfl
  rw [hE]
  unfold peekAtChar at h
  split at h
  · rename_i hc
    rw [if_pos hc]
    split at h
    · cases h
    · rename_i hn
      rw [hn]
      exact peekEscape_B h1 h2 w ep t rr h
  · rename_i hc
    rw [if_neg hc]
    exact peekEscape_B h1 h2 w ep t rr h

end errB

theorem peekImpl_B {ps : PState} {gd : Pairs} (h1 : ps.f.forbidden.contains '[' = false)
    (h2 : ps.f.forbidden.contains ']' = false) (s : Str) (p0 : Nat) :
    ErrB (peekImpl ps s p0) (peekImpl (addBr gd ps) s p0) := by
  intro w ep t rr h
  have hE : peekImpl (addBr gd ps) s p0 =
      if ps.f.enDblNl && countNl (spaceRun s p0) ≥ 2 then peekPar (addBr gd ps) s p0 (spaceRun s p0)
      else match s[p0 + (spaceRun s p0).length]? with
        | none => .eos (spaceRun s p0)
        | some c => peekAtChar (addBr gd ps) s (p0 + (spaceRun s p0).length) c (spaceRun s p0) := rfl
  rw [hE]
  unfold peekImpl at h
  dsimp only at h
  split at h
  · exact absurd h (peekPar_no_err _ _ _ _)
  · rename_i hc
    rw [if_neg hc]
    cases hs : s[p0 + (spaceRun s p0).length]? with
    | none => rw [hs] at h; cases h
    | some c => rw [hs] at h; exact peekAtChar_B h1 h2 w ep t rr h

/-- the fields the optional-argument group parser reads its first token with -/
def brFields (f : PSFields) : PSFields :=
  if f.groupDelims.contains (['['], [']']) then f else { f with groupDelims := f.groupDelims ++ [(['['], [']'])] }

theorem groupState_br (f : PSFields) : groupState (.pair ['['] [']']) f = some (brFields f) := by
  unfold groupState brFields
  dsimp only
  split <;> rfl

/-- the square brackets are not forbidden characters -/
def brAllowed (f : PSFields) : Bool := !f.forbidden.contains '[' && !f.forbidden.contains ']'

/-- **lexical errors, optional group parser**: if the reader fails at `p` under `f`, it fails in the same way under
    the state with the square brackets as group delimiters -/
theorem err_brFields {f : PSFields} (hb : brAllowed f = true) (s : Str) (p : Nat)
    {w : TokErr} {ep : Nat} {t : Token} {rr : Nat} (h : peekTok false (mkPS f) s p = .err w ep t rr) :
    peekTok false (mkPS (brFields f)) s p = .err w ep t rr := by
  unfold brFields
  split
  · exact h
  · rw [peekTok_false] at h ⊢
    rw [mkPS_groupDelims]
    have hE : ({ f := { (mkPS f).f with groupDelims := f.groupDelims ++ [(['['], [']'])] },
                 t := { (mkPS f).t with groupByOpen := f.groupDelims ++ [(['['], [']'])],
                                        groupClose := (f.groupDelims ++ [(['['], [']'])]).map (·.2) } } : PState)
        = addBr (f.groupDelims ++ [(['['], [']'])]) (mkPS f) := by
      unfold addBr
      rw [mkPS_groupByOpen, mkPS_groupClose, List.map_append]
      rfl
    rw [hE]
    unfold brAllowed at hb
    simp only [Bool.and_eq_true, Bool.not_eq_eq_eq_not, Bool.not_true] at hb
    exact peekImpl_B (by rw [mkPS_forbidden]; exact hb.1) (by rw [mkPS_forbidden]; exact hb.2) s p w ep t rr h

/-! ### parser contracts (strict mode): parts (b) and (c) of `ParserFacts` -/

/-- what a successful delimited-group parse returns: nothing, with the reader where it was, or a group node that
    ends at the reader -/
def GroupGood (p : Nat) : Ret → Prop
  | .ok res q => (res = .none ∧ q = p) ∨ ∃ nd, res = .node nd ∧ nd.posEnd = q ∧ stripArgs nd = nd
  | _ => True

theorem groupGood_of_ret {p : Nat} {r : Ret} (h : ∀ res q, r ≠ .ok res q) : GroupGood p r := by
  cases r with
  | ok res q => exact absurd rfl (h res q)
  | _ => trivial

theorem rawGroupTok_good (rec : Task → Ret) (d : GroupDelims) (opt ap : Bool) (f g : PSFields) (t : Token) (p : Nat)
    (hp : moveToToken t true = p) : GroupGood p (parseContent false (rawGroupTok rec d opt ap f g t)) := by
  unfold rawGroupTok
  split
  · cases groupCloser d g with
    | none => trivial
    | some c =>
      dsimp only
      unfold bindOk
      cases rec (.pc (.general (.braceClose c) true (.group d.opener g f)) g t.posEnd) with
      | ok res p' => exact Or.inr ⟨_, rfl, rfl, rfl⟩
      | perr e => trivial
      | loopEnd e => trivial
      | crash k => trivial
      | fuel => trivial
  · split
    · exact Or.inl ⟨rfl, hp⟩
    · trivial

/-- part (c): one unfolding of `parse_content(LatexDelimitedGroupParser(…))`, whatever the sub-parses do -/
theorem group_step (env : Env) (htol : env.tol = false) (rec : Task → Ret) (d : GroupDelims) (opt ap : Bool)
    (f : PSFields) (p : Nat) : GroupGood p (step env rec (.pc (.group d opt ap) f p)) := by
  show GroupGood p (parseContent env.tol (rawGroup env rec d opt ap f p))
  unfold rawGroup
  rw [htol]
  cases groupState d f with
  | none => trivial
  | some g =>
    dsimp only
    cases hp : peekTok false (mkPS g) env.s p with
    | eos fs => exact Or.inl ⟨rfl, rfl⟩
    | err w ep t r => trivial
    | tok t => exact rawGroupTok_good rec d opt ap f g t p (peekTok_pos hp)

theorem group_run (env : Env) (htol : env.tol = false) (n : Nat) (d : GroupDelims) (opt ap : Bool)
    (f : PSFields) (p : Nat) : GroupGood p (run env n (.pc (.group d opt ap) f p)) := by
  cases n with
  | zero => trivial
  | succ n => exact group_step env htol (run env n) d opt ap f p

/-- what a successful expression parse returns: a node that ends at the reader -/
def ExprGood : Ret → Prop
  | .ok res q => ∃ nd, res = .node nd ∧ nd.posEnd = q
  | _ => True

theorem exprFinish_snoc (f : PSFields) (l : List Node) (x : Node) (q : Nat) :
    exprFinish f (l ++ [x]) q = .ok (.node x) q := by
  simp [exprFinish]

theorem exprOnTok_good (env : Env) (htol : env.tol = false) (rec : Task → Ret)
    (hE : ∀ ap sk f p, ExprGood (rec (.expr ap sk f p)))
    (hG : ∀ d o a f p, GroupGood p (rec (.pc (.group d o a) f p)))
    (ap : Bool) (sk : List Node) (f : PSFields) (t : Token) : ExprGood (exprOnTok env rec ap sk f t) := by
  unfold exprOnTok
  cases hk : t.kind <;> dsimp only
  case comment =>
    split
    · exact hE _ _ _ _
    · rw [htol]; trivial
  case braceOpen =>
    have hg := hG (.auto t.arg) false false f t.pos
    cases hr : rec (.pc (.group (.auto t.arg) false false) f t.pos) with
    | ok res p =>
      rw [hr] at hg
      cases res with
      | node n =>
        dsimp only
        rw [exprFinish_snoc]
        rcases hg with ⟨h1, _⟩ | ⟨nd, h1, h2, _⟩
        · cases h1
        · cases h1; exact ⟨_, rfl, h2⟩
      | none => trivial
      | list a b c => trivial
      | args a b c => trivial
    | perr e => trivial
    | loopEnd e => trivial
    | crash k => trivial
    | fuel => trivial
  case char => rw [exprFinish_snoc]; exact ⟨_, rfl, rfl⟩
  all_goals trivial

theorem exprTok_good (env : Env) (htol : env.tol = false) (rec : Task → Ret)
    (hE : ∀ ap sk f p, ExprGood (rec (.expr ap sk f p)))
    (hG : ∀ d o a f p, GroupGood p (rec (.pc (.group d o a) f p)))
    (ap : Bool) (sk : List Node) (f : PSFields) (t : Token) : ExprGood (exprTok env rec ap sk f t) := by
  unfold exprTok
  dsimp only
  rw [htol]
  split
  · split
    · trivial
    · rw [exprFinish_snoc]; exact ⟨_, rfl, rfl⟩
  · split
    · rw [exprFinish_snoc]; exact ⟨_, rfl, rfl⟩
    · split
      · split
        · exact hE _ _ _ _
        · trivial
      · exact exprOnTok_good env htol rec hE hG ap sk f t

theorem exprStep_good (env : Env) (htol : env.tol = false) (rec : Task → Ret)
    (hE : ∀ ap sk f p, ExprGood (rec (.expr ap sk f p)))
    (hG : ∀ d o a f p, GroupGood p (rec (.pc (.group d o a) f p)))
    (ap : Bool) (sk : List Node) (f : PSFields) (p : Nat) : ExprGood (exprStep env rec ap sk f p) := by
  unfold exprStep
  dsimp only
  cases peekTok env.tol (mkPS ({ f with enEnvs := false } : PSFields).normalize) env.s p with
  | err w ep t r => trivial
  | eos fs => dsimp only; rw [htol]; trivial
  | tok t => exact exprTok_good env htol rec hE hG ap sk f t

theorem expr_run (env : Env) (htol : env.tol = false) :
    ∀ n ap sk f p, ExprGood (run env n (.expr ap sk f p)) := by
  intro n
  induction n with
  | zero => intros; trivial
  | succ n ih =>
    intro ap sk f p
    exact exprStep_good env htol (run env n) ih (group_run env htol n) ap sk f p

/-- part (b): a successful `parse_content(LatexExpressionParser())` returns a node and leaves the reader at its end -/
theorem expr_fact (env : Env) (htol : env.tol = false) (m : Nat) (ap : Bool) (f : PSFields) (p : Nat) :
    ExprGood (run env m (.pc (.expression ap) f p)) := by
  cases m with
  | zero => trivial
  | succ m =>
    show ExprGood (parseContent env.tol (.ret (run env m (.expr ap [] f p))))
    rw [htol, parseContent_false_ret]
    exact expr_run env htol m ap [] f p

/-! ### the two argument algorithms, without assuming a lexically clean input -/

/-- the decidable side conditions on the parsing state (all hold of the walker's default state):
    normalized, environments and macros enabled, the letters of `begin` / `end` are macro-name characters,
    the square brackets are not forbidden characters, `*` is not declared as specials -/
def SideOk (f : PSFields) : Prop :=
  f.normalize = f ∧ f.enEnvs = true ∧ f.enMacros = true ∧ envAlpha f = true ∧ brAllowed f = true ∧
  f.specials.contains ['*'] = false

instance (f : PSFields) : Decidable (SideOk f) := by unfold SideOk; infer_instance

/-- agreement of the legacy result `L` with the new result `N`:
    * success: the same argument nodes (bare macro / specials nodes with `nodeargd` erased) and final position;
    * failure: the same error — or, when the new parser fails on a token error although the legacy one does not
      read that token under the same state: the legacy expression parser fails on the macro `\begin` / `\end`
      (`small`: unless it has no fuel at all);
    * crash / out of fuel: the same. -/
def Agree2 (small : Prop) (pos0 : Nat) (L : Raw) (N : Ret) : Prop :=
  match N with
  | .ok (.args _ _ as) q => L = .ret (.ok (.args (some pos0) (some q) (as.map stripArg)) q)
  | .perr e => L = .ret (.perr e) ∨
      (e.what = .tokBadEnv ∧ ∃ e', L = .ret (.perr e') ∧ e'.what = .exprBeginEnd ∧ e'.pos = e.pos) ∨
      (small ∧ L = .ret .fuel)
  | .crash k => L = .ret (.crash k)
  | .fuel => L = .ret .fuel
  | .loopEnd _ => L = .ret (.crash "loopEnd")
  | .ok _ _ => False

theorem argsLoop_cons_err {env : Env} {rec : Task → Ret} {f : PSFields} {a : ArgSpec} {rest : List ArgSpec}
    {acc : List Arg} {pos : Nat} {w : TokErr} {ep : Nat} {t : Token} {r : Nat}
    (h : peekTok env.tol (mkPS f) env.s pos = .err w ep t r) :
    argsLoop env rec f (a :: rest) acc pos = .perr { what := tokErrWhat w, pos := some ep, rpos := pos } := by
  rw [argsLoop, h]

theorem argsLoop_cons_ok {env : Env} {rec : Task → Ret} {f : PSFields} {a : ArgSpec} {rest : List ArgSpec}
    {acc : List Arg} {pos : Nat} (h : ∀ w ep t r, peekTok env.tol (mkPS f) env.s pos ≠ .err w ep t r) :
    argsLoop env rec f (a :: rest) acc pos =
      match rec (.pc (argParser a.kind) (applyDelta f a.delta) pos) with
      | .ok res p => argsLoop env rec f rest (acc ++ [resToArg res]) p
      | other => other := by
  rw [argsLoop]
  split
  · rename_i w ep t r heq
    exact absurd heq (h w ep t r)
  · rfl

section steps2
variable {env : Env} {sw : Sw} {f : PSFields} {la : LArgs}

/-- a token error at `p` under `f`: the expression parser fails too -/
theorem expr_err (htol : env.tol = false) (hm : f.enMacros = true) (ha : envAlpha f = true) (k p : Nat)
    {w : TokErr} {ep : Nat} {t : Token} {r : Nat} (hpk : peekTok false (mkPS f) env.s p = .err w ep t r) :
    ∃ e', run env (k + 2) (.pc (.expression true) f p) = .perr e' ∧
      (e' = { what := tokErrWhat w, pos := some ep, rpos := p } ∨
       (w = .badEnvName ∧ e'.what = .exprBeginEnd ∧ e'.pos = some ep)) := by
  have hrun : run env (k + 2) (.pc (.expression true) f p) = exprStep env (run env k) true [] f p := by
    show parseContent env.tol (.ret (exprStep env (run env k) true [] f p)) = _
    rw [htol, parseContent_false_ret]
  rw [hrun]
  unfold exprStep
  dsimp only
  rw [htol]
  rcases err_exprFields hm ha env.s p hpk with h | ⟨hw, t', h1, h2, h3, h4⟩
  · unfold exprFields at h
    rw [h]
    exact ⟨_, rfl, Or.inl rfl⟩
  · unfold exprFields at h1
    rw [h1]
    dsimp only
    unfold exprTok
    dsimp only
    have hk : (t'.kind == TokKind.macro) = true := by rw [h2]; rfl
    have hb : (t'.arg == "begin".toList || t'.arg == "end".toList) = true := by
      rcases h3 with h3 | h3 <;> rw [h3] <;> rfl
    rw [if_pos hk, if_pos hb, htol]
    exact ⟨_, rfl, Or.inr ⟨hw, rfl, by rw [← h4]⟩⟩

/-- a token error at `p` under `f`: the optional-group parser raises the same error -/
theorem group_err (htol : env.tol = false) (hb : brAllowed f = true) (k p : Nat)
    {w : TokErr} {ep : Nat} {t : Token} {r : Nat} (hpk : peekTok false (mkPS f) env.s p = .err w ep t r) :
    run env (k + 1) (.pc (.group (.pair ['['] [']']) true true) f p)
      = .perr { what := tokErrWhat w, pos := some ep, rpos := p } := by
  show parseContent env.tol (rawGroup env (run env k) (.pair ['['] [']']) true true f p) = _
  unfold rawGroup
  rw [groupState_br]
  dsimp only
  rw [htol, err_brFields hb env.s p hpk]
  rfl

theorem step_mand_perr (htol : env.tol = false) (hsb : sw.strictBrace = true) (hmm : la.mathModes = none) (m j p : Nat)
    (e : PErr) (h : run env m (.pc (.expression true) f p) = .perr e) :
    legacyArgStep env sw m f f la j .mand p = .stop (.perr e) :=
  (step_mand (m := m) htol hsb hmm j p).2 e h

theorem step_mand_crash (hmm : la.mathModes = none) (m j p : Nat) (k : String)
    (h : run env m (.pc (.expression true) f p) = .crash k) :
    legacyArgStep env sw m f f la j .mand p = .stop (.crash k) := by
  simp [legacyArgStep, mathModeAt, hmm, innerFields, getLatexExpression, h]

theorem step_mand_fuel (hmm : la.mathModes = none) (m j p : Nat)
    (h : run env m (.pc (.expression true) f p) = .fuel) :
    legacyArgStep env sw m f f la j .mand p = .stop .fuel := by
  simp [legacyArgStep, mathModeAt, hmm, innerFields, getLatexExpression, h]

theorem step_mand_loopEnd (hmm : la.mathModes = none) (m j p : Nat) (e : LoopEnd)
    (h : run env m (.pc (.expression true) f p) = .loopEnd e) :
    legacyArgStep env sw m f f la j .mand p = .stop (.crash "loopEnd") := by
  simp [legacyArgStep, mathModeAt, hmm, innerFields, getLatexExpression, h]

theorem step_opt_loopEnd (hop : sw.optPre = true) (hns : la.optNoSpace = false) (hmm : la.mathModes = none) (m j p : Nat)
    (e : LoopEnd) (h : run env m (.pc (.group (.pair ['['] [']']) true true) f p) = .loopEnd e) :
    legacyArgStep env sw m f f la j .opt p = .stop (.crash "loopEnd") := by
  simp [legacyArgStep, mathModeAt, hmm, innerFields, hns, getLatexMaybeOptionalArg, hop, h, optTuple, nodeTuple]

theorem step_opt_crash (hop : sw.optPre = true) (hns : la.optNoSpace = false) (hmm : la.mathModes = none) (m j p : Nat)
    (k : String) (h : run env m (.pc (.group (.pair ['['] [']']) true true) f p) = .crash k) :
    legacyArgStep env sw m f f la j .opt p = .stop (.crash k) := by
  simp [legacyArgStep, mathModeAt, hmm, innerFields, hns, getLatexMaybeOptionalArg, hop, h, optTuple, nodeTuple]

theorem step_opt_fuel (hop : sw.optPre = true) (hns : la.optNoSpace = false) (hmm : la.mathModes = none) (m j p : Nat)
    (h : run env m (.pc (.group (.pair ['['] [']']) true true) f p) = .fuel) :
    legacyArgStep env sw m f f la j .opt p = .stop .fuel := by
  simp [legacyArgStep, mathModeAt, hmm, innerFields, hns, getLatexMaybeOptionalArg, hop, h, optTuple, nodeTuple]

theorem step_star_err (htol : env.tol = false) (hfn : f.normalize = f)
    (hen : f.enEnvs = true) (m j p : Nat) {w : TokErr} {ep : Nat} {t : Token} {r : Nat}
    (hpk : peekTok false (mkPS f) env.s p = .err w ep t r) :
    legacyArgStep env sw m f f la j .star p = .stop (.perr { what := tokErrWhat w, pos := some ep, rpos := p }) := by
  simp only [legacyArgStep, getToken, tokFields_default hen, hfn, peekAt, htol, hpk]

/-- the star slot when the reader does not fail: part (d) proved by `star_fact` -/
theorem step_star2 (htol : env.tol = false) (h23 : sw.f23 = true) (hmm : la.mathModes = none)
    (hfn : f.normalize = f) (hen : f.enEnvs = true) (hst : f.specials.contains ['*'] = false) (k m j p : Nat)
    (hpk : ∀ w ep t r, peekTok false (mkPS f) env.s p ≠ .err w ep t r) :
    ∃ res q, run env (k + 1) (.pc (.marker '*' false true) f p) = .ok res q ∧
      legacyArgStep env sw m f f la j .star p = .next (stripArg (resToArg res)) q := by
  have hrun : run env (k + 1) (.pc (.marker '*' false true) f p) = parseContent false (rawMarker env '*' false true f p) := by
    show parseContent env.tol _ = _
    rw [htol]; rfl
  rw [hrun]
  simp only [legacyArgStep, mathModeAt, hmm, innerFields, getToken, tokFields_default hen, hfn, peekAt]
  unfold rawMarker
  rw [htol]
  cases hp : peekTok false (mkPS f) env.s p with
  | err w ep t r => exact absurd hp (hpk w ep t r)
  | eos fs => exact ⟨.none, p, rfl, by simp [h23, stripArg, resToArg]⟩
  | tok t =>
    have hns : ['*'] ∉ (mkPS f).f.specials := by
      rw [mkPS_specials]
      intro hmem
      rw [List.contains_iff_mem.mpr hmem] at hst
      cases hst
    obtain ⟨hc, hlen⟩ := star_fact hns (by rw [← peekTok_false]; exact hp)
    dsimp only
    simp only [Bool.not_true, Bool.and_false, Bool.false_eq_true, if_false]
    rw [hc]
    by_cases hstar : ((t.kind == .char || t.kind == .specials) && t.arg == ['*']) = true
    · have hl := hlen (by rw [hc]; exact hstar)
      simp only [hstar, if_true]
      exact ⟨_, _, rfl, by simp [stripArg, resToArg, stripArgs, hl]⟩
    · simp only [hstar, Bool.false_eq_true, if_false]
      split
      · exact ⟨.none, p, rfl, by simp [stripArg, resToArg]⟩
      · exact ⟨.none, p, rfl, by simp [stripArg, resToArg]⟩

end steps2

theorem loop_agree2 (env : Env) (htol : env.tol = false) (sw : Sw) (h23 : sw.f23 = true) (hsb : sw.strictBrace = true)
    (hop : sw.optPre = true) (f : PSFields) (hs : SideOk f) (n : Nat)
    (la : LArgs) (hns : la.optNoSpace = false) (hmm : la.mathModes = none) (pos0 : Nat) :
    ∀ (l : List LArgT) (j : Nat) (accN : List Arg) (p : Nat),
      Agree2 (n = 0) pos0 (legacyArgsLoop env sw (n + 1) f f la pos0 l j (accN.map stripArg) p)
        (argsLoop env (run env (n + 1)) f (l.map specOf) accN p) := by
  obtain ⟨hfn, hen, hma, hal, hbr, hst⟩ := hs
  intro l
  induction l with
  | nil => intro j accN p; simp [legacyArgsLoop, argsLoop, Agree2]
  | cons argt rest ih =>
    intro j accN p
    have hmap : ∀ a : Arg, accN.map stripArg ++ [stripArg a] = (accN ++ [a]).map stripArg := by
      intro a; simp
    rw [List.map_cons]
    unfold legacyArgsLoop
    by_cases hpk : ∃ w ep t r, peekTok false (mkPS f) env.s p = .err w ep t r
    · -- the reader fails at `p`: the new parser stops here with the token error
      obtain ⟨w, ep, t, r, hpk⟩ := hpk
      rw [argsLoop_cons_err (by rw [htol]; exact hpk)]
      cases argt with
      | mand =>
        cases n with
        | zero =>
          have : run env 1 (.pc (.expression true) f p) = .fuel := by
            show parseContent env.tol (.ret .fuel) = _
            rw [htol]; rfl
          rw [step_mand_fuel hmm _ j p this]
          exact Or.inr (Or.inr ⟨rfl, rfl⟩)
        | succ k =>
          obtain ⟨e', hr, he⟩ := expr_err (env := env) htol hma hal k p hpk
          rw [step_mand_perr htol hsb hmm _ j p e' hr]
          rcases he with he | ⟨hw, h1, h2⟩
          · rw [he]; exact Or.inl rfl
          · refine Or.inr (Or.inl ⟨?_, e', rfl, h1, h2⟩)
            show tokErrWhat w = _
            rw [hw]; rfl
      | opt =>
        have hr := group_err (env := env) htol hbr n p hpk
        rw [(step_opt (env := env) (la := la) (sw := sw) (m := n + 1) (f := f) hop hns hmm j p).2.2 _ hr]
        exact Or.inl rfl
      | star =>
        rw [step_star_err htol hfn hen _ j p hpk]
        exact Or.inl rfl
    · have hpk' : ∀ w ep t r, peekTok false (mkPS f) env.s p ≠ .err w ep t r :=
        fun w ep t r h => hpk ⟨w, ep, t, r, h⟩
      rw [argsLoop_cons_ok (by rw [htol]; exact hpk')]
      cases argt with
      | mand =>
        have hs := step_mand (la := la) (sw := sw) (m := n + 1) (f := f) htol hsb hmm j p
        show Agree2 _ pos0 _ (match run env (n + 1) (.pc (.expression true) f p) with
          | .ok res p' => _ | other => other)
        have hg := expr_fact env htol (n + 1) true f p
        cases hr : run env (n + 1) (.pc (.expression true) f p) with
        | ok res q =>
          rw [hr] at hg
          obtain ⟨nd, rfl, hq⟩ := hg
          rw [hs.1 nd q hr hq]
          dsimp only
          have := ih (j + 1) (accN ++ [Arg.node nd]) q
          rw [← hmap] at this
          exact this
        | perr e => rw [hs.2 e hr]; exact Or.inl rfl
        | loopEnd e => rw [step_mand_loopEnd hmm _ j p e hr]; rfl
        | crash k => rw [step_mand_crash hmm _ j p k hr]; rfl
        | fuel => rw [step_mand_fuel hmm _ j p hr]; rfl
      | opt =>
        have hs := step_opt (env := env) (la := la) (sw := sw) (m := n + 1) (f := f) hop hns hmm j p
        show Agree2 _ pos0 _ (match run env (n + 1) (.pc (.group (.pair ['['] [']']) true true) f p) with
          | .ok res p' => _ | other => other)
        have hg := group_run env htol (n + 1) (.pair ['['] [']']) true true f p
        cases hr : run env (n + 1) (.pc (.group (.pair ['['] [']']) true true) f p) with
        | ok res q =>
          rw [hr] at hg
          rcases hg with ⟨rfl, rfl⟩ | ⟨nd, rfl, hq, hsn⟩
          · rw [hs.1 q hr]
            dsimp only
            have := ih (j + 1) (accN ++ [Arg.absent]) q
            rw [← hmap] at this
            exact this
          · rw [hs.2.1 nd q hr hq]
            dsimp only
            have := ih (j + 1) (accN ++ [Arg.node nd]) q
            rw [← hmap] at this
            have hg : stripArg (Arg.node nd) = Arg.node nd := by simp [stripArg, hsn]
            rw [hg] at this
            exact this
        | perr e => rw [hs.2.2 e hr]; exact Or.inl rfl
        | loopEnd e => rw [step_opt_loopEnd hop hns hmm _ j p e hr]; rfl
        | crash k => rw [step_opt_crash hop hns hmm _ j p k hr]; rfl
        | fuel => rw [step_opt_fuel hop hns hmm _ j p hr]; rfl
      | star =>
        obtain ⟨res, q, hr, hl⟩ := step_star2 (la := la) (sw := sw) (f := f) htol h23 hmm hfn hen hst n (n + 1) j p hpk'
        show Agree2 _ pos0 _ (match run env (n + 1) (.pc (.marker '*' false true) f p) with
          | .ok res p' => _ | other => other)
        rw [hr, hl]
        dsimp only
        have := ih (j + 1) (accN ++ [resToArg res]) q
        rw [← hmap] at this
        exact this

/-- **C16_legacy_args.**  For every argument string over `{*, [, {}` (induction on the string), in strict mode, on
    the repaired code, for every parsing state satisfying the decidable conditions `SideOk` (the walker's default
    state does), every context, input, position and amount of fuel — no assumption on the input (in particular it
    may contain token errors) and none on the parser:
    `MacroStandardArgsParser.parse_args` behind the legacy wrapper and `LatexArgumentsParser.parse`
    * succeed together, with the same argument nodes (`nodeargd` erased on bare macro / specials arguments) and
      the same final reader position;
    * fail together: with the same error, except that where the new parser stops at a malformed
      `\begin` / `\end` (token error) before a mandatory argument, the legacy parser reports
      "expression required, got `\begin`/`\end`" at the same position;
    * crash / run out of fuel together. -/
theorem C16_legacy_args (env : Env) (htol : env.tol = false) (sw : Sw) (h23 : sw.f23 = true)
    (hsb : sw.strictBrace = true) (hop : sw.optPre = true) (f : PSFields) (hs : SideOk f)
    (a : Str) (l : List LArgT) (ha : strLArgs a = some l) (n pos : Nat) :
    (∀ lp le as q, run env (n + 2) (.pc (.arguments (newOfStr a)) f pos) = .ok (.args lp le as) q →
        legacyParseArgs env sw (n + 1) f f { spec := l } pos = .ok (.args (some pos) (some q) (as.map stripArg)) q) ∧
    (∀ e, run env (n + 2) (.pc (.arguments (newOfStr a)) f pos) = .perr e → 1 ≤ n →
        legacyParseArgs env sw (n + 1) f f { spec := l } pos = .perr e ∨
        (e.what = .tokBadEnv ∧ ∃ e', legacyParseArgs env sw (n + 1) f f { spec := l } pos = .perr e' ∧
          e'.what = .exprBeginEnd ∧ e'.pos = e.pos)) ∧
    (∀ k, run env (n + 2) (.pc (.arguments (newOfStr a)) f pos) = .crash k →
        legacyParseArgs env sw (n + 1) f f { spec := l } pos = .crash k) ∧
    (run env (n + 2) (.pc (.arguments (newOfStr a)) f pos) = .fuel →
        legacyParseArgs env sw (n + 1) f f { spec := l } pos = .fuel) ∧
    (∀ x, run env (n + 2) (.pc (.arguments (newOfStr a)) f pos) = .loopEnd x →
        legacyParseArgs env sw (n + 1) f f { spec := l } pos = .crash "loopEnd") ∧
    (∀ res q, run env (n + 2) (.pc (.arguments (newOfStr a)) f pos) = .ok res q → ∃ lp le as, res = .args lp le as) := by
  have hnew : run env (n + 2) (.pc (.arguments (newOfStr a)) f pos)
      = argsLoop env (run env (n + 1)) f (l.map specOf) [] pos := by
    show parseContent env.tol (rawArguments env (run env (n + 1)) (newOfStr a) f pos) = _
    rw [htol]
    unfold newOfStr
    rw [strSpecs_of_strLArgs a l ha]
    exact parseContent_false_ret _
  have hleg : legacyParseArgs env sw (n + 1) f f { spec := l } pos
      = parseContent false (legacyArgsLoop env sw (n + 1) f f { spec := l } pos l 0 [] pos) := by
    unfold legacyParseArgs rawLegacyArgs
    rw [htol]
  have hag := loop_agree2 env htol sw h23 hsb hop f hs n { spec := l } rfl rfl pos l 0 [] pos
  rw [List.map_nil] at hag
  rw [hnew, hleg]
  refine ⟨?_, ?_, ?_, ?_, ?_, ?_⟩
  · intro lp le as q h
    rw [h] at hag
    simp only [Agree2] at hag
    rw [hag]; rfl
  · intro e h hn
    rw [h] at hag
    simp only [Agree2] at hag
    rcases hag with hag | ⟨hw, e', hag, h1, h2⟩ | ⟨h0, _⟩
    · left; rw [hag]; rfl
    · right; exact ⟨hw, e', by rw [hag]; rfl, h1, h2⟩
    · omega
  · intro k h
    rw [h] at hag
    simp only [Agree2] at hag
    rw [hag]; rfl
  · intro h
    rw [h] at hag
    simp only [Agree2] at hag
    rw [hag]; rfl
  · intro x h
    rw [h] at hag
    simp only [Agree2] at hag
    rw [hag]; rfl
  · intro res q h
    rw [h] at hag
    cases res with
    | args lp le as => exact ⟨lp, le, as, rfl⟩
    | none => exact hag.elim
    | node nd => exact hag.elim
    | list a b c => exact hag.elim

/-- **fail exactly when**: with at least two units of fuel below the arguments parser, the legacy algorithm succeeds
    exactly when the new one does, and fails (raises a parse error) exactly when the new one does -/
theorem C16_legacy_args_iff (env : Env) (htol : env.tol = false) (sw : Sw) (h23 : sw.f23 = true)
    (hsb : sw.strictBrace = true) (hop : sw.optPre = true) (f : PSFields) (hs : SideOk f)
    (a : Str) (l : List LArgT) (ha : strLArgs a = some l) (n pos : Nat) (hn : 1 ≤ n) :
    ((∃ r q, legacyParseArgs env sw (n + 1) f f { spec := l } pos = .ok r q) ↔
      (∃ r q, run env (n + 2) (.pc (.arguments (newOfStr a)) f pos) = .ok r q)) ∧
    ((∃ e, legacyParseArgs env sw (n + 1) f f { spec := l } pos = .perr e) ↔
      (∃ e, run env (n + 2) (.pc (.arguments (newOfStr a)) f pos) = .perr e)) := by
  obtain ⟨h1, h2, h3, h4, h5, h6⟩ := C16_legacy_args env htol sw h23 hsb hop f hs a l ha n pos
  cases hN : run env (n + 2) (.pc (.arguments (newOfStr a)) f pos) with
  | ok res q =>
    obtain ⟨lp, le, as, rfl⟩ := h6 res q hN
    rw [h1 lp le as q hN]
    simp
  | perr e =>
    rcases h2 e hN hn with hL | ⟨_, e', hL, _⟩ <;> rw [hL] <;> simp
  | crash k => rw [h3 k hN]; simp
  | fuel => rw [h4 hN]; simp
  | loopEnd x => rw [h5 x hN]; simp

/-- the walker's default parsing state satisfies the side conditions -/
example : SideOk {} := by decide

/-- … and so does the walker's default state for the default latex context (its specials: `~`, `&`, …) -/
example : SideOk { specials := Gen.defaultCtx.specials.map (·.1) } := by decide

/-! ### non-vacuity and the counterexamples to the unconditional statement -/

/-- `C16_legacy_args` on `\m*[b]{a}x` at the position after `\m`, argument string `*[{`: both succeed, three
    arguments, reader after `{a}` -/
example : ∃ as, legacyParseArgs (wEnv false "\\m*[b]{a}x") Sw.repaired 13 {} {} { spec := [.star, .opt, .mand] } 2
      = .ok (.args (some 2) (some 9) as) 9 ∧ as.length = 3 := by
  have hd : argsSummary (run (wEnv false "\\m*[b]{a}x") 14 (.pc (.arguments (newOfStr ['*', '[', '{'])) {} 2))
      = some ([true, true, true], 9) := by decide
  have hthm := (C16_legacy_args (wEnv false "\\m*[b]{a}x") rfl Sw.repaired rfl rfl rfl {} (by decide)
    ['*', '[', '{'] [.star, .opt, .mand] rfl 12 2).1
  cases h : run (wEnv false "\\m*[b]{a}x") 14 (.pc (.arguments (newOfStr ['*', '[', '{'])) {} 2) with
  | ok res q =>
    rw [h] at hd
    cases res with
    | args lp le as =>
      simp only [argsSummary, Option.some.injEq, Prod.mk.injEq] at hd
      obtain ⟨h1, rfl⟩ := hd
      refine ⟨as.map stripArg, hthm lp le as 9 h, ?_⟩
      have := congrArg List.length h1
      simpa using this
    | none => cases hd
    | node n => cases hd
    | list a b c => cases hd
  | perr e => rw [h] at hd; cases hd
  | loopEnd e => rw [h] at hd; cases hd
  | crash k => rw [h] at hd; cases hd
  | fuel => rw [h] at hd; cases hd

def retWhat : Ret → Option ErrWhat
  | .perr e => some e.what
  | _ => none

def rawWhat : Raw → Option ErrWhat
  | .ret r => retWhat r
  | .eos _ => none

/-- `C16_legacy_args` on `\begin x` (a token error), argument string `{`: both fail -/
example : retIsPerr (legacyParseArgs (wEnv false "\\begin x") Sw.repaired 13 {} {} { spec := [.mand] } 0) = true := by
  have hd : retIsPerr (run (wEnv false "\\begin x") 14 (.pc (.arguments (newOfStr ['{'])) {} 0)) = true := by decide
  have hthm := (C16_legacy_args (wEnv false "\\begin x") rfl Sw.repaired rfl rfl rfl {} (by decide)
    ['{'] [.mand] rfl 12 0).2.1
  cases h : run (wEnv false "\\begin x") 14 (.pc (.arguments (newOfStr ['{'])) {} 0) with
  | perr e =>
    rcases hthm e h (by decide) with h1 | ⟨_, e', h1, _⟩ <;> rw [h1] <;> rfl
  | ok res q => rw [h] at hd; cases hd
  | loopEnd e => rw [h] at hd; cases hd
  | crash k => rw [h] at hd; cases hd
  | fuel => rw [h] at hd; cases hd

/-- **Counterexample to `C16_legacy_args_full`** (default state, default-like context): on `\begin x` with the
    argument string `{` both algorithms fail, but not with the same error — the new parser reports the token error
    (`peek_token_or_none` reads with environments enabled), the legacy one "expression required, got `\begin`" (the
    expression parser reads with environments disabled). -/
theorem C16_begin_error_kinds :
    retWhat (parseArgsVia (wEnv false "\\begin x") Sw.repaired 14 {} {} (.newStr ['{']) 0) = some .tokBadEnv ∧
    retWhat (parseArgsVia (wEnv false "\\begin x") Sw.repaired 14 {} {} (.posObj ['{']) 0) = some .exprBeginEnd := by
  decide

/-- the full statement of C16 ("the same error") is false -/
theorem C16_legacy_args_full_false : ¬ C16_legacy_args_full := by
  intro h
  have h1 := h (wEnv false "\\begin x") rfl Sw.repaired rfl rfl rfl {} rfl rfl (by decide) ['{'] [.mand] rfl 12 0
  have hN : retWhat (run (wEnv false "\\begin x") 14 (.pc (.arguments (newOfStr ['{'])) {} 0)) = some .tokBadEnv := by
    decide
  have hL : rawWhat (rawLegacyArgs (wEnv false "\\begin x") Sw.repaired 13 {} {} { spec := [.mand] } 0)
      = some .exprBeginEnd := by decide
  cases hr : run (wEnv false "\\begin x") 14 (.pc (.arguments (newOfStr ['{'])) {} 0) with
  | perr e =>
    rw [hr] at h1 hN
    simp only [Agree] at h1
    rw [h1] at hL
    simp only [rawWhat, retWhat, Option.some.injEq] at hL hN
    rw [hL] at hN
    cases hN
  | ok res q => rw [hr] at hN; cases hN
  | loopEnd e => rw [hr] at hN; cases hN
  | crash k => rw [hr] at hN; cases hN
  | fuel => rw [hr] at hN; cases hN

def retIsOk : Ret → Bool
  | .ok _ _ => true
  | _ => false

/-- the side conditions of `C16_legacy_args` are needed: dropping any of the three new ones, the new parser fails
    (token error) where the legacy one succeeds —
    `b` not a macro-name character (`\begin x` is then `\b` for the expression parser);
    macros disabled (`\` is then an ordinary character for the expression parser);
    `[` a forbidden character (for the group parser `[` is a delimiter, read before forbidden characters are checked) -/
theorem C16_side_conditions_needed :
    (retIsPerr (parseArgsVia (wEnv false "\\begin x") Sw.repaired 14 { macroAlpha := ['a'] } { macroAlpha := ['a'] } (.newStr ['{']) 0) = true ∧
     retIsOk (parseArgsVia (wEnv false "\\begin x") Sw.repaired 14 { macroAlpha := ['a'] } { macroAlpha := ['a'] } (.posObj ['{']) 0) = true) ∧
    (retIsPerr (parseArgsVia (wEnv false "\\begin x") Sw.repaired 14 { enMacros := false } { enMacros := false } (.newStr ['{']) 0) = true ∧
     retIsOk (parseArgsVia (wEnv false "\\begin x") Sw.repaired 14 { enMacros := false } { enMacros := false } (.posObj ['{']) 0) = true) ∧
    (retIsPerr (parseArgsVia (wEnv false "[a]") Sw.repaired 14 { forbidden := ['['] } { forbidden := ['['] } (.newStr ['[']) 0) = true ∧
     retIsOk (parseArgsVia (wEnv false "[a]") Sw.repaired 14 { forbidden := ['['] } { forbidden := ['['] } (.posObj ['[']) 0) = true) := by
  decide

/-! ### tolerant mode -/

/-- the recovery placeholder of a token error does not begin with `*` unless it is a one-character token
    (needs: the escape character is not `*`) -/
def PhStar : PeekRes → Prop
  | .err _ _ t _ => StarTok t
  | _ => True

section phstar
variable {ps : PState} {s : Str} {p : Nat} {c : Char} {pre : Str}

theorem charToken_ph : PhStar (charToken ps c p pre) := by
  unfold charToken
  split
  · exact fun _ => Or.inl ⟨c, rfl, rfl⟩
  · trivial

theorem peekSpecialsOrChar_ph : PhStar (peekSpecialsOrChar ps s p c pre) := by
  unfold peekSpecialsOrChar
  split
  · trivial
  · exact charToken_ph

theorem peekGroups_ph : PhStar (peekGroups ps s p c pre) := by
  unfold peekGroups
  split
  · split
    · trivial
    · split
      · trivial
      · exact peekSpecialsOrChar_ph
  · exact peekSpecialsOrChar_ph

theorem peekComment_ph : PhStar (peekComment ps s p c pre) := by
  unfold peekComment
  split
  · unfold readComment
    dsimp only
    split <;> trivial
  · exact peekGroups_ph

theorem peekEscape_ph (hesc : ps.f.escapeChar ≠ '*') : PhStar (peekEscape ps s p c pre) := by
  unfold peekEscape
  split
  · split
    · unfold readEnvironment
      split
      · intro _
        right
        intro hh
        simp only [List.head?_cons, Option.some.injEq] at hh
        exact hesc hh
      · trivial
    · split
      · unfold readMacro
        split
        · intro _
          right
          intro hh
          cases hh
        · split <;> trivial
      · exact peekComment_ph
  · exact peekComment_ph

theorem peekAtChar_ph (hesc : ps.f.escapeChar ≠ '*') : PhStar (peekAtChar ps s p c pre) := by
  unfold peekAtChar
  split
  · split
    · trivial
    · exact peekEscape_ph hesc
  · exact peekEscape_ph hesc

end phstar

theorem peekImpl_ph {ps : PState} (hesc : ps.f.escapeChar ≠ '*') (s : Str) (p0 : Nat) : PhStar (peekImpl ps s p0) := by
  unfold peekImpl
  dsimp only
  split
  · obtain ⟨t', ht', _⟩ := peekPar_kind ps s p0 (spaceRun s p0)
    rw [ht']; trivial
  · split
    · trivial
    · exact peekAtChar_ph hesc

theorem mkPS_escapeChar (f : PSFields) : (mkPS f).f.escapeChar = f.escapeChar := by
  unfold mkPS PState.fresh PSFields.normalize
  split <;> rfl

/-- part (d) for the tolerant reader -/
theorem star_factT {ps : PState} {s : Str} {p : Nat} {t : Token} (hns : ['*'] ∉ ps.f.specials)
    (hesc : ps.f.escapeChar ≠ '*') (h : peekTok true ps s p = .tok t) :
    ((t.kind == .char && t.arg.head? == some '*') = ((t.kind == .char || t.kind == .specials) && t.arg == ['*'])) ∧
    ((t.kind == .char && t.arg.head? == some '*') = true → t.posEnd = t.pos + 1) := by
  have h1 := peekImpl_star ps s p
  have h2 := peekImpl_ph hesc s p
  have h3 := peekImpl_any ps s p
  unfold peekTok at h
  split at h
  · rename_i w ep t' r heq
    rw [heq] at h2 h3
    simp only [if_true] at h
    cases h
    have hk : t.kind = .char := h3
    exact star_core hns h2 (fun hs => by rw [hk] at hs; cases hs)
  · rw [h] at h1
    exact star_core hns h1 (specials_arg_mem h)

theorem parseContent_true_not_perr (r : Raw) (e : PErr) : parseContent true r ≠ .perr e := by
  cases r with
  | eos p => intro h; cases h
  | ret r => cases r <;> intro h <;> simp [parseContent] at h

theorem run_pc_not_perr (env : Env) (htol : env.tol = true) (n : Nat) (p : Parser) (f : PSFields) (pos : Nat) (e : PErr) :
    run env n (.pc p f pos) ≠ .perr e := by
  cases n with
  | zero => intro h; cases h
  | succ n =>
    show parseContent env.tol _ ≠ _
    rw [htol]
    exact parseContent_true_not_perr _ e

/-- tolerant mode: a delimited-group parse never fails; it returns nothing (reader unmoved), a group node ending at
    the reader, or — only if the group is mandatory — the recovered empty node list -/
def GroupGoodT (opt : Bool) (p : Nat) : Ret → Prop
  | .ok res q => (res = .none ∧ q = p) ∨ (∃ nd, res = .node nd ∧ nd.posEnd = q ∧ stripArgs nd = nd) ∨
      (opt = false ∧ ∃ a b c, res = .list a b c)
  | .perr _ => False
  | _ => True

theorem rawGroupTok_goodT (rec : Task → Ret) (hrec : ∀ p f pos e, rec (.pc p f pos) ≠ .perr e)
    (d : GroupDelims) (opt ap : Bool) (f g : PSFields) (t : Token) (p : Nat)
    (hp : moveToToken t true = p) : GroupGoodT opt p (parseContent true (rawGroupTok rec d opt ap f g t)) := by
  unfold rawGroupTok
  split
  · cases groupCloser d g with
    | none => trivial
    | some c =>
      dsimp only
      unfold bindOk
      cases hr : rec (.pc (.general (.braceClose c) true (.group d.opener g f)) g t.posEnd) with
      | ok res p' => exact Or.inr (Or.inl ⟨_, rfl, rfl, rfl⟩)
      | perr e => exact absurd hr (hrec _ _ _ e)
      | loopEnd e => trivial
      | crash k => trivial
      | fuel => trivial
  · split
    · exact Or.inl ⟨rfl, hp⟩
    · rename_i ho
      have : opt = false := by simpa using ho
      exact Or.inr (Or.inr ⟨this, _, _, _, rfl⟩)

theorem group_stepT (env : Env) (htol : env.tol = true) (rec : Task → Ret)
    (hrec : ∀ p f pos e, rec (.pc p f pos) ≠ .perr e) (d : GroupDelims) (opt ap : Bool)
    (f : PSFields) (p : Nat) : GroupGoodT opt p (step env rec (.pc (.group d opt ap) f p)) := by
  show GroupGoodT opt p (parseContent env.tol (rawGroup env rec d opt ap f p))
  unfold rawGroup
  rw [htol]
  cases groupState d f with
  | none => trivial
  | some g =>
    dsimp only
    cases hp : peekTok true (mkPS g) env.s p with
    | eos fs => exact Or.inl ⟨rfl, rfl⟩
    | err w ep t r => exact absurd hp peekTok_tol_no_err
    | tok t => exact rawGroupTok_goodT rec hrec d opt ap f g t p (peekTok_pos hp)

theorem group_runT (env : Env) (htol : env.tol = true) (n : Nat) (d : GroupDelims) (opt ap : Bool)
    (f : PSFields) (p : Nat) : GroupGoodT opt p (run env n (.pc (.group d opt ap) f p)) := by
  cases n with
  | zero => trivial
  | succ n => exact group_stepT env htol (run env n) (run_pc_not_perr env htol n) d opt ap f p

/-- where `parse_content` leaves the reader after recovering from the error -/
def recPos (e : PErr) : Nat :=
  match e.recAt with
  | some t => moveToToken t true
  | none => match e.recPast with
    | some t => movePastToken t true
    | none => e.rpos

/-- tolerant mode, the expression parser's own `parse()`: a node ending at the reader, or an error whose recovery
    node ends at the recovery position -/
def ExprGoodT : Ret → Prop
  | .ok res q => ∃ nd, res = .node nd ∧ nd.posEnd = q
  | .perr e => ∃ nd, e.recNodes = .node nd ∧ nd.posEnd = recPos e
  | _ => True

/-- the whitespace / comment nodes skipped so far end at the reader -/
def SkOk (sk : List Node) (p : Nat) : Prop := ∀ n, sk.getLast? = some n → n.posEnd = p

theorem skOk_nil (p : Nat) : SkOk [] p := by intro n h; cases h

theorem skOk_snoc (sk : List Node) (x : Node) (p : Nat) (h : x.posEnd = p) : SkOk (sk ++ [x]) p := by
  intro n hn
  rw [List.getLast?_append, List.getLast?_singleton] at hn
  simp only [Option.some_or, Option.some.injEq] at hn
  rw [← hn]; exact h

theorem exprFinish_goodT (f : PSFields) (sk : List Node) (p : Nat) (h : SkOk sk p) : ExprGoodT (exprFinish f sk p) := by
  unfold exprFinish
  cases hl : sk.getLast? with
  | none => exact ⟨_, rfl, rfl⟩
  | some n => exact ⟨_, rfl, h n hl⟩

theorem exprOnTok_goodT (env : Env) (rec : Task → Ret)
    (hE : ∀ sk f p, SkOk sk p → ExprGoodT (rec (.expr true sk f p)))
    (hG : ∀ d a f p, GroupGoodT false p (rec (.pc (.group d false a) f p)))
    (sk : List Node) (f : PSFields) (t : Token) (hpre : t.pre = []) : ExprGoodT (exprOnTok env rec true sk f t) := by
  unfold exprOnTok
  cases hk : t.kind <;> dsimp only
  case comment =>
    rw [if_pos rfl]
    exact hE _ _ _ (skOk_snoc _ _ _ rfl)
  case braceOpen =>
    have hg := hG (.auto t.arg) false f t.pos
    cases hr : rec (.pc (.group (.auto t.arg) false false) f t.pos) with
    | ok res p =>
      rw [hr] at hg
      cases res with
      | node n =>
        dsimp only
        rw [exprFinish_snoc]
        rcases hg with ⟨h1, _⟩ | ⟨nd, h1, h2, _⟩ | ⟨_, a, b, c, h1⟩
        · cases h1
        · cases h1; exact ⟨_, rfl, h2⟩
        · cases h1
      | none => trivial
      | list a b c => trivial
      | args a b c => trivial
    | perr e => rw [hr] at hg; exact hg.elim
    | loopEnd e => trivial
    | crash k => trivial
    | fuel => trivial
  case braceClose =>
    refine ⟨_, rfl, ?_⟩
    simp [recPos, moveToToken, hpre, Node.posEnd]
  case char => rw [exprFinish_snoc]; exact ⟨_, rfl, rfl⟩
  case mathInline =>
    refine ⟨_, rfl, ?_⟩
    simp only [recPos, movePastToken, if_true]
    split <;> rfl
  case mathDisplay =>
    refine ⟨_, rfl, ?_⟩
    simp only [recPos, movePastToken, if_true]
    split <;> rfl
  all_goals trivial

theorem exprTok_goodT (env : Env) (htol : env.tol = true) (rec : Task → Ret)
    (hE : ∀ sk f p, SkOk sk p → ExprGoodT (rec (.expr true sk f p)))
    (hG : ∀ d a f p, GroupGoodT false p (rec (.pc (.group d false a) f p)))
    (sk : List Node) (f : PSFields) (t : Token) : ExprGoodT (exprTok env rec true sk f t) := by
  unfold exprTok
  dsimp only
  rw [htol]
  split
  · split
    · rw [if_pos rfl, exprFinish_snoc]; exact ⟨_, rfl, rfl⟩
    · rw [exprFinish_snoc]; exact ⟨_, rfl, rfl⟩
  · split
    · rw [exprFinish_snoc]; exact ⟨_, rfl, rfl⟩
    · split
      · rw [if_pos rfl]
        exact hE _ _ _ (skOk_snoc _ _ _ rfl)
      · rename_i hpre
        have : t.pre = [] := by simpa using hpre
        exact exprOnTok_goodT env rec hE hG sk f t this

theorem exprStep_goodT (env : Env) (htol : env.tol = true) (rec : Task → Ret)
    (hE : ∀ sk f p, SkOk sk p → ExprGoodT (rec (.expr true sk f p)))
    (hG : ∀ d a f p, GroupGoodT false p (rec (.pc (.group d false a) f p)))
    (sk : List Node) (f : PSFields) (p : Nat) (hsk : SkOk sk p) : ExprGoodT (exprStep env rec true sk f p) := by
  unfold exprStep
  dsimp only
  rw [htol]
  cases hp : peekTok true (mkPS ({ f with enEnvs := false } : PSFields).normalize) env.s p with
  | err w ep t r => exact absurd hp peekTok_tol_no_err
  | eos fs => dsimp only; rw [if_pos rfl]; exact exprFinish_goodT f sk p hsk
  | tok t => exact exprTok_goodT env htol rec hE hG sk f t

theorem expr_runT (env : Env) (htol : env.tol = true) :
    ∀ n sk f p, SkOk sk p → ExprGoodT (run env n (.expr true sk f p)) := by
  intro n
  induction n with
  | zero => intros; trivial
  | succ n ih =>
    intro sk f p hsk
    exact exprStep_goodT env htol (run env n) ih (fun d a f p => group_runT env htol n d false a f p) sk f p hsk

/-- part (b), tolerant mode: `parse_content(LatexExpressionParser())` never fails, and a result is a node with the
    reader at its end -/
theorem expr_factT (env : Env) (htol : env.tol = true) (m : Nat) (f : PSFields) (p : Nat) :
    ExprGood (run env m (.pc (.expression true) f p)) := by
  cases m with
  | zero => trivial
  | succ m =>
    show ExprGood (parseContent env.tol (.ret (run env m (.expr true [] f p))))
    rw [htol]
    have hg := expr_runT env htol m [] f p (skOk_nil p)
    cases hr : run env m (.expr true [] f p) with
    | ok res q => rw [hr] at hg; exact hg
    | perr e =>
      rw [hr] at hg
      obtain ⟨nd, h1, h2⟩ := hg
      have hpc : parseContent true (.ret (.perr e)) = .ok e.recNodes (recPos e) := rfl
      rw [hpc, h1]
      exact ⟨nd, rfl, h2⟩
    | loopEnd e => trivial
    | crash k => trivial
    | fuel => trivial

/-- the decidable side conditions for tolerant mode: normalized, environments enabled, `*` is not declared as
    specials and is not the escape character -/
def SideOkT (f : PSFields) : Prop :=
  f.normalize = f ∧ f.enEnvs = true ∧ f.specials.contains ['*'] = false ∧ f.escapeChar ≠ '*'

instance (f : PSFields) : Decidable (SideOkT f) := by unfold SideOkT; infer_instance

/-- agreement in tolerant mode: the new parser does not fail -/
def AgreeT (pos0 : Nat) (L : Raw) (N : Ret) : Prop :=
  match N with
  | .ok (.args _ _ as) q => L = .ret (.ok (.args (some pos0) (some q) (as.map stripArg)) q)
  | .perr _ => False
  | .crash k => L = .ret (.crash k)
  | .fuel => L = .ret .fuel
  | .loopEnd _ => L = .ret (.crash "loopEnd")
  | .ok _ _ => False

section stepsT
variable {env : Env} {sw : Sw} {f : PSFields} {la : LArgs}

theorem step_mand_ok (hmm : la.mathModes = none) (m j p : Nat) (nd : Node) (q : Nat)
    (h : run env m (.pc (.expression true) f p) = .ok (.node nd) q) (hq : nd.posEnd = q) :
    legacyArgStep env sw m f f la j .mand p = .next (.node (stripArgs nd)) q := by
  simp only [legacyArgStep, mathModeAt, hmm, innerFields, getLatexExpression, h, exprPost, nodeLen,
    (stripArgs_pos nd).1, (stripArgs_pos nd).2, toNat_end, hq]

theorem step_starT (htol : env.tol = true) (h23 : sw.f23 = true) (hmm : la.mathModes = none)
    (hfn : f.normalize = f) (hen : f.enEnvs = true) (hst : f.specials.contains ['*'] = false)
    (hesc : f.escapeChar ≠ '*') (k m j p : Nat) :
    ∃ res q, run env (k + 1) (.pc (.marker '*' false true) f p) = .ok res q ∧
      legacyArgStep env sw m f f la j .star p = .next (stripArg (resToArg res)) q := by
  have hrun : run env (k + 1) (.pc (.marker '*' false true) f p) = parseContent true (rawMarker env '*' false true f p) := by
    show parseContent env.tol _ = _
    rw [htol]; rfl
  rw [hrun]
  simp only [legacyArgStep, mathModeAt, hmm, innerFields, getToken, tokFields_default hen, hfn, peekAt]
  unfold rawMarker
  rw [htol]
  cases hp : peekTok true (mkPS f) env.s p with
  | err w ep t r => exact absurd hp peekTok_tol_no_err
  | eos fs => exact ⟨.none, p, rfl, by simp [h23, stripArg, resToArg]⟩
  | tok t =>
    have hns : ['*'] ∉ (mkPS f).f.specials := by
      rw [mkPS_specials]
      intro hmem
      rw [List.contains_iff_mem.mpr hmem] at hst
      cases hst
    obtain ⟨hc, hlen⟩ := star_factT hns (by rw [mkPS_escapeChar]; exact hesc) hp
    dsimp only
    simp only [Bool.not_true, Bool.and_false, Bool.false_eq_true, if_false]
    rw [hc]
    by_cases hstar : ((t.kind == .char || t.kind == .specials) && t.arg == ['*']) = true
    · have hl := hlen (by rw [hc]; exact hstar)
      simp only [hstar, if_true]
      exact ⟨_, _, rfl, by simp [stripArg, resToArg, stripArgs, hl]⟩
    · simp only [hstar, Bool.false_eq_true, if_false]
      split
      · exact ⟨.none, p, rfl, by simp [stripArg, resToArg]⟩
      · exact ⟨.none, p, rfl, by simp [stripArg, resToArg]⟩

end stepsT

theorem loop_agreeT (env : Env) (htol : env.tol = true) (sw : Sw) (h23 : sw.f23 = true)
    (hop : sw.optPre = true) (f : PSFields) (hs : SideOkT f) (n : Nat)
    (la : LArgs) (hns : la.optNoSpace = false) (hmm : la.mathModes = none) (pos0 : Nat) :
    ∀ (l : List LArgT) (j : Nat) (accN : List Arg) (p : Nat),
      AgreeT pos0 (legacyArgsLoop env sw (n + 1) f f la pos0 l j (accN.map stripArg) p)
        (argsLoop env (run env (n + 1)) f (l.map specOf) accN p) := by
  obtain ⟨hfn, hen, hst, hesc⟩ := hs
  intro l
  induction l with
  | nil => intro j accN p; simp [legacyArgsLoop, argsLoop, AgreeT]
  | cons argt rest ih =>
    intro j accN p
    have hmap : ∀ a : Arg, accN.map stripArg ++ [stripArg a] = (accN ++ [a]).map stripArg := by
      intro a; simp
    rw [List.map_cons]
    unfold legacyArgsLoop
    rw [argsLoop_cons_ok (by rw [htol]; exact fun w ep t r => peekTok_tol_no_err)]
    cases argt with
    | mand =>
      show AgreeT pos0 _ (match run env (n + 1) (.pc (.expression true) f p) with
        | .ok res p' => _ | other => other)
      have hg := expr_factT env htol (n + 1) f p
      cases hr : run env (n + 1) (.pc (.expression true) f p) with
      | ok res q =>
        rw [hr] at hg
        obtain ⟨nd, rfl, hq⟩ := hg
        rw [step_mand_ok hmm _ j p nd q hr hq]
        dsimp only
        have := ih (j + 1) (accN ++ [Arg.node nd]) q
        rw [← hmap] at this
        exact this
      | perr e => exact absurd hr (run_pc_not_perr env htol _ _ _ _ e)
      | loopEnd e => rw [step_mand_loopEnd hmm _ j p e hr]; rfl
      | crash k => rw [step_mand_crash hmm _ j p k hr]; rfl
      | fuel => rw [step_mand_fuel hmm _ j p hr]; rfl
    | opt =>
      have hs := step_opt (env := env) (la := la) (sw := sw) (m := n + 1) (f := f) hop hns hmm j p
      show AgreeT pos0 _ (match run env (n + 1) (.pc (.group (.pair ['['] [']']) true true) f p) with
        | .ok res p' => _ | other => other)
      have hg := group_runT env htol (n + 1) (.pair ['['] [']']) true true f p
      cases hr : run env (n + 1) (.pc (.group (.pair ['['] [']']) true true) f p) with
      | ok res q =>
        rw [hr] at hg
        rcases hg with ⟨rfl, rfl⟩ | ⟨nd, rfl, hq, hsn⟩ | ⟨hf, _⟩
        · rw [hs.1 q hr]
          dsimp only
          have := ih (j + 1) (accN ++ [Arg.absent]) q
          rw [← hmap] at this
          exact this
        · rw [hs.2.1 nd q hr hq]
          dsimp only
          have := ih (j + 1) (accN ++ [Arg.node nd]) q
          rw [← hmap] at this
          have hg : stripArg (Arg.node nd) = Arg.node nd := by simp [stripArg, hsn]
          rw [hg] at this
          exact this
        · cases hf
      | perr e => exact absurd hr (run_pc_not_perr env htol _ _ _ _ e)
      | loopEnd e => rw [step_opt_loopEnd hop hns hmm _ j p e hr]; rfl
      | crash k => rw [step_opt_crash hop hns hmm _ j p k hr]; rfl
      | fuel => rw [step_opt_fuel hop hns hmm _ j p hr]; rfl
    | star =>
      obtain ⟨res, q, hr, hl⟩ := step_starT (la := la) (sw := sw) (f := f) htol h23 hmm hfn hen hst hesc n (n + 1) j p
      show AgreeT pos0 _ (match run env (n + 1) (.pc (.marker '*' false true) f p) with
        | .ok res p' => _ | other => other)
      rw [hr, hl]
      dsimp only
      have := ih (j + 1) (accN ++ [resToArg res]) q
      rw [← hmap] at this
      exact this

/-- **C16_legacy_args_tolerant.**  The same in tolerant mode (no condition on `strict_braces`): for every argument
    string over `{*, [, {}`, every parsing state satisfying the decidable conditions `SideOkT`, every context, input,
    position and amount of fuel: neither algorithm fails; they return the same argument nodes (`nodeargd` erased on
    bare macro / specials arguments) and the same final reader position; they crash / run out of fuel together. -/
theorem C16_legacy_args_tolerant (env : Env) (htol : env.tol = true) (sw : Sw) (h23 : sw.f23 = true)
    (hop : sw.optPre = true) (f : PSFields) (hs : SideOkT f)
    (a : Str) (l : List LArgT) (ha : strLArgs a = some l) (n pos : Nat) :
    (∀ lp le as q, run env (n + 2) (.pc (.arguments (newOfStr a)) f pos) = .ok (.args lp le as) q →
        legacyParseArgs env sw (n + 1) f f { spec := l } pos = .ok (.args (some pos) (some q) (as.map stripArg)) q) ∧
    (∀ e, run env (n + 2) (.pc (.arguments (newOfStr a)) f pos) ≠ .perr e ∧
        legacyParseArgs env sw (n + 1) f f { spec := l } pos ≠ .perr e) ∧
    (∀ k, run env (n + 2) (.pc (.arguments (newOfStr a)) f pos) = .crash k →
        legacyParseArgs env sw (n + 1) f f { spec := l } pos = .crash k) ∧
    (run env (n + 2) (.pc (.arguments (newOfStr a)) f pos) = .fuel →
        legacyParseArgs env sw (n + 1) f f { spec := l } pos = .fuel) ∧
    (∀ x, run env (n + 2) (.pc (.arguments (newOfStr a)) f pos) = .loopEnd x →
        legacyParseArgs env sw (n + 1) f f { spec := l } pos = .crash "loopEnd") ∧
    (∀ res q, run env (n + 2) (.pc (.arguments (newOfStr a)) f pos) = .ok res q → ∃ lp le as, res = .args lp le as) := by
  have hnew : run env (n + 2) (.pc (.arguments (newOfStr a)) f pos)
      = parseContent true (.ret (argsLoop env (run env (n + 1)) f (l.map specOf) [] pos)) := by
    show parseContent env.tol (rawArguments env (run env (n + 1)) (newOfStr a) f pos) = _
    rw [htol]
    unfold newOfStr
    rw [strSpecs_of_strLArgs a l ha]
    rfl
  have hleg : legacyParseArgs env sw (n + 1) f f { spec := l } pos
      = parseContent true (legacyArgsLoop env sw (n + 1) f f { spec := l } pos l 0 [] pos) := by
    unfold legacyParseArgs rawLegacyArgs
    rw [htol]
  have hag := loop_agreeT env htol sw h23 hop f hs n { spec := l } rfl rfl pos l 0 [] pos
  rw [List.map_nil] at hag
  rw [hnew, hleg]
  refine ⟨?_, fun e => ⟨parseContent_true_not_perr _ e, parseContent_true_not_perr _ e⟩, ?_, ?_, ?_, ?_⟩
  · intro lp le as q h
    cases hN : argsLoop env (run env (n + 1)) f (l.map specOf) [] pos with
    | ok res q' =>
      rw [hN] at h hag
      cases h
      simp only [AgreeT] at hag
      rw [hag]; rfl
    | perr e => rw [hN] at hag; exact hag.elim
    | loopEnd e => rw [hN] at h; cases h
    | crash k => rw [hN] at h; cases h
    | fuel => rw [hN] at h; cases h
  · intro k h
    cases hN : argsLoop env (run env (n + 1)) f (l.map specOf) [] pos with
    | ok res q' => rw [hN] at h; cases h
    | perr e => rw [hN] at hag; exact hag.elim
    | loopEnd e => rw [hN] at h; cases h
    | crash k' =>
      rw [hN] at h hag
      cases h
      simp only [AgreeT] at hag
      rw [hag]; rfl
    | fuel => rw [hN] at h; cases h
  · intro h
    cases hN : argsLoop env (run env (n + 1)) f (l.map specOf) [] pos with
    | ok res q' => rw [hN] at h; cases h
    | perr e => rw [hN] at hag; exact hag.elim
    | loopEnd e => rw [hN] at h; cases h
    | crash k' => rw [hN] at h; cases h
    | fuel =>
      rw [hN] at hag
      simp only [AgreeT] at hag
      rw [hag]; rfl
  · intro x h
    cases hN : argsLoop env (run env (n + 1)) f (l.map specOf) [] pos with
    | ok res q' => rw [hN] at h; cases h
    | perr e => rw [hN] at hag; exact hag.elim
    | loopEnd e =>
      rw [hN] at hag
      simp only [AgreeT] at hag
      rw [hag]; rfl
    | crash k' => rw [hN] at h; cases h
    | fuel => rw [hN] at h; cases h
  · intro res q h
    cases hN : argsLoop env (run env (n + 1)) f (l.map specOf) [] pos with
    | ok res' q' =>
      rw [hN] at h hag
      cases h
      cases res with
      | args lp le as => exact ⟨lp, le, as, rfl⟩
      | none => exact hag.elim
      | node nd => exact hag.elim
      | list a b c => exact hag.elim
    | perr e => rw [hN] at hag; exact hag.elim
    | loopEnd e => rw [hN] at h; cases h
    | crash k' => rw [hN] at h; cases h
    | fuel => rw [hN] at h; cases h

/-- tolerant mode: the legacy algorithm returns a result exactly when the new one does (for every amount of fuel) -/
theorem C16_legacy_args_tolerant_iff (env : Env) (htol : env.tol = true) (sw : Sw) (h23 : sw.f23 = true)
    (hop : sw.optPre = true) (f : PSFields) (hs : SideOkT f)
    (a : Str) (l : List LArgT) (ha : strLArgs a = some l) (n pos : Nat) :
    (∃ r q, legacyParseArgs env sw (n + 1) f f { spec := l } pos = .ok r q) ↔
      (∃ r q, run env (n + 2) (.pc (.arguments (newOfStr a)) f pos) = .ok r q) := by
  obtain ⟨h1, h2, h3, h4, h5, h6⟩ := C16_legacy_args_tolerant env htol sw h23 hop f hs a l ha n pos
  cases hN : run env (n + 2) (.pc (.arguments (newOfStr a)) f pos) with
  | ok res q =>
    obtain ⟨lp, le, as, rfl⟩ := h6 res q hN
    rw [h1 lp le as q hN]
    simp
  | perr e => exact absurd hN (h2 e).1
  | crash k => rw [h3 k hN]
  | fuel => rw [h4 hN]
  | loopEnd x => rw [h5 x hN]; simp

example : SideOkT {} := by decide
example : SideOkT { specials := Gen.defaultCtx.specials.map (·.1) } := by decide

/-- `C16_legacy_args_tolerant` on `\\m* [b` (unclosed bracket) with the argument string `*[{`: both recover -/
example : ∃ as q, legacyParseArgs (wEnv true "\\m* [b") Sw.repaired 13 {} {} { spec := [.star, .opt, .mand] } 2
      = .ok (.args (some 2) (some q) as) q ∧ as.length = 3 := by
  have hd : (argsSummary (run (wEnv true "\\m* [b") 14 (.pc (.arguments (newOfStr ['*', '[', '{'])) {} 2))).map
      (fun x => x.1.length) = some 3 := by decide
  have hthm := (C16_legacy_args_tolerant (wEnv true "\\m* [b") rfl Sw.repaired rfl rfl {} (by decide)
    ['*', '[', '{'] [.star, .opt, .mand] rfl 12 2).1
  cases h : run (wEnv true "\\m* [b") 14 (.pc (.arguments (newOfStr ['*', '[', '{'])) {} 2) with
  | ok res q =>
    rw [h] at hd
    cases res with
    | args lp le as =>
      simp only [argsSummary, Option.map_some, Option.some.injEq, List.length_map] at hd
      exact ⟨as.map stripArg, q, hthm lp le as q h, by simpa using hd⟩
    | none => cases hd
    | node n => cases hd
    | list a b c => cases hd
  | perr e => rw [h] at hd; cases hd
  | loopEnd e => rw [h] at hd; cases hd
  | crash k => rw [h] at hd; cases hd
  | fuel => rw [h] at hd; cases hd

/-- the extra tolerant-mode condition is needed: with `*` as the escape character, the recovery placeholder of the
    malformed `*begin x` is a `char` token whose text begins with `*` — the legacy parser takes it for a star, the
    new one does not -/
theorem C16_tolerant_escape_star_needed :
    argsSummary (parseArgsVia (wEnv true "*begin x") Sw.repaired 14 { escapeChar := '*' } { escapeChar := '*' } (.newStr ['*']) 0)
      = some ([false], 0) ∧
    argsSummary (parseArgsVia (wEnv true "*begin x") Sw.repaired 14 { escapeChar := '*' } { escapeChar := '*' } (.posObj ['*']) 0)
      = some ([true], 1) := by decide

#print axioms C16_legacy_args
#print axioms C16_legacy_args_iff
#print axioms C16_legacy_args_tolerant
#print axioms C16_legacy_args_tolerant_iff
#print axioms C16_legacy_args_full_false
#print axioms C16_side_conditions_needed
#print axioms C16_tolerant_escape_star_needed

end Pylx.Legacy.C16P
