/-
  C13, parse link — what is proved about the strict parse of encoder output.

  * `C13_shapes`: kernel-checked classifier — every replacement of both tables is a well-bracketed
    sequence of items; a macro starved of a mandatory argument (by the default context's own
    specification) occurs in exactly the 13 `unicode-xml` entries of finding F19, which are the
    single bare accent macros.
  * `C13_parses_partial`: for every single character that has a rule (F19 entries of `unicode-xml`
    excluded) or is a pass-through ASCII character without rule, the encoder output under the
    default scheme `braces` parses in strict mode with the default context, without comment /
    environment node and without math node unless the replacement text itself contains `$`
    (kernel evaluation of the parser model on every table entry).
  * `C13_xml_accent_without_argument`, `C13_parses_xml_false`: the F19 witnesses.
  * `C13_parses_none_false`: scheme `none` is outside the parse claim (`\i` + `nput` = `\input`).
  * `C13_parses_full`, `C13_parses_xml_full`: the statements for all strings; proved in `PylxProofs/C13Full.lean`
    (`C13_parses_full_proved`, `C13_parses_xml_full_proved`).
-/
import PylxProofs.C13ParseA
import PylxProofs.C13ParseB
import PylxProofs.C13ParseC
import PylxProofs.C13ParseD
import PylxProofs.C13ParseE
namespace Pylx.C13
open Pylx Pylx.EncB

/-! ### classifier -/

-- `defaults_classified`, `xml_classified`: PylxProofs/C13ParseE.lean (kernel evaluation in slices)

def skipOf : Table → List Nat
  | .defaults => []
  | .xml => f19

/-- **C13 (shapes).**  Every replacement text of both tables splits into items (characters,
    control symbols, control words, brace groups); an item list contains a macro followed by fewer
    items than the default context declares mandatory arguments for it exactly for the code points
    `f19` of `unicode-xml` (none in `defaults`), and exactly those have shape `bareAccent`. -/
theorem C13_shapes (tb : Table) : ∀ e ∈ rawTable tb, ∃ l, itemsOf (S e.2) = some l ∧
    (starvedList l = true ↔ e.1 ∈ skipOf tb) ∧ (shapeOf l = .bareAccent ↔ e.1 ∈ skipOf tb) := by
  intro e he
  have h : entryClassified (skipOf tb) e = true := by
    cases tb
    · exact raw_all (tb := .defaults) defaults_classified e he
    · exact raw_all (tb := .xml) xml_classified e he
  unfold entryClassified at h
  split at h
  · rename_i l hl
    refine ⟨l, hl, ?_, ?_⟩
    · simp only [Bool.and_eq_true, beq_iff_eq] at h
      rw [h.1]; simp
    · simp only [Bool.and_eq_true, beq_iff_eq] at h
      rw [← List.contains_iff_mem, ← h.2]; simp
  · cases h

/-! ### single characters -/

theorem table_parses (tb : Table) : ∀ e ∈ rawTable tb, entryParses (skipOf tb) e = true := by
  intro e he
  cases tb
  · have h1 := defaults_parses_lo
    have h2 := defaults_parses_hi
    have : Gen.uni2latexChunks.all (fun ch => ch.all (entryParses [])) = true := by
      rw [← List.take_append_drop 19 Gen.uni2latexChunks, List.all_append, h1, h2]; rfl
    exact raw_all (tb := .defaults) this e he
  · have h1 := xml_parses_lo
    have h2 := xml_parses_hi
    have : Gen.uni2latexXmlChunks.all (fun ch => ch.all (entryParses f19)) = true := by
      rw [← List.take_append_drop 28 Gen.uni2latexXmlChunks, List.all_append, h1, h2]; rfl
    exact raw_all (tb := .xml) this e he

set_option maxRecDepth 100000 in
theorem copy_parses_d0 : (((List.range 128).drop 0).take 16).all (fun k =>
    !isCopyChar (Char.ofNat k) || ((tableOf .defaults).lookup k).isSome || okParse [] [Char.ofNat k]) = true := by decide +kernel

set_option maxRecDepth 100000 in
theorem copy_parses_d1 : (((List.range 128).drop 16).take 16).all (fun k =>
    !isCopyChar (Char.ofNat k) || ((tableOf .defaults).lookup k).isSome || okParse [] [Char.ofNat k]) = true := by decide +kernel

set_option maxRecDepth 100000 in
theorem copy_parses_d2 : (((List.range 128).drop 32).take 16).all (fun k =>
    !isCopyChar (Char.ofNat k) || ((tableOf .defaults).lookup k).isSome || okParse [] [Char.ofNat k]) = true := by decide +kernel

set_option maxRecDepth 100000 in
theorem copy_parses_d3 : (((List.range 128).drop 48).take 16).all (fun k =>
    !isCopyChar (Char.ofNat k) || ((tableOf .defaults).lookup k).isSome || okParse [] [Char.ofNat k]) = true := by decide +kernel

set_option maxRecDepth 100000 in
theorem copy_parses_d4 : (((List.range 128).drop 64).take 16).all (fun k =>
    !isCopyChar (Char.ofNat k) || ((tableOf .defaults).lookup k).isSome || okParse [] [Char.ofNat k]) = true := by decide +kernel

set_option maxRecDepth 100000 in
theorem copy_parses_d5 : (((List.range 128).drop 80).take 16).all (fun k =>
    !isCopyChar (Char.ofNat k) || ((tableOf .defaults).lookup k).isSome || okParse [] [Char.ofNat k]) = true := by decide +kernel

set_option maxRecDepth 100000 in
theorem copy_parses_d6 : (((List.range 128).drop 96).take 16).all (fun k =>
    !isCopyChar (Char.ofNat k) || ((tableOf .defaults).lookup k).isSome || okParse [] [Char.ofNat k]) = true := by decide +kernel

set_option maxRecDepth 100000 in
theorem copy_parses_d7 : (((List.range 128).drop 112).take 16).all (fun k =>
    !isCopyChar (Char.ofNat k) || ((tableOf .defaults).lookup k).isSome || okParse [] [Char.ofNat k]) = true := by decide +kernel

set_option maxRecDepth 100000 in
theorem copy_parses_x0 : (((List.range 128).drop 0).take 16).all (fun k =>
    !isCopyChar (Char.ofNat k) || ((tableOf .xml).lookup k).isSome || okParse [] [Char.ofNat k]) = true := by decide +kernel

set_option maxRecDepth 100000 in
theorem copy_parses_x1 : (((List.range 128).drop 16).take 16).all (fun k =>
    !isCopyChar (Char.ofNat k) || ((tableOf .xml).lookup k).isSome || okParse [] [Char.ofNat k]) = true := by decide +kernel

set_option maxRecDepth 100000 in
theorem copy_parses_x2 : (((List.range 128).drop 32).take 16).all (fun k =>
    !isCopyChar (Char.ofNat k) || ((tableOf .xml).lookup k).isSome || okParse [] [Char.ofNat k]) = true := by decide +kernel

set_option maxRecDepth 100000 in
theorem copy_parses_x3 : (((List.range 128).drop 48).take 16).all (fun k =>
    !isCopyChar (Char.ofNat k) || ((tableOf .xml).lookup k).isSome || okParse [] [Char.ofNat k]) = true := by decide +kernel

set_option maxRecDepth 100000 in
theorem copy_parses_x4 : (((List.range 128).drop 64).take 16).all (fun k =>
    !isCopyChar (Char.ofNat k) || ((tableOf .xml).lookup k).isSome || okParse [] [Char.ofNat k]) = true := by decide +kernel

set_option maxRecDepth 100000 in
theorem copy_parses_x5 : (((List.range 128).drop 80).take 16).all (fun k =>
    !isCopyChar (Char.ofNat k) || ((tableOf .xml).lookup k).isSome || okParse [] [Char.ofNat k]) = true := by decide +kernel

set_option maxRecDepth 100000 in
theorem copy_parses_x6 : (((List.range 128).drop 96).take 16).all (fun k =>
    !isCopyChar (Char.ofNat k) || ((tableOf .xml).lookup k).isSome || okParse [] [Char.ofNat k]) = true := by decide +kernel

set_option maxRecDepth 100000 in
theorem copy_parses_x7 : (((List.range 128).drop 112).take 16).all (fun k =>
    !isCopyChar (Char.ofNat k) || ((tableOf .xml).lookup k).isSome || okParse [] [Char.ofNat k]) = true := by decide +kernel

theorem range128_split : List.range 128 = (((List.range 128).drop 0).take 16) ++ (((List.range 128).drop 16).take 16) ++ (((List.range 128).drop 32).take 16) ++ (((List.range 128).drop 48).take 16) ++ (((List.range 128).drop 64).take 16) ++ (((List.range 128).drop 80).take 16) ++ (((List.range 128).drop 96).take 16) ++ (((List.range 128).drop 112).take 16) := by decide

/-- pass-through ASCII characters without a rule (letters, digits, punctuation, space, DEL, `\n \r \t`); evaluated in
    slices of 16 characters per declaration (the kernel frees its memory between declarations) -/
theorem copy_parses (tb : Table) : (List.range 128).all (fun k =>
    !isCopyChar (Char.ofNat k) || ((tableOf tb).lookup k).isSome || okParse [] [Char.ofNat k]) = true := by
  cases tb
  · rw [range128_split]; simp only [List.all_append, copy_parses_d0, copy_parses_d1, copy_parses_d2, copy_parses_d3, copy_parses_d4, copy_parses_d5, copy_parses_d6, copy_parses_d7, Bool.and_self]
  · rw [range128_split]; simp only [List.all_append, copy_parses_x0, copy_parses_x1, copy_parses_x2, copy_parses_x3, copy_parses_x4, copy_parses_x5, copy_parses_x6, copy_parses_x7, Bool.and_self]

theorem encode_single_rule {tb : Table} {pr : Prot} {pol : Policy} {c : Char} {r : Str}
    (hl : (tableOf tb).lookup c.toNat = some r) :
    encode (builtinCfg tb pr pol false) [c] = some (protect isAsciiAlpha pr r) := by
  simp [encode, encodeChunks_eq_encChars (builtin_perChar tb pr pol false), encChars, stepAt_builtin, hl,
    EncRes.cons, EncRes.joined]

theorem encode_single_copy {tb : Table} {pr : Prot} {pol : Policy} {c : Char}
    (hl : (tableOf tb).lookup c.toNat = none) (hc : isCopyChar c = true) :
    encode (builtinCfg tb pr pol false) [c] = some [c] := by
  simp [encode, encodeChunks_eq_encChars (builtin_perChar tb pr pol false), encChars, stepAt_builtin, hl, hc,
    EncRes.cons, EncRes.joined]

/-- what `C13_parses_*` say about a text `t` obtained from replacement text `r` -/
def ParsesClean (r t : Str) : Prop :=
  ∃ p e ns pos, parseStrict t = .ok (.list p e ns) pos ∧
    (∀ n ∈ subnodesList ns, isComment n = false ∧ isEnv n = false) ∧
    (rawOcc '$' false r = false → ∀ n ∈ subnodesList ns, isMath n = false)

/-- **C13 (strict parse, single characters, default scheme).**  For a character `c` that has a
    rule (for `unicode-xml`: other than the 13 code points `f19`) or is a pass-through ASCII
    character, and every policy: the encoder output for the one-character string parses in
    strict mode with the default context database; the tree has no comment and no environment
    node, and no math node unless the replacement text of the table itself contains an unescaped `$`. -/
theorem C13_parses_partial (tb : Table) (pol : Policy) (c : Char)
    (hc : (∃ r, (tableOf tb).lookup c.toNat = some r ∧ c.toNat ∉ skipOf tb) ∨
          ((tableOf tb).lookup c.toNat = none ∧ isCopyChar c = true ∧ c.toNat < 128)) :
    ∃ t, encode (builtinCfg tb .braces pol false) [c] = some t ∧
      ParsesClean (((tableOf tb).lookup c.toNat).getD []) t := by
  rcases hc with ⟨r, hl, hs⟩ | ⟨hl, hcp, hlt⟩
  · refine ⟨_, encode_single_rule hl, ?_⟩
    obtain ⟨e, he, rfl⟩ := tableOf_mem hl
    have hk : (c.toNat, S e.2) ∈ tableOf tb := lookup_mem hl
    have := table_parses tb e he
    -- the entry found by `lookup` is `e` as far as the replacement goes; its key may differ from `c` only if
    -- the table had duplicate keys, so go through the key of the pair that `lookup` returned
    simp only [tableOf, List.mem_map] at hk
    obtain ⟨e', he', heq⟩ := hk
    have h' := table_parses tb e' he'
    have hk1 : e'.1 = c.toNat := by simpa using congrArg Prod.fst heq
    have hk2 : S e'.2 = S e.2 := by simpa using congrArg Prod.snd heq
    unfold entryParses at h'
    rw [hk1, hk2] at h'
    have hns : (skipOf tb).contains c.toNat = false := by
      cases hcon : (skipOf tb).contains c.toNat with
      | false => rfl
      | true => exact absurd (List.contains_iff_mem.mp hcon) hs
    rw [hns, Bool.false_or] at h'
    rw [hl]
    exact okParse_spec h'
  · refine ⟨_, encode_single_copy hl hcp, ?_⟩
    have := List.all_eq_true.mp (copy_parses tb) c.toNat (List.mem_range.mpr hlt)
    have hcc : Char.ofNat c.toNat = c := by simp
    rw [hcc, hcp, hl] at this
    simp only [Bool.not_true, Option.isSome_none, Bool.or_false, Bool.false_or] at this
    rw [hl]
    exact okParse_spec this

/-! ### witnesses -/

set_option maxRecDepth 100000 in
/-- **Finding F19, re-established.**  Each of the 13 code points is mapped by `unicode-xml` to a
    macro for which the default context declares a mandatory argument, and the one-character
    string encodes (default scheme) to a text whose strict parse is *not* a node list. -/
theorem C13_xml_accent_without_argument : f19.all (fun k =>
    match (tableOf .xml).lookup k with
    | some r => (match itemsOf r with | some [it] => it.isMacro && decide (it.needs > 0) | _ => false) &&
        (match parseStrict (protect isAsciiAlpha .braces r) with | .perr _ => true | _ => false)
    | none => false) = true := by
  decide +kernel

set_option maxRecDepth 100000 in
/-- `U+0301` alone: the encoder returns `\'`, the strict parser answers "expression required, got end of stream" -/
theorem C13_parses_xml_false :
    encode (builtinCfg .xml .braces .keep false) [Char.ofNat 0x301] = some ['\\', '\''] ∧
    (match parseStrict ['\\', '\''] with | .perr e => e.what == .exprEOS | _ => false) = true := by
  constructor <;> decide +kernel

set_option maxRecDepth 100000 in
/-- scheme `none` is outside the parse claim: `ı` (U+0131) ↦ `\i` fuses with the following letters
    to `\input`, whose mandatory argument is missing -/
theorem C13_parses_none_false :
    encode (builtinCfg .defaults .none .keep false) (Char.ofNat 0x131 :: "nput".toList) = some "\\input".toList ∧
    (match parseStrict "\\input".toList with | .perr e => e.what == .exprEOS | _ => false) = true ∧
    Inert "\\input".toList := by
  refine ⟨by decide +kernel, by decide +kernel, by decide⟩

/-! ### the full statement (proved in `PylxProofs/C13Full.lean`) -/

/-- the four brace-protection schemes -/
def BraceProt (pr : Prot) : Prop := pr = .braces ∨ pr = .bracesAll ∨ pr = .bracesAlmostAll ∨ pr = .bracesAfterMacro

/-- **C13 (strict parse), full statement** — proved as `C13_parses_full_proved` in `PylxProofs/C13Full.lean`.  For the
    `defaults` table, every string, brace scheme and named policy, whenever the encoder returns a text it parses strictly
    with the default context and the tree has no comment and no environment node.  The composition step (a chunk parsed
    by the nodes collector in the top-level state leaves the collector in a state of the same form, pending characters /
    whitespace carried into the next token) is the prefix lemma `Full.reach_all` of `PylxProofs/C13FullReach.lean`; the
    per-chunk facts are kernel evaluations over the tables (`C13FullA`–`J`). -/
def C13_parses_full : Prop :=
  ∀ (pr : Prot), BraceProt pr → ∀ (pol : Policy), NamedPolicy pol → ∀ (s t : Str),
    encode (builtinCfg .defaults pr pol false) s = some t →
    ∃ p e ns pos, parseStrict t = .ok (.list p e ns) pos ∧
      ∀ n ∈ subnodesList ns, isComment n = false ∧ isEnv n = false

/-- the same for `unicode-xml`, restricted to strings without the 13 code points of F19 (proved:
    `C13_parses_xml_full_proved`) -/
def C13_parses_xml_full : Prop :=
  ∀ (pr : Prot), BraceProt pr → ∀ (pol : Policy), NamedPolicy pol → ∀ (s t : Str),
    (∀ c ∈ s, c.toNat ∉ f19) →
    encode (builtinCfg .xml pr pol false) s = some t →
    ∃ p e ns pos, parseStrict t = .ok (.list p e ns) pos ∧
      ∀ n ∈ subnodesList ns, isComment n = false ∧ isEnv n = false

/-! ### non-vacuity -/

example : ∃ r, (tableOf .defaults).lookup (Char.ofNat 233).toNat = some r ∧ (Char.ofNat 233).toNat ∉ skipOf .defaults :=
  ⟨"\\'e".toList, by decide +kernel, by simp [skipOf]⟩
example : (tableOf .xml).lookup ('a').toNat = none ∧ isCopyChar 'a' = true ∧ ('a').toNat < 128 :=
  ⟨by decide +kernel, by decide, by decide⟩
example : entryShape (0x301, [92, 39]) = some .bareAccent := by decide +kernel
example : entryShape (233, [92, 39, 101]) = some .accentBare := by decide +kernel

end Pylx.C13
