/-
  C03SCore — the side conditions `specOk` of `C03_full_partial` follow, for the generated default databases, from
  `Doc.Core` and `CoreText`: the walker signatures of the macros the core sublanguage calls (formatting macros,
  accents, `\frac`, `\sqrt`, `\item`) are made of mandatory arguments with at most one leading optional argument
  (`tableOk`, kernel-checked over both generated tables), and `Doc.Core` types the written arguments by the signature.
-/
import PylxProofs.C03SFull
namespace Pylx.L2T.C03S
open Pylx Pylx.L2T Pylx.Doc
open Pylx.L2T.C03 (isBareArgs argWritten coreText coreTextArgs isFormatRepl)

/-- a signature of mandatory arguments only -/
def sigAllM (sig : List ArgSpec) : Bool := sig.all (fun a => a.kind == .m)

/-- one optional bracket argument, then mandatory arguments only -/
def sigOptM : List ArgSpec → Bool
  | a :: tl => (match a.kind with | .o _ => true | _ => false) && sigAllM tl
  | [] => false

theorem argspec_allM : ∀ (sig : List ArgSpec), sigAllM sig = true →
    (sig.flatMap fun a => argKindSpec a.kind).all (· == '{') = true
  | [], _ => rfl
  | a :: tl, h => by
    simp only [sigAllM, List.all_cons, Bool.and_eq_true] at h
    have ih := argspec_allM tl (by simpa [sigAllM] using h.2)
    simp only [List.flatMap_cons, List.all_append, Bool.and_eq_true]
    refine ⟨?_, ih⟩
    rw [C02.argKind_m_of_beq _ h.1]
    rfl

theorem legacyOf_allM (sig : List ArgSpec) (h : sigAllM sig = true) :
    legacyOf (sig.flatMap fun a => argKindSpec a.kind) = ⟨none, 0⟩ := by
  cases sig with
  | nil => rfl
  | cons a tl =>
    simp only [sigAllM, List.all_cons, Bool.and_eq_true] at h
    simp only [List.flatMap_cons, C02.argKind_m_of_beq _ h.1, argKindSpec]
    rfl

theorem legacyOf_optM (sig : List ArgSpec) (h : sigOptM sig = true) :
    legacyOf (sig.flatMap fun a => argKindSpec a.kind) = ⟨some 0, 1⟩ := by
  cases sig with
  | nil => cases h
  | cons a tl =>
    simp only [sigOptM, Bool.and_eq_true] at h
    obtain ⟨ha, htl⟩ := h
    have hall := argspec_allM tl htl
    cases hk : a.kind with
    | o ap =>
      simp only [List.flatMap_cons, hk, argKindSpec]
      show legacyOf ('[' :: (tl.flatMap fun a => argKindSpec a.kind)) = _
      unfold legacyOf
      have e1 : starCount ('[' :: (tl.flatMap fun a => argKindSpec a.kind)) = 0 := rfl
      simp only [e1, List.drop_zero, List.head?_cons, List.drop_succ_cons, hall]
      rfl
    | _ => rw [hk] at ha; cases ha

/-- `Doc.Core` types the written arguments by the signature: one value per slot, mandatory slots written -/
theorem coreArgs_allM (ctx : Ctx) (m : Bool) (rest : Str) : ∀ (sig : List ArgSpec) (args : List ArgVal),
    sigAllM sig = true → coreArgs ctx m rest sig args = true → args.all argWritten = true ∧ args.length = sig.length
  | [], [], _, _ => ⟨rfl, rfl⟩
  | [], _ :: _, _, hc => by simp [coreArgs] at hc
  | _ :: _, [], _, hc => by simp [coreArgs] at hc
  | sp :: sig, a :: tl, hs, hc => by
    simp only [sigAllM, List.all_cons, Bool.and_eq_true] at hs
    have hs2 : sigAllM sig = true := by simpa [sigAllM] using hs.2
    have hk : sp.kind = .m := C02.argKind_m_of_beq _ hs.1
    cases a with
    | absent =>
      simp only [coreArgs, hk, Bool.false_and] at hc
      cases hc
    | star =>
      simp only [coreArgs, Bool.and_eq_true, hk] at hc
      obtain ⟨h1, _⟩ := hc
      cases h1
    | marker c =>
      simp only [coreArgs, Bool.and_eq_true, hk] at hc
      obtain ⟨⟨h1, _⟩, _⟩ := hc
      cases h1
    | br b =>
      simp only [coreArgs, hk, Bool.false_and] at hc
      cases hc
    | grp b =>
      simp only [coreArgs, Bool.and_eq_true] at hc
      obtain ⟨ih1, ih2⟩ := coreArgs_allM ctx m rest sig tl hs2 hc.2
      exact ⟨by simp [argWritten, ih1], by simp [ih2]⟩
    | tok c =>
      simp only [coreArgs, Bool.and_eq_true] at hc
      obtain ⟨ih1, ih2⟩ := coreArgs_allM ctx m rest sig tl hs2 hc.2
      exact ⟨by simp [argWritten, ih1], by simp [ih2]⟩
    | del o c b =>
      simp only [coreArgs, Bool.and_eq_true, hk, Bool.or_eq_true] at hc
      obtain ⟨⟨⟨⟨⟨h1, _⟩, _⟩, _⟩, _⟩, _⟩ := hc
      rcases h1 with h1 | h1 <;> cases h1
    | verb _ _ _ => simp [coreArgs] at hc

theorem coreArgs_tail (ctx : Ctx) (m : Bool) (rest : Str) (sp : ArgSpec) (sig : List ArgSpec) (a : ArgVal) (tl : List ArgVal)
    (hc : coreArgs ctx m rest (sp :: sig) (a :: tl) = true) : coreArgs ctx m rest sig tl = true := by
  cases a <;> first
    | (simp only [coreArgs, Bool.and_eq_true] at hc; exact hc.2)
    | (simp [coreArgs] at hc)

theorem any_of_all {l : List ArgVal} (h : l.all argWritten = true) : l.any argWritten = !l.isEmpty := by
  cases l with
  | nil => rfl
  | cons a tl =>
    simp only [List.all_cons, Bool.and_eq_true] at h
    simp [h.1]

/-- `_is_bare_macro_node` agrees with "no argument written" for the two shapes of signatures -/
theorem bareOf_shape (ctx : Ctx) (m : Bool) (rest : Str) (name : Str) (sig : List ArgSpec) (args : List ArgVal)
    (hspec : ctx.macroSpec name = some (.std sig)) (hsh : (sigAllM sig || sigOptM sig) = true)
    (hc : coreArgs ctx m rest sig args = true) :
    bareOf ctx name args = some (isBareArgs args) := by
  have hleg : legacyOfMacro ctx name = legacyOf (sig.flatMap fun a => argKindSpec a.kind) := by
    unfold legacyOfMacro; rw [hspec]; rfl
  cases args with
  | nil => rfl
  | cons a tl =>
    simp only [bareOf]
    rw [Bool.or_eq_true] at hsh
    rcases hsh with h | h
    · rw [hleg, legacyOf_allM sig h]
      obtain ⟨hall, _⟩ := coreArgs_allM ctx m rest sig (a :: tl) h hc
      simp only [Option.some.injEq]
      unfold isBareArgs
      rw [any_of_all hall]
      rfl
    · rw [hleg, legacyOf_optM sig h]
      cases sig with
      | nil => cases h
      | cons sp sig' =>
        simp only [sigOptM, Bool.and_eq_true] at h
        have htl := coreArgs_tail ctx m rest sp sig' a tl hc
        obtain ⟨hall, _⟩ := coreArgs_allM ctx m rest sig' tl h.2 htl
        simp only [List.getElem?_cons_zero, List.drop_succ_cons, List.drop_zero, Option.some.injEq]
        unfold isBareArgs
        rw [List.any_cons, any_of_all hall]
        cases argWritten a <;> cases tl.isEmpty <;> rfl

/-- the walker signatures of the macros the core sublanguage calls with arguments -/
def tableOk (ctx : Ctx) (db : TextDb) : Bool :=
  db.macros.all fun q =>
    match ctx.macroSpec q.1 with
    | some (.std sig) =>
      (match q.2.repl with
       | .none => !isFormatRepl q.2 || sigAllM sig || sigOptM sig
       | .accent _ => sigAllM sig
       | .fmt _ _ => !(q.1 == "frac".toList || q.1 == "sqrt".toList) || sigAllM sig || sigOptM sig
       | .item => sig.isEmpty || sigOptM sig
       | _ => true)
    | _ => true

theorem macOk_of_core (ctx : Ctx) (db : TextDb) (htab : tableOk ctx db = true) (m : Bool) (rest : Str) (name : Str)
    (sig : List ArgSpec) (args : List ArgVal) (hspec : ctx.macroSpec name = some (.std sig))
    (hc : coreArgs ctx m rest sig args = true)
    (hcore : (match lookupFirst name db.macros with
      | none => args.isEmpty
      | some sp =>
        match sp.repl with
        | .lit _ => args.isEmpty
        | .const _ => args.isEmpty
        | .none => isFormatRepl sp
        | .accent _ => args.length == 1
        | .fmt _ _ => name == "frac".toList || name == "sqrt".toList
        | .item => true
        | _ => false) = true) :
    macOk ctx db name args = true := by
  have hlen : args.length = sig.length := by
    clear hcore htab hspec
    induction sig generalizing args with
    | nil =>
      cases args with
      | nil => rfl
      | cons _ _ => simp [coreArgs] at hc
    | cons sp sig ih =>
      cases args with
      | nil => simp [coreArgs] at hc
      | cons a tl =>
        have := ih tl (coreArgs_tail ctx m rest sp sig a tl hc)
        simp [this]
  have hnil : args.isEmpty = true → bareOf ctx name args = some (isBareArgs args) := by
    intro he
    have : args = [] := List.isEmpty_iff.mp he
    subst this
    rfl
  cases hl : lookupFirst name db.macros with
  | none =>
    rw [hl] at hcore
    unfold macOk
    rw [hl, hnil hcore]
    simp
  | some sp =>
    rw [hl] at hcore
    simp only at hcore
    have hmem := lookupFirst_mem name _ sp hl
    unfold tableOk at htab
    rw [List.all_eq_true] at htab
    have ht := htab _ hmem
    simp only [hspec] at ht
    unfold macOk
    rw [hl]
    simp only
    cases hr : sp.repl with
    | lit s => rw [hr] at hcore; rw [hnil hcore]; simp
    | const s => rw [hr] at hcore; rw [hnil hcore]; simp
    | none =>
      rw [hr] at hcore ht
      simp only [hcore, Bool.not_true, Bool.false_or] at ht
      rw [bareOf_shape ctx m rest name sig args hspec ht hc]
      simp
    | accent comb =>
      rw [hr] at ht
      simp only at ht
      rw [bareOf_shape ctx m rest name sig args hspec (by rw [ht]; rfl) hc]
      have : legacyOfMacro ctx name = ⟨none, 0⟩ := by
        unfold legacyOfMacro; rw [hspec]; exact legacyOf_allM sig ht
      simp [this]
    | fmt raw segs =>
      rw [hr] at hcore ht
      simp only [hcore, Bool.not_true, Bool.false_or] at ht
      rw [bareOf_shape ctx m rest name sig args hspec ht hc]
      have : ((ctx.macroSpec name).map sigLen).getD 0 = sig.length := by rw [hspec]; rfl
      simp [this, hlen]
    | item =>
      rw [hr] at ht
      simp only [Bool.or_eq_true] at ht
      rcases ht with ht | ht
      · have h0 : sig = [] := List.isEmpty_iff.mp ht
        have : args = [] := by
          cases args with
          | nil => rfl
          | cons _ _ => rw [h0] at hlen; simp at hlen
        subst this
        simp [bareOf, isBareArgs]
      · rw [bareOf_shape ctx m rest name sig args hspec (by rw [ht]; simp) hc]
        have : (legacyOfMacro ctx name).optIdx = some 0 := by
          unfold legacyOfMacro; rw [hspec]
          show (legacyOf (sig.flatMap fun a => argKindSpec a.kind)).optIdx = _
          rw [legacyOf_optM sig ht]
        simp [this]
    | _ => rw [hr] at hcore; simp at hcore

/-! ### `specOk` from `Doc.Core` and `CoreText` -/

mutual
theorem specOk_of_core (ctx : Ctx) (db : TextDb) (htab : tableOk ctx db = true) :
    ∀ (d : List Item) (m : Bool) (after : Str), coreItems ctx m after d = true → coreText db d = true → specOk ctx db d = true
  | [], _, _, _, _ => by simp only [specOk]
  | .T t :: tl, m, after, hc, ht => by
    simp only [coreItems, Bool.and_eq_true] at hc
    simp only [coreText] at ht
    simp only [specOk]
    exact specOk_of_core ctx db htab tl m after hc.2 ht
  | .W w :: tl, m, after, hc, ht => by
    simp only [coreItems, Bool.and_eq_true] at hc
    simp only [coreText] at ht
    simp only [specOk]
    exact specOk_of_core ctx db htab tl m after hc.2 ht
  | .P w :: tl, m, after, hc, ht => by
    simp only [coreItems, Bool.and_eq_true] at hc
    simp only [coreText] at ht
    simp only [specOk]
    exact specOk_of_core ctx db htab tl m after hc.2 ht
  | .C text tail :: tl, m, after, hc, ht => by
    have hc2 : coreItems ctx m after tl = true := by
      cases tl with
      | nil => simp only [coreItems]
      | cons it tl' =>
        cases it <;> (rw [coreItems] at hc <;> first
          | (simp only [Bool.and_eq_true] at hc; exact hc.2)
          | (intro _ _ h; cases h))
    simp only [coreText] at ht
    simp only [specOk]
    exact specOk_of_core ctx db htab tl m after hc2 ht
  | .S name args :: tl, m, after, hc, ht => by
    simp only [coreItems, Bool.and_eq_true] at hc
    simp only [coreText, Bool.and_eq_true] at ht
    simp only [specOk]
    exact specOk_of_core ctx db htab tl m after hc.2 ht.2
  | .G b :: tl, m, after, hc, ht => by
    simp only [coreItems, Bool.and_eq_true] at hc
    simp only [coreText, Bool.and_eq_true] at ht
    simp only [specOk, Bool.and_eq_true]
    exact ⟨specOk_of_core ctx db htab b m _ hc.1 ht.1, specOk_of_core ctx db htab tl m after hc.2 ht.2⟩
  | .F k b :: tl, m, after, hc, ht => by
    simp only [coreItems, Bool.and_eq_true] at hc
    simp only [coreText, Bool.and_eq_true] at ht
    simp only [specOk, Bool.and_eq_true]
    exact ⟨specOk_of_core ctx db htab b true _ hc.1.1.2 ht.1, specOk_of_core ctx db htab tl m after hc.2 ht.2⟩
  | .E name args body :: tl, m, after, hc, ht => by
    simp only [coreItems, Bool.and_eq_true] at hc
    simp only [coreText, Bool.and_eq_true] at ht
    simp only [specOk, Bool.and_eq_true]
    refine ⟨?_, specOk_of_core ctx db htab tl m after hc.2 ht.2⟩
    obtain ⟨⟨_, hspec⟩, _⟩ := hc
    cases hes : ctx.envSpec name with
    | none => rw [hes] at hspec; cases hspec
    | some ab =>
      obtain ⟨a, bm⟩ := ab
      rw [hes] at hspec
      cases a with
      | std sig =>
        simp only [Bool.and_eq_true] at hspec
        exact specOk_of_core ctx db htab body (m || bm) _ hspec.2 ht.1.2
      | legacyVerb => cases hspec
      | legacyVerbEnv _ _ => cases hspec
      | unknown => cases hspec
  | .M name post args :: tl, m, after, hc, ht => by
    simp only [coreItems, Bool.and_eq_true] at hc
    simp only [coreText, Bool.and_eq_true] at ht
    simp only [specOk, Bool.and_eq_true]
    obtain ⟨⟨_, hargs⟩, htl⟩ := hc
    obtain ⟨⟨htm, hta⟩, htt⟩ := ht
    refine ⟨⟨?_, ?_⟩, specOk_of_core ctx db htab tl m after htl htt⟩
    · cases hms : ctx.macroSpec name with
      | none => rw [hms] at hargs; cases hargs
      | some a =>
        rw [hms] at hargs
        cases a with
        | std sig => exact macOk_of_core ctx db htab m _ name sig args hms hargs htm
        | legacyVerb => cases hargs
        | legacyVerbEnv _ _ => cases hargs
        | unknown => cases hargs
    · cases hms : ctx.macroSpec name with
      | none => rw [hms] at hargs; cases hargs
      | some a =>
        rw [hms] at hargs
        cases a with
        | std sig => exact specOkArgs_of_core ctx db htab sig args m _ hargs hta
        | legacyVerb => cases hargs
        | legacyVerbEnv _ _ => cases hargs
        | unknown => cases hargs
  | .V _ _ :: _, _, _, _, ht => by simp [coreText] at ht
  | .VE _ _ _ _ :: _, _, _, _, ht => by simp [coreText] at ht
termination_by d => sizeOf d
theorem specOkArgs_of_core (ctx : Ctx) (db : TextDb) (htab : tableOk ctx db = true) :
    ∀ (sig : List ArgSpec) (args : List ArgVal) (m : Bool) (rest : Str), coreArgs ctx m rest sig args = true →
      coreTextArgs db args = true → specOkArgs ctx db args = true
  | _, [], _, _, _, _ => by simp only [specOkArgs]
  | [], _ :: _, _, _, hc, _ => by simp [coreArgs] at hc
  | sp :: sig, .absent :: tl, m, rest, hc, ht => by
    simp only [coreArgs, Bool.and_eq_true] at hc
    simp only [coreTextArgs] at ht
    simp only [specOkArgs]
    exact specOkArgs_of_core ctx db htab sig tl m rest hc.2 ht
  | sp :: sig, .grp b :: tl, m, rest, hc, ht => by
    simp only [coreArgs, Bool.and_eq_true] at hc
    simp only [coreTextArgs, Bool.and_eq_true] at ht
    simp only [specOkArgs, Bool.and_eq_true]
    exact ⟨specOk_of_core ctx db htab b _ _ hc.1.2 ht.1, specOkArgs_of_core ctx db htab sig tl m rest hc.2 ht.2⟩
  | sp :: sig, .br b :: tl, m, rest, hc, ht => by
    simp only [coreArgs, Bool.and_eq_true] at hc
    simp only [coreTextArgs, Bool.and_eq_true] at ht
    simp only [specOkArgs, Bool.and_eq_true]
    exact ⟨specOk_of_core ctx db htab b _ _ hc.1.2 ht.1, specOkArgs_of_core ctx db htab sig tl m rest hc.2 ht.2⟩
  | sp :: sig, .tok c :: tl, m, rest, hc, ht => by
    simp only [coreArgs, Bool.and_eq_true] at hc
    simp only [coreTextArgs] at ht
    simp only [specOkArgs, Bool.and_eq_true, Bool.not_eq_eq_eq_not, Bool.not_true]
    exact ⟨(C02.textChar_ne hc.1.2).2.2.2.2.2, specOkArgs_of_core ctx db htab sig tl m rest hc.2 ht⟩
  | _ :: _, .star :: _, _, _, _, ht => by simp [coreTextArgs] at ht
  | _ :: _, .marker _ :: _, _, _, _, ht => by simp [coreTextArgs] at ht
  | _ :: _, .del _ _ _ :: _, _, _, _, ht => by simp [coreTextArgs] at ht
  | _ :: _, .verb _ _ _ :: _, _, _, _, ht => by simp [coreTextArgs] at ht
termination_by _ args => sizeOf args
end

set_option maxRecDepth 100000 in
/-- kernel-checked over both generated tables: every formatting macro, accent macro, `\frac`, `\sqrt` and `\item` of the
    default text database has a walker signature of mandatory arguments with at most one leading optional argument
    (accents: mandatory arguments only; `\item`: exactly the leading optional argument) -/
theorem default_tableOk : tableOk Gen.defaultCtx Gen.defaultTextDb = true := by
  decide +kernel

/-- **C03_full_core**: the string-level statement `C03.C03_full` for every option set, all library oracles and every
    document of the core sublanguage (`CoreText`) in the fragment of the exact round trip (`Doc.Core`) — no further
    hypothesis. -/
theorem C03_full_core (opts : Opts) (lib : Lib) (d : List Item)
    (hcore : Core Gen.defaultCtx d = true) (hct : C03.CoreText d = true) :
    latexToText opts lib (unparse d) = .ok (C03.specText opts lib d) := by
  have hc := hcore
  unfold Core at hc
  rw [Bool.and_eq_true] at hc
  exact C03_full_partial opts lib d hcore hct (specOk_of_core _ _ default_tableOk d false [] hc.2 hct)

/-- non-vacuity: the example documents of `C03.C03_instances` (every rule of the core sublanguage) satisfy the two
    hypotheses; the statement then holds for them under *every* option set and every library oracle -/
example (opts : Opts) (lib : Lib) : latexToText opts lib (unparse C03.exDocA) = .ok (C03.specText opts lib C03.exDocA) :=
  C03_full_core opts lib _ exDocs_hyps.1 exDocs_hyps.2.1
example (opts : Opts) (lib : Lib) : latexToText opts lib (unparse C03.exDocB) = .ok (C03.specText opts lib C03.exDocB) :=
  C03_full_core opts lib _ exDocs_hyps.2.2.2.1 exDocs_hyps.2.2.2.2.1

#print axioms C03_full_core

end Pylx.L2T.C03S
