/-
  C05Tok — tokenizer facts needed by the crash-freedom proof (C05): which state components a
  `brace_open` / math token depends on, re-reading at the token's own position, specials keys,
  recovery placeholders.
-/
import PylxProofs.C11
namespace Pylx

/-- position `p` of `s` holds a character that is not whitespace -/
def NonSpaceAt (s : Str) (p : Nat) : Prop := ∃ c, s[p]? = some c ∧ isPySpace c = false

/-- `g` is `f` except possibly for the group delimiters -/
def SameBut (f g : PSFields) : Prop := g = { f with groupDelims := g.groupDelims }

/-! ### whitespace runs -/

theorem takeWhile_next {α : Type} (p : α → Bool) :
    ∀ (l : List α) (c : α), l[(l.takeWhile p).length]? = some c → p c = false
  | [], c, h => by simp at h
  | a :: l, c, h => by
    rw [List.takeWhile_cons] at h
    cases hp : p a with
    | true =>
      rw [hp] at h
      simp only [if_true, List.length_cons, List.getElem?_cons_succ] at h
      exact takeWhile_next p l c h
    | false =>
      rw [hp] at h
      simp at h
      rw [← h]; exact hp

theorem spaceRun_nil {s : Str} {pos : Nat} {c : Char} (h : s[pos]? = some c) (hc : isPySpace c = false) :
    spaceRun s pos = [] := by
  have hlt := getElem?_lt _ _ _ h
  unfold spaceRun
  rw [List.drop_eq_getElem_cons hlt, List.takeWhile_cons]
  rw [List.getElem?_eq_getElem hlt] at h
  cases h
  rw [hc]; rfl

theorem spaceRun_next {s : Str} {pos : Nat} {c : Char} (h : s[pos + (spaceRun s pos).length]? = some c) :
    isPySpace c = false := by
  rw [← List.getElem?_drop] at h
  exact takeWhile_next isPySpace _ c h

theorem peekImpl_at_nonspace {ps : PState} {s : Str} {pos : Nat} {c : Char}
    (h : s[pos]? = some c) (hc : isPySpace c = false) : peekImpl ps s pos = peekAtChar ps s pos c [] := by
  unfold peekImpl
  dsimp only
  rw [spaceRun_nil h hc]
  split
  · rename_i hcond
    simp [countNl] at hcond
  · simp only [List.length_nil, Nat.add_zero, h]

/-! ### classification of results, layer by layer -/

/-- tokens satisfy `P`, placeholders are `char` tokens, no end of stream -/
def ResKind (P : Token → Prop) : PeekRes → Prop
  | .tok t => P t
  | .err _ _ t _ => t.kind = .char
  | .eos _ => False

theorem ResKind.mono {P Q : Token → Prop} (hPQ : ∀ t, P t → Q t) : ∀ {r : PeekRes}, ResKind P r → ResKind Q r
  | .tok t, h => hPQ t h
  | .err _ _ _ _, h => h
  | .eos _, h => h

/-- what holds of every token produced at or below the escape layer -/
def EscTok (ps : PState) (t : Token) : Prop :=
  t.kind ≠ .mathInline ∧ t.kind ≠ .mathDisplay ∧ (t.kind = .specials → t.arg ∈ ps.f.specials) ∧
  (t.kind = .beginEnv ∨ t.kind = .endEnv → ps.f.enEnvs = true)

/-- what holds of every token -/
def AnyTok (ps : PState) (t : Token) : Prop :=
  (t.kind = .specials → t.arg ∈ ps.f.specials) ∧ (t.kind = .beginEnv ∨ t.kind = .endEnv → ps.f.enEnvs = true)

theorem EscTok.of_kind {ps : PState} {t : Token}
    (h : t.kind = .macro ∨ t.kind = .comment ∨ t.kind = .char ∨ t.kind = .braceOpen ∨ t.kind = .braceClose) :
    EscTok ps t := by
  rcases h with h | h | h | h | h <;> simp [EscTok, h]

theorem specials_fold_mem (s : Str) (p : Nat) : ∀ (keys : List Str) (init : Option Str),
    keys.foldl (specialsStep s p) init = init ∨ ∃ k ∈ keys, keys.foldl (specialsStep s p) init = some k
  | [], _ => Or.inl rfl
  | x :: xs, init => by
    rw [List.foldl_cons]
    rcases specials_fold_mem s p xs (specialsStep s p init x) with h | ⟨k, hk, h⟩
    · rw [h]; unfold specialsStep; split
      · right; exact ⟨x, List.mem_cons_self, rfl⟩
      · left; rfl
    · right; exact ⟨k, List.mem_cons_of_mem _ hk, h⟩

theorem testSpecials_mem {keys : List Str} {s : Str} {p : Nat} {k : Str} (h : testSpecials keys s p = some k) :
    k ∈ keys := by
  unfold testSpecials at h
  rcases specials_fold_mem s p keys none with h' | ⟨k', hk', h'⟩
  · rw [h'] at h; cases h
  · rw [h'] at h; cases h; exact hk'

section layers
variable {ps : PState} {s : Str} {p : Nat} {c : Char} {pre : Str}

theorem charToken_kind : ResKind (fun t => t.kind = .char) (charToken ps c p pre) := by
  unfold charToken
  split <;> exact rfl

theorem peekSpecialsOrChar_kind :
    ResKind (fun t => (t.kind = .specials ∧ t.arg ∈ ps.f.specials) ∨ t.kind = .char) (peekSpecialsOrChar ps s p c pre) := by
  unfold peekSpecialsOrChar
  split
  · rename_i k hk
    split at hk
    · exact Or.inl ⟨rfl, testSpecials_mem hk⟩
    · cases hk
  · exact charToken_kind.mono (fun t h => Or.inr h)

theorem peekSpecialsOrChar_esc : ResKind (EscTok ps) (peekSpecialsOrChar ps s p c pre) := by
  refine peekSpecialsOrChar_kind.mono ?_
  intro t h
  rcases h with ⟨h1, h2⟩ | h
  · simp [EscTok, h1, h2]
  · exact EscTok.of_kind (Or.inr (Or.inr (Or.inl h)))

theorem peekGroups_esc : ResKind (EscTok ps) (peekGroups ps s p c pre) := by
  unfold peekGroups
  split
  · split
    · exact EscTok.of_kind (Or.inr (Or.inr (Or.inr (Or.inl rfl))))
    · split
      · exact EscTok.of_kind (Or.inr (Or.inr (Or.inr (Or.inr rfl))))
      · exact peekSpecialsOrChar_esc
  · exact peekSpecialsOrChar_esc

theorem readComment_kind : ResKind (fun t => t.kind = .comment) (readComment ps s p pre) := by
  unfold readComment
  dsimp only
  split <;> exact rfl

theorem peekComment_esc : ResKind (EscTok ps) (peekComment ps s p c pre) := by
  unfold peekComment
  split
  · exact readComment_kind.mono (fun t h => EscTok.of_kind (Or.inr (Or.inl h)))
  · exact peekGroups_esc

theorem readMacro_kind : ResKind (fun t => t.kind = .macro) (readMacro ps s p pre) := by
  unfold readMacro
  split
  · exact rfl
  · split <;> exact rfl

theorem readEnvironment_kind {b : Bool} :
    ResKind (fun t => t.kind = .beginEnv ∨ t.kind = .endEnv) (readEnvironment ps s p b pre) := by
  unfold readEnvironment
  split
  · exact rfl
  · cases b
    · exact Or.inr rfl
    · exact Or.inl rfl

theorem envWordAt_noEnvs (he : ps.f.enEnvs = false) : envWordAt ps s p = none := by
  unfold envWordAt envWord
  rw [he]; rfl

theorem peekEscape_esc : ResKind (EscTok ps) (peekEscape ps s p c pre) := by
  unfold peekEscape
  split
  · split
    · rename_i b hb
      have hen : ps.f.enEnvs = true := by
        cases he : ps.f.enEnvs with
        | true => rfl
        | false => rw [envWordAt_noEnvs he] at hb; cases hb
      refine readEnvironment_kind.mono ?_
      intro t h
      rcases h with h | h <;> simp [EscTok, h, hen]
    · split
      · exact readMacro_kind.mono (fun t h => EscTok.of_kind (Or.inl h))
      · exact peekComment_esc
  · exact peekComment_esc

theorem mathTok_kind (d : Str) (b : Bool) :
    (mathTok p pre d b).kind = .mathInline ∨ (mathTok p pre d b).kind = .mathDisplay := by
  cases b
  · exact Or.inl rfl
  · exact Or.inr rfl

theorem readMathGeneral_spec {t : Token} (h : readMathGeneral ps s p pre = some t) :
    ∃ d b, t = mathTok p pre d b := by
  unfold readMathGeneral at h
  cases hf : ps.t.mathAll.find? (fun d => startsWithAt s d.1 p) with
  | none => rw [hf] at h; cases h
  | some d => rw [hf] at h; cases h; exact ⟨_, _, rfl⟩

theorem readMath_spec {t : Token} (h : readMath ps s p pre = some t) : ∃ d b, t = mathTok p pre d b := by
  unfold readMath at h
  split at h
  · split at h
    · split at h
      · cases h; exact ⟨_, _, rfl⟩
      · exact readMathGeneral_spec h
    · exact readMathGeneral_spec h
  · exact readMathGeneral_spec h

theorem readMath_kind {t : Token} (h : readMath ps s p pre = some t) :
    t.kind = .mathInline ∨ t.kind = .mathDisplay := by
  obtain ⟨d, b, rfl⟩ := readMath_spec h
  exact mathTok_kind d b

theorem readMath_pos5 {t : Token} (h : readMath ps s p pre = some t) : t.pos = p := by
  obtain ⟨d, b, rfl⟩ := readMath_spec h
  rfl

theorem peekAtChar_any : ResKind (AnyTok ps) (peekAtChar ps s p c pre) := by
  have hesc : ResKind (AnyTok ps) (peekEscape ps s p c pre) := peekEscape_esc.mono (fun t h => ⟨h.2.2.1, h.2.2.2⟩)
  unfold peekAtChar
  split
  · split
    · rename_i t ht
      have := readMath_kind ht
      show AnyTok ps t
      rcases this with h | h <;> simp [AnyTok, h]
    · exact hesc
  · exact hesc

end layers

/-- `peekImpl`: tokens satisfy `AnyTok`, placeholders are `char` tokens -/
def ImplOk (ps : PState) : PeekRes → Prop
  | .tok t => AnyTok ps t
  | .err _ _ t _ => t.kind = .char
  | .eos _ => True

theorem ImplOk.of_resKind {ps : PState} : ∀ {r : PeekRes}, ResKind (AnyTok ps) r → ImplOk ps r
  | .tok _, h => h
  | .err _ _ _ _, h => h
  | .eos _, _ => trivial

theorem peekPar_kind (ps : PState) (s : Str) (pos : Nat) (pre : Str) :
    ∃ t, peekPar ps s pos pre = .tok t ∧
      ((t.kind = .specials ∧ t.arg ∈ ps.f.specials) ∨ t.kind = .char) := by
  unfold peekPar
  dsimp only
  split
  · rename_i hp
    unfold parSpecials at hp
    simp only [Bool.and_eq_true] at hp
    exact ⟨_, rfl, Or.inl ⟨rfl, List.contains_iff_mem.mp hp.2⟩⟩
  · exact ⟨_, rfl, Or.inr rfl⟩

theorem peekImpl_any (ps : PState) (s : Str) (pos : Nat) : ImplOk ps (peekImpl ps s pos) := by
  unfold peekImpl
  dsimp only
  split
  · obtain ⟨t, ht, hk⟩ := peekPar_kind ps s pos (spaceRun s pos)
    rw [ht]
    show AnyTok ps t
    rcases hk with ⟨h1, h2⟩ | h
    · simp [AnyTok, h1, h2]
    · simp [AnyTok, h]
  · split
    · trivial
    · exact ImplOk.of_resKind peekAtChar_any

/-! ### the path to a `brace_open` token -/

def braceTok (c : Char) (p : Nat) (pre : Str) : Token :=
  { kind := .braceOpen, arg := [c], pos := p, posEnd := p + 1, pre := pre }

/-- the conditions (other than the group-table test) under which the reader at character `c` of position `p`
    reaches the group-delimiter test -/
structure BraceAt (ps : PState) (s : Str) (p : Nat) (c : Char) : Prop where
  math : (ps.t.mathStart.contains c && ps.f.enMath) = true → readMath ps s p [] = none
  esc : (c == ps.f.escapeChar) = true → envWordAt ps s p = none ∧ ps.f.enMacros = false
  com : ¬ (ps.f.enComments && startsWithAt s ps.f.commentStart p && !ps.f.commentStart.isEmpty) = true
  grp : ps.f.enGroups = true

def setPre (pre : Str) (t : Token) : Token := { t with pre := pre }

section pre
variable {ps : PState} {s : Str} {p : Nat} {c : Char} {pre : Str}

theorem readMathGeneral_pre (pre pre' : Str) :
    readMathGeneral ps s p pre' = (readMathGeneral ps s p pre).map (setPre pre') := by
  unfold readMathGeneral
  rw [Option.map_map]
  rfl

theorem readMath_pre (pre pre' : Str) : readMath ps s p pre' = (readMath ps s p pre).map (setPre pre') := by
  unfold readMath
  split
  · split
    · split
      · rfl
      · exact readMathGeneral_pre pre pre'
    · exact readMathGeneral_pre pre pre'
  · exact readMathGeneral_pre pre pre'

theorem readMath_none_pre (pre pre' : Str) (h : readMath ps s p pre = none) : readMath ps s p pre' = none := by
  rw [readMath_pre pre pre', h]; rfl

theorem peekGroups_brace {t : Token} (h : peekGroups ps s p c pre = .tok t) (hk : t.kind = .braceOpen) :
    ps.f.enGroups = true ∧ ps.t.groupByOpen.any (fun d => d.1 == [c]) = true ∧ t = braceTok c p pre := by
  have hso : ¬ peekSpecialsOrChar ps s p c pre = .tok t := by
    intro h'
    have := @peekSpecialsOrChar_kind ps s p c pre
    rw [h'] at this
    rcases this with ⟨h1, _⟩ | h1 <;> rw [hk] at h1 <;> cases h1
  unfold peekGroups at h
  split at h
  · rename_i hg
    split at h
    · rename_i ha
      cases h
      exact ⟨hg, ha, rfl⟩
    · split at h
      · cases h; cases hk
      · exact absurd h hso
  · exact absurd h hso

theorem peekComment_brace {t : Token} (h : peekComment ps s p c pre = .tok t) (hk : t.kind = .braceOpen) :
    ¬ (ps.f.enComments && startsWithAt s ps.f.commentStart p && !ps.f.commentStart.isEmpty) = true ∧
    peekGroups ps s p c pre = .tok t := by
  unfold peekComment at h
  split at h
  · have := @readComment_kind ps s p pre
    rw [h] at this
    have : t.kind = .comment := this
    rw [hk] at this; cases this
  · rename_i hc
    exact ⟨hc, h⟩

theorem peekEscape_brace {t : Token} (h : peekEscape ps s p c pre = .tok t) (hk : t.kind = .braceOpen) :
    ((c == ps.f.escapeChar) = true → envWordAt ps s p = none ∧ ps.f.enMacros = false) ∧
    peekComment ps s p c pre = .tok t := by
  unfold peekEscape at h
  split at h
  · split at h
    · rename_i b hb
      have := @readEnvironment_kind ps s p pre b
      rw [h] at this
      have : t.kind = .beginEnv ∨ t.kind = .endEnv := this
      rw [hk] at this
      rcases this with h1 | h1 <;> cases h1
    · rename_i hn
      split at h
      · have := @readMacro_kind ps s p pre
        rw [h] at this
        have : t.kind = .macro := this
        rw [hk] at this; cases this
      · rename_i hm
        exact ⟨fun _ => ⟨hn, by simpa using hm⟩, h⟩
  · rename_i hc
    exact ⟨fun hc' => absurd hc' hc, h⟩

theorem peekAtChar_brace {t : Token} (h : peekAtChar ps s p c pre = .tok t) (hk : t.kind = .braceOpen) :
    BraceAt ps s p c ∧ ps.t.groupByOpen.any (fun d => d.1 == [c]) = true ∧ t = braceTok c p pre := by
  have key : ((ps.t.mathStart.contains c && ps.f.enMath) = true → readMath ps s p [] = none) ∧
      peekEscape ps s p c pre = .tok t := by
    unfold peekAtChar at h
    split at h
    · split at h
      · rename_i t' ht'
        cases h
        have := readMath_kind ht'
        rw [hk] at this
        rcases this with h1 | h1 <;> cases h1
      · rename_i hn
        exact ⟨fun _ => readMath_none_pre pre [] hn, h⟩
    · rename_i hc
      exact ⟨fun hc' => absurd hc' hc, h⟩
  obtain ⟨h1, he⟩ := key
  obtain ⟨h2, hc⟩ := peekEscape_brace he hk
  obtain ⟨h3, hg⟩ := peekComment_brace hc hk
  obtain ⟨h4, h5, h6⟩ := peekGroups_brace hg hk
  exact ⟨⟨h1, h2, h3, h4⟩, h5, h6⟩

theorem peekAtChar_of_brace (hb : BraceAt ps s p c) (hany : ps.t.groupByOpen.any (fun d => d.1 == [c]) = true)
    (pre : Str) : peekAtChar ps s p c pre = .tok (braceTok c p pre) := by
  have hg : peekGroups ps s p c pre = .tok (braceTok c p pre) := by
    unfold peekGroups
    rw [if_pos hb.grp, if_pos hany]; rfl
  have hc : peekComment ps s p c pre = .tok (braceTok c p pre) := by
    unfold peekComment
    rw [if_neg hb.com]; exact hg
  have he : peekEscape ps s p c pre = .tok (braceTok c p pre) := by
    unfold peekEscape
    split
    · rename_i hce
      obtain ⟨h1, h2⟩ := hb.esc hce
      rw [h1]
      dsimp only
      rw [h2]
      exact hc
    · exact hc
  unfold peekAtChar
  split
  · rename_i hm
    rw [readMath_none_pre [] pre (hb.math hm)]
    exact he
  · exact he

theorem peekAtChar_math {t : Token} (h : peekAtChar ps s p c pre = .tok t)
    (hk : t.kind = .mathInline ∨ t.kind = .mathDisplay) :
    (ps.t.mathStart.contains c && ps.f.enMath) = true ∧ readMath ps s p pre = some t := by
  have hesc : ¬ peekEscape ps s p c pre = .tok t := by
    intro h'
    have := @peekEscape_esc ps s p c pre
    rw [h'] at this
    have : EscTok ps t := this
    rcases hk with hk | hk
    · exact this.1 hk
    · exact this.2.1 hk
  unfold peekAtChar at h
  split at h
  · rename_i hm
    split at h
    · rename_i t' ht'
      cases h
      exact ⟨hm, ht'⟩
    · exact absurd h hesc
  · exact absurd h hesc

theorem peekAtChar_of_math {t : Token} (hm : (ps.t.mathStart.contains c && ps.f.enMath) = true)
    (ht : readMath ps s p pre = some t) : peekAtChar ps s p c pre = .tok t := by
  unfold peekAtChar
  rw [if_pos hm, ht]

/-- changing the group tables does not affect the path conditions -/
theorem BraceAt.setGroups (hb : BraceAt ps s p c) (gd : Pairs) (gc : List Str) :
    BraceAt { f := { ps.f with groupDelims := gd }, t := { ps.t with groupByOpen := gd, groupClose := gc } } s p c :=
  ⟨hb.math, hb.esc, hb.com, hb.grp⟩

/-- enabling environments again does not affect the path conditions, if macros are enabled (or nothing changes) -/
theorem BraceAt.ofNoEnvs (hesc : ps.f.enMacros = true ∨ ps.f.enEnvs = false)
    (hb : BraceAt { f := { ps.f with enEnvs := false }, t := ps.t } s p c) : BraceAt ps s p c := by
  refine ⟨hb.math, ?_, hb.com, hb.grp⟩
  intro hce
  have h2 : ps.f.enMacros = false := (hb.esc hce).2
  rcases hesc with h | h
  · rw [h] at h2; cases h2
  · exact ⟨envWordAt_noEnvs h, h2⟩

end pre

/-! ### what `mkPS` computes -/

theorem mkPS_groupDelims (f : PSFields) (gd : Pairs) :
    mkPS { f with groupDelims := gd } =
      { f := { (mkPS f).f with groupDelims := gd },
        t := { (mkPS f).t with groupByOpen := gd, groupClose := gd.map (·.2) } } := by
  unfold mkPS PState.fresh PSFields.normalize
  cases h : f.inMath <;> simp [h, computeTables, groupTables, mathTables, expectCloseOf]

theorem mkPS_noEnvs (f : PSFields) :
    mkPS ({ f with enEnvs := false } : PSFields).normalize =
      { f := { (mkPS f).f with enEnvs := false }, t := (mkPS f).t } := by
  unfold mkPS PState.fresh PSFields.normalize
  cases h : f.inMath <;> simp [h, computeTables, groupTables, mathTables, expectCloseOf]

theorem mkPS_groupByOpen (f : PSFields) : (mkPS f).t.groupByOpen = f.groupDelims := by
  unfold mkPS PState.fresh PSFields.normalize computeTables groupTables
  split <;> rfl

theorem mkPS_enMacros (f : PSFields) : (mkPS f).f.enMacros = f.enMacros := by
  unfold mkPS PState.fresh PSFields.normalize
  split <;> rfl

theorem mkPS_enEnvs (f : PSFields) : (mkPS f).f.enEnvs = f.enEnvs := by
  unfold mkPS PState.fresh PSFields.normalize
  split <;> rfl

/-! ### `peekImpl` producing a `brace_open` / math token -/

theorem peekImpl_atChar {ps : PState} {s : Str} {pos : Nat} {t : Token} (h : peekImpl ps s pos = .tok t)
    (hk : t.kind ≠ .specials ∧ t.kind ≠ .char) :
    ∃ c, s[pos + (spaceRun s pos).length]? = some c ∧ isPySpace c = false ∧
      peekAtChar ps s (pos + (spaceRun s pos).length) c (spaceRun s pos) = .tok t := by
  unfold peekImpl at h
  dsimp only at h
  split at h
  · obtain ⟨t', ht', hk'⟩ := peekPar_kind ps s pos (spaceRun s pos)
    rw [ht'] at h
    cases h
    rcases hk' with ⟨h1, _⟩ | h1
    · exact absurd h1 hk.1
    · exact absurd h1 hk.2
  · split at h
    · cases h
    · rename_i c hc
      exact ⟨c, hc, spaceRun_next hc, h⟩

theorem peekImpl_brace {ps : PState} {s : Str} {pos : Nat} {t : Token} (h : peekImpl ps s pos = .tok t)
    (hk : t.kind = .braceOpen) :
    ∃ c, s[pos + (spaceRun s pos).length]? = some c ∧ isPySpace c = false ∧
      BraceAt ps s (pos + (spaceRun s pos).length) c ∧ ps.t.groupByOpen.any (fun d => d.1 == [c]) = true ∧
      t = braceTok c (pos + (spaceRun s pos).length) (spaceRun s pos) := by
  obtain ⟨c, hc, hns, hat⟩ := peekImpl_atChar h (by rw [hk]; exact ⟨by decide, by decide⟩)
  exact ⟨c, hc, hns, peekAtChar_brace hat hk⟩

theorem peekImpl_math {ps : PState} {s : Str} {pos : Nat} {t : Token} (h : peekImpl ps s pos = .tok t)
    (hk : t.kind = .mathInline ∨ t.kind = .mathDisplay) :
    ∃ c, s[pos + (spaceRun s pos).length]? = some c ∧ isPySpace c = false ∧
      (ps.t.mathStart.contains c && ps.f.enMath) = true ∧
      readMath ps s (pos + (spaceRun s pos).length) (spaceRun s pos) = some t := by
  obtain ⟨c, hc, hns, hat⟩ := peekImpl_atChar h (by rcases hk with hk | hk <;> rw [hk] <;> exact ⟨by decide, by decide⟩)
  exact ⟨c, hc, hns, peekAtChar_math hat hk⟩

/-- recovery placeholders are `char` tokens: a non-char token of the (strict or tolerant) reader is a real token -/
theorem peekTok_nonchar {tol : Bool} {ps : PState} {s : Str} {pos : Nat} {t : Token}
    (h : peekTok tol ps s pos = .tok t) (hk : t.kind ≠ .char) : peekImpl ps s pos = .tok t := by
  have hany := peekImpl_any ps s pos
  unfold peekTok at h
  split at h
  · rename_i w ep t' r heq
    rw [heq] at hany
    have hc : t'.kind = .char := hany
    split at h
    · cases h; exact absurd hc hk
    · cases h
  · exact h

theorem peekTok_of_impl {tol : Bool} {ps : PState} {s : Str} {pos : Nat} {t : Token}
    (h : peekImpl ps s pos = .tok t) : peekTok tol ps s pos = .tok t := by
  unfold peekTok
  rw [h]

theorem peekTok_eos {tol : Bool} {ps : PState} {s : Str} {pos : Nat} {fs : Str}
    (h : peekTok tol ps s pos = .eos fs) : peekImpl ps s pos = .eos fs := by
  unfold peekTok at h
  split at h
  · split at h <;> cases h
  · exact h

/-- in tolerant mode the reader never reports a token error -/
theorem peekTok_tol_no_err {ps : PState} {s : Str} {pos : Nat} {w : TokErr} {ep : Nat} {t : Token} {r : Nat} :
    peekTok true ps s pos ≠ .err w ep t r := by
  intro h
  unfold peekTok at h
  split at h
  · simp only [if_true] at h
    cases h
  · rename_i hne
    exact hne _ _ _ _ h

/-- at a non-space character the reader does not report the end of the stream -/
theorem peekImpl_not_eos {ps : PState} {s : Str} {pos : Nat} (h : NonSpaceAt s pos) (fs : Str) :
    peekImpl ps s pos ≠ .eos fs := by
  obtain ⟨c, hc, hns⟩ := h
  rw [peekImpl_at_nonspace hc hns]
  intro he
  have := @peekAtChar_any ps s pos c []
  rw [he] at this
  exact this

/-- group-opening and math tokens start at a non-space character -/
theorem nonSpaceAt_of_tok {ps : PState} {s : Str} {pos : Nat} {t : Token} (h : peekImpl ps s pos = .tok t)
    (hk : t.kind = .braceOpen ∨ t.kind = .mathInline ∨ t.kind = .mathDisplay) : NonSpaceAt s t.pos := by
  rcases hk with hk | hk
  · obtain ⟨c, hc, hns, _, _, rfl⟩ := peekImpl_brace h hk
    exact ⟨c, hc, hns⟩
  · obtain ⟨c, hc, hns, _, hm⟩ := peekImpl_math h hk
    rw [readMath_pos5 hm]
    exact ⟨c, hc, hns⟩

/-- a `brace_open` token's argument is an opening group delimiter of the state it was read with -/
theorem braceOpen_opener {f : PSFields} {s : Str} {pos : Nat} {t : Token}
    (h : peekImpl (mkPS f) s pos = .tok t) (hk : t.kind = .braceOpen) :
    f.groupDelims.any (fun d => d.1 == t.arg) = true := by
  obtain ⟨c, _, _, _, hany, rfl⟩ := peekImpl_brace h hk
  rw [mkPS_groupByOpen] at hany
  exact hany

theorem reread_braceOpen_core (f : PSFields) (gd : Pairs) {s : Str} {pos : Nat} {t : Token}
    (h : peekImpl (mkPS f) s pos = .tok t) (hk : t.kind = .braceOpen)
    (hop : gd.any (fun d => d.1 == t.arg) = true) :
    peekImpl (mkPS { f with groupDelims := gd }) s t.pos = .tok { t with pre := [] } := by
  obtain ⟨c, hc, hns, hb, _, rfl⟩ := peekImpl_brace h hk
  show peekImpl _ s (pos + (spaceRun s pos).length) = .tok (braceTok c (pos + (spaceRun s pos).length) [])
  rw [peekImpl_at_nonspace hc hns, mkPS_groupDelims]
  exact peekAtChar_of_brace (hb.setGroups gd _) hop []

/-- re-reading at a `brace_open` token's position, with a state that differs at most in the group delimiters
    but still knows this opener, gives the same token (without leading whitespace) -/
theorem reread_braceOpen {f f' : PSFields} (hsb : SameBut f f') {s : Str} {pos : Nat} {t : Token}
    (h : peekImpl (mkPS f) s pos = .tok t) (hk : t.kind = .braceOpen)
    (hop : f'.groupDelims.any (fun d => d.1 == t.arg) = true) :
    peekImpl (mkPS f') s t.pos = .tok { t with pre := [] } := by
  have := reread_braceOpen_core f f'.groupDelims h hk hop
  unfold SameBut at hsb
  rw [← hsb] at this
  exact this

/-- the expression parser reads with environments disabled and hands a `brace_open` token to the group parser,
    which re-reads with the original state; the same token comes back provided macros are enabled or
    environments were disabled anyway (otherwise an escape character that is also a group opener can start
    `\begin{…}`) -/
theorem reread_braceOpen_expr {f : PSFields} (hesc : f.enMacros = true ∨ f.enEnvs = false) {s : Str} {pos : Nat} {t : Token}
    (h : peekImpl (mkPS ({ f with enEnvs := false } : PSFields).normalize) s pos = .tok t) (hk : t.kind = .braceOpen) :
    peekImpl (mkPS f) s t.pos = .tok { t with pre := [] } := by
  rw [mkPS_noEnvs] at h
  obtain ⟨c, hc, hns, hb, hany, rfl⟩ := peekImpl_brace h hk
  show peekImpl _ s (pos + (spaceRun s pos).length) = .tok (braceTok c (pos + (spaceRun s pos).length) [])
  rw [peekImpl_at_nonspace hc hns]
  have hesc' : (mkPS f).f.enMacros = true ∨ (mkPS f).f.enEnvs = false := by
    rw [mkPS_enMacros, mkPS_enEnvs]; exact hesc
  exact peekAtChar_of_brace (BraceAt.ofNoEnvs hesc' hb) hany []

theorem reread_math_core (f : PSFields) (gd : Pairs) {s : Str} {pos : Nat} {t : Token}
    (h : peekImpl (mkPS f) s pos = .tok t) (hk : t.kind = .mathInline ∨ t.kind = .mathDisplay) :
    peekImpl (mkPS { f with groupDelims := gd }) s t.pos = .tok { t with pre := [] } := by
  obtain ⟨c, hc, hns, hm, ht⟩ := peekImpl_math h hk
  have hr : readMath (mkPS f) s (pos + (spaceRun s pos).length) [] = some { t with pre := [] } := by
    have := @readMath_pre (mkPS f) s (pos + (spaceRun s pos).length) (spaceRun s pos) []
    rw [ht] at this
    exact this
  have key : peekImpl (mkPS { f with groupDelims := gd }) s (pos + (spaceRun s pos).length) =
      .tok { t with pre := [] } := by
    rw [peekImpl_at_nonspace hc hns, mkPS_groupDelims]
    exact peekAtChar_of_math hm hr
  rw [← readMath_pos5 ht] at key
  exact key

/-- re-reading at a math token's position with a state that differs at most in the group delimiters -/
theorem reread_math {f f' : PSFields} (hsb : SameBut f f') {s : Str} {pos : Nat} {t : Token}
    (h : peekImpl (mkPS f) s pos = .tok t) (hk : t.kind = .mathInline ∨ t.kind = .mathDisplay) :
    peekImpl (mkPS f') s t.pos = .tok { t with pre := [] } := by
  have := reread_math_core f f'.groupDelims h hk
  unfold SameBut at hsb
  rw [← hsb] at this
  exact this

/-- a specials token carries one of the state's specials keys -/
theorem specials_arg_mem {ps : PState} {s : Str} {pos : Nat} {t : Token}
    (h : peekImpl ps s pos = .tok t) (hk : t.kind = .specials) : t.arg ∈ ps.f.specials := by
  have := peekImpl_any ps s pos
  rw [h] at this
  exact this.1 hk

/-- with environments disabled no `\begin` / `\end` token is produced -/
theorem no_env_tok {ps : PState} (he : ps.f.enEnvs = false) {s : Str} {pos : Nat} {t : Token}
    (h : peekImpl ps s pos = .tok t) : t.kind ≠ .beginEnv ∧ t.kind ≠ .endEnv := by
  have := peekImpl_any ps s pos
  rw [h] at this
  have h2 : t.kind = .beginEnv ∨ t.kind = .endEnv → ps.f.enEnvs = true := this.2
  rw [he] at h2
  exact ⟨fun hk => Bool.noConfusion (h2 (Or.inl hk)), fun hk => Bool.noConfusion (h2 (Or.inr hk))⟩

end Pylx
