/-
  C13, parse link for all strings — the prefix lemma for the grammar of `C13FullDefs`: with the nodes collector in
  front of (whitespace and) the source of a well-formed item list followed by `after`, in any state of the family
  `C02.stdF`, it gets in front of (whitespace and) `after`, and everything it has produced on the way holds no comment
  and no environment.  By induction on the size of the item list (mutually with the arguments of a call), following
  the tokenizer through whitespace runs, paragraph breaks and specials; the sub-parsers (`group`, `expression`,
  `arguments`, macro and specials calls) are used through their lemmas in `PylxProofs/C02*.lean`.
-/
import PylxProofs.C13FullTok
namespace Pylx.C13.Full
open Pylx Pylx.C02

/-! ### sizes -/

mutual
def szI : List CItem → Nat
  | [] => 0
  | .ch _ :: tl => 1 + szI tl
  | .grp b :: tl => 1 + szI b + szI tl
  | .mac _ _ a :: tl => 1 + szA a + szI tl
  | .math b :: tl => 1 + szI b + szI tl
def szA : List CArg → Nat
  | [] => 0
  | .absent :: tl => 1 + szA tl
  | .grp b :: tl => 1 + szI b + szA tl
  | .br b :: tl => 1 + szI b + szA tl
  | .tok _ :: tl => 1 + szA tl
  | .mtok _ :: tl => 1 + szA tl
end

/-! ### the context and what follows a list -/

/-- what follows an item list: nothing, or the closing delimiter of the enclosing group -/
def afterOk : Str → Bool
  | [] => true
  | c :: _ => c == '}' || c == ']' || c == '$'

theorem afterOk_head {after : Str} (h : afterOk after = true) : Doc.headIs isPySpace after = false := by
  cases after with
  | nil => rfl
  | cons c r =>
    simp only [afterOk, Bool.or_eq_true, beq_iff_eq] at h
    rcases h with (h | h) | h <;> (subst h; rfl)

def okKeyChar (x : Char) : Prop := x ≠ '{' ∧ x ≠ '\\' ∧ x ≠ '}' ∧ x ≠ ']' ∧ x ≠ '$'

/-- the facts about environment and context the prefix lemma uses -/
structure Setup (env : Env) (ctx : Ctx) (keys : List Str) : Prop where
  tol : env.tol = false
  kc : Doc.keysCore keys = true
  hctx : env.ctx = ctx
  hkeys : Doc.ctxKeys ctx = keys
  par : keys.contains ['\n', '\n'] = true
  spec : ∀ k ∈ keys, lookupFirst k ctx.specials = some (.std [])
  kch : ∀ k ∈ keys, ∀ x ∈ k, okKeyChar x

/-- the decidable form of the context part of `Setup` -/
def ctxOk (ctx : Ctx) : Bool :=
  Doc.keysCore (Doc.ctxKeys ctx) && (Doc.ctxKeys ctx).contains ['\n', '\n'] &&
  (Doc.ctxKeys ctx).all (fun k => decide (lookupFirst k ctx.specials = some (.std []))) &&
  (Doc.ctxKeys ctx).all (fun k => k.all (fun x => x != '{' && x != '\\' && x != '}' && x != ']' && x != '$'))

theorem setup_of_ctxOk {ctx : Ctx} (h : ctxOk ctx = true) (s : Str) :
    Setup { tol := false, ctx := ctx, s := s } ctx (Doc.ctxKeys ctx) := by
  unfold ctxOk at h
  simp only [Bool.and_eq_true, List.all_eq_true, decide_eq_true_eq, bne_iff_ne, ne_eq] at h
  obtain ⟨⟨⟨h1, h2⟩, h3⟩, h4⟩ := h
  refine ⟨rfl, h1, rfl, rfl, h2, h3, ?_⟩
  intro k hk x hx
  obtain ⟨⟨⟨⟨a, b⟩, c⟩, d⟩, e⟩ := h4 k hk x hx
  exact ⟨a, b, c, d, e⟩

theorem head_of_nextCh {F after : Str} {fc : Option Char} {c : Char} (hfc : ∀ c, fc = some c → after.head? = some c)
    (h : nextCh F fc = some c) : ∃ r, F ++ after = c :: r := by
  cases F with
  | nil =>
    have := hfc c h
    cases after with
    | nil => cases this
    | cons d r =>
      simp only [List.head?_cons, Option.some.injEq] at this
      subst this
      exact ⟨r, rfl⟩
  | cons d F =>
    simp only [nextCh, Option.some.injEq] at h
    subst h
    exact ⟨F ++ after, rfl⟩

/-! ### steps of the collector -/

section steps
variable {env : Env} {ctx : Ctx} {keys : List Str} {m : Bool} {md : Option Str} {br : Xp} {stop : StopTok} {child : ChildPS}

/-- a whitespace run with a paragraph break: the paragraph specials; the collector stands behind the last newline -/
theorem reach_parGen (S : Setup env ctx keys) (hn : NormOk m md)
    (hch : ∀ t : Token, (t.kind = .braceOpen → t.arg = ['{']) → child.get (stdF keys m md true br) t = stdF keys m md true)
    {st : LoopSt} {w R : Str} (hd : env.s.drop st.pos = w ++ R) (hw : Doc.isWs w = true)
    (hR : Doc.headIs isPySpace R = false) (hnl : countNl w ≥ 2) :
    Reaches env (stdF keys m md true br) stop child st
      (pendSh (w.take (firstNl w)) ++ [Doc.Shape.specials ['\n', '\n'] []]) (lastNlEnd w) := by
  have hps := psStd_std keys m md true br hn
  have hpsp : parSpecials (mkPS (stdF keys m md true br)) = true := by
    unfold parSpecials
    rw [hps.hc, hps.sp, S.par]
    rfl
  have hpk := peekImpl_parGen (ps := mkPS (stdF keys m md true br)) hd hw hR hnl hps.dn hpsp
  have hspec : lookupFirst ['\n', '\n'] env.ctx.specials = some (.std []) := by
    rw [S.hctx]
    exact S.spec _ (by simpa using S.par)
  have hcall := specialsCall_runs (t := ({ kind := TokKind.specials, arg := ['\n', '\n'], pos := st.pos + firstNl w, posEnd := st.pos + lastNlEnd w, pre := [] } : Token))
    (arguments_runs (argsEv_nil (env := env) (stdF keys m md true) [] (st.pos + lastNlEnd w)))
  have := reach_dispatch (stop := stop) (child := child) S.tol hpk
    (stop_test_char stop _ (Or.inr (Or.inr (Or.inr (Or.inr (Or.inl rfl)))))) rfl
    (by show st.pos ≤ st.pos + lastNlEnd w; omega)
    (dispatch_specials (K := stdF keys m md true) rfl hspec (hch _ (fun h => by cases h)) hcall)
  have e : st.pos + lastNlEnd w - st.pos = lastNlEnd w := by omega
  rw [e] at this
  exact this

/-- whitespace in front of something that is not whitespace: after at most one paragraph token the collector stands in
    front of whitespace with fewer than two newlines -/
theorem reach_norm (S : Setup env ctx keys) (hn : NormOk m md)
    (hch : ∀ t : Token, (t.kind = .braceOpen → t.arg = ['{']) → child.get (stdF keys m md true br) t = stdF keys m md true)
    {st : LoopSt} {w R : Str} (hd : env.s.drop st.pos = w ++ R) (hw : Doc.isWs w = true)
    (hR : Doc.headIs isPySpace R = false) :
    ∃ tr n w2, Reaches env (stdF keys m md true br) stop child st tr n ∧ cleanL tr = true ∧
      env.s.drop (st.pos + n) = w2 ++ R ∧ Doc.isWs w2 = true ∧ countNl w2 < 2 := by
  by_cases hnl : countNl w < 2
  · exact ⟨[], 0, w, Reaches.refl env _ stop child st, rfl, hd, hw, hnl⟩
  · have hnl' : countNl w ≥ 2 := by omega
    refine ⟨_, lastNlEnd w, w.drop (lastNlEnd w), reach_parGen S hn hch hd hw hR hnl', ?_, ?_, isWs_drop hw _, ?_⟩
    · rw [cleanL_append, cleanL_pendSh]; rfl
    · have : env.s.drop (st.pos + lastNlEnd w) = (env.s.drop st.pos).drop (lastNlEnd w) := by rw [List.drop_drop]
      rw [this, hd, List.drop_append_of_le_length (lastNlEnd_le w)]
    · rw [countNl_drop_lastNlEnd]; omega

/-- a plain character that is not whitespace: a `char` token, or the specials token of a key `c :: k'` of the context -/
theorem reach_plain (S : Setup env ctx keys) (hn : NormOk m md)
    (hch : ∀ t : Token, (t.kind = .braceOpen → t.arg = ['{']) → child.get (stdF keys m md true br) t = stdF keys m md true)
    {st : LoopSt} {w R : Str} {c : Char} (hd : env.s.drop st.pos = w ++ c :: R) (hw : Doc.isWs w = true)
    (hnl : countNl w < 2) (hc : plainCh br c = true) (hsp : isPySpace c = false) :
    ∃ (tr : List Doc.Shape) (k' : Str), Reaches env (stdF keys m md true br) stop child st tr (w.length + 1 + k'.length) ∧ cleanL tr = true ∧
      k'.isPrefixOf R = true ∧ ∀ x ∈ k', okKeyChar x := by
  have hps := psStd_std keys m md true br hn
  have hdq : env.s.drop (st.pos + w.length) = c :: R := drop_add_of_drop hd
  cases hts : testSpecials keys (c :: R) 0 with
  | none =>
    have hpk : peekImpl (mkPS (stdF keys m md true br)) env.s st.pos = _ :=
      (peekImpl_ws hd hw hnl hsp).trans (peekAtChar_plainChar hps hdq hc hts)
    have := reach_charTok (stop := stop) (child := child) S.tol hpk rfl (by show st.pos ≤ st.pos + w.length + 1; omega)
    have e : st.pos + w.length + 1 - st.pos = w.length + 1 + ([] : Str).length := by simp; omega
    simp only [e] at this
    refine ⟨_, [], this, ?_, rfl, fun x hx => by cases hx⟩
    rw [cleanL_append, cleanL_pendSh, cleanL_pendSh]; rfl
  | some k =>
    have hmem : k ∈ keys := testSpecials_mem hts
    obtain ⟨hne, hsw⟩ := testSpecials_spec keys (c :: R) 0 k hts
    have hpre : k.isPrefixOf (c :: R) = true := by
      unfold startsWithAt at hsw
      simpa using hsw
    cases k with
    | nil => exact absurd rfl hne
    | cons c1 k' =>
      simp only [List.isPrefixOf, Bool.and_eq_true, beq_iff_eq] at hpre
      obtain ⟨hc1, hpre'⟩ := hpre
      subst hc1
      have hpk : peekImpl (mkPS (stdF keys m md true br)) env.s st.pos = _ :=
        (peekImpl_ws hd hw hnl hsp).trans (peekAtChar_plainSpecials hps hdq hc hts)
      have hspec : lookupFirst (c1 :: k') env.ctx.specials = some (.std []) := by
        rw [S.hctx]; exact S.spec _ hmem
      have hcall := specialsCall_runs (t := ({ kind := TokKind.specials, arg := (c1 :: k'), pos := st.pos + w.length, posEnd := st.pos + w.length + (c1 :: k').length, pre := [] } : Token))
        (arguments_runs (argsEv_nil (env := env) (stdF keys m md true) [] (st.pos + w.length + (c1 :: k').length)))
      have := reach_dispatch (stop := stop) (child := child) S.tol hpk
        (stop_test_char stop _ (Or.inr (Or.inr (Or.inr (Or.inr (Or.inl rfl)))))) rfl
        (by show st.pos ≤ st.pos + w.length + (c1 :: k').length; omega)
        (dispatch_specials (K := stdF keys m md true) rfl hspec (hch _ (fun h => by cases h)) hcall)
      have e : st.pos + w.length + (c1 :: k').length - st.pos = w.length + 1 + k'.length := by simp; omega
      rw [e] at this
      refine ⟨_, k', this, ?_, hpre', fun x hx => S.kch _ hmem x (List.mem_cons_of_mem _ hx)⟩
      rw [cleanL_append, cleanL_pendSh]; rfl

end steps

/-- the characters of a specials string behind its first one are single-character items -/
theorem strip_prefix (ctx : Ctx) (m : Bool) (br : Xp) (fc : Option Char) :
    ∀ (k' : Str) (tl : List CItem) (after : Str), (∀ x ∈ k', okKeyChar x) → afterOk after = true →
      k'.isPrefixOf (unI tl ++ after) = true → cwfI ctx m br fc tl = true →
      ∃ tl', szI tl' ≤ szI tl ∧ cwfI ctx m br fc tl' = true ∧ unI tl ++ after = k' ++ (unI tl' ++ after)
  | [], tl, after, _, _, _, hwf => ⟨tl, Nat.le_refl _, hwf, rfl⟩
  | x :: k', tl, after, hk, haft, hpre, hwf => by
    obtain ⟨h1, h2, h3, h4, h5⟩ := hk x (List.mem_cons_self ..)
    cases tl with
    | nil =>
      exfalso
      cases after with
      | nil => simp [unI] at hpre
      | cons d r =>
        simp only [unI, List.nil_append, List.isPrefixOf, Bool.and_eq_true, beq_iff_eq] at hpre
        simp only [afterOk, Bool.or_eq_true, beq_iff_eq] at haft
        rcases haft with (h | h) | h
        · exact h3 (hpre.1.trans h)
        · exact h4 (hpre.1.trans h)
        · exact h5 (hpre.1.trans h)
    | cons it tl =>
      cases it with
      | ch y =>
        simp only [unI, List.cons_append, List.isPrefixOf, Bool.and_eq_true, beq_iff_eq] at hpre
        simp only [cwfI, Bool.and_eq_true] at hwf
        obtain ⟨tl', hs, hw', he⟩ := strip_prefix ctx m br fc k' tl after (fun z hz => hk z (List.mem_cons_of_mem _ hz)) haft hpre.2 hwf.2
        refine ⟨tl', by simp only [szI]; omega, hw', ?_⟩
        simp only [unI, List.cons_append]
        rw [he, hpre.1]
      | grp b =>
        exfalso
        simp only [unI, List.cons_append, List.isPrefixOf, Bool.and_eq_true, beq_iff_eq] at hpre
        exact h1 hpre.1
      | mac n po a =>
        exfalso
        simp only [unI, List.cons_append, List.isPrefixOf, Bool.and_eq_true, beq_iff_eq] at hpre
        exact h2 hpre.1
      | math b =>
        exfalso
        simp only [unI, List.cons_append, List.isPrefixOf, Bool.and_eq_true, beq_iff_eq] at hpre
        exact h5 hpre.1

/-! ### the expression parser in front of a macro token -/

section exprmac
variable {env : Env} {keys : List Str} {m : Bool} {md : Option Str}

theorem expr_mac_runs (htol : env.tol = false) (hn : NormOk m md) {pos e : Nat} {name X : Str}
    (hd : env.s.drop pos = '\\' :: X)
    (htok : peekAtChar (mkPS (stdF keys m md false)) env.s pos '\\' [] =
      .tok { kind := TokKind.macro, arg := name, pos := pos, posEnd := e, pre := [], post := [] })
    (hb : name ≠ "begin".toList) (he : name ≠ "end".toList) :
    Ev env (.pc (.expression true) (stdF keys m md true) pos)
      (.ok (.node (Node.mac pos e (psInfo (stdF keys m md true)) name [] (some []))) e) := by
  have hpk : peekImpl (mkPS (stdF keys m md false)) env.s pos = _ := (peek0 hd (by decide)).trans htok
  have h1 : Ev env (.expr true [] (stdF keys m md true) pos)
      (.ok (.node (Node.mac pos e (psInfo (stdF keys m md true)) name [] (some []))) e) := by
    refine Ev.of_const (fun rec => ?_)
    show exprStep env rec true [] (stdF keys m md true) pos = _
    unfold exprStep
    simp only
    rw [ef_eq hn none, htol, peekTok_false, hpk]
    simp only
    unfold exprTok
    have e1 : (TokKind.macro == TokKind.macro) = true := rfl
    have e2 : (name == "begin".toList) = false := by simpa using hb
    have e3 : (name == "end".toList) = false := by simpa using he
    simp only [e1, e2, e3, if_true, Bool.or_self, Bool.false_eq_true, if_false]
    rfl
  obtain ⟨n1, h1⟩ := h1
  refine Ev.of_step ⟨n1, fun k hk => ?_⟩
  show parseContent env.tol (.ret (run env k (.expr true [] (stdF keys m md true) pos))) = _
  rw [h1 k hk]
  rfl

end exprmac

/-! ### macro names -/

theorem isEnvWord_word {name X : Str} (hall : name.all isAsciiAlpha = true) (hX : Doc.headIs isAsciiAlpha X = false)
    (hb : name ≠ "begin".toList) (he : name ≠ "end".toList) : Doc.isEnvWord (name ++ X) = false := by
  unfold Doc.isEnvWord
  have h1 : (("begin".toList).isPrefixOf (name ++ X) && !Doc.headIs isAsciiAlpha ((name ++ X).drop 5)) = false := by
    cases hp : ("begin".toList).isPrefixOf (name ++ X) with
    | false => rfl
    | true =>
      obtain ⟨c, more, hn, hc⟩ := word_prefix _ name X (by decide) hall hX hb hp
      rw [hn]
      simp [Doc.headIs, hc]
  have h2 : (("end".toList).isPrefixOf (name ++ X) && !Doc.headIs isAsciiAlpha ((name ++ X).drop 3)) = false := by
    cases hp : ("end".toList).isPrefixOf (name ++ X) with
    | false => rfl
    | true =>
      obtain ⟨c, more, hn, hc⟩ := word_prefix _ name X (by decide) hall hX he hp
      rw [hn]
      simp [Doc.headIs, hc]
  rw [h1, h2]; rfl

theorem isEnvWord_sym {c : Char} {X : Str} (ha : isAsciiAlpha c = false) : Doc.isEnvWord (c :: X) = false := by
  have hb : c ≠ 'b' := by intro e; subst e; revert ha; decide
  have he : c ≠ 'e' := by intro e; subst e; revert ha; decide
  unfold Doc.isEnvWord
  simp [List.isPrefixOf, Ne.symm hb, Ne.symm he]

theorem space_not_alpha {c : Char} (h : isPySpace c = true) : isAsciiAlpha c = false := by
  cases ha : isAsciiAlpha c with
  | false => rfl
  | true =>
    exfalso
    have h1 := alpha_range ha
    have : isPySpace c = false := by
      unfold isPySpace
      simp only [Bool.or_eq_false_iff, Bool.and_eq_false_iff, decide_eq_false_iff_not, beq_eq_false_iff_ne]
      omega
    rw [this] at h
    cases h

/-- the token of a macro name written, with its post-space, in front of `X` (the rest of the source), for a tokenizer
    state of the family -/
theorem macro_token {keys : List Str} {m : Bool} {md : Option Str} {ee : Bool} {br : Xp} (hn : NormOk m md) {s : Str} {p : Nat}
    {name post X pre : Str} {next : Option Char} (hname : nameOk name post next = true)
    (hnext : ∀ c, next = some c → ∃ r, X = c :: r) (hd : s.drop p = '\\' :: (name ++ (post ++ X))) :
    ∃ c0 name', name = c0 :: name' ∧ name ≠ "begin".toList ∧ name ≠ "end".toList ∧
      Doc.isEnvWord (name ++ (post ++ X)) = false ∧
      peekAtChar (mkPS (stdF keys m md ee br)) s p '\\' pre =
        .tok { kind := TokKind.macro, arg := name, pos := p, posEnd := p + 1 + name.length + post.length, pre := pre,
               post := post } := by
  have hps := psStd_std keys m md ee br hn
  unfold nameOk at hname
  cases hcw : Doc.isControlWord name with
  | true =>
    rw [hcw] at hname
    simp only [if_true, Bool.and_eq_true, bne_iff_ne, ne_eq, decide_eq_true_eq] at hname
    obtain ⟨⟨⟨⟨hnb, hne⟩, hwsp⟩, hnlp⟩, hnx⟩ := hname
    cases hnn : next with
    | none => rw [hnn] at hnx; cases hnx
    | some c =>
      rw [hnn] at hnx
      simp only [Bool.and_eq_true, Bool.not_eq_eq_eq_not, Bool.not_true, Bool.or_eq_true] at hnx
      obtain ⟨hcs, hca⟩ := hnx
      obtain ⟨r, hX⟩ := hnext c hnn
      simp only [Doc.isControlWord, Bool.and_eq_true, Bool.not_eq_eq_eq_not, Bool.not_true] at hcw
      obtain ⟨hnem, hall⟩ := hcw
      cases name with
      | nil => simp at hnem
      | cons c0 name' =>
        have hXs : Doc.headIs isPySpace X = false := by rw [hX]; simpa [Doc.headIs] using hcs
        have hXa : Doc.headIs isAsciiAlpha (post ++ X) = false := by
          cases post with
          | nil =>
            rcases hca with h | h
            · simp at h
            · rw [hX]; simpa [Doc.headIs] using h
          | cons d post' =>
            simp only [Doc.isWs, List.all_cons, Bool.and_eq_true] at hwsp
            simpa [Doc.headIs] using space_not_alpha hwsp.1
        refine ⟨c0, name', rfl, hnb, hne, isEnvWord_word hall hXa hnb hne, ?_⟩
        exact peekAtChar_macro (pre := pre) (post := post) (r := X) hps (stdExpect_cases m md) hd hall hXa hwsp hnlp hXs hnb hne
  | false =>
    rw [hcw] at hname
    simp only [Bool.false_eq_true, if_false, Bool.and_eq_true] at hname
    obtain ⟨hpe, hname⟩ := hname
    have hp0 : post = [] := List.isEmpty_iff.mp hpe
    subst hp0
    cases name with
    | nil => cases hname
    | cons c0 name' =>
      cases name' with
      | cons _ _ => cases hname
      | nil =>
        simp only [Doc.isControlSymbol, Bool.and_eq_true, Bool.not_eq_eq_eq_not, Bool.not_true, bne_iff_ne, ne_eq] at hname
        obtain ⟨⟨⟨⟨⟨ha, _⟩, n1⟩, n2⟩, n3⟩, n4⟩ := hname
        refine ⟨c0, [], rfl, (by intro h; cases h), (by intro h; cases h), isEnvWord_sym ha, ?_⟩
        exact peekAtChar_macro1 hps (stdExpect_cases m md) (by simpa using hd) ha n1 n2 n3 n4

/-! ### a single plain character as an argument -/

theorem specialsStep_nohead {s : Str} {p : Nat} {c : Char} {rest : Str} (hd : s.drop p = c :: rest)
    (k : Str) (hk : Doc.headIs (· == c) k = false) : specialsStep s p none k = none := by
  unfold specialsStep
  rw [startsWithAt_of_drop hd]
  cases k with
  | nil => simp [bestLen]
  | cons a k' =>
    have : a ≠ c := by
      intro e; subst e
      simp [Doc.headIs] at hk
    simp [List.isPrefixOf, this]

theorem testSpecials_nohead {keys : List Str} {s : Str} {p : Nat} {c : Char} {rest : Str}
    (hk : keys.all (fun k => !Doc.headIs (· == c) k) = true) (hd : s.drop p = c :: rest) : testSpecials keys s p = none := by
  unfold testSpecials
  induction keys with
  | nil => rfl
  | cons k ks ih =>
    simp only [List.all_cons, Bool.and_eq_true, Bool.not_eq_eq_eq_not, Bool.not_true] at hk
    rw [List.foldl_cons, specialsStep_nohead hd k hk.1]
    exact ih hk.2

section exprtok
variable {env : Env} {keys : List Str} {m : Bool} {md : Option Str}

/-- the expression parser in front of a single character that the tokenizer reads as a `char` token -/
theorem expr_char_runs (htol : env.tol = false) (hn : NormOk m md) {pos : Nat} {c : Char} {rest : Str}
    (hd : env.s.drop pos = c :: rest) (hsp : isPySpace c = false)
    (htok : peekAtChar (mkPS (stdF keys m md false)) env.s pos c [] =
      .tok { kind := .char, arg := [c], pos := pos, posEnd := pos + 1, pre := [] }) :
    Ev env (.pc (.expression true) (stdF keys m md true) pos)
      (.ok (.node (Node.chars pos (pos + 1) (psInfo (stdF keys m md true)) [c])) (pos + 1)) := by
  have hpk : peekImpl (mkPS (stdF keys m md false)) env.s pos = _ := (peek0 hd hsp).trans htok
  have h1 : Ev env (.expr true [] (stdF keys m md true) pos)
      (.ok (.node (Node.chars pos (pos + 1) (psInfo (stdF keys m md true)) [c])) (pos + 1)) := by
    refine Ev.of_const (fun rec => ?_)
    show exprStep env rec true [] (stdF keys m md true) pos = _
    unfold exprStep
    simp only
    rw [ef_eq hn none, htol, peekTok_false, hpk]
    simp only
    unfold exprTok
    simp only [List.isEmpty_nil, Bool.not_true, Bool.false_eq_true, if_false]
    have e1 : (TokKind.char == TokKind.macro) = false := rfl
    have e2 : (TokKind.char == TokKind.specials) = false := rfl
    rw [e1, e2]
    simp only [Bool.false_eq_true, if_false]
    unfold exprOnTok
    rfl
  obtain ⟨n1, h1⟩ := h1
  refine Ev.of_step ⟨n1, fun k hk => ?_⟩
  show parseContent env.tol (.ret (run env k (.expr true [] (stdF keys m md true) pos))) = _
  rw [h1 k hk]
  rfl

end exprtok

theorem tokOk_spec {ctx : Ctx} {c : Char} (h : tokOk ctx c = true) :
    isPySpace c = false ∧ c ≠ '\\' ∧
      ∀ (keys : List Str), Doc.ctxKeys ctx = keys → Doc.keysCore keys = true → ∀ (m : Bool) (md : Option Str), NormOk m md →
        ∀ (s : Str) (p : Nat) (rest : Str), s.drop p = c :: rest →
          peekAtChar (mkPS (stdF keys m md false)) s p c [] =
            .tok { kind := .char, arg := [c], pos := p, posEnd := p + 1, pre := [] } := by
  unfold tokOk at h
  rcases Bool.or_eq_true _ _ |>.mp h with h | h
  · have hne := textChar_ne h
    refine ⟨hne.2.2.2.2.2, hne.2.1, ?_⟩
    intro keys _ hk m md hn s p rest hd
    exact C02.peekAtChar_text (psStd_std keys m md false none hn) trivial hk hd h
  · simp only [Bool.and_eq_true, Bool.not_eq_eq_eq_not, Bool.not_true] at h
    obtain ⟨⟨hpl, hsp⟩, hkeys⟩ := h
    refine ⟨hsp, (plainCh_ne hpl).1, ?_⟩
    intro keys hke _ m md hn s p rest hd
    refine peekAtChar_plainChar (psStd_std keys m md false none hn) hd hpl ?_
    have := testSpecials_nohead (keys := keys) (s := s) (p := p) (by rw [← hke]; exact hkeys) hd
    rw [testSpecials_drop, hd] at this
    exact this

/-! ### the prefix lemma -/

def PI (env : Env) (ctx : Ctx) (keys : List Str) (N : Nat) : Prop :=
  ∀ (a : List CItem), szI a < N → ∀ (m : Bool) (br : Xp) (fc : Option Char) (after : Str), cwfI ctx m br fc a = true →
    (∀ c, fc = some c → after.head? = some c) → afterOk after = true → XpOk br →
    ∀ (md : Option Str), NormOk m md → ∀ (stop : StopTok) (child : ChildPS),
    (∀ t : Token, (t.kind = .braceOpen → t.arg = ['{']) → child.get (stdF keys m md true br) t = stdF keys m md true) →
    (m = false → ∀ t : Token, t.kind = .mathInline ∨ t.kind = .mathDisplay → stop.test t = false) →
    ∀ (st : LoopSt) (w : Str), Doc.isWs w = true → env.s.drop st.pos = w ++ (unI a ++ after) →
    RW env (stdF keys m md true br) stop child st after

def PA (env : Env) (ctx : Ctx) (keys : List Str) (N : Nat) : Prop :=
  ∀ (args : List CArg), szA args < N → ∀ (m : Bool) (sig : List ArgSpec) (restI : Str) (fc : Option Char) (after : Str),
    cwfA ctx m restI fc sig args = true → (∀ c, fc = some c → after.head? = some c) →
    ∀ (md : Option Str), NormOk m md → ∀ (acc : List Arg) (pos : Nat),
    env.s.drop pos = unA args ++ (restI ++ after) →
    ∃ al pA, ArgsEv env (stdF keys m md true) sig acc pos (.ok (.args none none (acc ++ al)) pA) ∧ pos ≤ pA ∧
      env.s.drop pA = restI ++ after ∧ cleanAL (Doc.shapeOfArgList al) = true

theorem followOk_esc {r : Str} (h1 : r ≠ []) (h2 : Doc.isEnvWord r = false) : Doc.absentFollowOk ('\\' :: r) = true := by
  unfold Doc.absentFollowOk
  have hs : isPySpace '\\' = false := by decide
  simp only [List.takeWhile_cons, List.dropWhile_cons, hs, Bool.false_eq_true, if_false]
  have : Doc.escSafe ('\\' :: r) = true := by
    unfold Doc.escSafe
    cases r with
    | nil => exact absurd rfl h1
    | cons c r => simp [h2]
  rw [this]
  rfl

theorem headIs_cons (p : Char → Bool) (c : Char) (r : Str) : Doc.headIs p (c :: r) = p c := rfl

theorem fc_close (c : Char) (r : Str) : ∀ d, some c = some d → (c :: r).head? = some d := by
  intro d h; cases h; rfl

/-- the first character of a non-empty well-formed list in math mode is not `$` -/
theorem head_not_dollar (ctx : Ctx) (br : Xp) (fc : Option Char) :
    ∀ (b : List CItem), b.isEmpty = false → cwfI ctx true br fc b = true → ∀ rest, Doc.headIs (· == '$') (unI b ++ rest) = false
  | [], h, _, _ => by cases h
  | .ch c :: tl, _, hw, rest => by
    simp only [cwfI, Bool.and_eq_true] at hw
    have := (plainCh_ne hw.1).2.2.2.1
    simp [unI, Doc.headIs, this]
  | .grp b :: tl, _, _, rest => by simp [unI, Doc.headIs]
  | .mac n po a :: tl, _, _, rest => by simp [unI, Doc.headIs]
  | .math b :: tl, _, hw, rest => by simp [cwfI] at hw

section main
variable {env : Env} {ctx : Ctx} {keys : List Str}

theorem step_args (S : Setup env ctx keys) {N : Nat} (hI : PI env ctx keys N) (hA : PA env ctx keys N) :
    PA env ctx keys (N + 1) := by
  intro args hsz m sig restI fc after hwf hfc md hn acc pos hd
  cases args with
  | nil =>
    cases sig with
    | nil =>
      refine ⟨[], pos, ?_, Nat.le_refl _, by simpa [unA] using hd, rfl⟩
      rw [List.append_nil]
      exact argsEv_nil _ _ _
    | cons sp sig => simp [cwfA] at hwf
  | cons av tl =>
    cases sig with
    | nil => cases av <;> simp [cwfA] at hwf
    | cons sp sig =>
      obtain ⟨md', hK', hn'⟩ := applyDelta_std (keys := keys) m md sp.delta
      have e : ∀ (x : Arg) (al : List Arg), acc ++ x :: al = acc ++ [x] ++ al := by intro x al; simp
      cases av with
      | absent =>
        simp only [cwfA, Bool.and_eq_true, beq_iff_eq] at hwf
        obtain ⟨⟨hkind, hnext⟩, hrest⟩ := hwf
        simp only [unA] at hd
        obtain ⟨r, hF⟩ := head_of_nextCh hfc hnext
        have hd' : env.s.drop pos = '{' :: r := by rw [hd, ← List.append_assoc, hF]
        have hfol : Doc.absentFollowOk ('{' :: r) = true := followOk_of_head (by decide) (by decide)
        have hpk := peek_follow_noerr (psStd_std keys m md true none hn) hd' hfol
        have hsz' : szA tl < N := by simp only [szA] at hsz; omega
        obtain ⟨al, pA, hAE, hpA, hdpA, hcl⟩ := hA tl hsz' m sig restI fc after hrest hfc md hn (acc ++ [Arg.absent]) pos hd
        refine ⟨.absent :: al, pA, ?_, hpA, hdpA, by simp only [Doc.shapeOfArgList, Doc.shapeOfArg, cleanAL, cleanA, hcl]; rfl⟩
        rw [e]
        cases hkk : sp.kind with
        | o ap =>
          refine argsEv_cons (res := .none) S.tol hpk ?_ hAE
          rw [hkk, hK']
          refine xgroup_absent_runs S.tol (hn' hn) (o := '[') (c := ']') (by decide) ap hd' hfol ?_
          have hs : isPySpace '{' = false := by decide
          cases ap <;> simp [Doc.nextNonSpace, hs]
        | s =>
          refine argsEv_cons (res := .none) S.tol hpk ?_ hAE
          rw [hkk, hK']
          have hs : isPySpace '{' = false := by decide
          exact marker_absent_runs S.tol (hn' hn) '*' false hd' hfol (by simp [Doc.nextNonSpace, hs])
        | m => rw [hkk] at hkind; cases hkind
        | m0 => rw [hkk] at hkind; cases hkind
        | t _ => rw [hkk] at hkind; cases hkind
        | r _ _ => rw [hkk] at hkind; cases hkind
        | d _ _ => rw [hkk] at hkind; cases hkind
        | v => rw [hkk] at hkind; cases hkind
        | vd _ _ => rw [hkk] at hkind; cases hkind
      | grp b =>
        simp only [cwfA, Bool.and_eq_true] at hwf
        obtain ⟨⟨hkind, hb⟩, hrest⟩ := hwf
        have hkk := argKind_m_of_beq _ hkind
        simp only [unA, List.cons_append, List.append_assoc] at hd
        have hpk := peek_follow_noerr (psStd_std keys m md true none hn) hd (followOk_of_head (by decide) (by decide))
        have hd1 : env.s.drop (pos + 1) = [] ++ (unI b ++ '}' :: (unA tl ++ (restI ++ after))) := drop_succ_of_drop hd
        have hszb : szI b < N := by simp only [szA] at hsz; omega
        have hsz' : szA tl < N := by simp only [szA] at hsz; omega
        have hbodyRW := hI b hszb (Doc.deltaMath m sp.delta) none (some '}') ('}' :: (unA tl ++ (restI ++ after))) hb
          (fc_close _ _) rfl trivial md' (hn' hn) (.braceClose ['}'])
          (.group ['{'] (stdF keys (Doc.deltaMath m sp.delta) md' true) (stdF keys (Doc.deltaMath m sp.delta) md' true))
          (fun t _ => child_group _ _ t) (fun _ t ht => stop_brace_math _ t ht) { pos := pos + 1 } [] rfl hd1
        obtain ⟨trb, hbody, hclb⟩ := hbodyRW.toW
        obtain ⟨p, nd, hqp, hdp, hgrp, hsh⟩ := group_node S.tol (hn' hn) hd hbody
        obtain ⟨al, pA, hAE, hpA, hdpA, hcl⟩ := hA tl hsz' m sig restI fc after hrest hfc md hn (acc ++ [Arg.node nd]) p hdp
        refine ⟨Arg.node nd :: al, pA, ?_, by omega, hdpA, ?_⟩
        · rw [e]
          refine argsEv_cons (res := .node nd) S.tol hpk ?_ hAE
          rw [hkk, hK']
          exact expr_runs S.tol (hn' hn) hd hgrp
        · simp only [Doc.shapeOfArgList, Doc.shapeOfArg, cleanAL, cleanA, hsh, cleanS, cleanOL, cleanL_normList, hclb, hcl]
          rfl
      | br b =>
        simp only [cwfA, Bool.and_eq_true] at hwf
        obtain ⟨⟨hkind, hb⟩, hrest⟩ := hwf
        simp only [unA, List.cons_append, List.append_assoc] at hd
        have hpk := peek_follow_noerr (psStd_std keys m md true none hn) hd (followOk_of_head (by decide) (by decide))
        have hszb : szI b < N := by simp only [szA] at hsz; omega
        have hsz' : szA tl < N := by simp only [szA] at hsz; omega
        cases hkk : sp.kind with
        | o ap =>
          have hd1 : env.s.drop (pos + 1) = [] ++ (unI b ++ ']' :: (unA tl ++ (restI ++ after))) := drop_succ_of_drop hd
          have hbodyRW := hI b hszb (Doc.deltaMath m sp.delta) xbr (some ']') (']' :: (unA tl ++ (restI ++ after))) hb
            (fc_close _ _) rfl xpOk_br md' (hn' hn) (.braceClose [']'])
            (.group ['['] (stdF keys (Doc.deltaMath m sp.delta) md' true xbr) (stdF keys (Doc.deltaMath m sp.delta) md' true))
            (fun t ht => child_br '[' _ _ t (by decide) ht) (fun _ t ht => stop_brace_math _ t ht) { pos := pos + 1 } [] rfl hd1
          obtain ⟨trb, hbody, hclb⟩ := hbodyRW.toW
          obtain ⟨p, nd, hqp, hdp, hgrp, hsh⟩ := xgroup_node S.tol (hn' hn) xpOk_br true ap hd hbody
          obtain ⟨al, pA, hAE, hpA, hdpA, hcl⟩ := hA tl hsz' m sig restI fc after hrest hfc md hn (acc ++ [Arg.node nd]) p hdp
          refine ⟨Arg.node nd :: al, pA, ?_, by omega, hdpA, ?_⟩
          · rw [e]
            refine argsEv_cons (res := .node nd) S.tol hpk ?_ hAE
            rw [hkk, hK']
            exact hgrp
          · simp only [Doc.shapeOfArgList, Doc.shapeOfArg, cleanAL, cleanA, hsh, cleanS, cleanOL, cleanL_normList, hclb, hcl]
            rfl
        | s => rw [hkk] at hkind; cases hkind
        | m => rw [hkk] at hkind; cases hkind
        | m0 => rw [hkk] at hkind; cases hkind
        | t _ => rw [hkk] at hkind; cases hkind
        | r _ _ => rw [hkk] at hkind; cases hkind
        | d _ _ => rw [hkk] at hkind; cases hkind
        | v => rw [hkk] at hkind; cases hkind
        | vd _ _ => rw [hkk] at hkind; cases hkind
      | tok c =>
        simp only [cwfA, Bool.and_eq_true] at hwf
        obtain ⟨⟨hkind, hc1⟩, hrest⟩ := hwf
        have hkk := argKind_m_of_beq _ hkind
        simp only [unA, List.cons_append] at hd
        obtain ⟨hcsp, hcbs, htokc⟩ := tokOk_spec hc1
        have hpk := peek_follow_noerr (psStd_std keys m md true none hn) hd (followOk_of_head hcsp hcbs)
        have hsz' : szA tl < N := by simp only [szA] at hsz; omega
        obtain ⟨al, pA, hAE, hpA, hdpA, hcl⟩ := hA tl hsz' m sig restI fc after hrest hfc md hn
          (acc ++ [Arg.node (Node.chars pos (pos + 1) (psInfo (stdF keys (Doc.deltaMath m sp.delta) md' true)) [c])]) (pos + 1)
          (drop_succ_of_drop hd)
        refine ⟨Arg.node (Node.chars pos (pos + 1) (psInfo (stdF keys (Doc.deltaMath m sp.delta) md' true)) [c]) :: al, pA, ?_, by omega, hdpA,
          by simp only [Doc.shapeOfArgList, Doc.shapeOfArg, Doc.shapeOf, cleanAL, cleanA, cleanS, hcl]; rfl⟩
        rw [e]
        refine argsEv_cons (res := .node _) S.tol hpk ?_ hAE
        rw [hkk, hK']
        exact expr_char_runs S.tol (hn' hn) hd hcsp (htokc keys S.hkeys S.kc _ _ (hn' hn) _ _ _ hd)
      | mtok n =>
        simp only [cwfA, Bool.and_eq_true] at hwf
        obtain ⟨⟨hkind, hname⟩, hrest⟩ := hwf
        have hkk := argKind_m_of_beq _ hkind
        simp only [unA, List.cons_append, List.append_assoc] at hd
        obtain ⟨c0, name', hnm, hnb, hne, hew, htok⟩ := macro_token (keys := keys) (ee := false) (br := none) (pre := [])
          (post := []) (X := unA tl ++ (restI ++ after)) (hn' hn) hname (fun c hc => by
            obtain ⟨r, hr⟩ := head_of_nextCh hfc hc
            exact ⟨r, by rw [← hr, List.append_assoc]⟩) hd
        have hpk := peek_follow_noerr (psStd_std keys m md true none hn) hd (followOk_esc (by rw [hnm]; simp) hew)
        have hsz' : szA tl < N := by simp only [szA] at hsz; omega
        have hexpr := expr_mac_runs (keys := keys) S.tol (hn' hn) hd htok hnb hne
        have hdX : env.s.drop (pos + 1 + n.length) = unA tl ++ (restI ++ after) := drop_add_of_drop (drop_succ_of_drop hd)
        obtain ⟨al, pA, hAE, hpA, hdpA, hcl⟩ := hA tl hsz' m sig restI fc after hrest hfc md hn
          (acc ++ [Arg.node (Node.mac pos (pos + 1 + n.length) (psInfo (stdF keys (Doc.deltaMath m sp.delta) md' true)) n [] (some []))])
          (pos + 1 + n.length) hdX
        refine ⟨Arg.node (Node.mac pos (pos + 1 + n.length) (psInfo (stdF keys (Doc.deltaMath m sp.delta) md' true)) n [] (some [])) :: al,
          pA, ?_, by omega, hdpA,
          by simp only [Doc.shapeOfArgList, Doc.shapeOfArg, Doc.shapeOf, Doc.shapeOfArgs, cleanAL, cleanA, cleanS, cleanOA, hcl]; rfl⟩
        rw [e]
        refine argsEv_cons (res := .node _) S.tol hpk ?_ hAE
        rw [hkk, hK']
        exact hexpr

theorem step_items (S : Setup env ctx keys) {N : Nat} (hI : PI env ctx keys N) (hA : PA env ctx keys N) :
    PI env ctx keys (N + 1) := by
  intro a hsz m br fc after hwf hfc haft hx md hn stop child hch hsm st w hw hd
  cases a with
  | nil =>
    simp only [unI, List.nil_append] at hd
    obtain ⟨tr, n, w2, hr, hc, hd2, hw2, hn2⟩ := reach_norm (stop := stop) (child := child) S hn hch hd hw (afterOk_head haft)
    exact ⟨tr, n, w2, hr, hd2, hw2, hn2, hc⟩
  | cons it tl =>
    cases it with
    | ch c =>
      simp only [cwfI, Bool.and_eq_true] at hwf
      have hsz' : szI tl < N := by simp only [szI] at hsz; omega
      by_cases hsp : isPySpace c = true
      · refine hI tl hsz' m br fc after hwf.2 hfc haft hx md hn stop child hch hsm st (w ++ [c])
          (isWs_append hw (by simp [Doc.isWs, hsp])) ?_
        rw [hd]; simp [unI]
      · have hsp' : isPySpace c = false := by simpa using hsp
        have hd' : env.s.drop st.pos = w ++ (c :: (unI tl ++ after)) := by rw [hd]; simp [unI]
        obtain ⟨tr0, n0, w2, hr0, hc0, hd0, hw2, hn2⟩ :=
          reach_norm (stop := stop) (child := child) S hn hch hd' hw (by simp [Doc.headIs, hsp'])
        refine RW.step hr0 hc0 (fun st1 hp1 => ?_)
        have hd1 : env.s.drop st1.pos = w2 ++ c :: (unI tl ++ after) := by rw [hp1]; exact hd0
        obtain ⟨tr1, k', hr1, hc1, hpre, hkch⟩ := reach_plain (stop := stop) (child := child) S hn hch hd1 hw2 hn2 hwf.1 hsp'
        obtain ⟨tl', hsz2, hwf2, heq⟩ := strip_prefix ctx m br fc k' tl after hkch haft hpre hwf.2
        refine RW.step hr1 hc1 (fun st2 hp2 => ?_)
        refine hI tl' (by omega) m br fc after hwf2 hfc haft hx md hn stop child hch hsm st2 [] rfl ?_
        have h1 : env.s.drop (st1.pos + w2.length + 1) = unI tl ++ after := drop_succ_of_drop (drop_add_of_drop hd1)
        rw [heq] at h1
        have h2 := drop_add_of_drop h1
        rw [hp2, List.nil_append, ← h2]
        congr 1
        omega
    | grp b =>
      simp only [cwfI, Bool.and_eq_true] at hwf
      obtain ⟨hb, htl⟩ := hwf
      have hszb : szI b < N := by simp only [szI] at hsz; omega
      have hsztl : szI tl < N := by simp only [szI] at hsz; omega
      have hd' : env.s.drop st.pos = w ++ ('{' :: (unI b ++ '}' :: (unI tl ++ after))) := by rw [hd]; simp [unI]
      obtain ⟨tr0, n0, w2, hr0, hc0, hd0, hw2, hn2⟩ :=
        reach_norm (stop := stop) (child := child) S hn hch hd' hw (by rw [headIs_cons]; decide)
      refine RW.step hr0 hc0 (fun st1 hp1 => ?_)
      have hd1 : env.s.drop st1.pos = w2 ++ ('{' :: (unI b ++ '}' :: (unI tl ++ after))) := by rw [hp1]; exact hd0
      have hdb : env.s.drop (st1.pos + w2.length + 1) = [] ++ (unI b ++ '}' :: (unI tl ++ after)) :=
        drop_succ_of_drop (drop_add_of_drop hd1)
      have hbodyRW := hI b hszb m none (some '}') ('}' :: (unI tl ++ after)) hb (fc_close _ _) rfl trivial md hn
        (.braceClose ['}']) (.group ['{'] (stdF keys m md true) (stdF keys m md true)) (fun t _ => child_group _ _ t)
        (fun _ t ht => stop_brace_math _ t ht) { pos := st1.pos + w2.length + 1 } [] rfl hdb
      obtain ⟨trb, hbody, hclb⟩ := hbodyRW.toW
      obtain ⟨p, hp, hdp, hr⟩ := step_group (br := br) (stop := stop) (child := child) S.tol hn hch hd1 hw2 hn2 hbody
      refine RW.step hr ?_ (fun st2 hp2 => ?_)
      · rw [cleanL_append, cleanL_pendSh]
        simp only [cleanL, cleanS, cleanOL, cleanL_normList, hclb]
        rfl
      · refine hI tl hsztl m br fc after htl hfc haft hx md hn stop child hch hsm st2 [] rfl ?_
        have e : st1.pos + (p - st1.pos) = p := by omega
        rw [hp2, e]; exact hdp
    | mac name post args =>
      simp only [cwfI, Bool.and_eq_true] at hwf
      obtain ⟨⟨hname, hargs⟩, htl⟩ := hwf
      have hsza : szA args < N := by simp only [szI] at hsz; omega
      have hsztl : szI tl < N := by simp only [szI] at hsz; omega
      cases hms : ctx.macroSpec name with
      | none => rw [hms] at hargs; cases hargs
      | some a =>
        cases a with
        | std sig =>
          rw [hms] at hargs
          simp only at hargs
          have hd' : env.s.drop st.pos = w ++ ('\\' :: (name ++ (post ++ (unA args ++ (unI tl ++ after))))) := by rw [hd]; simp [unI]
          obtain ⟨tr0, n0, w2, hr0, hc0, hd0, hw2, hn2⟩ :=
            reach_norm (stop := stop) (child := child) S hn hch hd' hw (by rw [headIs_cons]; decide)
          refine RW.step hr0 hc0 (fun st1 hp1 => ?_)
          have hd1 : env.s.drop st1.pos = w2 ++ ('\\' :: (name ++ (post ++ (unA args ++ (unI tl ++ after))))) := by rw [hp1]; exact hd0
          have hdq : env.s.drop (st1.pos + w2.length) = '\\' :: (name ++ (post ++ (unA args ++ (unI tl ++ after)))) := drop_add_of_drop hd1
          obtain ⟨c0, name', hnm, hnb, hne, _, htok⟩ := macro_token (keys := keys) (ee := true) (br := br) (pre := w2)
            hn hname (fun c hc => by
              obtain ⟨r, hr⟩ := head_of_nextCh hfc hc
              exact ⟨r, by rw [← hr, List.append_assoc]⟩) hdq
          subst hnm
          have hdA : env.s.drop (st1.pos + w2.length + 1 + (c0 :: name').length + post.length) = unA args ++ (unI tl ++ after) :=
            drop_add_of_drop (drop_add_of_drop (drop_succ_of_drop hdq))
          obtain ⟨al, pA, hAE, hpA, hdpA, hcl⟩ := hA args hsza m sig (unI tl) fc after hargs hfc md hn []
            (st1.pos + w2.length + 1 + (c0 :: name').length + post.length) hdA
          rw [List.nil_append] at hAE
          have hr := step_macro (br := br) (stop := stop) (child := child) (post := post) S.tol hch hd1 hw2 hn2 htok
            (by rw [S.hctx]; exact hms) (arguments_runs hAE) (by omega)
          refine RW.step hr ?_ (fun st2 hp2 => ?_)
          · rw [cleanL_append, cleanL_pendSh]
            simp only [cleanL, cleanS, cleanOA, hcl]
            rfl
          · refine hI tl hsztl m br fc after htl hfc haft hx md hn stop child hch hsm st2 [] rfl ?_
            have e : st1.pos + (pA - st1.pos) = pA := by omega
            rw [hp2, e]; exact hdpA
        | legacyVerb => rw [hms] at hargs; cases hargs
        | legacyVerbEnv _ _ => rw [hms] at hargs; cases hargs
        | unknown => rw [hms] at hargs; cases hargs
    | math b =>
      simp only [cwfI, Bool.and_eq_true, Bool.not_eq_eq_eq_not, Bool.not_true] at hwf
      obtain ⟨⟨⟨hm, hbne⟩, hb⟩, htl⟩ := hwf
      subst hm
      have hmd : md = none := hn rfl
      subst hmd
      have hszb : szI b < N := by simp only [szI] at hsz; omega
      have hsztl : szI tl < N := by simp only [szI] at hsz; omega
      have hd' : env.s.drop st.pos = w ++ ('$' :: (unI b ++ '$' :: (unI tl ++ after))) := by rw [hd]; simp [unI]
      obtain ⟨tr0, n0, w2, hr0, hc0, hd0, hw2, hn2⟩ :=
        reach_norm (stop := stop) (child := child) S hn hch hd' hw (by rw [headIs_cons]; decide)
      refine RW.step hr0 hc0 (fun st1 hp1 => ?_)
      have hd1 : env.s.drop st1.pos = w2 ++ (Doc.FKind.dollar.opener ++ (unI b ++ (Doc.FKind.dollar.closer ++ (unI tl ++ after)))) := by
        rw [hp1]; exact hd0
      have hdb : env.s.drop (st1.pos + w2.length + Doc.FKind.dollar.opener.length) =
          [] ++ (unI b ++ (Doc.FKind.dollar.closer ++ (unI tl ++ after))) := drop_add_of_drop (drop_add_of_drop hd1)
      have hbodyRW := hI b hszb true none (some '$') (Doc.FKind.dollar.closer ++ (unI tl ++ after)) hb (fc_close _ _) rfl trivial
        (some Doc.FKind.dollar.opener) (normOk_true _) (.mathClose Doc.FKind.dollar.display Doc.FKind.dollar.closer) .same
        (fun t _ => rfl) (fun h => by cases h) { pos := st1.pos + w2.length + Doc.FKind.dollar.opener.length } [] rfl hdb
      obtain ⟨trb, hbody, hclb⟩ := hbodyRW.toW
      obtain ⟨p, hp, hdp, hr⟩ := step_math (br := br) (stop := stop) (child := child) S.tol .dollar hch (hsm rfl) hd1 hw2 hn2
        (fun _ => head_not_dollar ctx none (some '$') b hbne hb _) hbody
      refine RW.step hr ?_ (fun st2 hp2 => ?_)
      · rw [cleanL_append, cleanL_pendSh]
        simp only [cleanL, cleanS, cleanOL, cleanL_normList, hclb]
        rfl
      · refine hI tl hsztl false br fc after htl hfc haft hx none hn stop child hch hsm st2 [] rfl ?_
        have e : st1.pos + (p - st1.pos) = p := by omega
        rw [hp2, e]; exact hdp

/-- **the prefix lemma**, for item lists and argument lists of every size -/
theorem reach_all (S : Setup env ctx keys) : ∀ N : Nat, PI env ctx keys N ∧ PA env ctx keys N := by
  intro N
  induction N with
  | zero => exact ⟨fun a h => absurd h (Nat.not_lt_zero _), fun a h => absurd h (Nat.not_lt_zero _)⟩
  | succ N ih => exact ⟨step_items S ih.1 ih.2, step_args S ih.1 ih.2⟩

end main

end Pylx.C13.Full
