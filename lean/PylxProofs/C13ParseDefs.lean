/-
  C13, parse link — definitions: the Boolean check "the strict parse of this text succeeds and
  contains no comment / environment (/ math) node", the item tokenizer and the shape classifier
  for table replacements.
-/
import PylxProofs.C13
namespace Pylx.C13
open Pylx Pylx.EncB

/-! ### node kinds -/

def isComment : Node → Bool
  | .comment .. => true
  | _ => false

def isEnv : Node → Bool
  | .env .. => true
  | _ => false

def isMath : Node → Bool
  | .math .. => true
  | _ => false

/-- `t` parses in strict mode with the default context, no node of the tree is a comment or an
    environment, and none is a math node unless the replacement text `r` itself contains an
    unescaped `$` -/
def okParse (r t : Str) : Bool :=
  match parseStrict t with
  | .ok (.list _ _ ns) _ =>
    (subnodesList ns).all (fun n => !isComment n && !isEnv n && (!isMath n || rawOcc '$' false r))
  | _ => false

theorem okParse_spec {r t : Str} (h : okParse r t = true) :
    ∃ p e ns pos, parseStrict t = .ok (.list p e ns) pos ∧
      (∀ n ∈ subnodesList ns, isComment n = false ∧ isEnv n = false) ∧
      (rawOcc '$' false r = false → ∀ n ∈ subnodesList ns, isMath n = false) := by
  unfold okParse at h
  split at h
  · rename_i p e ns pos heq
    refine ⟨p, e, ns, pos, heq, ?_, ?_⟩
    · intro n hn
      have := List.all_eq_true.mp h n hn
      simp only [Bool.and_eq_true, Bool.not_eq_true'] at this
      exact ⟨this.1.1, this.1.2⟩
    · intro hr n hn
      have := List.all_eq_true.mp h n hn
      simp only [Bool.and_eq_true, Bool.or_eq_true, Bool.not_eq_true', hr] at this
      rcases this.2 with h2 | h2
      · exact h2
      · cases h2
  · cases h

/-- the isolated combining diacritics that `unicode-xml` maps to an accent macro without its
    argument (finding F19): U+0300–0304, 0306–0308, 030A–030C, 0327, 0328 -/
def f19 : List Nat := [0x300, 0x301, 0x302, 0x303, 0x304, 0x306, 0x307, 0x308, 0x30a, 0x30b, 0x30c, 0x327, 0x328]

/-- entry check of the parse link, default scheme `braces` -/
def entryParses (skip : List Nat) (e : Nat × List Nat) : Bool :=
  skip.contains e.1 || okParse (S e.2) (protect isAsciiAlpha .braces (S e.2))

/-! ### items and shapes of a replacement text -/

inductive Item where
  | chr (c : Char)
  | esc (c : Char)          -- control symbol `\c`
  | word (n : Str)          -- control word `\name`
  | grp (l : List Item)     -- `{…}`
deriving Repr, Inhabited

/-- items up to the end of the text or an unmatched `}` (which stays in the rest) -/
def items : Nat → Str → Option (List Item × Str)
  | 0, _ => none
  | _ + 1, [] => some ([], [])
  | f + 1, c :: r =>
    if c == '}' then some ([], c :: r)
    else if c == '{' then
      match items f r with
      | some (body, d :: r') =>
        if d == '}' then
          match items f r' with
          | some (rest, r'') => some (.grp body :: rest, r'')
          | none => none
        else none
      | _ => none
    else if c == '\\' then
      match r with
      | [] => none
      | d :: r' =>
        if isAsciiAlpha d then
          match items f (r'.dropWhile isAsciiAlpha) with
          | some (rest, r'') => some (.word (d :: r'.takeWhile isAsciiAlpha) :: rest, r'')
          | none => none
        else
          match items f r' with
          | some (rest, r'') => some (.esc d :: rest, r'')
          | none => none
    else
      match items f r with
      | some (rest, r'') => some (.chr c :: rest, r'')
      | none => none

/-- the whole text as items -/
def itemsOf (t : Str) : Option (List Item) :=
  match items (2 * t.length + 2) t with
  | some (l, []) => some l
  | _ => none

/-- number of mandatory (`{`) arguments the default context declares for a macro -/
def mandCount (name : Str) : Nat :=
  match Gen.defaultCtx.macroSpec name with
  | some (.std l) => (l.filter (fun a => a.kind == .m)).length
  | _ => 0

def Item.needs : Item → Nat
  | .esc c => mandCount [c]
  | .word n => mandCount n
  | _ => 0

mutual
/-- some macro is followed, inside its own group, by fewer items than it has mandatory arguments -/
def starvedItem : Item → Bool
  | .grp l => starvedList l
  | _ => false
def starvedList : List Item → Bool
  | [] => false
  | it :: rest => decide (it.needs > rest.length) || starvedItem it || starvedList rest
end

def Item.isChr : Item → Bool
  | .chr _ => true
  | _ => false

def Item.isMacro : Item → Bool
  | .esc _ => true
  | .word _ => true
  | _ => false

def Item.isGrp : Item → Bool
  | .grp _ => true
  | _ => false

inductive Shape where
  | empty          -- ``
  | plain          -- ordinary characters only: `IJ`, `''`, `-`, `~`
  | escape         -- one control symbol: `\%` `\$` `\&` `\#` `\_` `\{` `\}` `\,` `\;` `\-`
  | word           -- one control word: `\textbackslash`, `\ae`
  | macroEmpty     -- `\name{}` / `\^{}`
  | ensuremath     -- `\ensuremath{…}`
  | accentBraced   -- `\'{A}`, `\c{C}`, `\^{\i}`: macro + group holding one item
  | accentBare     -- `\'e`, `\"\CYRA`: control symbol + one character or control word
  | macroGroups    -- `\name{…}…{…}`: `\mathbb{C}`, `\textfrac{1}{3}`, `\hspace{0.33em}`
  | macroSeq       -- control words / symbols only: `\cyrchar\CYROMEGA`, `\int\!\int`
  | group          -- one group: `{^2}`, `{\fontencoding{LELA}\selectfont\char202}`
  | bareAccent     -- a macro with a mandatory argument and nothing after it: `\'`, `\c` (F19)
  | other          -- any other sequence of items: `\'{}A`, `\ensuremath{^\circ}F`, `\not =`
deriving DecidableEq, Repr, Inhabited

def shapeOf (l : List Item) : Shape :=
  match l with
  | [] => .empty
  | [it] =>
    if it.isMacro && decide (it.needs > 0) then .bareAccent
    else match it with
      | .chr _ => .plain
      | .esc _ => .escape
      | .word _ => .word
      | .grp _ => .group
  | a :: rest =>
    if l.all Item.isChr then .plain
    else match a, rest with
      | .word n, [.grp b] =>
        if n == "ensuremath".toList then .ensuremath
        else if b.isEmpty then .macroEmpty
        else if b.length == 1 && decide (mandCount n > 0) && n.length == 1 then .accentBraced
        else .macroGroups
      | .esc _, [.grp b] => if b.isEmpty then .macroEmpty else if b.length == 1 then .accentBraced else .macroGroups
      | .esc _, [.chr _] => .accentBare
      | .esc _, [.word _] => .accentBare
      | _, _ =>
        if a.isMacro && rest.all Item.isGrp then .macroGroups
        else if l.all Item.isMacro then .macroSeq
        else .other

/-- shape of a table entry; `none` = the text is not a well-bracketed sequence of items -/
def entryShape (e : Nat × List Nat) : Option Shape := (itemsOf (S e.2)).map shapeOf

/-- classifier check: the entry is a sequence of items, and it has a macro starved of a mandatory
    argument exactly when it is listed in `skip`; then it is the single bare macro -/
def entryClassified (skip : List Nat) (e : Nat × List Nat) : Bool :=
  match itemsOf (S e.2) with
  | some l => (starvedList l == skip.contains e.1) && ((shapeOf l == .bareAccent) == skip.contains e.1)
  | none => false

end Pylx.C13
