/-
  C07 — latex2text is total.
-/
import Pylx.L2TDrv
import PylxProofs.C06Total
namespace Pylx.L2T

/-! ### totality of state transformers -/

def Total {α : Type} (x : R α) : Prop := ∀ st, ∃ a st', x st = .ok (a, st')

theorem total_pure {α : Type} (a : α) : Total (R.pure a) := fun st => ⟨a, st, rfl⟩

theorem total_bind {α β : Type} {x : R α} {f : α → R β} (hx : Total x) (hf : ∀ a, Total (f a)) :
    Total (R.bind x f) := by
  intro st
  obtain ⟨a, st', h⟩ := hx st
  obtain ⟨b, st'', h'⟩ := hf a st'
  exact ⟨b, st'', by simp only [R.bind, h, h']⟩

theorem total_ofOut {α : Type} {o : Out α} {a : α} (h : o = .ok a) : Total (R.ofOut o) := by
  subst h; exact total_pure a

theorem total_ite {α : Type} {c : Prop} [Decidable c] {x y : R α} (hx : c → Total x) (hy : ¬c → Total y) :
    Total (if c then x else y) := by
  split
  · exact hx ‹_›
  · exact hy ‹_›

theorem total_setField (f : DocField) (t : Str) : Total (setField f t) := by
  intro st; cases f <;> exact ⟨(), _, rfl⟩

/-! ### the cross-database predicate -/

def walkerSpecC (ctx : Ctx) : Kind → Str → Option ArgsP
  | .mac, n => ctx.macroSpec n
  | .env, n => (ctx.envSpec n).map (·.1)
  | .specials, n => lookupFirst n ctx.specials

theorem walkerSpec_eq (E : Env) (k : Kind) (n : Str) : walkerSpec E k n = walkerSpecC E.ctx k n := by
  cases k <;> rfl

/-- `len(spec.arguments_spec_list)` of the walker specification of a name (0 when there is none) -/
def wlen (ctx : Ctx) (k : Kind) (n : Str) : Nat := ((walkerSpecC ctx k n).map sigLen).getD 0

/-- the pylatexenc-1 view of a full argument list can be built: `argnlist[nskip]` exists -/
def legacyOk (a : ArgsP) : Bool :=
  match (legacyOf (argspecOf a)).optIdx with
  | some k => k < sigLen a
  | none => true

def legacyAll (ctx : Ctx) : Bool :=
  ctx.macros.all (fun p => legacyOk p.2) && ctx.envs.all (fun p => legacyOk p.2.1) &&
  ctx.specials.all (fun p => legacyOk p.2) &&
  (match ctx.unknownMacro with | some a => legacyOk a | none => true) &&
  (match ctx.unknownEnv with | some a => legacyOk a.1 | none => true)

/-- the replacement is truthy whatever the date is -/
def alwaysTruthy : Repl → Bool
  | .none => false
  | .lit s => !s.isEmpty
  | .today => false
  | _ => true

/-- a database entry cannot make the renderer raise on a node whose argument list is empty or has the length
    of the walker signature of the same name -/
def callOk (ctx : Ctx) (kind : Kind) (name : Str) : Repl → Bool
  | .unknownCallable => false
  | .badFmt _ => false
  | .eqEnv => kind == .env
  | .matrix => kind == .env
  | .sectioning _ _ idx _ => wlen ctx kind name == 0 || idx < wlen ctx kind name
  | _ => true

def entryOk (ctx : Ctx) (kind : Kind) (name : Str) (sp : TSpec) : Bool :=
  (sp.hasDiscard || alwaysTruthy sp.repl) && callOk ctx kind name sp.repl

def crossOk (db : TextDb) (ctx : Ctx) : Bool :=
  db.shapeOk && legacyAll ctx &&
  db.macros.all (fun p => entryOk ctx .mac p.1 p.2) &&
  db.envs.all (fun p => entryOk ctx .env p.1 p.2) &&
  db.specials.all (fun p => entryOk ctx .specials p.1 p.2)

/-- replacements that tolerate `nodeargd is None` -/
def replNoneSafe : Repl → Bool
  | .setDoc _ => false
  | .texorpdf => false
  | _ => true

def textSpecC (db : TextDb) : Kind → Str → Option TSpec
  | .mac, n => lookupFirst n db.macros
  | .env, n => lookupFirst n db.envs
  | .specials, n => lookupFirst n db.specials

def noneSafe (db : TextDb) (k : Kind) (n : Str) : Bool :=
  match textSpecC db k n with
  | some sp => replNoneSafe sp.repl
  | none => true

/-! ### the argument-list invariant on trees -/

/-- `nodeargd` is `None` only where the replacement tolerates it; an argument list is empty (expression-parser
    node, or signature without arguments) or has exactly the length of the walker signature -/
def Shape (db : TextDb) (ctx : Ctx) (k : Kind) (name : Str) : Option (List Arg) → Prop
  | none => noneSafe db k name = true
  | some l => l = [] ∨ l.length = wlen ctx k name

mutual
def NodeOk (db : TextDb) (ctx : Ctx) : Node → Prop
  | .chars .. => True
  | .comment .. => True
  | .group _ _ _ _ _ b => BodyOk db ctx b
  | .mac _ _ _ name _ args => Shape db ctx .mac name args ∧ ArgsOOk db ctx args
  | .env _ _ _ name args b => Shape db ctx .env name args ∧ ArgsOOk db ctx args ∧ BodyOk db ctx b
  | .specials _ _ _ ch args => Shape db ctx .specials ch args ∧ ArgsOOk db ctx args
  | .math _ _ _ _ _ _ b => BodyOk db ctx b
def BodyOk (db : TextDb) (ctx : Ctx) : Option (List Node) → Prop
  | none => True
  | some ns => ListOk db ctx ns
def ListOk (db : TextDb) (ctx : Ctx) : List Node → Prop
  | [] => True
  | n :: ns => NodeOk db ctx n ∧ ListOk db ctx ns
def ArgsOOk (db : TextDb) (ctx : Ctx) : Option (List Arg) → Prop
  | none => True
  | some l => ArgsOk db ctx l
def ArgsOk (db : TextDb) (ctx : Ctx) : List Arg → Prop
  | [] => True
  | a :: l => ArgOk db ctx a ∧ ArgsOk db ctx l
def ArgOk (db : TextDb) (ctx : Ctx) : Arg → Prop
  | .absent => True
  | .node n => NodeOk db ctx n
  | .list _ _ _ => False
end

/-! ### lookups -/

theorem lookupFirst_mem {β : Type} {k : Str} {l : List (Str × β)} {b : β} (h : lookupFirst k l = some b) :
    ∃ k', (k', b) ∈ l ∧ (k' == k) = true := by
  induction l with
  | nil => simp [lookupFirst] at h
  | cons p l ih =>
    obtain ⟨a, b'⟩ := p
    simp only [lookupFirst] at h
    split at h
    · cases h; exact ⟨a, List.mem_cons_self, ‹_›⟩
    · obtain ⟨k', hm, he⟩ := ih h
      exact ⟨k', List.mem_cons_of_mem _ hm, he⟩

theorem legacyOk_of_walkerSpec {ctx : Ctx} (h : legacyAll ctx = true) {k : Kind} {n : Str} {a : ArgsP}
    (hs : walkerSpecC ctx k n = some a) : legacyOk a = true := by
  simp only [legacyAll, Bool.and_eq_true, List.all_eq_true] at h
  obtain ⟨⟨⟨⟨hm, he⟩, hsp⟩, hum⟩, hue⟩ := h
  cases k with
  | mac =>
    simp only [walkerSpecC, Ctx.macroSpec] at hs
    split at hs
    · cases hs
      obtain ⟨k', hmem, _⟩ := lookupFirst_mem ‹_›
      exact hm _ hmem
    · rw [hs] at hum; exact hum
  | env =>
    simp only [walkerSpecC, Ctx.envSpec] at hs
    split at hs
    · rename_i x hx
      simp only [Option.map_some, Option.some.injEq] at hs
      obtain ⟨k', hmem, _⟩ := lookupFirst_mem hx
      have := he _ hmem
      rw [← hs]; exact this
    · cases hu : ctx.unknownEnv with
      | none => rw [hu] at hs; simp at hs
      | some x =>
        rw [hu] at hs hue
        simp only [Option.map_some, Option.some.injEq] at hs
        rw [← hs]; exact hue
  | specials =>
    simp only [walkerSpecC] at hs
    obtain ⟨k', hmem, _⟩ := lookupFirst_mem hs
    exact hsp _ hmem

/-! ### the replacement of one node, given total thunks -/

structure ThOk (ctx : Ctx) (k : Kind) (name : Str) (th : Thunks) : Prop where
  each : Total th.each
  single : ∀ i, i < th.n → Total (th.single i)
  contents : ∀ i, i < th.n → Total (th.contents i)
  body : Total th.body
  bodyEq : Total th.bodyEq
  matrix : Total th.matrix
  shape : th.n = 0 ∨ th.n = wlen ctx k name
  noArgd : th.noArgd = true → th.n = 0

theorem legacyCheck_ok {E : Env} {info : NodeInfo} {th : Thunks} (hl : legacyAll E.ctx = true)
    (hth : ThOk E.ctx info.kind info.name th) : legacyCheck (legacyView E info th) th = .ok () := by
  unfold legacyView
  split
  · rfl
  · rename_i hn
    have hn' : th.n ≠ 0 := by simpa using hn
    have hw : th.n = wlen E.ctx info.kind info.name := by
      rcases hth.shape with h | h
      · exact absurd h hn'
      · exact h
    rw [walkerSpec_eq]
    unfold wlen at hw
    cases hs : walkerSpecC E.ctx info.kind info.name with
    | none => rw [hs] at hw; simp at hw; exact absurd hw hn'
    | some a =>
      rw [hs] at hw
      simp only [Option.map_some, Option.getD_some] at hw ⊢
      have := legacyOk_of_walkerSpec hl hs
      unfold legacyOk at this
      unfold legacyCheck
      split
      · rename_i k hk
        rw [hk] at this
        simp only [decide_eq_true_eq] at this
        rw [if_pos (by omega)]
      · rfl

theorem total_mathText (E : Env) (isEnv display : Bool) (d0 d1 : Str) (p e : Nat) {b : R Str} (hb : Total b) :
    Total (mathText E isEnv display d0 d1 p e b) := by
  unfold mathText
  split
  · exact total_pure _
  · exact total_pure _
  · exact total_bind hb fun _ => total_pure _
  · exact total_bind hb fun _ => total_pure _

theorem total_rep {α : Type} {b : Bool} {x y : R α} (hb : b = true) (hx : Total x) :
    Total (if b = true then x else y) := by
  rw [if_pos hb]; exact hx

theorem kind_beq_env (k : Kind) : (k == Kind.env) = true ↔ k = .env := by cases k <;> decide
theorem kind_bne_env (k : Kind) : (k != Kind.env) = true ↔ k ≠ .env := by cases k <;> decide

theorem applyCallable_total {E : Env} {info : NodeInfo} {th : Thunks} (hrep : E.opts.repaired = true)
    (hl : legacyAll E.ctx = true) (hth : ThOk E.ctx info.kind info.name th) {r : Repl}
    (hc : isCallable r = true) (hok : callOk E.ctx info.kind info.name r = true)
    (hnone : th.noArgd = true → replNoneSafe r = true) : Total (applyCallable E info th r) := by
  have hlc := legacyCheck_ok hl hth
  have hnr : (!E.opts.repaired) = false := by rw [hrep]; rfl
  cases r with
  | none => cases hc
  | lit s => cases hc
  | fmt raw segs => cases hc
  | badFmt raw => cases hc
  | today => cases hc
  | unknownCallable => cases hok
  | eqEnv =>
    have hk : info.kind = .env := (kind_beq_env _).1 hok
    simp only [applyCallable, hk]
    exact total_mathText _ _ _ _ _ _ _ hth.bodyEq
  | input =>
    simp only [applyCallable]
    refine total_ite (fun _ => total_rep hrep (total_pure _)) fun _ => ?_
    refine total_bind (total_ofOut hlc) fun _ => ?_
    refine total_ite (fun _ => total_rep hrep (total_pure _)) fun h => ?_
    exact total_bind (hth.single _ (by omega)) fun _ => total_pure _
  | placeholder text block => exact total_pure _
  | «matrix» =>
    have hk : info.kind = .env := (kind_beq_env _).1 hok
    simp only [applyCallable, hk, hnr, Bool.and_false]
    refine total_ite (fun h => absurd h (by decide)) fun _ => ?_
    refine total_ite (fun h => absurd h (by decide)) fun _ => ?_
    refine total_bind hth.matrix fun _ => ?_
    exact total_ite (fun h => absurd h (by decide)) fun _ => total_pure _
  | mathAlpha up lo exc =>
    simp only [applyCallable]
    refine total_bind (total_ite (fun _ => total_pure _) fun h => ?_) fun _ => total_pure _
    refine hth.contents 0 ?_
    simp only [Bool.or_eq_true, beq_iff_eq, not_or] at h
    omega
  | accent comb =>
    simp only [applyCallable]
    refine total_bind ?_ fun _ => total_pure _
    refine total_ite (fun _ => total_pure _) fun _ => ?_
    refine total_bind (total_ofOut hlc) fun _ => ?_
    refine total_ite (fun _ => total_pure _) fun h => ?_
    exact total_bind (hth.single _ (by omega)) fun _ => total_pure _
  | uebung =>
    simp only [applyCallable, hnr, Bool.and_false]
    refine total_ite (fun _ => total_rep hrep (total_pure _)) fun _ => ?_
    refine total_bind (total_ofOut hlc) fun _ => ?_
    refine total_ite (fun h => absurd h (by decide)) fun _ => ?_
    refine total_bind (total_ite (fun h => hth.single _ (by simpa using h)) fun _ => total_pure _) fun _ => ?_
    refine total_ite (fun h => absurd h (by decide)) fun _ => ?_
    refine total_ite (fun _ => total_pure _) fun h => ?_
    refine total_bind (hth.single _ ?_) fun _ => total_pure _
    simp only [Bool.or_eq_true, Bool.not_eq_true', decide_eq_false_iff_not, not_or, Decidable.not_not] at h
    exact h.1
  | setDoc f =>
    simp only [applyCallable]
    refine total_ite (fun h => ?_) fun _ => ?_
    · have := hnone h; cases this
    · refine total_bind (total_ite (fun _ => total_pure _) fun h => hth.single 0 ?_) fun _ => ?_
      · simp only [beq_iff_eq] at h; omega
      · exact total_bind (total_setField _ _) fun _ => total_pure _
  | maketitle a b => intro st; exact ⟨_, _, rfl⟩
  | item =>
    simp only [applyCallable]
    refine total_ite (fun _ => total_pure _) fun _ => ?_
    refine total_bind (total_ofOut hlc) fun _ => ?_
    have hlc' := hlc
    unfold legacyCheck at hlc'
    split
    · exact total_pure _
    · rename_i k hk
      rw [hk] at hlc'
      refine total_ite (fun _ => total_pure _) fun _ => ?_
      refine total_bind (hth.single k ?_) fun _ => total_pure _
      by_cases hkn : k < th.n
      · exact hkn
      · simp only [hkn, if_false] at hlc'; cases hlc'
  | href =>
    simp only [applyCallable, hnr, Bool.and_false]
    refine total_ite (fun _ => total_rep hrep (total_pure _)) fun _ => ?_
    refine total_ite (fun h => absurd h (by decide)) fun _ => ?_
    refine total_bind (total_ite (fun h => hth.single 1 h) fun _ => total_pure _) fun _ => ?_
    exact total_bind (total_ite (fun h => hth.single 0 h) fun _ => total_pure _) fun _ => total_pure _
  | sectioning pre post idx upper =>
    simp only [applyCallable]
    refine total_bind (total_ite (fun _ => total_pure _) fun h => ?_) fun _ => total_pure _
    refine hth.contents idx ?_
    simp only [Bool.or_eq_true, beq_iff_eq, not_or] at h
    simp only [callOk, Bool.or_eq_true, beq_iff_eq, decide_eq_true_eq] at hok
    rcases hth.shape with h0 | h0
    · omega
    · omega
  | texorpdf =>
    simp only [applyCallable]
    refine total_ite (fun h => ?_) fun _ => ?_
    · have := hnone h; cases this
    · refine total_bind (total_ofOut hlc) fun _ => ?_
      exact total_ite (fun h => hth.single _ h) fun _ => total_pure _
  | const s => exact total_pure _

theorem applyString_total {E : Env} {info : NodeInfo} {th : Thunks} (hth : ThOk E.ctx info.kind info.name th)
    (raw : Str) (segs : List Seg) : Total (applyString E info th raw segs) := by
  unfold applyString
  have he : Total (if th.noArgd = true then R.pure [] else th.each) :=
    total_ite (fun _ => total_pure _) fun _ => hth.each
  refine total_ite (fun _ => ?_) fun _ => ?_
  · refine total_ite (fun _ => ?_) fun _ => ?_
    · exact total_bind hth.body fun _ => total_pure _
    · exact total_bind he fun _ => total_bind hth.body fun _ => total_pure _
  · refine total_bind he fun _ => ?_
    exact total_ite (fun _ => total_pure _) fun _ => total_pure _

theorem replTruthy_of_always {lib : Lib} {r : Repl} (h : alwaysTruthy r = true) : replTruthy lib r = true := by
  cases r <;> first | exact h | rfl | cases h

theorem applySpec_total {E : Env} {info : NodeInfo} {th : Thunks} (hrep : E.opts.repaired = true)
    (hl : legacyAll E.ctx = true) (hth : ThOk E.ctx info.kind info.name th) {sp : TSpec}
    (hent : entryOk E.ctx info.kind info.name sp = true)
    (hnone : th.noArgd = true → replNoneSafe sp.repl = true) {dflt : R Str} (hd : Total dflt) :
    Total (applySpec E info th sp dflt) := by
  unfold applySpec
  simp only [entryOk, Bool.and_eq_true, Bool.or_eq_true] at hent
  obtain ⟨hdis, hcall⟩ := hent
  refine total_ite (fun htr => ?_) fun htr => ?_
  · split
    · exact total_pure _
    · exact total_pure _
    · exact applyString_total hth _ _
    · rename_i h; rw [h] at hcall; cases hcall
    · rename_i h; rw [h] at hcall; cases hcall
    · rename_i r h1 h2 h3 h4 h5
      refine applyCallable_total hrep hl hth ?_ hcall hnone
      cases hr : sp.repl with
      | none => rw [hr] at htr; cases htr
      | lit s => exact absurd hr (h1 s)
      | today => exact absurd hr h2
      | fmt a b => exact absurd hr (h3 a b)
      | badFmt a => exact absurd hr (h4 a)
      | unknownCallable => exact absurd hr h5
      | _ => rfl
  · have hd' : sp.hasDiscard = true := by
      rcases hdis with h | h
      · exact h
      · exact absurd (replTruthy_of_always h) htr
    refine total_ite (fun h => ?_) fun _ => ?_
    · rw [hd'] at h; cases h
    · exact total_ite (fun _ => total_pure _) fun _ => hd

/-! ### structural induction over the tree -/

theorem lookupFirst_mem' {β : Type} {k : Str} {l : List (Str × β)} {b : β} (h : lookupFirst k l = some b) :
    (k, b) ∈ l := by
  obtain ⟨k', hm, he⟩ := lookupFirst_mem h
  have : k' = k := by simpa using he
  subst this; exact hm

theorem entryOk_of_lookup {db : TextDb} {ctx : Ctx} (hx : crossOk db ctx = true) {k : Kind} {name : Str} {sp : TSpec}
    (h : textSpecC db k name = some sp) : entryOk ctx k name sp = true := by
  simp only [crossOk, Bool.and_eq_true, List.all_eq_true] at hx
  obtain ⟨⟨⟨⟨_, _⟩, hm⟩, he⟩, hs⟩ := hx
  cases k with
  | mac => exact hm _ (lookupFirst_mem' h)
  | env => exact he _ (lookupFirst_mem' h)
  | specials => exact hs _ (lookupFirst_mem' h)

theorem legacyAll_of_cross {db : TextDb} {ctx : Ctx} (hx : crossOk db ctx = true) : legacyAll ctx = true := by
  simp only [crossOk, Bool.and_eq_true] at hx
  exact hx.1.1.1.2

structure EnvOk (E : Env) : Prop where
  rep : E.opts.repaired = true
  cross : crossOk E.db E.ctx = true

def PrevOk (E : Env) (prev : Option Node) : Prop := ∀ p, prev = some p → NodeOk E.db E.ctx p

theorem isBare_ok {E : Env} (hE : EnvOk E) {prev : Option Node} (hp : PrevOk E prev) : ∃ b, isBare E prev = .ok b := by
  unfold isBare
  split
  · rename_i a b c name post args
    have hn := hp _ rfl
    simp only [NodeOk] at hn
    split
    · rw [hE.rep]; exact ⟨_, rfl⟩
    · exact ⟨_, rfl⟩
    · rename_i l hne
      simp only []
      split
      · exact ⟨_, rfl⟩
      · rename_i k hk
        have hsh := hn.1
        simp only [Shape] at hsh
        have hlen : l.length = wlen E.ctx .mac name := by
          rcases hsh with h | h
          · subst h; exact (hne rfl).elim
          · exact h
        rw [walkerSpec_eq] at hk
        unfold wlen at hlen
        cases hs : walkerSpecC E.ctx .mac name with
        | none => rw [hs] at hk; simp [legacyOf] at hk
        | some a =>
          rw [hs] at hk hlen
          simp only [Option.map_some, Option.getD_some] at hk hlen
          have := legacyOk_of_walkerSpec (legacyAll_of_cross hE.cross) hs
          unfold legacyOk at this
          rw [hk] at this
          simp only [decide_eq_true_eq] at this
          have hlt : k < l.length := by omega
          rw [List.getElem?_eq_getElem hlt]
          exact ⟨_, rfl⟩
  · exact ⟨_, rfl⟩

theorem preOf_ok {E : Env} (hE : EnvOk E) (c : Sls) {prev : Option Node} (hp : PrevOk E prev) (n : Node) :
    ∃ s, preOf E c prev n = .ok s := by
  unfold preOf
  obtain ⟨b, hb⟩ := isBare_ok hE hp
  rw [hb]; exact ⟨_, rfl⟩

theorem thOk_of {E : Env} (k : Kind) (name : Str) (args : Option (List Arg)) (th : Thunks)
    (hn : th.n = (args.getD []).length) (hna : th.noArgd = args.isNone)
    (hsh : Shape E.db E.ctx k name args)
    (each : Total th.each) (single : ∀ i, i < th.n → Total (th.single i))
    (contents : ∀ i, i < th.n → Total (th.contents i))
    (body : Total th.body) (bodyEq : Total th.bodyEq) (matrix : Total th.matrix) :
    ThOk E.ctx k name th where
  each := each
  single := single
  contents := contents
  body := body
  bodyEq := bodyEq
  matrix := matrix
  shape := by
    cases args with
    | none => left; simpa using hn
    | some l =>
      simp only [Shape] at hsh
      rcases hsh with h | h
      · left; subst h; simpa using hn
      · right; rw [hn]; simpa using h
  noArgd := by
    intro h
    rw [hna] at h
    cases args with
    | none => simpa using hn
    | some l => cases h

theorem noneSafe_spec {db : TextDb} {ctx : Ctx} {k : Kind} {name : Str} {args : Option (List Arg)}
    (hsh : Shape db ctx k name args) {sp : TSpec} (hl : textSpecC db k name = some sp)
    (h : args.isNone = true) : replNoneSafe sp.repl = true := by
  cases args with
  | none =>
    simp only [Shape, noneSafe, hl] at hsh
    exact hsh
  | some l => cases h

mutual
theorem renderNode_total (E : Env) (hE : EnvOk E) : ∀ (n : Node) (c : Sls), NodeOk E.db E.ctx n → Total (renderNode E c n)
  | .chars .., c, _ => by unfold renderNode; exact total_pure _
  | .comment .., c, _ => by unfold renderNode; exact total_pure _
  | .group _ _ _ o cl body, c, h => by
    unfold renderNode
    simp only [NodeOk] at h
    exact total_bind (renderBody_total E hE body c h) fun _ => total_pure _
  | .mac p e ps name post args, c, h => by
    unfold renderNode
    simp only [NodeOk] at h
    obtain ⟨hsh, hargs⟩ := h
    have hth : ThOk E.ctx Kind.mac name
        { noArgd := args.isNone, n := (args.getD []).length, absent := absentAt (args.getD []),
          each := argsEachO E c args, single := fun k => singleAtO E c k args, contents := fun k => contentsAtO E c k args,
          body := R.pure [], bodyEq := R.pure [], bodyNone := true, matrix := R.pure [] } :=
      thOk_of .mac name args _ rfl rfl hsh (argsEachO_total E hE args c hargs)
        (fun i hi => singleAtO_total E hE args c i hargs hi) (fun i hi => contentsAtO_total E hE args c i hargs hi)
        (total_pure _) (total_pure _) (total_pure _)
    cases hl : lookupFirst name E.db.macros with
    | none =>
      simp only [Option.getD_none]
      exact applySpec_total hE.rep (legacyAll_of_cross hE.cross) hth (by simp [entryOk, alwaysTruthy, callOk])
        (fun _ => rfl) (argsCatO_total E hE args c hargs)
    | some sp =>
      simp only [Option.getD_some]
      exact applySpec_total hE.rep (legacyAll_of_cross hE.cross) hth (entryOk_of_lookup hE.cross (k := .mac) hl)
        (fun h => noneSafe_spec hsh (k := .mac) hl h) (argsCatO_total E hE args c hargs)
  | .env p e ps name args body, c, h => by
    unfold renderNode
    simp only [NodeOk] at h
    obtain ⟨hsh, hargs, hbody⟩ := h
    have hth : ThOk E.ctx Kind.env name
        { noArgd := args.isNone, n := (args.getD []).length, absent := absentAt (args.getD []),
          each := argsEachO E c args, single := fun k => singleAtO E c k args, contents := fun k => contentsAtO E c k args,
          body := renderBody E c body, bodyEq := renderBody E c.enterEq body, bodyNone := body.isNone,
          matrix := matrixBody E c body } :=
      thOk_of .env name args _ rfl rfl hsh (argsEachO_total E hE args c hargs)
        (fun i hi => singleAtO_total E hE args c i hargs hi) (fun i hi => contentsAtO_total E hE args c i hargs hi)
        (renderBody_total E hE body c hbody) (renderBody_total E hE body c.enterEq hbody) (matrixBody_total E hE body c hbody)
    cases hl : lookupFirst name E.db.envs with
    | none =>
      simp only [Option.getD_none]
      exact applySpec_total hE.rep (legacyAll_of_cross hE.cross) hth (by simp [entryOk, alwaysTruthy, callOk])
        (fun _ => rfl) (renderBody_total E hE body c hbody)
    | some sp =>
      simp only [Option.getD_some]
      exact applySpec_total hE.rep (legacyAll_of_cross hE.cross) hth (entryOk_of_lookup hE.cross (k := .env) hl)
        (fun h => noneSafe_spec hsh (k := .env) hl h) (renderBody_total E hE body c hbody)
  | .specials p e ps ch args, c, h => by
    unfold renderNode
    simp only [NodeOk] at h
    obtain ⟨hsh, hargs⟩ := h
    cases hl : lookupFirst ch E.db.specials with
    | none => exact total_pure _
    | some sp =>
      simp only []
      have hth : ThOk E.ctx Kind.specials ch
          { noArgd := args.isNone, n := (args.getD []).length, absent := absentAt (args.getD []),
            each := argsEachO E c args, single := fun k => singleAtO E c k args, contents := fun k => contentsAtO E c k args,
            body := R.pure [], bodyEq := R.pure [], bodyNone := true, matrix := R.pure [] } :=
        thOk_of .specials ch args _ rfl rfl hsh (argsEachO_total E hE args c hargs)
          (fun i hi => singleAtO_total E hE args c i hargs hi) (fun i hi => contentsAtO_total E hE args c i hargs hi)
          (total_pure _) (total_pure _) (total_pure _)
      exact applySpec_total hE.rep (legacyAll_of_cross hE.cross) hth (entryOk_of_lookup hE.cross (k := .specials) hl)
        (fun h => noneSafe_spec hsh (k := .specials) hl h) (argsCatO_total E hE args c hargs)
  | .math p e ps d o cl body, c, h => by
    unfold renderNode
    simp only [NodeOk] at h
    exact total_mathText _ _ _ _ _ _ _ (renderBody_total E hE body c.enterEq h)
theorem renderBody_total (E : Env) (hE : EnvOk E) : ∀ (b : Option (List Node)) (c : Sls), BodyOk E.db E.ctx b → Total (renderBody E c b)
  | none, c, _ => by unfold renderBody; exact total_pure _
  | some ns, c, h => by
    unfold renderBody
    simp only [BodyOk] at h
    exact renderList_total E hE ns c none [] (fun _ hp => by cases hp) h
theorem renderList_total (E : Env) (hE : EnvOk E) : ∀ (ns : List Node) (c : Sls) (prev : Option Node) (acc : Str),
    PrevOk E prev → ListOk E.db E.ctx ns → Total (renderList E c prev acc ns)
  | [], c, prev, acc, _, _ => by unfold renderList; exact total_pure _
  | n :: ns, c, prev, acc, hp, h => by
    unfold renderList
    simp only [ListOk] at h
    obtain ⟨s, hs⟩ := preOf_ok hE c hp n
    refine total_bind (total_ofOut hs) fun _ => ?_
    refine total_bind (renderNode_total E hE n c h.1) fun _ => ?_
    exact renderList_total E hE ns c (some n) _ (fun p hp' => by cases hp'; exact h.1) h.2
theorem groupContents_total (E : Env) (hE : EnvOk E) : ∀ (a : Arg) (c : Sls), ArgOk E.db E.ctx a → Total (groupContents E c a)
  | .absent, c, _ => by unfold groupContents; exact total_pure _
  | .list _ _ ns, c, h => by simp only [ArgOk] at h
  | .node n, c, h => by
    simp only [ArgOk] at h
    cases n with
    | group p e ps o cl body =>
      unfold groupContents
      simp only [NodeOk] at h
      exact renderBody_total E hE body c h
    | chars p e ps ch => unfold groupContents; exact renderNode_total E hE _ c h
    | comment p e ps cm post => unfold groupContents; exact renderNode_total E hE _ c h
    | mac p e ps name post args => unfold groupContents; exact renderNode_total E hE _ c h
    | env p e ps name args body => unfold groupContents; exact renderNode_total E hE _ c h
    | specials p e ps ch args => unfold groupContents; exact renderNode_total E hE _ c h
    | math p e ps d o cl body => unfold groupContents; exact renderNode_total E hE _ c h
theorem singleArg_total (E : Env) (hE : EnvOk E) : ∀ (a : Arg) (c : Sls), ArgOk E.db E.ctx a → Total (singleArg E c a)
  | .absent, c, _ => by unfold singleArg; exact total_pure _
  | .list _ _ ns, c, h => by simp only [ArgOk] at h
  | .node n, c, h => by
    unfold singleArg
    simp only [ArgOk] at h
    exact renderNode_total E hE n c h
theorem argsCat_total (E : Env) (hE : EnvOk E) : ∀ (l : List Arg) (c : Sls), ArgsOk E.db E.ctx l → Total (argsCat E c l)
  | [], c, _ => by unfold argsCat; exact total_pure _
  | a :: l, c, h => by
    unfold argsCat
    simp only [ArgsOk] at h
    exact total_bind (groupContents_total E hE a c h.1) fun _ =>
      total_bind (argsCat_total E hE l c h.2) fun _ => total_pure _
theorem argsEach_total (E : Env) (hE : EnvOk E) : ∀ (l : List Arg) (c : Sls), ArgsOk E.db E.ctx l → Total (argsEach E c l)
  | [], c, _ => by unfold argsEach; exact total_pure _
  | a :: l, c, h => by
    unfold argsEach
    simp only [ArgsOk] at h
    exact total_bind (groupContents_total E hE a c h.1) fun _ =>
      total_bind (argsEach_total E hE l c h.2) fun _ => total_pure _
theorem singleAt_total (E : Env) (hE : EnvOk E) : ∀ (l : List Arg) (c : Sls) (k : Nat), ArgsOk E.db E.ctx l → k < l.length →
    Total (singleAt E c k l)
  | [], c, k, _, hk => by simp at hk
  | a :: l, c, 0, h, _ => by
    unfold singleAt
    simp only [ArgsOk] at h
    exact singleArg_total E hE a c h.1
  | a :: l, c, k + 1, h, hk => by
    unfold singleAt
    simp only [ArgsOk] at h
    exact singleAt_total E hE l c k h.2 (by simpa using hk)
theorem contentsAt_total (E : Env) (hE : EnvOk E) : ∀ (l : List Arg) (c : Sls) (k : Nat), ArgsOk E.db E.ctx l → k < l.length →
    Total (contentsAt E c k l)
  | [], c, k, _, hk => by simp at hk
  | a :: l, c, 0, h, _ => by
    unfold contentsAt
    simp only [ArgsOk] at h
    exact groupContents_total E hE a c h.1
  | a :: l, c, k + 1, h, hk => by
    unfold contentsAt
    simp only [ArgsOk] at h
    exact contentsAt_total E hE l c k h.2 (by simpa using hk)
theorem argsCatO_total (E : Env) (hE : EnvOk E) : ∀ (o : Option (List Arg)) (c : Sls), ArgsOOk E.db E.ctx o → Total (argsCatO E c o)
  | none, c, _ => by unfold argsCatO; exact total_pure _
  | some l, c, h => by
    unfold argsCatO
    simp only [ArgsOOk] at h
    exact argsCat_total E hE l c h
theorem argsEachO_total (E : Env) (hE : EnvOk E) : ∀ (o : Option (List Arg)) (c : Sls), ArgsOOk E.db E.ctx o → Total (argsEachO E c o)
  | none, c, _ => by unfold argsEachO; exact total_pure _
  | some l, c, h => by
    unfold argsEachO
    simp only [ArgsOOk] at h
    exact argsEach_total E hE l c h
theorem singleAtO_total (E : Env) (hE : EnvOk E) : ∀ (o : Option (List Arg)) (c : Sls) (k : Nat), ArgsOOk E.db E.ctx o →
    k < (o.getD []).length → Total (singleAtO E c k o)
  | none, c, k, _, hk => by simp at hk
  | some l, c, k, h, hk => by
    unfold singleAtO
    simp only [ArgsOOk] at h
    exact singleAt_total E hE l c k h (by simpa using hk)
theorem contentsAtO_total (E : Env) (hE : EnvOk E) : ∀ (o : Option (List Arg)) (c : Sls) (k : Nat), ArgsOOk E.db E.ctx o →
    k < (o.getD []).length → Total (contentsAtO E c k o)
  | none, c, k, _, hk => by simp at hk
  | some l, c, k, h, hk => by
    unfold contentsAtO
    simp only [ArgsOOk] at h
    exact contentsAt_total E hE l c k h (by simpa using hk)
theorem matrixBody_total (E : Env) (hE : EnvOk E) : ∀ (b : Option (List Node)) (c : Sls), BodyOk E.db E.ctx b → Total (matrixBody E c b)
  | none, c, _ => by unfold matrixBody; exact total_pure _
  | some ns, c, h => by
    unfold matrixBody
    simp only [BodyOk] at h
    exact matrixLoop_total E hE ns c none none [] [] (fun _ hp => by cases hp) h
theorem matrixLoop_total (E : Env) (hE : EnvOk E) : ∀ (ns : List Node) (c : Sls) (prev : Option Node) (cell : Option Str)
    (row : List Str) (rows : List (List Str)), PrevOk E prev → ListOk E.db E.ctx ns →
    Total (matrixLoop E c prev cell row rows ns)
  | [], c, prev, cell, row, rows, _, _ => by unfold matrixLoop; exact total_pure _
  | n :: ns, c, prev, cell, row, rows, hp, h => by
    unfold matrixLoop
    simp only [ListOk] at h
    refine total_ite (fun _ => matrixLoop_total E hE ns c none none _ _ (fun _ hp' => by cases hp') h.2) fun _ => ?_
    refine total_ite (fun _ => matrixLoop_total E hE ns c none none _ _ (fun _ hp' => by cases hp') h.2) fun _ => ?_
    obtain ⟨s, hs⟩ := preOf_ok hE c hp n
    refine total_bind (total_ofOut hs) fun _ => ?_
    refine total_bind (renderNode_total E hE n c h.1) fun _ => ?_
    exact matrixLoop_total E hE ns c (some n) _ _ _ (fun p hp' => by cases hp'; exact h.1) h.2
end

/-! ### the property theorems -/

/-- **C07 (renderer).**  For every text database and walker context satisfying the cross-database predicate, every
    option set (repaired switch on), all library oracles and every tree satisfying the argument-list invariant,
    the renderer returns a string. -/
theorem C07_render_total (opts : Opts) (db : TextDb) (ctx : Ctx) (lib : Lib) (src : Str) (hrep : opts.repaired = true)
    (hx : crossOk db ctx = true) (ns : List Node) (h : ListOk db ctx ns) :
    ∃ t, render opts db ctx lib src ns = .ok t := by
  unfold render
  have hs : db.shapeOk = true := by
    simp only [crossOk, Bool.and_eq_true] at hx
    exact hx.1.1.1.1
  simp only [hs, Bool.not_true, Bool.false_eq_true, if_false]
  have hE : EnvOk { opts := opts, db := db, ctx := ctx, lib := lib, src := src } := ⟨hrep, hx⟩
  obtain ⟨a, st', hr⟩ := renderList_total _ hE ns (parseSls opts.sls) none [] (fun _ hp => by cases hp) h {}
  rw [hr]; exact ⟨a, rfl⟩

set_option maxRecDepth 100000 in
/-- **cross-database fact** (kernel-checked on the generated tables): no unrecognised callable or format, no
    specials entry whose falsy replacement would read the missing `discard` attribute, matrix/equation callables
    only on environments, every argument index read by a sectioning callable inside the walker signature of the
    same name, and for every walker signature the pylatexenc-1 `(nodeoptarg, nodeargs)` view of a full argument
    list can be built. -/
theorem C07_cross_db : crossOk Gen.defaultTextDb Gen.defaultCtx = true := by decide +kernel

def countPos (segs : List Seg) : Nat := (segs.filter Seg.isPos).length

def keyOk (n : Nat) (isEnv : Bool) (k : Str) : Bool :=
  (isEnv && k == "body".toList) || (List.range n).any (fun j => decStr (j + 1) == k)

/-- a %-format replacement names only arguments inside the walker signature (so the `TypeError` / `KeyError`
    fallback of `apply_simplify_repl` cannot fire on a node satisfying the invariant) -/
def fmtOk (ctx : Ctx) (kind : Kind) (name : Str) : Repl → Bool
  | .fmt _ segs =>
    if segs.any Seg.isPos then countPos segs == (if kind == .env then 1 else wlen ctx kind name)
    else segs.all (fun s => match s with | .key k => keyOk (wlen ctx kind name) (kind == .env) k | _ => true)
  | _ => true

def fmtOffenders (db : TextDb) (ctx : Ctx) : List Str :=
  ((db.macros.filter (fun p => !fmtOk ctx .mac p.1 p.2.repl)) ++ (db.envs.filter (fun p => !fmtOk ctx .env p.1 p.2.repl)) ++
   (db.specials.filter (fun p => !fmtOk ctx .specials p.1 p.2.repl))).map (·.1)

set_option maxRecDepth 100000 in
/-- every %-format replacement of the default text database stays inside the walker signature of its name, with one
    exception: `\textfrac` (`'%s/%s'`, but the walker database declares no arguments for it, so the substitution
    always fails and the raw format string is emitted — reported as a finding, not a C07 violation) -/
theorem C07_fmt_in_range : (fmtOffenders Gen.defaultTextDb Gen.defaultCtx).all (· == "textfrac".toList) = true := by
  decide +kernel

/-- the argument-list invariant for everything the tolerant parser returns -/
def C07_parsed_args_length_stmt (db : TextDb) (ctx : Ctx) : Prop :=
  ∀ (s : Str) (p e : Option Nat) (ns : List Node) (pos : Nat),
    parseTop { tol := true, ctx := ctx, s := s } (startFields ctx) = .ok (.list p e ns) pos → ListOk db ctx ns

theorem startOk_default : StartOk' Gen.defaultCtx (startFields Gen.defaultCtx) :=
  { hasCtx := rfl, specials := rfl, mathDelims := by decide, groupDelims := by decide, comment := by decide,
    normal := rfl, esc := Or.inl rfl }

/-- the full statement of C07 for the model -/
def C07_full : Prop :=
  ∀ (opts : Opts), opts.repaired = true → ∀ (lib : Lib) (s : Str), ∃ t, latexToText opts lib s = .ok t

/-- **C07, partial**: the parser invariant `C07_parsed_args_length_stmt` is an explicit hypothesis (not yet derived
    from `Pylx.Parse`; it is exercised by the correspondence).  From it: for every option set (repaired switch on),
    all library oracles and every input string, `latex_to_text` returns a string. -/
theorem C07_partial (hp : C07_parsed_args_length_stmt Gen.defaultTextDb Gen.defaultCtx)
    (opts : Opts) (hrep : opts.repaired = true) (lib : Lib) (s : Str) :
    ∃ t, latexToText opts lib s = .ok t := by
  unfold latexToText latexToTextWith
  obtain ⟨p, e, ns, pos, h, _⟩ := C06_total_list Gen.defaultCtx defaultCtx_closed s _ startOk_default
  rw [h]
  exact C07_render_total opts _ _ lib s hrep C07_cross_db ns (hp s p e ns pos h)


/-! ### negation witnesses: with the switch off (the code as found) concrete inputs raise -/

def idLib : Lib := { nfc2 := fun c d => [c, d], upper := fun c => [c], today := ['J'] }

def Out.isCrashB : Out Str → Bool
  | .crash _ => true
  | _ => false

def Out.isOkB : Out Str → Bool
  | .ok _ => true
  | _ => false

theorem not_ok_of_isCrashB {o : Out Str} (h : o.isCrashB = true) : ¬ ∃ t, o = .ok t := by
  rintro ⟨t, rfl⟩; cases h

theorem ok_of_isOkB {o : Out Str} (h : o.isOkB = true) : ∃ t, o = .ok t := by
  cases o with
  | ok a => exact ⟨a, rfl⟩
  | crash k => cases h


def C07_F7_href_input : Str := ['\\', 'h', 'r', 'e', 'f', '{', 'u', '}', '{', 't', '}']

set_option maxRecDepth 100000 in
/-- F7: `\\href{u}{t}` — the walker database declares no arguments for `\\href`, the callable indexes `argnlist[1]` of an empty list (IndexError) -/
theorem C07_F7_href : ¬ ∃ t, latexToText { repaired := false } idLib C07_F7_href_input = .ok t :=
  not_ok_of_isCrashB (by decide)


def C07_F7_uebung_input : Str := ['\\', 'e', 'm', 'p', 'h', '\\', 'u', 'e', 'b', 'u', 'n', 'g']

set_option maxRecDepth 100000 in
/-- F7: `\\emph\\uebung` — `_format_uebung` indexes `nodeargs[0]` of the empty argument list of a single-token argument (IndexError) -/
theorem C07_F7_uebung : ¬ ∃ t, latexToText { repaired := false } idLib C07_F7_uebung_input = .ok t :=
  not_ok_of_isCrashB (by decide)


def C07_F7_input_input : Str := ['\\', 'e', 'm', 'p', 'h', '\\', 'i', 'n', 'p', 'u', 't']

set_option maxRecDepth 100000 in
/-- F7: `\\emph\\input` — `_input_node_simplify_repl` indexes `nodeargs[0]` of an empty list (IndexError) -/
theorem C07_F7_input : ¬ ∃ t, latexToText { repaired := false } idLib C07_F7_input_input = .ok t :=
  not_ok_of_isCrashB (by decide)


def C07_F8_matrix_input : Str := ['\\', 'b', 'e', 'g', 'i', 'n', '{', 'p', 'm', 'a', 't', 'r', 'i', 'x', '}', '\\', 'e', 'n', 'd', '{', 'p', 'm', 'a', 't', 'r', 'i', 'x', '}']

set_option maxRecDepth 100000 in
/-- F8: a matrix environment with an empty body: `max()` of an empty sequence (ValueError) -/
theorem C07_F8_matrix : ¬ ∃ t, latexToText { repaired := false } idLib C07_F8_matrix_input = .ok t :=
  not_ok_of_isCrashB (by decide)


def C07_F9_bare_input : Str := ['\\', 'v', 'e', 'r', 'b', '{', ' ', 'a']

set_option maxRecDepth 100000 in
/-- F9: `\\verb{ a` — the legacy verbatim parser fails, tolerant mode keeps the macro node with `nodeargd = None`, `_is_bare_macro_node` takes `len(None)` (TypeError) -/
theorem C07_F9_bare : ¬ ∃ t, latexToText { repaired := false } idLib C07_F9_bare_input = .ok t :=
  not_ok_of_isCrashB (by decide)



end Pylx.L2T
