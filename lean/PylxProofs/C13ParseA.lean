/-
  C13, parse link — kernel evaluation of the parser model on one half of a generated table
  (every replacement under the default scheme `braces`): the strict parse succeeds, no comment /
  environment node, no math node unless the replacement itself contains an unescaped `$`.
-/
import PylxProofs.C13ParseDefs
namespace Pylx.C13
open Pylx Pylx.EncB

set_option maxRecDepth 100000 in
theorem defaults_parses_lo : (Gen.uni2latexChunks.take 19).all (fun ch => ch.all (entryParses [])) = true := by
  decide +kernel

end Pylx.C13
