/-
  C13, parse link for all strings — vocabulary and token-level lemmas.

  * `cleanS` / `cleanL`: a position-free structure (`Doc.Shape`) holds no comment and no environment; transfer to the
    nodes of a parse result (`clean_nodes`).
  * `RW`: the collector, from a given state, gets in front of (whitespace and) `after`, having produced clean shapes.
  * tokenizer lemmas that `PylxProofs/C02Tok*.lean` does not have: a whitespace run with a paragraph break in general
    position, a plain character that may or may not start a specials string, a macro token read by the expression parser.
-/
import PylxProofs.C13FullDefs
namespace Pylx.C13.Full
open Pylx Pylx.C02

/-! ### clean shapes -/

mutual
def cleanS : Doc.Shape → Bool
  | .chars _ => true
  | .comment _ => false
  | .group _ _ b => cleanOL b
  | .mac _ a => cleanOA a
  | .env _ _ _ => false
  | .specials _ a => cleanAL a
  | .math _ _ _ b => cleanOL b
def cleanOL : Option (List Doc.Shape) → Bool
  | none => true
  | some l => cleanL l
def cleanL : List Doc.Shape → Bool
  | [] => true
  | x :: l => cleanS x && cleanL l
def cleanOA : Option (List Doc.ArgShape) → Bool
  | none => true
  | some l => cleanAL l
def cleanAL : List Doc.ArgShape → Bool
  | [] => true
  | a :: l => cleanA a && cleanAL l
def cleanA : Doc.ArgShape → Bool
  | .absent => true
  | .one s => cleanS s
  | .list l => cleanL l
end

theorem cleanL_append (a b : List Doc.Shape) : cleanL (a ++ b) = (cleanL a && cleanL b) := by
  induction a with
  | nil => simp [cleanL]
  | cons x a ih => simp only [List.cons_append, cleanL, ih, Bool.and_assoc]

theorem cleanAL_append (a b : List Doc.ArgShape) : cleanAL (a ++ b) = (cleanAL a && cleanAL b) := by
  induction a with
  | nil => simp [cleanAL]
  | cons x a ih => simp only [List.cons_append, cleanAL, ih, Bool.and_assoc]

theorem cleanL_consSh (x : Doc.Shape) (M : List Doc.Shape) : cleanL (consSh x M) = (cleanS x && cleanL M) := by
  cases x with
  | chars a =>
    cases M with
    | nil => rfl
    | cons y r =>
      cases y <;> simp [consSh, cleanL, cleanS]
  | _ => simp [consSh, cleanL]

theorem cleanL_mergeChars (l : List Doc.Shape) : cleanL (Doc.mergeChars l) = cleanL l := by
  induction l with
  | nil => rfl
  | cons x tl ih => rw [mergeChars_cons, cleanL_consSh, ih]; rfl

theorem cleanS_of_blank {x : Doc.Shape} (h : x.isBlank = true) : cleanS x = true := by
  cases x <;> first | rfl | (simp [Doc.Shape.isBlank] at h)

theorem cleanL_filter (l : List Doc.Shape) : cleanL (l.filter (fun x => !x.isBlank)) = cleanL l := by
  induction l with
  | nil => rfl
  | cons x tl ih =>
    rw [List.filter_cons]
    cases hb : x.isBlank with
    | true =>
      simp only [Bool.not_true, Bool.false_eq_true, if_false, cleanL, ih, cleanS_of_blank hb, Bool.true_and]
    | false =>
      simp only [Bool.not_false, if_true, cleanL, ih]

theorem cleanL_normList (l : List Doc.Shape) : cleanL (Doc.normList l) = cleanL l := by
  unfold Doc.normList
  rw [cleanL_filter, cleanL_mergeChars]

theorem cleanL_pendSh (w : Str) : cleanL (pendSh w) = true := by
  unfold pendSh
  split <;> rfl

theorem cleanL_of_merge_eq {a b : List Doc.Shape} (h : Doc.mergeChars a = Doc.mergeChars b) (hb : cleanL b = true) :
    cleanL a = true := by
  rw [← cleanL_mergeChars, h, cleanL_mergeChars]; exact hb

/-! ### from shapes to nodes -/

def NoCE (x : Node) : Prop := isComment x = false ∧ isEnv x = false

mutual
theorem clean_node : ∀ n : Node, cleanS (Doc.shapeOf n) = true → ∀ x ∈ n.subnodes, NoCE x
  | .chars p e ps c, _ => by
    intro x hx
    simp only [Node.subnodes, List.mem_singleton] at hx
    subst hx; exact ⟨rfl, rfl⟩
  | .comment p e ps c post, h => by simp [Doc.shapeOf, cleanS] at h
  | .group p e ps o c b, h => by
    intro x hx
    simp only [Node.subnodes, List.mem_cons] at hx
    rcases hx with rfl | hx
    · exact ⟨rfl, rfl⟩
    · exact clean_body b (by simpa [Doc.shapeOf, cleanS] using h) x hx
  | .mac p e ps n post a, h => by
    intro x hx
    simp only [Node.subnodes, List.mem_cons] at hx
    rcases hx with rfl | hx
    · exact ⟨rfl, rfl⟩
    · exact clean_args a (by simpa [Doc.shapeOf, cleanS] using h) x hx
  | .env p e ps n a b, h => by simp [Doc.shapeOf, cleanS] at h
  | .specials p e ps c a, h => by
    intro x hx
    simp only [Node.subnodes, List.mem_cons] at hx
    rcases hx with rfl | hx
    · exact ⟨rfl, rfl⟩
    · refine clean_args a ?_ x hx
      cases a with
      | none => rfl
      | some l => simpa [Doc.shapeOf, Doc.shapeOfArgs, cleanS, cleanOA] using h
  | .math p e ps d o c b, h => by
    intro x hx
    simp only [Node.subnodes, List.mem_cons] at hx
    rcases hx with rfl | hx
    · exact ⟨rfl, rfl⟩
    · exact clean_body b (by simpa [Doc.shapeOf, cleanS] using h) x hx
theorem clean_body : ∀ b : Option (List Node), cleanOL (Doc.shapeOfBody b) = true → ∀ x ∈ subnodesBody b, NoCE x
  | none, _ => by intro x hx; simp [subnodesBody] at hx
  | some ns, h => by
    intro x hx
    simp only [subnodesBody] at hx
    refine clean_nodes ns ?_ x hx
    simp only [Doc.shapeOfBody, cleanOL] at h
    rw [cleanL_normList] at h
    exact h
theorem clean_nodes : ∀ ns : List Node, cleanL (Doc.shapeOfNodes ns) = true → ∀ x ∈ subnodesList ns, NoCE x
  | [], _ => by intro x hx; simp [subnodesList] at hx
  | n :: ns, h => by
    intro x hx
    simp only [Doc.shapeOfNodes, cleanL, Bool.and_eq_true] at h
    simp only [subnodesList, List.mem_append] at hx
    rcases hx with hx | hx
    · exact clean_node n h.1 x hx
    · exact clean_nodes ns h.2 x hx
theorem clean_args : ∀ a : Option (List Arg), cleanOA (Doc.shapeOfArgs a) = true → ∀ x ∈ subnodesArgs a, NoCE x
  | none, _ => by intro x hx; simp [subnodesArgs] at hx
  | some l, h => by
    intro x hx
    simp only [subnodesArgs] at hx
    exact clean_argList l (by simpa [Doc.shapeOfArgs, cleanOA] using h) x hx
theorem clean_argList : ∀ l : List Arg, cleanAL (Doc.shapeOfArgList l) = true → ∀ x ∈ subnodesArgList l, NoCE x
  | [], _ => by intro x hx; simp [subnodesArgList] at hx
  | a :: l, h => by
    intro x hx
    simp only [Doc.shapeOfArgList, cleanAL, Bool.and_eq_true] at h
    simp only [subnodesArgList, List.mem_append] at hx
    rcases hx with hx | hx
    · exact clean_arg a h.1 x hx
    · exact clean_argList l h.2 x hx
theorem clean_arg : ∀ a : Arg, cleanA (Doc.shapeOfArg a) = true → ∀ x ∈ subnodesArg a, NoCE x
  | .absent, _ => by intro x hx; simp [subnodesArg] at hx
  | .node n, h => by
    intro x hx
    simp only [subnodesArg] at hx
    exact clean_node n (by simpa [Doc.shapeOfArg, cleanA] using h) x hx
  | .list p e ns, h => by
    intro x hx
    simp only [subnodesArg] at hx
    exact clean_nodes ns (by simpa [Doc.shapeOfArg, cleanA] using h) x hx
end

/-! ### the collector gets in front of `after` -/

section rw
variable {env : Env}

/-- from `st` the collector reaches a state in front of some whitespace (fewer than two newlines) followed by `after`;
    the shapes produced on the way hold no comment and no environment -/
def RW (env : Env) (F : PSFields) (stop : StopTok) (child : ChildPS) (st : LoopSt) (after : Str) : Prop :=
  ∃ tr n w', Reaches env F stop child st tr n ∧ env.s.drop (st.pos + n) = w' ++ after ∧ Doc.isWs w' = true ∧
    countNl w' < 2 ∧ cleanL tr = true

theorem RW.step {F : PSFields} {stop : StopTok} {child : ChildPS} {st : LoopSt} {after : Str} {tr1 : List Doc.Shape}
    {n1 : Nat} (h1 : Reaches env F stop child st tr1 n1) (hc : cleanL tr1 = true)
    (h2 : ∀ st1 : LoopSt, st1.pos = st.pos + n1 → RW env F stop child st1 after) : RW env F stop child st after := by
  obtain ⟨st1, hp1, hs1, hk1⟩ := h1
  obtain ⟨tr2, n2, w', ⟨st2, hp2, hs2, hk2⟩, hd2, hw2, hn2, hc2⟩ := h2 st1 hp1
  refine ⟨tr1 ++ tr2, n1 + n2, w', ⟨st2, by omega, ?_, fun R h => hk1 R (hk2 R h)⟩, ?_, hw2, hn2, ?_⟩
  · rw [hs2, ← List.append_assoc]
    exact mergeChars_append_left hs1 tr2
  · rw [← hd2, hp1, Nat.add_assoc]
  · rw [cleanL_append, hc, hc2]; rfl

theorem RW.nil {F : PSFields} {stop : StopTok} {child : ChildPS} {st : LoopSt} {w after : Str}
    (hd : env.s.drop st.pos = w ++ after) (hw : Doc.isWs w = true) (hn : countNl w < 2) :
    RW env F stop child st after :=
  ⟨[], 0, w, Reaches.refl env F stop child st, hd, hw, hn, rfl⟩

/-- what the sub-parser lemmas of `C02` ask for -/
theorem RW.toW {F : PSFields} {stop : StopTok} {child : ChildPS} {st : LoopSt} {after : Str}
    (h : RW env F stop child st after) :
    ∃ trb, ReachesW env F stop child st [] trb after ∧ cleanL trb = true := by
  obtain ⟨tr, n, w', hr, hd, hw, hn, hc⟩ := h
  refine ⟨tr ++ pendSh w', ⟨tr, n, w', hr, hd, hw, hn, rfl⟩, ?_⟩
  rw [cleanL_append, hc, cleanL_pendSh]; rfl

end rw

/-! ### whitespace -/

theorem lastNlEnd_le (l : Str) : lastNlEnd l ≤ l.length := by
  induction l with
  | nil => simp [lastNlEnd]
  | cons c l ih =>
    rw [lastNlEnd]
    split
    · simp; omega
    · split <;> simp

theorem countNl_cons (c : Char) (l : Str) : countNl (c :: l) = (if c = '\n' then 1 else 0) + countNl l := by
  unfold countNl
  rw [List.count_cons]
  by_cases h : c = '\n'
  · subst h; simp; omega
  · have : (c == '\n') = false := by simp [h]
    simp [h, this]

theorem countNl_drop_lastNlEnd (l : Str) : countNl (l.drop (lastNlEnd l)) = 0 := by
  induction l with
  | nil => rfl
  | cons c l ih =>
    rw [lastNlEnd]
    by_cases h : lastNlEnd l > 0
    · rw [if_pos h, List.drop_succ_cons]; exact ih
    · rw [if_neg h]
      have h0 : lastNlEnd l = 0 := by omega
      rw [h0, List.drop_zero] at ih
      by_cases hc : (c == '\n') = true
      · rw [if_pos hc]; simpa using ih
      · rw [if_neg hc, List.drop_zero, countNl_cons]
        have : c ≠ '\n' := by simpa using hc
        simp [this, ih]

theorem lastNlEnd_pos {l : Str} (h : countNl l ≥ 1) : lastNlEnd l ≥ 1 := by
  induction l with
  | nil => simp [countNl] at h
  | cons c l ih =>
    rw [lastNlEnd]
    split
    · omega
    · rename_i hz
      have h0 : countNl l = 0 := by
        by_cases h1 : countNl l ≥ 1
        · have := ih h1; omega
        · omega
      rw [countNl_cons, h0] at h
      by_cases hc : c = '\n'
      · subst hc; simp
      · simp [hc] at h

theorem isWs_drop {w : Str} (h : Doc.isWs w = true) (k : Nat) : Doc.isWs (w.drop k) = true := by
  unfold Doc.isWs at *
  rw [List.all_eq_true] at *
  intro x hx
  exact h x (List.mem_of_mem_drop hx)

theorem isWs_append {a b : Str} (ha : Doc.isWs a = true) (hb : Doc.isWs b = true) : Doc.isWs (a ++ b) = true := by
  unfold Doc.isWs at *
  rw [List.all_append, ha, hb]; rfl

/-- a whitespace run with at least two newlines, in general position: the paragraph token covers the run from its first
    to its last newline -/
theorem peekImpl_parGen {ps : PState} {s : Str} {p : Nat} {w R : Str} (hd : s.drop p = w ++ R) (hw : Doc.isWs w = true)
    (hR : Doc.headIs isPySpace R = false) (hn : countNl w ≥ 2) (hdn : ps.f.enDblNl = true) (hpar : parSpecials ps = true) :
    peekImpl ps s p = .tok { kind := .specials, arg := ['\n', '\n'], pos := p + firstNl w, posEnd := p + lastNlEnd w,
                             pre := w.take (firstNl w) } := by
  have hsr : spaceRun s p = w := spaceRun_of_drop hd hw hR
  unfold peekImpl
  dsimp only
  rw [hsr, hdn]
  have h1 : decide (countNl w ≥ 2) = true := by simpa using hn
  rw [h1]
  simp only [Bool.and_self, if_true]
  unfold peekPar
  rw [hpar]
  rfl

/-! ### a plain character -/

theorem testSpecials_mem_fold (keys : List Str) (s : Str) (p : Nat) :
    ∀ (init : Option Str), (∀ b, init = some b → b ∈ keys) →
      ∀ b, keys.foldl (specialsStep s p) init = some b → b ∈ keys := by
  suffices h : ∀ (all ks : List Str), (∀ x ∈ ks, x ∈ all) → ∀ (init : Option Str), (∀ b, init = some b → b ∈ all) →
      ∀ b, ks.foldl (specialsStep s p) init = some b → b ∈ all from h keys keys (fun _ h => h)
  intro all ks
  induction ks with
  | nil => intro _ init hinit b hb; exact hinit b hb
  | cons x xs ih =>
    intro hsub init hinit b hb
    rw [List.foldl_cons] at hb
    refine ih (fun y hy => hsub y (List.mem_cons_of_mem _ hy)) _ ?_ b hb
    intro b' hb'
    unfold specialsStep at hb'
    split at hb'
    · cases hb'; exact hsub _ (List.mem_cons_self ..)
    · exact hinit b' hb'

theorem testSpecials_mem {keys : List Str} {s : Str} {p : Nat} {k : Str} (h : testSpecials keys s p = some k) : k ∈ keys :=
  testSpecials_mem_fold keys s p none (by intro b hb; cases hb) k h

theorem plainCh_ne {br : Xp} {c : Char} (h : plainCh br c = true) :
    c ≠ '\\' ∧ c ≠ '{' ∧ c ≠ '}' ∧ c ≠ '$' ∧ c ≠ '%' ∧ (∀ o c', br = some (o, c') → c ≠ o ∧ c ≠ c') := by
  unfold plainCh at h
  simp only [Bool.and_eq_true, bne_iff_ne, ne_eq] at h
  obtain ⟨⟨⟨⟨⟨h1, h2⟩, h3⟩, h4⟩, h5⟩, h6⟩ := h
  refine ⟨h1, h2, h3, h4, h5, ?_⟩
  intro o c' e
  subst e
  simpa using h6

section tokens
variable {keys : List Str} {ee m : Bool} {br : Xp} {ex : Option (Str × Bool)} {ps : PState} {s : Str} {p : Nat}

/-- a plain character starts a specials string of the context -/
theorem peekAtChar_plainSpecials (hps : PSStd keys ee m ex br ps) {c : Char} {rest pre k : Str} (hd : s.drop p = c :: rest)
    (hc : plainCh br c = true) (hts : testSpecials keys (c :: rest) 0 = some k) :
    peekAtChar ps s p c pre = .tok { kind := .specials, arg := k, pos := p, posEnd := p + k.length, pre := pre } := by
  obtain ⟨h2, h4, h5, h1, h3, h6⟩ := plainCh_ne hc
  rw [peekAtChar_toGroups hps hd h1 h2 h3]
  unfold peekGroups
  rw [hps.eg, hps.go, hps.gc]
  have e5 : (brPairs br).any (fun d => d.1 == [c]) = false := by
    rcases br with _ | ⟨o, c'⟩
    · simp [brPairs, Ne.symm h4]
    · simp [brPairs, Ne.symm h4, Ne.symm (h6 o c' rfl).1]
  have e6 : ((brPairs br).map (·.2)).any (fun d => d == [c]) = false := by
    rcases br with _ | ⟨o, c'⟩
    · simp [brPairs, Ne.symm h5]
    · simp [brPairs, Ne.symm h5, Ne.symm (h6 o c' rfl).2]
  simp only [e5, e6, if_true, Bool.false_eq_true, if_false]
  unfold peekSpecialsOrChar
  rw [hps.hc, hps.es, hps.sp]
  simp only [Bool.and_self, if_true]
  rw [testSpecials_drop, hd, hts]

/-- a plain character that starts no specials string is a `char` token -/
theorem peekAtChar_plainChar (hps : PSStd keys ee m ex br ps) {c : Char} {rest pre : Str} (hd : s.drop p = c :: rest)
    (hc : plainCh br c = true) (hts : testSpecials keys (c :: rest) 0 = none) :
    peekAtChar ps s p c pre = .tok { kind := .char, arg := [c], pos := p, posEnd := p + 1, pre := pre } := by
  obtain ⟨h2, h4, h5, h1, h3, h6⟩ := plainCh_ne hc
  exact peekAtChar_plain hps hd h1 h2 h3 h4 h5 h6 (by rw [testSpecials_drop, hd, hts])

end tokens

end Pylx.C13.Full
