/-
  C08, all strings — definitions.

  * `xW` / `xA`: the EXACT position-free tree (`C03S.XNode`, before the merging of adjacent chars nodes) of a document of
    the encoder-output grammar `C13.Full.CItem`: every character is its own chars node, whitespace runs with two or more
    newlines become the paragraph specials (`wsX`), brace groups, macro calls with their post-space and argument slots,
    inline math with its source slice.
  * `safeI` / `safeA`: the additional decidable condition under which no character of the document is read as (part
    of) a specials token other than the paragraph break: no plain character is one of the `bad` characters (the
    characters the specials strings of the context are made of).
  * the chunk check `chunkChk` evaluated by the kernel for every alphabet character (files `C08FChk*`).
-/
import PylxProofs.C13Full
import PylxProofs.C03SRender
import PylxProofs.C08Defs
namespace Pylx.C08.Full
open Pylx Pylx.EncB Pylx.L2T Pylx.L2T.C03S Pylx.C13.Full

/-! ### the exact tree of a document -/

/-- the nodes a whitespace run stands for when something that is not whitespace (or the end) follows: pending characters,
    or — with two or more newlines — the characters in front of the first newline, the paragraph specials, and the
    characters behind the last newline -/
def wsX (w : Str) : List XNode :=
  if countNl w < 2 then pendX w
  else pendX (w.take (firstNl w)) ++ (XNode.specials ['\n', '\n'] (some []) :: pendX (w.drop (lastNlEnd w)))

/-- the one-character specials strings of the default context that start no longer one: `~` and `&` -/
def oneChars : Str := ['~', '&']

/-- a plain character that is not whitespace: a chars node, or the specials node of a one-character specials string -/
def chX (c : Char) : XNode := if oneChars.contains c then .specials [c] (some []) else .chars [c]

mutual
/-- `w` = the whitespace read so far and not yet turned into nodes -/
def xW (w : Str) : List CItem → List XNode
  | [] => wsX w
  | .ch c :: tl => if isPySpace c then xW (w ++ [c]) tl else wsX w ++ (chX c :: xW [] tl)
  | .grp b :: tl => wsX w ++ (XNode.group ['{'] ['}'] (some (mergeX (xW [] b))) :: xW [] tl)
  | .mac n post args :: tl => wsX w ++ (XNode.mac n post (some (xA args)) :: xW [] tl)
  | .math b :: tl => wsX w ++ (XNode.math ('$' :: (unI b ++ ['$'])) false ['$'] ['$'] (some (mergeX (xW [] b))) :: xW [] tl)
def xA : List CArg → List XArg
  | [] => []
  | .absent :: tl => .absent :: xA tl
  | .grp b :: tl => .node (.group ['{'] ['}'] (some (mergeX (xW [] b)))) :: xA tl
  | .br b :: tl => .node (.group ['['] [']'] (some (mergeX (xW [] b)))) :: xA tl
  | .tok c :: tl => .node (.chars [c]) :: xA tl
  | .mtok n :: tl => .node (.mac n [] (some [])) :: xA tl
end

/-- **the exact tree a document of the encoder-output grammar is written with** -/
def exactC (d : List CItem) : List XNode := mergeX (xW [] d)

/-! ### no specials other than the paragraph break -/

mutual
/-- no plain character of the document (at any depth) that is not whitespace is in `bad` -/
def safeI (bad : Str) : List CItem → Bool
  | [] => true
  | .ch c :: tl => (isPySpace c || !bad.contains c) && safeI bad tl
  | .grp b :: tl => safeI bad b && safeI bad tl
  | .mac _ _ args :: tl => safeA bad args && safeI bad tl
  | .math b :: tl => safeI bad b && safeI bad tl
def safeA (bad : Str) : List CArg → Bool
  | [] => true
  | .absent :: tl => safeA bad tl
  | .grp b :: tl => safeI bad b && safeA bad tl
  | .br b :: tl => safeI bad b && safeA bad tl
  | .tok _ :: tl => safeA bad tl
  | .mtok _ :: tl => safeA bad tl
end

/-- the characters the longer specials strings of the default context are made of (`- ' \``), the newline of the
    paragraph break excepted -/
def badChars : Str := ['-', '\'', '`']

/-- `bad` covers the specials keys: a one-character key is a bad character or whitespace; in a longer key the first
    character is whitespace or the second is bad; bad characters are plain, not whitespace -/
def keysBad (bad : Str) (keys : List Str) : Bool :=
  keys.all (fun k =>
    match k with
    | [] => true
    | [a] => oneChars.contains a || isPySpace a
    | a :: b :: _ => isPySpace a || bad.contains b) &&
  oneChars.all (fun c => keys.contains [c] && !bad.contains c) &&
  bad.all (fun c => !isPySpace c && c != '{' && c != '}' && c != '\\' && c != '$' && c != ']' && c != '[')

/-! ### top-level form of a chunk -/

def isWsItemC : CItem → Bool
  | .ch c => isPySpace c
  | _ => false

/-- the first top-level item exists and is not a whitespace character -/
def startsSolid : List CItem → Bool
  | [] => false
  | it :: _ => !isWsItemC it

/-- the last top-level item exists and is not a whitespace character -/
def endsSolid : List CItem → Bool
  | [] => false
  | [it] => !isWsItemC it
  | _ :: it2 :: tl => endsSolid (it2 :: tl)

/-- neither the first nor the last top-level item is a whitespace character, and there is one -/
def solid (d : List CItem) : Bool := startsSolid d && endsSolid d

/-! ### the renderer on the exact tree -/

/-- the renderer's environment of the property: default databases, the NFC table of the alphabet -/
def xe (pol : SlsSpec) : XE := { opts := { sls := pol }, db := Gen.defaultTextDb, ctx := Gen.defaultCtx, lib := lib }

def stEmpty (st : St) : Bool := st.title.isNone && st.author.isNone && st.date.isNone

/-- rendering the nodes `ns` from a fresh converter state gives exactly `t` and leaves the state fresh -/
def rendersTo (pol : SlsSpec) (ns : List XNode) (t : Str) : Bool :=
  match renderXList (xe pol) (parseSls pol) none [] ns {} with
  | .ok (r, st) => r == t && stEmpty st
  | .crash _ => false

/-- `_is_bare_macro_node` does not raise on the last node -/
def bareOk (pol : SlsSpec) (ns : List XNode) : Bool :=
  match isBareX (xe pol) ns.getLast? with
  | .ok _ => true
  | .crash _ => false

/-- what the kernel checks for one protected chunk `u` of the character `c` -/
def docChk (c : Char) (u : Str) : Bool :=
  match chunkDoc u with
  | some d =>
    unI d == u && cwfI Gen.defaultCtx false none none d && safeI badChars d &&
    solid d &&
    policies.all (fun pol => rendersTo pol (xW [] d) [c] && bareOk pol (xW [] d))
  | none => false

/-- the document a chunk is classified as (`[]` if the classifier fails — the kernel check then fails too) -/
def docOf (pr : Prot) (c : Char) : List CItem := (chunkDoc (chunk pr c)).getD []

/-- the check of one alphabet code point: each of its (at most three distinct) protected chunks passes `docChk`; space and
    newline are handled in general -/
def chunkChk (k : Nat) : Bool :=
  k == 10 || k == 32 ||
  force (repl (Char.ofNat k)) fun o =>
    ((schemes.map (fun pr => chunkOf pr (Char.ofNat k) o)).eraseDups).all (docChk (Char.ofNat k))

def ChunksOk (ch : List Nat) : Bool := ch.all chunkChk

theorem chunkChk_spec {k : Nat} (h : chunkChk k = true) (h10 : k ≠ 10) (h32 : k ≠ 32) :
    ∀ pr ∈ schemes, docChk (Char.ofNat k) (chunk pr (Char.ofNat k)) = true := by
  intro pr hpr
  unfold chunkChk at h
  have e1 : (k == 10) = false := by simpa using h10
  have e2 : (k == 32) = false := by simpa using h32
  rw [e1, e2, Bool.false_or, Bool.false_or, force_eq] at h
  refine List.all_eq_true.mp h _ (List.mem_eraseDups.mpr (List.mem_map.mpr ⟨pr, hpr, rfl⟩))

end Pylx.C08.Full
