/-
  C06 — "With tolerant_parsing=True (the default), parsing any string terminates and raises no exception.
  If the same input parses in strict mode the two trees are identical; if it does not, the nodes parsed
  before the first syntax error are still returned."

  Model-level core for `Pylx.parseTop` / `Pylx.run`:
  * `run_mono`, `C06_agree`            (PylxProofs/C06Sim.lean)
  * `run_adv`  — reader monotonicity   (PylxProofs/C06Adv.lean)
  * `run_nf`   — progress / fuel bound (PylxProofs/C06Fuel.lean)
  * `C06_prefix` — recovery nodes are continued (PylxProofs/C06Prefix.lean)
  * here: `C06_no_fuel`, `C06_no_perr`, `C06_total_of_no_crash`, `C06_agree_top`, `C06_prefix_top`.
-/
import PylxProofs.C06Sim
import PylxProofs.C06Fuel
import PylxProofs.C06Prefix
namespace Pylx

/-- fuel for which termination is proved: `4 * len + 3` (the model's `fuelFor` is `8 * len + 40`) -/
def fuelEnough (s : Str) : Nat := 4 * s.length + 3

theorem fuelEnough_le_fuelFor (s : Str) : fuelEnough s ≤ fuelFor s := by
  unfold fuelEnough fuelFor; omega

theorem topTask_ok {f : PSFields} (hd : DelimsOk f) : (topTask f).Ok := ⟨trivial, hd⟩

theorem delimsOk_of_startOk {ctx : Ctx} {f : PSFields} (hf : StartOk ctx f) : DelimsOk f := hf.mathDelims

/-- **C06 (termination, both modes).** With `fuelEnough s` units of fuel — hence with `fuelFor s` — the
    top-level parse never runs out of fuel, for every context (closed or not), every input and every parsing
    state whose math delimiters are non-empty strings. -/
theorem C06_no_fuel_run (env : Env) (f : PSFields) (hd : DelimsOk f) (n : Nat) (hn : fuelEnough env.s ≤ n) :
    run env n (topTask f) ≠ .fuel :=
  run_nf env n (topTask f) (topTask_ok hd) (by
    show 4 * (env.s.length - 0) + 3 ≤ n
    unfold fuelEnough at hn; omega)

theorem C06_no_fuel (env : Env) (f : PSFields) (hd : DelimsOk f) : parseTop env f ≠ .fuel :=
  C06_no_fuel_run env f hd (fuelFor env.s) (fuelEnough_le_fuelFor env.s)

/-- the result of `parseTop` is the stable one: every fuel ≥ `fuelEnough s` gives the same result -/
theorem parseTop_stable (env : Env) (f : PSFields) (hd : DelimsOk f) (n : Nat) (hn : fuelEnough env.s ≤ n) :
    run env n (topTask f) = run env (fuelEnough env.s) (topTask f) :=
  run_mono env (fuelEnough env.s) n (topTask f) (C06_no_fuel_run env f hd _ (Nat.le_refl _)) hn

theorem parseTop_eq (env : Env) (f : PSFields) (hd : DelimsOk f) :
    parseTop env f = run env (fuelEnough env.s) (topTask f) :=
  parseTop_stable env f hd (fuelFor env.s) (fuelEnough_le_fuelFor env.s)

/-- `parse_content` in tolerant mode never lets a parse error escape -/
theorem parseContent_true_ne_perr (raw : Raw) (e : PErr) : parseContent true raw ≠ .perr e := by
  cases raw with
  | eos q => intro h; cases h
  | ret r =>
    cases r with
    | perr e' => intro h; cases h
    | ok a b => intro h; cases h
    | loopEnd a => intro h; cases h
    | crash k => intro h; cases h
    | fuel => intro h; cases h

/-- **C06 (no exception).** A tolerant `parse_content` call never returns a parse error, whatever the fuel. -/
theorem C06_no_perr (ctx : Ctx) (s : Str) (n : Nat) (p : Parser) (f : PSFields) (pos : Nat) (e : PErr) :
    run { tol := true, ctx := ctx, s := s } n (.pc p f pos) ≠ .perr e := by
  cases n with
  | zero => intro h; cases h
  | succ n => exact parseContent_true_ne_perr _ e

theorem rawGeneral_ne_loopEnd (rec : Task → Ret) (stop : StopTok) (require : Bool) (child : ChildPS) (f : PSFields)
    (pos : Nat) (le : LoopEnd) : rawGeneral rec stop require child f pos ≠ .ret (.loopEnd le) := by
  unfold rawGeneral retOfLoop
  cases rec (.loop f stop child { pos := pos }) with
  | loopEnd e =>
    dsimp only
    split
    · intro h; cases h
    · split
      · intro h; cases h
      · split <;> (intro h; cases h)
  | ok a b => intro h; cases h
  | perr e => intro h; cases h
  | crash k => intro h; cases h
  | fuel => intro h; cases h

theorem top_ne_loopEnd (env : Env) (n : Nat) (f : PSFields) (le : LoopEnd) : run env n (topTask f) ≠ .loopEnd le := by
  cases n with
  | zero => intro h; cases h
  | succ n =>
    show parseContent env.tol (rawGeneral (run env n) .none true .same f 0) ≠ _
    have h1 := rawGeneral_ne_loopEnd (run env n) .none true .same f 0 le
    generalize rawGeneral (run env n) .none true .same f 0 = raw at h1
    cases raw with
    | eos q => intro h; cases h
    | ret r =>
      cases r with
      | perr e' => cases env.tol <;> (intro h; cases h)
      | ok a b => intro h; cases h
      | loopEnd a => intro h; simp only [parseContent] at h; cases h; exact h1 rfl
      | crash k => intro h; cases h
      | fuel => intro h; cases h

/-- **C06 (totality).** The tolerant parser is total: for every context, every input and every start state, the
    top-level parse with the model's own fuel returns a result (no error, no fuel exhaustion), provided the model
    does not hit one of its explicit `crash` outcomes — which is the statement of `C05_no_crash` for closed
    contexts (`hc`), to be discharged by the integrator. -/
theorem C06_total_of_no_crash (ctx : Ctx) (_hc : ctx.Closed) (s : Str) (f : PSFields) (hf : StartOk ctx f)
    (hnc : ∀ n k, run { tol := true, ctx := ctx, s := s } n (topTask f) ≠ .crash k) :
    ∃ r pos, parseTop { tol := true, ctx := ctx, s := s } f = .ok r pos := by
  have hd := delimsOk_of_startOk hf
  have h1 := C06_no_fuel { tol := true, ctx := ctx, s := s } f hd
  have h2 := C06_no_perr ctx s (fuelFor s) (.general .none true .same) f 0
  have h3 := top_ne_loopEnd { tol := true, ctx := ctx, s := s } (fuelFor s) f
  have h4 := hnc (fuelFor s)
  unfold parseTop
  change run { tol := true, ctx := ctx, s := s } (fuelFor s) (topTask f) ≠ .fuel at h1
  change ∀ e, run { tol := true, ctx := ctx, s := s } (fuelFor s) (topTask f) ≠ .perr e at h2
  change ∃ r pos, run { tol := true, ctx := ctx, s := s } (fuelFor s) (topTask f) = .ok r pos
  cases hr : run { tol := true, ctx := ctx, s := s } (fuelFor s) (topTask f) with
  | ok r pos => exact ⟨r, pos, rfl⟩
  | perr e => exact absurd hr (h2 e)
  | loopEnd le => exact absurd hr (h3 le)
  | crash k => exact absurd hr (h4 k)
  | fuel => exact absurd hr h1

/-- the same with the proved bound instead of the model's fuel -/
theorem C06_total_fuelEnough_of_no_crash (ctx : Ctx) (s : Str) (f : PSFields) (hd : DelimsOk f)
    (hnc : ∀ n k, run { tol := true, ctx := ctx, s := s } n (topTask f) ≠ .crash k) :
    ∃ r pos, ∀ n, fuelEnough s ≤ n → run { tol := true, ctx := ctx, s := s } n (topTask f) = .ok r pos := by
  have h1 := C06_no_fuel_run { tol := true, ctx := ctx, s := s } f hd (fuelEnough s) (Nat.le_refl _)
  have h2 := C06_no_perr ctx s (fuelEnough s) (.general .none true .same) f 0
  have h3 := top_ne_loopEnd { tol := true, ctx := ctx, s := s } (fuelEnough s) f
  have h4 := hnc (fuelEnough s)
  change ∀ e, run { tol := true, ctx := ctx, s := s } (fuelEnough s) (topTask f) ≠ .perr e at h2
  cases hr : run { tol := true, ctx := ctx, s := s } (fuelEnough s) (topTask f) with
  | ok r pos =>
    refine ⟨r, pos, fun n hn => ?_⟩
    rw [← hr]
    exact parseTop_stable { tol := true, ctx := ctx, s := s } f hd n hn
  | perr e => exact absurd hr (h2 e)
  | loopEnd le => exact absurd hr (h3 le)
  | crash k => exact absurd hr (h4 k)
  | fuel => exact absurd hr h1

/-- **C06 (agreement).** If the strict parse succeeds, the tolerant parse returns the identical tree and final position. -/
theorem C06_agree_top (ctx : Ctx) (s : Str) (f : PSFields) (r : Res) (pos : Nat)
    (h : parseTop { tol := false, ctx := ctx, s := s } f = .ok r pos) :
    parseTop { tol := true, ctx := ctx, s := s } f = .ok r pos :=
  C06_agree ctx s f (fuelFor s) r pos h

/-- **Monotonicity at the top.** Whatever the mode, a successful `parse_content` leaves the reader at or after its start. -/
theorem C06_reader_monotone (env : Env) (n : Nat) (p : Parser) (f : PSFields) (pos : Nat) (hp : p.Ok) (hd : DelimsOk f)
    (r : Res) (q : Nat) (h : run env n (.pc p f pos) = .ok r q) : pos ≤ q := by
  have := run_adv env n (.pc p f pos) ⟨hp, hd⟩
  rw [h] at this
  exact PQ_le this

/-- **C06 (prefix) for `parseTop`.** -/
theorem C06_prefix_top (ctx : Ctx) (s : Str) (f : PSFields) (e : PErr)
    (h : parseTop { tol := false, ctx := ctx, s := s } f = .perr e) :
    ∃ p q ns, e.recNodes = .list p q ns ∧
      ∀ r pos, parseTop { tol := true, ctx := ctx, s := s } f = .ok r pos →
        ∃ p' q' ns', r = .list p' q' ns' ∧ Continues ns ns' :=
  C06_prefix ctx s f (fuelFor s) e h

/-! ### non-vacuity -/

private def exCtx : Ctx :=
  { macros := [("a".toList, .std [⟨.m, .none⟩]), ("verb".toList, .legacyVerb)],
    envs := [("e".toList, (.std [⟨.o false, .none⟩], false))],
    specials := [("~".toList, .std [])] }
private def exF : PSFields := { specials := ["~".toList] }
private def Ret.isOk' : Ret → Bool
  | .ok _ _ => true
  | _ => false

/-- the hypotheses of `C06_total_of_no_crash` are satisfiable: a closed context and its start state -/
example : exCtx.Closed ∧ StartOk exCtx exF := by
  refine ⟨⟨?_, ?_, ?_, ?_, ?_⟩, ⟨rfl, rfl, ?_, ?_, ?_, rfl⟩⟩
  · intro p hp
    simp only [exCtx, List.mem_cons, List.not_mem_nil, or_false] at hp
    rcases hp with rfl | rfl <;> trivial
  · intro p hp
    simp only [exCtx, List.mem_cons, List.not_mem_nil, or_false] at hp
    subst hp; trivial
  · intro p hp
    simp only [exCtx, List.mem_cons, List.not_mem_nil, or_false] at hp
    subst hp; trivial
  · intro a h; cases h
  · intro a h; cases h
  · decide
  · decide
  · decide

/-- a broken input (unclosed group, unknown macro, stray `}`) parses in tolerant mode with the model's fuel, and
    already with `fuelEnough`; the strict parse fails -/
example : (parseTop { tol := true, ctx := exCtx, s := "x\\a{b \\zz}} $".toList } exF).isOk' = true
    ∧ (run { tol := true, ctx := exCtx, s := "x\\a{b \\zz}} $".toList } (fuelEnough "x\\a{b \\zz}} $".toList) (topTask exF)).isOk' = true
    ∧ (parseTop { tol := false, ctx := exCtx, s := "x\\a{b \\zz}} $".toList } exF).isOk' = false := by decide

/-- `C06_no_fuel` applied to a concrete input -/
example : parseTop { tol := true, ctx := exCtx, s := "\\begin{e}[~]\\verb|x|".toList } exF ≠ .fuel :=
  C06_no_fuel _ exF (by unfold DelimsOk; decide)

/-- the bound `4 * len + 3` is close to what the model really needs: `~{~{~{` with an argument-taking specials
    needs 23 = 3.5 * 6 + 2 units -/
private def exCtx2 : Ctx := { specials := [("~".toList, .std [⟨.m, .none⟩])] }
private def Ret.isFuel' : Ret → Bool
  | .fuel => true
  | _ => false
example :
    (run { tol := true, ctx := exCtx2, s := "~{~{~{".toList } 22 (topTask exF)).isFuel' = true
    ∧ (run { tol := true, ctx := exCtx2, s := "~{~{~{".toList } 23 (topTask exF)).isOk' = true := by decide

/-! ### non-vacuity for expression arguments without leading whitespace (`ArgKind.m0`)

`\p` has the signature `[m, m0]`; the source `\p{a} {b}` puts a blank in front of the second argument.
Strict mode: located error "expected expression w/o leading whitespace" at the blank (offset 5).
Tolerant mode: `_parse_single_token` has already consumed the offending token (the `{` with its leading blank);
the recovery retries *after* it, so `b` becomes the argument, and the now unmatched `}` is skipped by the
collector's own recovery (reader ends at 9, the node list at 8). -/

private def m0Ctx : Ctx := { macros := [(['p'], .std [⟨.m, .none⟩, ⟨.m0, .none⟩])] }
private def m0Src : Str := ['\\', 'p', '{', 'a', '}', ' ', '{', 'b', '}']
private def m0Src2 : Str := ['\\', 'p', '{', 'a', '}', ' ', 'b']

private def m0Tree : Ret :=
  .ok (.list (some 0) (some 8)
    [Node.mac 0 8 {} ['p'] [] (some [.node (Node.group 2 5 {} ['{'] ['}'] (some [Node.chars 3 4 {} ['a']])),
                                      .node (Node.chars 7 8 {} ['b'])])]) 9

/-- a plain character after the blank is dropped in the same way; the slot is then filled at the end of the input
    by the empty placeholder group -/
private def m0Tree2 : Ret :=
  .ok (.list (some 0) (some 7)
    [Node.mac 0 7 {} ['p'] [] (some [.node (Node.group 2 5 {} ['{'] ['}'] (some [Node.chars 3 4 {} ['a']])),
                                      .node (Node.group 7 7 {} [] [] (some []))])]) 7

private def isM0Tree : Ret → Bool
  | .ok (.list (some 0) (some 8)
      [Node.mac 0 8 ⟨false, none⟩ ['p'] []
        (some [.node (Node.group 2 5 ⟨false, none⟩ ['{'] ['}'] (some [Node.chars 3 4 ⟨false, none⟩ ['a']])),
               .node (Node.chars 7 8 ⟨false, none⟩ ['b'])])]) 9 => true
  | _ => false

private def isM0Tree2 : Ret → Bool
  | .ok (.list (some 0) (some 7)
      [Node.mac 0 7 ⟨false, none⟩ ['p'] []
        (some [.node (Node.group 2 5 ⟨false, none⟩ ['{'] ['}'] (some [Node.chars 3 4 ⟨false, none⟩ ['a']])),
               .node (Node.group 7 7 ⟨false, none⟩ [] [] (some []))])]) 7 => true
  | _ => false

private theorem eq_of_isM0Tree (r : Ret) (h : isM0Tree r = true) : r = m0Tree := by
  unfold isM0Tree at h
  split at h
  · rfl
  · cases h

private theorem eq_of_isM0Tree2 (r : Ret) (h : isM0Tree2 r = true) : r = m0Tree2 := by
  unfold isM0Tree2 at h
  split at h
  · rfl
  · cases h

/-- what, position and recovery node list of a strict failure -/
private def Ret.errInfo : Ret → Option (ErrWhat × Option Nat × Nat)
  | .perr e => some (e.what, e.pos, match e.recNodes with | .list _ _ ns => ns.length | _ => 0)
  | _ => none

set_option maxRecDepth 100000 in
/-- tolerant parse of `\p{a} {b}` under `[m, m0]`: terminates (with the model's fuel and already with `fuelEnough`)
    with exactly this tree — kernel evaluation of the model -/
example : parseTop { tol := true, ctx := m0Ctx, s := m0Src } {} = m0Tree
    ∧ run { tol := true, ctx := m0Ctx, s := m0Src } (fuelEnough m0Src) (topTask {}) = m0Tree :=
  ⟨eq_of_isM0Tree _ (by decide +kernel), eq_of_isM0Tree _ (by decide +kernel)⟩

set_option maxRecDepth 100000 in
/-- tolerant parse of `\p{a} b` (blank before a plain token — the input class on which a non-advancing retry
    would loop for ever): terminates, the token is skipped -/
example : parseTop { tol := true, ctx := m0Ctx, s := m0Src2 } {} = m0Tree2 :=
  eq_of_isM0Tree2 _ (by decide +kernel)

set_option maxRecDepth 100000 in
/-- strict parse of the same inputs: the located error `expression_required_got_unexpected:whitespace` at the
    blank (offset 5), no recovery nodes at top level before it -/
example : (parseTop { tol := false, ctx := m0Ctx, s := m0Src } {}).errInfo = some (.exprWhitespace, some 5, 0)
    ∧ (parseTop { tol := false, ctx := m0Ctx, s := m0Src2 } {}).errInfo = some (.exprWhitespace, some 5, 0) := by
  decide +kernel

/-- the general theorems apply to this context: it is closed, `{}` is its start state -/
example : m0Ctx.Closed ∧ StartOk m0Ctx {} := by
  refine ⟨⟨?_, ?_, ?_, ?_, ?_⟩, ⟨rfl, rfl, ?_, ?_, ?_, rfl⟩⟩
  · intro p hp
    simp only [m0Ctx, List.mem_cons, List.not_mem_nil, or_false] at hp
    subst hp; trivial
  · intro p hp; cases hp
  · intro p hp; cases hp
  · intro a h; cases h
  · intro a h; cases h
  · decide
  · decide
  · decide

/-- `C06_no_fuel` instantiated on it -/
example : parseTop { tol := true, ctx := m0Ctx, s := m0Src } {} ≠ .fuel :=
  C06_no_fuel _ {} (by unfold DelimsOk; decide)

#print axioms run_mono
#print axioms C06_agree
#print axioms run_adv
#print axioms run_nf
#print axioms C06_no_fuel
#print axioms C06_no_perr
#print axioms C06_total_of_no_crash
#print axioms C06_total_fuelEnough_of_no_crash
#print axioms C06_agree_top
#print axioms C06_reader_monotone
#print axioms C06_prefix_top

end Pylx
