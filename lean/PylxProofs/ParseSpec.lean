/-
  Specification vocabulary for the parser properties (C01, C05, C06, C10).
  Definitions only — the theorems live in PylxProofs/C01.lean, C05.lean, C06.lean, C10.lean.
-/
import Pylx.Parse
namespace Pylx

/-- nodes lie inside `[a, b]`, in document order, without overlapping -/
inductive Chain : List Node → Nat → Nat → Prop where
  | nil {a b : Nat} : a ≤ b → Chain [] a b
  | cons {n : Node} {ns : List Node} {a b : Nat} :
      a ≤ n.pos → n.pos ≤ n.posEnd → Chain ns n.posEnd b → Chain (n :: ns) a b

/-- nodes tile `[a, b]` exactly: no gap, no overlap -/
inductive Tiles : List Node → Nat → Nat → Prop where
  | nil {a : Nat} : Tiles [] a a
  | cons {n : Node} {ns : List Node} {b : Nat} :
      n.pos ≤ n.posEnd → Tiles ns n.posEnd b → Tiles (n :: ns) n.pos b

/-- the text a chars / comment node carries is the source slice at its position (`cs` = comment start string) -/
def TextOk (s cs : Str) : Node → Prop
  | .chars p e _ c => c = slice s p e
  | .comment p e _ c post => cs ++ c ++ post = slice s p e
  | _ => True

/-- a node covers exactly its source: span inside the input, children (arguments before body, in document order)
    inside the span without overlap, carried text = source slice -/
def NodeOk (s cs : Str) (n : Node) : Prop :=
  n.pos ≤ n.posEnd ∧ n.posEnd ≤ s.length ∧ Chain n.children n.pos n.posEnd ∧ TextOk s cs n

/-- in-range and nesting only (what is claimed for tolerant results) -/
def NodeNested (s : Str) (n : Node) : Prop :=
  n.pos ≤ n.posEnd ∧ n.posEnd ≤ s.length ∧ Chain n.children n.pos n.posEnd

/-- the context has no specification the translator failed to recognise -/
def ArgsP.Known : ArgsP → Prop
  | .unknown => False
  | _ => True

structure Ctx.Closed (c : Ctx) : Prop where
  macros : ∀ p ∈ c.macros, p.2.Known
  envs : ∀ p ∈ c.envs, p.2.1.Known
  specials : ∀ p ∈ c.specials, p.2.Known
  um : ∀ a, c.unknownMacro = some a → a.Known
  ue : ∀ a, c.unknownEnv = some a → a.1.Known

/-- the walker's initial parsing state for a context: the context's specials, non-empty math delimiters,
    single-character group delimiters, a non-empty comment start -/
structure StartOk (c : Ctx) (f : PSFields) : Prop where
  hasCtx : f.hasCtx = true
  specials : f.specials = c.specials.map (·.1)
  mathDelims : ∀ pr ∈ f.inlineDelims ++ f.displayDelims, pr.1 ≠ [] ∧ pr.2 ≠ []
  groupDelims : ∀ pr ∈ f.groupDelims, pr.1.length = 1 ∧ pr.2.length = 1
  comment : f.commentStart ≠ []
  normal : f.normalize = f

/-- the top-level task -/
def topTask (f : PSFields) : Task := .pc (.general .none true .same) f 0

/-- what the enclosing constructs imply for the mode of a node (C10): `cur` is the mode the parent hands down -/
def enterMathInfo : PSInfo := { inMath := true, mathDelim := none }
def textInfo : PSInfo := { inMath := false, mathDelim := none }

def deltaInfo (cur : PSInfo) : Delta → PSInfo
  | .none => cur
  | .enterMath => enterMathInfo
  | .leaveMath => textInfo

end Pylx
