/-
  C13, parse link for all strings — kernel evaluation over one quarter of the `defaults` table: every replacement text
  is the source of a document of the grammar of `C13FullDefs` that is well formed under each of the four brace protection
  schemes (`rawOk`; the classifier's output is checked, not trusted: it unparses to the text and satisfies `cwfI`).
-/
import PylxProofs.C13FullDefs
namespace Pylx.C13.Full
open Pylx Pylx.EncB

set_option maxRecDepth 100000 in
theorem defaults_docs_3 : (Gen.uni2latexChunks.drop 30).all (fun ch => ch.all entryOk) = true := by
  decide +kernel

end Pylx.C13.Full
