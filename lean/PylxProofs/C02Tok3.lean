/-
  C02Tok3 — a generic classification of what the tokenizer returns in front of text it reads without an error
  (used for the slots of absent optional arguments, where the following text is not known).
-/
import PylxProofs.C02Tok2
namespace Pylx
namespace C02
open Doc

/-- a token read at `q` (first character `c`) behind the whitespace `w` -/
structure TokAt (w : Str) (q : Nat) (c : Char) (t : Token) : Prop where
  pre : t.pre = w
  pos : t.pos = q
  brace : t.kind = .braceOpen → t.arg = [c]
  single : (t.kind = .char ∨ t.kind = .specials) → ∀ x, t.arg = [x] → x = c

theorem TokAt.of_kind {w : Str} {q : Nat} {c : Char} {t : Token} (h1 : t.pre = w) (h2 : t.pos = q)
    (hk : t.kind = .comment ∨ t.kind = .macro ∨ t.kind = .braceClose) : TokAt w q c t := by
  refine ⟨h1, h2, fun h => ?_, fun h => ?_⟩
  · rcases hk with hk | hk | hk <;> (rw [hk] at h; cases h)
  · rcases hk with hk | hk | hk <;> rcases h with h | h <;> (rw [hk] at h; cases h)

section cls
variable {keys : List Str} {ee m : Bool} {br : Xp} {ex : Option (Str × Bool)} {ps : PState} {s : Str} {q : Nat}

theorem notFollowed_head (hps : PSStd keys ee m ex br ps) {p : Nat} {x : Str} (hd : s.drop p = x)
    (h : notFollowedByAlpha ps s p = true) : headIs isAsciiAlpha x = false := by
  unfold notFollowedByAlpha at h
  cases x with
  | nil => rfl
  | cons c x =>
    rw [getElem?_of_drop hd, hps.alpha] at h
    simp only [Bool.not_eq_eq_eq_not, Bool.not_true] at h
    have := contains_alpha_eq c
    unfold alphaStr at this
    rw [this] at h
    simpa [headIs] using h

theorem envWordAt_isEnvWord (hps : PSStd keys ee m ex br ps) {r : Str} (hd1 : s.drop (q + 1) = r) {b : Bool}
    (h : envWordAt ps s q = some b) : isEnvWord r = true := by
  unfold envWordAt at h
  cases hw : envWord ps s q with
  | none => rw [hw] at h; cases h
  | some b' =>
    rw [hw] at h
    simp only at h
    by_cases hnf : notFollowedByAlpha ps s (q + 1 + envWordLen b') = true
    · unfold envWord at hw
      cases hee : ps.f.enEnvs with
      | false => rw [hee] at hw; simp at hw
      | true =>
        rw [hee] at hw
        simp only [if_true] at hw
        rw [startsWithAt_of_drop hd1, startsWithAt_of_drop hd1] at hw
        unfold isEnvWord
        by_cases h1 : ("begin".toList).isPrefixOf r = true
        · rw [if_pos h1] at hw
          cases hw
          have hd5 : s.drop (q + 1 + 5) = r.drop 5 := by rw [← hd1, List.drop_drop]
          have := notFollowed_head hps hd5 hnf
          rw [h1, this]; rfl
        · rw [if_neg h1] at hw
          by_cases h2 : ("end".toList).isPrefixOf r = true
          · rw [if_pos h2] at hw
            cases hw
            have hd3 : s.drop (q + 1 + 3) = r.drop 3 := by rw [← hd1, List.drop_drop]
            have := notFollowed_head hps hd3 hnf
            rw [h2, this]; simp
          · rw [if_neg h2] at hw; cases hw
    · rw [if_neg hnf] at h; cases h

theorem peekSpecialsOrChar_class (hps : PSStd keys ee m ex br ps) {c : Char} {r w : Str} (hd : s.drop q = c :: r) :
    ∃ t, peekSpecialsOrChar ps s q c w = .tok t ∧ TokAt w q c t := by
  unfold peekSpecialsOrChar
  rw [hps.hc, hps.es, hps.sp]
  simp only [Bool.and_self, if_true]
  cases hts : testSpecials keys s q with
  | none =>
    simp only
    unfold charToken
    rw [hps.fb]
    refine ⟨_, (by simp; rfl), rfl, rfl, (fun h => by cases h), (fun _ x hx => ?_)⟩
    simp at hx
    exact hx.symm
  | some k =>
    simp only
    refine ⟨_, rfl, rfl, rfl, (fun h => by cases h), (fun _ x hx => ?_)⟩
    have := (testSpecials_spec keys s q k hts).2
    rw [startsWithAt_of_drop hd] at this
    simp only at hx
    rw [hx] at this
    simpa [List.isPrefixOf] using this

theorem peekGroups_class (hps : PSStd keys ee m ex br ps) {c : Char} {r w : Str} (hd : s.drop q = c :: r) :
    ∃ t, peekGroups ps s q c w = .tok t ∧ TokAt w q c t := by
  unfold peekGroups
  rw [hps.eg]
  simp only [if_true]
  split
  · exact ⟨_, rfl, rfl, rfl, (fun _ => rfl), (fun h => by rcases h with h | h <;> cases h)⟩
  · split
    · exact ⟨_, rfl, TokAt.of_kind rfl rfl (by simp)⟩
    · exact peekSpecialsOrChar_class hps hd

theorem peekComment_class (hps : PSStd keys ee m ex br ps) {c : Char} {r w : Str} (hd : s.drop q = c :: r) :
    ∃ t, peekComment ps s q c w = .tok t ∧ TokAt w q c t := by
  unfold peekComment
  split
  · unfold readComment
    dsimp only
    split
    · exact ⟨_, rfl, TokAt.of_kind rfl rfl (by simp)⟩
    · exact ⟨_, rfl, TokAt.of_kind rfl rfl (by simp)⟩
  · exact peekGroups_class hps hd

theorem peekEscape_class (hps : PSStd keys ee m ex br ps) {c : Char} {r w : Str} (hd : s.drop q = c :: r)
    (hsafe : escSafe (c :: r) = true) : ∃ t, peekEscape ps s q c w = .tok t ∧ TokAt w q c t := by
  unfold peekEscape
  rw [hps.esc]
  by_cases hc : c = '\\'
  · subst hc
    simp only [beq_self_eq_true, if_true]
    simp only [escSafe, Bool.and_eq_true, Bool.not_eq_eq_eq_not, Bool.not_true] at hsafe
    have hd1 : s.drop (q + 1) = r := drop_succ_of_drop hd
    cases henv : envWordAt ps s q with
    | some b =>
      have := envWordAt_isEnvWord hps hd1 henv
      rw [this] at hsafe; cases hsafe.2
    | none =>
      simp only
      rw [hps.em]
      simp only [if_true]
      cases r with
      | nil => simp at hsafe
      | cons c1 r1 =>
        unfold readMacro
        rw [getElem?_of_drop hd1]
        simp only
        split
        · exact ⟨_, rfl, TokAt.of_kind rfl rfl (by simp)⟩
        · exact ⟨_, rfl, TokAt.of_kind rfl rfl (by simp)⟩
  · have e1 : (c == '\\') = false := by simp [hc]
    rw [e1]
    simp only [Bool.false_eq_true, if_false]
    exact peekComment_class hps hd

theorem mathTok_class (w : Str) (q : Nat) (c : Char) (d : Str) (b : Bool) : TokAt w q c (mathTok q w d b) := by
  refine ⟨rfl, rfl, fun h => ?_, fun h => ?_⟩
  · cases b <;> cases h
  · cases b <;> rcases h with h | h <;> cases h

/-- the token read at a non-space character from which the text can be read without a token error -/
theorem peekAtChar_class (hps : PSStd keys ee m ex br ps) {c : Char} {r w : Str} (hd : s.drop q = c :: r)
    (hsafe : escSafe (c :: r) = true) : ∃ t, peekAtChar ps s q c w = .tok t ∧ TokAt w q c t := by
  unfold peekAtChar
  split
  · cases hrm : readMath ps s q w with
    | some t =>
      obtain ⟨d, b, rfl⟩ := readMath_spec hrm
      exact ⟨_, rfl, mathTok_class w q c d b⟩
    | none => exact peekEscape_class hps hd hsafe
  · exact peekEscape_class hps hd hsafe

theorem takeWhile_append_dropWhile (P : Char → Bool) (l : Str) : l.takeWhile P ++ l.dropWhile P = l :=
  List.takeWhile_append_dropWhile

theorem isWs_takeWhile (l : Str) : isWs (l.takeWhile isPySpace) = true := by
  induction l with
  | nil => rfl
  | cons c l ih =>
    rw [List.takeWhile_cons]
    cases h : isPySpace c with
    | true => simp only [if_true, isWs, List.all_cons, h, Bool.true_and]; exact ih
    | false => rfl

theorem head_dropWhile (l : Str) : headIs isPySpace (l.dropWhile isPySpace) = false := by
  induction l with
  | nil => rfl
  | cons c l ih =>
    rw [List.dropWhile_cons]
    cases h : isPySpace c with
    | true => simpa using ih
    | false => simp [headIs, h]

/-- **what follows an absent optional argument**: the end of the input, or a token behind the leading whitespace -/
theorem peek_follow (hps : PSStd keys ee m ex br ps) {p : Nat} {F : Str} (hd : s.drop p = F) (hok : absentFollowOk F = true) :
    (F.dropWhile isPySpace = [] ∧ peekImpl ps s p = .eos (F.takeWhile isPySpace)) ∨
    (∃ c r t, F.dropWhile isPySpace = c :: r ∧ peekImpl ps s p = .tok t ∧
      TokAt (F.takeWhile isPySpace) (p + (F.takeWhile isPySpace).length) c t) := by
  unfold absentFollowOk at hok
  simp only [Bool.and_eq_true, decide_eq_true_eq] at hok
  have hsplit := takeWhile_append_dropWhile isPySpace F
  have hw := isWs_takeWhile F
  have hh := head_dropWhile F
  generalize F.takeWhile isPySpace = w at *
  generalize hR : F.dropWhile isPySpace = R at *
  cases R with
  | nil =>
    refine Or.inl ⟨rfl, ?_⟩
    rw [List.append_nil] at hsplit
    exact peekImpl_ws_eos (by rw [hd, hsplit]) hw hok.1
  | cons c r =>
    refine Or.inr ⟨c, r, ?_⟩
    have hc : isPySpace c = false := by simpa [headIs] using hh
    have hd' : s.drop p = w ++ c :: r := by rw [hd, hsplit]
    rw [peekImpl_ws hd' hw hok.1 hc]
    obtain ⟨t, h1, h2⟩ := peekAtChar_class (w := w) hps (drop_add_of_drop hd') hok.2
    exact ⟨t, rfl, h1, h2⟩

/-- in particular no token error -/
theorem peek_follow_noerr (hps : PSStd keys ee m ex br ps) {p : Nat} {F : Str} (hd : s.drop p = F) (hok : absentFollowOk F = true)
    (w : TokErr) (ep : Nat) (t : Token) (r : Nat) : peekImpl ps s p ≠ .err w ep t r := by
  rcases peek_follow hps hd hok with ⟨_, h⟩ | ⟨_, _, _, _, h, _⟩ <;> (rw [h]; intro e; cases e)

end cls

end C02
end Pylx
