/-
  C01Tok — what the tokenizer guarantees about the *text* a token carries (`TokText`), and the
  packaged facts (`TokInfo`) the parser proofs of C01 use for every token read in strict mode.
-/
import PylxProofs.C01Lemmas
namespace Pylx

/-- the text carried by char / single-key specials / comment tokens is the source at the token's span -/
def TokText (s cs : Str) (t : Token) : Prop :=
  match t.kind with
  | .char => t.arg = slice s t.pos t.posEnd
  | .specials => t.arg = slice s t.pos t.posEnd ∨ t.arg.length = 2
  | .comment => cs ++ t.arg ++ t.post = slice s t.pos t.posEnd
  | _ => True

def TextRes (s cs : Str) : PeekRes → Prop
  | .tok t => TokText s cs t
  | _ => True

section readers
variable {ps : PState} {s : Str} {p0 p : Nat} {pre : Str} {c : Char}

theorem charToken_text (h : AtChar s p0 pre p c) : TextRes s ps.f.commentStart (charToken ps c p pre) := by
  unfold charToken
  split
  · trivial
  · simp only [TextRes, TokText]
    exact (slice_one s p c h.hc).symm

theorem peekSpecialsOrChar_text (h : AtChar s p0 pre p c) :
    TextRes s ps.f.commentStart (peekSpecialsOrChar ps s p c pre) := by
  unfold peekSpecialsOrChar
  split
  · rename_i k hk
    split at hk
    · obtain ⟨_, hsw⟩ := testSpecials_spec _ _ _ _ hk
      simp only [TextRes, TokText]
      left
      exact (startsWithAt_slice s k p hsw).symm
    · cases hk
  · exact charToken_text h

theorem peekGroups_text (h : AtChar s p0 pre p c) : TextRes s ps.f.commentStart (peekGroups ps s p c pre) := by
  unfold peekGroups
  split
  · split
    · simp only [TextRes, TokText]
    · split
      · simp only [TextRes, TokText]
      · exact peekSpecialsOrChar_text h
  · exact peekSpecialsOrChar_text h

theorem comment_join (s cs : Str) (p e : Nat) (hsl : slice s p (p + cs.length) = cs) (h : p + cs.length ≤ e) :
    cs ++ slice s (p + cs.length) e = slice s p e := by
  have := slice_slice_append s p (p + cs.length) e (by omega) h
  rw [hsl] at this
  exact this

theorem readComment_text (hcs : startsWithAt s ps.f.commentStart p = true) (hne : ps.f.commentStart ≠ []) :
    TextRes s ps.f.commentStart (readComment ps s p pre) := by
  have hl := startsWithAt_length s _ p hcs
  have hin : p + ps.f.commentStart.length ≤ s.length := by
    rcases hl with hl | hl
    · exact hl
    · exact absurd hl hne
  have hsl := startsWithAt_slice s _ p hcs
  unfold readComment
  dsimp only
  split
  · simp only [TextRes, TokText, List.append_nil]
    exact comment_join s _ p _ hsl hin
  · rename_i nl hnl
    obtain ⟨h1, h2⟩ := findCharFrom_spec _ _ _ _ hnl
    have hpp := postSpaceAt_prefix s nl
    simp only [TextRes, TokText]
    have h3 : slice s nl (nl + (postSpaceAt s nl).length) = postSpaceAt s nl := slice_of_prefix _ _ _ hpp
    rw [comment_join s _ p _ hsl h1]
    conv => lhs; rw [← h3]
    exact slice_slice_append s _ _ _ (by omega) (by omega)

theorem peekComment_text (h : AtChar s p0 pre p c) : TextRes s ps.f.commentStart (peekComment ps s p c pre) := by
  unfold peekComment
  split
  · rename_i hc
    simp only [Bool.and_eq_true, Bool.not_eq_eq_eq_not, Bool.not_true, List.isEmpty_eq_false_iff] at hc
    exact readComment_text hc.1.2 hc.2
  · exact peekGroups_text h

theorem readMacro_text : TextRes s ps.f.commentStart (readMacro ps s p pre) := by
  unfold readMacro
  split
  · trivial
  · split
    · simp only [TextRes, TokText]
    · simp only [TextRes, TokText]

theorem readEnvironment_text (b : Bool) : TextRes s ps.f.commentStart (readEnvironment ps s p b pre) := by
  unfold readEnvironment
  split
  · trivial
  · cases b <;> (simp [TextRes, TokText])

theorem peekEscape_text (h : AtChar s p0 pre p c) : TextRes s ps.f.commentStart (peekEscape ps s p c pre) := by
  unfold peekEscape
  split
  · split
    · exact readEnvironment_text _
    · split
      · exact readMacro_text
      · exact peekComment_text h
  · exact peekComment_text h

theorem mathTok_text (cs : Str) (d : Str) (disp : Bool) : TokText s cs (mathTok p pre d disp) := by
  cases disp <;> simp [TokText, mathTok]

theorem readMath_text (t : Token) (ht : readMath ps s p pre = some t) : TokText s ps.f.commentStart t := by
  have hg : ∀ t, readMathGeneral ps s p pre = some t → TokText s ps.f.commentStart t := by
    intro t ht
    unfold readMathGeneral at ht
    cases hf : ps.t.mathAll.find? (fun d => startsWithAt s d.1 p) with
    | none => rw [hf] at ht; cases ht
    | some d =>
      rw [hf] at ht
      simp only [Option.map_some, Option.some.injEq] at ht
      subst ht
      exact mathTok_text _ _ _
  unfold readMath at ht
  split at ht
  · split at ht
    · split at ht
      · cases ht; exact mathTok_text _ _ _
      · exact hg t ht
    · exact hg t ht
  · exact hg t ht

theorem peekAtChar_text (h : AtChar s p0 pre p c) : TextRes s ps.f.commentStart (peekAtChar ps s p c pre) := by
  unfold peekAtChar
  split
  · split
    · rename_i t ht
      exact readMath_text t ht
    · exact peekEscape_text h
  · exact peekEscape_text h

end readers

theorem peekPar_text (ps : PState) (s : Str) (p0 : Nat) (pre : Str) :
    TextRes s ps.f.commentStart (peekPar ps s p0 pre) := by
  unfold peekPar
  split
  · simp [TextRes, TokText]
  · simp [TextRes, TokText]

theorem peekImpl_text (ps : PState) (s : Str) (p0 : Nat) : TextRes s ps.f.commentStart (peekImpl ps s p0) := by
  unfold peekImpl
  simp only
  split
  · exact peekPar_text ps s p0 _
  · split
    · trivial
    · rename_i c hc
      exact peekAtChar_text ⟨rfl, rfl, hc⟩

/-! ### packaged token facts -/

/-- in strict mode `peek_token` is `impl_peek_token` -/
theorem peekTok_false (ps : PState) (s : Str) (p : Nat) : peekTok false ps s p = peekImpl ps s p := by
  unfold peekTok
  split
  · rename_i h; simp [h]
  · rfl

/-- the field facts every parsing state of a run shares -/
structure FOk (cs : Str) (f : PSFields) : Prop where
  cs_eq : f.commentStart = cs
  delims : DelimsOk f

/-- everything the parser proofs need about a token read with the reader at `p0` -/
structure TokInfo (s cs : Str) (p0 : Nat) (t : Token) : Prop where
  pos_eq : t.pos = p0 + t.pre.length
  pre_eq : t.pre = slice s p0 t.pos
  le : t.pos ≤ t.posEnd
  adv : p0 < t.posEnd
  in_range : t.posEnd ≤ s.length
  text : TokText s cs t

theorem mkPS_commentStart (f : PSFields) : (mkPS f).f.commentStart = f.commentStart := by
  unfold mkPS PState.fresh PSFields.normalize
  dsimp only
  split <;> rfl

theorem tokInfo_of_peek {s cs : Str} {f : PSFields} (hf : FOk cs f) {p : Nat} {t : Token}
    (h : peekTok false (mkPS f) s p = .tok t) : TokInfo s cs p t := by
  rw [peekTok_false] at h
  have hs := C11_span (mkPS f) (tablesOk_of_fields f hf.delims) s p t h
  have ht := peekImpl_text (mkPS f) s p
  rw [h, mkPS_commentStart, hf.cs_eq] at ht
  exact { pos_eq := hs.pos_eq, pre_eq := hs.pre_eq.symm, le := Nat.le_of_lt hs.nonempty,
          adv := by have := hs.pos_eq; have := hs.nonempty; omega,
          in_range := hs.in_range, text := ht }

/-- at the end of the stream the final space is all that is left -/
theorem eos_of_peek {s cs : Str} {f : PSFields} (hf : FOk cs f) {p : Nat} {fs : Str} (hp : p ≤ s.length)
    (h : peekTok false (mkPS f) s p = .eos fs) : fs = s.drop p := by
  rw [peekTok_false] at h
  have hr := peekImpl_ok (mkPS f) (tablesOk_of_fields f hf.delims) s p
  rw [h] at hr
  rcases hr with hr | hr
  · exact hr
  · omega

end Pylx
