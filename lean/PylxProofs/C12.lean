/-
  C12 — latex2text content filters: the property theorems (see C12Sim for the similarity relation and
  C12Vis for rendered positions).
-/
import PylxProofs.C12Sim
import PylxProofs.C12Vis
namespace Pylx.L2T.C12
open Pylx Pylx.L2T

/-! ### `math_mode='remove'`: formulas and equation environments -/

/-- a rewriting of a formula: display flag, delimiters, body -/
abbrev MathRw := Bool → Str → Str → Option (List Node) → Bool × Str × Str × Option (List Node)
/-- a rewriting of an equation environment (by name): arguments, body -/
abbrev EqEnvRw := Str → Option (List Arg) → Option (List Node) → Option (List Arg) × Option (List Node)

mutual
/-- rewrite every formula with `h` (display type, delimiters, body — arbitrary) and every environment whose text
    specification is the equation callable with `he` (arguments, body — arbitrary); elsewhere recurse -/
def mapMathNode (E : Env) (h : MathRw) (he : EqEnvRw) : Node → Node
  | .chars p e ps ch => .chars p e ps ch
  | .comment p e ps cm post => .comment p e ps cm post
  | .group p e ps o cl b => .group p e ps o cl (mapMathBody E h he b)
  | .mac p e ps name post a => .mac p e ps name post (mapMathArgsO E h he a)
  | .env p e ps name a b =>
    if (envSpec E name).repl = .eqEnv then .env p e ps name (he name a b).1 (he name a b).2
    else .env p e ps name (mapMathArgsO E h he a) (mapMathBody E h he b)
  | .specials p e ps ch a => .specials p e ps ch (mapMathArgsO E h he a)
  | .math p e ps d o cl b => .math p e ps (h d o cl b).1 (h d o cl b).2.1 (h d o cl b).2.2.1 (h d o cl b).2.2.2
def mapMathBody (E : Env) (h : MathRw) (he : EqEnvRw) : Option (List Node) → Option (List Node)
  | none => none
  | some ns => some (mapMath E h he ns)
def mapMath (E : Env) (h : MathRw) (he : EqEnvRw) : List Node → List Node
  | [] => []
  | n :: ns => mapMathNode E h he n :: mapMath E h he ns
def mapMathArgsO (E : Env) (h : MathRw) (he : EqEnvRw) : Option (List Arg) → Option (List Arg)
  | none => none
  | some l => some (mapMathArgs E h he l)
def mapMathArgs (E : Env) (h : MathRw) (he : EqEnvRw) : List Arg → List Arg
  | [] => []
  | a :: l => mapMathArg E h he a :: mapMathArgs E h he l
def mapMathArg (E : Env) (h : MathRw) (he : EqEnvRw) : Arg → Arg
  | .absent => .absent
  | .node n => .node (mapMathNode E h he n)
  | .list p e ns => .list p e (mapMath E h he ns)
end

mutual
theorem sim_mapMathNode (E : Env) (hm : E.opts.mathMode = .remove) (h : MathRw) (he : EqEnvRw) :
    ∀ n : Node, NodeSim E n (mapMathNode E h he n)
  | .chars .. => by simp only [mapMathNode, NodeSim]
  | .comment p e ps cm post => by
    simp only [mapMathNode, NodeSim]; exact ⟨_, rfl, Or.inr rfl⟩
  | .group p e ps o cl b => by
    simp only [mapMathNode, NodeSim]; exact ⟨_, rfl, sim_mapMathBody E hm h he b⟩
  | .mac p e ps name post a => by
    simp only [mapMathNode, NodeSim]; exact ⟨_, rfl, Or.inl (sim_mapMathArgsO E hm h he a)⟩
  | .env p e ps name a b => by
    simp only [mapMathNode]
    split
    · simp only [NodeSim]; exact ⟨_, _, rfl, Or.inr (Or.inr ⟨hm, ‹_›⟩)⟩
    · simp only [NodeSim]
      exact ⟨_, _, rfl, Or.inl ⟨sim_mapMathArgsO E hm h he a, sim_mapMathBody E hm h he b⟩⟩
  | .specials p e ps ch a => by
    simp only [mapMathNode, NodeSim]; exact ⟨_, rfl, Or.inl (sim_mapMathArgsO E hm h he a)⟩
  | .math p e ps d o cl b => by
    simp only [mapMathNode, NodeSim]; exact Or.inr ⟨hm, _, _, _, _, _, _, _, rfl⟩
theorem sim_mapMathBody (E : Env) (hm : E.opts.mathMode = .remove) (h : MathRw) (he : EqEnvRw) :
    ∀ b : Option (List Node), BodySim E b (mapMathBody E h he b)
  | none => by simp only [mapMathBody, BodySim]
  | some ns => by simp only [mapMathBody, BodySim]; exact ⟨_, rfl, sim_mapMath E hm h he ns⟩
theorem sim_mapMath (E : Env) (hm : E.opts.mathMode = .remove) (h : MathRw) (he : EqEnvRw) :
    ∀ ns : List Node, ListSim E ns (mapMath E h he ns)
  | [] => by simp only [mapMath, ListSim]
  | n :: ns => by
    simp only [mapMath, ListSim]; exact ⟨_, _, rfl, sim_mapMathNode E hm h he n, sim_mapMath E hm h he ns⟩
theorem sim_mapMathArgsO (E : Env) (hm : E.opts.mathMode = .remove) (h : MathRw) (he : EqEnvRw) :
    ∀ a : Option (List Arg), ArgsOSim E a (mapMathArgsO E h he a)
  | none => by simp only [mapMathArgsO, ArgsOSim]
  | some l => by simp only [mapMathArgsO, ArgsOSim]; exact ⟨_, rfl, sim_mapMathArgs E hm h he l⟩
theorem sim_mapMathArgs (E : Env) (hm : E.opts.mathMode = .remove) (h : MathRw) (he : EqEnvRw) :
    ∀ l : List Arg, ArgsSim E l (mapMathArgs E h he l)
  | [] => by simp only [mapMathArgs, ArgsSim]
  | a :: l => by
    simp only [mapMathArgs, ArgsSim]; exact ⟨_, _, rfl, sim_mapMathArg E hm h he a, sim_mapMathArgs E hm h he l⟩
theorem sim_mapMathArg (E : Env) (hm : E.opts.mathMode = .remove) (h : MathRw) (he : EqEnvRw) :
    ∀ a : Arg, ArgSim E a (mapMathArg E h he a)
  | .absent => by simp only [mapMathArg, ArgSim]
  | .node n => by simp only [mapMathArg, ArgSim]; exact ⟨_, rfl, sim_mapMathNode E hm h he n⟩
  | .list p e ns => by simp only [mapMathArg, ArgSim]; exact ⟨_, rfl, sim_mapMath E hm h he ns⟩
end

/-- **C12 (`math_mode='remove'`).**  The output does not depend on any formula (body, delimiters, display type) nor
    on the arguments / body of any environment rendered by the equation callable (`equation`, `align`, …): for every
    rewriting of those, every other option, both databases, every library oracle, source and forest. -/
theorem C12_remove (opts : Opts) (db : TextDb) (ctx : Ctx) (lib : Lib) (src : Str) (hm : opts.mathMode = .remove)
    (h : MathRw) (he : EqEnvRw) (ns : List Node) :
    render opts db ctx lib src (mapMath { opts := opts, db := db, ctx := ctx, lib := lib, src := src } h he ns) =
      render opts db ctx lib src ns :=
  (C12_noninterference opts db ctx lib src ns _ (sim_mapMath _ hm h he ns)).symm

/-- under `math_mode='remove'` a formula node emits the empty string -/
theorem C12_remove_node (E : Env) (hm : E.opts.mathMode = .remove) (c : Sls) (p e : Nat) (ps : PSInfo) (d : Bool)
    (o cl : Str) (b : Option (List Node)) : renderNode E c (.math p e ps d o cl b) = R.pure [] := by
  simp only [renderNode_math, mathText, hm]

/-- under `math_mode='remove'` an equation environment emits the empty string -/
theorem C12_remove_env (E : Env) (hm : E.opts.mathMode = .remove) (c : Sls) (p e : Nat) (ps : PSInfo) (name : Str)
    (a : Option (List Arg)) (b : Option (List Node)) (hr : (envSpec E name).repl = .eqEnv) :
    renderNode E c (.env p e ps name a b) = R.pure [] := by
  rw [renderNode_env, applySpec_eqEnv_remove hm hr]

/-! ### discarded constructs -/

instance (E : Env) (sp : TSpec) : Decidable (Discarded E sp) := by unfold Discarded; infer_instance

/-- rewrite an argument slot, keeping absent slots absent -/
def reArg (f : Node → Node) : Arg → Arg
  | .absent => .absent
  | .node n => .node (f n)
  | .list p e ns => .list p e (ns.map f)

def reArgsO (f : Node → Node) (a : Option (List Arg)) : Option (List Arg) := a.map (·.map (reArg f))

theorem reArgsO_shape (f : Node → Node) (a : Option (List Arg)) : ArgsOShape a (reArgsO f a) := by
  cases a with
  | none => exact ⟨rfl, rfl⟩
  | some l =>
    refine ⟨rfl, ?_⟩
    simp only [reArgsO, Option.map_some, Option.getD_some, List.map_map]
    apply List.map_congr_left
    intro a _
    cases a <;> rfl

def specialsDiscarded (E : Env) (ch : Str) : Bool :=
  match lookupFirst ch E.db.specials with
  | some sp => decide (Discarded E sp)
  | none => false

mutual
/-- rewrite the arguments (every node in them by `f`) and the body (by `fb`) of every discarded macro, environment
    and specials; elsewhere recurse -/
def mapDiscNode (E : Env) (f : Node → Node) (fb : Option (List Node) → Option (List Node)) : Node → Node
  | .chars p e ps ch => .chars p e ps ch
  | .comment p e ps cm post => .comment p e ps cm post
  | .group p e ps o cl b => .group p e ps o cl (mapDiscBody E f fb b)
  | .mac p e ps name post a =>
    if Discarded E (macSpec E name) then .mac p e ps name post (reArgsO f a)
    else .mac p e ps name post (mapDiscArgsO E f fb a)
  | .env p e ps name a b =>
    if Discarded E (envSpec E name) then .env p e ps name (reArgsO f a) (fb b)
    else .env p e ps name (mapDiscArgsO E f fb a) (mapDiscBody E f fb b)
  | .specials p e ps ch a =>
    if specialsDiscarded E ch then
      .specials p e ps ch (reArgsO f a)
    else .specials p e ps ch (mapDiscArgsO E f fb a)
  | .math p e ps d o cl b => .math p e ps d o cl (mapDiscBody E f fb b)
def mapDiscBody (E : Env) (f : Node → Node) (fb : Option (List Node) → Option (List Node)) : Option (List Node) → Option (List Node)
  | none => none
  | some ns => some (mapDisc E f fb ns)
def mapDisc (E : Env) (f : Node → Node) (fb : Option (List Node) → Option (List Node)) : List Node → List Node
  | [] => []
  | n :: ns => mapDiscNode E f fb n :: mapDisc E f fb ns
def mapDiscArgsO (E : Env) (f : Node → Node) (fb : Option (List Node) → Option (List Node)) : Option (List Arg) → Option (List Arg)
  | none => none
  | some l => some (mapDiscArgs E f fb l)
def mapDiscArgs (E : Env) (f : Node → Node) (fb : Option (List Node) → Option (List Node)) : List Arg → List Arg
  | [] => []
  | a :: l => mapDiscArg E f fb a :: mapDiscArgs E f fb l
def mapDiscArg (E : Env) (f : Node → Node) (fb : Option (List Node) → Option (List Node)) : Arg → Arg
  | .absent => .absent
  | .node n => .node (mapDiscNode E f fb n)
  | .list p e ns => .list p e (mapDisc E f fb ns)
end

mutual
theorem sim_mapDiscNode (E : Env) (f : Node → Node) (fb : Option (List Node) → Option (List Node)) :
    ∀ n : Node, NodeSim E n (mapDiscNode E f fb n)
  | .chars .. => by simp only [mapDiscNode, NodeSim]
  | .comment p e ps cm post => by
    simp only [mapDiscNode, NodeSim]; exact ⟨_, rfl, Or.inr rfl⟩
  | .group p e ps o cl b => by
    simp only [mapDiscNode, NodeSim]; exact ⟨_, rfl, sim_mapDiscBody E f fb b⟩
  | .mac p e ps name post a => by
    simp only [mapDiscNode]
    split
    · simp only [NodeSim]; exact ⟨_, rfl, Or.inr ⟨‹_›, reArgsO_shape f a⟩⟩
    · simp only [NodeSim]; exact ⟨_, rfl, Or.inl (sim_mapDiscArgsO E f fb a)⟩
  | .env p e ps name a b => by
    simp only [mapDiscNode]
    split
    · simp only [NodeSim]; exact ⟨_, _, rfl, Or.inr (Or.inl ‹_›)⟩
    · simp only [NodeSim]
      exact ⟨_, _, rfl, Or.inl ⟨sim_mapDiscArgsO E f fb a, sim_mapDiscBody E f fb b⟩⟩
  | .specials p e ps ch a => by
    simp only [mapDiscNode]
    split
    · rename_i hc
      simp only [NodeSim]
      refine ⟨_, rfl, Or.inr ?_⟩
      unfold specialsDiscarded at hc
      cases hl : lookupFirst ch E.db.specials with
      | none => rw [hl] at hc; cases hc
      | some sp =>
        rw [hl] at hc
        exact ⟨sp, rfl, of_decide_eq_true hc⟩
    · simp only [NodeSim]; exact ⟨_, rfl, Or.inl (sim_mapDiscArgsO E f fb a)⟩
  | .math p e ps d o cl b => by
    simp only [mapDiscNode, NodeSim]; exact Or.inl ⟨_, rfl, sim_mapDiscBody E f fb b⟩
theorem sim_mapDiscBody (E : Env) (f : Node → Node) (fb : Option (List Node) → Option (List Node)) :
    ∀ b : Option (List Node), BodySim E b (mapDiscBody E f fb b)
  | none => by simp only [mapDiscBody, BodySim]
  | some ns => by simp only [mapDiscBody, BodySim]; exact ⟨_, rfl, sim_mapDisc E f fb ns⟩
theorem sim_mapDisc (E : Env) (f : Node → Node) (fb : Option (List Node) → Option (List Node)) :
    ∀ ns : List Node, ListSim E ns (mapDisc E f fb ns)
  | [] => by simp only [mapDisc, ListSim]
  | n :: ns => by
    simp only [mapDisc, ListSim]; exact ⟨_, _, rfl, sim_mapDiscNode E f fb n, sim_mapDisc E f fb ns⟩
theorem sim_mapDiscArgsO (E : Env) (f : Node → Node) (fb : Option (List Node) → Option (List Node)) :
    ∀ a : Option (List Arg), ArgsOSim E a (mapDiscArgsO E f fb a)
  | none => by simp only [mapDiscArgsO, ArgsOSim]
  | some l => by simp only [mapDiscArgsO, ArgsOSim]; exact ⟨_, rfl, sim_mapDiscArgs E f fb l⟩
theorem sim_mapDiscArgs (E : Env) (f : Node → Node) (fb : Option (List Node) → Option (List Node)) :
    ∀ l : List Arg, ArgsSim E l (mapDiscArgs E f fb l)
  | [] => by simp only [mapDiscArgs, ArgsSim]
  | a :: l => by
    simp only [mapDiscArgs, ArgsSim]; exact ⟨_, _, rfl, sim_mapDiscArg E f fb a, sim_mapDiscArgs E f fb l⟩
theorem sim_mapDiscArg (E : Env) (f : Node → Node) (fb : Option (List Node) → Option (List Node)) :
    ∀ a : Arg, ArgSim E a (mapDiscArg E f fb a)
  | .absent => by simp only [mapDiscArg, ArgSim]
  | .node n => by simp only [mapDiscArg, ArgSim]; exact ⟨_, rfl, sim_mapDiscNode E f fb n⟩
  | .list p e ns => by simp only [mapDiscArg, ArgSim]; exact ⟨_, rfl, sim_mapDisc E f fb ns⟩
end

/-- **C12 (discarded constructs).**  The output does not depend on what is written in the arguments of a macro /
    environment / specials whose text specification has no replacement and `discard = True`, nor on the body of such
    an environment (the rewriting keeps the pattern of absent optional arguments, which decides whether the macro
    counts as "bare" for the space after it): every option set, both databases, every oracle, source and forest. -/
theorem C12_discard (opts : Opts) (db : TextDb) (ctx : Ctx) (lib : Lib) (src : Str)
    (f : Node → Node) (fb : Option (List Node) → Option (List Node)) (ns : List Node) :
    render opts db ctx lib src (mapDisc { opts := opts, db := db, ctx := ctx, lib := lib, src := src } f fb ns) =
      render opts db ctx lib src ns :=
  (C12_noninterference opts db ctx lib src ns _ (sim_mapDisc _ f fb ns)).symm

/-- a discarded macro emits the empty string -/
theorem C12_discard_mac (E : Env) (c : Sls) (p e : Nat) (ps : PSInfo) (name post : Str) (a : Option (List Arg))
    (h : Discarded E (macSpec E name)) : renderNode E c (.mac p e ps name post a) = R.pure [] := by
  rw [renderNode_mac, applySpec_discarded h]

/-- a discarded environment emits the empty string -/
theorem C12_discard_env (E : Env) (c : Sls) (p e : Nat) (ps : PSInfo) (name : Str) (a : Option (List Arg))
    (b : Option (List Node)) (h : Discarded E (envSpec E name)) : renderNode E c (.env p e ps name a b) = R.pure [] := by
  rw [renderNode_env, applySpec_discarded h]

/-- a discarded specials emits the empty string -/
theorem C12_discard_specials (E : Env) (c : Sls) (p e : Nat) (ps : PSInfo) (ch : Str) (a : Option (List Arg)) (sp : TSpec)
    (hl : lookupFirst ch E.db.specials = some sp) (h : Discarded E sp) :
    renderNode E c (.specials p e ps ch a) = R.pure [] := by
  rw [renderNode_specials]
  simp only [hl]
  rw [applySpec_discarded h]

/-! ### words that survive `strip` and block indentation -/

/-- non-empty, first and last character not Python whitespace -/
def Solid (w : Str) : Prop :=
  (∃ c r, w = c :: r ∧ isPySpace c = false) ∧ (∃ c r, w.reverse = c :: r ∧ isPySpace c = false)

theorem infix_dropWhile {w : Str} {c0 : Char} {r0 : Str} (hw : w = c0 :: r0) (hc : isPySpace c0 = false) :
    ∀ x : Str, w <:+: x → w <:+: x.dropWhile isPySpace
  | [], h => by
    subst hw
    have := List.infix_nil.1 h
    cases this
  | c :: r, h => by
    by_cases hs : isPySpace c = true
    · rw [List.dropWhile_cons_of_pos hs]
      rcases List.infix_cons_iff.1 h with hp | hi
      · subst hw
        obtain ⟨t, ht⟩ := hp
        simp only [List.cons_append, List.cons.injEq] at ht
        rw [ht.1, hs] at hc; cases hc
      · exact infix_dropWhile hw hc r hi
    · rw [List.dropWhile_cons_of_neg hs]; exact h

theorem infix_strip {w : Str} (hw : Solid w) (x : Str) (h : w <:+: x) : w <:+: strip x := by
  obtain ⟨⟨c0, r0, h0, hc0⟩, ⟨c1, r1, h1, hc1⟩⟩ := hw
  have a := infix_dropWhile h0 hc0 x h
  have b := infix_dropWhile h1 hc1 _ (List.reverse_infix.2 a)
  have := List.reverse_infix.2 b
  rw [List.reverse_reverse] at this
  exact this

theorem indentLines_append (ind : Str) : ∀ a b : Str, indentLines ind (a ++ b) = indentLines ind a ++ indentLines ind b
  | [], b => rfl
  | c :: a, b => by
    simp only [List.cons_append, indentLines]
    split
    · simp only [indentLines_append ind a b, List.append_assoc, List.cons_append]
    · simp only [indentLines_append ind a b, List.cons_append]

theorem indentLines_noNl (ind : Str) : ∀ w : Str, '\n' ∉ w → indentLines ind w = w
  | [], _ => rfl
  | c :: w, h => by
    have hc : (c == '\n') = false := by
      have : c ≠ '\n' := fun hc => h (by rw [hc]; exact List.mem_cons_self)
      simpa using this
    simp only [indentLines, hc, Bool.false_eq_true, if_false]
    rw [indentLines_noNl ind w (fun hm => h (List.mem_cons_of_mem _ hm))]

theorem infix_indentLines {w : Str} (hw : '\n' ∉ w) (ind x : Str) (h : w <:+: x) : w <:+: indentLines ind x := by
  obtain ⟨a, b, rfl⟩ := h
  rw [indentLines_append, indentLines_append, indentLines_noNl ind w hw]
  exact infix_mid _ _ _

theorem up_infix (w : Str) : Up (w <:+: ·) := fun _ _ hxy hw => List.IsInfix.trans hw hxy

/-- `s.rstrip()` -/
def rstrip (s : Str) : Str := (s.reverse.dropWhile isPySpace).reverse

theorem rstrip_prefix (s : Str) : rstrip s <+: s := by
  have h := List.takeWhile_append_dropWhile (p := isPySpace) (l := s.reverse)
  have h2 := congrArg List.reverse h
  rw [List.reverse_append, List.reverse_reverse] at h2
  exact ⟨_, h2⟩

theorem dropWhile_head {p : Char → Bool} : ∀ {l : Str} {c : Char} {r : Str}, l.dropWhile p = c :: r → p c = false
  | [], _, _, h => by cases h
  | a :: l, c, r, h => by
    by_cases ha : p a = true
    · rw [List.dropWhile_cons_of_pos ha] at h; exact dropWhile_head h
    · rw [List.dropWhile_cons_of_neg ha] at h
      cases h
      simpa using ha

theorem solid_percent (cm : Str) : Solid ('%' :: rstrip cm) := by
  refine ⟨⟨'%', _, rfl, by decide⟩, ?_⟩
  simp only [List.reverse_cons, rstrip, List.reverse_reverse]
  cases hd : cm.reverse.dropWhile isPySpace with
  | nil => exact ⟨'%', [], rfl, by decide⟩
  | cons c r => exact ⟨c, r ++ ['%'], rfl, dropWhile_head hd⟩

/-! ### `keep_comments=True` -/

theorem renderNode_comment_kept (E : Env) (hk : E.opts.keepComments = true) (c : Sls) (p e : Nat) (ps : PSInfo) (cm post : Str) :
    Emits ('%' :: rstrip cm <:+: ·) (renderNode E c (.comment p e ps cm post)) := by
  rw [renderNode_comment]
  apply emits_pure
  obtain ⟨r, hr⟩ := rstrip_prefix cm
  simp only [hk, if_true]
  split
  · refine ⟨[], r ++ (if post.isEmpty then [] else ['\n']), ?_⟩
    simp only [List.nil_append, List.cons_append, ← List.append_assoc, hr]
  · refine ⟨[], r ++ post, ?_⟩
    simp only [List.nil_append, List.cons_append, ← List.append_assoc, hr]

/-- **C12 (comments kept).**  With `keep_comments=True` every comment node in rendered position appears in the output
    as `%` followed by its text, up to trailing whitespace of the text (`strip()` of a formula's text removes it when
    the comment ends the formula).  Every option set, both databases, every oracle, source and forest; the comment
    text must not contain a newline when `math_mode='text'` (a display block re-indents its lines; the tokenizer never
    puts a newline into a comment's text). -/
theorem C12_comments_kept (opts : Opts) (db : TextDb) (ctx : Ctx) (lib : Lib) (src : Str) (hk : opts.keepComments = true)
    (ns : List Node) (p e : Nat) (ps : PSInfo) (cm post : Str)
    (hnl : opts.mathMode = .text → '\n' ∉ cm)
    (h : InList { opts := opts, db := db, ctx := ctx, lib := lib, src := src } (.comment p e ps cm post) ns)
    (out : Str) (hr : render opts db ctx lib src ns = .ok out) : '%' :: rstrip cm <:+: out := by
  refine vis_render opts db ctx lib src _ ('%' :: rstrip cm <:+: ·) ?_ ns h out hr
  refine ⟨up_infix _, fun _ => infix_strip (solid_percent cm), fun hm => ?_, fun c => renderNode_comment_kept _ hk c p e ps cm post⟩
  intro x hx
  refine infix_indentLines ?_ _ x hx
  intro hmem
  rcases List.mem_cons.1 hmem with h1 | h1
  · cases h1
  · exact hnl hm ((rstrip_prefix cm).subset h1)

/-- the comment text itself appears when it has no trailing whitespace -/
theorem C12_comments_kept_exact (opts : Opts) (db : TextDb) (ctx : Ctx) (lib : Lib) (src : Str) (hk : opts.keepComments = true)
    (ns : List Node) (p e : Nat) (ps : PSInfo) (cm post : Str) (hnl : opts.mathMode = .text → '\n' ∉ cm)
    (hts : rstrip cm = cm)
    (h : InList { opts := opts, db := db, ctx := ctx, lib := lib, src := src } (.comment p e ps cm post) ns)
    (out : Str) (hr : render opts db ctx lib src ns = .ok out) : '%' :: cm <:+: out := by
  have := C12_comments_kept opts db ctx lib src hk ns p e ps cm post hnl h out hr
  rwa [hts] at this

/-- the statement without the `rstrip` -/
def C12_comments_kept_full : Prop :=
  ∀ (opts : Opts) (db : TextDb) (ctx : Ctx) (lib : Lib) (src : Str), opts.keepComments = true →
    ∀ (ns : List Node) (p e : Nat) (ps : PSInfo) (cm post : Str),
      InList { opts := opts, db := db, ctx := ctx, lib := lib, src := src } (.comment p e ps cm post) ns →
      ∀ out, render opts db ctx lib src ns = .ok out → '%' :: cm <:+: out

/-! ### `math_mode='verbatim'` -/

theorem not_mathShown_verbatim {E : Env} (hm : E.opts.mathMode = .verbatim) : ¬ MathShown E := by
  rintro (h | h) <;> rw [hm] at h <;> cases h

/-- **C12 (`math_mode='verbatim'`).**  For every formula node in rendered position the slice `src[pos:posEnd]` of the
    source appears unchanged in the output (inline: as it is; display: as the block `"\n" + slice + "\n"`). -/
theorem C12_verbatim (opts : Opts) (db : TextDb) (ctx : Ctx) (lib : Lib) (src : Str) (hm : opts.mathMode = .verbatim)
    (ns : List Node) (p e : Nat) (ps : PSInfo) (d : Bool) (o cl : Str) (b : Option (List Node))
    (h : InList { opts := opts, db := db, ctx := ctx, lib := lib, src := src } (.math p e ps d o cl b) ns)
    (out : Str) (hr : render opts db ctx lib src ns = .ok out) :
    (if d then '\n' :: (slice src p e ++ ['\n']) else slice src p e) <:+: out := by
  refine vis_render opts db ctx lib src _ (_ <:+: ·) ?_ ns h out hr
  refine ⟨up_infix _, fun hs => absurd hs (not_mathShown_verbatim hm), fun ht => ?_, fun c => ?_⟩
  · rw [hm] at ht; cases ht
  · rw [renderNode_math]
    simp only [mathText, hm, Bool.false_or]
    apply emits_pure
    cases d
    · exact List.infix_refl _
    · simp only [if_true, indentedBlock_nil]; exact List.infix_refl _

/-- in particular the source slice itself appears -/
theorem C12_verbatim_slice (opts : Opts) (db : TextDb) (ctx : Ctx) (lib : Lib) (src : Str) (hm : opts.mathMode = .verbatim)
    (ns : List Node) (p e : Nat) (ps : PSInfo) (d : Bool) (o cl : Str) (b : Option (List Node))
    (h : InList { opts := opts, db := db, ctx := ctx, lib := lib, src := src } (.math p e ps d o cl b) ns)
    (out : Str) (hr : render opts db ctx lib src ns = .ok out) : slice src p e <:+: out := by
  have := C12_verbatim opts db ctx lib src hm ns p e ps d o cl b h out hr
  cases d
  · exact this
  · exact (List.IsInfix.trans (infix_mid ['\n'] _ ['\n']) (by simpa using this))

/-- the same for an environment rendered by the equation callable (`equation`, `align`, …): always a block -/
theorem C12_verbatim_env (opts : Opts) (db : TextDb) (ctx : Ctx) (lib : Lib) (src : Str) (hm : opts.mathMode = .verbatim)
    (ns : List Node) (p e : Nat) (ps : PSInfo) (name : Str) (a : Option (List Arg)) (b : Option (List Node))
    (hq : (envSpec { opts := opts, db := db, ctx := ctx, lib := lib, src := src } name).repl = .eqEnv)
    (h : InList { opts := opts, db := db, ctx := ctx, lib := lib, src := src } (.env p e ps name a b) ns)
    (out : Str) (hr : render opts db ctx lib src ns = .ok out) :
    '\n' :: (slice src p e ++ ['\n']) <:+: out := by
  refine vis_render opts db ctx lib src _ (_ <:+: ·) ?_ ns h out hr
  refine ⟨up_infix _, fun hs => absurd hs (not_mathShown_verbatim hm), fun ht => ?_, fun c => ?_⟩
  · rw [hm] at ht; cases ht
  · rw [renderNode_env]
    unfold applySpec
    simp only [hq, replTruthy, if_true, applyCallable, mathText, hm]
    apply emits_pure
    simp only [Bool.true_or, if_true, indentedBlock_nil]; exact List.infix_refl _

/-! ### `math_mode='with-delimiters'` -/

/-- **C12 (`with-delimiters`), node form.**  What a formula node emits is its opening delimiter, the stripped text of
    its body (rendered in equation context; for a display formula as the block `"\n" + text + "\n"`), its closing
    delimiter. -/
theorem C12_with_delims (E : Env) (hm : E.opts.mathMode = .withDelims) (c : Sls) (p e : Nat) (ps : PSInfo) (d : Bool)
    (o cl : Str) (b : Option (List Node)) (st : St) (out : Str) (st' : St)
    (hr : renderNode E c (.math p e ps d o cl b) st = .ok (out, st')) :
    ∃ t, renderBody E c.enterEq b st = .ok (t, st') ∧
      out = o ++ (if d then '\n' :: (strip t ++ ['\n']) else strip t) ++ cl := by
  rw [renderNode_math] at hr
  simp only [mathText, hm, Bool.false_or] at hr
  obtain ⟨t, st1, h1, hr⟩ := bind_ok hr
  have := pure_ok hr
  cases this
  refine ⟨t, h1, ?_⟩
  cases d
  · simp
  · simp [indentedBlock_nil]

/-- **C12 (`with-delimiters`), document form.**  Every formula node in rendered position whose delimiters do not begin
    / end with whitespace keeps them in the output: `dopen ++ content ++ dclose` (display: `content` is a block) is an
    infix of the output, for some `content`. -/
theorem C12_with_delims_kept (opts : Opts) (db : TextDb) (ctx : Ctx) (lib : Lib) (src : Str) (hm : opts.mathMode = .withDelims)
    (ns : List Node) (p e : Nat) (ps : PSInfo) (d : Bool) (o cl : Str) (b : Option (List Node))
    (ho : ∃ c r, o = c :: r ∧ isPySpace c = false) (hcl : ∃ c r, cl.reverse = c :: r ∧ isPySpace c = false)
    (h : InList { opts := opts, db := db, ctx := ctx, lib := lib, src := src } (.math p e ps d o cl b) ns)
    (out : Str) (hr : render opts db ctx lib src ns = .ok out) :
    ∃ content, o ++ (if d then '\n' :: (content ++ ['\n']) else content) ++ cl <:+: out := by
  refine vis_render opts db ctx lib src _ (fun out => ∃ content, o ++ (if d then '\n' :: (content ++ ['\n']) else content) ++ cl <:+: out)
    ?_ ns h out hr
  refine ⟨?_, fun _ => ?_, fun ht => ?_, fun c => ?_⟩
  · rintro x y hxy ⟨ct, hct⟩
    exact ⟨ct, hct.trans hxy⟩
  · rintro x ⟨ct, hct⟩
    refine ⟨ct, infix_strip ?_ x hct⟩
    obtain ⟨c0, r0, h0, hc0⟩ := ho
    obtain ⟨c1, r1, h1, hc1⟩ := hcl
    refine ⟨⟨c0, r0 ++ (if d then '\n' :: (ct ++ ['\n']) else ct) ++ cl, by rw [h0]; simp, hc0⟩,
      ⟨c1, r1 ++ (o ++ (if d then '\n' :: (ct ++ ['\n']) else ct)).reverse, ?_, hc1⟩⟩
    rw [List.reverse_append, h1]; rfl
  · rw [hm] at ht; cases ht
  · intro st out st' hr
    obtain ⟨t, _, rfl⟩ := C12_with_delims _ hm c p e ps d o cl b st out st' hr
    exact ⟨strip t, List.infix_refl _⟩


/-! ### witnesses and non-vacuity -/

def lib0 : Lib := { nfc2 := fun c d => [c, d], upper := fun c => [c], today := ['J'] }

/-- the result is `ok t` -/
def isOkText (o : Out Str) (t : Str) : Bool :=
  match o with
  | .ok a => a == t
  | .crash _ => false

theorem ok_of_isOkText {o : Out Str} {t : Str} (h : isOkText o t = true) : o = .ok t := by
  cases o with
  | ok a =>
    simp only [isOkText, beq_iff_eq] at h
    rw [h]
  | crash k => cases h

/-- a small text database: `\emph` transparent, `\frac` = `'%s/%s'`, `\label` and `comment` discarded, `equation` -/
def db0 : TextDb :=
  { macros := [(['e', 'm', 'p', 'h'], ⟨true, false, .none⟩), (['f', 'r', 'a', 'c'], ⟨true, true, .fmt ['%', 's', '/', '%', 's'] [.pos, .lit ['/'], .pos]⟩),
               (['l', 'a', 'b', 'e', 'l'], ⟨true, true, .none⟩)],
    envs := [(['e', 'q', 'u', 'a', 't', 'i', 'o', 'n'], ⟨true, false, .eqEnv⟩), (['c', 'o', 'm', 'm', 'e', 'n', 't'], ⟨true, true, .none⟩)] }

def ctx0 : Ctx := { macros := [(['e', 'm', 'p', 'h'], .std [⟨.m, .none⟩]), (['f', 'r', 'a', 'c'], .std [⟨.m, .none⟩, ⟨.m, .none⟩]),
                               (['l', 'a', 'b', 'e', 'l'], .std [⟨.m, .none⟩])] }

def cmt0 : Node := .comment 7 11 {} ['Q', 'C', ' '] ['\n']
def frm0 : Node := .math 11 16 {} false ['$'] ['$'] (some [.chars 12 15 {} ['a', '+', 'b'], cmt0])
def dfrm0 : Node := .math 16 21 {} true ['\\', '['] ['\\', ']'] (some [.chars 18 19 {} ['u']])
/-- `\emph{x%QC ⏎$a+b…$\[u\]}\frac{p}{%QC ⏎}\label{k}\begin{comment}z\end{comment}` (positions schematic) -/
def forest0 : List Node :=
  [.mac 0 22 {} ['e', 'm', 'p', 'h'] [] (some [.node (.group 5 22 {} ['{'] ['}'] (some [.chars 6 7 {} ['x'], cmt0, frm0, dfrm0]))]),
   .mac 22 40 {} ['f', 'r', 'a', 'c'] [] (some [.node (.group 27 30 {} ['{'] ['}'] (some [.chars 28 29 {} ['p']])),
                                        .node (.group 30 40 {} ['{'] ['}'] (some [cmt0]))]),
   .mac 40 48 {} ['l', 'a', 'b', 'e', 'l'] [] (some [.node (.group 46 48 {} ['{'] ['}'] (some [.chars 47 48 {} ['k']]))]),
   .env 48 80 {} ['c', 'o', 'm', 'm', 'e', 'n', 't'] (some []) (some [.chars 63 64 {} ['z']])]

def src0 : Str := ['0', '1', '2', '3', '4', '5', '6', '7', '8', '9', ' ', '$', 'a', '+', 'b', '$', '\\', '[', 'u', '\\', ']']

def E0 (opts : Opts) : Env := { opts := opts, db := db0, ctx := ctx0, lib := lib0, src := src0 }

theorem cmt0_in_forest0 (opts : Opts) : InList (E0 opts) cmt0 forest0 := by
  refine Or.inl (Or.inr (Or.inl ⟨Or.inl ⟨rfl, rfl, rfl⟩, ?_⟩))
  show InBody _ _ _ ∨ _
  exact Or.inl (Or.inr (Or.inl rfl))

theorem cmt0_in_frac (opts : Opts) : InList (E0 opts) cmt0 forest0 := by
  refine Or.inr (Or.inl (Or.inr (Or.inl ⟨Or.inr ⟨_, _, rfl, rfl, rfl⟩, ?_⟩)))
  show _ ∨ (InBody _ _ _ ∨ _)
  exact Or.inr (Or.inl (Or.inl rfl))

theorem frm0_in_forest0 (opts : Opts) : InList (E0 opts) frm0 forest0 := by
  refine Or.inl (Or.inr (Or.inl ⟨Or.inl ⟨rfl, rfl, rfl⟩, ?_⟩))
  show InBody _ _ _ ∨ _
  exact Or.inl (Or.inr (Or.inr (Or.inl (Or.inl rfl))))

theorem dfrm0_in_forest0 (opts : Opts) : InList (E0 opts) dfrm0 forest0 := by
  refine Or.inl (Or.inr (Or.inl ⟨Or.inl ⟨rfl, rfl, rfl⟩, ?_⟩))
  show InBody _ _ _ ∨ _
  exact Or.inl (Or.inr (Or.inr (Or.inr (Or.inl (Or.inl rfl)))))

/-- the forest renders (no crash) under the option sets used below -/
theorem forest0_renders_kept : isOkText (render { keepComments := true } db0 ctx0 lib0 src0 forest0) ['x', '%', 'Q', 'C', ' ', '\n', 'a', '+', 'b', '%', 'Q', 'C', '\n', ' ', ' ', ' ', ' ', 'u', '\n', 'p', '/', '%', 'Q', 'C', ' ', '\n'] = true := by
  decide +kernel
theorem forest0_renders_verbatim : isOkText (render { mathMode := .verbatim } db0 ctx0 lib0 src0 forest0) ['x', '\n', '$', 'a', '+', 'b', '$', '\n', '\\', '[', 'u', '\\', ']', '\n', 'p', '/', '\n'] = true := by
  decide
theorem forest0_renders_delims : isOkText (render { mathMode := .withDelims } db0 ctx0 lib0 src0 forest0) ['x', '\n', '$', 'a', '+', 'b', '$', '\\', '[', '\n', 'u', '\n', '\\', ']', 'p', '/', '\n'] = true := by
  decide

-- non-vacuity of the theorems' hypotheses on `forest0`
example : render {} db0 ctx0 lib0 src0 (mapComments (fun p _ => ['R', 'E', 'W', 'R', 'I', 'T', 'T', 'E', 'N'] ++ List.replicate p '!') forest0) =
    render {} db0 ctx0 lib0 src0 forest0 := C12_comments_hidden {} db0 ctx0 lib0 src0 rfl _ forest0
example : '%' :: rstrip ['Q', 'C', ' '] <:+: ['x', '%', 'Q', 'C', ' ', '\n', 'a', '+', 'b', '%', 'Q', 'C', '\n', ' ', ' ', ' ', ' ', 'u', '\n', 'p', '/', '%', 'Q', 'C', ' ', '\n'] :=
  C12_comments_kept { keepComments := true } db0 ctx0 lib0 src0 rfl forest0 7 11 {} ['Q', 'C', ' '] ['\n'] (fun _ => by decide)
    (cmt0_in_forest0 _) _ (ok_of_isOkText forest0_renders_kept)
example : render { mathMode := .remove } db0 ctx0 lib0 src0
      (mapMath (E0 { mathMode := .remove }) (fun _ _ _ _ => (true, ['<', '<'], ['>', '>'], some [cmt0])) (fun _ _ _ => (none, none)) forest0) =
    render { mathMode := .remove } db0 ctx0 lib0 src0 forest0 := C12_remove { mathMode := .remove } db0 ctx0 lib0 src0 rfl _ _ forest0
example : ['$', 'a', '+', 'b', '$'] <:+: ['x', '\n', '$', 'a', '+', 'b', '$', '\n', '\\', '[', 'u', '\\', ']', '\n', 'p', '/', '\n'] :=
  C12_verbatim { mathMode := .verbatim } db0 ctx0 lib0 src0 rfl forest0 11 16 {} false _ _ _ (frm0_in_forest0 _) _
    (ok_of_isOkText forest0_renders_verbatim)
example : ['\n', '\\', '[', 'u', '\\', ']', '\n'] <:+: ['x', '\n', '$', 'a', '+', 'b', '$', '\n', '\\', '[', 'u', '\\', ']', '\n', 'p', '/', '\n'] :=
  C12_verbatim { mathMode := .verbatim } db0 ctx0 lib0 src0 rfl forest0 16 21 {} true _ _ _ (dfrm0_in_forest0 _) _
    (ok_of_isOkText forest0_renders_verbatim)
example : ∃ content, ['\\', '['] ++ ('\n' :: (content ++ ['\n'])) ++ ['\\', ']'] <:+: ['x', '\n', '$', 'a', '+', 'b', '$', '\\', '[', '\n', 'u', '\n', '\\', ']', 'p', '/', '\n'] :=
  C12_with_delims_kept { mathMode := .withDelims } db0 ctx0 lib0 src0 rfl forest0 16 21 {} true _ _ _
    ⟨'\\', ['['], rfl, by decide⟩ ⟨']', ['\\'], rfl, by decide⟩ (dfrm0_in_forest0 _) _ (ok_of_isOkText forest0_renders_delims)
example : render {} db0 ctx0 lib0 src0 (mapDisc (E0 {}) (fun _ => cmt0) (fun _ => some [frm0]) forest0) =
    render {} db0 ctx0 lib0 src0 forest0 := C12_discard {} db0 ctx0 lib0 src0 _ _ forest0
example : Discarded (E0 {}) (macSpec (E0 {}) ['l', 'a', 'b', 'e', 'l']) := ⟨rfl, rfl, rfl⟩
example : Discarded (E0 {}) (envSpec (E0 {}) ['c', 'o', 'm', 'm', 'e', 'n', 't']) := ⟨rfl, rfl, rfl⟩

/-- the trailing blank of a comment that ends a formula is removed by `strip()`: the un-stripped statement is false
    (`$…%QC ⏎$` with `keep_comments=True`) -/
theorem C12_comments_kept_full_false : ¬ C12_comments_kept_full := by
  intro h
  have := h { keepComments := true } db0 ctx0 lib0 src0 rfl [frm0] 7 11 {} ['Q', 'C', ' '] ['\n']
    (Or.inl (Or.inr ⟨Or.inl rfl, Or.inr (Or.inl rfl)⟩)) ['a', '+', 'b', '%', 'Q', 'C'] (ok_of_isOkText (by decide +kernel))
  revert this
  decide

set_option maxRecDepth 100000 in
/-- the same on the string level, default databases: `$x%c ⏎$` renders as `x%c` -/
theorem C12_trailing_blank_witness :
    isOkText (latexToText { keepComments := true } lib0 ['$', 'x', '%', 'c', ' ', '\n', '$']) ['x', '%', 'c'] = true := by
  decide +kernel

set_option maxRecDepth 100000 in
/-- **F24** (model = code as found): a comment between a macro and its argument is dropped from the tree by the
    argument parser, so `keep_comments=True` cannot render it: `\emph %QC⏎{x}` gives `x` -/
theorem C12_F24_witness_emph :
    isOkText (latexToText { keepComments := true } lib0 ['\\', 'e', 'm', 'p', 'h', ' ', '%', 'Q', 'C', '\n', '{', 'x', '}']) ['x'] = true := by
  decide +kernel

set_option maxRecDepth 100000 in
theorem C12_F24_witness_frac :
    isOkText (latexToText { keepComments := true } lib0 ['\\', 'f', 'r', 'a', 'c', '{', 'a', '}', '%', 'Q', 'C', '\n', '{', 'b', '}']) ['a', '/', 'b'] = true := by
  decide +kernel

set_option maxRecDepth 100000 in
/-- whereas the same comment inside the argument is rendered -/
theorem C12_F24_contrast :
    isOkText (latexToText { keepComments := true } lib0 ['\\', 'e', 'm', 'p', 'h', '{', '%', 'Q', 'C', '\n', 'x', '}']) ['%', 'Q', 'C', '\n', 'x'] = true := by
  decide +kernel

end Pylx.L2T.C12
