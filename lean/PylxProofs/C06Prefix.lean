/-
  C06 — "valid content preceding an error is never lost": the node list the strict parser had collected at
  the top level when it raised is continued by the node list the tolerant parser returns.
-/
import PylxProofs.C06Sim
import PylxProofs.C06Adv
namespace Pylx

/-- `ns'` continues `ns`: all nodes of `ns` are there, in order and first, except that a final run of
    characters may have grown (same start, same parsing state, text extended) -/
inductive Continues : List Node → List Node → Prop where
  | pre (ns rest : List Node) : Continues ns (ns ++ rest)
  | grow (init : List Node) (p e e' : Nat) (ps : PSInfo) (c more : Str) (rest : List Node) :
      Continues (init ++ [Node.chars p e ps c]) (init ++ Node.chars p e' ps (c ++ more) :: rest)

theorem Continues.refl (ns : List Node) : Continues ns ns := by
  have := Continues.pre ns []
  rwa [List.append_nil] at this

/-- pending characters always have a recorded start -/
def PendOk (st : LoopSt) : Prop := st.pend ≠ [] → st.pendPos ≠ none

/-- the final node list `ns` of a collector continues what the state `st` holds -/
def Extends (f : PSFields) (st : LoopSt) (ns : List Node) : Prop :=
  (st.pend = [] ∧ ∃ rest, ns = st.acc ++ rest) ∨
  (st.pend ≠ [] ∧ ∃ e' more rest,
    ns = st.acc ++ Node.chars (st.pendPos.getD 0) e' (psInfo f) (st.pend ++ more) :: rest)

theorem isEmpty_iff {α} (l : List α) : l.isEmpty = true ↔ l = [] := by cases l <;> simp

theorem extends_flush (f : PSFields) (st : LoopSt) : Extends f st (st.flush f).acc := by
  unfold LoopSt.flush
  split
  · rename_i h
    exact Or.inl ⟨(isEmpty_iff _).mp h, [], by simp⟩
  · rename_i h
    refine Or.inr ⟨fun hh => h ((isEmpty_iff _).mpr hh), st.pendPos.getD 0 + st.pend.length, [], [], ?_⟩
    simp

theorem continues_of_extends {f : PSFields} {st : LoopSt} {ns : List Node} (h : Extends f st ns) :
    Continues (st.flush f).acc ns := by
  unfold LoopSt.flush
  rcases h with ⟨h1, rest, rfl⟩ | ⟨h1, e', more, rest, rfl⟩
  · rw [if_pos ((isEmpty_iff _).mpr h1)]
    exact Continues.pre _ _
  · rw [if_neg (fun hh => h1 ((isEmpty_iff _).mp hh))]
    exact Continues.grow _ _ _ _ _ _ _ _

theorem extends_of_push {f : PSFields} {st st' : LoopSt} {ns : List Node} (c : Str)
    (ha : st'.acc = st.acc) (hp : st'.pend = st.pend ++ c) (hpp : st.pend ≠ [] → st'.pendPos = st.pendPos)
    (h : Extends f st' ns) : Extends f st ns := by
  by_cases hpe : st.pend = []
  · left
    refine ⟨hpe, ?_⟩
    rcases h with ⟨_, rest, rfl⟩ | ⟨_, e', more, rest, rfl⟩
    · exact ⟨rest, by rw [ha]⟩
    · exact ⟨_, by rw [ha]⟩
  · right
    refine ⟨hpe, ?_⟩
    rcases h with ⟨h1, _⟩ | ⟨_, e', more, rest, rfl⟩
    · rw [hp] at h1
      exact absurd (List.append_eq_nil_iff.mp h1).1 hpe
    · exact ⟨e', c ++ more, rest, by rw [ha, hp, hpp hpe, List.append_assoc]⟩

theorem extends_of_acc {f : PSFields} {st st' : LoopSt} {ns : List Node} (extra : List Node)
    (ha : st'.acc = st.acc ++ extra) (hpe : st.pend = []) (h : Extends f st' ns) : Extends f st ns := by
  left
  refine ⟨hpe, ?_⟩
  rcases h with ⟨_, rest, rfl⟩ | ⟨_, e', more, rest, rfl⟩
  · exact ⟨extra ++ rest, by rw [ha, List.append_assoc]⟩
  · exact ⟨_, by rw [ha, List.append_assoc]⟩

theorem push_pendPos (st : LoopSt) (c : Str) (q : Nat) : (st.push c q).pendPos ≠ none := by
  unfold LoopSt.push
  cases st.pendPos <;> simp

theorem push_pendPos_eq (st : LoopSt) (c : Str) (q : Nat) (h : PendOk st) (hne : st.pend ≠ []) :
    (st.push c q).pendPos = st.pendPos := by
  unfold LoopSt.push
  have := h hne
  cases hp : st.pendPos with
  | none => exact absurd hp this
  | some p => rfl

theorem flushBefore_pend (f : PSFields) (st : LoopSt) (t : Token) : (st.flushBefore f t).pend = [] := by
  unfold LoopSt.flushBefore
  split
  · unfold LoopSt.flush
    split
    · rename_i h; exact (isEmpty_iff _).mp h
    · rfl
  · rename_i h
    have : st.pend = [] := by
      cases hp : st.pend with
      | nil => rfl
      | cons a l => rw [hp] at h; simp at h
    split
    · exact this
    · exact this

theorem extends_of_flushBefore {f : PSFields} {st : LoopSt} {t : Token} {ns : List Node}
    (h : Extends f (st.flushBefore f t) ns) : Extends f st ns := by
  have hp1 := flushBefore_pend f st t
  rcases h with ⟨_, rest, hns⟩ | ⟨h1, _⟩
  · unfold LoopSt.flushBefore at hns
    split at hns
    · rename_i hne
      have hne' : st.pend ≠ [] := by
        intro hh; rw [hh] at hne; simp at hne
      unfold LoopSt.flush at hns
      split at hns
      · rename_i h2
        have := (isEmpty_iff _).mp h2
        exact absurd (List.append_eq_nil_iff.mp this).1 hne'
      · right
        refine ⟨hne', st.pendPos.getD 0 + (st.pend ++ t.pre).length, t.pre, rest, ?_⟩
        rw [hns]
        simp
    · rename_i hemp
      have hpe : st.pend = [] := by
        cases hp : st.pend with
        | nil => rfl
        | cons a l => rw [hp] at hemp; simp at hemp
      split at hns
      · exact Or.inl ⟨hpe, _, by rw [hns, List.append_assoc]⟩
      · exact Or.inl ⟨hpe, rest, hns⟩
  · exact absurd hp1 h1

/-! ### the collector's result continues its state (any mode) -/

def LoopExtC (f : PSFields) (st : LoopSt) (r : Ret) : Prop := ∀ e, r = .loopEnd e → Extends f st e.nodes

theorem loopFinish_ext (f : PSFields) (st : LoopSt) (a : Option Token) (b : Option PErr) :
    LoopExtC f st (loopFinish f st a b) := by
  intro e he
  unfold loopFinish at he
  cases he
  exact extends_flush f st

section ext
variable {env : Env} {rec : Task → Ret}
  (hext : ∀ f stop child st, PendOk st → LoopExtC f st (rec (.loop f stop child st)))
include hext

theorem afterChild_ext {f : PSFields} {stop : StopTok} {child : ChildPS} {st : LoopSt} {noneOk : Bool} {r : Ret}
    (hpe : st.pend = []) : LoopExtC f st (afterChild rec f stop child st noneOk r) := by
  unfold afterChild
  cases r with
  | ok res q =>
    cases res with
    | node n =>
      intro e he
      have := hext f stop child { st with pos := q, acc := st.acc ++ [n] } (fun h => absurd hpe h) e he
      exact extends_of_acc (st' := { st with pos := q, acc := st.acc ++ [n] }) [n] rfl hpe this
    | none =>
      dsimp only
      split
      · intro e he
        have := hext f stop child { st with pos := q } (fun h => absurd hpe h) e he
        exact extends_of_acc (st' := { st with pos := q }) [] (by simp) hpe this
      · intro e he; cases he
    | list a b c => intro e he; cases he
    | args a b c => intro e he; cases he
  | perr e => exact loopFinish_ext f st none _
  | loopEnd e => intro e he; cases he
  | crash k => intro e he; cases he
  | fuel => intro e he; cases he

theorem loopDispatch_ext {f : PSFields} {stop : StopTok} {child : ChildPS} {st : LoopSt} {t : Token}
    (hpe : st.pend = []) : LoopExtC f st (loopDispatch env rec f stop child st t) := by
  have fin : ∀ e, LoopExtC f st (loopFinish f st none e) := fun e => loopFinish_ext f st none e
  have lp0 : LoopExtC f st (rec (.loop f stop child st)) := hext f stop child st (fun h => absurd hpe h)
  have ch : ∀ b r, LoopExtC f st (afterChild rec f stop child st b r) := fun b r => afterChild_ext hext hpe
  unfold loopDispatch
  cases hk : t.kind <;> simp only
  · intro e he; cases he
  · split
    · split
      · exact lp0
      · exact fin _
    · exact ch _ _
  · split
    · split
      · exact lp0
      · exact fin _
    · exact ch _ _
  · exact fin _
  · intro e he
    have := hext f stop child { st with acc := st.acc ++ [Node.comment t.pos t.posEnd (psInfo f) t.arg t.post] }
      (fun h => absurd hpe h) e he
    exact extends_of_acc (st' := { st with acc := st.acc ++ [Node.comment t.pos t.posEnd (psInfo f) t.arg t.post] })
      [_] rfl hpe this
  · exact ch _ _
  · exact fin _
  · split
    · exact ch _ _
    · exact fin _
  · split
    · exact ch _ _
    · exact fin _
  · split
    · intro e he; cases he
    · exact ch _ _

theorem loopStep_ext {f : PSFields} {stop : StopTok} {child : ChildPS} {st : LoopSt} (hst : PendOk st) :
    LoopExtC f st (loopStep env rec f stop child st) := by
  unfold loopStep
  cases hr : loopRead env f st with
  | inr r =>
    unfold loopRead at hr
    split at hr
    · cases hr
    · split at hr
      · cases hr; exact loopFinish_ext f st none none
      · cases hr
    · cases hr; exact loopFinish_ext f st none _
  | inl t =>
    dsimp only
    split
    · intro e he
      have := loopFinish_ext f { (st.push t.pre (t.pos - t.pre.length)) with pos := t.pos } _ _ e he
      exact extends_of_push (st' := { (st.push t.pre (t.pos - t.pre.length)) with pos := t.pos }) (t.pre) rfl rfl
        (fun hne => push_pendPos_eq st t.pre (t.pos - t.pre.length) hst hne) this
    · split
      · intro e he
        have := hext f stop child { (st.push (t.pre ++ t.arg) (t.pos - t.pre.length)) with pos := t.posEnd }
          (fun _ => push_pendPos st (t.pre ++ t.arg) (t.pos - t.pre.length)) e he
        exact extends_of_push (st' := { (st.push (t.pre ++ t.arg) (t.pos - t.pre.length)) with pos := t.posEnd })
          (t.pre ++ t.arg) rfl rfl (fun hne => push_pendPos_eq st (t.pre ++ t.arg) (t.pos - t.pre.length) hst hne) this
      · intro e he
        have := loopDispatch_ext (env := env) hext (f := f) (stop := stop) (child := child)
          (st := { (st.flushBefore f t) with pos := t.posEnd }) (t := { t with pre := [] })
          (flushBefore_pend f st t) e he
        exact extends_of_flushBefore (st := st) (t := t) this

end ext

theorem run_ext (env : Env) : ∀ (n : Nat) f stop child st, PendOk st → LoopExtC f st (run env n (.loop f stop child st))
  | 0, _, _, _, _, _ => by intro e he; cases he
  | n + 1, f, stop, child, st, hst =>
    loopStep_ext (env := env) (rec := run env n) (fun f stop child st h => run_ext env n f stop child st h) hst

/-! ### strict collector vs tolerant collector -/

/-- if both collectors end, the tolerant node list continues the strict one -/
def LP (a b : Ret) : Prop := ∀ eS eT, a = .loopEnd eS → b = .loopEnd eT → Continues eS.nodes eT.nodes

theorem LP.refl (a : Ret) : LP a a := by
  intro eS eT h1 h2
  rw [h1] at h2
  cases h2
  exact Continues.refl _

theorem LP.of_not {a b : Ret} (h : ∀ e, a ≠ .loopEnd e) : LP a b := fun eS _ h1 _ => absurd h1 (h eS)

theorem lp_of_ext {f : PSFields} {st : LoopSt} {a : Option Token} {b : Option PErr} {r : Ret}
    (h : LoopExtC f st r) : LP (loopFinish f st a b) r := by
  intro eS eT h1 h2
  unfold loopFinish at h1
  cases h1
  exact continues_of_extends (h eT h2)

section lp
variable {envS envT : Env} {recS recT : Task → Ret}
  (he : EnvRel envS envT)
  (hsim : ∀ t, Sim (recS t) (recT t))
  (hext : ∀ f stop child st, PendOk st → LoopExtC f st (recT (.loop f stop child st)))
  (hlp : ∀ f stop child st, PendOk st → LP (recS (.loop f stop child st)) (recT (.loop f stop child st)))
include hsim hext hlp

omit hsim in
theorem afterChild_lp {f : PSFields} {stop : StopTok} {child : ChildPS} {st : LoopSt} {noneOk : Bool} {r1 r2 : Ret}
    (h : Sim r1 r2) (hpe : st.pend = []) :
    LP (afterChild recS f stop child st noneOk r1) (afterChild recT f stop child st noneOk r2) := by
  cases r1 with
  | ok res q =>
    have h2 := h trivial
    subst h2
    cases res with
    | node n => exact hlp f stop child { st with pos := q, acc := st.acc ++ [n] } (fun hh => absurd hpe hh)
    | none =>
      unfold afterChild
      cases noneOk
      · exact LP.of_not (fun e hh => by cases hh)
      · exact hlp f stop child { st with pos := q } (fun hh => absurd hpe hh)
    | list a b c => exact LP.of_not (fun e hh => by cases hh)
    | args a b c => exact LP.of_not (fun e hh => by cases hh)
  | perr e =>
    have : afterChild recS f stop child st noneOk (.perr e) = loopFinish f st none (some e) := rfl
    rw [this]
    exact lp_of_ext (afterChild_ext hext hpe)
  | loopEnd e => exact LP.of_not (fun e hh => by cases hh)
  | crash k => exact LP.of_not (fun e hh => by cases hh)
  | fuel => exact LP.of_not (fun e hh => by cases hh)

include he in
theorem loopDispatch_lp {f : PSFields} {stop : StopTok} {child : ChildPS} {st : LoopSt} {t : Token}
    (hpe : st.pend = []) :
    LP (loopDispatch envS recS f stop child st t) (loopDispatch envT recT f stop child st t) := by
  have hst : PendOk st := fun hh => absurd hpe hh
  have ch : ∀ b tk, LP (afterChild recS f stop child st b (recS tk)) (afterChild recT f stop child st b (recT tk)) :=
    fun b tk => afterChild_lp hext hlp (hsim tk) hpe
  unfold loopDispatch
  simp only [he.tolS, he.tolT, he.ctx, Bool.false_eq_true, if_true, if_false]
  cases t.kind <;> simp only []
  case braceClose => exact LP.refl _
  case endEnv => exact LP.refl _
  case comment =>
    exact hlp f stop child { st with acc := st.acc ++ [Node.comment t.pos t.posEnd (psInfo f) t.arg t.post] }
      (fun hh => absurd hpe hh)
  case braceOpen => exact ch _ _
  case «macro» =>
    cases envS.ctx.macroSpec t.arg <;> simp only []
    · exact lp_of_ext (hext f stop child st hst)
    · exact ch _ _
  case beginEnv =>
    cases envS.ctx.envSpec t.arg <;> simp only []
    · exact lp_of_ext (hext f stop child st hst)
    · exact ch _ _
  case specials =>
    cases lookupFirst t.arg envS.ctx.specials <;> simp only []
    · exact LP.refl _
    · exact ch _ _
  case mathInline =>
    split
    · exact ch _ _
    · exact LP.refl _
  case mathDisplay =>
    split
    · exact ch _ _
    · exact LP.refl _
  case char => exact LP.refl _

include he in
theorem loopStep_lp {f : PSFields} {stop : StopTok} {child : ChildPS} {st : LoopSt} (hst : PendOk st) :
    LP (loopStep envS recS f stop child st) (loopStep envT recT f stop child st) := by
  have hT : LoopExtC f st (loopStep envT recT f stop child st) := loopStep_ext hext hst
  cases hrS : loopRead envS f st with
  | inr r =>
    obtain ⟨err, rfl⟩ := loopRead_inr hrS
    have : loopStep envS recS f stop child st = loopFinish f st none err := by
      unfold loopStep; rw [hrS]
    rw [this]
    exact lp_of_ext hT
  | inl t =>
    have hrT : loopRead envT f st = .inl t := by
      rcases loopRead_sim he f st with ⟨r, h, _⟩ | h
      · rw [hrS] at h; cases h
      · rw [h, hrS]
    unfold loopStep
    rw [hrS, hrT]
    simp only []
    split
    · exact LP.refl _
    · split
      · exact hlp f stop child { (st.push (t.pre ++ t.arg) (t.pos - t.pre.length)) with pos := t.posEnd }
          (fun _ => push_pendPos st (t.pre ++ t.arg) (t.pos - t.pre.length))
      · exact loopDispatch_lp he hsim hext hlp (flushBefore_pend f st t)

end lp

theorem run_lp {envS envT : Env} (he : EnvRel envS envT) :
    ∀ (n : Nat) f stop child st, PendOk st →
      LP (run envS n (.loop f stop child st)) (run envT n (.loop f stop child st))
  | 0, _, _, _, _, _ => LP.of_not (fun e hh => by cases hh)
  | n + 1, f, stop, child, st, hst =>
    loopStep_lp (recS := run envS n) (recT := run envT n) he (run_sim_rel he n)
      (fun f stop child st h => run_ext envT n f stop child st h)
      (fun f stop child st h => run_lp he n f stop child st h) hst

/-! ### the top level -/

theorem listOf_eq (ns : List Node) (a b : Option Nat) : ∃ p q, listOf ns a b = .list p q ns := ⟨_, _, rfl⟩

theorem rawGeneral_perr {rec : Task → Ret} {stop : StopTok} {require : Bool} {child : ChildPS} {f : PSFields}
    {pos : Nat} {e : PErr} (h : rawGeneral rec stop require child f pos = .ret (.perr e)) :
    ∃ le, rec (.loop f stop child { pos := pos }) = .loopEnd le ∧ e.recNodes = listOf le.nodes (some pos) (some pos) := by
  unfold rawGeneral retOfLoop at h
  cases hr : rec (.loop f stop child { pos := pos }) with
  | loopEnd le =>
    rw [hr] at h
    refine ⟨le, rfl, ?_⟩
    dsimp only at h
    split at h
    · cases h; rfl
    · split at h
      · cases h; rfl
      · split at h <;> cases h
  | ok a b => rw [hr] at h; cases h
  | perr e' => rw [hr] at h; cases h
  | crash k => rw [hr] at h; cases h
  | fuel => rw [hr] at h; cases h

theorem rawGeneral_tol_ok {rec : Task → Ret} {stop : StopTok} {require : Bool} {child : ChildPS} {f : PSFields}
    {pos : Nat} {r : Res} {q : Nat} (h : parseContent true (rawGeneral rec stop require child f pos) = .ok r q) :
    ∃ le, rec (.loop f stop child { pos := pos }) = .loopEnd le ∧ r = listOf le.nodes (some pos) (some pos) := by
  unfold rawGeneral retOfLoop at h
  cases hr : rec (.loop f stop child { pos := pos }) with
  | loopEnd le =>
    rw [hr] at h
    refine ⟨le, rfl, ?_⟩
    dsimp only at h
    split at h
    · rw [parseContent_perr_true] at h; cases h; rfl
    · split at h
      · rw [parseContent_perr_true] at h; cases h; rfl
      · split at h <;> (simp only [parseContent] at h; cases h; rfl)
  | ok a b => rw [hr] at h; cases h
  | perr e' => rw [hr] at h; cases h
  | crash k => rw [hr] at h; cases h
  | fuel => rw [hr] at h; cases h

/-- **C06 (prefix).** If the strict parse raises, the error carries the nodes collected at the top level before
    the error (`recNodes`, what `LatexWalkerParseError.recovery_nodes` holds); whenever the tolerant parse of the same input with
    the same fuel returns, it returns a node list that continues them: the same nodes first, in order, where
    only a final run of characters may have been extended. -/
theorem C06_prefix (ctx : Ctx) (s : Str) (f : PSFields) (n : Nat) (e : PErr)
    (h : run { tol := false, ctx := ctx, s := s } n (topTask f) = .perr e) :
    ∃ p q ns, e.recNodes = .list p q ns ∧
      ∀ r pos, run { tol := true, ctx := ctx, s := s } n (topTask f) = .ok r pos →
        ∃ p' q' ns', r = .list p' q' ns' ∧ Continues ns ns' := by
  cases n with
  | zero => cases h
  | succ n =>
    have he : EnvRel { tol := false, ctx := ctx, s := s } { tol := true, ctx := ctx, s := s } := ⟨rfl, rfl, rfl, rfl⟩
    have hS : parseContent false (rawGeneral (run { tol := false, ctx := ctx, s := s } n) .none true .same f 0) = .perr e := h
    have hraw : rawGeneral (run { tol := false, ctx := ctx, s := s } n) .none true .same f 0 = .ret (.perr e) := by
      generalize rawGeneral (run { tol := false, ctx := ctx, s := s } n) .none true .same f 0 = raw at hS
      cases raw with
      | eos q => cases hS
      | ret r =>
        cases r with
        | perr e' => rw [parseContent_perr_false] at hS; cases hS; rfl
        | ok a b => cases hS
        | loopEnd a => cases hS
        | crash k => cases hS
        | fuel => cases hS
    obtain ⟨leS, hlS, hrn⟩ := rawGeneral_perr hraw
    obtain ⟨p, q, hl⟩ := listOf_eq leS.nodes (some 0) (some 0)
    refine ⟨p, q, leS.nodes, by rw [hrn, hl], ?_⟩
    intro r pos hT
    have hT' : parseContent true (rawGeneral (run { tol := true, ctx := ctx, s := s } n) .none true .same f 0) = .ok r pos := hT
    obtain ⟨leT, hlT, hr⟩ := rawGeneral_tol_ok hT'
    obtain ⟨p', q', hl'⟩ := listOf_eq leT.nodes (some 0) (some 0)
    refine ⟨p', q', leT.nodes, by rw [hr, hl'], ?_⟩
    exact run_lp he n f .none .same { pos := 0 } (fun hh => absurd rfl hh) leS leT hlS hlT

/-! ### non-vacuity -/

private def exCtxP : Ctx := { macros := [("a".toList, .std [⟨.m, .none⟩])] }
private def Ret.isPerr : Ret → Bool
  | .perr _ => true
  | _ => false
private def Ret.isOkP : Ret → Bool
  | .ok _ _ => true
  | _ => false

/-- the hypothesis of `C06_prefix` holds for `x{y}ab\begin z` (token error after "ab"; the tolerant parser extends the
    final characters node to `ab\begin z`) and for `x{y}\a{q\zz} w` (unknown macro inside an argument; the tolerant parser
    appends the recovered macro node and more), and in both cases the tolerant parse returns -/
example : ∃ e, run { tol := false, ctx := exCtxP, s := "x{y}ab\\begin z".toList } 30 (topTask {}) = .perr e := by
  have h : (run { tol := false, ctx := exCtxP, s := "x{y}ab\\begin z".toList } 30 (topTask {})).isPerr = true := by decide
  cases hr : run { tol := false, ctx := exCtxP, s := "x{y}ab\\begin z".toList } 30 (topTask {}) with
  | perr e => exact ⟨e, rfl⟩
  | ok a b => rw [hr] at h; cases h
  | loopEnd a => rw [hr] at h; cases h
  | crash k => rw [hr] at h; cases h
  | fuel => rw [hr] at h; cases h

example : (run { tol := false, ctx := exCtxP, s := "x{y}\\a{q\\zz} w".toList } 30 (topTask {})).isPerr = true
    ∧ (run { tol := true, ctx := exCtxP, s := "x{y}\\a{q\\zz} w".toList } 30 (topTask {})).isOkP = true
    ∧ (run { tol := true, ctx := exCtxP, s := "x{y}ab\\begin z".toList } 30 (topTask {})).isOkP = true := by decide

#print axioms C06_prefix

end Pylx
