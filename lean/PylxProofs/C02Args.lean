/-
  C02Args — the sub-parsers on the source shapes of the document grammar: general nodes up to a stop token, brace and
  bracket groups, absent optional arguments, the star marker, the expression parser, the arguments loop, macro calls,
  and what the collector does with the tokens that start them.
-/
import PylxProofs.C02Loop
import PylxProofs.C02Tok3
namespace Pylx
namespace C02
open Doc

theorem peek0 {ps : PState} {s : Str} {p : Nat} {c : Char} {rest : Str} (hd : s.drop p = c :: rest) (hc : isPySpace c = false) :
    peekImpl ps s p = peekAtChar ps s p c [] :=
  peekImpl_at_nonspace (getElem?_of_drop hd) hc

theorem kind_braceOpen_of_beq (k : TokKind) (h : (k == TokKind.braceOpen) = true) : k = .braceOpen := by
  cases k <;> first | rfl | cases h

section parsers
variable {env : Env} {keys : List Str} {m : Bool} {md : Option Str}

theorem general_of_loop_stop {f : PSFields} {stop : StopTok} {child : ChildPS} {pos : Nat} {e : LoopEnd} {t : Token}
    (htol : env.tol = false) (hl : Ev env (.loop f stop child { pos := pos }) (.loopEnd e)) (herr : e.err = none)
    (hst : e.stopTok = some t) (hsome : stop.isSome = true) :
    Ev env (.pc (.general stop true child) f pos) (.ok (listOf e.nodes (some pos) (some pos)) t.posEnd) := by
  obtain ⟨n, hn⟩ := hl
  refine Ev.of_step ⟨n, fun k hk => ?_⟩
  show parseContent env.tol (rawGeneral (run env k) stop true child f pos) = _
  unfold rawGeneral
  rw [hn k hk, htol]
  unfold retOfLoop
  simp only [herr, hst, hsome, Option.isNone_some, Bool.and_false, Bool.false_eq_true, if_false, if_true,
    movePastToken]
  rfl

theorem general_of_loop_top {f : PSFields} {e : LoopEnd} (htol : env.tol = false)
    (hl : Ev env (.loop f .none .same { pos := 0 }) (.loopEnd e)) (herr : e.err = none) (hst : e.stopTok = none) :
    Ev env (topTask f) (.ok (listOf e.nodes (some 0) (some 0)) e.pos) := by
  obtain ⟨n, hn⟩ := hl
  refine Ev.of_step ⟨n, fun k hk => ?_⟩
  show parseContent env.tol (rawGeneral (run env k) .none true .same f 0) = _
  unfold rawGeneral
  rw [hn k hk, htol]
  unfold retOfLoop
  simp only [herr, hst, StopTok.isSome, Bool.and_false, Bool.false_and, Bool.false_eq_true, if_false]
  rfl

/-- a body: the collector reaches the stop token -/
theorem body_runs {f : PSFields} {stop : StopTok} {child : ChildPS} {pos n : Nat} {tr : List Shape} {tk : Token}
    (htol : env.tol = false) (hr : Reaches env f stop child { pos := pos } tr n)
    (hpk : peekImpl (mkPS f) env.s (pos + n) = .tok tk) (hs : stop.test tk = true) (hsome : stop.isSome = true) :
    ∃ a b ns, Ev env (.pc (.general stop true child) f pos) (.ok (.list a b ns) tk.posEnd) ∧
      mergeChars (shapeOfNodes ns) = mergeChars (tr ++ pendSh tk.pre) := by
  obtain ⟨st', hp, hs', hk⟩ := hr
  have hp' : st'.pos = pos + n := hp
  obtain ⟨e, he, hsh, herr, hst⟩ := loop_stop (child := child) htol (st := st') (by rw [hp']; exact hpk) hs
  have := general_of_loop_stop htol (hk _ he) herr hst hsome
  refine ⟨_, _, e.nodes, this, ?_⟩
  rw [hsh]
  have : mergeChars (sh st') = mergeChars tr := by rw [hs']; rfl
  exact mergeChars_append_left this _

theorem ef_eq (hn : NormOk m md) (br : Xp) :
    ({ stdF keys m md true br with enEnvs := false } : PSFields).normalize = stdF keys m md false br := by
  cases m with
  | false => cases (hn rfl); rfl
  | true => rfl

/-- `LatexDelimitedGroupParser` on `{ body }` -/
theorem group_runs (htol : env.tol = false) (hn : NormOk m md) {pos p : Nat} {rest : Str} {a b : Option Nat} {ns : List Node}
    (hd : env.s.drop pos = '{' :: rest)
    (hb : Ev env (.pc (.general (.braceClose ['}']) true (.group ['{'] (stdF keys m md true) (stdF keys m md true)))
      (stdF keys m md true) (pos + 1)) (.ok (.list a b ns) p)) :
    Ev env (.pc (.group (.auto ['{']) false false) (stdF keys m md true) pos)
      (.ok (.node (Node.group pos p (psInfo (stdF keys m md true)) ['{'] ['}'] (some ns))) p) := by
  have hps := psStd_std keys m md true none hn
  have hpk : peekImpl (mkPS (stdF keys m md true)) env.s pos = _ := (peek0 hd (by decide)).trans (peekAtChar_open hps hd)
  obtain ⟨n, hb⟩ := hb
  refine Ev.of_step ⟨n, fun k hk => ?_⟩
  show parseContent env.tol (rawGroup env (run env k) (.auto ['{']) false false (stdF keys m md true) pos) = _
  unfold rawGroup
  have hgs : groupState (.auto ['{']) (stdF keys m md true) = some (stdF keys m md true) := by
    unfold groupState
    rw [hps.go]
    rfl
  rw [hgs]
  simp only
  rw [htol, peekTok_false, hpk]
  simp only
  unfold rawGroupTok
  have hgc : groupCloser (.auto ['{']) (stdF keys m md true) = some ['}'] := by
    unfold groupCloser
    rw [hps.go]
    rfl
  rw [hgc]
  simp only [GroupDelims.opener, List.isEmpty_nil, Bool.not_true, Bool.and_false, Bool.not_false, Bool.true_and,
    beq_self_eq_true]
  rw [hb k hk]
  rfl

theorem groupState_x (ee : Bool) {o c : Char} (ho : isXDelim o = true) :
    groupState (.pair [o] [c]) (stdF keys m md ee) = some (stdF keys m md ee (some (o, c))) := by
  have ho' := (xdelim_ne ho).2.2.2.1
  unfold groupState
  have h : (stdF keys m md ee).groupDelims.contains ([o], [c]) = false := by
    show (brPairs none).contains ([o], [c]) = false
    simp [brPairs, ho']
  simp only [h]
  rfl

/-- `LatexDelimitedGroupParser` on a written delimited argument `o body c` (optional or not) -/
theorem xgroup_runs (htol : env.tol = false) (hn : NormOk m md) {o c : Char} (hx : XpOk (some (o, c))) (opt ap : Bool)
    {pos p : Nat} {rest : Str} {a b : Option Nat} {ns : List Node} (hd : env.s.drop pos = o :: rest)
    (hb : Ev env (.pc (.general (.braceClose [c]) true (.group [o] (stdF keys m md true (some (o, c))) (stdF keys m md true)))
      (stdF keys m md true (some (o, c))) (pos + 1)) (.ok (.list a b ns) p)) :
    Ev env (.pc (.group (.pair [o] [c]) opt ap) (stdF keys m md true) pos)
      (.ok (.node (Node.group pos p (psInfo (stdF keys m md true (some (o, c)))) [o] [c] (some ns))) p) := by
  have hps := psStd_std keys m md true (some (o, c)) hn
  have hpk : peekImpl (mkPS (stdF keys m md true (some (o, c)))) env.s pos = _ :=
    (peek0 hd (xdelim_ne hx.1).2.2.2.2.2).trans (peekAtChar_xopen hps hx hd)
  obtain ⟨n, hb⟩ := hb
  refine Ev.of_step ⟨n, fun k hk => ?_⟩
  show parseContent env.tol (rawGroup env (run env k) (.pair [o] [c]) opt ap (stdF keys m md true) pos) = _
  unfold rawGroup
  rw [groupState_x true hx.1]
  simp only
  rw [htol, peekTok_false, hpk]
  simp only
  unfold rawGroupTok
  simp only [groupCloser, GroupDelims.opener, List.isEmpty_nil, Bool.not_true, Bool.and_false, Bool.not_false, Bool.true_and,
    beq_self_eq_true]
  rw [hb k hk]
  rfl

theorem nextNonSpace_eq (F : Str) : nextNonSpace F = (F.dropWhile isPySpace).head? := rfl

/-- `LatexDelimitedGroupParser` on an optional delimited argument that is not there -/
theorem xgroup_absent_runs (htol : env.tol = false) (hn : NormOk m md) {o c : Char} (ho : isXDelim o = true) (ap : Bool) {pos : Nat}
    {F : Str} (hd : env.s.drop pos = F) (hok : absentFollowOk F = true)
    (habs : (if ap then nextNonSpace F != some o else F.head? != some o) = true) :
    Ev env (.pc (.group (.pair [o] [c]) true ap) (stdF keys m md true) pos) (.ok .none pos) := by
  have hps := psStd_std keys m md true (some (o, c)) hn
  refine Ev.of_const (fun rec => ?_)
  show parseContent env.tol (rawGroup env rec (.pair [o] [c]) true ap (stdF keys m md true) pos) = _
  unfold rawGroup
  rw [groupState_x true ho]
  simp only
  rw [htol, peekTok_false]
  rcases peek_follow hps hd hok with ⟨_, h⟩ | ⟨c0, r, t, hF, h, hta⟩
  · rw [h]; rfl
  · rw [h]
    simp only
    unfold rawGroupTok
    have hcond : (!(!ap && !t.pre.isEmpty) && t.kind == TokKind.braceOpen && t.arg == GroupDelims.opener (.pair [o] [c])) = false := by
      cases hc : (!(!ap && !t.pre.isEmpty) && t.kind == TokKind.braceOpen && t.arg == GroupDelims.opener (.pair [o] [c])) with
      | false => rfl
      | true =>
        exfalso
        simp only [Bool.and_eq_true, GroupDelims.opener] at hc
        obtain ⟨⟨h1, hk⟩, ha⟩ := hc
        have hk' := kind_braceOpen_of_beq _ hk
        have ha' : t.arg = [o] := by simpa using ha
        have hc' : c0 = o := by
          have := hta.brace hk'
          rw [ha'] at this
          simpa using this.symm
        subst hc'
        cases ap with
        | true =>
          simp only [if_true, nextNonSpace_eq, hF] at habs
          simp at habs
        | false =>
          simp only [Bool.not_false, Bool.true_and, Bool.not_eq_eq_eq_not, Bool.not_true, Bool.not_eq_false] at h1
          have hpre : F.takeWhile isPySpace = [] := by
            have := hta.pre
            rw [← this]
            exact List.isEmpty_iff.mp h1
          have hFF : F = c0 :: r := by
            have := takeWhile_append_dropWhile isPySpace F
            rw [hpre, hF] at this
            exact this.symm
          simp only [Bool.false_eq_true, if_false, hFF] at habs
          simp at habs
    rw [hcond]
    simp only [Bool.false_eq_true, if_false, if_true]
    have : moveToToken t true = pos := by
      unfold moveToToken
      simp only [if_true]
      rw [hta.pos, hta.pre]
      omega
    rw [this]
    rfl

/-- the star marker, written -/
theorem marker_star_runs (htol : env.tol = false) (hn : NormOk m md) (hk : keysCore keys = true) {pos : Nat} {rest : Str}
    (hd : env.s.drop pos = '*' :: rest) :
    Ev env (.pc (.marker '*' false true) (stdF keys m md true) pos)
      (.ok (.node (Node.chars pos (pos + 1) (psInfo (stdF keys m md true)) ['*'])) (pos + 1)) := by
  have hps := psStd_std keys m md true none hn
  have hpk : peekImpl (mkPS (stdF keys m md true)) env.s pos = _ := (peek0 hd (by decide)).trans (peekAtChar_star hps hk hd)
  refine Ev.of_const (fun rec => ?_)
  show parseContent env.tol (rawMarker env '*' false true (stdF keys m md true) pos) = _
  unfold rawMarker
  rw [htol, peekTok_false, hpk]
  rfl

/-- a marker that is not there -/
theorem marker_absent_runs (htol : env.tol = false) (hn : NormOk m md) (c : Char) (fl : Bool) {pos : Nat} {F : Str}
    (hd : env.s.drop pos = F) (hok : absentFollowOk F = true) (habs : (nextNonSpace F != some c) = true) :
    Ev env (.pc (.marker c fl true) (stdF keys m md true) pos) (.ok .none pos) := by
  have hps := psStd_std keys m md true none hn
  refine Ev.of_const (fun rec => ?_)
  show parseContent env.tol (rawMarker env c fl true (stdF keys m md true) pos) = _
  unfold rawMarker
  rw [htol, peekTok_false]
  rcases peek_follow hps hd hok with ⟨_, h⟩ | ⟨c0, r, t, hF, h, hta⟩
  · rw [h]; rfl
  · rw [h]
    simp only [Bool.not_true, Bool.and_false, Bool.false_eq_true, if_false]
    have hcond : ((t.kind == TokKind.char || t.kind == TokKind.specials) && t.arg == [c]) = false := by
      cases hc : ((t.kind == TokKind.char || t.kind == TokKind.specials) && t.arg == [c]) with
      | false => rfl
      | true =>
        exfalso
        simp only [Bool.and_eq_true, Bool.or_eq_true] at hc
        obtain ⟨hk, ha⟩ := hc
        have ha' : t.arg = [c] := by simpa using ha
        have hk' : t.kind = .char ∨ t.kind = .specials := by
          rcases hk with hk | hk
          · left; revert hk; cases t.kind <;> intro hk <;> first | rfl | cases hk
          · right; revert hk; cases t.kind <;> intro hk <;> first | rfl | cases hk
        have hc' := hta.single hk' c ha'
        subst hc'
        simp only [nextNonSpace_eq, hF] at habs
        simp at habs
    rw [hcond]
    simp only [Bool.false_eq_true, if_false]
    split <;> rfl

/-- characters that can be written as a marker: the tokenizer makes them a `char` token, or the specials token of
    exactly that character -/
theorem peekAtChar_marker {ps : PState} {ee m' : Bool} {ex : Option (Str × Bool)} (hps : PSStd keys ee m' ex none ps)
    {s : Str} {p : Nat} {c : Char} {rest pre : Str} (hd : s.drop p = c :: rest) (hm : markerOk keys c rest = true) :
    ∃ t, peekAtChar ps s p c pre = .tok t ∧ (t.kind = .char ∨ t.kind = .specials) ∧ t.arg = [c] ∧ t.pos = p ∧
      t.posEnd = p + 1 ∧ t.pre = pre := by
  unfold markerOk at hm
  simp only [Bool.and_eq_true, Bool.not_eq_eq_eq_not, Bool.not_true, bne_iff_ne, ne_eq] at hm
  obtain ⟨⟨⟨⟨⟨⟨_, h2⟩, h3⟩, h4⟩, h5⟩, h1⟩, hts⟩ := hm
  rw [peekAtChar_toGroups hps hd h1 h2 h3]
  unfold peekGroups
  rw [hps.eg, hps.go, hps.gc]
  have e5 : (brPairs none).any (fun d => d.1 == [c]) = false := by simp [brPairs, Ne.symm h4]
  have e6 : ((brPairs none).map (·.2)).any (fun d => d == [c]) = false := by simp [brPairs, Ne.symm h5]
  simp only [e5, e6, if_true, Bool.false_eq_true, if_false]
  unfold peekSpecialsOrChar
  rw [hps.hc, hps.es, hps.sp]
  simp only [Bool.and_self, if_true]
  rw [testSpecials_drop, hd]
  cases hh : testSpecials keys (c :: rest) 0 with
  | none =>
    simp only
    unfold charToken
    rw [hps.fb]
    exact ⟨_, by simp; rfl, Or.inl rfl, rfl, rfl, rfl, rfl⟩
  | some k =>
    rw [hh] at hts
    have hk : k = [c] := by simpa using hts
    subst hk
    exact ⟨_, rfl, Or.inr rfl, rfl, rfl, rfl, rfl⟩

/-- a written marker -/
theorem marker_runs (htol : env.tol = false) (hn : NormOk m md) {c : Char} (fl : Bool) {pos : Nat} {rest : Str}
    (hd : env.s.drop pos = c :: rest) (hm : markerOk keys c rest = true) :
    Ev env (.pc (.marker c fl true) (stdF keys m md true) pos)
      (.ok (if fl then .list (some pos) (some (pos + 1)) [Node.chars pos (pos + 1) (psInfo (stdF keys m md true)) [c]]
            else .node (Node.chars pos (pos + 1) (psInfo (stdF keys m md true)) [c])) (pos + 1)) := by
  have hps := psStd_std keys m md true none hn
  have hsp : isPySpace c = false := by
    unfold markerOk at hm
    simp only [Bool.and_eq_true, Bool.not_eq_eq_eq_not, Bool.not_true] at hm
    exact hm.1.1.1.1.1.1
  obtain ⟨t, ht, hkind, harg, hpos, hpe, hpre⟩ := peekAtChar_marker (pre := []) hps hd hm
  have hpk : peekImpl (mkPS (stdF keys m md true)) env.s pos = .tok t := (peek0 hd hsp).trans ht
  refine Ev.of_const (fun rec => ?_)
  show parseContent env.tol (rawMarker env c fl true (stdF keys m md true) pos) = _
  unfold rawMarker
  rw [htol, peekTok_false, hpk]
  simp only [Bool.not_true, Bool.and_false, Bool.false_eq_true, if_false]
  have hcond : ((t.kind == TokKind.char || t.kind == TokKind.specials) && t.arg == [c]) = true := by
    rw [harg]
    rcases hkind with h | h
    · rw [h]; simp; exact Or.inl rfl
    · rw [h]; simp; exact Or.inr rfl
  rw [hcond]
  simp only [if_true]
  rw [hpos, hpe]
  cases fl <;> rfl

/-- the expression parser in front of a brace group -/
theorem expr_runs (htol : env.tol = false) (hn : NormOk m md) {pos p : Nat} {rest : Str} {g : Node}
    (hd : env.s.drop pos = '{' :: rest)
    (hg : Ev env (.pc (.group (.auto ['{']) false false) (stdF keys m md true) pos) (.ok (.node g) p)) :
    Ev env (.pc (.expression true) (stdF keys m md true) pos) (.ok (.node g) p) := by
  have hps := psStd_std keys m md false none hn
  have hpk : peekImpl (mkPS (stdF keys m md false)) env.s pos = _ := (peek0 hd (by decide)).trans (peekAtChar_open hps hd)
  obtain ⟨n, hg⟩ := hg
  have h1 : Ev env (.expr true [] (stdF keys m md true) pos) (.ok (.node g) p) := by
    refine Ev.of_step ⟨n, fun k hk => ?_⟩
    show exprStep env (run env k) true [] (stdF keys m md true) pos = _
    unfold exprStep
    simp only
    rw [ef_eq hn none, htol, peekTok_false, hpk]
    simp only
    unfold exprTok
    simp only [List.isEmpty_nil, Bool.not_true, Bool.false_eq_true, if_false]
    have e1 : (TokKind.braceOpen == TokKind.macro) = false := rfl
    have e2 : (TokKind.braceOpen == TokKind.specials) = false := rfl
    rw [e1, e2]
    simp only [Bool.false_eq_true, if_false]
    unfold exprOnTok
    simp only
    rw [hg k hk]
    rfl
  obtain ⟨n1, h1⟩ := h1
  refine Ev.of_step ⟨n1, fun k hk => ?_⟩
  show parseContent env.tol (.ret (run env k (.expr true [] (stdF keys m md true) pos))) = _
  rw [h1 k hk]
  rfl

/-- the expression parser in front of a single text character -/
theorem expr_tok_runs (htol : env.tol = false) (hn : NormOk m md) (hk : keysCore keys = true) {pos : Nat} {c : Char} {rest : Str}
    (hd : env.s.drop pos = c :: rest) (hc : isTextChar c = true) :
    Ev env (.pc (.expression true) (stdF keys m md true) pos)
      (.ok (.node (Node.chars pos (pos + 1) (psInfo (stdF keys m md true)) [c])) (pos + 1)) := by
  have hps := psStd_std keys m md false none hn
  have hpk : peekImpl (mkPS (stdF keys m md false)) env.s pos = _ :=
    (peek0 hd (textChar_ne hc).2.2.2.2.2).trans (peekAtChar_text hps trivial hk hd hc)
  have h1 : Ev env (.expr true [] (stdF keys m md true) pos)
      (.ok (.node (Node.chars pos (pos + 1) (psInfo (stdF keys m md true)) [c])) (pos + 1)) := by
    refine Ev.of_const (fun rec => ?_)
    show exprStep env rec true [] (stdF keys m md true) pos = _
    unfold exprStep
    simp only
    rw [ef_eq hn none, htol, peekTok_false, hpk]
    simp only
    unfold exprTok
    simp only [List.isEmpty_nil, Bool.not_true, Bool.false_eq_true, if_false]
    have e1 : (TokKind.char == TokKind.macro) = false := rfl
    have e2 : (TokKind.char == TokKind.specials) = false := rfl
    rw [e1, e2]
    simp only [Bool.false_eq_true, if_false]
    unfold exprOnTok
    rfl
  obtain ⟨n1, h1⟩ := h1
  refine Ev.of_step ⟨n1, fun k hk => ?_⟩
  show parseContent env.tol (.ret (run env k (.expr true [] (stdF keys m md true) pos))) = _
  rw [h1 k hk]
  rfl

/-! ### the arguments loop -/

/-- result of `argsLoop` for every sufficiently large amount of fuel -/
def ArgsEv (env : Env) (K : PSFields) (sig : List ArgSpec) (acc : List Arg) (pos : Nat) (r : Ret) : Prop :=
  ∃ N, ∀ k, N ≤ k → argsLoop env (run env k) K sig acc pos = r

theorem argsEv_nil (K : PSFields) (acc : List Arg) (pos : Nat) : ArgsEv env K [] acc pos (.ok (.args none none acc) pos) :=
  ⟨0, fun _ _ => rfl⟩

theorem argsEv_cons (htol : env.tol = false) {K : PSFields} {a : ArgSpec} {rest : List ArgSpec} {acc : List Arg} {pos p : Nat}
    {res : Res} {R : Ret} (hpk : ∀ w ep t r, peekImpl (mkPS K) env.s pos ≠ .err w ep t r)
    (harg : Ev env (.pc (argParser a.kind) (applyDelta K a.delta) pos) (.ok res p))
    (hrest : ArgsEv env K rest (acc ++ [resToArg res]) p R) : ArgsEv env K (a :: rest) acc pos R := by
  obtain ⟨n1, h1⟩ := harg
  obtain ⟨n2, h2⟩ := hrest
  refine ⟨max n1 n2, fun k hk => ?_⟩
  rw [argsLoop]
  rw [htol, peekTok_false]
  split
  · rename_i heq
    exact absurd heq (hpk _ _ _ _)
  · rw [h1 k (by omega)]
    exact h2 k (by omega)

theorem arguments_runs {K : PSFields} {sig : List ArgSpec} {pos p : Nat} {al : List Arg}
    (h : ArgsEv env K sig [] pos (.ok (.args none none al) p)) :
    Ev env (.pc (.arguments (.std sig)) K pos) (.ok (.args none none al) p) := by
  obtain ⟨n, h⟩ := h
  refine Ev.of_step ⟨n, fun k hk => ?_⟩
  show parseContent env.tol (.ret (argsLoop env (run env k) K sig [] pos)) = _
  rw [h k hk]
  rfl

theorem macroCall_runs {K : PSFields} {t : Token} {a : ArgsP} {pos p : Nat} {x y : Option Nat} {al : List Arg}
    (h : Ev env (.pc (.arguments a) K pos) (.ok (.args x y al) p)) :
    Ev env (.pc (.macroCall t a) K pos) (.ok (.node (Node.mac t.pos p (psInfo K) t.arg t.post (some al))) p) := by
  obtain ⟨n, h⟩ := h
  refine Ev.of_step ⟨n, fun k hk => ?_⟩
  show parseContent env.tol (rawCall (run env k) _ a K pos) = _
  unfold rawCall
  rw [h k hk]
  rfl

/-- the legacy `\verb` argument parser on `d text d` -/
theorem legacyVerb_runs (K : PSFields) {pos : Nat} {d : Char} {text rest : Str}
    (hd : env.s.drop pos = d :: (text ++ d :: rest)) (hsp : isPySpace d = false) (hnc : text.contains d = false) :
    Ev env (.pc (.arguments .legacyVerb) K pos)
      (.ok (.args (some (pos + 1)) (some (pos + 1 + text.length + 1))
        [.node (Node.chars (pos + 1) (pos + 1 + text.length) (psInfo K) text)]) (pos + 1 + text.length + 1)) := by
  refine Ev.of_const (fun rec => ?_)
  show parseContent env.tol (rawLegacyVerb env K pos) = _
  unfold rawLegacyVerb
  have hsr : spaceRun env.s pos = [] := spaceRun_of_drop (w := []) hd rfl (by simp [headIs, hsp])
  simp only [hsr, List.length_nil, Nat.add_zero]
  rw [getElem?_of_drop hd]
  simp only
  have hd1 : env.s.drop (pos + 1) = text ++ d :: rest := drop_succ_of_drop hd
  have hfind : findCharFrom env.s d (pos + 1) = some (pos + 1 + text.length) := by
    unfold findCharFrom
    rw [hd1, findIdx_char d text _ hnc]
  rw [hfind]
  simp only
  have hsl : slice env.s (pos + 1) (pos + 1 + text.length) = text := by
    unfold slice
    rw [hd1]
    have : pos + 1 + text.length - (pos + 1) = text.length := by omega
    rw [this, List.take_left']
    rfl
  rw [hsl]
  rfl

theorem specialsCall_runs {K : PSFields} {t : Token} {a : ArgsP} {pos p : Nat} {al : List Arg}
    (h : Ev env (.pc (.arguments a) K pos) (.ok (.args none none al) p)) :
    Ev env (.pc (.specialsCall t a) K pos) (.ok (.node (Node.specials t.pos p (psInfo K) t.arg (some al))) p) := by
  obtain ⟨n, h⟩ := h
  refine Ev.of_step ⟨n, fun k hk => ?_⟩
  show parseContent env.tol (rawCall (run env k) _ a K pos) = _
  unfold rawCall
  rw [h k hk]
  rfl

/-! ### environments -/

theorem envBody_runs {K : PSFields} {name : Str} {pos p : Nat} {a b : Option Nat} {ns : List Node}
    (h : Ev env (.pc (.general (.endEnv name) true .same) K pos) (.ok (.list a b ns) p)) :
    Ev env (.pc (.envBody name) K pos) (.ok (.list a b ns) p) := by
  obtain ⟨n, h⟩ := h
  refine Ev.of_step ⟨n, fun k hk => ?_⟩
  show parseContent env.tol (rawEnvBody (run env k) name K pos) = _
  unfold rawEnvBody
  rw [h k hk]
  rfl

theorem envCall_runs {K : PSFields} {t : Token} {a : ArgsP} {bm : Bool} {pos pA p : Nat} {x y : Option Nat} {al : List Arg}
    {a' b' : Option Nat} {ns : List Node}
    (hargs : Ev env (.pc (.arguments a) K pos) (.ok (.args x y al) pA))
    (hbody : Ev env (.pc (.envBody t.arg) (if bm then applyDelta K .enterMath else K) pA) (.ok (.list a' b' ns) p)) :
    Ev env (.pc (.envCall t a bm) K pos) (.ok (.node (Node.env t.pos p (psInfo K) t.arg (some al) (some ns))) p) := by
  obtain ⟨n1, h1⟩ := hargs
  obtain ⟨n2, h2⟩ := hbody
  refine Ev.of_step ⟨max n1 n2, fun k hk => ?_⟩
  show parseContent env.tol (rawEnvCall (run env k) t a bm K pos) = _
  unfold rawEnvCall
  rw [h1 k (by omega)]
  simp only [bindOk]
  rw [h2 k (by omega)]
  rfl

theorem beginStr_append (name Y : Str) : beginStr name ++ Y = '\\' :: (envWordStr true ++ '{' :: (name ++ '}' :: Y)) := by
  show ("\\begin{".toList ++ name ++ ['}']) ++ Y = _
  rw [List.append_assoc, List.append_assoc]
  rfl

theorem endStr_append (name Y : Str) : endStr name ++ Y = '\\' :: (envWordStr false ++ '{' :: (name ++ '}' :: Y)) := by
  show ("\\end{".toList ++ name ++ ['}']) ++ Y = _
  rw [List.append_assoc, List.append_assoc]
  rfl

theorem beginStr_length (name : Str) : (beginStr name).length = 1 + envWordLen true + 1 + name.length + 1 := by
  show ("\\begin{".toList ++ name ++ ['}']).length = _
  simp only [List.length_append, List.length_cons, List.length_nil]
  show 7 + name.length + 1 = 1 + 5 + 1 + name.length + 1
  omega

theorem endStr_length (name : Str) : (endStr name).length = 1 + envWordLen false + 1 + name.length + 1 := by
  show ("\\end{".toList ++ name ++ ['}']).length = _
  simp only [List.length_append, List.length_cons, List.length_nil]
  show 5 + name.length + 1 = 1 + 3 + 1 + name.length + 1
  omega

/-! ### what the collector does with the tokens that start a sub-parse -/

section dispatch
variable {L K : PSFields} {stop : StopTok} {child : ChildPS} {tk : Token} {nd : Node} {p : Nat}

theorem dispatch_macro {a : ArgsP} (hkind : tk.kind = .macro) (hspec : env.ctx.macroSpec tk.arg = some a)
    (hch : child.get L tk = K) (hcall : Ev env (.pc (.macroCall tk a) K tk.posEnd) (.ok (.node nd) p)) :
    ∀ st0 : LoopSt, st0.pos = tk.posEnd → ∃ N, ∀ k, N ≤ k →
      loopDispatch env (run env k) L stop child st0 tk =
        run env k (.loop L stop child { st0 with pos := p, acc := st0.acc ++ [nd] }) := by
  intro st0 hst0
  obtain ⟨N, hN⟩ := hcall
  refine ⟨N, fun k hk => ?_⟩
  unfold loopDispatch
  rw [hkind]
  simp only
  rw [hspec]
  simp only
  rw [hch, hst0, hN k hk]
  rfl

theorem dispatch_specials {a : ArgsP} (hkind : tk.kind = .specials) (hspec : lookupFirst tk.arg env.ctx.specials = some a)
    (hch : child.get L tk = K) (hcall : Ev env (.pc (.specialsCall tk a) K tk.posEnd) (.ok (.node nd) p)) :
    ∀ st0 : LoopSt, st0.pos = tk.posEnd → ∃ N, ∀ k, N ≤ k →
      loopDispatch env (run env k) L stop child st0 tk =
        run env k (.loop L stop child { st0 with pos := p, acc := st0.acc ++ [nd] }) := by
  intro st0 hst0
  obtain ⟨N, hN⟩ := hcall
  refine ⟨N, fun k hk => ?_⟩
  unfold loopDispatch
  rw [hkind]
  simp only
  rw [hspec]
  simp only
  rw [hch, hst0, hN k hk]
  rfl

theorem dispatch_env {ab : ArgsP × Bool} (hkind : tk.kind = .beginEnv) (hspec : env.ctx.envSpec tk.arg = some ab)
    (hch : child.get L tk = K) (hcall : Ev env (.pc (.envCall tk ab.1 ab.2) K tk.posEnd) (.ok (.node nd) p)) :
    ∀ st0 : LoopSt, st0.pos = tk.posEnd → ∃ N, ∀ k, N ≤ k →
      loopDispatch env (run env k) L stop child st0 tk =
        run env k (.loop L stop child { st0 with pos := p, acc := st0.acc ++ [nd] }) := by
  intro st0 hst0
  obtain ⟨N, hN⟩ := hcall
  refine ⟨N, fun k hk => ?_⟩
  unfold loopDispatch
  rw [hkind]
  simp only
  rw [hspec]
  simp only
  rw [hch, hst0, hN k hk]
  rfl

theorem dispatch_group (hkind : tk.kind = .braceOpen) (hch : child.get L tk = K)
    (hcall : Ev env (.pc (.group (.auto tk.arg) false false) K tk.pos) (.ok (.node nd) p)) :
    ∀ st0 : LoopSt, st0.pos = tk.posEnd → ∃ N, ∀ k, N ≤ k →
      loopDispatch env (run env k) L stop child st0 tk =
        run env k (.loop L stop child { st0 with pos := p, acc := st0.acc ++ [nd] }) := by
  intro st0 _
  obtain ⟨N, hN⟩ := hcall
  refine ⟨N, fun k hk => ?_⟩
  unfold loopDispatch
  rw [hkind]
  simp only
  rw [hch, hN k hk]
  rfl

theorem dispatch_math (hkind : tk.kind = .mathInline ∨ tk.kind = .mathDisplay) (hch : child.get L tk = K)
    (hopen : (mkPS L).t.mathByOpen.any (fun d => d.1 == tk.arg) = true)
    (hcall : Ev env (.pc (.math tk.arg) K tk.pos) (.ok (.node nd) p)) :
    ∀ st0 : LoopSt, st0.pos = tk.posEnd → ∃ N, ∀ k, N ≤ k →
      loopDispatch env (run env k) L stop child st0 tk =
        run env k (.loop L stop child { st0 with pos := p, acc := st0.acc ++ [nd] }) := by
  intro st0 _
  obtain ⟨N, hN⟩ := hcall
  refine ⟨N, fun k hk => ?_⟩
  unfold loopDispatch
  rcases hkind with hkind | hkind
  · rw [hkind]
    simp only
    rw [hopen]
    simp only [if_true]
    rw [hch, hN k hk]
    rfl
  · rw [hkind]
    simp only
    rw [hopen]
    simp only [if_true]
    rw [hch, hN k hk]
    rfl

theorem dispatch_comment (hkind : tk.kind = .comment) :
    ∀ st0 : LoopSt, st0.pos = tk.posEnd → ∃ N, ∀ k, N ≤ k →
      loopDispatch env (run env k) L stop child st0 tk =
        run env k (.loop L stop child { st0 with pos := tk.posEnd, acc := st0.acc ++ [Node.comment tk.pos tk.posEnd (psInfo L) tk.arg tk.post] }) := by
  intro st0 hst0
  refine ⟨0, fun k _ => ?_⟩
  unfold loopDispatch
  rw [hkind]
  simp only
  rw [← hst0]

end dispatch

/-! ### math -/

theorem mathFields_std (k : FKind) :
    mathFields (stdF keys false none true) k.opener = stdF keys true (some k.opener) true := rfl

theorem stdExpect_opener (k : FKind) : stdExpect true (some k.opener) = some (k.closer, k.display) := by
  cases k <;> rfl

theorem normOk_true (md : Option Str) : NormOk true md := fun h => by cases h

/-- `LatexMathParser` on `opener body closer` -/
theorem math_runs (htol : env.tol = false) (k : FKind) {pos p : Nat} {rest : Str} {a b : Option Nat} {ns : List Node}
    (hd : env.s.drop pos = k.opener ++ rest) (hdollar : k = .dollar → headIs (· == '$') rest = false)
    (hb : Ev env (.pc (.general (.mathClose k.display k.closer) true .same) (stdF keys true (some k.opener) true)
      (pos + k.opener.length)) (.ok (.list a b ns) p)) :
    Ev env (.pc (.math k.opener) (stdF keys false none true) pos)
      (.ok (.node (Node.math pos p (psInfo (stdF keys false none true)) k.display k.opener k.closer (some ns))) p) := by
  have hps := psStd_std keys false none true none (fun _ => rfl)
  obtain ⟨c, r0, hc⟩ : ∃ c r0, k.opener = c :: r0 := by cases k <;> exact ⟨_, _, rfl⟩
  have hcs : isPySpace c = false := by cases k <;> (cases hc; decide)
  have hd' : env.s.drop pos = c :: (r0 ++ rest) := by rw [hd, hc]; rfl
  have hpk : peekImpl (mkPS (stdF keys false none true)) env.s pos = .tok (mathTok pos [] k.opener k.display) :=
    (peek0 hd' hcs).trans (peekAtChar_mathOpen hps k hd hdollar (by rw [hc]; rfl))
  obtain ⟨n, hb⟩ := hb
  refine Ev.of_step ⟨n, fun j hj => ?_⟩
  show parseContent env.tol (rawMath env (run env j) k.opener (stdF keys false none true) pos) = _
  unfold rawMath
  rw [htol, peekTok_false, hpk]
  simp only
  unfold rawMathTok
  have hex : (mkPS (mathFields (stdF keys false none true) (mathTok pos [] k.opener k.display).arg)).t.expectClose
      = some (k.closer, k.display) := by
    show (mkPS (mathFields (stdF keys false none true) k.opener)).t.expectClose = _
    rw [mathFields_std, (psStd_std keys true (some k.opener) true none (normOk_true _)).expect, stdExpect_opener]
  have hkd : ((mathTok pos [] k.opener k.display).kind == TokKind.mathDisplay) = k.display := by cases k <;> rfl
  have hcond : ((mathTok pos [] k.opener k.display).pre.isEmpty &&
      ((mathTok pos [] k.opener k.display).kind == TokKind.mathInline || (mathTok pos [] k.opener k.display).kind == TokKind.mathDisplay) &&
      (mathTok pos [] k.opener k.display).arg == k.opener) = true := by
    cases k <;> rfl
  rw [hcond, hex]
  simp only [if_true]
  rw [hkd]
  have e1 : (mathTok pos [] k.opener k.display).arg = k.opener := rfl
  have e2 : (mathTok pos [] k.opener k.display).posEnd = pos + k.opener.length := rfl
  have e3 : (mathTok pos [] k.opener k.display).pos = pos := rfl
  rw [e1, e2, e3, mathFields_std, hb j hj]
  rfl

end parsers

end C02
end Pylx
