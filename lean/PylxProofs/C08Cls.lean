/-
  C08, classes — numeric class codes and the Boolean check "every alphabet character of this slice has a class
  representative" (evaluated by the kernel in the files `C08Cls[A-H]`).
-/
import PylxProofs.C08Defs
namespace Pylx.C08
open Pylx Pylx.EncB

/-- numeric code of a class (a closed `Nat` term evaluates to a literal, which lets the kernel compute the classes of
    the representatives once instead of once per alphabet character) -/
def shapeCode : C13.Shape → Nat
  | .empty => 0 | .plain => 1 | .escape => 2 | .word => 3 | .macroEmpty => 4 | .ensuremath => 5 | .accentBraced => 6
  | .accentBare => 7 | .macroGroups => 8 | .macroSeq => 9 | .group => 10 | .bareAccent => 11 | .other => 12

def clsCode : Cls → Nat
  | .shape none => 0
  | .shape (some s) => 1 + shapeCode s
  | .letter => 20 | .digit => 21 | .space => 22 | .newline => 23 | .punct => 24

theorem shapeCode_inj {a b : C13.Shape} (h : shapeCode a = shapeCode b) : a = b := by
  cases a <;> cases b <;> first | rfl | (simp [shapeCode] at h)

theorem shapeCode_lt (a : C13.Shape) : shapeCode a < 13 := by cases a <;> simp [shapeCode]

theorem clsCode_inj {a b : Cls} (h : clsCode a = clsCode b) : a = b := by
  cases a with
  | shape sa =>
    cases b with
    | shape sb =>
      cases sa <;> cases sb <;> simp only [clsCode] at h
      · rfl
      · omega
      · omega
      · rename_i x y
        have : x = y := shapeCode_inj (by omega)
        rw [this]
    | _ => cases sa <;> simp only [clsCode] at h <;> first | omega | (rename_i s; have := shapeCode_lt s; omega)
  | _ =>
    cases b with
    | shape sb => cases sb <;> simp only [clsCode] at h <;> first | omega | (rename_i s; have := shapeCode_lt s; omega)
    | _ => first | rfl | (simp [clsCode] at h)

def forceNat {β : Type} (n : Nat) (k : Nat → β) : β :=
  match n with
  | 0 => k 0
  | m + 1 => k (m + 1)

theorem forceNat_eq {β : Type} (n : Nat) (k : Nat → β) : forceNat n k = k n := by
  cases n <;> rfl

def forceCodes {β : Type} : List Nat → (List Nat → β) → β
  | [], k => k []
  | n :: ns, k => forceNat n fun n' => forceCodes ns fun l => k (n' :: l)

theorem forceCodes_eq {β : Type} (l : List Nat) (k : List Nat → β) : forceCodes l k = k l := by
  induction l generalizing k with
  | nil => rfl
  | cons n ns ih => simp [forceCodes, forceNat_eq, ih]

/-- every character of the chunk has a representative with the same class code -/
def CoverOk (ch : List Nat) : Bool :=
  ch.all (fun k => (Gen.c08Reps.map (fun r => clsCode (classOf r))).contains (clsCode (classOf k)))

def coverSlice (lo n : Nat) : Bool :=
  forceCodes (Gen.c08Reps.map (fun r => clsCode (classOf r))) fun codes =>
    ((Gen.c08AlphaChunks.drop lo).take n).all (fun ch => ch.all (fun k => codes.contains (clsCode (classOf k))))

def coverRest (lo : Nat) : Bool :=
  forceCodes (Gen.c08Reps.map (fun r => clsCode (classOf r))) fun codes =>
    (Gen.c08AlphaChunks.drop lo).all (fun ch => ch.all (fun k => codes.contains (clsCode (classOf k))))

theorem coverSlice_spec {lo n : Nat} (h : coverSlice lo n = true) :
    ((Gen.c08AlphaChunks.drop lo).take n).all CoverOk = true := by
  unfold coverSlice at h
  rw [forceCodes_eq] at h
  exact h

theorem coverRest_spec {lo : Nat} (h : coverRest lo = true) : (Gen.c08AlphaChunks.drop lo).all CoverOk = true := by
  unfold coverRest at h
  rw [forceCodes_eq] at h
  exact h

end Pylx.C08
