/-
  C01TTok — what the *tolerant* reader guarantees about the tokens the parser proofs of C01 (tolerant clause)
  use: spans (from C11) and, for `char` tokens and recovery placeholders, the length of the carried text.
-/
import PylxProofs.C01
import PylxProofs.C05Tok
namespace Pylx

/-- a recovery placeholder is a `char` token whose text fits in its span; the only placeholder with an empty
    text (escape character at the very end) ends at the end of the input -/
def PhOkT (s : Str) (t : Token) : Prop :=
  t.kind = .char ∧ t.pos + t.arg.length ≤ t.posEnd ∧ (t.arg = [] → t.posEnd = s.length)

def ErrResT (s : Str) : PeekRes → Prop
  | .err _ _ t _ => PhOkT s t
  | _ => True

section readersT
variable {ps : PState} {s : Str} {p0 p : Nat} {pre : Str} {c : Char}

theorem charToken_errT : ErrResT s (charToken ps c p pre) := by
  unfold charToken
  split
  · exact ⟨rfl, by simp, by intro h; cases h⟩
  · trivial

theorem peekSpecialsOrChar_errT : ErrResT s (peekSpecialsOrChar ps s p c pre) := by
  unfold peekSpecialsOrChar
  split
  · trivial
  · exact charToken_errT

theorem peekGroups_errT : ErrResT s (peekGroups ps s p c pre) := by
  unfold peekGroups
  split
  · split
    · trivial
    · split
      · trivial
      · exact peekSpecialsOrChar_errT
  · exact peekSpecialsOrChar_errT

theorem readComment_errT : ErrResT s (readComment ps s p pre) := by
  unfold readComment
  dsimp only
  split <;> trivial

theorem peekComment_errT : ErrResT s (peekComment ps s p c pre) := by
  unfold peekComment
  split
  · exact readComment_errT
  · exact peekGroups_errT

theorem readMacro_errT (h : AtChar s p0 pre p c) : ErrResT s (readMacro ps s p pre) := by
  have hlt := h.lt
  unfold readMacro
  split
  · rename_i hnone
    have hlen : s.length = p + 1 := by
      rcases Nat.lt_or_ge (p + 1) s.length with h1 | h1
      · rw [List.getElem?_eq_getElem h1] at hnone; cases hnone
      · omega
    exact ⟨rfl, by simp, fun _ => hlen.symm⟩
  · split <;> trivial

theorem readEnvironment_errT (b : Bool) : ErrResT s (readEnvironment ps s p b pre) := by
  unfold readEnvironment
  split
  · refine ⟨rfl, ?_, ?_⟩
    · show p + (ps.f.escapeChar :: envWordStr b).length ≤ p + (1 + envWordLen b)
      rw [List.length_cons, envWordStr_length]; omega
    · intro h; cases h
  · trivial

theorem peekEscape_errT (h : AtChar s p0 pre p c) : ErrResT s (peekEscape ps s p c pre) := by
  unfold peekEscape
  split
  · split
    · exact readEnvironment_errT _
    · split
      · exact readMacro_errT h
      · exact peekComment_errT
  · exact peekComment_errT

theorem peekAtChar_errT (h : AtChar s p0 pre p c) : ErrResT s (peekAtChar ps s p c pre) := by
  unfold peekAtChar
  split
  · split
    · trivial
    · exact peekEscape_errT h
  · exact peekEscape_errT h

end readersT

theorem peekPar_errT (ps : PState) (s : Str) (p0 : Nat) (pre : Str) : ErrResT s (peekPar ps s p0 pre) := by
  unfold peekPar
  split <;> trivial

theorem peekImpl_errT (ps : PState) (s : Str) (p0 : Nat) : ErrResT s (peekImpl ps s p0) := by
  unfold peekImpl
  simp only
  split
  · exact peekPar_errT ps s p0 _
  · split
    · trivial
    · rename_i c hc
      exact peekAtChar_errT ⟨rfl, rfl, hc⟩

/-- everything the tolerant parser proofs need about a token read with the reader at `p0` -/
structure TokInfoT (s : Str) (p0 : Nat) (t : Token) : Prop where
  pos_eq : t.pos = p0 + t.pre.length
  le : t.pos ≤ t.posEnd
  adv : p0 < t.posEnd
  in_range : t.posEnd ≤ s.length
  charLen : t.kind = .char → t.pos + t.arg.length ≤ t.posEnd
  charEmpty : t.kind = .char → t.arg = [] → t.posEnd = s.length

theorem tokInfoT_of_peek {s cs : Str} {f : PSFields} (hf : FOk cs f) {p : Nat} {t : Token}
    (h : peekTok true (mkPS f) s p = .tok t) : TokInfoT s p t := by
  have hs := C11_tolerant_span (mkPS f) (tablesOk_of_fields f hf.delims) s p t h
  have hpe := hs.pos_eq
  have hne := hs.nonempty
  have hin := hs.in_range
  have hchar : (t.kind = .char → t.pos + t.arg.length ≤ t.posEnd) ∧ (t.kind = .char → t.arg = [] → t.posEnd = s.length) := by
    have he := peekImpl_errT (mkPS f) s p
    have ht := peekImpl_text (mkPS f) s p
    unfold peekTok at h
    split at h
    · rename_i w ep t' r heq
      rw [heq] at he
      simp only [if_true] at h
      cases h
      exact ⟨fun _ => he.2.1, fun _ => he.2.2⟩
    · rw [h] at ht
      have hlen : t.kind = .char → t.arg.length = t.posEnd - t.pos := by
        intro hk
        have ht : TokText s _ t := ht
        unfold TokText at ht
        rw [hk] at ht
        dsimp only at ht
        rw [ht]
        exact slice_length s _ _ (by omega) hin
      constructor
      · intro hk; have := hlen hk; omega
      · intro hk ha
        have := hlen hk
        rw [ha] at this
        simp at this
        omega
  exact { pos_eq := hpe, le := by omega, adv := by omega, in_range := hin,
          charLen := hchar.1, charEmpty := hchar.2 }

/-- at the end of the stream the final space is all that is left (tolerant reader) -/
theorem eos_of_peekT {s cs : Str} {f : PSFields} (hf : FOk cs f) {p : Nat} {fs : Str} (hp : p ≤ s.length)
    (h : peekTok true (mkPS f) s p = .eos fs) : fs = s.drop p := by
  have h' := peekTok_eos h
  have hr := peekImpl_ok (mkPS f) (tablesOk_of_fields f hf.delims) s p
  rw [h'] at hr
  rcases hr with hr | hr
  · exact hr
  · omega

end Pylx
