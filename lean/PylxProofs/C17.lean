/-
  C17 — a derived parsing state behaves exactly like a freshly built one.
  Theorems about `Pylx.PState.subContext` (model of ParsingState.sub_context with its cache inheritance).
-/
import Pylx.Tok
namespace Pylx

/-- state invariant: the cached tables are the ones computed from the fields, and the fields are normalised -/
def PState.Inv (p : PState) : Prop := p.t = computeTables p.f ∧ p.f.normalize = p.f

theorem normalize_idem (f : PSFields) : f.normalize.normalize = f.normalize := by
  unfold PSFields.normalize
  split
  · rename_i h; simp [h]
  · rename_i h; simp [h]

theorem fresh_inv (f : PSFields) : (PState.fresh f).Inv :=
  ⟨rfl, normalize_idem f⟩

@[simp] theorem normalize_groupDelims (f : PSFields) : f.normalize.groupDelims = f.groupDelims := by
  unfold PSFields.normalize; split <;> rfl
@[simp] theorem normalize_inlineDelims (f : PSFields) : f.normalize.inlineDelims = f.inlineDelims := by
  unfold PSFields.normalize; split <;> rfl
@[simp] theorem normalize_displayDelims (f : PSFields) : f.normalize.displayDelims = f.displayDelims := by
  unfold PSFields.normalize; split <;> rfl
@[simp] theorem normalize_inMath (f : PSFields) : f.normalize.inMath = f.inMath := by
  unfold PSFields.normalize; split <;> rfl

theorem apply_groupDelims (c : Change) (f : PSFields) (h : c.isGroup = false) :
    (c.apply f).groupDelims = f.groupDelims := by
  cases c <;> simp [Change.apply, Change.isGroup] at * 

theorem apply_mathLists (c : Change) (f : PSFields) (h : c.isMathList = false) :
    (c.apply f).inlineDelims = f.inlineDelims ∧ (c.apply f).displayDelims = f.displayDelims := by
  cases c <;> simp [Change.apply, Change.isMathList] at *

theorem apply_mode (c : Change) (f : PSFields) (h : c.isMode = false) :
    (c.apply f).inMath = f.inMath ∧ (c.apply f).mathDelim = f.mathDelim := by
  cases c <;> simp [Change.apply, Change.isMode] at *

theorem foldl_groupDelims (kw : List Change) (f : PSFields) (h : kw.any (·.isGroup) = false) :
    (kw.foldl (fun f c => c.apply f) f).groupDelims = f.groupDelims := by
  induction kw generalizing f with
  | nil => rfl
  | cons c kw ih =>
    simp only [List.any_cons, Bool.or_eq_false_iff] at h
    rw [List.foldl_cons, ih _ h.2, apply_groupDelims c f h.1]

theorem foldl_mathLists (kw : List Change) (f : PSFields) (h : kw.any (·.isMathList) = false) :
    (kw.foldl (fun f c => c.apply f) f).inlineDelims = f.inlineDelims ∧
    (kw.foldl (fun f c => c.apply f) f).displayDelims = f.displayDelims := by
  induction kw generalizing f with
  | nil => exact ⟨rfl, rfl⟩
  | cons c kw ih =>
    simp only [List.any_cons, Bool.or_eq_false_iff] at h
    rw [List.foldl_cons]
    have := ih (c.apply f) h.2
    have h2 := apply_mathLists c f h.1
    exact ⟨this.1.trans h2.1, this.2.trans h2.2⟩

theorem foldl_mode (kw : List Change) (f : PSFields) (h : kw.any (·.isMode) = false) :
    (kw.foldl (fun f c => c.apply f) f).inMath = f.inMath ∧
    (kw.foldl (fun f c => c.apply f) f).mathDelim = f.mathDelim := by
  induction kw generalizing f with
  | nil => exact ⟨rfl, rfl⟩
  | cons c kw ih =>
    simp only [List.any_cons, Bool.or_eq_false_iff] at h
    rw [List.foldl_cons]
    have := ih (c.apply f) h.2
    have h2 := apply_mode c f h.1
    exact ⟨this.1.trans h2.1, this.2.trans h2.2⟩

theorem groupTables_congr (f g : PSFields) (h : f.groupDelims = g.groupDelims) : groupTables f = groupTables g := by
  simp [groupTables, h]

theorem mathTables_congr (f g : PSFields) (h1 : f.inlineDelims = g.inlineDelims) (h2 : f.displayDelims = g.displayDelims) :
    mathTables f = mathTables g := by
  simp [mathTables, h1, h2]

theorem expectCloseOf_congr (f g : PSFields) (bo) (h1 : f.inMath = g.inMath) (h2 : f.mathDelim = g.mathDelim) :
    expectCloseOf f bo = expectCloseOf g bo := by
  simp [expectCloseOf, h1, h2]

/-- in a normalised field set the delimiter is kept exactly when in math mode -/
theorem normalize_mathDelim_of_fixed (f g : PSFields) (hg : g.normalize = g) (h1 : f.inMath = g.inMath) (h2 : f.mathDelim = g.mathDelim) :
    f.normalize.mathDelim = g.mathDelim := by
  cases hgm : g.inMath with
  | true =>
    have hfm : f.inMath = true := by rw [h1, hgm]
    simp [PSFields.normalize, hfm, h2]
  | false =>
    have hfm : f.inMath = false := by rw [h1, hgm]
    have hgn : g.mathDelim = none := by
      have := congrArg PSFields.mathDelim hg
      simpa [PSFields.normalize, hgm] using this.symm
    simp [PSFields.normalize, hfm, hgn]

/-- one `sub_context` step of the repaired code preserves the invariant -/
theorem subContext_inv (p : PState) (kw : List Change) (h : p.Inv) : (p.subContext false kw).Inv := by
  obtain ⟨ht, hn⟩ := h
  unfold PState.subContext PState.Inv
  simp only
  generalize hkw : kw.filter (·.differs p.f) = kw2
  generalize hf' : kw2.foldl (fun f c => c.apply f) p.f = f'
  refine ⟨?_, normalize_idem f'⟩
  have htg : (p.t.groupByOpen, p.t.groupClose) = groupTables p.f := by rw [ht]; rfl
  have htm : (p.t.mathStart, p.t.mathAll, p.t.mathByOpen) = mathTables p.f := by rw [ht]; rfl
  have hte : p.t.expectClose = expectCloseOf p.f (mathTables p.f).2.2 := by rw [ht]; rfl
  -- group tables
  have hG : (if kw2.any (·.isGroup) then groupTables f'.normalize else (p.t.groupByOpen, p.t.groupClose))
      = groupTables f'.normalize := by
    by_cases hg : kw2.any (·.isGroup) = true
    · rw [if_pos hg]
    · rw [if_neg hg, htg]
      apply groupTables_congr
      rw [normalize_groupDelims, ← hf', foldl_groupDelims kw2 p.f (by simpa using hg)]
  have hM : (if kw2.any (·.isMathList) then mathTables f'.normalize else (p.t.mathStart, p.t.mathAll, p.t.mathByOpen))
      = mathTables f'.normalize := by
    by_cases hg : kw2.any (·.isMathList) = true
    · rw [if_pos hg]
    · rw [if_neg hg, htm]
      have := foldl_mathLists kw2 p.f (by simpa using hg)
      rw [hf'] at this
      apply mathTables_congr
      · rw [normalize_inlineDelims, this.1]
      · rw [normalize_displayDelims, this.2]
  rw [hG, hM]
  have hE : (if (kw2.any (·.isMode) || (!false && kw2.any (·.isMathList))) = true
              then expectCloseOf f'.normalize (mathTables f'.normalize).2.2 else p.t.expectClose)
      = expectCloseOf f'.normalize (mathTables f'.normalize).2.2 := by
    by_cases hc : (kw2.any (·.isMode) || (!false && kw2.any (·.isMathList))) = true
    · rw [if_pos hc]
    · rw [if_neg hc, hte]
      simp only [Bool.not_false, Bool.true_and, Bool.or_eq_true, not_or, Bool.not_eq_true] at hc
      have hmo := foldl_mode kw2 p.f hc.1
      have hml := foldl_mathLists kw2 p.f hc.2
      rw [hf'] at hmo hml
      have hmt : mathTables f'.normalize = mathTables p.f :=
        mathTables_congr _ _ (by rw [normalize_inlineDelims, hml.1]) (by rw [normalize_displayDelims, hml.2])
      rw [hmt]
      apply expectCloseOf_congr
      · rw [normalize_inMath, hmo.1]
      · exact (normalize_mathDelim_of_fixed f' p.f hn hmo.1 hmo.2).symm
  simp only [computeTables]
  rw [hE]

theorem chain_inv (p : PState) (ch : List (List Change)) (h : p.Inv) : (PState.chain false p ch).Inv := by
  induction ch generalizing p with
  | nil => exact h
  | cons kw ch ih => exact ih _ (subContext_inv p kw h)

/-- **C17 (tables).** For every root field set and every chain of `sub_context` keyword sets, the cached
    tables of the derived state are exactly the tables computed from its fields. -/
theorem C17_tables (f0 : PSFields) (ch : List (List Change)) :
    (PState.chain false (PState.fresh f0) ch).t = computeTables (PState.chain false (PState.fresh f0) ch).f :=
  (chain_inv _ ch (fresh_inv f0)).1

/-- **C17 (derived = fresh).** The derived state *is* the state built directly from its field values. -/
theorem C17_derived_eq_fresh (f0 : PSFields) (ch : List (List Change)) :
    PState.chain false (PState.fresh f0) ch = PState.fresh (PState.chain false (PState.fresh f0) ch).f := by
  have h := chain_inv _ ch (fresh_inv f0)
  generalize PState.chain false (PState.fresh f0) ch = p at h
  obtain ⟨ht, hn⟩ := h
  cases p with
  | mk f t =>
    simp only [PState.fresh] at *
    rw [hn, ← ht]

/-- **C17 (fields).** The fields of a derived state are the parent's fields updated by the keywords that
    differ from the current values, then normalised as the constructor does. -/
theorem C17_fields (b : Bool) (p : PState) (kw : List Change) :
    (p.subContext b kw).f = ((kw.filter (·.differs p.f)).foldl (fun f c => c.apply f) p.f).normalize := rfl

/-- a keyword equal to the current value changes nothing -/
theorem apply_of_not_differs (c : Change) (f : PSFields) (h : c.differs f = false) : c.apply f = f := by
  cases c <;> simp [Change.differs, Change.apply] at * <;> (cases f; simp_all)

/-- **C17 (same behaviour).** Hence tokenizing with the derived state equals tokenizing with the fresh state
    of the same fields, at every position of every string, strict or tolerant. -/
theorem C17_same_peek (f0 : PSFields) (ch : List (List Change)) (tol : Bool) (s : Str) (pos : Nat) :
    peekTok tol (PState.chain false (PState.fresh f0) ch) s pos
      = peekTok tol (PState.fresh (PState.chain false (PState.fresh f0) ch).f) s pos := by
  rw [← C17_derived_eq_fresh]

/-- The pinned tree (before the repair, `inheritBug = true`) violates the property: enter math mode with `$`,
    then change the inline delimiters to `$…!` — the derived state still expects `$`. -/
theorem C17_as_is_counterexample :
    let p := PState.chain true (PState.fresh {}) [[.inMath true, .mathDelim (some ['$'])], [.inlineDelims [(['$'], ['!'])]]]
    p.t ≠ computeTables p.f ∧ p.t.expectClose = some (['$'], false) ∧ (computeTables p.f).expectClose = some (['!'], false) := by
  decide

/-- Non-vacuity: a concrete chain that recomputes and inherits different table groups. -/
example : (PState.chain false (PState.fresh {}) [[.inMath true, .mathDelim (some ['$'])], [.inlineDelims [(['$'], ['!'])]]]).t.expectClose
    = some (['!'], false) := by decide

end Pylx
