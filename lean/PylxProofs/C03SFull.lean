/-
  C03SFull — step 4, the induction: for every option set, the position-free renderer on the exact tree of a core
  document gives the text of the documented rules (`specItems`), and the string-level statement `C03_full` under
  explicit decidable hypotheses (`C03_full_partial`).
-/
import PylxProofs.C03SSpec
namespace Pylx.L2T.C03S
open Pylx Pylx.L2T Pylx.Doc
open Pylx.L2T.C03 (specItems specArgs specFirst flushRun groupRule commentText commentPost macroText formulaText
  fillFormat isBareArgs argWritten nextIsRun coreText coreTextArgs isFormatRepl isLitRepl)

/-- how the state of `specItems` (`skipW`, `run`) and the state of `exactRaw` (`prev`) go together -/
inductive Mode : Bool → Option Str → Option Str → Prop
  | normal (run : Option Str) : Mode false run none
  | afterComment (tail : Str) : Mode true none (some tail)

/-- what the induction proves of a list of items -/
def ItemsGoal (E : XE) (d : List Item) : Prop :=
  ∀ (c : Sls) (skipW : Bool) (run prev : Option Str), Mode skipW run prev →
    ∀ (prevNode : Option XNode) (acc : Str) (st : St) (bp : Str),
      (∀ n, preOfX E c prevNode n = .ok (if n.isChars then bp else [])) → (skipW = true → bp = []) →
      renderXList E c prevNode acc (mergeX (pendRun run ++ exactRaw E.ctx prev d)) st =
        .ok (acc ++ ((if run.isSome || nextIsRun d then bp else []) ++ specItems E.opts E.lib E.db c skipW run d), st)

/-- a body (group, argument, formula, environment): rendered on its own -/
theorem body_of_goal {E : XE} {d : List Item} (h : ItemsGoal E d) (c : Sls) (st : St) :
    renderXList E c none [] (mergeX (exactRaw E.ctx none d)) st = .ok (specItems E.opts E.lib E.db c false none d, st) := by
  have := h c false none none (.normal none) none [] st [] (fun n => preOfX_none E c n) (fun h => by cases h)
  simpa [pendRun] using this

/-- what the induction proves of a list of arguments -/
def ArgsGoal (E : XE) (args : List ArgVal) : Prop :=
  ∀ (c : Sls),
    (∀ st, argsEachX E c (exactArgs E.ctx args) st = .ok (specArgs E.opts E.lib E.db c args, st)) ∧
    (∀ st, argsCatX E c (exactArgs E.ctx args) st = .ok ((specArgs E.opts E.lib E.db c args).flatten, st)) ∧
    (args ≠ [] → ∀ st, singleAtX E c 0 (exactArgs E.ctx args) st = .ok ((specFirst E.opts E.lib E.db c args).getD [], st))

/-! ### a macro call -/

theorem macTh_each (E : XE) (c : Sls) (l : List XArg) : (macTh E c (some l)).each = argsEachX E c l := rfl
theorem macTh_single (E : XE) (c : Sls) (l : List XArg) (k : Nat) : (macTh E c (some l)).single k = singleAtX E c k l := rfl
theorem macTh_n (E : XE) (c : Sls) (l : List XArg) : (macTh E c (some l)).n = l.length := rfl
theorem macTh_noArgd (E : XE) (c : Sls) (l : List XArg) : (macTh E c (some l)).noArgd = false := rfl
theorem macTh_absent (E : XE) (c : Sls) (l : List XArg) (k : Nat) : (macTh E c (some l)).absent k = absentAtX l k := rfl

theorem legacyView_mac (E : XE) (c : Sls) (name : Str) (l : List XArg) (hl : l ≠ []) :
    legacyView (E.at []) ⟨.mac, name, 0, 0⟩ (macTh E c (some l)) = legacyOfMacro E.ctx name := by
  unfold legacyView
  rw [macTh_n]
  have : (l.length == 0) = false := by
    cases l with
    | nil => exact absurd rfl hl
    | cons a l => rfl
  rw [this]
  rfl

theorem mac_ok (E : XE) (hdb : dbOk E.db = true) (c : Sls) (name post : Str) (args : List ArgVal) (st : St)
    (hcore : (match lookupFirst name E.db.macros with
      | none => args.isEmpty
      | some sp =>
        match sp.repl with
        | .lit _ => args.isEmpty
        | .const _ => args.isEmpty
        | .none => isFormatRepl sp
        | .accent _ => args.length == 1
        | .fmt _ _ => name == "frac".toList || name == "sqrt".toList
        | .item => true
        | _ => false) = true)
    (hcargs : coreTextArgs E.db args = true) (hok : macOk E.ctx E.db name args = true) (ha : ArgsGoal E args) :
    renderXNode E c (.mac name post (some (exactArgs E.ctx args))) st =
      .ok (macroText E.lib E.db name (specArgs E.opts E.lib E.db c args) (specFirst E.opts E.lib E.db c args), st) := by
  obtain ⟨ha1, ha2, ha3⟩ := ha c
  rw [mac_unfold]
  unfold macroText
  unfold macOk at hok
  rw [Bool.and_eq_true] at hok
  obtain ⟨_, hok⟩ := hok
  cases hl : lookupFirst name E.db.macros with
  | none =>
    simp only [Option.getD_none]
    unfold applySpec
    simp [replTruthy, R.pure]
  | some sp =>
    rw [hl] at hcore hok
    simp only [Option.getD_some] at hcore hok ⊢
    have hmem := lookupFirst_mem name _ sp hl
    obtain ⟨shd, sdc, srepl⟩ := sp
    cases srepl with
    | lit s =>
      have hsym : s ≠ [] ∨ (shd = true ∧ sdc = true) := by
        unfold dbOk at hdb
        simp only [Bool.and_eq_true, List.all_eq_true] at hdb
        have := hdb.1.1.1 _ hmem
        simp only [Bool.or_eq_true, Bool.not_eq_eq_eq_not, Bool.not_true, Bool.and_eq_true] at this
        rcases this with h | h
        · left; intro e; rw [e] at h; simp at h
        · right; exact h
      rw [C03.applySpec_lit _ _ _ ⟨shd, sdc, .lit s⟩ _ s rfl hsym]
      rfl
    | const s =>
      simp only [applySpec, replTruthy, applyCallable, ↓reduceIte]
      rfl
    | none =>
      unfold isFormatRepl at hcore
      simp only [Bool.and_eq_true, Bool.not_eq_eq_eq_not, Bool.not_true] at hcore
      rw [C03.applySpec_none _ _ _ ⟨shd, sdc, .none⟩ _ rfl hcore.1.2 hcore.2]
      show argsCatX E c (exactArgs E.ctx args) st = _
      rw [ha2 st]
      simp only [hcore.2]
      rfl
    | accent comb =>
      simp only [beq_iff_eq, decide_eq_true_eq] at hcore hok
      have hne : args ≠ [] := by intro e; rw [e] at hcore; simp at hcore
      have hlne : exactArgs E.ctx args ≠ [] := by
        intro e
        have := exactArgs_length E.ctx args
        rw [e, hcore] at this
        simp at this
      simp only [applySpec, replTruthy, applyCallable, ↓reduceIte]
      rw [legacyView_mac E c name _ hlne, hok, macTh_noArgd, macTh_n, exactArgs_length, hcore]
      simp only [Bool.false_eq_true, ↓reduceIte, legacyCheck, R.ofOut, Nat.reduceLeDiff, macTh_single]
      simp only [R.bind, R.pure, ha3 hne st]
      rw [strip_getD]
      rfl
    | fmt raw segs =>
      simp only [decide_eq_true_eq] at hok
      simp only [applySpec, replTruthy, ↓reduceIte]
      unfold applyString
      have hk : ((⟨Kind.mac, name, 0, 0⟩ : NodeInfo).kind == Kind.env) = false := rfl
      rw [hk, macTh_noArgd, macTh_each]
      simp only [Bool.false_eq_true, if_false]
      rw [bind_ok (ha1 st)]
      have hpad : (((walkerSpec (E.at []) Kind.mac name).map sigLen).getD 0) - (specArgs E.opts E.lib E.db c args).length = 0 := by
        rw [specArgs_length]
        have : walkerSpec (E.at []) Kind.mac name = E.ctx.macroSpec name := rfl
        rw [this]
        omega
      simp only [hpad, List.replicate_zero, List.append_nil]
      unfold fillFormat
      split <;> rfl
    | item =>
      simp only [applySpec, replTruthy, applyCallable, ↓reduceIte]
      rw [macTh_noArgd]
      simp only [Bool.false_eq_true, if_false]
      cases args with
      | nil =>
        have : legacyView (E.at []) ⟨.mac, name, 0, 0⟩ (macTh E c (some (exactArgs E.ctx []))) = ⟨none, 0⟩ := by
          unfold legacyView
          simp only [exactArgs, macTh_n]
          rfl
        rw [this]
        simp only [legacyCheck, R.ofOut, specFirst]
        rfl
      | cons a tl =>
        have hne : (a :: tl) ≠ [] := List.cons_ne_nil _ _
        have hlne : exactArgs E.ctx (a :: tl) ≠ [] := by
          intro e
          have := exactArgs_length E.ctx (a :: tl)
          rw [e] at this
          simp at this
        simp only [List.isEmpty_cons, Bool.false_or, beq_iff_eq] at hok
        rw [legacyView_mac E c name _ hlne]
        generalize hlg : legacyOfMacro E.ctx name = lg at hok
        obtain ⟨oi, off⟩ := lg
        simp only at hok
        subst hok
        simp only [legacyCheck, macTh_n, exactArgs_length, List.length_cons, Nat.zero_lt_succ, ↓reduceIte, R.ofOut]
        rw [bind_ok (a := ()) (st1 := st) rfl, macTh_absent, macTh_single]
        obtain ⟨x, hx, hax⟩ := isAbsentX_exact E.ctx E.db (a :: tl) hcargs 0 a rfl
        unfold absentAtX
        rw [hx]
        simp only [hax]
        cases a with
        | absent => simp only [argWritten, Bool.not_false, if_true, specFirst]; rfl
        | grp b =>
          simp only [argWritten, Bool.not_true, Bool.false_eq_true, if_false]
          rw [bind_ok (ha3 hne st)]
          simp only [specFirst, Option.getD_some]
          rfl
        | br b =>
          simp only [argWritten, Bool.not_true, Bool.false_eq_true, if_false]
          rw [bind_ok (ha3 hne st)]
          simp only [specFirst, Option.getD_some]
          rfl
        | tok ch =>
          simp only [argWritten, Bool.not_true, Bool.false_eq_true, if_false]
          rw [bind_ok (ha3 hne st)]
          simp only [specFirst, Option.getD_some]
          rfl
        | star => simp [coreTextArgs] at hcargs
        | marker _ => simp [coreTextArgs] at hcargs
        | del _ _ _ => simp [coreTextArgs] at hcargs
        | verb _ _ _ => simp [coreTextArgs] at hcargs
    | _ => simp at hcore

/-! ### specials, environments -/

theorem specials_ok (E : XE) (hdb : dbOk E.db = true) (c : Sls) (name : Str) (st : St)
    (hcore : (match lookupFirst name E.db.specials with
      | some sp => isLitRepl sp.repl
      | none => true) = true) :
    renderXNode E c (.specials name (some [])) st =
      .ok ((match lookupFirst name E.db.specials with
        | some ⟨_, _, .lit s⟩ => s
        | some _ => []
        | none => name), st) := by
  rw [specials_unfold]
  cases hl : lookupFirst name E.db.specials with
  | none => rfl
  | some sp =>
    rw [hl] at hcore
    have hmem := lookupFirst_mem name _ sp hl
    obtain ⟨shd, sdc, srepl⟩ := sp
    unfold dbOk at hdb
    simp only [Bool.and_eq_true, List.all_eq_true] at hdb
    have hsp := hdb.1.1.2 _ hmem
    cases srepl with
    | lit s =>
      simp only [Bool.not_eq_eq_eq_not, Bool.not_true] at hsp
      have hs : s ≠ [] := by intro e; rw [e] at hsp; simp at hsp
      simp only
      rw [C03.applySpec_lit _ _ _ ⟨shd, sdc, .lit s⟩ _ s rfl (Or.inl hs)]
      rfl
    | const s => simp at hsp
    | _ => simp [isLitRepl] at hcore

theorem env_ok (E : XE) (hdb : dbOk E.db = true) (c : Sls) (verb name : Str) (args : Option (List XArg)) (body : List XNode)
    (T : Str) (st : St)
    (hcore : (match lookupFirst name E.db.envs with
      | none => true
      | some sp => sp.repl == .none && !sp.discard) = true)
    (hbody : renderXList E c none [] body st = .ok (T, st)) :
    renderXNode E c (.env verb name args (some body)) st =
      .ok ((match lookupFirst name E.db.envs with
        | none => T
        | some sp => if sp.repl == .none && !sp.discard then T else []), st) := by
  obtain ⟨th, hth⟩ := env_unfold E c verb name args (some body)
  rw [hth]
  cases hl : lookupFirst name E.db.envs with
  | none =>
    simp only [Option.getD_none]
    rw [C03.applySpec_none _ _ _ ⟨true, false, .none⟩ _ rfl rfl rfl]
    exact hbody
  | some sp =>
    rw [hl] at hcore
    have hmem := lookupFirst_mem name _ sp hl
    obtain ⟨shd, sdc, srepl⟩ := sp
    simp only [Bool.and_eq_true, beq_iff_eq, Bool.not_eq_eq_eq_not, Bool.not_true] at hcore
    obtain ⟨h1, h2⟩ := hcore
    subst h2
    cases srepl with
    | none =>
      unfold dbOk at hdb
      simp only [Bool.and_eq_true, List.all_eq_true] at hdb
      have hsp := hdb.1.2 _ hmem
      simp only at hsp
      subst hsp
      simp only [Option.getD_some]
      rw [C03.applySpec_none _ _ _ ⟨true, false, .none⟩ _ rfl rfl rfl]
      exact hbody
    | _ => cases h1

theorem parNode_ok (E : XE) (hdb : dbOk E.db = true) (c : Sls) (st : St) :
    renderXNode E c (.specials ['\n', '\n'] (some [])) st = .ok (['\n', '\n'], st) := by
  rw [specials_unfold]
  unfold dbOk at hdb
  simp only [Bool.and_eq_true] at hdb
  have := hdb.2
  cases hl : lookupFirst ['\n', '\n'] E.db.specials with
  | none => rfl
  | some sp => rw [hl] at this; simp at this

/-! ### the induction -/

theorem ite_bp (b1 b2 b3 : Bool) (post : Str) :
    (if (false || b2) = true then (if (b1 && !b3) = true then post else []) else []) =
      (if (b1 && b2 && !b3) = true then post else []) := by
  cases b1 <;> cases b2 <;> cases b3 <;> rfl

mutual
theorem items_spec (E : XE) (hdb : dbOk E.db = true) (hpar : parSpec E.ctx = true) :
    ∀ (d : List Item), coreText E.db d = true → specOk E.ctx E.db d = true → ItemsGoal E d
  | [], _, _ => by
    intro c skipW run prev hm prevNode acc st bp hpre hbp
    simp only [exactRaw, mergeX_pend_nil, specItems, nextIsRun, Bool.or_false]
    cases run with
    | none => simp [pendRun, renderXList_nil, flushRun]
    | some r =>
      show renderXList E c prevNode acc [.chars r] st = _
      rw [renderXList_cons_ok E c prevNode acc (.chars r) [] st st bp _ (hpre (.chars r)) (renderX_chars E c r st),
        renderXList_nil]
      simp [List.append_assoc]
  | .T t :: tl, hc, hs => by
    intro c skipW run prev hm prevNode acc st bp hpre hbp
    simp only [coreText] at hc
    simp only [specOk] at hs
    have ih := items_spec E hdb hpar tl hc hs c false (some (run.getD [] ++ t)) none (.normal _) prevNode acc st bp hpre
      (fun h => by cases h)
    have e1 : exactRaw E.ctx prev (.T t :: tl) = .chars t :: exactRaw E.ctx none tl := by simp only [exactRaw]
    rw [e1, mergeX_pend_chars, ih]
    have e2 : specItems E.opts E.lib E.db c skipW run (.T t :: tl) =
        specItems E.opts E.lib E.db c false (some (run.getD [] ++ t)) tl := by
      cases skipW <;> simp only [specItems]
    rw [e2]
    simp [nextIsRun]
  | .W w :: tl, hc, hs => by
    intro c skipW run prev hm prevNode acc st bp hpre hbp
    simp only [coreText] at hc
    simp only [specOk] at hs
    cases hm with
    | normal run =>
      have ih := items_spec E hdb hpar tl hc hs c false (some (run.getD [] ++ w)) none (.normal _) prevNode acc st bp hpre
        (fun h => by cases h)
      have e1 : exactRaw E.ctx none (.W w :: tl) = .chars w :: exactRaw E.ctx none tl := by simp only [exactRaw]
      rw [e1, mergeX_pend_chars, ih]
      simp [specItems, nextIsRun]
    | afterComment tail =>
      have hb : bp = [] := hbp rfl
      subst hb
      have ih := items_spec E hdb hpar tl hc hs c false none none (.normal _) prevNode acc st [] hpre (fun _ => rfl)
      have e1 : exactRaw E.ctx (some tail) (.W w :: tl) = exactRaw E.ctx none tl := by simp only [exactRaw]
      rw [e1, ih]
      simp [specItems]
  | .P w :: tl, hc, hs => by
    intro c skipW run prev hm prevNode acc st bp hpre hbp
    simp only [coreText] at hc
    simp only [specOk] at hs
    have e1 : exactRaw E.ctx prev (.P w :: tl) = .specials ['\n', '\n'] (some []) :: exactRaw E.ctx none tl := by
      simp only [exactRaw, hpar, if_true]
    have ih := items_spec E hdb hpar tl hc hs c false none none (.normal _) (some (.specials ['\n', '\n'] (some [])))
      (acc ++ ((if run.isSome then bp else []) ++ (flushRun c run ++ ['\n', '\n']))) st []
      (preOfX_nonbare E c _ (by intro n p a h; cases h)) (fun _ => rfl)
    rw [e1, mergeX_pend_barrier _ _ rfl, flush_step E c prevNode bp hpre run _ rfl acc _ st st (parNode_ok E hdb c st)]
    simp only [pendRun, List.nil_append] at ih
    rw [ih]
    have e2 : specItems E.opts E.lib E.db c skipW run (.P w :: tl) =
        flushRun c run ++ (['\n', '\n'] ++ specItems E.opts E.lib E.db c false none tl) := by
      cases skipW <;> simp only [specItems]
    rw [e2]
    simp [nextIsRun, List.append_assoc]
  | .G b :: tl, hc, hs => by
    intro c skipW run prev hm prevNode acc st bp hpre hbp
    simp only [coreText, Bool.and_eq_true] at hc
    simp only [specOk, Bool.and_eq_true] at hs
    have ihb := body_of_goal (items_spec E hdb hpar b hc.1 hs.1) c st
    have hnode := group_ok E c ['{'] ['}'] _ _ st st ihb
    have e1 : exactRaw E.ctx prev (.G b :: tl) =
        .group ['{'] ['}'] (some (mergeX (exactRaw E.ctx none b))) :: exactRaw E.ctx none tl := by simp only [exactRaw]
    have ih := items_spec E hdb hpar tl hc.2 hs.2 c false none none (.normal _)
      (some (.group ['{'] ['}'] (some (mergeX (exactRaw E.ctx none b)))))
      (acc ++ ((if run.isSome then bp else []) ++ (flushRun c run ++
        groupRule E.opts ['{'] ['}'] (specItems E.opts E.lib E.db c false none b)))) st []
      (preOfX_nonbare E c _ (by intro n p a h; cases h)) (fun _ => rfl)
    rw [e1, mergeX_pend_barrier _ _ rfl, flush_step E c prevNode bp hpre run _ rfl acc _ st st hnode]
    simp only [pendRun, List.nil_append] at ih
    rw [ih]
    have e2 : specItems E.opts E.lib E.db c skipW run (.G b :: tl) =
        flushRun c run ++ (groupRule E.opts ['{'] ['}'] (specItems E.opts E.lib E.db c false none b) ++
          specItems E.opts E.lib E.db c false none tl) := by
      cases skipW <;> simp only [specItems]
    rw [e2]
    simp [nextIsRun, List.append_assoc]
  | .M name post args :: tl, hc, hs => by
    intro c skipW run prev hm prevNode acc st bp hpre hbp
    simp only [coreText, Bool.and_eq_true] at hc
    simp only [specOk, Bool.and_eq_true] at hs
    obtain ⟨⟨hcm, hca⟩, hct⟩ := hc
    obtain ⟨⟨hsm, hsa⟩, hst⟩ := hs
    have hargs := args_spec E hdb hpar args hca hsa
    have hnode := mac_ok E hdb c name post args st hcm hca hsm hargs
    have hbare : isBareX E (some (.mac name post (some (exactArgs E.ctx args)))) = .ok (isBareArgs args) := by
      unfold macOk at hsm
      simp only [Bool.and_eq_true, beq_iff_eq] at hsm
      exact isBareX_exact E name post args hca _ hsm.1
    have e1 : exactRaw E.ctx prev (.M name post args :: tl) =
        .mac name post (some (exactArgs E.ctx args)) :: exactRaw E.ctx none tl := by simp only [exactRaw]
    have ih := items_spec E hdb hpar tl hct hst c false none none (.normal _)
      (some (.mac name post (some (exactArgs E.ctx args))))
      (acc ++ ((if run.isSome then bp else []) ++ (flushRun c run ++
        macroText E.lib E.db name (specArgs E.opts E.lib E.db c args) (specFirst E.opts E.lib E.db c args)))) st
      (if isBareArgs args && !c.mc then post else [])
      (fun n => preOfX_of_bare E c _ _ hbare n) (fun h => by cases h)
    rw [e1, mergeX_pend_barrier _ _ rfl, flush_step E c prevNode bp hpre run _ rfl acc _ st st hnode]
    simp only [pendRun, List.nil_append] at ih
    rw [ih]
    have e2 : specItems E.opts E.lib E.db c skipW run (.M name post args :: tl) =
        flushRun c run ++ (macroText E.lib E.db name (specArgs E.opts E.lib E.db c args) (specFirst E.opts E.lib E.db c args) ++
          ((if isBareArgs args && nextIsRun tl && !c.mc then post else []) ++ specItems E.opts E.lib E.db c false none tl)) := by
      cases skipW <;> simp only [specItems]
    rw [e2, Option.isSome_none, ite_bp]
    simp [nextIsRun, List.append_assoc]
  | .E name args body :: tl, hc, hs => by
    intro c skipW run prev hm prevNode acc st bp hpre hbp
    simp only [coreText, Bool.and_eq_true] at hc
    simp only [specOk, Bool.and_eq_true] at hs
    obtain ⟨⟨⟨hce, _⟩, hcb⟩, hct⟩ := hc
    have ihb := body_of_goal (items_spec E hdb hpar body hcb hs.1) c st
    have hnode := env_ok E hdb c (beginStr name ++ (unparseArgs args ++ (unparseItems body ++ endStr name))) name
      (some (exactArgs E.ctx args)) _ _ st hce ihb
    have e1 : exactRaw E.ctx prev (.E name args body :: tl) =
        .env (beginStr name ++ (unparseArgs args ++ (unparseItems body ++ endStr name))) name (some (exactArgs E.ctx args))
          (some (mergeX (exactRaw E.ctx none body))) :: exactRaw E.ctx none tl := by simp only [exactRaw]
    have ih := items_spec E hdb hpar tl hct hs.2 c false none none (.normal _)
      (some (.env (beginStr name ++ (unparseArgs args ++ (unparseItems body ++ endStr name))) name (some (exactArgs E.ctx args))
          (some (mergeX (exactRaw E.ctx none body)))))
      (acc ++ ((if run.isSome then bp else []) ++ (flushRun c run ++
        (match lookupFirst name E.db.envs with
          | none => specItems E.opts E.lib E.db c false none body
          | some sp => if sp.repl == .none && !sp.discard then specItems E.opts E.lib E.db c false none body else [])))) st []
      (preOfX_nonbare E c _ (by intro n p a h; cases h)) (fun _ => rfl)
    rw [e1, mergeX_pend_barrier _ _ rfl, flush_step E c prevNode bp hpre run _ rfl acc _ st st hnode]
    simp only [pendRun, List.nil_append] at ih
    rw [ih]
    have e2 : specItems E.opts E.lib E.db c skipW run (.E name args body :: tl) =
        flushRun c run ++ ((match lookupFirst name E.db.envs with
          | none => specItems E.opts E.lib E.db c false none body
          | some sp => if sp.repl == .none && !sp.discard then specItems E.opts E.lib E.db c false none body else []) ++
          specItems E.opts E.lib E.db c false none tl) := by
      cases skipW <;> simp only [specItems] <;> (cases lookupFirst name E.db.envs <;> rfl)
    rw [e2]
    simp [nextIsRun, List.append_assoc]
  | .F k b :: tl, hc, hs => by
    intro c skipW run prev hm prevNode acc st bp hpre hbp
    simp only [coreText, Bool.and_eq_true] at hc
    simp only [specOk, Bool.and_eq_true] at hs
    have ihb := body_of_goal (items_spec E hdb hpar b hc.1 hs.1) c.enterEq st
    have hnode := math_ok E c (k.opener ++ (unparseItems b ++ k.closer)) k _ _ st ihb
    have e1 : exactRaw E.ctx prev (.F k b :: tl) =
        .math (k.opener ++ (unparseItems b ++ k.closer)) k.display k.opener k.closer (some (mergeX (exactRaw E.ctx none b))) ::
          exactRaw E.ctx none tl := by simp only [exactRaw]
    have ih := items_spec E hdb hpar tl hc.2 hs.2 c false none none (.normal _)
      (some (.math (k.opener ++ (unparseItems b ++ k.closer)) k.display k.opener k.closer (some (mergeX (exactRaw E.ctx none b)))))
      (acc ++ ((if run.isSome then bp else []) ++ (flushRun c run ++
        formulaText E.opts k (strip (specItems E.opts E.lib E.db c.enterEq false none b)) (k.opener ++ (unparseItems b ++ k.closer))))) st []
      (preOfX_nonbare E c _ (by intro n p a h; cases h)) (fun _ => rfl)
    rw [e1, mergeX_pend_barrier _ _ rfl, flush_step E c prevNode bp hpre run _ rfl acc _ st st hnode]
    simp only [pendRun, List.nil_append] at ih
    rw [ih]
    have e2 : specItems E.opts E.lib E.db c skipW run (.F k b :: tl) =
        flushRun c run ++ (formulaText E.opts k (strip (specItems E.opts E.lib E.db c.enterEq false none b))
          (k.opener ++ (unparseItems b ++ k.closer)) ++ specItems E.opts E.lib E.db c false none tl) := by
      cases skipW <;> simp only [specItems]
    rw [e2]
    simp [nextIsRun, List.append_assoc]
  | .C text tail :: tl, hc, hs => by
    intro c skipW run prev hm prevNode acc st bp hpre hbp
    simp only [coreText] at hc
    simp only [specOk] at hs
    have hnode := comment_ok E c text (commentPost tail tl) st
    have e1 : exactRaw E.ctx prev (.C text tail :: tl) =
        .comment text (commentPost tail tl) :: exactRaw E.ctx (some tail) tl := by simp only [exactRaw]
    have ih := items_spec E hdb hpar tl hc hs c true none (some tail) (.afterComment tail)
      (some (.comment text (commentPost tail tl)))
      (acc ++ ((if run.isSome then bp else []) ++ (flushRun c run ++ commentText E.opts c text (commentPost tail tl)))) st []
      (preOfX_nonbare E c _ (by intro n p a h; cases h)) (fun _ => rfl)
    rw [e1, mergeX_pend_barrier _ _ rfl, flush_step E c prevNode bp hpre run _ rfl acc _ st st hnode]
    simp only [pendRun, List.nil_append] at ih
    rw [ih]
    have e2 : specItems E.opts E.lib E.db c skipW run (.C text tail :: tl) =
        flushRun c run ++ (commentText E.opts c text (commentPost tail tl) ++ specItems E.opts E.lib E.db c true none tl) := by
      cases skipW <;> simp only [specItems]
    rw [e2]
    simp [nextIsRun, List.append_assoc]
  | .S name args :: tl, hc, hs => by
    intro c skipW run prev hm prevNode acc st bp hpre hbp
    simp only [coreText, Bool.and_eq_true] at hc
    simp only [specOk] at hs
    obtain ⟨⟨hca, hcs⟩, hct⟩ := hc
    have hargs : args = [] := List.isEmpty_iff.mp hca
    subst hargs
    have hnode := specials_ok E hdb c name st hcs
    have e1 : exactRaw E.ctx prev (.S name [] :: tl) = .specials name (some []) :: exactRaw E.ctx none tl := by
      simp only [exactRaw, exactArgs]
    have ih := items_spec E hdb hpar tl hct hs c false none none (.normal _) (some (.specials name (some [])))
      (acc ++ ((if run.isSome then bp else []) ++ (flushRun c run ++
        (match lookupFirst name E.db.specials with
          | some ⟨_, _, .lit s⟩ => s
          | some _ => []
          | none => name)))) st []
      (preOfX_nonbare E c _ (by intro n p a h; cases h)) (fun _ => rfl)
    rw [e1, mergeX_pend_barrier _ _ rfl, flush_step E c prevNode bp hpre run _ rfl acc _ st st hnode]
    simp only [pendRun, List.nil_append] at ih
    rw [ih]
    have e2 : specItems E.opts E.lib E.db c skipW run (.S name [] :: tl) =
        flushRun c run ++ ((match lookupFirst name E.db.specials with
          | some ⟨_, _, .lit s⟩ => s
          | some _ => []
          | none => name) ++ specItems E.opts E.lib E.db c false none tl) := by
      cases skipW <;> simp only [specItems] <;> rfl
    rw [e2]
    simp [nextIsRun, List.append_assoc]
  | .V _ _ :: _, hc, _ => by simp [coreText] at hc
  | .VE _ _ _ _ :: _, hc, _ => by simp [coreText] at hc
termination_by d => sizeOf d
theorem args_spec (E : XE) (hdb : dbOk E.db = true) (hpar : parSpec E.ctx = true) :
    ∀ (args : List ArgVal), coreTextArgs E.db args = true → specOkArgs E.ctx E.db args = true → ArgsGoal E args
  | [], _, _ => by
    intro c
    refine ⟨fun st => ?_, fun st => ?_, fun h => absurd rfl h⟩
    · simp only [exactArgs, argsEachX, specArgs]; rfl
    · simp only [exactArgs, argsCatX, specArgs]; rfl
  | .absent :: tl, hc, hs => by
    intro c
    simp only [coreTextArgs] at hc
    simp only [specOkArgs] at hs
    obtain ⟨h1, h2, _⟩ := args_spec E hdb hpar tl hc hs c
    refine ⟨fun st => ?_, fun st => ?_, fun _ st => ?_⟩
    · simp only [exactArgs, argsEachX, specArgs, groupContentsX]
      rw [bind_ok (a := []) (st1 := st) rfl, bind_ok (h1 st)]; rfl
    · simp only [exactArgs, argsCatX, specArgs, groupContentsX]
      rw [bind_ok (a := []) (st1 := st) rfl, bind_ok (h2 st)]; rfl
    · simp only [exactArgs, singleAtX, singleArgX, specFirst]; rfl
  | .grp b :: tl, hc, hs => by
    intro c
    simp only [coreTextArgs, Bool.and_eq_true] at hc
    simp only [specOkArgs, Bool.and_eq_true] at hs
    obtain ⟨h1, h2, _⟩ := args_spec E hdb hpar tl hc.2 hs.2 c
    have hb := fun st => body_of_goal (items_spec E hdb hpar b hc.1 hs.1) c st
    refine ⟨fun st => ?_, fun st => ?_, fun _ st => ?_⟩
    · simp only [exactArgs, argsEachX, specArgs, groupContentsX, renderXBody]
      rw [bind_ok (hb st), bind_ok (h1 st)]; rfl
    · simp only [exactArgs, argsCatX, specArgs, groupContentsX, renderXBody]
      rw [bind_ok (hb st), bind_ok (h2 st)]; rfl
    · simp only [exactArgs, singleAtX, singleArgX, specFirst]
      exact group_ok E c _ _ _ _ st st (hb st)
  | .br b :: tl, hc, hs => by
    intro c
    simp only [coreTextArgs, Bool.and_eq_true] at hc
    simp only [specOkArgs, Bool.and_eq_true] at hs
    obtain ⟨h1, h2, _⟩ := args_spec E hdb hpar tl hc.2 hs.2 c
    have hb := fun st => body_of_goal (items_spec E hdb hpar b hc.1 hs.1) c st
    refine ⟨fun st => ?_, fun st => ?_, fun _ st => ?_⟩
    · simp only [exactArgs, argsEachX, specArgs, groupContentsX, renderXBody]
      rw [bind_ok (hb st), bind_ok (h1 st)]; rfl
    · simp only [exactArgs, argsCatX, specArgs, groupContentsX, renderXBody]
      rw [bind_ok (hb st), bind_ok (h2 st)]; rfl
    · simp only [exactArgs, singleAtX, singleArgX, specFirst]
      exact group_ok E c _ _ _ _ st st (hb st)
  | .tok ch :: tl, hc, hs => by
    intro c
    simp only [coreTextArgs] at hc
    simp only [specOkArgs, Bool.and_eq_true, Bool.not_eq_eq_eq_not, Bool.not_true] at hs
    obtain ⟨h1, h2, _⟩ := args_spec E hdb hpar tl hc hs.2 c
    have hch : ∀ st, renderXNode E c (.chars [ch]) st = .ok ([ch], st) := by
      intro st
      rw [renderX_chars]
      simp [flushRun, hs.1]
    refine ⟨fun st => ?_, fun st => ?_, fun _ st => ?_⟩
    · simp only [exactArgs, argsEachX, specArgs, groupContentsX]
      rw [bind_ok (hch st), bind_ok (h1 st)]; rfl
    · simp only [exactArgs, argsCatX, specArgs, groupContentsX]
      rw [bind_ok (hch st), bind_ok (h2 st)]; rfl
    · simp only [exactArgs, singleAtX, singleArgX, specFirst]
      exact hch st
  | .star :: _, hc, _ => by simp [coreTextArgs] at hc
  | .marker _ :: _, hc, _ => by simp [coreTextArgs] at hc
  | .del _ _ _ :: _, hc, _ => by simp [coreTextArgs] at hc
  | .verb _ _ _ :: _, hc, _ => by simp [coreTextArgs] at hc
termination_by args => sizeOf args
end

/-! ### step 4 and the string-level statement -/

/-- **C03, step 4**: for every option set, text database and walker context (with the facts `dbOk`, the paragraph
    specials declared) and every document of the core sublanguage whose macro calls satisfy `specOk`, the position-free
    renderer on the exact tree of the document gives the text of the documented rules -/
theorem renderX_spec (E : XE) (hdb : dbOk E.db = true) (hshape : E.db.shapeOk = true) (hpar : parSpec E.ctx = true)
    (d : List Item) (hc : coreText E.db d = true) (hs : specOk E.ctx E.db d = true) :
    renderX E (exactOf E.ctx d) = .ok (C03.specTextWith E.opts E.lib E.db d) := by
  unfold renderX exactOf
  rw [hshape]
  simp only [Bool.not_true, Bool.false_eq_true, if_false]
  rw [body_of_goal (items_spec E hdb hpar d hc hs) (parseSls E.opts.sls) {}]
  rfl

set_option maxRecDepth 100000 in
/-- the facts about the generated default databases (kernel evaluation over both tables) -/
theorem default_dbOk : dbOk Gen.defaultTextDb = true ∧ Gen.defaultTextDb.shapeOk = true ∧ parSpec Gen.defaultCtx = true := by
  decide +kernel

/-- **C03, string level, for every walker context and text database** (steps 1–4 combined): `latex_to_text` of the
    source of a document of the proved fragment is the text the documented rules give. -/
theorem C03_string_level (opts : Opts) (db : TextDb) (ctx : Ctx) (lib : Lib) (d : List Item)
    (hdb : dbOk db = true) (hshape : db.shapeOk = true) (hpar : parSpec ctx = true)
    (hcore : Core ctx d = true) (hct : coreText db d = true) (hs : specOk ctx db d = true) :
    latexToTextWith opts db ctx lib (unparse d) = .ok (C03.specTextWith opts lib db d) := by
  rw [latexToText_exact opts db ctx lib d hcore]
  exact renderX_spec ⟨opts, db, ctx, lib⟩ hdb hshape hpar d hct hs

/-- **C03_full_partial**: the string-level statement `C03.C03_full` for every option set (every `math_mode`, every
    `strict_latex_spaces` policy including arbitrary dictionaries, `keep_comments`, `keep_braced_groups` with any
    minimum length, both values of `repaired`), all library oracles and every document `d` of the core sublanguage
    (`CoreText`) that lies in the fragment of the exact round trip (`Doc.Core`, decidable) and whose macro calls satisfy
    the decidable side conditions `specOk` on the walker signatures. -/
theorem C03_full_partial (opts : Opts) (lib : Lib) (d : List Item)
    (hcore : Core Gen.defaultCtx d = true) (hct : C03.CoreText d = true)
    (hs : specOk Gen.defaultCtx Gen.defaultTextDb d = true) :
    latexToText opts lib (unparse d) = .ok (C03.specText opts lib d) :=
  C03_string_level opts Gen.defaultTextDb Gen.defaultCtx lib d default_dbOk.1 default_dbOk.2.1 default_dbOk.2.2 hcore hct hs

/-! ### non-vacuity -/

set_option maxRecDepth 100000 in
/-- the two example documents of `C03_instances` satisfy the hypotheses -/
theorem exDocs_hyps :
    Core Gen.defaultCtx C03.exDocA = true ∧ C03.CoreText C03.exDocA = true ∧ specOk Gen.defaultCtx Gen.defaultTextDb C03.exDocA = true ∧
    Core Gen.defaultCtx C03.exDocB = true ∧ C03.CoreText C03.exDocB = true ∧ specOk Gen.defaultCtx Gen.defaultTextDb C03.exDocB = true := by
  decide +kernel

/-- … so that for them the statement holds for *all* option sets and library oracles (not only the eight evaluated in
    `C03.C03_instances`) -/
example (opts : Opts) (lib : Lib) : latexToText opts lib (unparse C03.exDocA) = .ok (C03.specText opts lib C03.exDocA) :=
  C03_full_partial opts lib _ exDocs_hyps.1 exDocs_hyps.2.1 exDocs_hyps.2.2.1
example (opts : Opts) (lib : Lib) : latexToText opts lib (unparse C03.exDocB) = .ok (C03.specText opts lib C03.exDocB) :=
  C03_full_partial opts lib _ exDocs_hyps.2.2.2.1 exDocs_hyps.2.2.2.2.1 exDocs_hyps.2.2.2.2.2

#print axioms renderX_spec
#print axioms C03_string_level
#print axioms C03_full_partial

end Pylx.L2T.C03S
