/-
  C19 — a node visitor sees every node exactly once, children first, in
  document order, and hands each parent the results of its children.

  Model: `Pylx.visitStart` (Pylx/Visitor.lean), the recording visitor run by
  `LatexNodesVisitor.start` on a node, a node list or a `ParsedArguments`.
  Specification side (this file): the objects reachable from a tree
  (`subobjs`, pre-order, with multiplicity), their post-order (`postorder`,
  arguments before body, document order), and what each callback has to
  receive (`Obj.received`: the results of the direct children, `None` for an
  absent argument slot, `[]` / `None` / `''` for `None` containers as the code
  does).
-/
import Pylx.Visitor
namespace Pylx

/-! ### specification: reachable objects -/

mutual
/-- post-order of everything reachable from a node: arguments, then body, then the node -/
def postNode : Node → List Obj
  | .chars p e ps c => [.node (.chars p e ps c)]
  | .comment p e ps c post => [.node (.comment p e ps c post)]
  | .group p e ps o c body => postBody body ++ [.node (.group p e ps o c body)]
  | .mac p e ps n post args => postArgs args ++ [.node (.mac p e ps n post args)]
  | .env p e ps n args body => (postArgs args ++ postBody body) ++ [.node (.env p e ps n args body)]
  | .specials p e ps c args => postArgs args ++ [.node (.specials p e ps c args)]
  | .math p e ps d o c body => postBody body ++ [.node (.math p e ps d o c body)]
def postBody : Option (List Node) → List Obj
  | none => []
  | some ns => postNodes ns
def postNodes : List Node → List Obj
  | [] => []
  | n :: ns => postNode n ++ postNodes ns
def postArgs : Option (List Arg) → List Obj
  | none => []
  | some l => postArgList l ++ [.pargs l]
def postArgList : List Arg → List Obj
  | [] => []
  | a :: l => postArg a ++ postArgList l
def postArg : Arg → List Obj
  | .absent => []
  | .node n => postNode n
  | .list p e ns => postNodes ns ++ [.nlist p e ns]
end

mutual
/-- everything reachable from a node through `nodeargd.argnlist` and `nodelist`, the node itself
    first (pre-order), every occurrence counted -/
def subNode : Node → List Obj
  | .chars p e ps c => [.node (.chars p e ps c)]
  | .comment p e ps c post => [.node (.comment p e ps c post)]
  | .group p e ps o c body => .node (.group p e ps o c body) :: subBody body
  | .mac p e ps n post args => .node (.mac p e ps n post args) :: subArgs args
  | .env p e ps n args body => .node (.env p e ps n args body) :: (subArgs args ++ subBody body)
  | .specials p e ps c args => .node (.specials p e ps c args) :: subArgs args
  | .math p e ps d o c body => .node (.math p e ps d o c body) :: subBody body
def subBody : Option (List Node) → List Obj
  | none => []
  | some ns => subNodes ns
def subNodes : List Node → List Obj
  | [] => []
  | n :: ns => subNode n ++ subNodes ns
def subArgs : Option (List Arg) → List Obj
  | none => []
  | some l => .pargs l :: subArgList l
def subArgList : List Arg → List Obj
  | [] => []
  | a :: l => subArg a ++ subArgList l
def subArg : Arg → List Obj
  | .absent => []
  | .node n => subNode n
  | .list p e ns => .nlist p e ns :: subNodes ns
end

def postorder : Obj → List Obj
  | .node n => postNode n
  | .nlist p e ns => postArg (.list p e ns)
  | .pargs l => postArgs (some l)

def subobjs : Obj → List Obj
  | .node n => subNode n
  | .nlist p e ns => subArg (.list p e ns)
  | .pargs l => subArgs (some l)

/-! ### specification: identity, results -/

def Node.ident : Node → Ident
  | .chars p e .. => ⟨.chars, some p, some e⟩
  | .comment p e .. => ⟨.comment, some p, some e⟩
  | .group p e .. => ⟨.group, some p, some e⟩
  | .mac p e .. => ⟨.mac, some p, some e⟩
  | .env p e .. => ⟨.env, some p, some e⟩
  | .specials p e .. => ⟨.specials, some p, some e⟩
  | .math p e .. => ⟨.math, some p, some e⟩

def Obj.ident : Obj → Ident
  | .node n => n.ident
  | .nlist p e _ => ⟨.nodelist, p, e⟩
  | .pargs _ => pargsId

mutual
/-- the value the callback of a node returns when every callback returns the term of what it received -/
def resNode : Node → VRes
  | .chars p e _ _ => .ret ⟨.chars, some p, some e⟩ []
  | .comment p e _ _ _ => .ret ⟨.comment, some p, some e⟩ []
  | .group p e _ _ _ body => .ret ⟨.group, some p, some e⟩ [(resBody body).getD (.lst [])]
  | .mac p e _ _ _ args => .ret ⟨.mac, some p, some e⟩ [resArgs args]
  | .env p e _ _ args body => .ret ⟨.env, some p, some e⟩ [resArgs args, (resBody body).getD (.lst [])]
  | .specials p e _ _ args => .ret ⟨.specials, some p, some e⟩ [resArgs args]
  | .math p e _ _ _ _ body => .ret ⟨.math, some p, some e⟩ [(resBody body).getD .none]
def resBody : Option (List Node) → Option VRes
  | none => none
  | some ns => some (.lst (resNodes ns))
def resNodes : List Node → List VRes
  | [] => []
  | n :: ns => resNode n :: resNodes ns
def resArgs : Option (List Arg) → VRes
  | none => .emptyStr
  | some l => .ret pargsId [.lst (resArgList l)]
def resArgList : List Arg → List VRes
  | [] => []
  | a :: l => resArg a :: resArgList l
def resArg : Arg → VRes
  | .absent => .none
  | .node n => resNode n
  | .list p e ns => .ret ⟨.nodelist, p, e⟩ [.lst (resNodes ns)]
end

theorem resNodes_eq_map (ns : List Node) : resNodes ns = ns.map resNode := by
  induction ns with
  | nil => simp [resNodes]
  | cons n ns ih => simp [resNodes, ih]

theorem resArgList_eq_map (l : List Arg) : resArgList l = l.map resArg := by
  induction l with
  | nil => simp [resArgList]
  | cons a l ih => simp [resArgList, ih]

/-- result of a node-list body as the parent sees it: the results of its nodes in order, or the
    default the code passes for a `None` list -/
def bodyRes (dflt : VRes) : Option (List Node) → VRes
  | none => dflt
  | some ns => .lst (ns.map resNode)

/-- result of the argument container as the parent sees it: `''` for `nodeargd is None`, else what
    `visit_parsed_arguments` returned having received one entry per slot, `None` for an absent one -/
def argsRes : Option (List Arg) → VRes
  | none => .emptyStr
  | some l => .ret pargsId [.lst (l.map resArg)]

/-- the `visited_results_*` values the callback of an object must receive: exactly the results of
    its direct children, in document order -/
def Obj.received : Obj → List VRes
  | .node (.chars ..) => []
  | .node (.comment ..) => []
  | .node (.group _ _ _ _ _ body) => [bodyRes (.lst []) body]
  | .node (.mac _ _ _ _ _ args) => [argsRes args]
  | .node (.env _ _ _ _ args body) => [argsRes args, bodyRes (.lst []) body]
  | .node (.specials _ _ _ _ args) => [argsRes args]
  | .node (.math _ _ _ _ _ _ body) => [bodyRes .none body]
  | .nlist _ _ ns => [.lst (ns.map resNode)]
  | .pargs l => [.lst (l.map resArg)]

def Obj.entry (o : Obj) : Entry := ⟨o.ident, o.received⟩

/-- what `start(o)` returns -/
def Obj.result (o : Obj) : VRes := .ret o.ident o.received

theorem bodyRes_eq (d : VRes) (b : Option (List Node)) : (resBody b).getD d = bodyRes d b := by
  cases b <;> simp [resBody, bodyRes, resNodes_eq_map]

theorem argsRes_eq (a : Option (List Arg)) : resArgs a = argsRes a := by
  cases a <;> simp [resArgs, argsRes, resArgList_eq_map]

/-- the value a node hands to its parent is the term of its own callback: identity and received results -/
theorem resNode_eq_result (n : Node) : resNode n = (Obj.node n).result := by
  cases n <;> simp [resNode, Obj.result, Obj.ident, Node.ident, Obj.received, bodyRes_eq, argsRes_eq]

theorem resArg_list_eq_result (p e : Option Nat) (ns : List Node) :
    resArg (.list p e ns) = (Obj.nlist p e ns).result := by
  simp [resArg, Obj.result, Obj.ident, Obj.received, resNodes_eq_map]

theorem argsRes_some_eq_result (l : List Arg) : argsRes (some l) = (Obj.pargs l).result := by
  simp [argsRes, Obj.result, Obj.ident, Obj.received]

/-! ### the model computes the specification -/

mutual
theorem visitNode_spec : ∀ n : Node, visitNode n = ((postNode n).map Obj.entry, resNode n)
  | .chars p e ps c => by
    simp [visitNode, callback, postNode, resNode, Obj.entry, Obj.ident, Node.ident, Obj.received]
  | .comment p e ps c post => by
    simp [visitNode, callback, postNode, resNode, Obj.entry, Obj.ident, Node.ident, Obj.received]
  | .group p e ps o c body => by
    have hb := descendBody_spec body
    simp [visitNode, callback, postNode, resNode, hb, Obj.entry, Obj.ident, Node.ident, Obj.received, bodyRes_eq]
  | .mac p e ps n post args => by
    have ha := descendArgs_spec args
    simp [visitNode, callback, postNode, resNode, ha, Obj.entry, Obj.ident, Node.ident, Obj.received, argsRes_eq]
  | .env p e ps n args body => by
    have ha := descendArgs_spec args
    have hb := descendBody_spec body
    simp [visitNode, callback, postNode, resNode, ha, hb, Obj.entry, Obj.ident, Node.ident, Obj.received,
      bodyRes_eq, argsRes_eq]
  | .specials p e ps c args => by
    have ha := descendArgs_spec args
    simp [visitNode, callback, postNode, resNode, ha, Obj.entry, Obj.ident, Node.ident, Obj.received, argsRes_eq]
  | .math p e ps d o c body => by
    have hb := descendBody_spec body
    simp [visitNode, callback, postNode, resNode, hb, Obj.entry, Obj.ident, Node.ident, Obj.received, bodyRes_eq]
theorem descendBody_spec : ∀ b : Option (List Node), descendBody b = ((postBody b).map Obj.entry, resBody b)
  | none => by simp [descendBody, postBody, resBody]
  | some ns => by
    have h := visitNodes_spec ns
    simp [descendBody, postBody, resBody, h]
theorem visitNodes_spec : ∀ ns : List Node, visitNodes ns = ((postNodes ns).map Obj.entry, resNodes ns)
  | [] => by simp [visitNodes, postNodes, resNodes]
  | n :: ns => by
    have h1 := visitNode_spec n
    have h2 := visitNodes_spec ns
    simp [visitNodes, postNodes, resNodes, h1, h2]
theorem descendArgs_spec : ∀ a : Option (List Arg), descendArgs a = ((postArgs a).map Obj.entry, resArgs a)
  | none => by simp [descendArgs, postArgs, resArgs]
  | some l => by
    have h := visitArgList_spec l
    simp [descendArgs, visitPArgs, callback, postArgs, resArgs, h, Obj.entry, Obj.ident, Obj.received,
      resArgList_eq_map]
theorem visitArgList_spec : ∀ l : List Arg, visitArgList l = ((postArgList l).map Obj.entry, resArgList l)
  | [] => by simp [visitArgList, postArgList, resArgList]
  | a :: l => by
    have h1 := visitArg_spec a
    have h2 := visitArgList_spec l
    simp [visitArgList, postArgList, resArgList, h1, h2]
theorem visitArg_spec : ∀ a : Arg, visitArg a = ((postArg a).map Obj.entry, resArg a)
  | .absent => by simp [visitArg, postArg, resArg]
  | .node n => by
    have h := visitNode_spec n
    simp [visitArg, postArg, resArg, h]
  | .list p e ns => by
    have h := visitNodes_spec ns
    simp [visitArg, callback, postArg, resArg, h, Obj.entry, Obj.ident, Obj.received, resNodes_eq_map]
end

/-! ### every reachable object is in the post-order exactly as often as it is reachable -/

mutual
theorem postNode_perm : ∀ n : Node, (postNode n).Perm (subNode n)
  | .chars p e ps c => by simp [postNode, subNode]
  | .comment p e ps c post => by simp [postNode, subNode]
  | .group p e ps o c body => by
    have hb := postBody_perm body
    simp only [postNode, subNode]
    exact List.perm_append_singleton _ _ |>.trans (hb.cons _)
  | .mac p e ps n post args => by
    have ha := postArgs_perm args
    simp only [postNode, subNode]
    exact List.perm_append_singleton _ _ |>.trans (ha.cons _)
  | .env p e ps n args body => by
    have ha := postArgs_perm args
    have hb := postBody_perm body
    simp only [postNode, subNode]
    exact List.perm_append_singleton _ _ |>.trans ((ha.append hb).cons _)
  | .specials p e ps c args => by
    have ha := postArgs_perm args
    simp only [postNode, subNode]
    exact List.perm_append_singleton _ _ |>.trans (ha.cons _)
  | .math p e ps d o c body => by
    have hb := postBody_perm body
    simp only [postNode, subNode]
    exact List.perm_append_singleton _ _ |>.trans (hb.cons _)
theorem postBody_perm : ∀ b : Option (List Node), (postBody b).Perm (subBody b)
  | none => by simp [postBody, subBody]
  | some ns => by simpa only [postBody, subBody] using postNodes_perm ns
theorem postNodes_perm : ∀ ns : List Node, (postNodes ns).Perm (subNodes ns)
  | [] => by simp [postNodes, subNodes]
  | n :: ns => by
    simp only [postNodes, subNodes]
    exact (postNode_perm n).append (postNodes_perm ns)
theorem postArgs_perm : ∀ a : Option (List Arg), (postArgs a).Perm (subArgs a)
  | none => by simp [postArgs, subArgs]
  | some l => by
    have h := postArgList_perm l
    simp only [postArgs, subArgs]
    exact List.perm_append_singleton _ _ |>.trans (h.cons _)
theorem postArgList_perm : ∀ l : List Arg, (postArgList l).Perm (subArgList l)
  | [] => by simp [postArgList, subArgList]
  | a :: l => by
    simp only [postArgList, subArgList]
    exact (postArg_perm a).append (postArgList_perm l)
theorem postArg_perm : ∀ a : Arg, (postArg a).Perm (subArg a)
  | .absent => by simp [postArg, subArg]
  | .node n => by simpa only [postArg, subArg] using postNode_perm n
  | .list p e ns => by
    have h := postNodes_perm ns
    simp only [postArg, subArg]
    exact List.perm_append_singleton _ _ |>.trans (h.cons _)
end

theorem postorder_perm (t : Obj) : (postorder t).Perm (subobjs t) := by
  cases t with
  | node n => exact postNode_perm n
  | nlist p e ns => exact postArg_perm _
  | pargs l => exact postArgs_perm _

/-! ### property theorems -/

/-- **C19 (results, full log).**  For every tree — any node kind, `None` bodies, `None` argument
    containers, `None` argument slots, any depth — `start` runs exactly one callback per object of
    the post-order (arguments before body, document order), each callback receives exactly the
    results of its direct children in that order (`Obj.received`: `None` placeholders for absent
    arguments, `[]`/`None`/`''` for `None` containers as the code does), and `start` returns the
    root's own callback value. -/
theorem C19_results (t : Obj) : visitStart t = ((postorder t).map Obj.entry, t.result) := by
  cases t with
  | node n => simp [visitStart, postorder, visitNode_spec, resNode_eq_result]
  | nlist p e ns => simp [visitStart, postorder, visitArg_spec, resArg_list_eq_result]
  | pargs l =>
    have h := descendArgs_spec (some l)
    simp only [descendArgs] at h
    simp [visitStart, postorder, h, argsRes_eq, argsRes_some_eq_result]

/-- **C19 (order).**  The sequence of visited objects is the post-order of the tree. -/
theorem C19_order (t : Obj) : (visitStart t).1.map Entry.id = (postorder t).map Obj.ident := by
  simp [C19_results, Obj.entry, Function.comp_def]

/-- **C19 (once).**  The visited objects are, with multiplicity, exactly the objects reachable
    through bodies and argument lists: nothing is skipped, nothing is visited twice (meaningful
    also when two distinct sub-objects are structurally equal: the statement is about the list of
    occurrences). -/
theorem C19_once (t : Obj) :
    (postorder t).Perm (subobjs t) ∧
    ((visitStart t).1.map Entry.id).Perm ((subobjs t).map Obj.ident) ∧
    (visitStart t).1.length = (subobjs t).length := by
  refine ⟨postorder_perm t, ?_, ?_⟩
  · rw [C19_order]; exact (postorder_perm t).map _
  · rw [C19_results]; simpa using (postorder_perm t).length_eq

/-- when positions tell all reachable objects apart, no identity occurs twice in the log -/
theorem C19_once_nodup (t : Obj) (h : ((subobjs t).map Obj.ident).Nodup) :
    ((visitStart t).1.map Entry.id).Nodup :=
  (C19_once t).2.1.nodup_iff.mpr h

/-! ### children first: the direct children and their complete traversals -/

def argObj : Arg → List Obj
  | .absent => []
  | .node n => [.node n]
  | .list p e ns => [.nlist p e ns]

def bodyObjs : Option (List Node) → List Obj
  | none => []
  | some ns => ns.map .node

def argsObjs : Option (List Arg) → List Obj
  | none => []
  | some l => [.pargs l]

/-- the direct children of an object, arguments before body, in document order; a `None` container
    and a `None` slot contribute nothing -/
def Obj.children : Obj → List Obj
  | .node (.chars ..) => []
  | .node (.comment ..) => []
  | .node (.group _ _ _ _ _ body) => bodyObjs body
  | .node (.mac _ _ _ _ _ args) => argsObjs args
  | .node (.env _ _ _ _ args body) => argsObjs args ++ bodyObjs body
  | .node (.specials _ _ _ _ args) => argsObjs args
  | .node (.math _ _ _ _ _ _ body) => bodyObjs body
  | .nlist _ _ ns => ns.map .node
  | .pargs l => l.flatMap argObj

theorem postNodes_eq_flatMap (ns : List Node) : postNodes ns = (ns.map Obj.node).flatMap postorder := by
  induction ns with
  | nil => simp [postNodes]
  | cons n ns ih => simp [postNodes, ih, postorder]

theorem postBody_eq_flatMap (b : Option (List Node)) : postBody b = (bodyObjs b).flatMap postorder := by
  cases b <;> simp [postBody, bodyObjs, postNodes_eq_flatMap]

theorem postArgList_eq_flatMap (l : List Arg) : postArgList l = (l.flatMap argObj).flatMap postorder := by
  induction l with
  | nil => simp [postArgList]
  | cons a l ih => cases a <;> simp [postArgList, ih, postorder, postArg, argObj]

theorem postArgs_eq_flatMap (a : Option (List Arg)) : postArgs a = (argsObjs a).flatMap postorder := by
  cases a <;> simp [postArgs, argsObjs, postorder]

/-- the traversal of an object is the traversals of its children, in order, followed by the object -/
theorem postorder_eq_children (o : Obj) : postorder o = o.children.flatMap postorder ++ [o] := by
  cases o with
  | node n =>
    cases n <;>
      simp [postorder, postNode, Obj.children, postBody_eq_flatMap, postArgs_eq_flatMap]
  | nlist p e ns => simp [postorder, postArg, Obj.children, postNodes_eq_flatMap]
  | pargs l => simp [postorder, postArgs, Obj.children, postArgList_eq_flatMap]

theorem infix_append_left' {α} {x a : List α} (b : List α) (h : x <:+: a) : x <:+: a ++ b :=
  h.trans (List.prefix_append a b).isInfix

theorem infix_append_right' {α} {x b : List α} (a : List α) (h : x <:+: b) : x <:+: a ++ b :=
  h.trans (List.suffix_append a b).isInfix

mutual
theorem subNode_infix : ∀ (n : Node) (o : Obj), o ∈ subNode n → postorder o <:+: postNode n
  | .chars p e ps c, o, h => by
    simp only [subNode, List.mem_singleton] at h; subst h; exact List.infix_refl _
  | .comment p e ps c post, o, h => by
    simp only [subNode, List.mem_singleton] at h; subst h; exact List.infix_refl _
  | .group p e ps d c body, o, h => by
    simp only [subNode, List.mem_cons] at h
    rcases h with h | h
    · subst h; exact List.infix_refl _
    · simp only [postNode]; exact infix_append_left' _ (subBody_infix body o h)
  | .mac p e ps n post args, o, h => by
    simp only [subNode, List.mem_cons] at h
    rcases h with h | h
    · subst h; exact List.infix_refl _
    · simp only [postNode]; exact infix_append_left' _ (subArgs_infix args o h)
  | .env p e ps n args body, o, h => by
    simp only [subNode, List.mem_cons, List.mem_append] at h
    rcases h with h | h | h
    · subst h; exact List.infix_refl _
    · simp only [postNode]; exact infix_append_left' _ (infix_append_left' _ (subArgs_infix args o h))
    · simp only [postNode]; exact infix_append_left' _ (infix_append_right' _ (subBody_infix body o h))
  | .specials p e ps c args, o, h => by
    simp only [subNode, List.mem_cons] at h
    rcases h with h | h
    · subst h; exact List.infix_refl _
    · simp only [postNode]; exact infix_append_left' _ (subArgs_infix args o h)
  | .math p e ps d op c body, o, h => by
    simp only [subNode, List.mem_cons] at h
    rcases h with h | h
    · subst h; exact List.infix_refl _
    · simp only [postNode]; exact infix_append_left' _ (subBody_infix body o h)
theorem subBody_infix : ∀ (b : Option (List Node)) (o : Obj), o ∈ subBody b → postorder o <:+: postBody b
  | none, o, h => by simp [subBody] at h
  | some ns, o, h => by
    simp only [subBody] at h; simp only [postBody]; exact subNodes_infix ns o h
theorem subNodes_infix : ∀ (ns : List Node) (o : Obj), o ∈ subNodes ns → postorder o <:+: postNodes ns
  | [], o, h => by simp [subNodes] at h
  | n :: ns, o, h => by
    simp only [subNodes, List.mem_append] at h
    simp only [postNodes]
    rcases h with h | h
    · exact infix_append_left' _ (subNode_infix n o h)
    · exact infix_append_right' _ (subNodes_infix ns o h)
theorem subArgs_infix : ∀ (a : Option (List Arg)) (o : Obj), o ∈ subArgs a → postorder o <:+: postArgs a
  | none, o, h => by simp [subArgs] at h
  | some l, o, h => by
    simp only [subArgs, List.mem_cons] at h
    rcases h with h | h
    · subst h; exact List.infix_refl _
    · simp only [postArgs]; exact infix_append_left' _ (subArgList_infix l o h)
theorem subArgList_infix : ∀ (l : List Arg) (o : Obj), o ∈ subArgList l → postorder o <:+: postArgList l
  | [], o, h => by simp [subArgList] at h
  | a :: l, o, h => by
    simp only [subArgList, List.mem_append] at h
    simp only [postArgList]
    rcases h with h | h
    · exact infix_append_left' _ (subArg_infix a o h)
    · exact infix_append_right' _ (subArgList_infix l o h)
theorem subArg_infix : ∀ (a : Arg) (o : Obj), o ∈ subArg a → postorder o <:+: postArg a
  | .absent, o, h => by simp [subArg] at h
  | .node n, o, h => by
    simp only [subArg] at h; simp only [postArg]; exact subNode_infix n o h
  | .list p e ns, o, h => by
    simp only [subArg, List.mem_cons] at h
    rcases h with h | h
    · subst h; exact List.infix_refl _
    · simp only [postArg]; exact infix_append_left' _ (subNodes_infix ns o h)
end

theorem subobjs_infix (t o : Obj) (h : o ∈ subobjs t) : postorder o <:+: postorder t := by
  cases t with
  | node n => exact subNode_infix n o h
  | nlist p e ns => exact subArg_infix _ o h
  | pargs l => exact subArgs_infix _ o h

/-- **C19 (children first).**  For every object reachable from the tree, the log contains, as one
    contiguous block, the complete traversals of its direct children (arguments before body,
    document order) immediately followed by the object's own callback. -/
theorem C19_children_first (t o : Obj) (h : o ∈ subobjs t) :
    ∃ pre suf, (visitStart t).1 =
      pre ++ ((o.children.flatMap postorder).map Obj.entry ++ [o.entry]) ++ suf := by
  obtain ⟨s, u, hsu⟩ := subobjs_infix t o h
  refine ⟨s.map Obj.entry, u.map Obj.entry, ?_⟩
  rw [C19_results, ← hsu, postorder_eq_children o]
  simp

/-- **C19 (the value handed upward).**  The log ends with the root's own callback and `start`
    returns the value that callback returned. -/
theorem C19_returns_own_callback (t : Obj) :
    ∃ pre, (visitStart t).1 = pre ++ [⟨t.ident, t.received⟩] ∧ (visitStart t).2 = .ret t.ident t.received := by
  refine ⟨(t.children.flatMap postorder).map Obj.entry, ?_, ?_⟩
  · rw [C19_results, postorder_eq_children t]; simp [Obj.entry]
  · rw [C19_results]; rfl

/-- **C19 (`None` containers, as the code does).**  A `None` group/environment body is reported as
    `[]`, a `None` math body as `None`, `nodeargd is None` as `''` without a
    `visit_parsed_arguments` call, and an absent argument as a `None` entry without a callback. -/
theorem C19_none_containers (p e : Nat) (ps : PSInfo) (a b c : Str) (d : Bool) :
    (visitNode (.group p e ps a b none)).1 = [⟨⟨.group, some p, some e⟩, [.lst []]⟩] ∧
    (visitNode (.math p e ps d a b none)).1 = [⟨⟨.math, some p, some e⟩, [.none]⟩] ∧
    (visitNode (.env p e ps a none none)).1 = [⟨⟨.env, some p, some e⟩, [.emptyStr, .lst []]⟩] ∧
    (visitNode (.mac p e ps a b none)).1 = [⟨⟨.mac, some p, some e⟩, [.emptyStr]⟩] ∧
    (visitNode (.specials p e ps a none)).1 = [⟨⟨.specials, some p, some e⟩, [.emptyStr]⟩] ∧
    (visitPArgs [.absent, .node (.chars p e ps c), .absent]).1 =
      [⟨⟨.chars, some p, some e⟩, []⟩,
       ⟨pargsId, [.lst [.none, .ret ⟨.chars, some p, some e⟩ [], .none]]⟩] := by
  simp [visitNode, visitPArgs, visitArgList, visitArg, descendBody, descendArgs, callback]

/-! ### the statements are about non-trivial trees: a concrete instance

`\begin{ea}{$..$}\x !{a}\end{ea}`-like tree after tolerant recovery: an environment whose first
(optional) argument is absent, whose second argument is a group containing a math node with a
`None` body, and whose body holds a macro with `nodeargd = None`, a specials node with a node-list
valued argument, and an empty group. -/

def exTree : Obj :=
  .node (.env 0 40 {} ['e', 'a']
    (some [.absent, .node (.group 10 15 {} ['{'] ['}'] (some [.math 11 14 {} false ['$'] ['$'] none]))])
    (some [.mac 15 17 {} ['x'] [] none,
           .specials 17 21 {} ['!'] (some [.list (some 18) (some 21) [.chars 18 21 {} ['a']]]),
           .group 21 23 {} ['{'] ['}'] (some [])]))

example : (visitStart exTree).1.map Entry.id =
    [⟨.math, some 11, some 14⟩, ⟨.group, some 10, some 15⟩, pargsId, ⟨.mac, some 15, some 17⟩,
     ⟨.chars, some 18, some 21⟩, ⟨.nodelist, some 18, some 21⟩, pargsId, ⟨.specials, some 17, some 21⟩,
     ⟨.group, some 21, some 23⟩, ⟨.env, some 0, some 40⟩] := by
  simp [exTree, visitStart, visitNode, descendArgs, descendBody, visitPArgs, visitArgList, visitArg, visitNodes, callback]

example : (visitStart exTree).1.map Entry.id = (postorder exTree).map Obj.ident := C19_order exTree

/-- two `ParsedArguments` objects share the identity `pargsId`: `C19_once` still counts both -/
example : (subobjs exTree).length = 10 ∧ ((subobjs exTree).map Obj.ident).count pargsId = 2 := by
  simp only [exTree, subobjs, subNode, subArgs, subBody, subNodes, subArgList, subArg, Obj.ident, Node.ident, pargsId,
    List.map, List.cons_append, List.nil_append, List.append_nil]
  decide

example : (visitStart exTree).1.length = 10 := by
  rw [(C19_once exTree).2.2]; simp [exTree, subobjs, subNode, subArgs, subBody, subNodes, subArgList, subArg]

/-- a tree whose reachable objects have pairwise different identities (hypothesis of `C19_once_nodup`) -/
def exTree2 : Obj :=
  .nlist (some 0) (some 9) [.chars 0 1 {} ['a'],
    .mac 1 9 {} ['f'] [] (some [.absent, .node (.group 3 9 {} ['{'] ['}'] (some [.chars 4 8 {} ['b']]))])]

theorem exTree2_nodup : ((subobjs exTree2).map Obj.ident).Nodup := by
  simp [exTree2, subobjs, subNode, subArgs, subBody, subNodes, subArgList, subArg, Obj.ident, Node.ident, pargsId]
example : ((visitStart exTree2).1.map Entry.id).Nodup := C19_once_nodup exTree2 exTree2_nodup

/-- the environment's callback receives the arguments result (with the `None` placeholder first) and
    the body results, in order -/
example : (Obj.received exTree) =
    [.ret pargsId [.lst [.none, .ret ⟨.group, some 10, some 15⟩ [.lst [.ret ⟨.math, some 11, some 14⟩ [.none]]]]],
     .lst [.ret ⟨.mac, some 15, some 17⟩ [.emptyStr],
           .ret ⟨.specials, some 17, some 21⟩
             [.ret pargsId [.lst [.ret ⟨.nodelist, some 18, some 21⟩ [.lst [.ret ⟨.chars, some 18, some 21⟩ []]]]]],
           .ret ⟨.group, some 21, some 23⟩ [.lst []]]] := by
  simp [exTree, Obj.received, argsRes, bodyRes, resArg, resNode, resArgs, resArgList, resBody, resNodes]

/-- hypothesis of `C19_children_first`: the specials node inside the body is reachable -/
example : ∃ pre suf, (visitStart exTree).1 = pre ++
    (((Obj.node (.specials 17 21 {} ['!'] (some [.list (some 18) (some 21) [.chars 18 21 {} ['a']]]))).children.flatMap
        postorder).map Obj.entry ++
      [(Obj.node (.specials 17 21 {} ['!'] (some [.list (some 18) (some 21) [.chars 18 21 {} ['a']]]))).entry]) ++ suf :=
  C19_children_first exTree _ (by simp [exTree, subobjs, subNode, subArgs, subBody, subNodes, subArgList, subArg])

end Pylx
