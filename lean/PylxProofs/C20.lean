/-
  C20 — positions map to the right line and column.
  Theorems about `Pylx.posToLineCol` (model of LineNumbersCalculator.pos_to_lineno_colno).
-/
import Pylx.LineNo
namespace Pylx

/-- `st` is a line start of `s`: the beginning, or the index right after a newline. -/
def IsLineStart (s : Str) (st : Nat) : Prop := st = 0 ∨ ∃ k, st = k + 1 ∧ s[k]? = some '\n'

theorem mem_lineStartsFrom (s : Str) (k x : Nat) :
    x ∈ lineStartsFrom s k ↔ ∃ j, s[j]? = some '\n' ∧ x = k + j + 1 := by
  induction s generalizing k with
  | nil => simp [lineStartsFrom]
  | cons c cs ih =>
    unfold lineStartsFrom
    by_cases hc : (c == '\n') = true
    · rw [if_pos hc]; simp only [List.mem_cons, ih]
      constructor
      · rintro (h | ⟨j, hj, hx⟩)
        · exact ⟨0, by simpa using hc, by omega⟩
        · exact ⟨j+1, by simpa using hj, by omega⟩
      · rintro ⟨j, hj, hx⟩
        cases j with
        | zero => left; omega
        | succ j => right; exact ⟨j, by simpa using hj, by omega⟩
    · rw [if_neg hc, ih]
      constructor
      · rintro ⟨j, hj, hx⟩
        exact ⟨j+1, by simpa using hj, by omega⟩
      · rintro ⟨j, hj, hx⟩
        cases j with
        | zero => simp at hj; simp [hj] at hc
        | succ j => exact ⟨j, by simpa using hj, by omega⟩

theorem lineStartsFrom_gt (s : Str) (k x : Nat) (h : x ∈ lineStartsFrom s k) : k < x := by
  rw [mem_lineStartsFrom] at h; obtain ⟨j, _, hx⟩ := h; omega

theorem lineStartsFrom_sorted (s : Str) (k : Nat) : (lineStartsFrom s k).Pairwise (· < ·) := by
  induction s generalizing k with
  | nil => simp [lineStartsFrom]
  | cons c cs ih =>
    unfold lineStartsFrom
    split
    · exact List.pairwise_cons.mpr ⟨fun x hx => lineStartsFrom_gt _ _ _ hx, ih _⟩
    · exact ih _

theorem lineStarts_sorted (s : Str) : (lineStarts s).Pairwise (· < ·) := by
  unfold lineStarts
  exact List.pairwise_cons.mpr ⟨fun x hx => by have := lineStartsFrom_gt _ _ _ hx; omega, lineStartsFrom_sorted _ _⟩

theorem mem_lineStarts (s : Str) (x : Nat) : x ∈ lineStarts s ↔ IsLineStart s x := by
  unfold lineStarts IsLineStart
  simp only [List.mem_cons, mem_lineStartsFrom]
  constructor
  · rintro (h | ⟨j, hj, hx⟩)
    · left; exact h
    · right; exact ⟨j, by omega, hj⟩
  · rintro (h | ⟨k, hk, hs⟩)
    · left; exact h
    · right; exact ⟨k, hs, by omega⟩

/-- The specification of `bisect_right(l, p) - 1` on a strictly sorted list. -/
theorem countLE_spec (l : List Nat) (p n : Nat) (hs : l.Pairwise (· < ·)) (hn : countLE l p = n + 1) :
    ∃ st, l[n]? = some st ∧ st ≤ p ∧ ∀ x ∈ l, x ≤ p → x ≤ st := by
  induction l generalizing n with
  | nil => simp [countLE] at hn
  | cons a t ih =>
    have hs' := List.pairwise_cons.mp hs
    by_cases ha : a ≤ p
    · have hc : countLE (a :: t) p = countLE t p + 1 := by simp [countLE, List.filter, ha]
      cases n with
      | zero =>
        have h0 : countLE t p = 0 := by omega
        refine ⟨a, by simp, ha, ?_⟩
        intro x hx hxp
        rcases List.mem_cons.mp hx with rfl | hxt
        · exact Nat.le_refl _
        · exfalso
          have : x ∈ t.filter (· ≤ p) := List.mem_filter.mpr ⟨hxt, by simpa using hxp⟩
          unfold countLE at h0
          rw [List.length_eq_zero_iff.mp h0] at this
          simp at this
      | succ m =>
        obtain ⟨st, hst, hle, hmax⟩ := ih m hs'.2 (by omega)
        refine ⟨st, by simpa using hst, hle, ?_⟩
        intro x hx hxp
        rcases List.mem_cons.mp hx with rfl | hxt
        · have : st ∈ t := List.mem_of_getElem? hst
          exact Nat.le_of_lt (hs'.1 _ this)
        · exact hmax x hxt hxp
    · exfalso
      have hf : (a :: t).filter (· ≤ p) = [] := by
        apply List.filter_eq_nil_iff.mpr
        intro x hx
        rcases List.mem_cons.mp hx with rfl | hxt
        · simpa using ha
        · have := hs'.1 _ hxt
          simp; omega
      simp [countLE, hf] at hn

/-- **C20.**  For every string, every position `p ≤ |s|` and every offset
    configuration, the reported `(lineno, colno)` identify a line start `st` of `s`
    with: `st ≤ p`; `st` is the `(lineno - lineOffset)`-th line start (0-based) in
    increasing order; the position equals `st` plus the column minus the
    configured column offset (first-line offset on the first line); and no
    newline lies between `st` and `p` — i.e. `p` really is on that line. -/
theorem C20_pos_line_col (cfg : LineCfg) (s : Str) (p : Nat) (_hp : p ≤ s.length) :
    ∃ (idx st : Nat),
      (posToLineCol cfg s p).1 = (idx : Int) + cfg.lineOffset ∧
      (lineStarts s)[idx]? = some st ∧ IsLineStart s st ∧ st ≤ p ∧
      ((p : Int) = (st : Int) + ((posToLineCol cfg s p).2
          - (if idx = 0 then cfg.firstLineColOffset else cfg.colOffset))) ∧
      (∀ k, st ≤ k → k < p → s[k]? ≠ some '\n') := by
  have h0 : 0 ∈ (lineStarts s).filter (· ≤ p) := by
    apply List.mem_filter.mpr; simp [lineStarts]
  have hpos : 0 < countLE (lineStarts s) p := List.length_pos_of_mem h0
  obtain ⟨n, hn⟩ : ∃ n, countLE (lineStarts s) p = n + 1 := ⟨countLE (lineStarts s) p - 1, by omega⟩
  obtain ⟨st, hst, hle, hmax⟩ := countLE_spec _ p n (lineStarts_sorted s) hn
  refine ⟨n, st, ?_, hst, ?_, hle, ?_, ?_⟩
  · simp [posToLineCol, hn]
  · exact (mem_lineStarts s st).mp (List.mem_of_getElem? hst)
  · have hg : (lineStarts s).getD n 0 = st := by simp [List.getD, hst]
    simp only [posToLineCol, hn, Nat.add_sub_cancel, hg]
    omega
  · intro k hk1 hk2 hnl
    have hmem : k + 1 ∈ lineStarts s := (mem_lineStarts s (k+1)).mpr (Or.inr ⟨k, rfl, hnl⟩)
    have := hmax (k+1) hmem (by omega)
    omega

/-- Line starts are exactly `0` and the indices following a newline, in increasing order. -/
theorem C20_line_starts (s : Str) :
    (lineStarts s).Pairwise (· < ·) ∧ ∀ x, x ∈ lineStarts s ↔ IsLineStart s x :=
  ⟨lineStarts_sorted s, mem_lineStarts s⟩

/-- Uniqueness: the pair determines the position (two positions with the same report are equal). -/
theorem C20_injective (cfg : LineCfg) (s : Str) (p q : Nat) (hp : p ≤ s.length) (hq : q ≤ s.length)
    (h : posToLineCol cfg s p = posToLineCol cfg s q) : p = q := by
  obtain ⟨i, st, h1, h2, _, _, h5, _⟩ := C20_pos_line_col cfg s p hp
  obtain ⟨j, st', g1, g2, _, _, g5, _⟩ := C20_pos_line_col cfg s q hq
  rw [h] at h1 h5
  have hij : i = j := by omega
  subst hij
  rw [h2] at g2
  cases g2
  omega

/-- Non-vacuity: a concrete three-line string; position 5 is line 3 (offset 1), column 1. -/
example : posToLineCol {} "a\n\nbc".toList 5 = (3, 2) := by decide
example : posToLineCol { lineOffset := 0, firstLineColOffset := 7, colOffset := 2 } "ab\nc".toList 1 = (0, 8) := by decide
example : posToLineCol { lineOffset := 0, firstLineColOffset := 7, colOffset := 2 } "ab\nc".toList 4 = (1, 3) := by decide

end Pylx
