/-
  C05BalScan — a string-level scanner that counts the structural delimiters of a LaTeX source the way the
  tokenizer sees them (outside comments, `\x` escapes skipped), and its elementary laws.

  `cnt ctx k .n s` is, for the symbol class `k`,
    * `brace`  : number of `{` minus number of `}`
    * `dollar` : number of `$` characters
    * `paren`  : number of `\(` minus number of `\)`
    * `brack`  : number of `\[` minus number of `\]`
    * `env`    : number of `\begin` minus number of `\end` control words
    * `verb`   : number of calls of macros / environments whose argument specification of the context `ctx` is not made
                 of the non-verbatim standard argument types (a count of "verbatim constructs")
  in `s`, where comments (`%` … newline) are skipped and a backslash always escapes the next character.
-/
import PylxProofs.C02
namespace Pylx
namespace C05Bal

inductive Mode where
  | n | esc | com
deriving DecidableEq, Repr

inductive Sym where
  | brace | dollar | paren | brack | env | verb
deriving DecidableEq, Repr

/-- characters that neither change the scanner's mode nor carry weight -/
def plainCh (c : Char) : Bool := c != '\\' && c != '%' && c != '{' && c != '}' && c != '$'

def argKindOk : ArgKind → Bool
  | .v => false
  | .vd _ _ => false
  | .r o c => plainCh o && plainCh c
  | .d o c => plainCh o && plainCh c
  | _ => true

/-- a standard argument specification without verbatim slots whose delimited slots use plain delimiters -/
def argsOk : ArgsP → Bool
  | .std l => l.all (fun sp => argKindOk sp.kind)
  | _ => false

def macroBad (ctx : Ctx) (name : Str) : Bool :=
  match ctx.macroSpec name with
  | some a => !argsOk a
  | none => false

def envBad (ctx : Ctx) (name : Str) : Bool :=
  match ctx.envSpec name with
  | some ab => !argsOk ab.1
  | none => false

def beginW : Str := ['b', 'e', 'g', 'i', 'n']
def endW : Str := ['e', 'n', 'd']

/-- the environment name written after `\begin`: blanks, `{`, name characters, `}` -/
def envNameOf (r : Str) : Option Str :=
  match r.dropWhile isPySpace with
  | '{' :: r3 =>
    if (r3.takeWhile isEnvNameChar).isEmpty then none else
    match r3.dropWhile isEnvNameChar with
    | '}' :: _ => some (r3.takeWhile isEnvNameChar)
    | _ => none
  | _ => none

/-- weight of a control sequence for the class `verb`; `r` is the text after the backslash -/
def verbW (ctx : Ctx) (r : Str) : Int :=
  match r with
  | [] => 0
  | c :: _ =>
    if isAsciiAlpha c then
      if r.takeWhile isAsciiAlpha = beginW then
        (match envNameOf (r.dropWhile isAsciiAlpha) with
         | some nm => if envBad ctx nm then 1 else 0
         | none => 0)
      else if r.takeWhile isAsciiAlpha = endW then 0
      else if macroBad ctx (r.takeWhile isAsciiAlpha) then 1 else 0
    else if c = '(' ∨ c = ')' ∨ c = '[' ∨ c = ']' then 0
    else if macroBad ctx [c] then 1 else 0

def plainW : Sym → Char → Int
  | .brace, c => if c = '{' then 1 else if c = '}' then -1 else 0
  | .dollar, c => if c = '$' then 1 else 0
  | _, _ => 0

def parenW : Str → Int
  | '(' :: _ => 1
  | ')' :: _ => -1
  | _ => 0

def brackW : Str → Int
  | '[' :: _ => 1
  | ']' :: _ => -1
  | _ => 0

def envW (r : Str) : Int :=
  if r.takeWhile isAsciiAlpha = beginW then 1 else if r.takeWhile isAsciiAlpha = endW then -1 else 0

/-- weight of a control sequence; `r` is the text after the backslash -/
def escW (ctx : Ctx) : Sym → Str → Int
  | .paren, r => parenW r
  | .brack, r => brackW r
  | .env, r => envW r
  | .verb, r => verbW ctx r
  | _, _ => 0

/-- the scanner -/
def cnt (ctx : Ctx) (k : Sym) : Mode → Str → Int
  | .n, [] => 0
  | .n, c :: r =>
    if c = '\\' then escW ctx k r + cnt ctx k .esc r
    else if c = '%' then cnt ctx k .com r
    else plainW k c + cnt ctx k .n r
  | .esc, [] => 0
  | .esc, _ :: r => cnt ctx k .n r
  | .com, [] => 0
  | .com, c :: r => if c = '\n' then cnt ctx k .n r else cnt ctx k .com r

/-- what the classes are compared modulo: `$` characters are counted modulo 2, everything else exactly -/
def modulus : Sym → Int
  | .dollar => 2
  | _ => 0

/-- equality of two counts for the class `k` -/
def Rel (k : Sym) (x y : Int) : Prop := modulus k ∣ x - y

theorem Rel.refl (k : Sym) (x : Int) : Rel k x x := by
  unfold Rel; rw [Int.sub_self]; exact Int.dvd_zero _

theorem Rel.of_eq {k : Sym} {x y : Int} (h : x = y) : Rel k x y := by rw [h]; exact Rel.refl k y

theorem Rel.trans {k : Sym} {x y z : Int} (h1 : Rel k x y) (h2 : Rel k y z) : Rel k x z := by
  unfold Rel at *
  have : x - z = (x - y) + (y - z) := by omega
  rw [this]; exact Int.dvd_add h1 h2

theorem Rel.symm {k : Sym} {x y : Int} (h : Rel k x y) : Rel k y x := by
  unfold Rel at *
  have : y - x = -(x - y) := by omega
  rw [this]; exact Int.dvd_neg.mpr h

theorem Rel.add_left {k : Sym} {x y : Int} (w : Int) (h : Rel k x y) : Rel k (w + x) (w + y) := by
  unfold Rel at *
  have : w + x - (w + y) = x - y := by omega
  rw [this]; exact h

theorem Rel.add {k : Sym} {a b x y : Int} (h1 : Rel k a b) (h2 : Rel k x y) : Rel k (a + x) (b + y) := by
  unfold Rel at *
  have : a + x - (b + y) = (a - b) + (x - y) := by omega
  rw [this]; exact Int.dvd_add h1 h2

theorem Rel.eq_of_ne_dollar {k : Sym} (hk : k ≠ .dollar) {x y : Int} (h : Rel k x y) : x = y := by
  unfold Rel at h
  have hm : modulus k = 0 := by cases k <;> first | rfl | exact absurd rfl hk
  rw [hm] at h
  have := Int.zero_dvd.mp h
  omega

theorem Rel.verb {x y : Int} (h : Rel .verb x y) : x = y := Rel.eq_of_ne_dollar (by decide) h

theorem rel_two (x : Int) : Rel .dollar (2 + x) x := by
  show (2 : Int) ∣ 2 + x - x
  exact ⟨1, by omega⟩

/-! ### elementary laws of the scanner -/

section laws
variable (ctx : Ctx) (k : Sym)

theorem plainW_plain {c : Char} (h : plainCh c = true) : plainW k c = 0 := by
  unfold plainCh at h
  simp only [Bool.and_eq_true, bne_iff_ne, ne_eq] at h
  obtain ⟨⟨⟨⟨_, _⟩, h3⟩, h4⟩, h5⟩ := h
  cases k <;> simp [plainW, h3, h4, h5]

theorem cnt_plain {c : Char} (h : plainCh c = true) (r : Str) : cnt ctx k .n (c :: r) = cnt ctx k .n r := by
  have hw := plainW_plain k h
  unfold plainCh at h
  simp only [Bool.and_eq_true, bne_iff_ne, ne_eq] at h
  obtain ⟨⟨⟨⟨h1, h2⟩, _⟩, _⟩, _⟩ := h
  rw [cnt, if_neg h1, if_neg h2, hw, Int.zero_add]

theorem cnt_plains {w : Str} (h : ∀ c ∈ w, plainCh c = true) (r : Str) : cnt ctx k .n (w ++ r) = cnt ctx k .n r := by
  induction w with
  | nil => rfl
  | cons c w ih =>
    rw [List.cons_append, cnt_plain ctx k (h c List.mem_cons_self)]
    exact ih (fun x hx => h x (List.mem_cons_of_mem _ hx))

theorem cnt_cons {c : Char} (h1 : c ≠ '\\') (h2 : c ≠ '%') (r : Str) :
    cnt ctx k .n (c :: r) = plainW k c + cnt ctx k .n r := by
  rw [cnt, if_neg h1, if_neg h2]

theorem cnt_esc (c : Char) (r : Str) : cnt ctx k .n ('\\' :: c :: r) = escW ctx k (c :: r) + cnt ctx k .n r := by
  rw [cnt, if_pos rfl, cnt]

theorem cnt_comment (r : Str) : cnt ctx k .n ('%' :: r) = cnt ctx k .com r := by
  rw [cnt, if_neg (by decide), if_pos rfl]

theorem space_plain {c : Char} (h : isPySpace c = true) : plainCh c = true := by
  unfold plainCh
  simp only [Bool.and_eq_true, bne_iff_ne, ne_eq]
  refine ⟨⟨⟨⟨?_, ?_⟩, ?_⟩, ?_⟩, ?_⟩ <;> (intro e; subst e; revert h; decide)

theorem alpha_plain {c : Char} (h : isAsciiAlpha c = true) : plainCh c = true := by
  unfold plainCh
  simp only [Bool.and_eq_true, bne_iff_ne, ne_eq]
  refine ⟨⟨⟨⟨?_, ?_⟩, ?_⟩, ?_⟩, ?_⟩ <;> (intro e; subst e; revert h; decide)

theorem envNameChar_plain {c : Char} (h : isEnvNameChar c = true) : plainCh c = true := by
  unfold plainCh
  simp only [Bool.and_eq_true, bne_iff_ne, ne_eq]
  refine ⟨⟨⟨⟨?_, ?_⟩, ?_⟩, ?_⟩, ?_⟩ <;> (intro e; subst e; revert h; decide)

theorem cnt_ws {w : Str} (h : ∀ c ∈ w, isPySpace c = true) (r : Str) : cnt ctx k .n (w ++ r) = cnt ctx k .n r :=
  cnt_plains ctx k (fun c hc => space_plain (h c hc)) r

theorem cnt_alphas {w : Str} (h : ∀ c ∈ w, isAsciiAlpha c = true) (r : Str) : cnt ctx k .n (w ++ r) = cnt ctx k .n r :=
  cnt_plains ctx k (fun c hc => alpha_plain (h c hc)) r

/-- in a comment everything up to the first newline is skipped -/
theorem cnt_com_find : ∀ (l : Str), (∀ i, l.findIdx? (· == '\n') = some i → cnt ctx k .com l = cnt ctx k .n (l.drop (i + 1))) ∧
    (l.findIdx? (· == '\n') = none → cnt ctx k .com l = 0) := by
  intro l
  induction l with
  | nil => exact ⟨fun i h => by simp at h, fun _ => rfl⟩
  | cons c l ih =>
    by_cases hc : c = '\n'
    · subst hc
      refine ⟨fun i h => ?_, fun h => ?_⟩
      · simp [List.findIdx?_cons] at h
        subst h
        rw [cnt, if_pos rfl]; rfl
      · simp [List.findIdx?_cons] at h
    · have hb : (c == '\n') = false := by simpa using hc
      refine ⟨fun i h => ?_, fun h => ?_⟩
      · rw [List.findIdx?_cons, hb] at h
        simp only [Bool.false_eq_true, if_false, Option.map_eq_some_iff] at h
        obtain ⟨j, hj, rfl⟩ := h
        rw [cnt, if_neg hc, ih.1 j hj]; rfl
      · rw [List.findIdx?_cons, hb] at h
        simp only [Bool.false_eq_true, if_false, Option.map_eq_none_iff] at h
        rw [cnt, if_neg hc, ih.2 h]

end laws

/-! ### positions: `C ctx k s p` is the count of the text from position `p` on -/

def C (ctx : Ctx) (k : Sym) (s : Str) (p : Nat) : Int := cnt ctx k .n (s.drop p)

theorem drop_cons_of_get {s : Str} {p : Nat} {c : Char} (h : s[p]? = some c) : s.drop p = c :: s.drop (p + 1) := by
  have hlt := getElem?_lt _ _ _ h
  rw [List.drop_eq_getElem_cons hlt]
  congr 1
  rw [List.getElem?_eq_getElem hlt] at h
  exact Option.some.inj h

theorem drop_of_prefix {s pre : Str} {p : Nat} (h : pre <+: s.drop p) : s.drop p = pre ++ s.drop (p + pre.length) := by
  obtain ⟨t, ht⟩ := h
  have : s.drop (p + pre.length) = t := C02.drop_add_of_drop ht.symm
  rw [this, ht]

theorem drop_of_startsWith {s t : Str} {p : Nat} (h : startsWithAt s t p = true) : s.drop p = t ++ s.drop (p + t.length) := by
  unfold startsWithAt at h
  exact drop_of_prefix (List.isPrefixOf_iff_prefix.mp h)

/-- skipping part of a whitespace run does not change the count -/
theorem C_ws_skip (ctx : Ctx) (k : Sym) {s pre : Str} {p : Nat} (h : pre <+: s.drop p)
    (hw : ∀ c ∈ pre, isPySpace c = true) (j : Nat) (hj : j ≤ pre.length) : C ctx k s (p + j) = C ctx k s p := by
  unfold C
  have e1 := drop_of_prefix h
  have e2 : s.drop (p + j) = pre.drop j ++ s.drop (p + pre.length) := by
    rw [← List.drop_drop, e1, List.drop_append_of_le_length hj]
  rw [e1, e2, cnt_ws ctx k hw, cnt_ws ctx k (fun c hc => hw c (List.mem_of_mem_drop hc))]

theorem takeWhile_all' (P : Char → Bool) : ∀ (l : Str), ∀ c ∈ l.takeWhile P, P c = true := by
  intro l
  induction l with
  | nil => intro c hc; cases hc
  | cons a l ih =>
    intro c hc
    by_cases ha : P a = true
    · rw [List.takeWhile_cons_of_pos ha] at hc
      rcases List.mem_cons.mp hc with h | h
      · rw [h]; exact ha
      · exact ih c h
    · rw [List.takeWhile_cons_of_neg ha] at hc; cases hc

theorem spaceRun_all (s : Str) (p : Nat) : ∀ c ∈ spaceRun s p, isPySpace c = true :=
  takeWhile_all' isPySpace _

end C05Bal
end Pylx
