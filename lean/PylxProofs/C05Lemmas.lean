/-
  C05Lemmas — the contract (`Pre`, `Good5`) used to prove C05 and the invariants of the parsing-state fields.
-/
import PylxProofs.ParseSpec
import PylxProofs.C05Tok
namespace Pylx

/-! ### small list facts -/

theorem lookupLast_some_of_any {β : Type} (k : Str) (l : List (Str × β))
    (h : l.any (fun d => d.1 == k) = true) : ∃ v, lookupLast k l = some v := by
  induction l with
  | nil => simp at h
  | cons a l ih =>
    obtain ⟨a1, a2⟩ := a
    unfold lookupLast
    cases hl : lookupLast k l with
    | some r => exact ⟨r, rfl⟩
    | none =>
      simp only [List.any_cons, Bool.or_eq_true] at h
      rcases h with h | h
      · refine ⟨a2, ?_⟩
        have h' : (a1 == k) = true := h
        simp only [h', if_true]
      · obtain ⟨v, hv⟩ := ih h
        rw [hl] at hv; cases hv

theorem lookupFirst_mem {β : Type} (k : Str) (l : List (Str × β)) (v : β) (h : lookupFirst k l = some v) :
    ∃ p ∈ l, p.2 = v := by
  induction l with
  | nil => cases h
  | cons a l ih =>
    obtain ⟨a1, a2⟩ := a
    unfold lookupFirst at h
    split at h
    · cases h; exact ⟨_, List.mem_cons_self, rfl⟩
    · obtain ⟨p, hp, hv⟩ := ih h
      exact ⟨p, List.mem_cons_of_mem _ hp, hv⟩

theorem lookupFirst_some_of_mem {β : Type} (k : Str) (l : List (Str × β)) (h : k ∈ l.map (·.1)) :
    ∃ v, lookupFirst k l = some v := by
  induction l with
  | nil => simp at h
  | cons a l ih =>
    obtain ⟨a1, a2⟩ := a
    unfold lookupFirst
    by_cases hk : (a1 == k) = true
    · exact ⟨a2, by simp only [hk, if_true]⟩
    · simp only [hk, if_false, Bool.false_eq_true]
      apply ih
      simp only [List.map_cons, List.mem_cons] at h
      rcases h with h | h
      · exfalso; apply hk; simp [h]
      · exact h

theorem findStrFromAux_le (t : Str) : ∀ (l : Str) (p e : Nat), findStrFromAux t l p = some e → e ≤ p + l.length := by
  intro l
  induction l with
  | nil =>
    intro p e h
    unfold findStrFromAux at h
    split at h
    · cases h; simp
    · cases h
  | cons c cs ih =>
    intro p e h
    unfold findStrFromAux at h
    split at h
    · cases h; simp
    · have := ih _ _ h
      simp only [List.length_cons]; omega

theorem findStrFrom_le (s t : Str) (p e : Nat) (h : findStrFrom s t p = some e) : e ≤ s.length := by
  unfold findStrFrom at h
  split at h
  · cases h
  · have := findStrFromAux_le t _ _ _ h
    simp only [List.length_drop] at this
    omega

theorem verbScan_lt (o c : Char) : ∀ (l : Str) (d i e : Nat), verbScan o c l d i = some e → e < i + l.length := by
  intro l
  induction l with
  | nil => intro d i e h; simp [verbScan] at h
  | cons ch rest ih =>
    intro d i e h
    unfold verbScan at h
    simp only [List.length_cons]
    split at h
    · split at h
      · cases h; omega
      · have := ih _ _ _ h; omega
    · split at h
      · have := ih _ _ _ h; omega
      · have := ih _ _ _ h; omega

/-! ### field invariants -/

/-- what every parsing state derived from the walker's initial one satisfies -/
structure FOk5 (env : Env) (f : PSFields) : Prop where
  hasCtx : f.hasCtx = true
  specials : f.specials = env.ctx.specials.map (·.1)
  delims : DelimsOk f
  /-- only needed for tolerant parsing: an escape character that opens a group cannot start `\begin{…}` -/
  esc : env.tol = true → f.enMacros = true ∨ f.enEnvs = false

theorem FOk5.upd {env : Env} {f : PSFields} (h : FOk5 env f) (b : Bool) (d : Option Str) (g : Pairs) :
    FOk5 env { f with inMath := b, mathDelim := d, groupDelims := g } :=
  ⟨h.hasCtx, h.specials, h.delims, h.esc⟩

theorem FOk5.normalize {env : Env} {f : PSFields} (h : FOk5 env f) : FOk5 env f.normalize := by
  unfold PSFields.normalize
  split
  · exact h
  · exact h.upd f.inMath none f.groupDelims

theorem FOk5.applyDelta {env : Env} {f : PSFields} (h : FOk5 env f) (d : Delta) : FOk5 env (applyDelta f d) := by
  cases d
  · exact h
  · exact (h.upd true none f.groupDelims).normalize
  · exact (h.upd false none f.groupDelims).normalize

theorem FOk5.mathFields {env : Env} {f : PSFields} (h : FOk5 env f) (d : Str) : FOk5 env (mathFields f d) :=
  (h.upd true (some d) f.groupDelims).normalize

theorem FOk5.tables {env : Env} {f : PSFields} (h : FOk5 env f) : TablesOk (mkPS f) :=
  tablesOk_of_fields f h.delims

theorem SameBut.refl (f : PSFields) : SameBut f f := rfl

theorem SameBut.inline {f g : PSFields} (h : SameBut f g) : g.inlineDelims = f.inlineDelims := by
  rw [h]
theorem SameBut.display {f g : PSFields} (h : SameBut f g) : g.displayDelims = f.displayDelims := by
  rw [h]

/-! ### tables of `mkPS` -/

theorem mkPS_specials (f : PSFields) : (mkPS f).f.specials = f.specials := by
  unfold mkPS PState.fresh PSFields.normalize
  split <;> rfl

def byOpenOf (f : PSFields) : List (Str × (Str × Bool)) :=
  f.inlineDelims.map (fun p => (p.1, (p.2, false))) ++ f.displayDelims.map (fun p => (p.1, (p.2, true)))

theorem mkPS_mathByOpen (f : PSFields) : (mkPS f).t.mathByOpen = byOpenOf f := by
  unfold mkPS PState.fresh PSFields.normalize
  split <;> rfl

theorem expectClose_mathFields (f : PSFields) (d : Str) :
    (mkPS (mathFields f d)).t.expectClose = lookupLast d (byOpenOf f) := by
  rfl

theorem byOpenOf_sameBut {f g : PSFields} (h : SameBut f g) : byOpenOf g = byOpenOf f := by
  unfold byOpenOf; rw [h.inline, h.display]

theorem ef_enEnvs (f : PSFields) : (mkPS ({ f with enEnvs := false } : PSFields).normalize).f.enEnvs = false := by
  cases h : f.inMath <;> simp [mkPS, PState.fresh, PSFields.normalize]

theorem ef_groupDelims (f : PSFields) : (({ f with enEnvs := false } : PSFields).normalize).groupDelims = f.groupDelims := by
  unfold PSFields.normalize
  split <;> rfl

/-! ### child parsing states -/

/-- the relation between a collector's state `f` and its `make_child_parsing_state` -/
def ChildOk5 (env : Env) (f : PSFields) : ChildPS → Prop
  | .same => True
  | .group o g outer =>
    g = f ∧ FOk5 env outer ∧ SameBut f outer ∧ f.groupDelims.any (fun d => d.1 == o) = true ∧
    (∀ a, (a == o) = false → f.groupDelims.any (fun d => d.1 == a) = true →
          outer.groupDelims.any (fun d => d.1 == a) = true)

theorem childGet_FOk {env : Env} {f : PSFields} {child : ChildPS} (hf : FOk5 env f) (hch : ChildOk5 env f child)
    (t : Token) : FOk5 env (child.get f t) := by
  cases child with
  | same => exact hf
  | group o g outer =>
    obtain ⟨hg, ho, _⟩ := hch
    unfold ChildPS.get
    dsimp only
    split
    · rw [hg]; exact hf
    · exact ho

theorem childGet_sameBut {env : Env} {f : PSFields} {child : ChildPS} (hch : ChildOk5 env f child)
    (t : Token) : SameBut f (child.get f t) := by
  cases child with
  | same => exact SameBut.refl f
  | group o g outer =>
    obtain ⟨hg, _, hsb, _⟩ := hch
    unfold ChildPS.get
    dsimp only
    split
    · rw [hg]; exact SameBut.refl f
    · exact hsb

theorem childGet_opener {env : Env} {f : PSFields} {child : ChildPS} (hch : ChildOk5 env f child)
    (t : Token) (hk : t.kind = .braceOpen) (hop : f.groupDelims.any (fun d => d.1 == t.arg) = true) :
    (child.get f t).groupDelims.any (fun d => d.1 == t.arg) = true := by
  cases child with
  | same => exact hop
  | group o g outer =>
    obtain ⟨hg, _, _, _, hother⟩ := hch
    unfold ChildPS.get
    dsimp only
    split
    · rw [hg]; exact hop
    · rename_i hne
      apply hother _ _ hop
      rw [hk] at hne
      have hb : (TokKind.braceOpen == TokKind.braceOpen) = true := by decide
      rw [hb, Bool.true_and] at hne
      simpa using hne

/-! ### the contract -/

def NodeIn (env : Env) (n : Node) : Prop := n.pos ≤ env.s.length ∧ n.posEnd ≤ env.s.length

def ResIn (env : Env) : Res → Prop
  | .node n => NodeIn env n
  | _ => True

def isNode : Res → Prop
  | .node _ => True
  | _ => False

def isNodeOrNone : Res → Prop
  | .node _ => True
  | .none => True
  | _ => False

def isList : Res → Prop
  | .list _ _ _ => True
  | _ => False

def GroupDelims.isAuto : GroupDelims → Bool
  | .auto _ => true
  | .pair _ _ => false

/-- the shape of what `parse_content(parser)` returns -/
def ResShape (p : Parser) (r : Res) : Prop :=
  match p with
  | .general _ _ _ => isList r
  | .group d opt _ => d.isAuto = true → opt = false → isNode r
  | .math _ => isNodeOrNone r
  | .macroCall _ _ => isNode r
  | .envCall _ _ _ => isNode r
  | .specialsCall _ _ => isNode r
  | _ => True

structure ErrOk (env : Env) (e : PErr) : Prop where
  pos : ∃ p, e.pos = some p ∧ p ≤ env.s.length
  rpos : e.rpos ≤ env.s.length
  recAt : ∀ t, e.recAt = some t → t.pos ≤ env.s.length
  recPast : ∀ t, e.recPast = some t → t.posEnd ≤ env.s.length
  recNodes : ResIn env e.recNodes

def GoodPc (env : Env) (p : Parser) : Ret → Prop
  | .ok r q => ResShape p r ∧ ResIn env r ∧ q ≤ env.s.length
  | .perr e => env.tol = false ∧ ErrOk env e
  | .loopEnd _ => False
  | .crash _ => False
  | .fuel => True

def GoodLoop (env : Env) : Ret → Prop
  | .loopEnd e =>
    e.pos ≤ env.s.length ∧ (∀ n ∈ e.nodes, n.pos ≤ env.s.length) ∧
    (∀ pe, e.err = some pe → ∃ p, pe.pos = some p ∧ p ≤ env.s.length) ∧
    (∀ t, e.stopTok = some t → t.posEnd ≤ env.s.length)
  | .fuel => True
  | _ => False

def GoodExpr (env : Env) : Ret → Prop
  | .ok r q => ResIn env r ∧ q ≤ env.s.length
  | .perr e => ErrOk env e
  | .fuel => True
  | _ => False

def Good5 (env : Env) : Task → Ret → Prop
  | .pc p _ _, r => GoodPc env p r
  | .loop _ _ _ _, r => GoodLoop env r
  | .expr _ _ _ _, r => GoodExpr env r

/-- preconditions of a `parse_content` call, per parser -/
def PPre5 (env : Env) (p : Parser) (f : PSFields) (pos : Nat) : Prop :=
  match p with
  | .general _ _ child => ChildOk5 env f child
  | .group d _ _ => ∀ o, d = .auto o →
      f.groupDelims.any (fun d => d.1 == o) = true ∧ NonSpaceAt env.s pos ∧
      (env.tol = true → ∃ t, peekImpl (mkPS f) env.s pos = .tok t ∧ t.kind = .braceOpen ∧ t.arg = o ∧ t.pre = [])
  | .math d =>
      (byOpenOf f).any (fun x => x.1 == d) = true ∧
      (env.tol = true → ∃ t, peekImpl (mkPS f) env.s pos = .tok t ∧
          (t.kind = .mathInline ∨ t.kind = .mathDisplay) ∧ t.arg = d ∧ t.pre = [])
  | .macroCall t a => a.Known ∧ t.pos ≤ env.s.length
  | .envCall t a _ => a.Known ∧ t.pos ≤ env.s.length
  | .specialsCall t a => a.Known ∧ t.pos ≤ env.s.length
  | .arguments a => a.Known
  | _ => True

structure StOk (env : Env) (st : LoopSt) : Prop where
  pos : st.pos ≤ env.s.length
  pend : ∀ p, st.pendPos = some p → p ≤ env.s.length
  acc : ∀ n ∈ st.acc, n.pos ≤ env.s.length

def Pre (env : Env) : Task → Prop
  | .pc p f pos => FOk5 env f ∧ pos ≤ env.s.length ∧ PPre5 env p f pos
  | .loop f _ child st => FOk5 env f ∧ ChildOk5 env f child ∧ StOk env st
  | .expr _ skipped f pos => FOk5 env f ∧ pos ≤ env.s.length ∧ (∀ n ∈ skipped, NodeIn env n)

def RecOk (env : Env) (rec : Task → Ret) : Prop := ∀ t, Pre env t → Good5 env t (rec t)

theorem RecOk.pc {env : Env} {rec : Task → Ret} (h : RecOk env rec) {p : Parser} {f : PSFields} {pos : Nat}
    (hf : FOk5 env f) (hpos : pos ≤ env.s.length) (hp : PPre5 env p f pos) : GoodPc env p (rec (.pc p f pos)) :=
  h (.pc p f pos) ⟨hf, hpos, hp⟩

theorem RecOk.loop {env : Env} {rec : Task → Ret} (h : RecOk env rec) {f : PSFields} {stop : StopTok}
    {child : ChildPS} {st : LoopSt}
    (hf : FOk5 env f) (hch : ChildOk5 env f child) (hst : StOk env st) : GoodLoop env (rec (.loop f stop child st)) :=
  h (.loop f stop child st) ⟨hf, hch, hst⟩

theorem RecOk.expr {env : Env} {rec : Task → Ret} (h : RecOk env rec) {ap : Bool} {sk : List Node} {f : PSFields}
    {pos : Nat} (hf : FOk5 env f) (hpos : pos ≤ env.s.length) (hsk : ∀ n ∈ sk, NodeIn env n) :
    GoodExpr env (rec (.expr ap sk f pos)) :=
  h (.expr ap sk f pos) ⟨hf, hpos, hsk⟩

/-- the result of a parser's own `parse()` -/
def RawGood (env : Env) (p : Parser) : Raw → Prop
  | .eos q => ResShape p .none ∧ q ≤ env.s.length
  | .ret r =>
    match r with
    | .ok res q => ResShape p res ∧ ResIn env res ∧ q ≤ env.s.length
    | .perr e => ErrOk env e ∧ (env.tol = true → ResShape p e.recNodes)
    | .fuel => True
    | _ => False

theorem RawGood.ofPc {env : Env} {p : Parser} {r : Ret} (h : GoodPc env p r) : RawGood env p (.ret r) := by
  cases r with
  | ok res q => exact h
  | perr e => exact ⟨h.2, fun ht => by rw [h.1] at ht; cases ht⟩
  | loopEnd e => exact h
  | crash k => exact h
  | fuel => trivial

theorem parseContent_good {env : Env} {p : Parser} {raw : Raw} (h : RawGood env p raw) :
    GoodPc env p (parseContent env.tol raw) := by
  cases raw with
  | eos q => exact ⟨h.1, trivial, h.2⟩
  | ret r =>
    cases r with
    | ok res q => exact h
    | perr e =>
      obtain ⟨he, hs⟩ := h
      unfold parseContent
      cases ht : env.tol with
      | false => exact ⟨ht, he⟩
      | true =>
        refine ⟨hs ht, he.recNodes, ?_⟩
        cases hra : e.recAt with
        | some t =>
          have := he.recAt t hra
          simp only [moveToToken, if_true]; omega
        | none =>
          cases hrp : e.recPast with
          | some t => have := he.recPast t hrp; simp only [movePastToken, if_true]; omega
          | none => exact he.rpos
    | loopEnd e => exact h
    | crash k => exact h
    | fuel => trivial

/-- non-`ok` results of a sub-parse propagate unchanged -/
theorem GoodPc.transfer {env : Env} {p q : Parser} {r : Ret} (h : GoodPc env q r)
    (hne : ∀ res pos, r ≠ .ok res pos) : GoodPc env p r := by
  cases r with
  | ok res pos => exact absurd rfl (hne res pos)
  | perr e => exact h
  | loopEnd e => exact h
  | crash k => exact h
  | fuel => trivial

theorem bindOk_good {env : Env} {p q : Parser} {r : Ret} (hr : GoodPc env q r) {k : Res → Nat → Raw}
    (hk : ∀ res pos, ResShape q res → ResIn env res → pos ≤ env.s.length → RawGood env p (k res pos)) :
    RawGood env p (bindOk r k) := by
  cases r with
  | ok res pos => exact hk res pos hr.1 hr.2.1 hr.2.2
  | perr e => exact ⟨hr.2, fun ht => by rw [hr.1] at ht; cases ht⟩
  | loopEnd e => exact hr
  | crash c => exact hr
  | fuel => trivial

/-! ### token errors and token positions -/

theorem peekTok_err_le {tol : Bool} {ps : PState} (hok : TablesOk ps) {s : Str} {pos : Nat} {w : TokErr} {ep : Nat}
    {t : Token} {r : Nat} (h : peekTok tol ps s pos = .err w ep t r) : ep ≤ s.length ∧ tol = false := by
  have hr := peekImpl_ok ps hok s pos
  unfold peekTok at h
  split at h
  · rename_i w' ep' t' r' heq
    rw [heq] at hr
    split at h
    · cases h
    · rename_i htol
      cases h
      obtain ⟨hs, _, h1, h2⟩ := hr
      have := hs.in_range
      exact ⟨by omega, by simpa using htol⟩
  · rename_i hne
    exact absurd h (hne w ep t r)

/-- where a token sits -/
structure TokLoc (env : Env) (t : Token) : Prop where
  pos_le : t.pos ≤ t.posEnd
  end_le : t.posEnd ≤ env.s.length

theorem TokLoc.ofSpan {env : Env} {p0 : Nat} {t : Token} (h : TokSpan env.s p0 t) : TokLoc env t :=
  ⟨Nat.le_of_lt h.nonempty, h.in_range⟩

theorem TokLoc.pos_len {env : Env} {t : Token} (h : TokLoc env t) : t.pos ≤ env.s.length :=
  Nat.le_trans h.pos_le h.end_le

end Pylx
