/-
  C06 — token-level facts used by the progress argument: what an end-of-stream answer means, and that a
  math-delimiter token starts at a non-space character (so re-reading at its start never hits the end).
-/
import PylxProofs.C11
namespace Pylx

/-- nothing but whitespace from `pos` on -/
def EosAt (s : Str) (pos : Nat) : Prop := s[pos + (spaceRun s pos).length]? = none

def isMathKind : TokKind → Bool
  | .mathInline => true | .mathDisplay => true | _ => false

def tokOf : PeekRes → Option Token
  | .tok t => some t
  | .err _ _ t _ => some t
  | .eos _ => none

/-- the token (or placeholder) is not a math delimiter -/
def NoMath (r : PeekRes) : Prop := ∀ t, tokOf r = some t → isMathKind t.kind = false

/-- a math delimiter token sits at `p` -/
def MathAt (p : Nat) (r : PeekRes) : Prop := ∀ t, tokOf r = some t → isMathKind t.kind = true → t.pos = p

theorem NoMath.mathAt {p : Nat} {r : PeekRes} (h : NoMath r) : MathAt p r := by
  intro t ht hk
  rw [h t ht] at hk
  cases hk

theorem charToken_nm (ps : PState) (c : Char) (p : Nat) (pre : Str) : NoMath (charToken ps c p pre) := by
  unfold charToken
  intro t ht
  split at ht <;> (simp only [tokOf, Option.some.injEq] at ht; subst ht; rfl)

theorem peekSpecialsOrChar_nm (ps : PState) (s : Str) (p : Nat) (c : Char) (pre : Str) :
    NoMath (peekSpecialsOrChar ps s p c pre) := by
  unfold peekSpecialsOrChar
  split
  · intro t ht
    simp only [tokOf, Option.some.injEq] at ht; subst ht; rfl
  · exact charToken_nm ps c p pre

theorem peekGroups_nm (ps : PState) (s : Str) (p : Nat) (c : Char) (pre : Str) :
    NoMath (peekGroups ps s p c pre) := by
  unfold peekGroups
  split
  · split
    · intro t ht
      simp only [tokOf, Option.some.injEq] at ht; subst ht; rfl
    · split
      · intro t ht
        simp only [tokOf, Option.some.injEq] at ht; subst ht; rfl
      · exact peekSpecialsOrChar_nm ps s p c pre
  · exact peekSpecialsOrChar_nm ps s p c pre

theorem readComment_nm (ps : PState) (s : Str) (p : Nat) (pre : Str) : NoMath (readComment ps s p pre) := by
  unfold readComment
  dsimp only
  split <;> (intro t ht; simp only [tokOf, Option.some.injEq] at ht; subst ht; rfl)

theorem peekComment_nm (ps : PState) (s : Str) (p : Nat) (c : Char) (pre : Str) :
    NoMath (peekComment ps s p c pre) := by
  unfold peekComment
  split
  · exact readComment_nm ps s p pre
  · exact peekGroups_nm ps s p c pre

theorem readMacro_nm (ps : PState) (s : Str) (p : Nat) (pre : Str) : NoMath (readMacro ps s p pre) := by
  unfold readMacro
  split
  · intro t ht; simp only [tokOf, Option.some.injEq] at ht; subst ht; rfl
  · split <;> (intro t ht; simp only [tokOf, Option.some.injEq] at ht; subst ht; rfl)

theorem readEnvironment_nm (ps : PState) (s : Str) (p : Nat) (b : Bool) (pre : Str) :
    NoMath (readEnvironment ps s p b pre) := by
  unfold readEnvironment
  split
  · intro t ht; simp only [tokOf, Option.some.injEq] at ht; subst ht; rfl
  · intro t ht; simp only [tokOf, Option.some.injEq] at ht; subst ht; cases b <;> rfl

theorem peekEscape_nm (ps : PState) (s : Str) (p : Nat) (c : Char) (pre : Str) :
    NoMath (peekEscape ps s p c pre) := by
  unfold peekEscape
  split
  · split
    · exact readEnvironment_nm ps s p _ pre
    · split
      · exact readMacro_nm ps s p pre
      · exact peekComment_nm ps s p c pre
  · exact peekComment_nm ps s p c pre

theorem readMathGeneral_pos (ps : PState) (s : Str) (p : Nat) (pre : Str) (t : Token)
    (h : readMathGeneral ps s p pre = some t) : t.pos = p := by
  unfold readMathGeneral at h
  cases hf : ps.t.mathAll.find? (fun d => startsWithAt s d.1 p) with
  | none => rw [hf] at h; cases h
  | some d =>
    rw [hf] at h
    simp only [Option.map_some, Option.some.injEq] at h
    subst h; rfl

theorem readMath_pos (ps : PState) (s : Str) (p : Nat) (pre : Str) (t : Token)
    (h : readMath ps s p pre = some t) : t.pos = p := by
  unfold readMath at h
  split at h
  · split at h
    · split at h
      · cases h; rfl
      · exact readMathGeneral_pos ps s p pre t h
    · exact readMathGeneral_pos ps s p pre t h
  · exact readMathGeneral_pos ps s p pre t h

theorem peekAtChar_mathAt (ps : PState) (s : Str) (p : Nat) (c : Char) (pre : Str) :
    MathAt p (peekAtChar ps s p c pre) := by
  unfold peekAtChar
  split
  · split
    · rename_i t ht
      intro t' ht' _
      simp only [tokOf, Option.some.injEq] at ht'; subst ht'
      exact readMath_pos ps s p pre t ht
    · exact (peekEscape_nm ps s p c pre).mathAt
  · exact (peekEscape_nm ps s p c pre).mathAt

theorem peekPar_nm (ps : PState) (s : Str) (pos : Nat) (pre : Str) : NoMath (peekPar ps s pos pre) := by
  unfold peekPar
  dsimp only
  split <;> (intro t ht; simp only [tokOf, Option.some.injEq] at ht; subst ht; rfl)

theorem takeWhile_stop {α} (p : α → Bool) : ∀ (l : List α) (c : α), l[(l.takeWhile p).length]? = some c → p c = false
  | [], c, h => by simp at h
  | a :: l, c, h => by
    rw [List.takeWhile_cons] at h
    by_cases ha : p a = true
    · rw [if_pos ha] at h
      simp only [List.length_cons, List.getElem?_cons_succ] at h
      exact takeWhile_stop p l c h
    · rw [if_neg ha] at h
      simp only [List.length_nil, List.getElem?_cons_zero, Option.some.injEq] at h
      subst h
      simpa using ha

theorem spaceRun_stop (s : Str) (p : Nat) (c : Char) (h : s[p + (spaceRun s p).length]? = some c) :
    isPySpace c = false := by
  unfold spaceRun at h
  rw [← List.getElem?_drop] at h
  exact takeWhile_stop _ _ _ h

theorem spaceRun_nil_of (s : Str) (q : Nat) (c : Char) (h : s[q]? = some c) (hc : isPySpace c = false) :
    spaceRun s q = [] := by
  unfold spaceRun
  have hlt := getElem?_lt _ _ _ h
  rw [List.drop_eq_getElem_cons hlt]
  rw [List.getElem?_eq_getElem hlt] at h
  simp only [Option.some.injEq] at h
  rw [h, List.takeWhile_cons, hc]
  simp

/-- a math-delimiter token found by a read at `p0` starts at the first non-space character after `p0` -/
theorem peekImpl_math_start (ps : PState) (s : Str) (p0 : Nat) (t : Token)
    (h : tokOf (peekImpl ps s p0) = some t) (hk : isMathKind t.kind = true) : ¬ EosAt s t.pos := by
  unfold peekImpl at h
  simp only at h
  split at h
  · have := peekPar_nm ps s p0 (spaceRun s p0) t h
    rw [this] at hk; cases hk
  · split at h
    · simp [tokOf] at h
    · rename_i c hc
      have hp := peekAtChar_mathAt ps s _ c _ t h hk
      have hns := spaceRun_stop s p0 c hc
      rw [← hp] at hc
      have hnil := spaceRun_nil_of s t.pos c hc hns
      unfold EosAt
      rw [hnil]
      simp only [List.length_nil, Nat.add_zero, hc]
      intro hh; cases hh

theorem tokOf_of_peekTok (tol : Bool) (ps : PState) (s : Str) (p : Nat) (t : Token)
    (h : peekTok tol ps s p = .tok t) : tokOf (peekImpl ps s p) = some t := by
  unfold peekTok at h
  split at h
  · rename_i heq
    split at h
    · cases h; rw [heq]; rfl
    · cases h
  · rw [h]; rfl

theorem peekTok_math_not_eos (tol : Bool) (ps : PState) (s : Str) (p : Nat) (t : Token)
    (h : peekTok tol ps s p = .tok t) (hk : isMathKind t.kind = true) : ¬ EosAt s t.pos :=
  peekImpl_math_start ps s p t (tokOf_of_peekTok tol ps s p t h) hk

/-- the read produced a token or a placeholder -/
def HasTok (r : PeekRes) : Prop := (tokOf r).isSome = true

theorem charToken_ht (ps : PState) (c : Char) (p : Nat) (pre : Str) : HasTok (charToken ps c p pre) := by
  unfold charToken; split <;> rfl

theorem peekSpecialsOrChar_ht (ps : PState) (s : Str) (p : Nat) (c : Char) (pre : Str) :
    HasTok (peekSpecialsOrChar ps s p c pre) := by
  unfold peekSpecialsOrChar; split
  · rfl
  · exact charToken_ht ps c p pre

theorem peekGroups_ht (ps : PState) (s : Str) (p : Nat) (c : Char) (pre : Str) :
    HasTok (peekGroups ps s p c pre) := by
  unfold peekGroups
  split
  · split
    · rfl
    · split
      · rfl
      · exact peekSpecialsOrChar_ht ps s p c pre
  · exact peekSpecialsOrChar_ht ps s p c pre

theorem peekComment_ht (ps : PState) (s : Str) (p : Nat) (c : Char) (pre : Str) :
    HasTok (peekComment ps s p c pre) := by
  unfold peekComment
  split
  · unfold readComment; dsimp only; split <;> rfl
  · exact peekGroups_ht ps s p c pre

theorem peekEscape_ht (ps : PState) (s : Str) (p : Nat) (c : Char) (pre : Str) :
    HasTok (peekEscape ps s p c pre) := by
  unfold peekEscape
  split
  · split
    · unfold readEnvironment; split <;> rfl
    · split
      · unfold readMacro; split
        · rfl
        · split <;> rfl
      · exact peekComment_ht ps s p c pre
  · exact peekComment_ht ps s p c pre

theorem peekAtChar_ht (ps : PState) (s : Str) (p : Nat) (c : Char) (pre : Str) :
    HasTok (peekAtChar ps s p c pre) := by
  unfold peekAtChar
  split
  · split
    · rfl
    · exact peekEscape_ht ps s p c pre
  · exact peekEscape_ht ps s p c pre

/-- end of stream is reported exactly when only whitespace is left; the final space is that whitespace -/
theorem peekTok_eos_spec (tol : Bool) (ps : PState) (s : Str) (p : Nat) (fs : Str)
    (h : peekTok tol ps s p = .eos fs) : fs = spaceRun s p ∧ EosAt s p := by
  have h2 : peekImpl ps s p = .eos fs := by
    unfold peekTok at h
    split at h
    · split at h <;> cases h
    · exact h
  unfold peekImpl at h2
  simp only at h2
  split at h2
  · unfold peekPar at h2
    dsimp only at h2
    split at h2 <;> cases h2
  · split at h2
    · rename_i hnone
      cases h2
      exact ⟨rfl, hnone⟩
    · rename_i c hc
      have := peekAtChar_ht ps s (p + (spaceRun s p).length) c (spaceRun s p)
      rw [h2] at this
      cases this

/-- token facts for a state built from fields with non-empty math delimiters -/
theorem span_of_fields (tol : Bool) (g : PSFields) (hg : DelimsOk g) (s : Str) (p : Nat) (t : Token)
    (h : peekTok tol (mkPS g) s p = .tok t) : TokSpan s p t :=
  span_of_peekTok tol (mkPS g) (tablesOk_of_fields g hg) s p t h

end Pylx
