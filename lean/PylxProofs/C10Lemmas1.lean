/-
  C10 — definitions: the relation "the tree is mode-consistent under the mode handed down by the parent".
-/
import PylxProofs.ParseSpec
namespace Pylx
namespace C10

/-- the mode of the contents of a math formula opened by `d` -/
def mathInfo (d : Str) : PSInfo := { inMath := true, mathDelim := some d }

section
variable (P : Str → Str → Bool → Prop) (ctx : Ctx)

mutual
/-- the node records `cur` and its children record what the node implies for them.
    `P dopen dclose display` is what is required of the delimiters of a math node. -/
def NodeM (cur : PSInfo) : Node → Prop
  | .chars _ _ ps _ => ps = cur
  | .comment _ _ ps _ _ => ps = cur
  | .group _ _ ps _ _ b => ps = cur ∧ BodyM cur b
  | .mac _ _ ps name _ a => ps = cur ∧ OptArgsM cur (ctx.macroSpec name) a
  | .env _ _ ps name a b =>
    ps = cur ∧ OptArgsM cur ((ctx.envSpec name).map (·.1)) a ∧
      BodyM (if (ctx.envSpec name).map (·.2) = some true then enterMathInfo else cur) b
  | .specials _ _ ps chars a => ps = cur ∧ OptArgsM cur (lookupFirst chars ctx.specials) a
  | .math _ _ ps disp o c b => ps = cur ∧ P o c disp ∧ BodyM (mathInfo o) b
def BodyM (cur : PSInfo) : Option (List Node) → Prop
  | none => True
  | some ns => ListM cur ns
def ListM (cur : PSInfo) : List Node → Prop
  | [] => True
  | n :: ns => NodeM cur n ∧ ListM cur ns
/-- arguments of a call whose specification is `spec`: with standard argument specifications, one slot per
    specification, slot `i` under `deltaInfo cur specs[i].delta` (or no slot at all: a bare token taken as a
    single-token argument); legacy verbatim arguments under `cur` -/
def OptArgsM (cur : PSInfo) (spec : Option ArgsP) : Option (List Arg) → Prop
  | none => True
  | some l =>
    match spec with
    | some (.std specs) => (l.length = specs.length ∧ ArgListM cur (specs.map (·.delta)) l) ∨ l = []
    | _ => ArgListM cur [] l
/-- slot `i` under `deltaInfo cur ds[i]` (`cur` where `ds` is exhausted) -/
def ArgListM (cur : PSInfo) : List Delta → List Arg → Prop
  | _, [] => True
  | ds, a :: l => ArgM (deltaInfo cur (ds.headD .none)) a ∧ ArgListM cur ds.tail l
def ArgM (cur : PSInfo) : Arg → Prop
  | .absent => True
  | .node n => NodeM cur n
  | .list _ _ ns => ListM cur ns
end


/-! ### basic facts about the relation -/

variable {P ctx}

theorem ListM_append (cur : PSInfo) (a b : List Node) :
    ListM P ctx cur (a ++ b) ↔ ListM P ctx cur a ∧ ListM P ctx cur b := by
  induction a with
  | nil => simp [ListM]
  | cons n ns ih => simp only [List.cons_append, ListM, ih, and_assoc]

theorem ListM_single (cur : PSInfo) (n : Node) : ListM P ctx cur [n] ↔ NodeM P ctx cur n := by
  simp [ListM]

theorem ListM_snoc (cur : PSInfo) (a : List Node) (n : Node) (ha : ListM P ctx cur a) (hn : NodeM P ctx cur n) :
    ListM P ctx cur (a ++ [n]) := (ListM_append cur a [n]).2 ⟨ha, (ListM_single cur n).2 hn⟩

theorem ListM_getLast (cur : PSInfo) (a : List Node) (n : Node) (ha : ListM P ctx cur a) (h : a.getLast? = some n) :
    NodeM P ctx cur n := by
  induction a with
  | nil => simp at h
  | cons x xs ih =>
    cases xs with
    | nil => simp at h; subst h; exact ha.1
    | cons y ys => rw [List.getLast?_cons_cons] at h; exact ih ha.2 h

end

end C10
end Pylx
