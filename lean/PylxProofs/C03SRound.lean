/-
  C03SRound — the exact round trip on the core fragment (step 1 of the string-level statement of C03): the strict
  parse of the source of a `Doc.Core` document is, up to positions and parsing states, exactly `exactOf ctx d` — the
  characters of every chars node (whitespace-only ones included), post-spaces, comments, delimiters, argument lists
  with their absent slots, and the source slices of math and environment nodes.

  The proof is the induction of `PylxProofs/C02.lean` (`items_reachX` / `args_reachX`: prefix lemmas over every collector
  state) restated with the exact relation (`XNode`, `erase`) instead of the shape projection, plus the invariant that
  the collector never produces two adjacent chars nodes (`Canon`).
-/
import PylxProofs.C03SX
namespace Pylx.L2T.C03S
open Pylx Pylx.Doc Pylx.C02

section constructs
variable {env : Pylx.Env} {keys : List Str}

/-- `ReachesX` with whitespace in hand: the collector stands in front of the whitespace `w` (not yet read) followed by
    text that spells the shapes `trA`; it gets to a state in front of some whitespace `w'` followed by `tail`, and what
    it has produced plus `w'` is what `w` plus `trA` stand for -/
def ReachesWX (env : Pylx.Env) (L : PSFields) (stop : StopTok) (child : ChildPS) (st : LoopSt) (w : Str) (trA : List XNode)
    (tail : Str) : Prop :=
  ∃ tr n w', ReachesX env L stop child st tr n ∧ env.s.drop (st.pos + n) = w' ++ tail ∧ isWs w' = true ∧ countNl w' < 2 ∧
    mergeX (tr ++ pendX w') = mergeX (pendX w ++ trA)

theorem ReachesWX.step {L : PSFields} {stop : StopTok} {child : ChildPS} {st : LoopSt} {tr1 : List XNode} {n1 : Nat}
    {w : Str} {x trB : List XNode} {tail : Str} (h1 : ReachesX env L stop child st tr1 n1)
    (hm : mergeX tr1 = mergeX (pendX w ++ x))
    (h2 : ∀ st1 : LoopSt, st1.pos = st.pos + n1 → ReachesWX env L stop child st1 [] trB tail) :
    ReachesWX env L stop child st w (x ++ trB) tail := by
  obtain ⟨st1, hp1, hs1, hc1, hk1⟩ := h1
  obtain ⟨tr2, n2, w', ⟨st2, hp2, hs2, hc2, hk2⟩, hd2, hw2, hn2, hm2⟩ := h2 st1 hp1
  refine ⟨tr1 ++ tr2, n1 + n2, w', ⟨st2, by omega, ?_, fun h => hc2 (hc1 h), fun R h => hk1 R (hk2 R h)⟩, ?_, hw2, hn2, ?_⟩
  · rw [hs2, ← List.append_assoc]
    exact mergeX_append_left hs1 tr2
  · rw [← hd2, hp1, Nat.add_assoc]
  · have e1 : mergeX (tr2 ++ pendX w') = mergeX trB := by rw [hm2]; rfl
    rw [List.append_assoc, mergeX_append_right tr1 e1, mergeX_append_left hm trB, List.append_assoc]

theorem ReachesWX.nil {L : PSFields} {stop : StopTok} {child : ChildPS} {st : LoopSt} {w tail : Str}
    (hd : env.s.drop st.pos = w ++ tail) (hw : isWs w = true) (hn : countNl w < 2) :
    ReachesWX env L stop child st w [] tail :=
  ⟨[], 0, w, ReachesX.refl env L stop child st, hd, hw, hn, by rw [List.nil_append, List.append_nil]⟩
section text
variable {m : Bool} {br : Xp} {md : Option Str} {stop : StopTok} {child : ChildPS}

/-- one text character behind whitespace -/
theorem reach_charX (htol : env.tol = false) (hn : NormOk m md) (hx : XpOk br) (hk : keysCore keys = true) {st : LoopSt} {w : Str} {c : Char}
    {rest : Str} (hd : env.s.drop st.pos = w ++ c :: rest) (hw : isWs w = true) (hnl : countNl w < 2) (hc : isTextChar c = true) :
    ReachesX env (stdF keys m md true br) stop child st (pendX w ++ pendX [c]) (w.length + 1) := by
  have hps := psStd_std keys m md true br hn
  have hpk : peekImpl (mkPS (stdF keys m md true br)) env.s st.pos = _ :=
    (peekImpl_ws hd hw hnl (textChar_ne hc).2.2.2.2.2).trans (C02.peekAtChar_text hps hx hk (drop_add_of_drop hd) hc)
  have := reachX_charTok (stop := stop) (child := child) htol hpk rfl (by show st.pos ≤ st.pos + w.length + 1; omega)
  have e : st.pos + w.length + 1 - st.pos = w.length + 1 := by omega
  simp only [e] at this
  exact this

/-- a run of text characters becomes pending characters -/
theorem reach_lettersX (htol : env.tol = false) (hn : NormOk m md) (hx : XpOk br) (hk : keysCore keys = true) :
    ∀ (t : Str) (st : LoopSt) (rest : Str), t.all isTextChar = true → env.s.drop st.pos = t ++ rest →
      ReachesX env (stdF keys m md true br) stop child st (pendX t) t.length
  | [], st, _, _, _ => ReachesX.refl env _ stop child st
  | c :: t, st, rest, hall, hd => by
    simp only [List.all_cons, Bool.and_eq_true] at hall
    have h1 := reach_charX (br := br) (stop := stop) (child := child) (w := []) htol hn hx hk (st := st) (by simpa using hd) rfl (by decide) hall.1
    have h2 := ReachesX.trans h1 (fun st1 hp => reach_lettersX htol hn hx hk t st1 rest hall.2 (by
      rw [hp]; exact drop_succ_of_drop (by simpa using hd)))
    have e : ([] : Str).length + 1 + t.length = (c :: t).length := by simp; omega
    rw [e] at h2
    refine ReachesX.congr ?_ h2
    cases t with
    | nil => rfl
    | cons d t => rfl

/-- a text item behind whitespace -/
theorem reach_textX (htol : env.tol = false) (hn : NormOk m md) (hx : XpOk br) (hk : keysCore keys = true) {st : LoopSt} {w t rest : Str}
    (hd : env.s.drop st.pos = w ++ (t ++ rest)) (hw : isWs w = true) (hnl : countNl w < 2) (hne : t ≠ [])
    (hall : t.all isTextChar = true) :
    ReachesX env (stdF keys m md true br) stop child st (pendX w ++ [.chars t]) (w.length + t.length) := by
  cases t with
  | nil => exact absurd rfl hne
  | cons c t =>
    simp only [List.all_cons, Bool.and_eq_true] at hall
    have h1 := reach_charX (br := br) (stop := stop) (child := child) htol hn hx hk (st := st) (by simpa using hd) hw hnl hall.1
    have h2 := ReachesX.trans h1 (fun st1 hp => reach_lettersX (br := br) htol hn hx hk t st1 rest hall.2 (by
      rw [hp, ← Nat.add_assoc]
      exact drop_succ_of_drop (drop_add_of_drop (by simpa using hd))))
    have e : w.length + 1 + t.length = w.length + (c :: t).length := by simp; omega
    rw [e] at h2
    refine ReachesX.congr ?_ h2
    rw [List.append_assoc]
    apply mergeX_append_right
    cases t with
    | nil => rfl
    | cons d t => rfl

end text
/-! ### one lemma per construct (the recursive parts are hypotheses) -/

section steps
variable {m : Bool} {md : Option Str}

/-- `{ body }` parsed by the group parser -/
theorem group_nodeX (htol : env.tol = false) (hn : NormOk m md) {q : Nat} {X Y : Str} {trb : List XNode}
    (hd : env.s.drop q = '{' :: X)
    (hbody : ReachesWX env (stdF keys m md true) (.braceClose ['}']) (.group ['{'] (stdF keys m md true) (stdF keys m md true))
      { pos := q + 1 } [] trb ('}' :: Y)) :
    ∃ p nd, q ≤ p ∧ env.s.drop p = Y ∧
      Ev env (.pc (.group (.auto ['{']) false false) (stdF keys m md true) q) (.ok (.node nd) p) ∧
      erase env.s nd = .group ['{'] ['}'] (some (mergeX trb)) := by
  obtain ⟨tr, n, w', hreach, hdrop, hw', hn', hm⟩ := hbody
  have hdrop' : env.s.drop (q + 1 + n) = w' ++ '}' :: Y := hdrop
  have hps := psStd_std keys m md true none hn
  have hpkc : peekImpl (mkPS (stdF keys m md true)) env.s (q + 1 + n) = _ :=
    (peekImpl_ws hdrop' hw' hn' (by decide)).trans (peekAtChar_close hps (drop_add_of_drop hdrop'))
  obtain ⟨a, b, ns, hgen, hsh⟩ := bodyX_runs htol hreach hpkc rfl rfl
  have hgrp := group_runs htol hn hd hgen
  refine ⟨_, _, ?_, drop_succ_of_drop (drop_add_of_drop hdrop'), hgrp, ?_⟩
  · show q ≤ q + 1 + n + w'.length + 1; omega
  · simp only [erase, eraseBody]
    rw [hsh]
    exact congrArg _ (congrArg _ hm)

/-- `o body c` parsed by the group parser of a bracket / delimited argument -/
theorem xgroup_nodeX (htol : env.tol = false) (hn : NormOk m md) {o c : Char} (hx : XpOk (some (o, c))) (opt ap : Bool) {q : Nat}
    {X Y : Str} {trb : List XNode} (hd : env.s.drop q = o :: X)
    (hbody : ReachesWX env (stdF keys m md true (some (o, c))) (.braceClose [c])
      (.group [o] (stdF keys m md true (some (o, c))) (stdF keys m md true)) { pos := q + 1 } [] trb (c :: Y)) :
    ∃ p nd, q ≤ p ∧ env.s.drop p = Y ∧
      Ev env (.pc (.group (.pair [o] [c]) opt ap) (stdF keys m md true) q) (.ok (.node nd) p) ∧
      erase env.s nd = .group [o] [c] (some (mergeX trb)) := by
  obtain ⟨tr, n, w', hreach, hdrop, hw', hn', hm⟩ := hbody
  have hdrop' : env.s.drop (q + 1 + n) = w' ++ c :: Y := hdrop
  have hps := psStd_std keys m md true (some (o, c)) hn
  have hpkc : peekImpl (mkPS (stdF keys m md true (some (o, c)))) env.s (q + 1 + n) = _ :=
    (peekImpl_ws hdrop' hw' hn' (xdelim_ne hx.2.1).2.2.2.2.2).trans (peekAtChar_xclose hps hx (drop_add_of_drop hdrop'))
  have hst : ∀ (a b : Nat), (StopTok.braceClose [c]).test { kind := TokKind.braceClose, arg := [c], pos := a, posEnd := b, pre := w' } = true := by
    intro a b
    simp [StopTok.test]
    rfl
  obtain ⟨a, b, ns, hgen, hsh⟩ := bodyX_runs htol hreach hpkc (hst _ _) rfl
  have hgrp := xgroup_runs htol hn hx opt ap hd hgen
  refine ⟨_, _, ?_, drop_succ_of_drop (drop_add_of_drop hdrop'), hgrp, ?_⟩
  · show q ≤ q + 1 + n + w'.length + 1; omega
  · simp only [erase, eraseBody]
    rw [hsh]
    exact congrArg _ (congrArg _ hm)

variable {br : Xp} {stop : StopTok} {child : ChildPS}

/-- a brace group in the collector -/
theorem step_groupX (htol : env.tol = false) (hn : NormOk m md)
    (hch : ∀ t : Token, (t.kind = .braceOpen → t.arg = ['{']) → child.get (stdF keys m md true br) t = stdF keys m md true)
    {st : LoopSt} {w X Y : Str} {trb : List XNode} (hd : env.s.drop st.pos = w ++ ('{' :: X)) (hw : isWs w = true)
    (hnl : countNl w < 2)
    (hbody : ReachesWX env (stdF keys m md true) (.braceClose ['}']) (.group ['{'] (stdF keys m md true) (stdF keys m md true))
      { pos := st.pos + w.length + 1 } [] trb ('}' :: Y)) :
    ∃ p, st.pos ≤ p ∧ env.s.drop p = Y ∧
      ReachesX env (stdF keys m md true br) stop child st (pendX w ++ [.group ['{'] ['}'] (some (mergeX trb))]) (p - st.pos) := by
  have hdq : env.s.drop (st.pos + w.length) = '{' :: X := drop_add_of_drop hd
  obtain ⟨p, nd, hqp, hdp, hgrp, hshape⟩ := group_nodeX htol hn hdq hbody
  have hps := psStd_std keys m md true br hn
  have hpk : peekImpl (mkPS (stdF keys m md true br)) env.s st.pos = _ :=
    (peekImpl_ws hd hw hnl (by decide)).trans (peekAtChar_open hps hdq)
  refine ⟨p, by omega, hdp, ?_⟩
  exact reachX_dispatch (stop := stop) (child := child) htol hpk (stop_test_char stop _ (Or.inr (Or.inl rfl))) rfl (by omega)
    (dispatch_group (K := stdF keys m md true) rfl (hch _ (fun _ => rfl)) hgrp) hshape rfl

/-- a comment with its newline and the whitespace behind it -/
theorem step_commentX (htol : env.tol = false) (hn : NormOk m md) {st : LoopSt} {w text post r : Str}
    (hd : env.s.drop st.pos = w ++ ('%' :: (text ++ '\n' :: (post ++ r)))) (hw : isWs w = true) (hnl : countNl w < 2)
    (htext : text.contains '\n' = false) (hws : isWs ('\n' :: post) = true) (hnl2 : countNl ('\n' :: post) < 2)
    (hr : headIs isPySpace r = false) :
    ∃ p, st.pos ≤ p ∧ env.s.drop p = r ∧
      ReachesX env (stdF keys m md true br) stop child st (pendX w ++ [.comment text ('\n' :: post)]) (p - st.pos) := by
  have hdq : env.s.drop (st.pos + w.length) = '%' :: (text ++ '\n' :: (post ++ r)) := drop_add_of_drop hd
  have hps := psStd_std keys m md true br hn
  have hpk : peekImpl (mkPS (stdF keys m md true br)) env.s st.pos = _ :=
    (peekImpl_ws hd hw hnl (by decide)).trans (peekAtChar_comment hps hdq htext hws hnl2 hr)
  refine ⟨st.pos + w.length + 1 + text.length + (1 + post.length), by omega, ?_, ?_⟩
  · have d1 := drop_succ_of_drop hdq
    have d2 := drop_add_of_drop d1
    have d3 := drop_succ_of_drop d2
    have d4 := drop_add_of_drop d3
    rw [← d4]; congr 1; omega
  · exact reachX_dispatch (stop := stop) (child := child) htol hpk
      (stop_test_char stop _ (Or.inr (Or.inr (Or.inr (Or.inl rfl))))) rfl
      (by show st.pos ≤ st.pos + w.length + 1 + text.length + (1 + post.length); omega) (dispatch_comment rfl) rfl rfl

/-- a comment in front of a paragraph break: the collector stops right behind the comment's text -/
theorem step_comment_parX (htol : env.tol = false) (hn : NormOk m md) {st : LoopSt} {w text R : Str}
    (hd : env.s.drop st.pos = w ++ ('%' :: (text ++ '\n' :: R))) (hw : isWs w = true) (hnl : countNl w < 2)
    (htext : text.contains '\n' = false) (hpar : parStart ('\n' :: R) = true) :
    env.s.drop (st.pos + (w.length + 1 + text.length)) = '\n' :: R ∧
      ReachesX env (stdF keys m md true br) stop child st (pendX w ++ [.comment text []]) (w.length + 1 + text.length) := by
  have hdq : env.s.drop (st.pos + w.length) = '%' :: (text ++ '\n' :: R) := drop_add_of_drop hd
  have hps := psStd_std keys m md true br hn
  have hpk : peekImpl (mkPS (stdF keys m md true br)) env.s st.pos = _ :=
    (peekImpl_ws hd hw hnl (by decide)).trans (peekAtChar_comment_par hps hdq htext hpar)
  refine ⟨?_, ?_⟩
  · have d1 := drop_succ_of_drop hdq
    have d2 := drop_add_of_drop d1
    rw [← d2]; congr 1; omega
  · have := reachX_dispatch (stop := stop) (child := child) htol hpk
      (stop_test_char stop _ (Or.inr (Or.inr (Or.inr (Or.inl rfl))))) rfl
      (by show st.pos ≤ st.pos + w.length + 1 + text.length; omega) (dispatch_comment rfl) rfl rfl
    have e : st.pos + w.length + 1 + text.length - st.pos = w.length + 1 + text.length := by omega
    rw [e] at this
    exact this

/-- the shape a paragraph break stands for -/
def parShapeX (ctx : Ctx) (x : Str) : XNode := if parSpec ctx then .specials ['\n', '\n'] (some []) else .chars x

/-- a paragraph break in the collector -/
theorem reach_parX (ctx : Ctx) (htol : env.tol = false) (hn : NormOk m md) (hctx : env.ctx = ctx) (hkeys : ctxKeys ctx = keys)
    (hpc : parCore ctx = true)
    (hch : ∀ t : Token, (t.kind = .braceOpen → t.arg = ['{']) → child.get (stdF keys m md true br) t = stdF keys m md true)
    {st : LoopSt} {x r : Str} (hd : env.s.drop st.pos = x ++ r) (hw : isWs x = true) (hnl : countNl x ≥ 2)
    (hh : x.head? = some '\n') (hl : x.getLast? = some '\n') (hr : headIs isPySpace r = false) :
    ReachesX env (stdF keys m md true br) stop child st [parShapeX ctx x] x.length := by
  have hps := psStd_std keys m md true br hn
  have hpk := peekImpl_par (ps := mkPS (stdF keys m md true br)) hd hw hnl hh hl hr hps.dn
  have hpsp : parSpecials (mkPS (stdF keys m md true br)) = parSpec ctx := by
    unfold parSpecials parSpec
    rw [hps.hc, hps.sp, ← hkeys]
    rfl
  rw [hpsp] at hpk
  unfold parShapeX
  cases hpsc : parSpec ctx with
  | true =>
    rw [hpsc] at hpk
    simp only [if_true] at hpk ⊢
    have hspec : lookupFirst ['\n', '\n'] env.ctx.specials = some (.std []) := by
      rw [hctx]
      unfold parCore at hpc
      rw [hpsc] at hpc
      simp only [Bool.not_true, Bool.false_or] at hpc
      cases hl : lookupFirst ['\n', '\n'] ctx.specials with
      | none => rw [hl] at hpc; cases hpc
      | some a =>
        rw [hl] at hpc
        cases a with
        | std sig =>
          simp only at hpc
          rw [List.isEmpty_iff.mp hpc]
        | legacyVerb => cases hpc
        | legacyVerbEnv _ _ => cases hpc
        | unknown => cases hpc
    have hcall := specialsCall_runs (t := ({ kind := TokKind.specials, arg := ['\n', '\n'], pos := st.pos, posEnd := st.pos + x.length, pre := [] } : Token))
      (arguments_runs (argsEv_nil (env := env) (stdF keys m md true) [] (st.pos + x.length)))
    have := reachX_dispatch (stop := stop) (child := child) htol hpk
      (stop_test_char stop _ (Or.inr (Or.inr (Or.inr (Or.inr (Or.inl rfl)))))) rfl
      (by show st.pos ≤ st.pos + x.length; omega)
      (dispatch_specials (K := stdF keys m md true) rfl hspec (hch _ (fun h => by cases h)) hcall) rfl rfl
    have e : st.pos + x.length - st.pos = x.length := by omega
    rw [e] at this
    exact this
  | false =>
    rw [hpsc] at hpk
    simp only [Bool.false_eq_true, if_false] at hpk ⊢
    have := reachX_charTok (stop := stop) (child := child) htol hpk rfl (by show st.pos ≤ st.pos + x.length; omega)
    have e : st.pos + x.length - st.pos = x.length := by omega
    simp only [e] at this
    refine ReachesX.congr ?_ this
    have hx : x.isEmpty = false := by
      cases x with
      | nil => cases hh
      | cons c x => rfl
    show mergeX (pendX [] ++ pendX x) = _
    rw [pendX_ne hx]
    rfl

/-- a macro call in the collector (the control-word token is a hypothesis) -/
theorem step_macroX (htol : env.tol = false)
    (hch : ∀ t : Token, (t.kind = .braceOpen → t.arg = ['{']) → child.get (stdF keys m md true br) t = stdF keys m md true)
    {st : LoopSt} {w post X : Str} {c0 : Char} {name' : Str} {al : List Arg} {pA : Nat}
    (hd : env.s.drop st.pos = w ++ ('\\' :: ((c0 :: name') ++ X))) (hw : isWs w = true) (hnl : countNl w < 2)
    (htok : peekAtChar (mkPS (stdF keys m md true br)) env.s (st.pos + w.length) '\\' w =
      .tok { kind := TokKind.macro, arg := (c0 :: name'), pos := st.pos + w.length,
             posEnd := st.pos + w.length + 1 + (c0 :: name').length + post.length, pre := w, post := post })
    {a : ArgsP} {x y : Option Nat} (hspec : env.ctx.macroSpec (c0 :: name') = some a)
    (hargs : Ev env (.pc (.arguments a) (stdF keys m md true) (st.pos + w.length + 1 + (c0 :: name').length + post.length))
      (.ok (.args x y al) pA))
    (hpA : st.pos ≤ pA) :
    ReachesX env (stdF keys m md true br) stop child st (pendX w ++ [.mac (c0 :: name') post (some (eraseArgList env.s al))]) (pA - st.pos) := by
  have hpk : peekImpl (mkPS (stdF keys m md true br)) env.s st.pos = _ :=
    (peekImpl_ws hd hw hnl (by decide)).trans htok
  have hcall := macroCall_runs (t := ({ kind := TokKind.macro, arg := (c0 :: name'), pos := st.pos + w.length, posEnd := st.pos + w.length + 1 + (c0 :: name').length + post.length, pre := [], post := post } : Token)) hargs
  exact reachX_dispatch (stop := stop) (child := child) htol hpk
    (stop_test_char stop _ (Or.inr (Or.inr (Or.inl rfl)))) rfl hpA
    (dispatch_macro (K := stdF keys m md true) rfl hspec (hch _ (fun h => by cases h)) hcall) rfl rfl

/-- an environment in the collector: `\begin{name}`, the arguments, the body up to `\end{name}` -/
theorem step_envX (htol : env.tol = false) (hn : NormOk m md)
    (hch : ∀ t : Token, (t.kind = .braceOpen → t.arg = ['{']) → child.get (stdF keys m md true br) t = stdF keys m md true)
    {st : LoopSt} {w name A B Y : Str} {sig : List ArgSpec} {bm : Bool} {al : List Arg} {pA : Nat} {trb : List XNode}
    (hd : env.s.drop st.pos = w ++ (beginStr name ++ A)) (hA : A = B ++ (endStr name ++ Y)) (hw : isWs w = true) (hnl : countNl w < 2)
    (hne : name ≠ []) (hall : name.all isEnvNameChar = true)
    (hspec : env.ctx.envSpec name = some (.std sig, bm))
    (hargs : ArgsEv env (stdF keys m md true) sig [] (st.pos + w.length + (beginStr name).length) (.ok (.args none none al) pA))
    (hpA : st.pos ≤ pA)
    (hbody : ReachesWX env (stdF keys (m || bm) (if bm then none else md) true) (.endEnv name) .same { pos := pA } [] trb
      (endStr name ++ Y)) :
    ∃ p, st.pos ≤ p ∧ env.s.drop p = Y ∧
      ReachesX env (stdF keys m md true br) stop child st
        (pendX w ++ [.env (beginStr name ++ (B ++ endStr name)) name (some (eraseArgList env.s al)) (some (mergeX trb))]) (p - st.pos) := by
  obtain ⟨tr, n, w', hreach, hdrop, hw', hn', hm⟩ := hbody
  have hdrop' : env.s.drop (pA + n) = w' ++ ('\\' :: (envWordStr false ++ '{' :: (name ++ '}' :: Y))) := by
    rw [← endStr_append]; exact hdrop
  have hnB := normOk_envBody (m := m) (md := md) hn bm
  have hpsB := psStd_std keys (m || bm) (if bm then none else md) true none hnB
  have hpkc : peekImpl (mkPS (stdF keys (m || bm) (if bm then none else md) true)) env.s (pA + n) =
      .tok { kind := TokKind.endEnv, arg := name, pos := pA + n + w'.length,
             posEnd := pA + n + w'.length + 1 + envWordLen false + 1 + name.length + 1, pre := w' } :=
    (peekImpl_ws hdrop' hw' hn' (by decide)).trans
      (peekAtChar_env hpsB (stdExpect_cases _ _) false (drop_add_of_drop hdrop') hne hall)
  have hst : ∀ (a b : Nat), (StopTok.endEnv name).test { kind := TokKind.endEnv, arg := name, pos := a, posEnd := b, pre := w' } = true := by
    intro a b
    simp [StopTok.test]
    rfl
  obtain ⟨a, b, ns, hgen, hsh⟩ := bodyX_runs htol hreach hpkc (hst _ _) rfl
  -- the call
  have hdq : env.s.drop (st.pos + w.length) = '\\' :: (envWordStr true ++ '{' :: (name ++ '}' :: A)) := by
    rw [← beginStr_append]; exact drop_add_of_drop hd
  have hps := psStd_std keys m md true br hn
  have hpk : peekImpl (mkPS (stdF keys m md true br)) env.s st.pos =
      .tok { kind := TokKind.beginEnv, arg := name, pos := st.pos + w.length,
             posEnd := st.pos + w.length + 1 + envWordLen true + 1 + name.length + 1, pre := w } :=
    (peekImpl_ws (c := '\\') (rest := envWordStr true ++ '{' :: (name ++ '}' :: A)) (by rw [hd, beginStr_append]) hw hnl (by decide)).trans
      (peekAtChar_env hps (stdExpect_cases m md) true hdq hne hall)
  have hposA : st.pos + w.length + 1 + envWordLen true + 1 + name.length + 1 = st.pos + w.length + (beginStr name).length := by
    rw [beginStr_length]; omega
  have hgen' : Ev env (.pc (.general (.endEnv name) true .same) (stdF keys (m || bm) (if bm then none else md) true) pA)
      (.ok (.list a b ns) (pA + n + w'.length + 1 + envWordLen false + 1 + name.length + 1)) := hgen
  have hbodyEv := envBody_runs hgen'
  rw [← envBodyF_eq (keys := keys) (m := m) (md := md) bm] at hbodyEv
  have hcall := envCall_runs (K := stdF keys m md true)
    (t := ({ kind := TokKind.beginEnv, arg := name, pos := st.pos + w.length,
             posEnd := st.pos + w.length + 1 + envWordLen true + 1 + name.length + 1, pre := [] } : Token))
    (a := .std sig) (bm := bm) (pos := st.pos + w.length + 1 + envWordLen true + 1 + name.length + 1)
    (by rw [hposA]; exact arguments_runs hargs) hbodyEv
  have hdY : env.s.drop (pA + n + w'.length + 1 + envWordLen false + 1 + name.length + 1) = Y := by
    have h1 := drop_add_of_drop hdrop'
    rw [← endStr_append] at h1
    have h2 := drop_add_of_drop h1
    rw [endStr_length] at h2
    rw [← h2]; congr 1; omega
  refine ⟨pA + n + w'.length + 1 + envWordLen false + 1 + name.length + 1, by omega, hdY, ?_⟩
  have hne2 : endStr name ++ Y ≠ [] := by rw [endStr_append]; exact List.cons_ne_nil _ _
  have hlen : st.pos + w.length + (beginStr name).length + B.length = pA + n + w'.length :=
    pos_of_drops (by rw [← hA]; exact drop_add_of_drop (drop_add_of_drop hd)) hdrop hne2
  have hsl : slice env.s (st.pos + w.length) (pA + n + w'.length + 1 + envWordLen false + 1 + name.length + 1) =
      beginStr name ++ (B ++ endStr name) := by
    have h0 : env.s.drop (st.pos + w.length) = (beginStr name ++ (B ++ endStr name)) ++ Y := by
      rw [drop_add_of_drop hd, hA]; simp only [List.append_assoc]
    have := slice_of_drop h0
    rw [← this]
    congr 1
    simp only [List.length_append, endStr_length]
    omega
  have e : erase env.s (Node.env (st.pos + w.length) (pA + n + w'.length + 1 + envWordLen false + 1 + name.length + 1)
      (psInfo (stdF keys m md true)) name (some al) (some ns))
      = .env (beginStr name ++ (B ++ endStr name)) name (some (eraseArgList env.s al)) (some (mergeX trb)) := by
    simp only [erase, eraseArgs, eraseBody]
    rw [hsh, hsl]
    exact congrArg _ (congrArg _ hm)
  exact reachX_dispatch (stop := stop) (child := child) htol hpk
    (stop_test_char stop _ (Or.inr (Or.inr (Or.inr (Or.inr (Or.inr rfl)))))) rfl (by omega)
    (dispatch_env (K := stdF keys m md true) (ab := (.std sig, bm)) rfl hspec (hch _ (fun h => by cases h)) hcall) e rfl

/-- a specials item in the collector -/
theorem step_specialsX (htol : env.tol = false) (hn : NormOk m md) (hx : XpOk br)
    (hch : ∀ t : Token, (t.kind = .braceOpen → t.arg = ['{']) → child.get (stdF keys m md true br) t = stdF keys m md true)
    {st : LoopSt} {w R : Str} {c : Char} {name' : Str}
    (hd : env.s.drop st.pos = w ++ ((c :: name') ++ R)) (hw : isWs w = true) (hnl : countNl w < 2)
    (hc : specialsHeadOk c = true) (hts : testSpecials keys ((c :: name') ++ R) 0 = some (c :: name'))
    (hspec : lookupFirst (c :: name') env.ctx.specials = some (.std [])) :
    ReachesX env (stdF keys m md true br) stop child st (pendX w ++ [.specials (c :: name') (some [])]) (w.length + (c :: name').length) := by
  have hdq : env.s.drop (st.pos + w.length) = (c :: name') ++ R := drop_add_of_drop hd
  have hps := psStd_std keys m md true br hn
  have hcs := specialsHead_ne hc
  have hpk : peekImpl (mkPS (stdF keys m md true br)) env.s st.pos = _ :=
    (peekImpl_ws (c := c) (rest := name' ++ R) (by rw [hd]; rfl) hw hnl hcs.1).trans (peekAtChar_specials hps hx hdq hc hts)
  have hcall := specialsCall_runs (t := ({ kind := TokKind.specials, arg := (c :: name'), pos := st.pos + w.length, posEnd := st.pos + w.length + (c :: name').length, pre := [] } : Token))
    (arguments_runs (argsEv_nil (env := env) (stdF keys m md true) [] (st.pos + w.length + (c :: name').length)))
  have := reachX_dispatch (stop := stop) (child := child) htol hpk
    (stop_test_char stop _ (Or.inr (Or.inr (Or.inr (Or.inr (Or.inl rfl)))))) rfl
    (by show st.pos ≤ st.pos + w.length + (c :: name').length; omega)
    (dispatch_specials (K := stdF keys m md true) rfl hspec (hch _ (fun h => by cases h)) hcall) rfl rfl
  have e : st.pos + w.length + (c :: name').length - st.pos = w.length + (c :: name').length := by omega
  rw [e] at this
  exact this

end steps

/-- math in the collector -/
theorem step_mathX (htol : env.tol = false) (k : FKind) {br : Xp} {stop : StopTok} {child : ChildPS}
    (hch : ∀ t : Token, (t.kind = .braceOpen → t.arg = ['{']) → child.get (stdF keys false none true br) t = stdF keys false none true)
    (hstop : ∀ t : Token, t.kind = .mathInline ∨ t.kind = .mathDisplay → stop.test t = false)
    {st : LoopSt} {w X B Y : Str} {trb : List XNode} (hd : env.s.drop st.pos = w ++ (k.opener ++ X))
    (hX : X = B ++ (k.closer ++ Y)) (hw : isWs w = true)
    (hnl : countNl w < 2) (hdollar : k = .dollar → headIs (· == '$') X = false)
    (hbody : ReachesWX env (stdF keys true (some k.opener) true) (.mathClose k.display k.closer) .same
      { pos := st.pos + w.length + k.opener.length } [] trb (k.closer ++ Y)) :
    ∃ p, st.pos ≤ p ∧ env.s.drop p = Y ∧
      ReachesX env (stdF keys false none true br) stop child st
        (pendX w ++ [.math (k.opener ++ (B ++ k.closer)) k.display k.opener k.closer (some (mergeX trb))]) (p - st.pos) := by
  have hdq : env.s.drop (st.pos + w.length) = k.opener ++ X := drop_add_of_drop hd
  obtain ⟨tr, n, w', hreach, hdrop, hw', hn', hm⟩ := hbody
  have hdrop' : env.s.drop (st.pos + w.length + k.opener.length + n) = w' ++ (k.closer ++ Y) := hdrop
  -- the closer
  obtain ⟨cc, rc, hcc⟩ : ∃ c r0, k.closer = c :: r0 := by cases k <;> exact ⟨_, _, rfl⟩
  have hccs : isPySpace cc = false := by cases k <;> (cases hcc; decide)
  have hpsM : PSStd keys true true (some (k.closer, k.display)) none (mkPS (stdF keys true (some k.opener) true)) := by
    have := psStd_std keys true (some k.opener) true none (normOk_true _)
    rw [stdExpect_opener] at this
    exact this
  have hpkc : peekImpl (mkPS (stdF keys true (some k.opener) true)) env.s (st.pos + w.length + k.opener.length + n) =
      .tok (mathTok (st.pos + w.length + k.opener.length + n + w'.length) w' k.closer k.display) :=
    (peekImpl_ws (c := cc) (rest := rc ++ Y) (by rw [hdrop', hcc]; rfl) hw' hn' hccs).trans
      (peekAtChar_mathClose k hpsM (drop_add_of_drop hdrop') (by rw [hcc]; rfl))
  have hst : (StopTok.mathClose k.display k.closer).test (mathTok (st.pos + w.length + k.opener.length + n + w'.length) w' k.closer k.display) = true := by
    cases k <;> rfl
  obtain ⟨a, b, ns, hgen, hsh⟩ := bodyX_runs htol hreach hpkc hst rfl
  have hmath := math_runs htol k hdq hdollar hgen
  -- the opener
  obtain ⟨co, ro, hco⟩ : ∃ c r0, k.opener = c :: r0 := by cases k <;> exact ⟨_, _, rfl⟩
  have hcos : isPySpace co = false := by cases k <;> (cases hco; decide)
  have hps := psStd_std keys false none true br (fun _ => rfl)
  have hpk : peekImpl (mkPS (stdF keys false none true br)) env.s st.pos = .tok (mathTok (st.pos + w.length) w k.opener k.display) :=
    (peekImpl_ws (c := co) (rest := ro ++ X) (by rw [hd, hco]; rfl) hw hnl hcos).trans
      (peekAtChar_mathOpen hps k hdq hdollar (by rw [hco]; rfl))
  have hkindm : (mathTok (st.pos + w.length) w k.opener k.display).kind = .mathInline ∨ (mathTok (st.pos + w.length) w k.opener k.display).kind = .mathDisplay := by
    cases k <;> first | exact Or.inl rfl | exact Or.inr rfl
  have hkc : ((mathTok (st.pos + w.length) w k.opener k.display).kind == TokKind.char) = false := by cases k <;> rfl
  have hopen : (mkPS (stdF keys false none true br)).t.mathByOpen.any (fun d => d.1 == k.opener) = true := by
    rw [hps.byOpen]; cases k <;> rfl
  have harg : k.opener ≠ ['['] := by cases k <;> decide
  have hposEnd : (mathTok (st.pos + w.length + k.opener.length + n + w'.length) w' k.closer k.display).posEnd
      = st.pos + w.length + k.opener.length + n + w'.length + k.closer.length := rfl
  rw [hposEnd] at hgen hmath
  refine ⟨st.pos + w.length + k.opener.length + n + w'.length + k.closer.length, by omega, ?_, ?_⟩
  · exact drop_add_of_drop (drop_add_of_drop hdrop')
  · have hne2 : k.closer ++ Y ≠ [] := by rw [hcc]; exact List.cons_ne_nil _ _
    have hlen : st.pos + w.length + k.opener.length + B.length = st.pos + w.length + k.opener.length + n + w'.length :=
      pos_of_drops (by rw [← hX]; exact drop_add_of_drop hdq) hdrop' hne2
    have hsl : slice env.s (st.pos + w.length) (st.pos + w.length + k.opener.length + n + w'.length + k.closer.length) =
        k.opener ++ (B ++ k.closer) := by
      have h0 : env.s.drop (st.pos + w.length) = (k.opener ++ (B ++ k.closer)) ++ Y := by
        rw [hdq, hX]; simp only [List.append_assoc]
      have := slice_of_drop h0
      rw [← this]
      congr 1
      simp only [List.length_append]
      omega
    have e : erase env.s (Node.math (st.pos + w.length) (st.pos + w.length + k.opener.length + n + w'.length + k.closer.length)
        (psInfo (stdF keys false none true)) k.display k.opener k.closer (some ns))
        = .math (k.opener ++ (B ++ k.closer)) k.display k.opener k.closer (some (mergeX trb)) := by
      simp only [erase, eraseBody]
      rw [hsh, hsl]
      exact congrArg _ (congrArg _ hm)
    exact reachX_dispatch (stop := stop) (child := child) htol hpk (hstop _ hkindm) hkc (by omega)
      (dispatch_math (K := stdF keys false none true) (tk := { mathTok (st.pos + w.length) w k.opener k.display with pre := [] })
        hkindm (hch _ (fun h => by cases k <;> cases h)) hopen hmath) e rfl

/-- a comment followed by something that is not whitespace, the rest being handled by `hrec` -/
theorem comment_thenX (ctx : Ctx) (htol : env.tol = false) {m : Bool} {md : Option Str} (hn : NormOk m md) {br : Xp}
    {stop : StopTok} {child : ChildPS} {X : List Item} {text ind after w : Str} {st : LoopSt}
    (hprev : exactRaw ctx (some ('\n' :: ind)) X = exactRaw ctx none X)
    (hpost : C03.commentPost ('\n' :: ind) X = '\n' :: ind)
    (hd : env.s.drop st.pos = w ++ (unparseItems (.C text ('\n' :: ind) :: X) ++ after)) (hw : isWs w = true)
    (hnl : countNl w < 2) (htext : text.contains '\n' = false) (hws : isWs ('\n' :: ind) = true)
    (hnl2 : countNl ('\n' :: ind) < 2) (hhead2 : headIs isPySpace (unparseItems X ++ after) = false)
    (hrec : ∀ (st : LoopSt) (w : Str), isWs w = true → countNl w < 2 →
      (w = [] ∨ headIs isPySpace (unparseItems X ++ after) = false) →
      env.s.drop st.pos = w ++ (unparseItems X ++ after) →
      ReachesWX env (stdF keys m md true br) stop child st w (exactRaw ctx none X) after) :
    ReachesWX env (stdF keys m md true br) stop child st w (exactRaw ctx none (.C text ('\n' :: ind) :: X)) after := by
  have hd' : env.s.drop st.pos = w ++ ('%' :: (text ++ '\n' :: (ind ++ (unparseItems X ++ after)))) := by
    rw [hd]; simp only [unparseItems, List.cons_append, List.append_assoc]
  obtain ⟨p, hp, hdp, hr⟩ := step_commentX (br := br) (stop := stop) (child := child) htol hn hd' hw hnl htext hws hnl2 hhead2
  have := ReachesWX.step hr rfl (fun st1 hp1 => hrec st1 [] rfl (by decide) (Or.inl rfl) (by
    have e : st.pos + (p - st.pos) = p := by omega
    rw [hp1, e]; exact hdp))
  simpa only [exactRaw, hprev, hpost, List.singleton_append] using this

/-! ### the prefix lemma, by recursion on the derivation -/

mutual
/-- **prefix lemma.**  With the collector in front of `w ++ unparse a ++ after` (`w` whitespace not yet read; any
    pending characters, any accumulated nodes, any stop condition), it produces the structure of `a` and stands in
    front of (whitespace and) `after`. -/
theorem items_reachX (ctx : Ctx) (htol : env.tol = false) (hk : keysCore keys = true) (hctx : env.ctx = ctx)
    (hkeys : ctxKeys ctx = keys) :
    ∀ (a : List Item) (m : Bool) (after : Str), coreItems ctx m after a = true → ∀ (md : Option Str), NormOk m md →
      ∀ (br : Xp) (stop : StopTok) (child : ChildPS), XpOk br →
      (∀ t : Token, (t.kind = .braceOpen → t.arg = ['{']) → child.get (stdF keys m md true br) t = stdF keys m md true) →
      (m = false → ∀ t : Token, t.kind = .mathInline ∨ t.kind = .mathDisplay → stop.test t = false) →
      ∀ (st : LoopSt) (w : Str), isWs w = true → countNl w < 2 →
        (w = [] ∨ headIs isPySpace (unparseItems a ++ after) = false) →
        env.s.drop st.pos = w ++ (unparseItems a ++ after) →
        ReachesWX env (stdF keys m md true br) stop child st w (exactRaw ctx none a) after
  | [], m, after, _, md, _, br, stop, child, _, _, _, st, w, hw, hnl, _, hd => by
    simp only [unparseItems, List.nil_append] at hd
    simpa only [exactRaw] using ReachesWX.nil hd hw hnl
  | .T t :: tl, m, after, hc, md, hn, br, stop, child, hx, hch, hsm, st, w, hw, hnl, _, hd => by
    simp only [coreItems, Bool.and_eq_true, Bool.not_eq_eq_eq_not, Bool.not_true] at hc
    obtain ⟨⟨hne, hall⟩, htl⟩ := hc
    simp only [unparseItems, List.append_assoc] at hd
    have h1 := reach_textX (br := br) (stop := stop) (child := child) htol hn hx hk hd hw hnl
      (by intro e; rw [e] at hne; simp at hne) hall
    have := ReachesWX.step h1 rfl (fun st1 hp => items_reachX ctx htol hk hctx hkeys tl m after htl md hn br stop child hx hch hsm
      st1 [] rfl (by decide) (Or.inl rfl) (by
        rw [hp, ← Nat.add_assoc]; exact drop_add_of_drop (drop_add_of_drop hd)))
    simpa only [exactRaw, List.singleton_append] using this
  | .W w2 :: tl, m, after, hc, md, hn, br, stop, child, hx, hch, hsm, st, w, hw, hnl, hpre, hd => by
    simp only [coreItems, Bool.and_eq_true, Bool.not_eq_eq_eq_not, Bool.not_true, decide_eq_true_eq] at hc
    obtain ⟨⟨⟨⟨hne, hws⟩, hnl2⟩, hhead⟩, htl⟩ := hc
    have hw0 : w = [] := by
      rcases hpre with h | h
      · exact h
      · exfalso
        cases w2 with
        | nil => simp at hne
        | cons c w2 =>
          simp only [isWs, List.all_cons, Bool.and_eq_true] at hws
          simp [unparseItems, headIs, hws.1] at h
    subst hw0
    simp only [unparseItems, List.append_assoc, List.nil_append] at hd
    obtain ⟨tr, n, w', h1, h2, h3, h4, h5⟩ := items_reachX ctx htol hk hctx hkeys tl m after htl md hn br stop child hx hch hsm
      st w2 hws hnl2 (Or.inr hhead) hd
    refine ⟨tr, n, w', h1, h2, h3, h4, ?_⟩
    rw [h5, pendX_ne hne]
    simp only [exactRaw, pendX, List.isEmpty_nil, if_true, List.nil_append, List.singleton_append]
  | .G b :: tl, m, after, hc, md, hn, br, stop, child, hx, hch, hsm, st, w, hw, hnl, _, hd => by
    simp only [coreItems, Bool.and_eq_true] at hc
    obtain ⟨hb, htl⟩ := hc
    simp only [unparseItems, List.cons_append, List.append_assoc] at hd
    have hd1 : env.s.drop (st.pos + w.length + 1) = [] ++ (unparseItems b ++ '}' :: (unparseItems tl ++ after)) :=
      drop_succ_of_drop (drop_add_of_drop hd)
    have hbody := items_reachX ctx htol hk hctx hkeys b m ('}' :: (unparseItems tl ++ after)) hb md hn none (.braceClose ['}'])
      (.group ['{'] (stdF keys m md true) (stdF keys m md true)) trivial (fun t _ => child_group _ _ t)
      (fun _ t ht => stop_brace_math _ t ht) { pos := st.pos + w.length + 1 } [] rfl (by decide) (Or.inl rfl) hd1
    obtain ⟨p, hp, hdp, hr⟩ := step_groupX (br := br) (stop := stop) (child := child) htol hn hch hd hw hnl hbody
    have := ReachesWX.step hr rfl (fun st1 hp1 => items_reachX ctx htol hk hctx hkeys tl m after htl md hn br stop child hx hch hsm
      st1 [] rfl (by decide) (Or.inl rfl) (by
        have e : st.pos + (p - st.pos) = p := by omega
        rw [hp1, e]; exact hdp))
    simpa only [exactRaw, List.singleton_append] using this
  | .C text tail :: tl, m, after, hc, md, hn, br, stop, child, hx, hch, hsm, st, w, hw, hnl, _, hd => by
    cases htlq : tl with
    | nil =>
      rw [htlq] at hc hd
      rw [coreItems] at hc
      rotate_left
      · intro _ _ h; cases h
      · intro _ _ h; cases h
      simp only [Bool.and_eq_true, Bool.not_eq_eq_eq_not, Bool.not_true, decide_eq_true_eq, beq_iff_eq] at hc
      obtain ⟨⟨⟨⟨⟨htext, hhead⟩, hws⟩, hnl2⟩, hhead2⟩, htl⟩ := hc
      cases tail with
      | nil => simp at hhead
      | cons c0 ind =>
        have hc0 : c0 = '\n' := by simpa using hhead
        subst hc0
        exact comment_thenX ctx htol hn (by simp only [exactRaw]) rfl hd hw hnl htext hws hnl2 hhead2
          (fun st1 w1 hw1 hnl1 _ hd1 => by
            simp only [unparseItems, List.nil_append] at hd1
            simpa only [exactRaw] using ReachesWX.nil hd1 hw1 hnl1)
    | cons it tl' =>
      rw [htlq] at hc hd
      have hrecA := fun htl => items_reachX ctx htol hk hctx hkeys (it :: tl') m after htl md hn br stop child hx hch hsm
      cases it with
      | W w2 =>
        simp only [coreItems, Bool.and_eq_true, Bool.not_eq_eq_eq_not, Bool.not_true, decide_eq_true_eq, beq_iff_eq] at hc
        obtain ⟨⟨⟨⟨⟨htext, hhead⟩, hws⟩, hnl2⟩, hw20⟩, ⟨⟨⟨_, hws2⟩, _⟩, hhead2⟩, htl⟩ := hc
        cases tail with
        | nil => simp at hhead
        | cons c0 ind =>
          have hc0 : c0 = '\n' := by simpa using hhead
          subst hc0
          simp only [unparseItems, List.cons_append, List.append_assoc] at hd
          have hd' : env.s.drop st.pos = w ++ ('%' :: (text ++ '\n' :: ((ind ++ w2) ++ (unparseItems tl' ++ after)))) := by
            rw [hd]; simp only [List.append_assoc]
          have hwsp : isWs ('\n' :: (ind ++ w2)) = true := by
            simp only [isWs, List.all_cons, List.all_append, Bool.and_eq_true] at hws hws2 ⊢
            exact ⟨hws.1, hws.2, hws2⟩
          have hnlp : countNl ('\n' :: (ind ++ w2)) < 2 := by
            have : countNl ('\n' :: (ind ++ w2)) = countNl ('\n' :: ind) + countNl w2 := by
              simp only [countNl, List.count_cons, List.count_append]; omega
            omega
          obtain ⟨p, hp, hdp, hr⟩ := step_commentX (br := br) (stop := stop) (child := child) htol hn hd' hw hnl htext hwsp hnlp hhead2
          have := ReachesWX.step hr rfl (fun st1 hp1 => items_reachX ctx htol hk hctx hkeys tl' m after htl md hn br stop child hx hch hsm
            st1 [] rfl (by decide) (Or.inl rfl) (by
              have e : st.pos + (p - st.pos) = p := by omega
              rw [hp1, e]; exact hdp))
          simpa only [exactRaw, C03.commentPost, List.cons_append, List.nil_append, List.singleton_append] using this
      | P w2 =>
        simp only [coreItems, Bool.and_eq_true, Bool.not_eq_eq_eq_not, Bool.not_true, decide_eq_true_eq, beq_iff_eq, and_true] at hc
        obtain ⟨⟨⟨⟨htext, hhead⟩, hws⟩, hnl2⟩, ⟨⟨⟨⟨⟨⟨hm, hws2⟩, hnl3⟩, hh2⟩, hl2⟩, hhead2⟩, hpc⟩, htl⟩ := hc
        cases tail with
        | nil => simp at hhead
        | cons c0 ind =>
          have hc0 : c0 = '\n' := by simpa using hhead
          subst hc0
          simp only [unparseItems, List.cons_append, List.append_assoc] at hd
          have hxw : isWs ('\n' :: (ind ++ w2)) = true := by
            simp only [isWs, List.all_cons, List.all_append, Bool.and_eq_true] at hws hws2 ⊢
            exact ⟨hws.1, hws.2, hws2⟩
          have hxn : countNl ('\n' :: (ind ++ w2)) ≥ 2 := by
            have : countNl ('\n' :: (ind ++ w2)) = countNl ('\n' :: ind) + countNl w2 := by
              simp only [countNl, List.count_cons, List.count_append]; omega
            omega
          have hxl : ('\n' :: (ind ++ w2)).getLast? = some '\n' := by
            have : ('\n' :: (ind ++ w2)) = ('\n' :: ind) ++ w2 := rfl
            rw [this, List.getLast?_append, hl2]
            rfl
          have hpar : parStart ('\n' :: (ind ++ (w2 ++ (unparseItems tl' ++ after)))) = true := by
            have := parStart_of (x := '\n' :: (ind ++ w2)) (r := unparseItems tl' ++ after) hxw hxn rfl hhead2
            simpa only [List.cons_append, List.append_assoc] using this
          obtain ⟨hdp, hr1⟩ := step_comment_parX (br := br) (stop := stop) (child := child) htol hn hd hw hnl htext hpar
          have hr2 := ReachesX.trans hr1 (fun st1 hp1 => reach_parX (br := br) (stop := stop) (child := child) (st := st1)
            (x := '\n' :: (ind ++ w2)) (r := unparseItems tl' ++ after) ctx htol hn hctx hkeys hpc hch
            (by rw [hp1, hdp]; simp only [List.cons_append, List.append_assoc]) hxw hxn rfl hxl hhead2)
          have := ReachesWX.step hr2 (by rw [List.append_assoc]) (fun st1 hp1 => items_reachX ctx htol hk hctx hkeys tl' m after htl md hn br stop child hx hch hsm
            st1 [] rfl (by decide) (Or.inl rfl) (by
              have := drop_add_of_drop (a := '\n' :: (ind ++ w2)) (rest := unparseItems tl' ++ after)
                (by rw [hdp]; simp only [List.cons_append, List.append_assoc] : env.s.drop (st.pos + (w.length + 1 + text.length)) = _)
              rw [hp1, List.nil_append, ← this]
              congr 1
              omega))
          simpa only [exactRaw, C03.commentPost, parShapeX, Option.getD_some, List.cons_append, List.nil_append, List.singleton_append] using this
      | _ =>
        first
        | (simp [coreItems] at hc; done)
        | (rw [coreItems] at hc
           rotate_left
           · intro _ _ h; cases h
           · intro _ _ h; cases h
           simp only [Bool.and_eq_true, Bool.not_eq_eq_eq_not, Bool.not_true, decide_eq_true_eq, beq_iff_eq] at hc
           obtain ⟨⟨⟨⟨⟨htext, hhead⟩, hws⟩, hnl2⟩, hhead2⟩, htl⟩ := hc
           cases tail with
           | nil => simp at hhead
           | cons c0 ind =>
             have hc0 : c0 = '\n' := by simpa using hhead
             subst hc0
             exact comment_thenX ctx htol hn (by simp only [exactRaw]) rfl hd hw hnl htext hws hnl2 hhead2 (hrecA htl))
  | .M name post args :: tl, m, after, hc, md, hn, br, stop, child, hx, hch, hsm, st, w, hw, hnl, _, hd => by
    simp only [coreItems, Bool.and_eq_true] at hc
    obtain ⟨⟨hhdr, hargs⟩, htl⟩ := hc
    cases hms : ctx.macroSpec name with
    | none => rw [hms] at hargs; cases hargs
    | some a =>
      cases a with
      | std sig =>
        rw [hms] at hargs
        simp only at hargs
        -- the token of the call and the position behind it
        have htokA : ∃ (c0 : Char) (name' : Str), name = c0 :: name' ∧
            peekAtChar (mkPS (stdF keys m md true br)) env.s (st.pos + w.length) '\\' w =
              .tok { kind := TokKind.macro, arg := (c0 :: name'), pos := st.pos + w.length,
                     posEnd := st.pos + w.length + 1 + (c0 :: name').length + post.length, pre := w, post := post } := by
          have hps := psStd_std keys m md true br hn
          have hdq : env.s.drop (st.pos + w.length) = '\\' :: (name ++ (post ++ (unparseArgs args ++ (unparseItems tl ++ after)))) := by
            have : env.s.drop st.pos = w ++ ('\\' :: (name ++ (post ++ (unparseArgs args ++ (unparseItems tl ++ after))))) := by
              rw [hd]; simp only [unparseItems, List.cons_append, List.append_assoc]
            exact drop_add_of_drop this
          cases hcw : isControlWord name with
          | true =>
            rw [hcw] at hhdr
            simp only [if_true, Bool.and_eq_true, Bool.not_eq_eq_eq_not, Bool.not_true, decide_eq_true_eq,
              bne_iff_ne, ne_eq, Bool.or_eq_true] at hhdr
            obtain ⟨⟨⟨⟨⟨hnb, hnend⟩, hwsp⟩, hnlp⟩, hnext⟩, hhead⟩ := hhdr
            simp only [isControlWord, Bool.and_eq_true, Bool.not_eq_eq_eq_not, Bool.not_true] at hcw
            obtain ⟨hne, hall⟩ := hcw
            cases name with
            | nil => simp at hne
            | cons c0 name' =>
              refine ⟨c0, name', rfl, ?_⟩
              rcases hhead with hh | ⟨hpe, hpar⟩
              · exact peekAtChar_macro hps (stdExpect_cases m md) hdq hall hnext hwsp hnlp hh hnb hnend
              · have hp0 : post = [] := List.isEmpty_iff.mp hpe
                subst hp0
                exact peekAtChar_macro_par hps (stdExpect_cases m md) hdq hall hpar hnb hnend
          | false =>
            rw [hcw] at hhdr
            simp only [Bool.false_eq_true, if_false, Bool.and_eq_true] at hhdr
            obtain ⟨hpe, hsym⟩ := hhdr
            have hp0 : post = [] := List.isEmpty_iff.mp hpe
            subst hp0
            cases name with
            | nil => cases hsym
            | cons c0 name' =>
              cases name' with
              | cons _ _ => cases hsym
              | nil =>
                simp only [isControlSymbol, Bool.and_eq_true, Bool.not_eq_eq_eq_not, Bool.not_true, bne_iff_ne, ne_eq] at hsym
                obtain ⟨⟨⟨⟨⟨ha, _⟩, n1⟩, n2⟩, n3⟩, n4⟩ := hsym
                refine ⟨c0, [], rfl, ?_⟩
                exact peekAtChar_macro1 hps (stdExpect_cases m md) hdq ha n1 n2 n3 n4
        obtain ⟨c0, name', hname, htok⟩ := htokA
        subst hname
        simp only [unparseItems, List.cons_append, List.append_assoc] at hd
        have hd' : env.s.drop st.pos = w ++ ('\\' :: ((c0 :: name') ++ (post ++ (unparseArgs args ++ (unparseItems tl ++ after))))) := by
          rw [hd]; rfl
        have hdA : env.s.drop (st.pos + w.length + 1 + (c0 :: name').length + post.length) = unparseArgs args ++ (unparseItems tl ++ after) :=
          drop_add_of_drop (drop_add_of_drop (drop_succ_of_drop (drop_add_of_drop hd')))
        obtain ⟨al, pA, hAE, hpA, hdpA, hshape⟩ := args_reachX ctx htol hk hctx hkeys sig args m (unparseItems tl ++ after) hargs md hn []
          (st.pos + w.length + 1 + (c0 :: name').length + post.length) hdA
        rw [List.nil_append] at hAE
        have hr := step_macroX (br := br) (stop := stop) (child := child) htol hch hd' hw hnl htok
          (by rw [hctx]; exact hms) (arguments_runs hAE) (by omega)
        rw [hshape] at hr
        have := ReachesWX.step hr rfl (fun st1 hp1 => items_reachX ctx htol hk hctx hkeys tl m after htl md hn br stop child hx hch hsm
          st1 [] rfl (by decide) (Or.inl rfl) (by
            have e : st.pos + (pA - st.pos) = pA := by omega
            rw [hp1, e]; exact hdpA))
        simpa only [exactRaw, List.singleton_append] using this
      | legacyVerb => rw [hms] at hargs; cases hargs
      | legacyVerbEnv _ _ => rw [hms] at hargs; cases hargs
      | unknown => rw [hms] at hargs; cases hargs
  | .F k b :: tl, m, after, hc, md, hn, br, stop, child, hx, hch, hsm, st, w, hw, hnl, _, hd => by
    simp only [coreItems, Bool.and_eq_true, Bool.not_eq_eq_eq_not, Bool.not_true, Bool.or_eq_true, bne_iff_ne, ne_eq] at hc
    obtain ⟨⟨⟨hm, hb⟩, hdol⟩, htl⟩ := hc
    subst hm
    have hmd : md = none := hn rfl
    subst hmd
    simp only [unparseItems, List.append_assoc] at hd
    have hd1 : env.s.drop (st.pos + w.length + k.opener.length) = [] ++ (unparseItems b ++ (k.closer ++ (unparseItems tl ++ after))) :=
      drop_add_of_drop (drop_add_of_drop hd)
    have hbody := items_reachX ctx htol hk hctx hkeys b true (k.closer ++ (unparseItems tl ++ after)) hb (some k.opener) (normOk_true _)
      none (.mathClose k.display k.closer) .same trivial (fun t _ => rfl) (fun h => by cases h)
      { pos := st.pos + w.length + k.opener.length } [] rfl (by decide) (Or.inl rfl) hd1
    have hdollar : k = .dollar → headIs (· == '$') (unparseItems b ++ (k.closer ++ (unparseItems tl ++ after))) = false := by
      intro hk2
      rcases hdol with h | h
      · subst hk2; cases h
      · exact core_head_not_dollar ctx _ b hb _ h
    obtain ⟨p, hp, hdp, hr⟩ := step_mathX (br := br) (stop := stop) (child := child) htol k hch (hsm rfl) hd rfl hw hnl hdollar hbody
    have := ReachesWX.step hr rfl (fun st1 hp1 => items_reachX ctx htol hk hctx hkeys tl false after htl none hn br stop child hx hch hsm
      st1 [] rfl (by decide) (Or.inl rfl) (by
        have e : st.pos + (p - st.pos) = p := by omega
        rw [hp1, e]; exact hdp))
    simpa only [exactRaw, List.singleton_append] using this
  | .P w2 :: tl, m, after, hc, md, hn, br, stop, child, hx, hch, hsm, st, w, hw, hnl, hpre, hd => by
    simp only [coreItems, Bool.and_eq_true, Bool.not_eq_eq_eq_not, Bool.not_true, decide_eq_true_eq, beq_iff_eq] at hc
    obtain ⟨⟨⟨⟨⟨⟨⟨hm, hws⟩, hnl2⟩, hh⟩, hl⟩, hhead⟩, hpc⟩, htl⟩ := hc
    have hw0 : w = [] := by
      rcases hpre with h | h
      · exact h
      · exfalso
        cases w2 with
        | nil => cases hh
        | cons c w2 =>
          have hc : c = '\n' := by simpa using hh
          subst hc
          have h' : headIs isPySpace ('\n' :: (w2 ++ (unparseItems tl ++ after))) = false := by
            simpa only [unparseItems, List.cons_append, List.append_assoc] using h
          revert h'
          show (isPySpace '\n' = false) → False
          decide
    subst hw0
    simp only [unparseItems, List.append_assoc, List.nil_append] at hd
    have h1 := reach_parX (br := br) (stop := stop) (child := child) ctx htol hn hctx hkeys hpc hch hd hws hnl2 hh hl hhead
    have := ReachesWX.step (w := []) h1 rfl (fun st1 hp => items_reachX ctx htol hk hctx hkeys tl m after htl md hn br stop child hx hch hsm
      st1 [] rfl (by decide) (Or.inl rfl) (by rw [hp]; exact drop_add_of_drop hd))
    simpa only [exactRaw, parShapeX, Option.getD_none, List.nil_append, List.singleton_append] using this
  | .E name args body :: tl, m, after, hc, md, hn, br, stop, child, hx, hch, hsm, st, w, hw, hnl, _, hd => by
    simp only [coreItems, Bool.and_eq_true, Bool.not_eq_eq_eq_not, Bool.not_true] at hc
    obtain ⟨⟨⟨hne, hall⟩, hspec⟩, htl⟩ := hc
    have hne' : name ≠ [] := by intro e; rw [e] at hne; cases hne
    cases hes : ctx.envSpec name with
    | none => rw [hes] at hspec; cases hspec
    | some ab =>
      obtain ⟨a, bm⟩ := ab
      cases a with
      | std sig =>
        rw [hes] at hspec
        simp only [Bool.and_eq_true] at hspec
        obtain ⟨hargs, hbody⟩ := hspec
        simp only [unparseItems, List.append_assoc] at hd
        have hdA : env.s.drop (st.pos + w.length + (beginStr name).length) =
            unparseArgs args ++ (unparseItems body ++ (endStr name ++ (unparseItems tl ++ after))) :=
          drop_add_of_drop (drop_add_of_drop hd)
        obtain ⟨al, pA, hAE, hpA, hdpA, hshape⟩ := args_reachX ctx htol hk hctx hkeys sig args m _ hargs md hn []
          (st.pos + w.length + (beginStr name).length) hdA
        rw [List.nil_append] at hAE
        have hbodyR := items_reachX ctx htol hk hctx hkeys body (m || bm) (endStr name ++ (unparseItems tl ++ after)) hbody
          (if bm then none else md) (normOk_envBody hn bm) none (.endEnv name) .same trivial (fun t _ => rfl)
          (fun _ t ht => stop_endEnv_math _ t ht) { pos := pA } [] rfl (by decide) (Or.inl rfl) (by simpa using hdpA)
        obtain ⟨p, hp, hdp, hr⟩ := step_envX (br := br) (stop := stop) (child := child)
          (B := unparseArgs args ++ unparseItems body) htol hn hch hd (by simp only [List.append_assoc]) hw hnl hne' hall
          (by rw [hctx]; exact hes) hAE (by omega) hbodyR
        rw [hshape, List.append_assoc] at hr
        have := ReachesWX.step hr rfl (fun st1 hp1 => items_reachX ctx htol hk hctx hkeys tl m after htl md hn br stop child hx hch hsm
          st1 [] rfl (by decide) (Or.inl rfl) (by
            have e : st.pos + (p - st.pos) = p := by omega
            rw [hp1, e]; exact hdp))
        simpa only [exactRaw, List.singleton_append] using this
      | legacyVerb => rw [hes] at hspec; cases hspec
      | legacyVerbEnv _ _ => rw [hes] at hspec; cases hspec
      | unknown => rw [hes] at hspec; cases hspec
  | .S name args :: tl, m, after, hc, md, hn, br, stop, child, hx, hch, hsm, st, w, hw, hnl, _, hd => by
    simp only [coreItems, Bool.and_eq_true, beq_iff_eq] at hc
    obtain ⟨⟨⟨⟨hargs, hhead⟩, hts⟩, hspec⟩, htl⟩ := hc
    have hargs' : args = [] := List.isEmpty_iff.mp hargs
    subst hargs'
    cases name with
    | nil => simp [headIs] at hhead
    | cons c name' =>
      have hc : specialsHeadOk c = true := by simpa [headIs] using hhead
      have hspec' : lookupFirst (c :: name') env.ctx.specials = some (.std []) := by
        rw [hctx]
        cases hl : lookupFirst (c :: name') ctx.specials with
        | none => rw [hl] at hspec; cases hspec
        | some a =>
          rw [hl] at hspec
          cases a with
          | std sig =>
            simp only at hspec
            rw [List.isEmpty_iff.mp hspec]
          | legacyVerb => cases hspec
          | legacyVerbEnv _ _ => cases hspec
          | unknown => cases hspec
      have hd' : env.s.drop st.pos = w ++ ((c :: name') ++ (unparseItems tl ++ after)) := by
        rw [hd]; simp only [unparseItems, unparseArgs, List.nil_append, List.append_assoc]
      rw [hkeys] at hts
      have hr := step_specialsX (br := br) (stop := stop) (child := child) htol hn hx hch hd' hw hnl hc hts hspec'
      have := ReachesWX.step hr rfl (fun st1 hp => items_reachX ctx htol hk hctx hkeys tl m after htl md hn br stop child hx hch hsm
        st1 [] rfl (by decide) (Or.inl rfl) (by
          rw [hp, ← Nat.add_assoc]; exact drop_add_of_drop (drop_add_of_drop hd')))
      simpa only [exactRaw, exactArgs, List.singleton_append] using this
  | .V d text :: tl, m, after, hc, md, hn, br, stop, child, hx, hch, hsm, st, w, hw, hnl, _, hd => by
    simp only [coreItems, Bool.and_eq_true, Bool.not_eq_eq_eq_not, Bool.not_true] at hc
    obtain ⟨⟨⟨⟨hspec, hda⟩, hds⟩, hnc⟩, htl⟩ := hc
    have hms : env.ctx.macroSpec "verb".toList = some .legacyVerb := by
      rw [hctx]
      cases hh : ctx.macroSpec "verb".toList with
      | none => rw [hh] at hspec; cases hspec
      | some a =>
        rw [hh] at hspec
        cases a <;> first | rfl | cases hspec
    have hd' : env.s.drop st.pos = w ++ ('\\' :: (('v' :: "erb".toList) ++ ([] ++ (d :: (text ++ d :: (unparseItems tl ++ after)))))) := by
      rw [hd]; simp only [unparseItems, List.append_assoc, List.cons_append]; rfl
    have hdq : env.s.drop (st.pos + w.length) = '\\' :: (('v' :: "erb".toList) ++ ([] ++ (d :: (text ++ d :: (unparseItems tl ++ after))))) :=
      drop_add_of_drop hd'
    have hps := psStd_std keys m md true br hn
    have htok := peekAtChar_macro (pre := w) hps (stdExpect_cases m md) hdq (by decide) (by simp [headIs, hda]) rfl (by decide)
      (by simp [headIs, hds]) (by decide) (by decide)
    have hdA : env.s.drop (st.pos + w.length + 1 + ('v' :: "erb".toList).length + ([] : Str).length) = d :: (text ++ d :: (unparseItems tl ++ after)) :=
      drop_add_of_drop (drop_add_of_drop (drop_succ_of_drop hdq))
    have hargs := legacyVerb_runs (env := env) (stdF keys m md true) hdA hds hnc
    have hr := step_macroX (br := br) (stop := stop) (child := child) htol hch hd' hw hnl htok hms hargs (by omega)
    have := ReachesWX.step hr rfl (fun st1 hp1 => items_reachX ctx htol hk hctx hkeys tl m after htl md hn br stop child hx hch hsm
      st1 [] rfl (by decide) (Or.inl rfl) (by
        have h1 := drop_succ_of_drop hdA
        have h2 := drop_succ_of_drop (drop_add_of_drop h1)
        rw [hp1, List.nil_append, ← h2]
        congr 1
        omega))
    have e : ('v' :: "erb".toList) = "verb".toList := rfl
    rw [e] at this
    simpa only [exactRaw, List.singleton_append, eraseArgList, eraseArg, erase] using this
  | .VE _ _ _ _ :: _, _, _, hc, _, _, _, _, _, _, _, _, _, _, _, _, _, _ => by simp [coreItems] at hc
termination_by a => sizeOf a
decreasing_by
  all_goals first
    | decreasing_tactic
    | (subst_vars; decreasing_tactic)
/-- the arguments of a call, slot by slot -/
theorem args_reachX (ctx : Ctx) (htol : env.tol = false) (hk : keysCore keys = true) (hctx : env.ctx = ctx)
    (hkeys : ctxKeys ctx = keys) :
    ∀ (sig : List ArgSpec) (args : List ArgVal) (m : Bool) (rest : Str), coreArgs ctx m rest sig args = true →
      ∀ (md : Option Str), NormOk m md → ∀ (acc : List Arg) (pos : Nat), env.s.drop pos = unparseArgs args ++ rest →
      ∃ al pA, ArgsEv env (stdF keys m md true) sig acc pos (.ok (.args none none (acc ++ al)) pA) ∧ pos ≤ pA ∧
        env.s.drop pA = rest ∧ eraseArgList env.s al = exactArgs ctx args
  | [], [], m, rest, _, md, _, acc, pos, hd => by
    refine ⟨[], pos, ?_, Nat.le_refl _, by simpa [unparseArgs] using hd, by simp only [eraseArgList, exactArgs]⟩
    rw [List.append_nil]
    exact argsEv_nil _ _ _
  | sp :: sig, .absent :: tl, m, rest, hc, md, hn, acc, pos, hd => by
    simp only [coreArgs, Bool.and_eq_true] at hc
    obtain ⟨⟨⟨hkind, habs⟩, hfol⟩, hrest⟩ := hc
    simp only [unparseArgs] at hd
    obtain ⟨md', hK', hn'⟩ := applyDelta_std (keys := keys) m md sp.delta
    have hpk := peek_follow_noerr (psStd_std keys m md true none hn) hd hfol
    obtain ⟨al, pA, hAE, hpA, hdpA, hshape⟩ := args_reachX ctx htol hk hctx hkeys sig tl m rest hrest md hn (acc ++ [Arg.absent]) pos hd
    refine ⟨.absent :: al, pA, ?_, hpA, hdpA, by simp only [eraseArgList, eraseArg, exactArgs, hshape]⟩
    have e : acc ++ Arg.absent :: al = acc ++ [Arg.absent] ++ al := by simp
    rw [e]
    cases hkk : sp.kind with
    | o ap =>
      rw [hkk] at habs
      refine argsEv_cons (res := .none) htol hpk ?_ hAE
      rw [hkk, hK']
      refine xgroup_absent_runs htol (hn' hn) (o := '[') (c := ']') (by decide) ap hd hfol ?_
      cases ap <;> simpa [absentOk, slotOpener] using habs
    | s =>
      rw [hkk] at habs
      refine argsEv_cons (res := .none) htol hpk ?_ hAE
      rw [hkk, hK']
      exact marker_absent_runs htol (hn' hn) '*' false hd hfol (by simpa [absentOk, slotOpener] using habs)
    | t c =>
      rw [hkk] at habs
      refine argsEv_cons (res := .none) htol hpk ?_ hAE
      rw [hkk, hK']
      exact marker_absent_runs htol (hn' hn) c true hd hfol (by simpa [absentOk, slotOpener] using habs)
    | d o c =>
      rw [hkk] at habs hkind
      refine argsEv_cons (res := .none) htol hpk ?_ hAE
      rw [hkk, hK']
      exact xgroup_absent_runs htol (hn' hn) (o := o) (c := c) hkind true hd hfol (by simpa [absentOk, slotOpener] using habs)
    | m => rw [hkk] at hkind; cases hkind
    | m0 => rw [hkk] at hkind; cases hkind
    | r _ _ => rw [hkk] at hkind; cases hkind
    | v => rw [hkk] at hkind; cases hkind
    | vd _ _ => rw [hkk] at hkind; cases hkind
  | sp :: sig, .star :: tl, m, rest, hc, md, hn, acc, pos, hd => by
    simp only [coreArgs, Bool.and_eq_true] at hc
    obtain ⟨hkind, hrest⟩ := hc
    have hkk := argKind_s_of_beq _ hkind
    simp only [unparseArgs, List.cons_append] at hd
    obtain ⟨md', hK', hn'⟩ := applyDelta_std (keys := keys) m md sp.delta
    have hpk := peek_follow_noerr (psStd_std keys m md true none hn) hd (followOk_of_head (by decide) (by decide))
    obtain ⟨al, pA, hAE, hpA, hdpA, hshape⟩ := args_reachX ctx htol hk hctx hkeys sig tl m rest hrest md hn
      (acc ++ [Arg.node (Node.chars pos (pos + 1) (psInfo (stdF keys (deltaMath m sp.delta) md' true)) ['*'])]) (pos + 1)
      (drop_succ_of_drop hd)
    refine ⟨Arg.node (Node.chars pos (pos + 1) (psInfo (stdF keys (deltaMath m sp.delta) md' true)) ['*']) :: al, pA, ?_, by omega, hdpA,
      by simp only [eraseArgList, eraseArg, erase, exactArgs, hshape]⟩
    have e : ∀ x : Arg, acc ++ x :: al = acc ++ [x] ++ al := by intro x; simp
    rw [e]
    refine argsEv_cons (res := .node _) htol hpk ?_ hAE
    rw [hkk, hK']
    exact marker_star_runs htol (hn' hn) hk hd
  | sp :: sig, .br b :: tl, m, rest, hc, md, hn, acc, pos, hd => by
    simp only [coreArgs, Bool.and_eq_true] at hc
    obtain ⟨⟨hkind, hb⟩, hrest⟩ := hc
    simp only [unparseArgs, List.cons_append, List.append_assoc] at hd
    obtain ⟨md', hK', hn'⟩ := applyDelta_std (keys := keys) m md sp.delta
    have hpk := peek_follow_noerr (psStd_std keys m md true none hn) hd (followOk_of_head (by decide) (by decide))
    cases hkk : sp.kind with
    | o ap =>
      have hd1 : env.s.drop (pos + 1) = [] ++ (unparseItems b ++ ']' :: (unparseArgs tl ++ rest)) := drop_succ_of_drop hd
      have hbody := items_reachX ctx htol hk hctx hkeys b (deltaMath m sp.delta) (']' :: (unparseArgs tl ++ rest)) hb md' (hn' hn) xbr
        (.braceClose [']']) (.group ['['] (stdF keys (deltaMath m sp.delta) md' true xbr) (stdF keys (deltaMath m sp.delta) md' true))
        xpOk_br (fun t ht => child_br '[' _ _ t (by decide) ht) (fun _ t ht => stop_brace_math _ t ht) { pos := pos + 1 } [] rfl (by decide) (Or.inl rfl) hd1
      obtain ⟨p, nd, hqp, hdp, hgrp, hsh⟩ := xgroup_nodeX htol (hn' hn) xpOk_br true ap hd hbody
      obtain ⟨al, pA, hAE, hpA, hdpA, hshape⟩ := args_reachX ctx htol hk hctx hkeys sig tl m rest hrest md hn (acc ++ [Arg.node nd]) p hdp
      refine ⟨Arg.node nd :: al, pA, ?_, by omega, hdpA, by simp only [eraseArgList, eraseArg, exactArgs, hshape, hsh]⟩
      have e : acc ++ Arg.node nd :: al = acc ++ [Arg.node nd] ++ al := by simp
      rw [e]
      refine argsEv_cons (res := .node nd) htol hpk ?_ hAE
      rw [hkk, hK']
      exact hgrp
    | s => rw [hkk] at hkind; cases hkind
    | m => rw [hkk] at hkind; cases hkind
    | m0 => rw [hkk] at hkind; cases hkind
    | t _ => rw [hkk] at hkind; cases hkind
    | r _ _ => rw [hkk] at hkind; cases hkind
    | d _ _ => rw [hkk] at hkind; cases hkind
    | v => rw [hkk] at hkind; cases hkind
    | vd _ _ => rw [hkk] at hkind; cases hkind
  | sp :: sig, .grp b :: tl, m, rest, hc, md, hn, acc, pos, hd => by
    simp only [coreArgs, Bool.and_eq_true] at hc
    obtain ⟨⟨hkind, hb⟩, hrest⟩ := hc
    have hkk := argKind_m_of_beq _ hkind
    simp only [unparseArgs, List.cons_append, List.append_assoc] at hd
    obtain ⟨md', hK', hn'⟩ := applyDelta_std (keys := keys) m md sp.delta
    have hpk := peek_follow_noerr (psStd_std keys m md true none hn) hd (followOk_of_head (by decide) (by decide))
    have hd1 : env.s.drop (pos + 1) = [] ++ (unparseItems b ++ '}' :: (unparseArgs tl ++ rest)) := drop_succ_of_drop hd
    have hbody := items_reachX ctx htol hk hctx hkeys b (deltaMath m sp.delta) ('}' :: (unparseArgs tl ++ rest)) hb md' (hn' hn) none
      (.braceClose ['}']) (.group ['{'] (stdF keys (deltaMath m sp.delta) md' true) (stdF keys (deltaMath m sp.delta) md' true))
      trivial (fun t _ => child_group _ _ t) (fun _ t ht => stop_brace_math _ t ht) { pos := pos + 1 } [] rfl (by decide) (Or.inl rfl) hd1
    obtain ⟨p, nd, hqp, hdp, hgrp, hsh⟩ := group_nodeX htol (hn' hn) hd hbody
    obtain ⟨al, pA, hAE, hpA, hdpA, hshape⟩ := args_reachX ctx htol hk hctx hkeys sig tl m rest hrest md hn (acc ++ [Arg.node nd]) p hdp
    refine ⟨Arg.node nd :: al, pA, ?_, by omega, hdpA, by simp only [eraseArgList, eraseArg, exactArgs, hshape, hsh]⟩
    have e : acc ++ Arg.node nd :: al = acc ++ [Arg.node nd] ++ al := by simp
    rw [e]
    refine argsEv_cons (res := .node nd) htol hpk ?_ hAE
    rw [hkk, hK']
    exact expr_runs htol (hn' hn) hd hgrp
  | [], _ :: _, _, _, hc, _, _, _, _, _ => by simp [coreArgs] at hc
  | _ :: _, [], _, _, hc, _, _, _, _, _ => by simp [coreArgs] at hc
  | sp :: sig, .marker c :: tl, m, rest, hc, md, hn, acc, pos, hd => by
    simp only [coreArgs, Bool.and_eq_true] at hc
    obtain ⟨⟨hkind, hmk⟩, hrest⟩ := hc
    have hkk : sp.kind = .t c := argKind_t_of_beq _ _ hkind
    simp only [unparseArgs, List.cons_append] at hd
    rw [hkeys] at hmk
    obtain ⟨md', hK', hn'⟩ := applyDelta_std (keys := keys) m md sp.delta
    have hmk' := hmk
    unfold markerOk at hmk'
    simp only [Bool.and_eq_true, Bool.not_eq_eq_eq_not, Bool.not_true, bne_iff_ne, ne_eq] at hmk'
    have hpk := peek_follow_noerr (psStd_std keys m md true none hn) hd (followOk_of_head hmk'.1.1.1.1.1.1 hmk'.1.1.1.1.1.2)
    obtain ⟨al, pA, hAE, hpA, hdpA, hshape⟩ := args_reachX ctx htol hk hctx hkeys sig tl m rest hrest md hn
      (acc ++ [Arg.list (some pos) (some (pos + 1)) [Node.chars pos (pos + 1) (psInfo (stdF keys (deltaMath m sp.delta) md' true)) [c]]]) (pos + 1)
      (drop_succ_of_drop hd)
    refine ⟨Arg.list (some pos) (some (pos + 1)) [Node.chars pos (pos + 1) (psInfo (stdF keys (deltaMath m sp.delta) md' true)) [c]] :: al, pA, ?_, by omega, hdpA,
      by simp only [eraseArgList, eraseArg, eraseNodes, erase, exactArgs, hshape]⟩
    have e : ∀ x : Arg, acc ++ x :: al = acc ++ [x] ++ al := by intro x; simp
    rw [e]
    refine argsEv_cons (res := .list (some pos) (some (pos + 1)) [Node.chars pos (pos + 1) (psInfo (stdF keys (deltaMath m sp.delta) md' true)) [c]]) htol hpk ?_ hAE
    rw [hkk, hK']
    exact marker_runs htol (hn' hn) true hd hmk
  | sp :: sig, .tok c :: tl, m, rest, hc, md, hn, acc, pos, hd => by
    simp only [coreArgs, Bool.and_eq_true] at hc
    obtain ⟨⟨hkind, hc1⟩, hrest⟩ := hc
    have hkk := argKind_m_of_beq _ hkind
    simp only [unparseArgs, List.cons_append] at hd
    obtain ⟨md', hK', hn'⟩ := applyDelta_std (keys := keys) m md sp.delta
    have hcne := textChar_ne hc1
    have hpk := peek_follow_noerr (psStd_std keys m md true none hn) hd (followOk_of_head hcne.2.2.2.2.2 hcne.2.1)
    obtain ⟨al, pA, hAE, hpA, hdpA, hshape⟩ := args_reachX ctx htol hk hctx hkeys sig tl m rest hrest md hn
      (acc ++ [Arg.node (Node.chars pos (pos + 1) (psInfo (stdF keys (deltaMath m sp.delta) md' true)) [c])]) (pos + 1)
      (drop_succ_of_drop hd)
    refine ⟨Arg.node (Node.chars pos (pos + 1) (psInfo (stdF keys (deltaMath m sp.delta) md' true)) [c]) :: al, pA, ?_, by omega, hdpA,
      by simp only [eraseArgList, eraseArg, erase, exactArgs, hshape]⟩
    have e : ∀ x : Arg, acc ++ x :: al = acc ++ [x] ++ al := by intro x; simp
    rw [e]
    refine argsEv_cons (res := .node _) htol hpk ?_ hAE
    rw [hkk, hK']
    exact expr_tok_runs htol (hn' hn) hk hd hc1
  | sp :: sig, .del o c b :: tl, m, rest, hc, md, hn, acc, pos, hd => by
    simp only [coreArgs, Bool.and_eq_true, Bool.or_eq_true, bne_iff_ne, ne_eq] at hc
    obtain ⟨⟨⟨⟨⟨hkind, hxo⟩, hxc⟩, hoc⟩, hb⟩, hrest⟩ := hc
    have hx : XpOk (some (o, c)) := ⟨hxo, hxc, hoc⟩
    have hone := xdelim_ne hxo
    simp only [unparseArgs, List.cons_append, List.append_assoc] at hd
    obtain ⟨md', hK', hn'⟩ := applyDelta_std (keys := keys) m md sp.delta
    have hpk := peek_follow_noerr (psStd_std keys m md true none hn) hd (followOk_of_head hone.2.2.2.2.2 hone.2.1)
    have hd1 : env.s.drop (pos + 1) = [] ++ (unparseItems b ++ c :: (unparseArgs tl ++ rest)) := drop_succ_of_drop hd
    have hbody := items_reachX ctx htol hk hctx hkeys b (deltaMath m sp.delta) (c :: (unparseArgs tl ++ rest)) hb md' (hn' hn) (some (o, c))
      (.braceClose [c]) (.group [o] (stdF keys (deltaMath m sp.delta) md' true (some (o, c))) (stdF keys (deltaMath m sp.delta) md' true))
      hx (fun t ht => child_br o _ _ t hone.2.2.2.1 ht) (fun _ t ht => stop_brace_math _ t ht) { pos := pos + 1 } [] rfl (by decide) (Or.inl rfl) hd1
    have hopt : ∃ opt, argParser sp.kind = .group (.pair [o] [c]) opt true := by
      rcases hkind with h | h
      · refine ⟨false, ?_⟩
        have : sp.kind = .r o c := argKind_r_of_beq _ _ _ h
        rw [this]; rfl
      · refine ⟨true, ?_⟩
        have : sp.kind = .d o c := argKind_d_of_beq _ _ _ h
        rw [this]; rfl
    obtain ⟨opt, hopt⟩ := hopt
    obtain ⟨p, nd, hqp, hdp, hgrp, hsh⟩ := xgroup_nodeX htol (hn' hn) hx opt true hd hbody
    obtain ⟨al, pA, hAE, hpA, hdpA, hshape⟩ := args_reachX ctx htol hk hctx hkeys sig tl m rest hrest md hn (acc ++ [Arg.node nd]) p hdp
    refine ⟨Arg.node nd :: al, pA, ?_, by omega, hdpA, by simp only [eraseArgList, eraseArg, exactArgs, hshape, hsh]⟩
    have e : acc ++ Arg.node nd :: al = acc ++ [Arg.node nd] ++ al := by simp
    rw [e]
    refine argsEv_cons (res := .node nd) htol hpk ?_ hAE
    rw [hopt, hK']
    exact hgrp
  | _ :: _, .verb _ _ _ :: _, _, _, hc, _, _, _, _, _ => by simp [coreArgs] at hc
termination_by _ args => sizeOf args
end

end constructs

/-! ### the exact round trip -/

/-- the top-level task on a core document, for every sufficiently large amount of fuel, ends at the end of the input
    with a node list that is exactly (up to positions and parsing states) the tree the document was written with -/
theorem core_evX (ctx : Ctx) (d : List Item) (h : Core ctx d = true) :
    ∃ a b ns, Ev { tol := false, ctx := ctx, s := unparse d } (topTask (Doc.startFields ctx)) (.ok (.list a b ns) (unparse d).length) ∧
      eraseNodes (unparse d) ns = exactOf ctx d := by
  unfold Core at h
  rw [Bool.and_eq_true] at h
  obtain ⟨hk, hc⟩ := h
  obtain ⟨tr, n, w', ⟨st', hp, hs, hcan, hkk⟩, hdrop, hw', hn', hm⟩ :=
    items_reachX (env := { tol := false, ctx := ctx, s := unparse d }) ctx rfl hk rfl rfl d false [] hc none (fun _ => rfl)
      none .none .same trivial (fun t _ => rfl) (fun _ t _ => rfl) { pos := 0 } [] rfl (by decide) (Or.inl rfl)
      (by simp [unparse])
  have hd' : (unparse d).drop st'.pos = w' := by
    rw [hp]; simpa using hdrop
  obtain ⟨e, he, hsh, hce, herr, hst, hpos⟩ := loopX_eos_ws (child := .same)
    (env := { tol := false, ctx := ctx, s := unparse d }) rfl (stdF (ctxKeys ctx) false none true) (st := st') hd' hw' hn'
  have htop := general_of_loop_top (env := { tol := false, ctx := ctx, s := unparse d }) rfl (hkk _ he) herr hst
  have hend : e.pos = (unparse d).length := by
    obtain ⟨N, hN⟩ := htop
    exact (C01_strict_of_delims ctx (unparse d) (Doc.startFields ctx) (delimsOk_start ctx) N _ _ _ _ (hN N (Nat.le_refl _))).2.1
  rw [hend] at htop
  refine ⟨_, _, e.nodes, htop, ?_⟩
  have hcan' := hce (hcan (canon_start _ 0))
  show eraseNodes (unparse d) e.nodes = exactOf ctx d
  rw [← hcan', hsh]
  unfold exactOf
  have e1 : mergeX (shX (unparse d) st') = mergeX tr := by rw [hs]; rfl
  rw [mergeX_append_left e1, hm]
  rfl

/-- **C03, step 1 (exact round trip), every amount of fuel that is large enough**: strict parsing of the source of a
    `Doc.Core` document gives exactly the tree the document was written with — all chars nodes with their characters
    (whitespace-only ones included), macro post-spaces, comments with their post-spaces, delimiters, argument lists
    with their absent slots, source slices of formulas and environments; only positions and parsing states are
    forgotten. -/
theorem C02x_core_exact (ctx : Ctx) (d : List Item) (h : Core ctx d = true) :
    ∃ a b ns, parseStrict ctx (unparse d) = .ok (.list a b ns) (unparse d).length ∧
      eraseNodes (unparse d) ns = exactOf ctx d := by
  obtain ⟨a, b, ns, ⟨N, hN⟩, hsh⟩ := core_evX ctx d h
  refine ⟨a, b, ns, ?_, hsh⟩
  show run { tol := false, ctx := ctx, s := unparse d } (fuelFor (unparse d)) (topTask (Doc.startFields ctx)) = _
  by_cases hle : N ≤ fuelFor (unparse d)
  · exact hN _ hle
  · have hnf := C06_no_fuel { tol := false, ctx := ctx, s := unparse d } (Doc.startFields ctx) (delimsOk_start ctx)
    have := run_mono { tol := false, ctx := ctx, s := unparse d } (fuelFor (unparse d)) N (topTask (Doc.startFields ctx)) hnf (by omega)
    rw [← this]
    exact hN N (Nat.le_refl _)

/-- **C03, steps 1 + 2 (`C03_exact_roundtrip`)**: the tolerant parse `latex_to_text` runs (`parseTop` with
    `tol := true` from the walker's start state) of the source of a core document returns a node list — no error, no
    recovery — whose exact tree is `exactOf ctx d` (`C06_agree_top`: tolerant = strict when strict succeeds). -/
theorem C03_exact_roundtrip (ctx : Ctx) (d : List Item) (h : Core ctx d = true) :
    ∃ a b ns, parseTop { tol := true, ctx := ctx, s := unparse d } (L2T.startFields ctx) = .ok (.list a b ns) (unparse d).length ∧
      eraseNodes (unparse d) ns = exactOf ctx d := by
  obtain ⟨a, b, ns, hp, hx⟩ := C02x_core_exact ctx d h
  exact ⟨a, b, ns, C06_agree_top ctx (unparse d) (Doc.startFields ctx) _ _ hp, hx⟩

/-! ### non-vacuity: the exact trees of the example documents of `C02` and `C03` -/

mutual
def showX : XNode → String
  | .chars c => "(c " ++ showStr c ++ ")"
  | .comment c p => "(% " ++ showStr c ++ " " ++ showStr p ++ ")"
  | .group o c b => "(g " ++ showStr o ++ " " ++ showStr c ++ " " ++ showXBody b ++ ")"
  | .mac n p a => "(m " ++ showStr n ++ " " ++ showStr p ++ " " ++ showXArgs a ++ ")"
  | .env v n a b => "(e " ++ showStr v ++ " " ++ showStr n ++ " " ++ showXArgs a ++ " " ++ showXBody b ++ ")"
  | .specials c a => "(s " ++ showStr c ++ " " ++ showXArgs a ++ ")"
  | .math v d o c b => "(f " ++ showStr v ++ " " ++ (if d then "D" else "I") ++ " " ++ showStr o ++ " " ++ showStr c ++ " " ++ showXBody b ++ ")"
def showXBody : Option (List XNode) → String
  | none => "None"
  | some l => "[" ++ showXList l ++ "]"
def showXList : List XNode → String
  | [] => ""
  | [x] => showX x
  | x :: l => showX x ++ " " ++ showXList l
def showXArgs : Option (List XArg) → String
  | none => "None"
  | some l => "<" ++ showXArgList l ++ ">"
def showXArgList : List XArg → String
  | [] => ""
  | [a] => showXArg a
  | a :: l => showXArg a ++ " " ++ showXArgList l
def showXArg : XArg → String
  | .absent => "-"
  | .node s => showX s
  | .list l => "(L [" ++ showXList l ++ "])"
end

/-- the conclusion for the whitespace example of C02 (`a {b c }⏎%x⏎␣␣d`): whitespace-only nodes and the comment's
    post-space are there -/
example : ∃ a b ns, parseTop { tol := true, ctx := Gen.defaultCtx, s := unparse exDocW } (L2T.startFields Gen.defaultCtx) =
      .ok (.list a b ns) (unparse exDocW).length ∧ eraseNodes (unparse exDocW) ns = exactOf Gen.defaultCtx exDocW :=
  C03_exact_roundtrip _ _ exDocW_core

example : showXList (exactOf Gen.defaultCtx exDocW) =
    "(c \"a%20;\") (g \"{\" \"}\" [(c \"b%20;c%20;\")]) (c \"%a;\") (% \"x\" \"%a;%20;%20;\") (c \"d\")" := by
  decide +kernel

/-- macro post-space, absent slots, display math with its source slice -/
example : showXList (exactOf Gen.defaultCtx [.M "item".toList [' '] [.absent], .T ['z'], .W [' '], .F .brack [.W [' '], .T ['u']]]) =
    "(m \"item\" \"%20;\" <->) (c \"z%20;\") (f \"\\[%20;u\\]\" D \"\\[\" \"\\]\" [(c \"%20;u\")])" := by
  decide +kernel

theorem exDocA_core : Core Gen.defaultCtx C03.exDocA = true := by decide +kernel
theorem exDocB_core : Core Gen.defaultCtx C03.exDocB = true := by decide +kernel

example : ∃ a b ns, parseTop { tol := true, ctx := Gen.defaultCtx, s := unparse C03.exDocA } (L2T.startFields Gen.defaultCtx) =
      .ok (.list a b ns) (unparse C03.exDocA).length ∧ eraseNodes (unparse C03.exDocA) ns = exactOf Gen.defaultCtx C03.exDocA :=
  C03_exact_roundtrip _ _ exDocA_core

#print axioms C02x_core_exact
#print axioms C03_exact_roundtrip

end Pylx.L2T.C03S
