/-
  C06 — the progress argument: a task started at `pos` never runs out of fuel when given
  `4 * (len s - pos) + d` units, `d ≤ 5` depending on the kind of task.
-/
import PylxProofs.C06Adv
namespace Pylx

/-- constant part of the fuel bound, per parser -/
def dP : Parser → Nat
  | .general .. => 3
  | .group .. => 1
  | .math _ => 1
  | .envBody _ => 4
  | .macroCall .. => 5
  | .specialsCall .. => 5
  | .envCall .. => 5
  | .arguments _ => 4
  | .expression _ => 3
  | .marker .. => 1
  | .verbatim _ => 1

/-- fuel that suffices for a task on an input of length `L` -/
def need (L : Nat) : Task → Nat
  | .pc p _ pos => 4 * (L - pos) + dP p
  | .loop _ _ _ st => 4 * (L - st.pos) + 2
  | .expr _ _ _ pos => 4 * (L - pos) + 2

theorem dP_pos (p : Parser) : 1 ≤ dP p := by cases p <;> simp [dP]

theorem need_pos (L : Nat) (t : Task) : 1 ≤ need L t := by
  cases t with
  | pc p f pos => have := dP_pos p; simp only [need]; omega
  | loop f stop child st => simp only [need]; omega
  | expr a b c d => simp only [need]; omega

theorem loopFinish_ne_fuel (f : PSFields) (st : LoopSt) (a : Option Token) (b : Option PErr) :
    loopFinish f st a b ≠ .fuel := by
  unfold loopFinish; intro h; cases h

theorem parseContent_nf {tol : Bool} {raw : Raw} (h : raw ≠ .ret .fuel) : parseContent tol raw ≠ .fuel := by
  cases raw with
  | eos q => intro hh; cases hh
  | ret r =>
    cases r with
    | ok res q => intro hh; cases hh
    | perr e => cases tol <;> (intro hh; cases hh)
    | loopEnd e => intro hh; cases hh
    | crash k => intro hh; cases hh
    | fuel => exact absurd rfl h

theorem bindOk_nf {r : Ret} {k : Res → Nat → Raw} (hr : r ≠ .fuel)
    (hk : ∀ res q, r = .ok res q → k res q ≠ .ret .fuel) : bindOk r k ≠ .ret .fuel := by
  unfold bindOk
  cases r with
  | ok res q => exact hk res q rfl
  | perr e => intro hh; cases hh
  | loopEnd e => intro hh; cases hh
  | crash k => intro hh; cases hh
  | fuel => exact absurd rfl hr

section withRec
variable {env : Env} {rec : Task → Ret} {n : Nat}
  (hadv : ∀ t, t.Ok → Adv env t (rec t))
  (hnf : ∀ t, t.Ok → need env.s.length t ≤ n → rec t ≠ .fuel)
include hadv hnf

omit hadv in
theorem afterChild_nf {f : PSFields} {stop : StopTok} {child : ChildPS} {st : LoopSt} {noneOk : Bool} {r : Ret}
    (hch : child.Ok) (hf : DelimsOk f) (hr : r ≠ .fuel)
    (hq : ∀ res q, r = .ok res q → ((res = .none ∧ noneOk = true) ∨ ∃ nd, res = .node nd) →
      4 * (env.s.length - q) + 2 ≤ n) :
    afterChild rec f stop child st noneOk r ≠ .fuel := by
  unfold afterChild
  cases r with
  | ok res q =>
    cases res with
    | node nd => exact hnf (.loop f stop child _) ⟨hch, hf⟩ (hq _ q rfl (Or.inr ⟨nd, rfl⟩))
    | none =>
      dsimp only
      split
      · rename_i hno
        exact hnf (.loop f stop child _) ⟨hch, hf⟩ (hq _ q rfl (Or.inl ⟨rfl, hno⟩))
      · intro hh; cases hh
    | list a b c => intro hh; cases hh
    | args a b c => intro hh; cases hh
  | perr e => exact loopFinish_ne_fuel _ _ _ _
  | loopEnd e => intro hh; cases hh
  | crash k => intro hh; cases hh
  | fuel => exact absurd rfl hr

omit hadv in
theorem pc_nf {P : Parser} {g : PSFields} {start : Nat} (hP : P.Ok) (hg : DelimsOk g)
    (hb : 4 * (env.s.length - start) + dP P ≤ n) : rec (.pc P g start) ≠ .fuel :=
  hnf (.pc P g start) ⟨hP, hg⟩ hb

theorem loopDispatch_nf {f : PSFields} {stop : StopTok} {child : ChildPS} {st : LoopSt} {t : Token}
    (hch : child.Ok) (hf : DelimsOk f) (p0 : Nat) (hb : 4 * (env.s.length - p0) + 2 ≤ n + 1)
    (hst : p0 < st.pos) (hL : st.pos ≤ env.s.length) (ht : p0 ≤ t.pos)
    (hm : isMathKind t.kind = true → ¬ EosAt env.s t.pos) :
    loopDispatch env rec f stop child st t ≠ .fuel := by
  have hcf := ChildPS.get_ok t hch hf
  have fin : ∀ e, loopFinish f st none e ≠ .fuel := fun e => loopFinish_ne_fuel _ _ _ _
  have lp : ∀ st' : LoopSt, st'.pos = st.pos → rec (.loop f stop child st') ≠ .fuel := fun st' h =>
    hnf (.loop f stop child st') ⟨hch, hf⟩ (by simp only [need]; rw [h]; omega)
  -- children started after the token
  have ch1 : ∀ (P : Parser) (b : Bool), P.Ok → dP P ≤ 5 →
      afterChild rec f stop child st b (rec (.pc P (child.get f t) st.pos)) ≠ .fuel := by
    intro P b hP hd
    apply afterChild_nf hnf hch hf (pc_nf hnf hP hcf (by omega))
    intro res q hr _
    have := hadv (.pc P (child.get f t) st.pos) ⟨hP, hcf⟩
    rw [hr] at this
    have := PQ_le this
    omega
  unfold loopDispatch
  cases hk : t.kind <;> simp only
  · intro hh; cases hh
  · split
    · split
      · exact lp st rfl
      · exact fin _
    · exact ch1 _ _ trivial (by simp [dP])
  · split
    · split
      · exact lp st rfl
      · exact fin _
    · exact ch1 _ _ trivial (by simp [dP])
  · exact fin _
  · exact lp _ rfl
  · have hP : (Parser.group (.auto t.arg) false false).Ok := trivial
    apply afterChild_nf hnf hch hf (pc_nf hnf hP hcf (by show _ + 1 ≤ n; omega))
    intro res q hr hres
    have h := hadv (.pc (.group (.auto t.arg) false false) (child.get f t) t.pos) ⟨hP, hcf⟩
    rw [hr] at h
    have h : PQ env.s (.group (.auto t.arg) false false) t.pos res q := h
    rcases hres with ⟨_, hno⟩ | ⟨nd, hnd⟩
    · cases hno
    · have := (h.2 nd hnd).1
      omega
  · exact fin _
  · split
    · have hP : (Parser.math t.arg).Ok := trivial
      apply afterChild_nf hnf hch hf (pc_nf hnf hP hcf (by show _ + 1 ≤ n; omega))
      intro res q hr hres
      have h := hadv (.pc (.math t.arg) (child.get f t) t.pos) ⟨hP, hcf⟩
      rw [hr] at h
      have h : PQ env.s (.math t.arg) t.pos res q := h
      rcases hres with ⟨hno, _⟩ | ⟨nd, hnd⟩
      · exact absurd (h.2.2 hno) (hm (by rw [hk]; rfl))
      · have := h.2.1 nd hnd
        omega
    · exact fin _
  · split
    · have hP : (Parser.math t.arg).Ok := trivial
      apply afterChild_nf hnf hch hf (pc_nf hnf hP hcf (by show _ + 1 ≤ n; omega))
      intro res q hr hres
      have h := hadv (.pc (.math t.arg) (child.get f t) t.pos) ⟨hP, hcf⟩
      rw [hr] at h
      have h : PQ env.s (.math t.arg) t.pos res q := h
      rcases hres with ⟨hno, _⟩ | ⟨nd, hnd⟩
      · exact absurd (h.2.2 hno) (hm (by rw [hk]; rfl))
      · have := h.2.1 nd hnd
        omega
    · exact fin _
  · split
    · intro hh; cases hh
    · exact ch1 _ _ trivial (by simp [dP])

theorem loopStep_nf {f : PSFields} {stop : StopTok} {child : ChildPS} {st : LoopSt}
    (hch : child.Ok) (hf : DelimsOk f) (hb : 4 * (env.s.length - st.pos) + 2 ≤ n + 1) :
    loopStep env rec f stop child st ≠ .fuel := by
  unfold loopStep
  cases hr : loopRead env f st with
  | inr r =>
    obtain ⟨err, rfl⟩ := loopRead_inr hr
    exact loopFinish_ne_fuel _ _ _ _
  | inl t =>
    have lt := loopRead_inl hf hr
    have h1 := lt.pos_eq
    have h2 := lt.adv
    have h3 := lt.le
    have h4 := lt.in_range
    dsimp only
    split
    · exact loopFinish_ne_fuel _ _ _ _
    · split
      · apply hnf (.loop f stop child _) ⟨hch, hf⟩
        simp only [need]
        omega
      · apply loopDispatch_nf hadv hnf hch hf st.pos hb
        · exact h2
        · exact h4
        · show st.pos ≤ t.pos; omega
        · exact lt.math

omit hnf in
theorem pc_le {P : Parser} {g : PSFields} {start : Nat} (hP : P.Ok) (hg : DelimsOk g) :
    ∀ res q, rec (.pc P g start) = .ok res q → PQ env.s P start res q := by
  intro res q he
  have := hadv (.pc P g start) ⟨hP, hg⟩
  rw [he] at this
  exact this

omit hadv in
theorem rawGeneral_nf {stop : StopTok} {require : Bool} {child : ChildPS} {f : PSFields} {pos : Nat}
    (hch : child.Ok) (hf : DelimsOk f) (hb : 4 * (env.s.length - pos) + 3 ≤ n + 1) :
    rawGeneral rec stop require child f pos ≠ .ret .fuel := by
  unfold rawGeneral retOfLoop
  have h := hnf (.loop f stop child { pos := pos }) ⟨hch, hf⟩ (by simp only [need]; omega)
  cases hr : rec (.loop f stop child { pos := pos }) with
  | loopEnd e =>
    dsimp only
    split
    · intro hh; cases hh
    · split
      · intro hh; cases hh
      · split <;> (intro hh; cases hh)
  | ok a b => intro hh; cases hh
  | perr e => intro hh; cases hh
  | crash k => intro hh; cases hh
  | fuel => exact absurd hr h

omit hadv in
theorem rawGroupTok_nf {delims : GroupDelims} {optional allowPre : Bool} {f g : PSFields} {t : Token} {pos : Nat}
    (hg : DelimsOk g) (hf : DelimsOk f) (ht : LTok env.s pos t) (hb : 4 * (env.s.length - pos) + 1 ≤ n + 1) :
    rawGroupTok rec delims optional allowPre f g t ≠ .ret .fuel := by
  have h2 := ht.adv
  have h4 := ht.in_range
  unfold rawGroupTok
  split
  · split
    · intro hh; cases hh
    · rename_i c hc
      have hP : (Parser.general (.braceClose c) true (.group delims.opener g f)).Ok := ⟨hg, hf⟩
      apply bindOk_nf (pc_nf hnf hP hg (by show _ + 3 ≤ n; omega))
      intro res q _ hh; cases hh
  · split <;> (intro hh; cases hh)

omit hadv in
theorem rawGroup_nf {delims : GroupDelims} {optional allowPre : Bool} {f : PSFields} {pos : Nat} (hf : DelimsOk f)
    (hb : 4 * (env.s.length - pos) + 1 ≤ n + 1) :
    rawGroup env rec delims optional allowPre f pos ≠ .ret .fuel := by
  unfold rawGroup
  cases hgs : groupState delims f with
  | none => intro hh; cases hh
  | some g =>
    have hg := delimsOk_groupState hgs hf
    dsimp only
    cases hp : peekTok env.tol (mkPS g) env.s pos with
    | eos fs => intro hh; cases hh
    | err w ep t r => intro hh; cases hh
    | tok t => exact rawGroupTok_nf hnf hg hf (LTok.of_peek hg hp) hb

omit hadv in
theorem rawMathTok_nf {delim : Str} {f : PSFields} {t : Token} {pos : Nat}
    (hf : DelimsOk f) (ht : LTok env.s pos t) (hb : 4 * (env.s.length - pos) + 1 ≤ n + 1) :
    rawMathTok rec delim f t ≠ .ret .fuel := by
  have h2 := ht.adv
  have h4 := ht.in_range
  unfold rawMathTok
  split
  · split
    · intro hh; cases hh
    · rename_i cd hcd
      have hg := delimsOk_mathFields t.arg hf
      have hP : (Parser.general (.mathClose (t.kind == .mathDisplay) cd.1) true .same).Ok := trivial
      apply bindOk_nf (pc_nf hnf hP hg (by show _ + 3 ≤ n; omega))
      intro res q _ hh; cases hh
  · intro hh; cases hh

omit hadv in
theorem rawMath_nf {delim : Str} {f : PSFields} {pos : Nat} (hf : DelimsOk f)
    (hb : 4 * (env.s.length - pos) + 1 ≤ n + 1) : rawMath env rec delim f pos ≠ .ret .fuel := by
  unfold rawMath
  cases hp : peekTok env.tol (mkPS f) env.s pos with
  | eos fs => intro hh; cases hh
  | err w ep t r => intro hh; cases hh
  | tok t => exact rawMathTok_nf hnf hf (LTok.of_peek hf hp) hb

omit hadv in
theorem rawEnvBody_nf {name : Str} {f : PSFields} {pos : Nat} (hf : DelimsOk f)
    (hb : 4 * (env.s.length - pos) + 4 ≤ n + 1) : rawEnvBody rec name f pos ≠ .ret .fuel := by
  unfold rawEnvBody
  have hP : (Parser.general (.endEnv name) true .same).Ok := trivial
  apply bindOk_nf (pc_nf hnf hP hf (by show _ + 3 ≤ n; omega))
  intro res q _
  split <;> (intro hh; cases hh)

omit hadv in
theorem rawCall_nf {mk : Nat → Option (List Arg) → Node} {a : ArgsP} {f : PSFields} {pos : Nat}
    (hf : DelimsOk f) (hb : 4 * (env.s.length - pos) + 5 ≤ n + 1) : rawCall rec mk a f pos ≠ .ret .fuel := by
  unfold rawCall
  have hP : (Parser.arguments a).Ok := trivial
  apply bindOk_nf (pc_nf hnf hP hf (by show _ + 4 ≤ n; omega))
  intro res q _ hh; cases hh

theorem rawEnvCall_nf {t : Token} {a : ArgsP} {bm : Bool} {f : PSFields} {pos : Nat} (hf : DelimsOk f)
    (hb : 4 * (env.s.length - pos) + 5 ≤ n + 1) : rawEnvCall rec t a bm f pos ≠ .ret .fuel := by
  unfold rawEnvCall
  have hP : (Parser.arguments a).Ok := trivial
  apply bindOk_nf (pc_nf hnf hP hf (by show _ + 4 ≤ n; omega))
  intro ares q hr
  have h1 := PQ_le (pc_le hadv hP hf ares q hr)
  dsimp only
  have hbf : DelimsOk (if bm = true then applyDelta f .enterMath else f) := by
    split
    · exact delimsOk_applyDelta _ hf
    · exact hf
  have hP2 : (Parser.envBody t.arg).Ok := trivial
  apply bindOk_nf (pc_nf hnf hP2 hbf (by show _ + 4 ≤ n; omega))
  intro bres q2 _ hh; cases hh

omit hadv hnf in
theorem legacyVerbEnvFinish_nf {name : Str} {f : PSFields} {pos : Nat} {pre : List Arg} {p : Nat} :
    legacyVerbEnvFinish env name f pos pre p ≠ .ret .fuel := by
  unfold legacyVerbEnvFinish
  split <;> (intro hh; cases hh)

omit hadv in
theorem rawLegacyVerbEnv_nf {name : Str} {optArg : Bool} {f : PSFields} {pos : Nat} (hf : DelimsOk f)
    (hb : 4 * (env.s.length - pos) + 4 ≤ n + 1) : rawLegacyVerbEnv env rec name optArg f pos ≠ .ret .fuel := by
  unfold rawLegacyVerbEnv
  split
  · exact legacyVerbEnvFinish_nf
  · split
    · exact legacyVerbEnvFinish_nf
    · have hP : (Parser.group (.pair ['['] [']']) true false).Ok := trivial
      apply bindOk_nf (pc_nf hnf hP hf (by show _ + 1 ≤ n; omega))
      intro res q _
      split <;> exact legacyVerbEnvFinish_nf

omit hadv hnf in
theorem dP_argParser (k : ArgKind) : dP (argParser k) ≤ 3 := by
  cases k <;> simp [argParser, dP]

theorem argsLoop_nf {f : PSFields} (hf : DelimsOk f) :
    ∀ (l : List ArgSpec) (acc : List Arg) (pos : Nat), 4 * (env.s.length - pos) + 4 ≤ n + 1 →
      argsLoop env rec f l acc pos ≠ .fuel
  | [], acc, pos, _ => by unfold argsLoop; intro hh; cases hh
  | a :: rest, acc, pos, hb => by
    unfold argsLoop
    split
    · intro hh; cases hh
    · have hg := delimsOk_applyDelta a.delta hf
      have hP := argParser_ok a.kind
      have hd := dP_argParser a.kind
      have h := pc_nf hnf hP hg (start := pos) (by omega)
      cases hr : rec (.pc (argParser a.kind) (applyDelta f a.delta) pos) with
      | ok res q =>
        have := PQ_le (pc_le hadv hP hg res q hr)
        exact argsLoop_nf hf rest _ q (by omega)
      | perr e => intro hh; cases hh
      | loopEnd e => intro hh; cases hh
      | crash k => intro hh; cases hh
      | fuel => exact absurd hr h

theorem rawArguments_nf {a : ArgsP} {f : PSFields} {pos : Nat} (hf : DelimsOk f)
    (hb : 4 * (env.s.length - pos) + 4 ≤ n + 1) : rawArguments env rec a f pos ≠ .ret .fuel := by
  unfold rawArguments
  cases a with
  | std l =>
    have := argsLoop_nf hadv hnf hf l [] pos hb
    intro hh
    simp only [Raw.ret.injEq] at hh
    exact this hh
  | legacyVerb =>
    unfold rawLegacyVerb
    dsimp only
    split
    · intro hh; cases hh
    · split <;> (intro hh; cases hh)
  | legacyVerbEnv name optArg => exact rawLegacyVerbEnv_nf hnf hf hb
  | unknown => intro hh; cases hh

omit hadv hnf in
theorem exprFinish_nf {f : PSFields} {nodes : List Node} {q : Nat} : exprFinish f nodes q ≠ .fuel := by
  unfold exprFinish
  split <;> (intro hh; cases hh)

omit hadv in
theorem exprOnTok_nf {allowPre : Bool} {skipped : List Node} {f : PSFields} {t : Token} {pos : Nat}
    (hf : DelimsOk f) (hp : pos ≤ t.pos) (h2 : pos < t.posEnd) (h4 : t.posEnd ≤ env.s.length)
    (hb : 4 * (env.s.length - pos) + 2 ≤ n + 1) :
    exprOnTok env rec allowPre skipped f t ≠ .fuel := by
  have ex : ∀ sk, rec (.expr allowPre sk f t.posEnd) ≠ .fuel := fun sk =>
    hnf (.expr allowPre sk f t.posEnd) hf (by simp only [need]; omega)
  unfold exprOnTok
  cases hk : t.kind <;> simp only
  · exact exprFinish_nf
  · intro hh; cases hh
  · intro hh; cases hh
  · intro hh; cases hh
  · split
    · exact ex _
    · split
      · exact ex _
      · intro hh; cases hh
  · have hP : (Parser.group (.auto t.arg) false false).Ok := trivial
    have h := pc_nf hnf hP hf (start := t.pos) (by show _ + 1 ≤ n; omega)
    cases hr : rec (.pc (.group (.auto t.arg) false false) f t.pos) with
    | ok res q =>
      cases res with
      | node nd => exact exprFinish_nf
      | none => intro hh; cases hh
      | list a b c => intro hh; cases hh
      | args a b c => intro hh; cases hh
    | perr e => intro hh; cases hh
    | loopEnd e => intro hh; cases hh
    | crash k => intro hh; cases hh
    | fuel => exact absurd hr h
  · intro hh; cases hh
  · intro hh; cases hh
  · intro hh; cases hh
  · intro hh; cases hh

omit hadv in
theorem exprTok_nf {allowPre : Bool} {skipped : List Node} {f : PSFields} {t : Token} {pos : Nat}
    (hf : DelimsOk f) (ht : LTok env.s pos t) (hb : 4 * (env.s.length - pos) + 2 ≤ n + 1) :
    exprTok env rec allowPre skipped f t ≠ .fuel := by
  have h1 := ht.pos_eq
  have h2 := ht.adv
  have h3 := ht.le
  have h4 := ht.in_range
  unfold exprTok
  dsimp only
  split
  · split
    · split
      · exact exprFinish_nf
      · intro hh; cases hh
    · exact exprFinish_nf
  · split
    · exact exprFinish_nf
    · split
      · rename_i hpre
        have hpl : 0 < t.pre.length := by
          cases hh : t.pre with
          | nil => rw [hh] at hpre; simp at hpre
          | cons a l => simp
        split
        · exact hnf (.expr allowPre _ f t.pos) hf (by simp only [need]; omega)
        · split
          · exact hnf (.expr allowPre _ f t.posEnd) hf (by simp only [need]; omega)
          · intro hh; cases hh
      · exact exprOnTok_nf hnf hf (by omega) h2 h4 hb

omit hadv in
theorem exprStep_nf {allowPre : Bool} {skipped : List Node} {f : PSFields} {pos : Nat} (hf : DelimsOk f)
    (hb : 4 * (env.s.length - pos) + 2 ≤ n + 1) : exprStep env rec allowPre skipped f pos ≠ .fuel := by
  unfold exprStep
  dsimp only
  have hef := delimsOk_exprFields hf
  cases hp : peekTok env.tol (mkPS ({ f with enEnvs := false } : PSFields).normalize) env.s pos with
  | err w ep t r => intro hh; cases hh
  | eos fs =>
    dsimp only
    split
    · exact exprFinish_nf
    · intro hh; cases hh
  | tok t => exact exprTok_nf hnf hf (LTok.of_peek hef hp) hb

omit hadv hnf in
theorem rawMarker_nf {c : Char} {fl ap : Bool} {f : PSFields} {pos : Nat} :
    rawMarker env c fl ap f pos ≠ .ret .fuel := by
  unfold rawMarker
  split
  · intro hh; cases hh
  · intro hh; cases hh
  · dsimp only
    split
    · intro hh; cases hh
    · split
      · intro hh; cases hh
      · split <;> (intro hh; cases hh)

omit hadv hnf in
theorem rawVerbatim_nf {d : Option (Char × Char)} {f : PSFields} {pos : Nat} :
    rawVerbatim env d f pos ≠ .ret .fuel := by
  unfold rawVerbatim
  dsimp only
  split
  · intro hh; cases hh
  · split
    · intro hh; cases hh
    · split <;> (intro hh; cases hh)

theorem rawParse_nf {p : Parser} {f : PSFields} {pos : Nat} (hP : p.Ok) (hf : DelimsOk f)
    (hb : 4 * (env.s.length - pos) + dP p ≤ n + 1) : rawParse env rec p f pos ≠ .ret .fuel := by
  unfold rawParse
  cases p with
  | general stop require child => exact rawGeneral_nf hnf hP hf hb
  | group d o a => exact rawGroup_nf hnf hf hb
  | math d => exact rawMath_nf hnf hf hb
  | envBody nm => exact rawEnvBody_nf hnf hf hb
  | macroCall t a => exact rawCall_nf hnf hf hb
  | specialsCall t a => exact rawCall_nf hnf hf hb
  | envCall t a bm => exact rawEnvCall_nf hadv hnf hf hb
  | arguments a => exact rawArguments_nf hadv hnf hf hb
  | expression ap =>
    have := hnf (.expr ap [] f pos) hf (by simp only [need]; simp only [dP] at hb; omega)
    intro hh
    simp only [Raw.ret.injEq] at hh
    exact this hh
  | marker c fl ap => exact rawMarker_nf
  | verbatim d => exact rawVerbatim_nf

theorem step_nf (t : Task) (ht : t.Ok) (hb : need env.s.length t ≤ n + 1) : step env rec t ≠ .fuel := by
  cases t with
  | pc p f pos => exact parseContent_nf (rawParse_nf hadv hnf ht.1 ht.2 hb)
  | loop f stop child st => exact loopStep_nf hadv hnf ht.1 ht.2 hb
  | expr ap sk f pos => exact exprStep_nf hnf ht hb

end withRec

/-- **Progress.** `need` units of fuel are enough for any task (both modes, any context). -/
theorem run_nf (env : Env) : ∀ (n : Nat) (t : Task), t.Ok → need env.s.length t ≤ n → run env n t ≠ .fuel
  | 0, t, _, hb => by have := need_pos env.s.length t; omega
  | n + 1, t, ht, hb =>
    step_nf (rec := run env n) (fun t' ht' => run_adv env n t' ht') (fun t' ht' hb' => run_nf env n t' ht' hb') t ht hb

end Pylx
