/-
  C12, part B — rendered positions.  `InNode E t n`: the node `t` sits in a position of `n` the renderer descends
  into AND whose text reaches the output unchanged (bodies of groups, arguments / bodies of constructs without
  replacement and `discard = False`, arguments of positional %-format replacements that fit, the title argument of
  a sectioning callable without upper-casing, bodies of environments with a positional %-format, formula bodies and
  bodies of equation environments when `math_mode` is `text` / `with-delimiters`).
  `vis_node`: every property `P` of output strings that is monotone for "is an infix of" (and survives `strip` /
  block indentation where the path crosses a formula) passes from what `t` emits to what `n` emits.
-/
import PylxProofs.C12Sim
namespace Pylx.L2T.C12
open Pylx Pylx.L2T

/-! ### state-transformer plumbing -/

/-- every successful run of `x` returns a string satisfying `P` -/
def Emits (P : Str → Prop) (x : R Str) : Prop := ∀ st out st', x st = .ok (out, st') → P out

theorem bind_ok {α β : Type} {x : R α} {f : α → R β} {st : St} {r : β × St} (h : R.bind x f st = .ok r) :
    ∃ a st1, x st = .ok (a, st1) ∧ f a st1 = .ok r := by
  unfold R.bind at h
  split at h
  · exact ⟨_, _, ‹_›, h⟩
  · cases h

theorem pure_ok {α : Type} {a : α} {st : St} {r : α × St} (h : R.pure a st = .ok r) : r = (a, st) := by
  unfold R.pure at h; cases h; rfl

theorem emits_pure {P : Str → Prop} {a : Str} (h : P a) : Emits P (R.pure a) := by
  intro st out st' hr
  have := pure_ok hr
  cases this; exact h

/-- monotone for "is an infix of" -/
def Up (P : Str → Prop) : Prop := ∀ x y, x <:+: y → P x → P y
/-- survives Python's `str.strip()` -/
def StripOk (P : Str → Prop) : Prop := ∀ x, P x → P (strip x)
/-- survives the indentation of a block by four blanks -/
def IndentOk (P : Str → Prop) : Prop := ∀ x, P x → P (indentLines "    ".toList x)

theorem infix_mid {α : Type} (a x b : List α) : x <:+: a ++ x ++ b := ⟨a, b, rfl⟩
theorem infix_right {α : Type} (a x : List α) : x <:+: a ++ x := ⟨a, [], by simp⟩
theorem infix_left {α : Type} (x b : List α) : x <:+: x ++ b := ⟨[], b, by simp⟩

theorem indentLines_nil : ∀ s : Str, indentLines [] s = s
  | [] => rfl
  | c :: r => by
    unfold indentLines
    split
    · rename_i h
      have : c = '\n' := by simpa using h
      subst this
      simp only [List.nil_append, indentLines_nil r]
    · rw [indentLines_nil r]

theorem indentedBlock_nil (s : Str) : indentedBlock s [] = '\n' :: (s ++ ['\n']) := by
  unfold indentedBlock
  simp only [List.nil_append, indentLines_nil]

theorem infix_indentedBlock (s ind : Str) : indentLines ind s <:+: indentedBlock s ind := by
  unfold indentedBlock
  exact ⟨'\n' :: ind, ['\n'], by simp⟩

/-! ### the loop only appends -/

theorem renderList_prefix (E : Env) (c : Sls) : ∀ (ns : List Node) (prev : Option Node) (acc : Str) (st : St) (out : Str) (st' : St),
    renderList E c prev acc ns st = .ok (out, st') → acc <+: out
  | [], prev, acc, st, out, st', h => by
    unfold renderList at h
    have := pure_ok h
    cases this
    exact List.prefix_refl _
  | n :: ns, prev, acc, st, out, st', h => by
    unfold renderList at h
    obtain ⟨pre, st1, _, h⟩ := bind_ok h
    obtain ⟨tx, st2, _, h⟩ := bind_ok h
    have := renderList_prefix E c ns (some n) _ st2 out st' h
    obtain ⟨r, hr⟩ := this
    exact ⟨pre ++ tx ++ r, by simp only [← hr, List.append_assoc]⟩

theorem argsEach_length (E : Env) (c : Sls) : ∀ (l : List Arg) (st : St) (ts : List Str) (st' : St),
    argsEach E c l st = .ok (ts, st') → ts.length = l.length
  | [], st, ts, st', h => by
    unfold argsEach at h
    have := pure_ok h
    cases this; rfl
  | a :: l, st, ts, st', h => by
    unfold argsEach at h
    obtain ⟨t, st1, _, h⟩ := bind_ok h
    obtain ⟨r, st2, h2, h⟩ := bind_ok h
    have hl := argsEach_length E c l st1 r st2 h2
    have := pure_ok h
    cases this
    simp only [List.length_cons, hl]

/-! ### positional %-formatting -/

/-- the positional format consumes exactly `n` values (so `simplify_repl % tuple` succeeds) -/
def tupleFits : List Seg → Nat → Bool
  | [], n => n == 0
  | .lit _ :: r, n => tupleFits r n
  | .pct :: r, n => tupleFits r n
  | .pos :: r, n + 1 => tupleFits r n
  | .pos :: _, 0 => false
  | .key _ :: _, _ => false

theorem fmtTuple_fits : ∀ (segs : List Seg) (xs : List Str), tupleFits segs xs.length = true → ∃ r, fmtTuple segs xs = some r
  | [], [], _ => ⟨[], rfl⟩
  | [], _ :: _, h => by simp [tupleFits] at h
  | .lit s :: segs, xs, h => by
    simp only [tupleFits] at h
    obtain ⟨r, hr⟩ := fmtTuple_fits segs xs h
    exact ⟨s ++ r, by simp only [fmtTuple, hr, Option.map_some]⟩
  | .pct :: segs, xs, h => by
    simp only [tupleFits] at h
    obtain ⟨r, hr⟩ := fmtTuple_fits segs xs h
    exact ⟨'%' :: r, by simp only [fmtTuple, hr, Option.map_some]⟩
  | .pos :: segs, [], h => by simp [tupleFits] at h
  | .pos :: segs, x :: xs, h => by
    simp only [List.length_cons, tupleFits] at h
    obtain ⟨r, hr⟩ := fmtTuple_fits segs xs h
    exact ⟨x ++ r, by simp only [fmtTuple, hr, Option.map_some]⟩
  | .key _ :: _, _, h => by simp [tupleFits] at h

theorem fmtTuple_shows : ∀ (segs : List Seg) (xs : List Str) (r : Str), fmtTuple segs xs = some r → ∀ x ∈ xs, x <:+: r
  | [], [], _, _, x, hx => by cases hx
  | [], _ :: _, _, h, _, _ => by simp [fmtTuple] at h
  | .lit s :: segs, xs, r, h, x, hx => by
    simp only [fmtTuple, Option.map_eq_some_iff] at h
    obtain ⟨r', h', rfl⟩ := h
    exact (fmtTuple_shows segs xs r' h' x hx).trans (infix_right _ _)
  | .pct :: segs, xs, r, h, x, hx => by
    simp only [fmtTuple, Option.map_eq_some_iff] at h
    obtain ⟨r', h', rfl⟩ := h
    exact (fmtTuple_shows segs xs r' h' x hx).trans (infix_right ['%'] _)
  | .pos :: segs, [], _, h, _, _ => by simp [fmtTuple] at h
  | .pos :: segs, y :: xs, r, h, x, hx => by
    simp only [fmtTuple, Option.map_eq_some_iff] at h
    obtain ⟨r', h', rfl⟩ := h
    rcases List.mem_cons.1 hx with rfl | hx
    · exact infix_left _ _
    · exact (fmtTuple_shows segs xs r' h' x hx).trans (infix_right _ _)
  | .key _ :: _, _, _, h, _, _ => by simp [fmtTuple] at h

/-! ### which parts of a construct reach the output unchanged -/

/-- no replacement and `discard = False`: the default rendering (arguments of a macro / specials, body of an
    environment) -/
def Transparent (E : Env) (sp : TSpec) : Prop :=
  replTruthy E.lib sp.repl = false ∧ sp.hasDiscard = true ∧ sp.discard = false

/-- `len(spec.arguments_spec_list)` of the walker entry of the name -/
def padOf (E : Env) (kind : Kind) (name : Str) : Nat := ((walkerSpec E kind name).map sigLen).getD 0

/-- all written arguments of the macro / specials reach the output through `_groupnodecontents_to_text` -/
def ShowsArgs (E : Env) (kind : Kind) (name : Str) (sp : TSpec) (nargs : Nat) : Prop :=
  Transparent E sp ∨
  ∃ raw segs, sp.repl = .fmt raw segs ∧ segs.any Seg.isPos = true ∧ tupleFits segs (max nargs (padOf E kind name)) = true

/-- the body of the environment reaches the output (rendered in the surrounding context) -/
def ShowsBody (E : Env) (sp : TSpec) : Prop :=
  Transparent E sp ∨ ∃ raw segs, sp.repl = .fmt raw segs ∧ segs.any Seg.isPos = true ∧ tupleFits segs 1 = true

def MathShown (E : Env) : Prop := E.opts.mathMode = .text ∨ E.opts.mathMode = .withDelims

/-- the body of the environment is rendered as an equation whose text is shown -/
def ShowsBodyEq (E : Env) (sp : TSpec) : Prop := sp.repl = .eqEnv ∧ MathShown E

mutual
/-- `t` sits in rendered position of the node -/
def InNode (E : Env) (t : Node) : Node → Prop
  | .chars p e ps ch => t = .chars p e ps ch
  | .comment p e ps cm post => t = .comment p e ps cm post
  | .group p e ps o cl b => t = .group p e ps o cl b ∨ InBody E t b
  | .mac p e ps name post a =>
    t = .mac p e ps name post a ∨
    (ShowsArgs E .mac name (macSpec E name) (a.getD []).length ∧ InArgsO E t a) ∨
    (∃ pre pst idx, (macSpec E name).repl = .sectioning pre pst idx false ∧ InArgsOAt E t idx a)
  | .env p e ps name a b =>
    t = .env p e ps name a b ∨
    ((ShowsBody E (envSpec E name) ∨ ShowsBodyEq E (envSpec E name)) ∧ InBody E t b)
  | .specials p e ps ch a =>
    t = .specials p e ps ch a ∨
    (∃ sp, lookupFirst ch E.db.specials = some sp ∧ ShowsArgs E .specials ch sp (a.getD []).length) ∧ InArgsO E t a
  | .math p e ps d o cl b => t = .math p e ps d o cl b ∨ (MathShown E ∧ InBody E t b)
def InBody (E : Env) (t : Node) : Option (List Node) → Prop
  | none => False
  | some ns => InList E t ns
def InList (E : Env) (t : Node) : List Node → Prop
  | [] => False
  | n :: ns => InNode E t n ∨ InList E t ns
def InArgsO (E : Env) (t : Node) : Option (List Arg) → Prop
  | none => False
  | some l => InArgs E t l
def InArgs (E : Env) (t : Node) : List Arg → Prop
  | [] => False
  | a :: l => InArg E t a ∨ InArgs E t l
def InArgsOAt (E : Env) (t : Node) (k : Nat) : Option (List Arg) → Prop
  | none => False
  | some l => InArgsAt E t k l
def InArgsAt (E : Env) (t : Node) : Nat → List Arg → Prop
  | _, [] => False
  | 0, a :: _ => InArg E t a
  | k + 1, _ :: l => InArgsAt E t k l
/-- through `_groupnodecontents_to_text`: the braces of a group argument are dropped -/
def InArg (E : Env) (t : Node) : Arg → Prop
  | .absent => False
  | .node (.group _ _ _ _ _ b) => InBody E t b
  | .node n => InNode E t n
  | .list _ _ ns => InList E t ns
end

/-! ### replacements that show their arguments / body -/

theorem applySpec_transparent {E : Env} {sp : TSpec} (h : Transparent E sp) (info : NodeInfo) (th : Thunks) (dflt : R Str) :
    applySpec E info th sp dflt = dflt := by
  obtain ⟨h1, h2, h3⟩ := h
  unfold applySpec
  simp only [h1, h2, h3, Bool.false_eq_true, if_false, Bool.not_true]

theorem applySpec_fmt {E : Env} {sp : TSpec} {raw : Str} {segs : List Seg} (h : sp.repl = .fmt raw segs)
    (info : NodeInfo) (th : Thunks) (dflt : R Str) :
    applySpec E info th sp dflt = applyString E info th raw segs := by
  unfold applySpec
  simp only [h, replTruthy, if_true]

theorem kind_ne_env {k : Kind} (h : k ≠ .env) : (k == Kind.env) = false := by
  cases k
  · rfl
  · exact absurd rfl h
  · rfl

theorem emits_applyString_args {P : Str → Prop} (hUp : Up P) {E : Env} {info : NodeInfo} {th : Thunks} {raw : Str}
    {segs : List Seg} (hk : info.kind ≠ .env) (hpos : segs.any Seg.isPos = true) (hna : th.noArgd = false)
    (hfit : tupleFits segs (max th.n (padOf E info.kind info.name)) = true)
    (heach : ∀ st ts st', th.each st = .ok (ts, st') → ts.length = th.n ∧ ∃ x ∈ ts, P x) :
    Emits P (applyString E info th raw segs) := by
  intro st out st' hr
  simp only [applyString, kind_ne_env hk, Bool.false_eq_true, if_false, hna, hpos, if_true] at hr
  obtain ⟨ts, st1, h1, hr⟩ := bind_ok hr
  obtain ⟨hlen, x, hx, hP⟩ := heach _ _ _ h1
  have := pure_ok hr
  cases this
  have hl : (ts ++ List.replicate (((walkerSpec E info.kind info.name).map sigLen).getD 0 - ts.length) ([] : Str)).length =
      max th.n (padOf E info.kind info.name) := by
    simp only [List.length_append, List.length_replicate, hlen, padOf]; omega
  obtain ⟨r, hr'⟩ := fmtTuple_fits segs _ (by rw [hl]; exact hfit)
  rw [hr']
  exact hUp x r (fmtTuple_shows segs _ r hr' x (List.mem_append_left _ hx)) hP

theorem emits_applyString_body {P : Str → Prop} (hUp : Up P) {E : Env} {info : NodeInfo} {th : Thunks} {raw : Str}
    {segs : List Seg} (hk : info.kind = .env) (hpos : segs.any Seg.isPos = true)
    (hfit : tupleFits segs 1 = true) (hb : Emits P th.body) :
    Emits P (applyString E info th raw segs) := by
  intro st out st' hr
  simp only [applyString, hk, if_true, hpos] at hr
  obtain ⟨b, st1, h1, hr⟩ := bind_ok hr
  have hP := hb _ _ _ h1
  have := pure_ok hr
  cases this
  obtain ⟨r, hr'⟩ := fmtTuple_fits segs [b] hfit
  rw [hr']
  exact hUp b r (fmtTuple_shows segs _ r hr' b (List.mem_singleton.2 rfl)) hP

theorem emits_mathText {P : Str → Prop} {E : Env} (hUp : Up P) (hS : MathShown E → StripOk P)
    (hI : E.opts.mathMode = .text → IndentOk P) (hm : MathShown E) {bodyEq : R Str} (hb : Emits P bodyEq)
    (isEnv d : Bool) (d0 d1 : Str) (p e : Nat) : Emits P (mathText E isEnv d d0 d1 p e bodyEq) := by
  intro st out st' hr
  unfold mathText at hr
  have hm0 := hm
  rcases hm with hm' | hm'
  · simp only [hm'] at hr
    obtain ⟨t, st1, h1, hr⟩ := bind_ok hr
    have hP := hS hm0 _ (hb _ _ _ h1)
    have := pure_ok hr
    cases this
    split
    · exact hUp _ _ (infix_indentedBlock _ _) (hI hm' _ hP)
    · exact hP
  · simp only [hm'] at hr
    obtain ⟨t, st1, h1, hr⟩ := bind_ok hr
    have hP := hS hm0 _ (hb _ _ _ h1)
    have := pure_ok hr
    cases this
    split
    · refine hUp _ _ ?_ hP
      have h1 : strip t <:+: indentedBlock (strip t) [] := by
        have := infix_indentedBlock (strip t) []
        rwa [indentLines_nil] at this
      exact h1.trans (infix_mid _ _ _)
    · exact hUp _ _ (infix_mid _ _ _) hP

theorem emits_applySpec_eqEnv {P : Str → Prop} {E : Env} (hUp : Up P) (hS : MathShown E → StripOk P)
    (hI : E.opts.mathMode = .text → IndentOk P) {sp : TSpec} (h : ShowsBodyEq E sp) (name : Str) (p e : Nat) {th : Thunks}
    (hb : Emits P th.bodyEq) (dflt : R Str) : Emits P (applySpec E ⟨.env, name, p, e⟩ th sp dflt) := by
  obtain ⟨hr, hm⟩ := h
  unfold applySpec
  simp only [hr, replTruthy, if_true, applyCallable]
  exact emits_mathText hUp hS hI hm hb _ _ _ _ _ _

theorem emits_applySpec_sectioning {P : Str → Prop} {E : Env} (hUp : Up P) {sp : TSpec} {pre pst : Str} {idx : Nat}
    (h : sp.repl = .sectioning pre pst idx false) (info : NodeInfo) {th : Thunks} (hna : th.noArgd = false) (hn : th.n ≠ 0)
    (hc : Emits P (th.contents idx)) (dflt : R Str) : Emits P (applySpec E info th sp dflt) := by
  intro st out st' hr
  unfold applySpec at hr
  have hn' : (th.n == 0) = false := by simpa using hn
  simp only [h, replTruthy, if_true, applyCallable, hna, hn', Bool.or_self, Bool.false_eq_true, if_false] at hr
  obtain ⟨t, st1, h1, hr⟩ := bind_ok hr
  have hP := hc _ _ _ h1
  have := pure_ok hr
  cases this
  exact hUp _ _ (infix_mid _ _ _) hP

/-! ### the induction -/

/-- what the visibility induction needs of the target `t` and the property `P` of output strings -/
structure Carrier (E : Env) (t : Node) (P : Str → Prop) : Prop where
  up : Up P
  strip : MathShown E → StripOk P
  indent : E.opts.mathMode = .text → IndentOk P
  target : ∀ c, Emits P (renderNode E c t)

mutual
theorem vis_node (E : Env) (t : Node) (P : Str → Prop) (H : Carrier E t P) :
    ∀ (n : Node) (c : Sls), InNode E t n → Emits P (renderNode E c n)
  | .chars .., c, h => by simp only [InNode] at h; subst h; exact H.target c
  | .comment .., c, h => by simp only [InNode] at h; subst h; exact H.target c
  | .group p e ps o cl b, c, h => by
    simp only [InNode] at h
    rcases h with h | h
    · subst h; exact H.target c
    · intro st out st' hr
      rw [renderNode_group] at hr
      obtain ⟨tx, st1, h1, hr⟩ := bind_ok hr
      have hP := vis_body E t P H b c h _ _ _ h1
      have := pure_ok hr
      cases this
      split
      · exact H.up _ _ (infix_mid _ _ _) hP
      · exact hP
  | .mac p e ps name post a, c, h => by
    simp only [InNode] at h
    rcases h with h | ⟨hs, ha⟩ | ⟨pre, pst, idx, hr, ha⟩
    · subst h; exact H.target c
    · cases a with
      | none => simp only [InArgsO] at ha
      | some l =>
        simp only [InArgsO] at ha
        rw [renderNode_mac]
        rcases hs with htr | ⟨raw, segs, hr, hpos, hfit⟩
        · rw [applySpec_transparent htr]
          unfold argsCatO
          exact vis_argsCat E t P H l c ha
        · rw [applySpec_fmt hr]
          refine emits_applyString_args H.up (info := ⟨.mac, name, p, e⟩) (fun h => by cases h) hpos rfl hfit ?_
          intro st ts st' he
          have he' : argsEach E c l st = .ok (ts, st') := by
            have : (macThunks E c (some l)).each = argsEachO E c (some l) := rfl
            rw [this] at he
            unfold argsEachO at he
            exact he
          exact ⟨argsEach_length E c l st ts st' he', vis_argsEach E t P H l c ha st ts st' he'⟩
    · cases a with
      | none => simp only [InArgsOAt] at ha
      | some l =>
        simp only [InArgsOAt] at ha
        rw [renderNode_mac]
        have hne : l ≠ [] := by
          rintro rfl
          cases idx <;> simp only [InArgsAt] at ha
        refine emits_applySpec_sectioning H.up hr _ rfl ?_ ?_ _
        · show (l.length ≠ 0)
          intro h0
          exact hne (List.length_eq_zero_iff.1 h0)
        · have : (macThunks E c (some l)).contents idx = contentsAtO E c idx (some l) := rfl
          rw [this]
          unfold contentsAtO
          exact vis_contentsAt E t P H l c idx ha
  | .env p e ps name a b, c, h => by
    simp only [InNode] at h
    rcases h with h | ⟨hs, hb⟩
    · subst h; exact H.target c
    · rw [renderNode_env]
      rcases hs with (htr | ⟨raw, segs, hr, hpos, hfit⟩) | heq
      · rw [applySpec_transparent htr]
        exact vis_body E t P H b c hb
      · rw [applySpec_fmt hr]
        exact emits_applyString_body H.up (info := ⟨.env, name, p, e⟩) rfl hpos hfit (vis_body E t P H b c hb)
      · exact emits_applySpec_eqEnv H.up H.strip H.indent heq name p e (vis_body E t P H b c.enterEq hb) _
  | .specials p e ps ch a, c, h => by
    simp only [InNode] at h
    rcases h with h | ⟨⟨sp, hl, hs⟩, ha⟩
    · subst h; exact H.target c
    · cases a with
      | none => simp only [InArgsO] at ha
      | some l =>
        simp only [InArgsO] at ha
        rw [renderNode_specials]
        simp only [hl]
        rcases hs with htr | ⟨raw, segs, hr, hpos, hfit⟩
        · rw [applySpec_transparent htr]
          unfold argsCatO
          exact vis_argsCat E t P H l c ha
        · rw [applySpec_fmt hr]
          refine emits_applyString_args H.up (info := ⟨.specials, ch, p, e⟩) (fun h => by cases h) hpos rfl hfit ?_
          intro st ts st' he
          have he' : argsEach E c l st = .ok (ts, st') := by
            have : (macThunks E c (some l)).each = argsEachO E c (some l) := rfl
            rw [this] at he
            unfold argsEachO at he
            exact he
          exact ⟨argsEach_length E c l st ts st' he', vis_argsEach E t P H l c ha st ts st' he'⟩
  | .math p e ps d o cl b, c, h => by
    simp only [InNode] at h
    rcases h with h | ⟨hm, hb⟩
    · subst h; exact H.target c
    · rw [renderNode_math]
      exact emits_mathText H.up H.strip H.indent hm (vis_body E t P H b c.enterEq hb) _ _ _ _ _ _
theorem vis_body (E : Env) (t : Node) (P : Str → Prop) (H : Carrier E t P) :
    ∀ (b : Option (List Node)) (c : Sls), InBody E t b → Emits P (renderBody E c b)
  | none, c, h => by simp only [InBody] at h
  | some ns, c, h => by
    simp only [InBody] at h
    unfold renderBody
    exact vis_list E t P H ns c none [] h
theorem vis_list (E : Env) (t : Node) (P : Str → Prop) (H : Carrier E t P) :
    ∀ (ns : List Node) (c : Sls) (prev : Option Node) (acc : Str), InList E t ns → Emits P (renderList E c prev acc ns)
  | [], c, prev, acc, h => by simp only [InList] at h
  | n :: ns, c, prev, acc, h => by
    intro st out st' hr
    unfold renderList at hr
    obtain ⟨pre, st1, _, hr⟩ := bind_ok hr
    obtain ⟨tx, st2, h2, hr⟩ := bind_ok hr
    simp only [InList] at h
    rcases h with h | h
    · have hP := vis_node E t P H n c h _ _ _ h2
      have hpre := renderList_prefix E c ns (some n) _ st2 out st' hr
      exact H.up _ _ ((infix_right (acc ++ pre) tx).trans hpre.isInfix) hP
    · exact vis_list E t P H ns c (some n) _ h _ _ _ hr
theorem vis_groupContents (E : Env) (t : Node) (P : Str → Prop) (H : Carrier E t P) :
    ∀ (a : Arg) (c : Sls), InArg E t a → Emits P (groupContents E c a)
  | .absent, c, h => by simp only [InArg] at h
  | .list _ _ ns, c, h => by
    simp only [InArg] at h
    unfold groupContents
    exact vis_list E t P H ns c none [] h
  | .node n, c, h => by
    cases n with
    | group p e ps o cl b =>
      simp only [InArg] at h
      unfold groupContents
      exact vis_body E t P H b c h
    | chars p e ps ch => simp only [InArg] at h; unfold groupContents; exact vis_node E t P H _ c h
    | comment p e ps cm post => simp only [InArg] at h; unfold groupContents; exact vis_node E t P H _ c h
    | mac p e ps name post a => simp only [InArg] at h; unfold groupContents; exact vis_node E t P H _ c h
    | env p e ps name a b => simp only [InArg] at h; unfold groupContents; exact vis_node E t P H _ c h
    | specials p e ps ch a => simp only [InArg] at h; unfold groupContents; exact vis_node E t P H _ c h
    | math p e ps d o cl b => simp only [InArg] at h; unfold groupContents; exact vis_node E t P H _ c h
theorem vis_argsCat (E : Env) (t : Node) (P : Str → Prop) (H : Carrier E t P) :
    ∀ (l : List Arg) (c : Sls), InArgs E t l → Emits P (argsCat E c l)
  | [], c, h => by simp only [InArgs] at h
  | a :: l, c, h => by
    intro st out st' hr
    unfold argsCat at hr
    obtain ⟨tx, st1, h1, hr⟩ := bind_ok hr
    obtain ⟨r, st2, h2, hr⟩ := bind_ok hr
    have := pure_ok hr
    cases this
    simp only [InArgs] at h
    rcases h with h | h
    · exact H.up _ _ (infix_left _ _) (vis_groupContents E t P H a c h _ _ _ h1)
    · exact H.up _ _ (infix_right _ _) (vis_argsCat E t P H l c h _ _ _ h2)
theorem vis_argsEach (E : Env) (t : Node) (P : Str → Prop) (H : Carrier E t P) :
    ∀ (l : List Arg) (c : Sls), InArgs E t l → ∀ st ts st', argsEach E c l st = .ok (ts, st') → ∃ x ∈ ts, P x
  | [], c, h => by simp only [InArgs] at h
  | a :: l, c, h => by
    intro st ts st' hr
    unfold argsEach at hr
    obtain ⟨tx, st1, h1, hr⟩ := bind_ok hr
    obtain ⟨r, st2, h2, hr⟩ := bind_ok hr
    have := pure_ok hr
    cases this
    simp only [InArgs] at h
    rcases h with h | h
    · exact ⟨tx, List.mem_cons_self, vis_groupContents E t P H a c h _ _ _ h1⟩
    · obtain ⟨x, hx, hP⟩ := vis_argsEach E t P H l c h _ _ _ h2
      exact ⟨x, List.mem_cons_of_mem _ hx, hP⟩
theorem vis_contentsAt (E : Env) (t : Node) (P : Str → Prop) (H : Carrier E t P) :
    ∀ (l : List Arg) (c : Sls) (k : Nat), InArgsAt E t k l → Emits P (contentsAt E c k l)
  | [], c, k, h => by cases k <;> simp only [InArgsAt] at h
  | a :: l, c, 0, h => by
    simp only [InArgsAt] at h
    unfold contentsAt
    exact vis_groupContents E t P H a c h
  | a :: l, c, k + 1, h => by
    simp only [InArgsAt] at h
    unfold contentsAt
    exact vis_contentsAt E t P H l c k h
end

/-- lifted to `render` -/
theorem vis_render (opts : Opts) (db : TextDb) (ctx : Ctx) (lib : Lib) (src : Str) (t : Node) (P : Str → Prop)
    (H : Carrier { opts := opts, db := db, ctx := ctx, lib := lib, src := src } t P) (ns : List Node)
    (h : InList { opts := opts, db := db, ctx := ctx, lib := lib, src := src } t ns) (out : Str)
    (hr : render opts db ctx lib src ns = .ok out) : P out := by
  unfold render at hr
  split at hr
  · cases hr
  · split at hr
    · rename_i tx st' hx
      cases hr
      exact vis_list _ t P H ns _ none [] h _ _ _ hx
    · cases hr

end Pylx.L2T.C12
