/-
  C16 — the pylatexenc-2 compatible entry points agree with the pylatexenc-3 parser objects.
  Theorems about `Pylx.Legacy` (model of the shims) over `Pylx.run` (model of `parse_content`),
  for every context, string, start position, parsing state and amount of fuel.
-/
import Pylx.Legacy
import PylxProofs.C01Tok
namespace Pylx.Legacy
open Pylx

/-! ### projections: what "the same nodes, positions and lengths" means -/

/-- the legacy tuple of a single node: `(node, node.pos, node.len)` -/
def tupleOf (n : Node) : LRes := .tuple (.node n) (some n.pos) (some (nodeLen n))

/-- `(nodelist, nodelist.pos, reader position - nodelist.pos)` -/
def projNodes : Ret → LRes
  | .ok (.list (some p) e ns) q => .tuple (.list (some p) e ns) (some p) (some ((q : Int) - (p : Int)))
  | .ok (.list none _ _) _ => .crash "TypeError"
  | .ok .none _ => .tuple .none none none
  | .ok _ _ => .crash "AttributeError"
  | .perr e => .perr e
  | .loopEnd _ => .crash "loopEnd"
  | .crash k => .crash k
  | .fuel => .fuel

def LRes.isTuple : LRes → Bool
  | .tuple _ _ _ => true
  | _ => false

def LRes.isPerr : LRes → Bool
  | .perr _ => true
  | _ => false

def retIsPerr : Ret → Bool
  | .perr _ => true
  | _ => false

/-! ### get_token -/

/-- `get_token(pos, include_brace_chars, environments, brackets_are_chars)` is `peek_token` of a fresh reader at
    `pos` under the parsing state with the extra delimiters / the environments flag: same token, same
    end-of-stream, same token error. -/
theorem C16_get_token (env : Env) (f : PSFields) (a : TokArgs) (pos : Nat) :
    getToken env f a pos = peekAt env (tokFields a f).normalize pos ∧
    (∀ t, getToken env f a pos = .tok t ↔ peekTok env.tol (mkPS (tokFields a f).normalize) env.s pos = .tok t) ∧
    (getToken env f a pos = .eos ↔ ∃ fs, peekTok env.tol (mkPS (tokFields a f).normalize) env.s pos = .eos fs) := by
  refine ⟨rfl, ?_, ?_⟩
  · intro t
    unfold getToken peekAt
    cases h : peekTok env.tol (mkPS (tokFields a f).normalize) env.s pos <;> simp
  · unfold getToken peekAt
    cases h : peekTok env.tol (mkPS (tokFields a f).normalize) env.s pos <;> simp

/-- the default call leaves the state alone when environments are enabled; `brackets_are_chars=False` adds `[ ]` -/
example : tokFields {} ({} : PSFields) = {} ∧
    (tokFields { bracketsAreChars := some false, environments := some false } ({} : PSFields)).groupDelims
      = [(['{'], ['}']), (['['], [']'])] := by decide

/-! ### get_latex_nodes -/

theorem nodesTuple_eq_proj (r : Ret) : nodesTuple r = projNodes r := by
  cases r with
  | ok res q =>
    cases res with
    | none => rfl
    | node n => rfl
    | list p e ns => cases p <;> rfl
    | args p e a => rfl
  | perr e => rfl
  | loopEnd e => rfl
  | crash k => rfl
  | fuel => rfl

theorem projNodes_perr {r : Ret} {e : PErr} : projNodes r = .perr e ↔ r = .perr e := by
  cases r with
  | ok res q =>
    cases res with
    | none => simp [projNodes]
    | node n => simp [projNodes]
    | list p e' ns => cases p <;> simp [projNodes]
    | args p e' a => simp [projNodes]
  | perr e' => simp [projNodes]
  | loopEnd e' => simp [projNodes]
  | crash k => simp [projNodes]
  | fuel => simp [projNodes]

/-- `get_latex_nodes(pos, stop_upon_closing_brace, stop_upon_end_environment, stop_upon_closing_mathmode,
    read_max_nodes)`: the tuple is `(nodes, nodes.pos, reader position − nodes.pos)` of
    `parse_content(LatexGeneralNodesParser(stop_token_condition, stop_nodelist_condition, …))` under the translated
    parsing state; it succeeds exactly when the parser does and raises the same error otherwise. -/
theorem C16_get_latex_nodes (env : Env) (sw : Sw) (n : Nat) (f f' : PSFields) (a : NodesArgs) (g : XGen) (pos : Nat)
    (h : nodesSetup a f = some (f', g)) :
    getLatexNodes env sw n f a pos = projNodes (xparse env sw n g f' pos) ∧
    (∀ p e ns q, xparse env sw n g f' pos = .ok (.list (some p) e ns) q →
        getLatexNodes env sw n f a pos = .tuple (.list (some p) e ns) (some p) (some ((q : Int) - (p : Int)))) ∧
    (∀ e, getLatexNodes env sw n f a pos = .perr e ↔ xparse env sw n g f' pos = .perr e) := by
  have h1 : getLatexNodes env sw n f a pos = projNodes (xparse env sw n g f' pos) := by
    unfold getLatexNodes
    rw [h]
    exact nodesTuple_eq_proj _
  refine ⟨h1, ?_, ?_⟩
  · intro p e ns q hq
    rw [h1, hq]; rfl
  · intro e
    rw [h1]
    exact projNodes_perr

/-- the translation for the four documented closing characters and for explicit pairs always succeeds -/
example : (nodesSetup { brace := some (.closer ']'), maxNodes := some 2 } ({} : PSFields)).isSome = true ∧
          (nodesSetup { brace := some (.pair ['<'] ['>']) } ({} : PSFields)).isSome = true := by decide

/-! ### the extended collector is conservative -/

theorem xFinish_none (sw : Sw) (f : PSFields) (st : LoopSt) (stopTok : Option Token) (err : Option PErr) :
    xFinish sw none f st stopTok err = loopFinish f st stopTok err := by
  simp [xFinish, nlStop]

theorem xloopRead_none (env : Env) (sw : Sw) (f : PSFields) (st : LoopSt) :
    xloopRead env sw none f st = loopRead env f st := by
  unfold xloopRead loopRead
  cases peekTok env.tol (mkPS f) env.s st.pos with
  | tok t => rfl
  | eos fs => simp only [xFinish_none]
  | err w ep t r => simp only [xFinish_none]

theorem afterChild_congr {r1 r2 : Task → Ret} {f : PSFields} {s1 s2 : StopTok} {child : ChildPS} (st : LoopSt) (b : Bool) (x : Ret)
    (hloop : ∀ st', r1 (.loop f s1 child st') = r2 (.loop f s2 child st')) :
    afterChild r1 f s1 child st b x = afterChild r2 f s2 child st b x := by
  unfold afterChild
  cases x with
  | ok res q =>
    cases res with
    | none => simp only [hloop]
    | node nd => simp only [hloop]
    | list a b c => rfl
    | args a b c => rfl
  | perr e => rfl
  | loopEnd e => rfl
  | crash k => rfl
  | fuel => rfl

theorem loopDispatch_congr (env : Env) {r1 r2 : Task → Ret} {f : PSFields} {s1 s2 : StopTok} {child : ChildPS}
    (st : LoopSt) (t : Token)
    (hpc : ∀ p f' pos, r1 (.pc p f' pos) = r2 (.pc p f' pos))
    (hloop : ∀ st', r1 (.loop f s1 child st') = r2 (.loop f s2 child st')) :
    loopDispatch env r1 f s1 child st t = loopDispatch env r2 f s2 child st t := by
  unfold loopDispatch
  cases hk : t.kind <;> simp only
  · split
    · split
      · exact hloop _
      · rfl
    · rw [hpc]; exact afterChild_congr _ _ _ hloop
  · split
    · split
      · exact hloop _
      · rfl
    · rw [hpc]; exact afterChild_congr _ _ _ hloop
  · exact hloop _
  · rw [hpc]; exact afterChild_congr _ _ _ hloop
  · split
    · rw [hpc]; exact afterChild_congr _ _ _ hloop
    · rfl
  · split
    · rw [hpc]; exact afterChild_congr _ _ _ hloop
    · rfl
  · split
    · rfl
    · rw [hpc]; exact afterChild_congr _ _ _ hloop

/-- without a node-list stop condition the extended collector is the collector of `Pylx.Parse` -/
theorem xloop_conservative (env : Env) (sw : Sw) (g : XGen) (stop : StopTok) (f : PSFields)
    (hs : g.stop = stop.test) (hm : g.maxNodes = none) :
    ∀ n st, xloop env sw g f n st = run env n (.loop f stop g.child st) := by
  intro n
  induction n with
  | zero => intro st; rfl
  | succ n ih =>
    intro st
    show xloopStep env sw (run env n) (xloop env sw g f n) g f st = loopStep env (run env n) f stop g.child st
    unfold xloopStep loopStep
    rw [hm, xloopRead_none]
    cases loopRead env f st with
    | inr r => rfl
    | inl t =>
      simp only [hs, xFinish_none]
      split
      · rfl
      · split
        · exact ih _
        · simp only [nlStop, Bool.and_false]
          apply loopDispatch_congr
          · intro p f' pos; rfl
          · intro st'
            simp only [xrec, nlStop, Bool.and_false]
            exact ih st'

/-! ### the stop token of a collector run satisfies the stop condition -/

def StopOk (g : XGen) : Ret → Prop
  | .loopEnd e => ∀ t, e.stopTok = some t → g.stop t = true
  | _ => True

theorem loopFinish_stopOk (g : XGen) (f : PSFields) (st : LoopSt) (err : Option PErr) : StopOk g (loopFinish f st none err) := by
  intro t h; cases h

theorem xFinish_stopOk (g : XGen) (sw : Sw) (mx : Option Nat) (f : PSFields) (st : LoopSt) (tk : Option Token) (err : Option PErr)
    (h : ∀ t, tk = some t → g.stop t = true) : StopOk g (xFinish sw mx f st tk err) := by
  unfold xFinish
  split
  · trivial
  · exact h

theorem afterChild_stopOk (g : XGen) {rec : Task → Ret} {f : PSFields} {s : StopTok} {child : ChildPS} (st : LoopSt) (b : Bool) (x : Ret)
    (hloop : ∀ st', StopOk g (rec (.loop f s child st'))) : StopOk g (afterChild rec f s child st b x) := by
  unfold afterChild
  cases x with
  | ok res q =>
    cases res with
    | none => dsimp only; split; exact hloop _; trivial
    | node nd => exact hloop _
    | list a b c => trivial
    | args a b c => trivial
  | perr e => exact loopFinish_stopOk g _ _ _
  | loopEnd e => trivial
  | crash k => trivial
  | fuel => trivial

theorem loopDispatch_stopOk (g : XGen) (env : Env) {rec : Task → Ret} {f : PSFields} {s : StopTok} {child : ChildPS}
    (st : LoopSt) (t : Token) (hloop : ∀ st', StopOk g (rec (.loop f s child st'))) :
    StopOk g (loopDispatch env rec f s child st t) := by
  have fin : ∀ e, StopOk g (loopFinish f st none e) := fun e => loopFinish_stopOk g _ _ _
  unfold loopDispatch
  cases hk : t.kind <;> simp only
  · trivial
  · split
    · split
      · exact hloop _
      · exact fin _
    · exact afterChild_stopOk g _ _ _ hloop
  · split
    · split
      · exact hloop _
      · exact fin _
    · exact afterChild_stopOk g _ _ _ hloop
  · exact fin _
  · exact hloop _
  · exact afterChild_stopOk g _ _ _ hloop
  · exact fin _
  · split
    · exact afterChild_stopOk g _ _ _ hloop
    · exact fin _
  · split
    · exact afterChild_stopOk g _ _ _ hloop
    · exact fin _
  · split
    · trivial
    · exact afterChild_stopOk g _ _ _ hloop

theorem xloop_stopOk (env : Env) (sw : Sw) (g : XGen) (f : PSFields) : ∀ n st, StopOk g (xloop env sw g f n st) := by
  intro n
  induction n with
  | zero => intro st; trivial
  | succ n ih =>
    intro st
    show StopOk g (xloopStep env sw (run env n) (xloop env sw g f n) g f st)
    unfold xloopStep xloopRead
    cases peekTok env.tol (mkPS f) env.s st.pos with
    | err w ep t r => exact xFinish_stopOk g _ _ _ _ _ _ (fun t h => by cases h)
    | eos fs =>
      dsimp only
      by_cases hfs : fs.isEmpty = true
      · simp only [hfs, ↓reduceIte]
        exact xFinish_stopOk g _ _ _ _ _ _ (fun t h => by cases h)
      · simp only [hfs, Bool.false_eq_true, ↓reduceIte]
        split
        · rename_i hst
          exact xFinish_stopOk g _ _ _ _ _ _ (fun t' h => by rw [← Option.some.inj h]; exact hst)
        · split
          · exact ih _
          · split
            · intro t h; cases h
            · apply loopDispatch_stopOk
              intro st'
              simp only [xrec]
              split
              · intro t h; cases h
              · exact ih _
    | tok t =>
      dsimp only
      split
      · rename_i hst
        exact xFinish_stopOk g _ _ _ _ _ _ (fun t' h => by rw [← Option.some.inj h]; exact hst)
      · split
        · exact ih _
        · split
          · intro t h; cases h
          · apply loopDispatch_stopOk
            intro st'
            simp only [xrec]
            split
            · intro t h; cases h
            · exact ih _

/-- `LatexGeneralNodesParser(stop…)` built by the shims without `stop_nodelist_condition` is the parser
    `.general stop require child` of `Pylx.Parse`, for every stop token the latter can express. -/
theorem C16_collector_conservative (env : Env) (sw : Sw) (n : Nat) (g : XGen) (stop : StopTok) (require : Bool)
    (f : PSFields) (pos : Nat)
    (hs : g.stop = stop.test) (hm : g.maxNodes = none) (hr : g.mustMeet = (require && stop.isSome)) :
    xparse env sw n g f pos = run env (n + 1) (.pc (.general stop require g.child) f pos) := by
  show parseContent env.tol (rawXGeneral env sw n g f pos)
     = parseContent env.tol (rawGeneral (run env n) stop require g.child f pos)
  congr 1
  unfold rawXGeneral rawGeneral
  have hso := xloop_stopOk env sw g f n { pos := pos }
  rw [xloop_conservative env sw g stop f hs hm] at hso ⊢
  cases hrun : run env n (.loop f stop g.child { pos := pos }) with
  | loopEnd e =>
    rw [hrun] at hso
    simp only [retOfLoop, hr]
    cases he : e.err with
    | some pe => rfl
    | none =>
      dsimp only
      cases hst : e.stopTok with
      | none => simp only [Option.isNone_none, Bool.and_true]; split <;> rfl
      | some t =>
        have := hso t hst
        rw [hs] at this
        have hsome : stop.isSome = true := by
          cases stop <;> simp_all [StopTok.test, StopTok.isSome]
        simp [hsome]
  | ok r q => rfl
  | perr e => rfl
  | crash k => rfl
  | fuel => rfl

theorem stops_none : (({} : Stops).test) = StopTok.none.test := by
  funext t; simp [Stops.test, StopTok.test]

theorem stops_brace (c : Str) : (({ brace := some c } : Stops).test) = (StopTok.braceClose c).test := by
  funext t; simp [Stops.test, StopTok.test]

theorem stops_endEnv (nm : Str) : (({ endEnv := some nm } : Stops).test) = (StopTok.endEnv nm).test := by
  funext t; simp [Stops.test, StopTok.test]

/-- `get_latex_nodes(pos)` = `parse_content(LatexGeneralNodesParser())` -/
theorem C16_get_latex_nodes_plain (env : Env) (sw : Sw) (n : Nat) (f : PSFields) (pos : Nat) :
    getLatexNodes env sw n f {} pos = projNodes (run env (n + 1) (.pc (.general .none false .same) f pos)) := by
  have h : nodesSetup {} f = some (f, { stop := ({} : Stops).test, mustMeet := false, maxNodes := none }) := rfl
  rw [(C16_get_latex_nodes env sw n f f {} _ pos h).1]
  rw [C16_collector_conservative env sw n _ .none false f pos stops_none rfl rfl]

/-- `get_latex_nodes(pos, stop_upon_closing_brace=c)`: the general-nodes parser that must stop at the closing
    delimiter (as `LatexDelimitedGroupParser` builds it for the group contents), under the state with `(o, c)` added -/
theorem C16_get_latex_nodes_brace (env : Env) (sw : Sw) (n : Nat) (f : PSFields) (b : BraceArg) (o c : Str) (pos : Nat)
    (hb : bracePair b = some (o, c)) :
    getLatexNodes env sw n f { brace := some b } pos =
      projNodes (run env (n + 1) (.pc (.general (.braceClose c) true .same)
        (if f.groupDelims.contains (o, c) then f else { f with groupDelims := f.groupDelims ++ [(o, c)] }).normalize pos)) := by
  have h : nodesSetup { brace := some b } f = some
      ((if f.groupDelims.contains (o, c) then f else { f with groupDelims := f.groupDelims ++ [(o, c)] }).normalize,
       { stop := ({ brace := some c } : Stops).test, mustMeet := true, maxNodes := none }) := by
    simp [nodesSetup, hb]
  rw [(C16_get_latex_nodes env sw n f _ _ _ pos h).1]
  rw [C16_collector_conservative env sw n _ (.braceClose c) true _ pos (stops_brace c) rfl rfl]

/-- `get_latex_nodes(pos, stop_upon_end_environment=name)`: the parser `LatexEnvironmentBodyContentsParser` runs -/
theorem C16_get_latex_nodes_end_environment (env : Env) (sw : Sw) (n : Nat) (f : PSFields) (nm : Str) (pos : Nat) :
    getLatexNodes env sw n f { endEnv := some nm } pos =
      projNodes (run env (n + 1) (.pc (.general (.endEnv nm) true .same) f pos)) := by
  have h : nodesSetup { endEnv := some nm } f = some
      (f, { stop := ({ endEnv := some nm } : Stops).test, mustMeet := true, maxNodes := none }) := rfl
  rw [(C16_get_latex_nodes env sw n f _ _ _ pos h).1]
  rw [C16_collector_conservative env sw n _ (.endEnv nm) true _ pos (stops_endEnv nm) rfl rfl]

/-- `get_latex_nodes(pos, stop_upon_closing_mathmode=d)`: the stop condition is "an inline or a display math token
    `d`" — the disjunction of the two stop tokens `LatexMathParser` uses -/
theorem C16_get_latex_nodes_mathmode (env : Env) (sw : Sw) (n : Nat) (f : PSFields) (d : Str) (pos : Nat) :
    ∃ g : XGen, nodesSetup { math := some d } f = some (f, g) ∧
      g.stop = (fun t => (StopTok.mathClose false d).test t || (StopTok.mathClose true d).test t) ∧
      g.mustMeet = true ∧ g.maxNodes = none ∧
      getLatexNodes env sw n f { math := some d } pos = projNodes (xparse env sw n g f pos) := by
  refine ⟨{ stop := ({ math := some d } : Stops).test, mustMeet := true, maxNodes := none }, rfl, ?_, rfl, rfl, ?_⟩
  · funext t
    simp only [Stops.test, StopTok.test, Bool.false_or, Bool.false_eq_true, if_false, if_true]
    cases (t.kind == TokKind.mathInline) <;> cases (t.kind == TokKind.mathDisplay) <;> cases (t.arg == d) <;> rfl
  · exact (C16_get_latex_nodes env sw n f f _ _ pos rfl).1

/-! ### get_latex_expression, get_latex_braced_group, get_latex_environment, get_latex_maybe_optional_arg -/

theorem stripArgs_pos (n : Node) : (stripArgs n).pos = n.pos ∧ (stripArgs n).posEnd = n.posEnd := by
  cases n <;> exact ⟨rfl, rfl⟩

/-- the documented empty result of `get_latex_expression` at `pos` -/
def exprEmpty (tol : Bool) (sb : Option Bool) (f : PSFields) (pos : Nat) : LRes :=
  if tol || sb == some false then tupleOf (Node.chars pos pos (psInfo f) []) else .tuple .none (some pos) (some 0)

/-- `get_latex_expression(pos, strict_braces)` against `parse_content(LatexExpressionParser(…))`:
    a node → `(node with nodeargd erased, node.pos, node.len)`; the "closing brace" error raised by this very parser
    (`closeBraceMarker`: kind `closing_latex_group` and a recovery token; the re-wrapped error of a nested
    expression parser has none) with `strict_braces` not `True` → the documented empty result; every other error —
    in particular a nested closing-brace error — is raised unchanged. -/
theorem C16_expression (env : Env) (n : Nat) (f : PSFields) (sb : Option Bool) (pos : Nat) :
    (∀ nd q, run env n (.pc (.expression true) f pos) = .ok (.node nd) q →
        getLatexExpression env n f sb pos = tupleOf (stripArgs nd)) ∧
    (∀ e, run env n (.pc (.expression true) f pos) = .perr e →
        getLatexExpression env n f sb pos =
          if closeBraceMarker e && !(sb == some true) then exprEmpty env.tol sb f pos else .perr e) ∧
    (∀ e, getLatexExpression env n f sb pos = .perr e → run env n (.pc (.expression true) f pos) = .perr e) := by
  refine ⟨?_, ?_, ?_⟩
  · intro nd q h
    unfold getLatexExpression
    rw [h]; rfl
  · intro e h
    unfold getLatexExpression
    rw [h]
    dsimp only
    split
    · unfold exprPost exprEmpty tupleOf nodeLen
      dsimp only
      split <;> simp [Node.pos, Node.posEnd]
    · rfl
  · intro e h
    unfold getLatexExpression at h
    cases hr : run env n (.pc (.expression true) f pos) with
    | ok res q =>
      rw [hr] at h
      cases res <;> simp [exprPost] at h
      all_goals (split at h <;> cases h)
    | perr e' =>
      rw [hr] at h
      dsimp only at h
      split at h
      · simp only [exprPost] at h
        split at h <;> cases h
      · cases h; rfl
    | loopEnd e' => rw [hr] at h; cases h
    | crash k => rw [hr] at h; cases h
    | fuel => rw [hr] at h; cases h

def nestCtx : Ctx := { macros := [(['m'], .std [⟨.m, .none⟩])], unknownMacro := some (.std []) }
def nestEnv (s : String) : Env := { tol := false, ctx := nestCtx, s := s.toList }

/-- the special case applies to the parser's own error only: at `}` the default call returns `(None, pos, 0)` and
    `strict_braces=False` the dummy node; on `{\m}` (strict mode, `\m` takes one argument) the closing-brace error
    comes from the nested expression parser, re-wrapped, and the shim raises it whatever `strict_braces` is -/
example :
    (getLatexExpression (nestEnv "}") 14 {} none 0).isTuple = true ∧
    (getLatexExpression (nestEnv "}") 14 {} (some false) 0).isTuple = true ∧
    (getLatexExpression (nestEnv "}") 14 {} (some true) 0).isPerr = true ∧
    (getLatexExpression (nestEnv "{\\m}") 14 {} none 0).isPerr = true ∧
    (getLatexExpression (nestEnv "{\\m}") 14 {} (some false) 0).isPerr = true := by decide

/-- `get_latex_braced_group(pos, brace_type)`: `ValueError` exactly for the brace types that name no pair; otherwise
    `(node, node.pos, node.len)` of `LatexDelimitedGroupParser(delimiters=(o, c), allow_pre_space=True)`,
    `(None, pos, 0)` when that returns `None`, the same error when it fails. -/
theorem C16_braced_group (env : Env) (n : Nat) (f : PSFields) (bt : BraceType) (pos : Nat) :
    (braceTypePair bt = none → getLatexBracedGroup env n f bt pos = .valueErr) ∧
    (∀ o c, braceTypePair bt = some (o, c) →
      (∀ nd q, run env n (.pc (.group (.pair o c) false true) f pos) = .ok (.node nd) q →
          getLatexBracedGroup env n f bt pos = tupleOf nd) ∧
      (∀ q, run env n (.pc (.group (.pair o c) false true) f pos) = .ok .none q →
          getLatexBracedGroup env n f bt pos = .tuple .none (some pos) (some 0)) ∧
      (∀ e, run env n (.pc (.group (.pair o c) false true) f pos) = .perr e ↔
          getLatexBracedGroup env n f bt pos = .perr e)) := by
  refine ⟨?_, ?_⟩
  · intro h; unfold getLatexBracedGroup; rw [h]
  · intro o c h
    unfold getLatexBracedGroup; rw [h]; dsimp only
    refine ⟨?_, ?_, ?_⟩
    · intro nd q hr; rw [hr]; rfl
    · intro q hr; rw [hr]; rfl
    · intro e
      cases hr : run env n (.pc (.group (.pair o c) false true) f pos) with
      | ok res q =>
        cases res with
        | none => simp [nodeTuple]
        | node nd => simp [nodeTuple]
        | list p e' ns => cases p <;> cases e' <;> simp [nodeTuple]
        | args p e' a => simp [nodeTuple]
      | perr e' => simp [nodeTuple]
      | loopEnd e' => simp [nodeTuple]
      | crash k => simp [nodeTuple]
      | fuel => simp [nodeTuple]

example : braceTypePair (.str ['(']) = some (['('], [')']) ∧ braceTypePair (.str ['<', '>']) = some (['<'], ['>'])
    ∧ braceTypePair (.str ['x']) = none := by decide

/-- `get_latex_environment(pos, environmentname)` against `parse_content(LatexSingleNodeParser())`: exactly one
    environment node (with the requested name, if one is given) → `(node, node.pos, node.len)`; any other successful
    result → the shim's own parse error; an error of the parser is raised unchanged. -/
theorem C16_environment (env : Env) (sw : Sw) (n : Nat) (f : PSFields) (name : Option Str) (pos : Nat) :
    (∀ lp le p e ps nm a b q, xparse env sw n singleNode f pos = .ok (.list lp le [Node.env p e ps nm a b]) q →
        (name = none ∨ name = some nm) →
        getLatexEnvironment env sw n f name pos = tupleOf (Node.env p e ps nm a b)) ∧
    (∀ lp le p e ps nm a b q want, xparse env sw n singleNode f pos = .ok (.list lp le [Node.env p e ps nm a b]) q →
        name = some want → nm ≠ want → getLatexEnvironment env sw n f name pos = .shimErr "environment-name") ∧
    (∀ e, xparse env sw n singleNode f pos = .perr e ↔ getLatexEnvironment env sw n f name pos = .perr e) := by
  refine ⟨?_, ?_, ?_⟩
  · intro lp le p e ps nm a b q h hn
    unfold getLatexEnvironment; rw [h]
    rcases hn with hn | hn <;> subst hn
    · rfl
    · simp [envTuple, tupleOf, nodeLen, Node.pos, Node.posEnd]
  · intro lp le p e ps nm a b q want h hn hne
    unfold getLatexEnvironment; rw [h]; subst hn
    simp [envTuple, hne]
  · intro e
    unfold getLatexEnvironment
    cases hr : xparse env sw n singleNode f pos with
    | perr e' => simp [envTuple]
    | loopEnd e' => simp [envTuple]
    | crash k => simp [envTuple]
    | fuel => simp [envTuple]
    | ok res q =>
      simp only [reduceCtorEq, false_iff]
      intro h
      unfold envTuple at h
      split at h
      · split at h
        · split at h <;> cases h
        · cases h
      all_goals first | cases h | skip
      all_goals simp_all

/-- `get_latex_maybe_optional_arg(pos)` against the optional square-bracket group parser: `None` ↔ `None`,
    node → `(node, node.pos, node.len)`, error ↔ the same error -/
theorem C16_maybe_optional_arg (env : Env) (sw : Sw) (n : Nat) (f : PSFields) (pos : Nat) :
    (∀ q, run env n (.pc (.group (.pair ['['] [']']) true sw.optPre) f pos) = .ok .none q →
        getLatexMaybeOptionalArg env sw n f pos = .noneRes) ∧
    (∀ nd q, run env n (.pc (.group (.pair ['['] [']']) true sw.optPre) f pos) = .ok (.node nd) q →
        getLatexMaybeOptionalArg env sw n f pos = tupleOf nd) ∧
    (∀ e, run env n (.pc (.group (.pair ['['] [']']) true sw.optPre) f pos) = .perr e →
        getLatexMaybeOptionalArg env sw n f pos = .perr e) := by
  refine ⟨?_, ?_, ?_⟩
  · intro q h; unfold getLatexMaybeOptionalArg; rw [h]; rfl
  · intro nd q h; unfold getLatexMaybeOptionalArg; rw [h]; rfl
  · intro e h; unfold getLatexMaybeOptionalArg; rw [h]; rfl

/-! ### spellings of an argument specification -/

/-- `std_macro(name, optarg, numargs)`, `std_macro(name, argspec)`, `std_macro(name, None, argspec)` and
    `MacroSpec(name, argspec)` build the same arguments parser -/
theorem C16_std_macro (sw : Sw) (optarg : Bool) (k : Nat) (a : Str) :
    buildSpec sw (.stdOptNum optarg k) = buildSpec sw (.stdStr (optNumStr optarg k)) ∧
    buildSpec sw (.stdStr a) = buildSpec sw (.newStr a) ∧
    buildSpec sw (.stdNoneStr a) = buildSpec sw (.newStr a) := ⟨rfl, rfl, rfl⟩

example : buildSpec Sw.asIs (.stdOptNum true 2) = .new (.std [⟨.o true, .none⟩, ⟨.m, .none⟩, ⟨.m, .none⟩]) := by decide

/-- repaired: `MacroSpec(name, args_parser='argspec')` is `MacroSpec(name, 'argspec')` -/
theorem C16_args_parser_string (sw : Sw) (h : sw.f22 = true) (a : Str) :
    buildSpec sw (.argsParserStr a) = buildSpec sw (.newStr a) := by
  simp [buildSpec, h]

/-! ### the code as it is: refutations on concrete inputs -/

def wCtx : Ctx := { unknownMacro := some (.std []) }
def wEnv (tol : Bool) (s : String) : Env := { tol := tol, ctx := wCtx, s := s.toList }

def retArgs : Ret → Option (Option Nat)
  | .ok (.args _ _ l) _ => some (some l.length)
  | .ok .none _ => some none
  | _ => none

/-- F22 (as is): the argument string given through `args_parser=` is dropped -/
theorem C16_F22_as_is : buildSpec Sw.asIs (.argsParserStr ['{']) ≠ buildSpec Sw.asIs (.newStr ['{']) := by decide

/-- F23 (as is): `\m` at end of input with argspec `'*'`: the legacy parser yields `nodeargd = None`, the new one `[None]`;
    with `'*{'` the legacy parser does not fail where the new one does -/
theorem C16_F23_as_is :
    retArgs (parseArgsVia (wEnv false "\\m") Sw.asIs 12 {} {} (.posObj ['*']) 2) = some none ∧
    retArgs (parseArgsVia (wEnv false "\\m") Sw.asIs 12 {} {} (.newStr ['*']) 2) = some (some 1) ∧
    retArgs (parseArgsVia (wEnv false "\\m") Sw.repaired 12 {} {} (.posObj ['*']) 2) = some (some 1) ∧
    retArgs (parseArgsVia (wEnv false "\\m") Sw.asIs 12 {} {} (.posObj ['*', '{']) 2) = some none ∧
    retIsPerr (parseArgsVia (wEnv false "\\m") Sw.asIs 12 {} {} (.newStr ['*', '{']) 2) = true := by decide

/-- as is: in strict mode `{\m}` with argspec `'{'`: the legacy parser accepts the closing brace as an empty argument,
    the new parser fails -/
theorem C16_strict_brace_as_is :
    retArgs (parseArgsVia (wEnv false "{\\m}") Sw.asIs 12 {} {} (.posObj ['{']) 3) = some (some 1) ∧
    retIsPerr (parseArgsVia (wEnv false "{\\m}") Sw.asIs 12 {} {} (.newStr ['{']) 3) = true ∧
    retIsPerr (parseArgsVia (wEnv false "{\\m}") Sw.repaired 12 {} {} (.posObj ['{']) 3) = true := by decide

def firstArgPresent : Ret → Option Bool
  | .ok (.args _ _ (.absent :: _)) _ => some false
  | .ok (.args _ _ (_ :: _)) _ => some true
  | _ => none

/-- as is: `\. [b]` with argspec `'['`: whitespace before the bracket — the legacy parser sees no optional argument -/
theorem C16_opt_pre_space_as_is :
    firstArgPresent (parseArgsVia (wEnv false "\\. [b]") Sw.asIs 14 {} {} (.posObj ['[']) 2) = some false ∧
    firstArgPresent (parseArgsVia (wEnv false "\\. [b]") Sw.asIs 14 {} {} (.newStr ['[']) 2) = some true ∧
    firstArgPresent (parseArgsVia (wEnv false "\\. [b]") Sw.repaired 14 {} {} (.posObj ['[']) 2) = some true := by decide

def LRes.isCrash : LRes → Bool
  | .crash _ => true
  | _ => false

/-- as is: `get_latex_nodes(read_max_nodes=1)` on `ab`: the collector's `ReachedStoppingCondition` escapes from
    `finalize()`; repaired: one chars node of length 2 -/
theorem C16_stop_at_end_as_is :
    (getLatexNodes (wEnv false "ab") Sw.asIs 12 {} { maxNodes := some 1 } 0).isCrash = true ∧
    (getLatexNodes (wEnv false "ab") Sw.repaired 12 {} { maxNodes := some 1 } 0).isTuple = true ∧
    (getLatexEnvironment (wEnv false "ab") Sw.asIs 12 {} none 0).isCrash = true := by decide

/-! ### two argument algorithms: `MacroStandardArgsParser.parse_args` and `LatexArgumentsParser.parse` -/

def specOf : LArgT → ArgSpec
  | .mand => ⟨.m, .none⟩
  | .opt => ⟨.o true, .none⟩
  | .star => ⟨.s, .none⟩

theorem strSpecs_of_strLArgs : ∀ (a : Str) (l : List LArgT), strLArgs a = some l → strSpecs a = some (l.map specOf) := by
  intro a
  induction a with
  | nil => intro l h; cases h; rfl
  | cons c cs ih =>
    intro l h
    unfold strLArgs at h
    unfold strSpecs
    unfold charLArg at h
    unfold charSpec
    by_cases h1 : (c == '{') = true
    · simp only [h1, if_true] at h ⊢
      cases hl : strLArgs cs with
      | none => simp [hl] at h
      | some l' => simp only [hl] at h; cases h; simp [ih l' hl, specOf]
    · by_cases h2 : (c == '[') = true
      · simp only [h1, h2, if_true, if_false, Bool.false_eq_true] at h ⊢
        cases hl : strLArgs cs with
        | none => simp [hl] at h
        | some l' => simp only [hl] at h; cases h; simp [ih l' hl, specOf]
      · by_cases h3 : (c == '*') = true
        · simp only [h1, h2, h3, if_true, if_false, Bool.false_eq_true] at h ⊢
          cases hl : strLArgs cs with
          | none => simp [hl] at h
          | some l' => simp only [hl] at h; cases h; simp [ih l' hl, specOf]
        · simp [h1, h2, h3] at h

def stripArg : Arg → Arg
  | .node n => .node (stripArgs n)
  | a => a

/-- agreement of the two results: success with the same argument nodes (a bare macro / specials argument has its
    `nodeargd` erased, the reading fixed for C16) and the same final position; failure with the same error -/
def Agree (pos0 : Nat) (L : Raw) (N : Ret) : Prop :=
  match N with
  | .ok (.args _ _ as) q => L = .ret (.ok (.args (some pos0) (some q) (as.map stripArg)) q)
  | .perr e => L = .ret (.perr e)
  | _ => True

/-- facts about the parser model and the tokenizer that the equivalence uses (strict mode) -/
structure ParserFacts (env : Env) (m : Nat) (f : PSFields) : Prop where
  /-- the input has no lexical error under `f` -/
  lex : ∀ p w ep t r, peekTok false (mkPS f) env.s p ≠ .err w ep t r
  /-- a successful expression parse returns a node and leaves the reader at its end -/
  expr : ∀ p res q, run env m (.pc (.expression true) f p) = .ok res q → ∃ nd, res = .node nd ∧ nd.posEnd = q
  /-- a successful optional-group parse returns nothing and does not move, or a node and the reader at its end
      (an instance of `C01_contract`) -/
  group : ∀ p res q, run env m (.pc (.group (.pair ['['] [']']) true true) f p) = .ok res q →
      (res = .none ∧ q = p) ∨ ∃ nd, res = .node nd ∧ nd.posEnd = q ∧ stripArgs nd = nd
  /-- a star is read as the one-character token `*` (it is not declared as specials) -/
  star : ∀ p t, peekTok false (mkPS f) env.s p = .tok t →
      ((t.kind == .char && t.arg.head? == some '*') = ((t.kind == .char || t.kind == .specials) && t.arg == ['*'])) ∧
      (t.arg = ['*'] → t.posEnd = t.pos + 1)

/-- the full statement: no side hypotheses beyond strict mode, a normalized state with environments enabled, and
    the repaired code -/
def C16_legacy_args_full : Prop :=
  ∀ (env : Env), env.tol = false → ∀ (sw : Sw), sw.f23 = true → sw.strictBrace = true → sw.optPre = true →
  ∀ (f : PSFields), f.normalize = f → f.enEnvs = true → ¬ f.specials.contains ['*'] →
  ∀ (a : Str) (l : List LArgT), strLArgs a = some l → ∀ (n pos : Nat),
    Agree pos (rawLegacyArgs env sw (n + 1) f f { spec := l } pos) (run env (n + 2) (.pc (.arguments (newOfStr a)) f pos))

section steps
variable {env : Env} {sw : Sw} {m : Nat} {f : PSFields} {la : LArgs}

theorem toNat_end (a b : Nat) : (((a : Int) + ((b : Int) - (a : Int))).toNat) = b := by omega

theorem step_mand (htol : env.tol = false) (hsb : sw.strictBrace = true) (hmm : la.mathModes = none) (j p : Nat) :
    (∀ nd q, run env m (.pc (.expression true) f p) = .ok (.node nd) q → nd.posEnd = q →
      legacyArgStep env sw m f f la j .mand p = .next (.node (stripArgs nd)) q) ∧
    (∀ e, run env m (.pc (.expression true) f p) = .perr e →
      legacyArgStep env sw m f f la j .mand p = .stop (.perr e)) := by
  constructor
  · intro nd q h hq
    simp only [legacyArgStep, mathModeAt, hmm, innerFields, getLatexExpression, h, exprPost, nodeLen,
      (stripArgs_pos nd).1, (stripArgs_pos nd).2, toNat_end, hq]
  · intro e h
    simp [legacyArgStep, mathModeAt, hmm, innerFields, getLatexExpression, h, hsb, htol]

theorem step_opt (hop : sw.optPre = true) (hns : la.optNoSpace = false) (hmm : la.mathModes = none) (j p : Nat) :
    (∀ q, run env m (.pc (.group (.pair ['['] [']']) true true) f p) = .ok .none q →
      legacyArgStep env sw m f f la j .opt p = .next .absent p) ∧
    (∀ nd q, run env m (.pc (.group (.pair ['['] [']']) true true) f p) = .ok (.node nd) q → nd.posEnd = q →
      legacyArgStep env sw m f f la j .opt p = .next (.node nd) q) ∧
    (∀ e, run env m (.pc (.group (.pair ['['] [']']) true true) f p) = .perr e →
      legacyArgStep env sw m f f la j .opt p = .stop (.perr e)) := by
  refine ⟨?_, ?_, ?_⟩
  · intro q h
    simp [legacyArgStep, mathModeAt, hmm, innerFields, hns, getLatexMaybeOptionalArg, hop, h, optTuple]
  · intro nd q h hq
    simp [legacyArgStep, mathModeAt, hmm, innerFields, hns, getLatexMaybeOptionalArg, hop, h, optTuple, nodeTuple,
      nodeLen, toNat_end, hq]
  · intro e h
    simp [legacyArgStep, mathModeAt, hmm, innerFields, hns, getLatexMaybeOptionalArg, hop, h, optTuple, nodeTuple]

theorem tokFields_default (hen : f.enEnvs = true) : tokFields {} f = f := by
  simp [tokFields, hen]

theorem step_star (htol : env.tol = false) (h23 : sw.f23 = true) (hmm : la.mathModes = none)
    (hfn : f.normalize = f) (hen : f.enEnvs = true) (k : Nat) (hf : ParserFacts env m f) (j p : Nat) :
    ∃ res q, run env (k + 1) (.pc (.marker '*' false true) f p) = .ok res q ∧
      legacyArgStep env sw m f f la j .star p = .next (stripArg (resToArg res)) q := by
  have hrun : run env (k + 1) (.pc (.marker '*' false true) f p) = parseContent false (rawMarker env '*' false true f p) := by
    show parseContent env.tol _ = _
    rw [htol]; rfl
  rw [hrun]
  simp only [legacyArgStep, mathModeAt, hmm, innerFields, getToken, tokFields_default hen, hfn, peekAt]
  unfold rawMarker
  rw [htol]
  cases hp : peekTok false (mkPS f) env.s p with
  | err w ep t r => exact absurd hp (hf.lex p w ep t r)
  | eos fs => exact ⟨.none, p, rfl, by simp [h23, stripArg, resToArg]⟩
  | tok t =>
    obtain ⟨hc, hlen⟩ := hf.star p t hp
    dsimp only
    simp only [Bool.not_true, Bool.and_false, Bool.false_eq_true, if_false]
    rw [hc]
    by_cases hstar : ((t.kind == .char || t.kind == .specials) && t.arg == ['*']) = true
    · have harg : t.arg = ['*'] := by
        simp only [Bool.and_eq_true, beq_iff_eq] at hstar; exact hstar.2
      simp only [hstar, if_true]
      exact ⟨_, _, rfl, by simp [stripArg, resToArg, stripArgs, hlen harg]⟩
    · simp only [hstar, Bool.false_eq_true, if_false]
      split
      · exact ⟨.none, p, rfl, by simp [stripArg, resToArg]⟩
      · exact ⟨.none, p, rfl, by simp [stripArg, resToArg]⟩

end steps

theorem loop_agree (env : Env) (htol : env.tol = false) (sw : Sw) (h23 : sw.f23 = true) (hsb : sw.strictBrace = true)
    (hop : sw.optPre = true) (f : PSFields) (hfn : f.normalize = f) (hen : f.enEnvs = true) (n : Nat)
    (hf : ParserFacts env (n + 1) f) (la : LArgs) (hns : la.optNoSpace = false) (hmm : la.mathModes = none) (pos0 : Nat) :
    ∀ (l : List LArgT) (j : Nat) (accN : List Arg) (p : Nat),
      Agree pos0 (legacyArgsLoop env sw (n + 1) f f la pos0 l j (accN.map stripArg) p)
        (argsLoop env (run env (n + 1)) f (l.map specOf) accN p) := by
  intro l
  induction l with
  | nil => intro j accN p; simp [legacyArgsLoop, argsLoop, Agree]
  | cons argt rest ih =>
    intro j accN p
    have hpk : ∀ w ep t r, peekTok env.tol (mkPS f) env.s p ≠ .err w ep t r := by rw [htol]; exact hf.lex p
    simp only [List.map_cons, argsLoop, legacyArgsLoop]
    have hmap : ∀ a : Arg, accN.map stripArg ++ [stripArg a] = (accN ++ [a]).map stripArg := by
      intro a; simp
    cases argt with
    | mand =>
      have hs := step_mand (la := la) (sw := sw) (m := n + 1) (f := f) htol hsb hmm j p
      show Agree pos0 _ (match run env (n + 1) (.pc (.expression true) f p) with
        | .ok res p' => _ | other => other)
      cases hr : run env (n + 1) (.pc (.expression true) f p) with
      | ok res q =>
        obtain ⟨nd, rfl, hq⟩ := hf.expr p res q hr
        rw [hs.1 nd q hr hq]
        dsimp only
        have := ih (j + 1) (accN ++ [Arg.node nd]) q
        rw [← hmap] at this
        exact this
      | perr e => rw [hs.2 e hr]; simp [Agree]
      | loopEnd e => trivial
      | crash k => trivial
      | fuel => trivial
    | opt =>
      have hs := step_opt (env := env) (la := la) (sw := sw) (m := n + 1) (f := f) hop hns hmm j p
      show Agree pos0 _ (match run env (n + 1) (.pc (.group (.pair ['['] [']']) true true) f p) with
        | .ok res p' => _ | other => other)
      cases hr : run env (n + 1) (.pc (.group (.pair ['['] [']']) true true) f p) with
      | ok res q =>
        rcases hf.group p res q hr with ⟨rfl, rfl⟩ | ⟨nd, rfl, hq, hsn⟩
        · rw [hs.1 q hr]
          dsimp only
          have := ih (j + 1) (accN ++ [Arg.absent]) q
          rw [← hmap] at this
          exact this
        · rw [hs.2.1 nd q hr hq]
          dsimp only
          have := ih (j + 1) (accN ++ [Arg.node nd]) q
          rw [← hmap] at this
          have hg : stripArg (Arg.node nd) = Arg.node nd := by simp [stripArg, hsn]
          rw [hg] at this
          exact this
      | perr e => rw [hs.2.2 e hr]; simp [Agree]
      | loopEnd e => trivial
      | crash k => trivial
      | fuel => trivial
    | star =>
      obtain ⟨res, q, hr, hl⟩ := step_star (la := la) (sw := sw) (m := n + 1) (f := f) htol h23 hmm hfn hen n hf j p
      show Agree pos0 _ (match run env (n + 1) (.pc (.marker '*' false true) f p) with
        | .ok res p' => _ | other => other)
      rw [hr, hl]
      dsimp only
      have := ih (j + 1) (accN ++ [resToArg res]) q
      rw [← hmap] at this
      exact this

theorem parseContent_false_ret (r : Ret) : parseContent false (.ret r) = r := by
  cases r <;> rfl

/-- **C16_legacy_args (partial: `ParserFacts` spelled out as hypothesis).**  For every argument string over
    `{*, [, {}` (induction on the string), in strict mode, on the repaired code, with the standard reading of the
    parsing state (normalized, environments enabled): `MacroStandardArgsParser.parse_args` behind the legacy wrapper
    and `LatexArgumentsParser.parse` return the same argument nodes and the same final reader position whenever the
    latter succeeds, and raise the same error whenever it fails. -/
theorem C16_legacy_args_partial (env : Env) (htol : env.tol = false) (sw : Sw) (h23 : sw.f23 = true)
    (hsb : sw.strictBrace = true) (hop : sw.optPre = true) (f : PSFields) (hfn : f.normalize = f) (hen : f.enEnvs = true)
    (a : Str) (l : List LArgT) (ha : strLArgs a = some l) (n pos : Nat) (hf : ParserFacts env (n + 1) f) :
    (∀ lp le as q, run env (n + 2) (.pc (.arguments (newOfStr a)) f pos) = .ok (.args lp le as) q →
        legacyParseArgs env sw (n + 1) f f { spec := l } pos = .ok (.args (some pos) (some q) (as.map stripArg)) q) ∧
    (∀ e, run env (n + 2) (.pc (.arguments (newOfStr a)) f pos) = .perr e →
        legacyParseArgs env sw (n + 1) f f { spec := l } pos = .perr e) := by
  have hnew : run env (n + 2) (.pc (.arguments (newOfStr a)) f pos)
      = argsLoop env (run env (n + 1)) f (l.map specOf) [] pos := by
    show parseContent env.tol (rawArguments env (run env (n + 1)) (newOfStr a) f pos) = _
    rw [htol]
    unfold newOfStr
    rw [strSpecs_of_strLArgs a l ha]
    exact parseContent_false_ret _
  have hleg : legacyParseArgs env sw (n + 1) f f { spec := l } pos
      = parseContent false (legacyArgsLoop env sw (n + 1) f f { spec := l } pos l 0 [] pos) := by
    unfold legacyParseArgs rawLegacyArgs
    rw [htol]
  have hag := loop_agree env htol sw h23 hsb hop f hfn hen n hf { spec := l } rfl rfl pos l 0 [] pos
  rw [List.map_nil] at hag
  rw [hnew, hleg]
  constructor
  · intro lp le as q h
    rw [h] at hag
    simp only [Agree] at hag
    rw [hag]; rfl
  · intro e h
    rw [h] at hag
    simp only [Agree] at hag
    rw [hag]; rfl

def argsSummary : Ret → Option (List Bool × Nat)
  | .ok (.args _ _ l) q => some (l.map (fun a => match a with | .absent => false | _ => true), q)
  | _ => none

/-- the two algorithms on `\m*[b]{a}x` and on `\m{a}` with the argument string `*[{` (repaired code): all three
    arguments present and the reader after `{a}`; star and bracket absent in the second input -/
example :
    argsSummary (parseArgsVia (wEnv false "\\m*[b]{a}x") Sw.repaired 14 {} {} (.posObj ['*', '[', '{']) 2) = some ([true, true, true], 9) ∧
    argsSummary (parseArgsVia (wEnv false "\\m*[b]{a}x") Sw.repaired 14 {} {} (.newStr ['*', '[', '{']) 2) = some ([true, true, true], 9) ∧
    argsSummary (parseArgsVia (wEnv false "\\m{a}") Sw.repaired 14 {} {} (.posObj ['*', '[', '{']) 2) = some ([false, false, true], 5) ∧
    argsSummary (parseArgsVia (wEnv false "\\m{a}") Sw.repaired 14 {} {} (.newStr ['*', '[', '{']) 2) = some ([false, false, true], 5) := by
  decide

end Pylx.Legacy
