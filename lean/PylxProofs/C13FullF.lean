/-
  C13, parse link for all strings — kernel evaluation over a part of the `unicode-xml` table (the 13 code points of
  finding F19 left out): every replacement text is the source of a document of the grammar of `C13FullDefs` that is well
  formed under each of the four brace protection schemes (`rawOk`; the classifier's output is checked, not trusted).
-/
import PylxProofs.C13FullDefs
namespace Pylx.C13.Full
open Pylx Pylx.EncB

set_option maxRecDepth 100000 in
theorem xml_docs_1 : ((Gen.uni2latexXmlChunks.drop 10).take 10).all (fun ch => ch.all (entryOkX f19)) = true := by
  decide +kernel

end Pylx.C13.Full
