/-
  C03 — latex2text renders the core sublanguage by its documented rules: algebraic laws of the renderer model
  `Pylx.L2T` (tree level), each for all trees, all option sets, all databases, all converter states.

  * `C03_append_state` / `C03_append`: the renderer is a monoid homomorphism on node lists up to the one context rule
    of `nodelist_to_text` (`boundaryPre`: the post-space of a bare macro node in front of a chars node).
  * one law per documented rule: `C03_chars`, `C03_group_transparent`, `C03_format_transparent`, `C03_symbol*`,
    `C03_comment`, `C03_math_inline`, `C03_math_display`, `C03_math_modes`, `C03_bare_macro_space`, `C03_presets`;
    table facts over the generated database by kernel evaluation.
  * `C03_compose_tree`: two blocks joined by a paragraph break or by a whitespace-only segment.
-/
import Pylx.L2TDrv
import Pylx.SpecText
import PylxProofs.C02Tok
namespace Pylx.L2T.C03
open Pylx Pylx.L2T

deriving instance DecidableEq for Pylx.L2T.St
deriving instance DecidableEq for Pylx.L2T.Out

/-! ### results -/

/-- sequencing on results of state transformers -/
def andThen {α β : Type} (x : Out (α × St)) (f : α → St → Out (β × St)) : Out (β × St) :=
  match x with
  | .ok (a, st) => f a st
  | .crash k => .crash k

theorem bind_apply {α β : Type} (x : R α) (f : α → R β) (st : St) : R.bind x f st = andThen (x st) (fun a st' => f a st') := by
  unfold R.bind andThen
  cases x st with
  | ok p => rfl
  | crash k => rfl

theorem andThen_assoc {α β γ : Type} (x : Out (α × St)) (f : α → St → Out (β × St)) (g : β → St → Out (γ × St)) :
    andThen (andThen x f) g = andThen x (fun a st => andThen (f a st) g) := by
  cases x with
  | ok p => rfl
  | crash k => rfl

theorem andThen_ok {α β : Type} (a : α) (st : St) (f : α → St → Out (β × St)) : andThen (.ok (a, st)) f = f a st := rfl

theorem andThen_congr {α β : Type} (x : Out (α × St)) {f g : α → St → Out (β × St)} (h : ∀ a st, f a st = g a st) :
    andThen x f = andThen x g := by
  cases x with
  | ok p => exact h p.1 p.2
  | crash k => rfl

/-! ### the loop of `nodelist_to_text` -/

theorem renderList_nil (E : Env) (c : Sls) (prev : Option Node) (acc : Str) (st : St) :
    renderList E c prev acc [] st = .ok (acc, st) := by
  unfold renderList; rfl

theorem renderList_cons (E : Env) (c : Sls) (prev : Option Node) (acc : Str) (n : Node) (ns : List Node) (st : St) :
    renderList E c prev acc (n :: ns) st =
      andThen (R.ofOut (preOf E c prev n) st) fun pre st1 =>
        andThen (renderNode E c n st1) fun t st2 => renderList E c (some n) (acc ++ pre ++ t) ns st2 := by
  rw [renderList, bind_apply]
  apply andThen_congr
  intro a st1
  rw [bind_apply]

/-- the accumulator is a prefix of the result -/
theorem renderList_acc (E : Env) (c : Sls) : ∀ (ns : List Node) (prev : Option Node) (acc : Str) (st : St),
    renderList E c prev acc ns st = andThen (renderList E c prev [] ns st) fun t st' => .ok (acc ++ t, st')
  | [], prev, acc, st => by simp [renderList_nil, andThen]
  | n :: ns, prev, acc, st => by
    rw [renderList_cons, renderList_cons, andThen_assoc]
    apply andThen_congr
    intro pre st1
    rw [andThen_assoc]
    apply andThen_congr
    intro t st2
    rw [renderList_acc E c ns (some n) (acc ++ pre ++ t) st2, renderList_acc E c ns (some n) ([] ++ pre ++ t) st2, andThen_assoc]
    apply andThen_congr
    intro u st3
    simp [andThen, List.append_assoc]

/-- the previous node seen by the loop after a list -/
def lastPrev (prev : Option Node) (xs : List Node) : Option Node :=
  match xs.getLast? with
  | some l => some l
  | none => prev

theorem lastPrev_cons (prev : Option Node) (n : Node) (xs : List Node) : lastPrev prev (n :: xs) = lastPrev (some n) xs := by
  unfold lastPrev
  cases xs with
  | nil => rfl
  | cons a l =>
    rw [List.getLast?_cons_cons]
    cases h : (a :: l).getLast? with
    | none => simp at h
    | some x => rfl

/-- the loop over a concatenation is the loop over the first list followed by the loop over the second, which only
    remembers the last node of the first -/
theorem renderList_append (E : Env) (c : Sls) : ∀ (xs ys : List Node) (prev : Option Node) (acc : Str) (st : St),
    renderList E c prev acc (xs ++ ys) st =
      andThen (renderList E c prev acc xs st) fun t st' => renderList E c (lastPrev prev xs) t ys st'
  | [], ys, prev, acc, st => by simp [renderList_nil, andThen, lastPrev]
  | n :: xs, ys, prev, acc, st => by
    rw [List.cons_append, renderList_cons, renderList_cons, andThen_assoc]
    apply andThen_congr
    intro pre st1
    rw [andThen_assoc]
    apply andThen_congr
    intro t st2
    rw [renderList_append E c xs ys (some n) _ st2, lastPrev_cons]

theorem isBare_none (E : Env) : isBare E none = .ok false := by
  unfold isBare; rfl

theorem preOf_none (E : Env) (c : Sls) (n : Node) : preOf E c none n = .ok [] := by
  unfold preOf; rw [isBare_none]; rfl

/-- the previous node only matters through the text `preOf` puts in front of the first node -/
theorem renderList_prev (E : Env) (c : Sls) (prev : Option Node) (acc p : Str) (y : Node) (ys : List Node) (st : St)
    (h : preOf E c prev y = .ok p) :
    renderList E c prev acc (y :: ys) st = renderList E c none (acc ++ p) (y :: ys) st := by
  rw [renderList_cons, renderList_cons, h, preOf_none]
  simp [R.ofOut, R.pure, andThen]

/-- what `nodelist_to_text` emits between the last node of `xs` and the first node of `ys` -/
def boundaryPre (E : Env) (c : Sls) (xs ys : List Node) : Out Str :=
  match xs.getLast?, ys.head? with
  | some l, some y => preOf E c (some l) y
  | _, _ => .ok []

/-- **C03, append law with the converter state made explicit** (no hypothesis on the trees): rendering a concatenation
    is rendering the first list, then the second list from the state the first one left (`\title`, `\author`, `\date`
    are remembered for `\maketitle`), with the boundary text in between. -/
theorem C03_append_state (E : Env) (c : Sls) (xs ys : List Node) (p : Str) (st : St) (hb : boundaryPre E c xs ys = .ok p) :
    renderList E c none [] (xs ++ ys) st =
      andThen (renderList E c none [] xs st) fun a st1 =>
        andThen (renderList E c none [] ys st1) fun b st2 => .ok (a ++ p ++ b, st2) := by
  rw [renderList_append]
  apply andThen_congr
  intro a st1
  cases ys with
  | nil =>
    have : p = [] := by
      unfold boundaryPre at hb
      cases h : xs.getLast? <;> simp [h] at hb <;> first | exact hb | exact hb.symm
    subst this
    simp [renderList_nil, andThen]
  | cons y ys =>
    cases hl : xs.getLast? with
    | none =>
      have : p = [] := by
        unfold boundaryPre at hb
        simp [hl] at hb; first | exact hb | exact hb.symm
      subst this
      have : lastPrev none xs = none := by unfold lastPrev; rw [hl]
      rw [this, renderList_acc]
      simp
    | some l =>
      have hp : preOf E c (some l) y = .ok p := by
        unfold boundaryPre at hb
        simpa [hl] using hb
      have : lastPrev none xs = some l := by unfold lastPrev; rw [hl]
      rw [this, renderList_prev E c (some l) a p y ys st1 hp, renderList_acc]

/-- the exact side condition of the plain append law, read off `nodelist_to_text`: text is put between two nodes only
    when the first is a bare macro node, the second a chars node and `between-macro-and-chars` is off — and then it is
    the macro's post-space -/
theorem boundaryPre_eq (E : Env) (c : Sls) (xs ys : List Node) (l y : Node) (b : Bool)
    (hl : xs.getLast? = some l) (hy : ys.head? = some y) (hbare : isBare E (some l) = .ok b) :
    boundaryPre E c xs ys = .ok (if b && isCharsNode y && !c.mc then postSpaceOf (some l) else []) := by
  unfold boundaryPre preOf
  rw [hl, hy]
  simp only [hbare]

/-- the boundary between `xs` and `ys` is not "bare macro node followed by chars node" (with the rule switched on and a
    non-empty post-space) -/
def PlainBoundary (E : Env) (c : Sls) (xs ys : List Node) : Prop := boundaryPre E c xs ys = .ok []

/-- `nodelist_to_text` on a fresh converter object, state kept -/
def run (E : Env) (c : Sls) (ns : List Node) : Out (Str × St) := renderList E c none [] ns {}

theorem render_eq (opts : Opts) (db : TextDb) (ctx : Ctx) (lib : Lib) (src : Str) (ns : List Node) (hs : db.shapeOk = true) :
    render opts db ctx lib src ns =
      match run { opts := opts, db := db, ctx := ctx, lib := lib, src := src } (parseSls opts.sls) ns with
      | .ok (t, _) => .ok t
      | .crash k => .crash k := by
  unfold render run
  simp only [hs, Bool.not_true, Bool.false_eq_true, if_false]
  cases renderList { opts := opts, db := db, ctx := ctx, lib := lib, src := src } (parseSls opts.sls) none [] ns {} with
  | ok q => rfl
  | crash k => rfl

/-- **C03, append law** for `render` (`LatexNodes2Text(**opts).nodelist_to_text` on a fresh object): when the boundary
    is plain and the first list leaves the document fields (`\title`, `\author`, `\date`) unset,
    `render (xs ++ ys) = render xs ++ render ys`. -/
theorem C03_append (opts : Opts) (db : TextDb) (ctx : Ctx) (lib : Lib) (src : Str) (xs ys : List Node) (a b : Str)
    (hb : PlainBoundary { opts := opts, db := db, ctx := ctx, lib := lib, src := src } (parseSls opts.sls) xs ys)
    (hx : run { opts := opts, db := db, ctx := ctx, lib := lib, src := src } (parseSls opts.sls) xs = .ok (a, {}))
    (hy : render opts db ctx lib src ys = .ok b) :
    render opts db ctx lib src (xs ++ ys) = .ok (a ++ b) ∧ render opts db ctx lib src xs = .ok a := by
  have hs : db.shapeOk = true := by
    cases h : db.shapeOk with
    | true => rfl
    | false => unfold render at hy; simp [h] at hy
  rw [render_eq _ _ _ _ _ _ hs] at hy ⊢
  rw [render_eq _ _ _ _ _ _ hs]
  unfold run at hy hx ⊢
  rw [C03_append_state _ _ xs ys [] {} hb, hx]
  simp only [andThen_ok]
  cases hr : renderList { opts := opts, db := db, ctx := ctx, lib := lib, src := src } (parseSls opts.sls) none [] ys {} with
  | crash k => rw [hr] at hy; simp at hy
  | ok q =>
    rw [hr] at hy
    obtain ⟨t, st2⟩ := q
    simp only [Out.ok.injEq] at hy
    subst hy
    simp [andThen]

/-- with the state made explicit there is no hypothesis on the first list: the second list is rendered from the state
    the first one left -/
theorem C03_append_run (E : Env) (c : Sls) (xs ys : List Node) (hb : PlainBoundary E c xs ys) :
    run E c (xs ++ ys) =
      andThen (run E c xs) fun a st1 => andThen (renderList E c none [] ys st1) fun b st2 => .ok (a ++ b, st2) := by
  unfold run
  rw [C03_append_state E c xs ys [] {} hb]
  apply andThen_congr; intro a st1
  apply andThen_congr; intro b st2
  simp

/-! ### one law per documented rule -/

theorem all_dropWhile (f : Char → Bool) : ∀ (s : Str), (s.dropWhile f).all f = s.all f
  | [] => rfl
  | c :: s => by
    by_cases h : f c = true
    · simp [h, all_dropWhile f s]
    · simp [h]

theorem dropWhile_isEmpty (f : Char → Bool) : ∀ (s : Str), (s.dropWhile f).isEmpty = s.all f
  | [] => rfl
  | c :: s => by
    by_cases h : f c = true
    · simp [h, dropWhile_isEmpty f s]
    · simp [h]

/-- `len(content.strip()) == 0` -/
theorem strip_isEmpty (s : Str) : (strip s).isEmpty = s.all isPySpace := by
  unfold strip
  rw [List.isEmpty_reverse, dropWhile_isEmpty, List.all_reverse, all_dropWhile]

/-- **text is copied**; a chars node of whitespace only is kept only under `between-latex-constructs` -/
theorem C03_chars (E : Env) (c : Sls) (p e : Nat) (ps : PSInfo) (ch : Str) :
    renderNode E c (.chars p e ps ch) = R.pure (if !c.lc && ch.all isPySpace then [] else ch) := by
  unfold renderNode
  rw [strip_isEmpty]

/-- a chars node that contains a character which is not whitespace is copied under every policy -/
theorem C03_chars_copied (E : Env) (c : Sls) (p e : Nat) (ps : PSInfo) (ch : Str) (h : ch.all isPySpace = false) :
    renderNode E c (.chars p e ps ch) = R.pure ch := by
  rw [C03_chars, h]; simp

theorem group_apply (E : Env) (c : Sls) (p e : Nat) (ps : PSInfo) (o cl : Str) (body : Option (List Node)) (st : St) :
    renderNode E c (.group p e ps o cl body) st =
      andThen (renderBody E c body st) fun t st' =>
        .ok (if E.opts.keepBraced && (t.length : Int) ≥ E.opts.minLen then o ++ t ++ cl else t, st') := by
  rw [renderNode, bind_apply]
  rfl

/-- **groups are transparent**: without `keep_braced_groups` a group node renders as its body -/
theorem C03_group_transparent (E : Env) (c : Sls) (p e : Nat) (ps : PSInfo) (o cl : Str) (body : Option (List Node))
    (hk : E.opts.keepBraced = false) :
    renderNode E c (.group p e ps o cl body) = renderBody E c body := by
  funext st
  rw [group_apply, hk]
  cases renderBody E c body st with
  | ok q => simp [andThen]
  | crash k => rfl

/-- with `keep_braced_groups` the delimiters are put back around the body when it is long enough -/
theorem C03_group_braced (E : Env) (c : Sls) (p e : Nat) (ps : PSInfo) (o cl : Str) (body : Option (List Node)) (st st' : St)
    (t : Str) (hk : E.opts.keepBraced = true) (hb : renderBody E c body st = .ok (t, st')) :
    renderNode E c (.group p e ps o cl body) st =
      .ok (if (t.length : Int) ≥ E.opts.minLen then o ++ t ++ cl else t, st') := by
  rw [group_apply, hb, hk]
  simp [andThen]

theorem applySpec_none (E : Env) (info : NodeInfo) (th : Thunks) (sp : TSpec) (dflt : R Str)
    (h1 : sp.repl = .none) (h2 : sp.hasDiscard = true) (h3 : sp.discard = false) :
    applySpec E info th sp dflt = dflt := by
  unfold applySpec
  simp [h1, h2, h3, replTruthy]

/-- **formatting macros are transparent**: a macro whose text specification has no replacement and `discard = False`
    renders as the concatenation of its arguments' contents -/
theorem C03_format_transparent (E : Env) (c : Sls) (p e : Nat) (ps : PSInfo) (name post : Str) (args : Option (List Arg))
    (sp : TSpec) (hl : lookupFirst name E.db.macros = some sp)
    (h1 : sp.repl = .none) (h2 : sp.hasDiscard = true) (h3 : sp.discard = false) :
    renderNode E c (.mac p e ps name post args) = argsCatO E c args := by
  rw [renderNode]
  simp only [hl, Option.getD_some]
  exact applySpec_none _ _ _ _ _ h1 h2 h3

theorem bind_pure_nil (x : R Str) : (R.bind x fun t => R.bind (R.pure []) fun r => R.pure (t ++ r)) = x := by
  funext st
  unfold R.bind R.pure
  cases x st with
  | ok q => simp
  | crash k => rfl

/-- `\emph{X}` renders as `X` rendered: one braced argument -/
theorem C03_format_one_group (E : Env) (c : Sls) (p e : Nat) (ps : PSInfo) (name post : Str)
    (gp ge : Nat) (gps : PSInfo) (o cl : Str) (body : List Node)
    (sp : TSpec) (hl : lookupFirst name E.db.macros = some sp)
    (h1 : sp.repl = .none) (h2 : sp.hasDiscard = true) (h3 : sp.discard = false) :
    renderNode E c (.mac p e ps name post (some [.node (.group gp ge gps o cl (some body))])) = renderList E c none [] body := by
  rw [C03_format_transparent E c p e ps name post _ sp hl h1 h2 h3]
  rw [argsCatO, argsCat, argsCat, groupContents, renderBody]
  exact bind_pure_nil _

/-- the names of the transparent macros of a database -/
def formatNames (db : TextDb) : List Str :=
  (db.macros.filter fun q => q.2.hasDiscard && !q.2.discard && q.2.repl == .none).map (·.1)

set_option maxRecDepth 100000 in
/-- the transparent macros of the generated database, and the lookup of each of them finds the transparent entry -/
theorem C03_format_names :
    formatNames Gen.defaultTextDb =
      ["mathrm".toList, "emph".toList, "textrm".toList, "textit".toList, "textbf".toList, "textsc".toList, "textsl".toList,
       "text".toList] ∧
    (formatNames Gen.defaultTextDb).all (fun n => lookupFirst n Gen.defaultTextDb.macros == some ⟨true, false, .none⟩) = true := by
  decide +kernel

theorem applySpec_lit (E : Env) (info : NodeInfo) (th : Thunks) (sp : TSpec) (dflt : R Str) (s : Str)
    (h1 : sp.repl = .lit s) (h2 : s ≠ [] ∨ (sp.hasDiscard = true ∧ sp.discard = true)) :
    applySpec E info th sp dflt = R.pure s := by
  unfold applySpec
  cases s with
  | nil =>
    rcases h2 with h | ⟨ha, hb⟩
    · exact absurd rfl h
    · simp [h1, replTruthy, ha, hb]
  | cons a l => simp [h1, replTruthy]

/-- **symbols become their character(s)**: a macro whose replacement is a plain string renders as that string, whatever its
    arguments, the policy, the state and the nodes around it -/
theorem C03_symbol_macro (E : Env) (c : Sls) (p e : Nat) (ps : PSInfo) (name post : Str) (args : Option (List Arg))
    (sp : TSpec) (s : Str) (hl : lookupFirst name E.db.macros = some sp) (h1 : sp.repl = .lit s)
    (h2 : s ≠ [] ∨ (sp.hasDiscard = true ∧ sp.discard = true)) :
    renderNode E c (.mac p e ps name post args) = R.pure s := by
  rw [renderNode]
  simp only [hl, Option.getD_some]
  exact applySpec_lit _ _ _ _ _ s h1 h2

/-- the same for specials (`~`, `--`, `---`, quotes, `&`) -/
theorem C03_symbol_specials (E : Env) (c : Sls) (p e : Nat) (ps : PSInfo) (ch : Str) (args : Option (List Arg))
    (sp : TSpec) (s : Str) (hl : lookupFirst ch E.db.specials = some sp) (h1 : sp.repl = .lit s) (h2 : s ≠ []) :
    renderNode E c (.specials p e ps ch args) = R.pure s := by
  rw [renderNode]
  simp only [hl]
  exact applySpec_lit _ _ _ _ _ s h1 (Or.inl h2)

/-- specials without an entry in the text database (the paragraph break `\n\n`) render as themselves -/
theorem C03_specials_unknown (E : Env) (c : Sls) (p e : Nat) (ps : PSInfo) (ch : Str) (args : Option (List Arg))
    (hl : lookupFirst ch E.db.specials = none) :
    renderNode E c (.specials p e ps ch args) = R.pure ch := by
  rw [renderNode]
  simp only [hl]

/-- a macro without an entry in the text database is discarded -/
theorem C03_macro_unknown (E : Env) (c : Sls) (p e : Nat) (ps : PSInfo) (name post : Str) (args : Option (List Arg))
    (hl : lookupFirst name E.db.macros = none) :
    renderNode E c (.mac p e ps name post args) = R.pure [] := by
  rw [renderNode]
  simp only [hl, Option.getD_none]
  unfold applySpec
  simp [replTruthy]

/-- **C03_symbol**: a symbol node renders as its string *whatever follows* (and whatever precedes): in a list
    `xs ++ [n] ++ ys` with plain boundaries the text is `render xs ++ s ++ render ys`. -/
theorem C03_symbol (E : Env) (c : Sls) (n : Node) (s : Str) (hn : renderNode E c n = R.pure s) (xs ys : List Node)
    (h1 : PlainBoundary E c xs (n :: ys)) (h2 : PlainBoundary E c [n] ys) (st : St) :
    renderList E c none [] (xs ++ n :: ys) st =
      andThen (renderList E c none [] xs st) fun a st1 =>
        andThen (renderList E c none [] ys st1) fun b st2 => .ok (a ++ s ++ b, st2) := by
  rw [C03_append_state E c xs (n :: ys) [] st h1]
  apply andThen_congr; intro a st1
  have : n :: ys = [n] ++ ys := rfl
  rw [this, C03_append_state E c [n] ys [] st1 h2]
  rw [renderList_cons, preOf_none, hn]
  simp only [R.ofOut, R.pure, andThen_ok, renderList_nil]
  rw [andThen_assoc]
  apply andThen_congr; intro b st2
  simp [andThen]

set_option maxRecDepth 100000 in
/-- table facts (kernel-evaluated on the generated database): `~` ↦ U+00A0 (no-break space), `--` ↦ – (U+2013),
    `---` ↦ — (U+2014), the double quotes ↦ “ ” (U+201C, U+201D), `&` ↦ three spaces, the inverted marks ↦ ¡ ¿ (the replacement text only: whether the spec
    class carries a `discard` attribute is a fact about the library version, cf. F38) -/
theorem C03_table_specials :
    (lookupFirst ['~'] Gen.defaultTextDb.specials).map (·.repl) = some (.lit [Char.ofNat 0xA0]) ∧
    (lookupFirst ['-', '-'] Gen.defaultTextDb.specials).map (·.repl) = some (.lit [Char.ofNat 0x2013]) ∧
    (lookupFirst ['-', '-', '-'] Gen.defaultTextDb.specials).map (·.repl) = some (.lit [Char.ofNat 0x2014]) ∧
    (lookupFirst ['`', '`'] Gen.defaultTextDb.specials).map (·.repl) = some (.lit [Char.ofNat 0x201C]) ∧
    (lookupFirst ['\'', '\''] Gen.defaultTextDb.specials).map (·.repl) = some (.lit [Char.ofNat 0x201D]) ∧
    (lookupFirst ['&'] Gen.defaultTextDb.specials).map (·.repl) = some (.lit [' ', ' ', ' ']) ∧
    (lookupFirst ['!', '`'] Gen.defaultTextDb.specials).map (·.repl) = some (.lit [Char.ofNat 0xA1]) ∧
    (lookupFirst ['?', '`'] Gen.defaultTextDb.specials).map (·.repl) = some (.lit [Char.ofNat 0xBF]) ∧
    lookupFirst ['\n', '\n'] Gen.defaultTextDb.specials = none := by
  decide +kernel

/-- every plain-string replacement of a database satisfies the hypothesis of `C03_symbol_macro` / `C03_symbol_specials` -/
def symbolsOk (db : TextDb) : Bool :=
  db.macros.all (fun q => match q.2.repl with
    | .lit s => !s.isEmpty || (q.2.hasDiscard && q.2.discard)
    | _ => true) &&
  db.specials.all (fun q => match q.2.repl with
    | .lit s => !s.isEmpty
    | _ => true)

set_option maxRecDepth 100000 in
/-- table facts for symbol macros: all 900-odd plain-string replacements of the generated database are covered by
    `C03_symbol_macro`; and `\alpha` ↦ α, `\ldots` ↦ …, `\&` ↦ &, `\,` ↦ space, `\ss` ↦ ß, `\quad` ↦ two spaces -/
theorem C03_table_symbols :
    symbolsOk Gen.defaultTextDb = true ∧
    lookupFirst "alpha".toList Gen.defaultTextDb.macros = some ⟨true, true, .lit [Char.ofNat 0x3B1]⟩ ∧
    lookupFirst "ldots".toList Gen.defaultTextDb.macros = some ⟨true, true, .lit [Char.ofNat 0x2026]⟩ ∧
    lookupFirst ['&'] Gen.defaultTextDb.macros = some ⟨true, true, .lit ['&']⟩ ∧
    lookupFirst [','] Gen.defaultTextDb.macros = some ⟨true, true, .lit [' ']⟩ ∧
    lookupFirst "ss".toList Gen.defaultTextDb.macros = some ⟨true, true, .lit [Char.ofNat 0xDF]⟩ ∧
    lookupFirst "quad".toList Gen.defaultTextDb.macros = some ⟨true, true, .lit [' ', ' ']⟩ ∧
    lookupFirst "unknownmacro".toList Gen.defaultTextDb.macros = none := by
  decide +kernel

/-- **comments vanish**, and the whitespace after them follows `after-comment`; with `keep_comments` the comment text
    is kept: the four cases of `comment_node_to_text` -/
theorem C03_comment (E : Env) (c : Sls) (p e : Nat) (ps : PSInfo) (cm post : Str) :
    (E.opts.keepComments = false → c.ac = false → renderNode E c (.comment p e ps cm post) = R.pure post) ∧
    (E.opts.keepComments = false → c.ac = true → renderNode E c (.comment p e ps cm post) = R.pure []) ∧
    (E.opts.keepComments = true → c.ac = false → renderNode E c (.comment p e ps cm post) = R.pure ('%' :: cm ++ post)) ∧
    (E.opts.keepComments = true → c.ac = true →
      renderNode E c (.comment p e ps cm post) = R.pure ('%' :: cm ++ (if post.isEmpty then [] else ['\n']))) := by
  refine ⟨?_, ?_, ?_, ?_⟩ <;> intro h1 h2 <;> rw [renderNode] <;> simp [h1, h2]

theorem math_apply (E : Env) (c : Sls) (p e : Nat) (ps : PSInfo) (display : Bool) (o cl : Str) (body : Option (List Node)) :
    renderNode E c (.math p e ps display o cl body) = mathText E false display o cl p e (renderBody E c.enterEq body) := by
  rw [renderNode]

/-- **inline math is inlined**: under `math_mode='text'` an inline formula renders as its body, rendered under the
    equation policy (`in-equations`), stripped -/
theorem C03_math_inline (E : Env) (c : Sls) (p e : Nat) (ps : PSInfo) (o cl : Str) (body : Option (List Node)) (st : St)
    (hm : E.opts.mathMode = .text) :
    renderNode E c (.math p e ps false o cl body) st =
      andThen (renderBody E c.enterEq body st) fun t st' => .ok (strip t, st') := by
  rw [math_apply, mathText]
  simp only [hm, bind_apply]
  rfl

/-- **display math becomes an indented block**: newline, four spaces, the stripped body with every newline followed by
    four spaces, newline -/
theorem C03_math_display (E : Env) (c : Sls) (p e : Nat) (ps : PSInfo) (o cl : Str) (body : Option (List Node)) (st : St)
    (hm : E.opts.mathMode = .text) :
    renderNode E c (.math p e ps true o cl body) st =
      andThen (renderBody E c.enterEq body st) fun t st' =>
        .ok ('\n' :: (' ' :: ' ' :: ' ' :: ' ' :: indentLines [' ', ' ', ' ', ' '] (strip t) ++ ['\n']), st') := by
  rw [math_apply, mathText]
  simp only [hm, bind_apply]
  rfl

/-- the other math modes: `with-delimiters` keeps the delimiters around the same text (display: an unindented block
    between them), `verbatim` copies the source slice of the formula (display: as an unindented block), `remove` drops
    the formula -/
theorem C03_math_modes (E : Env) (c : Sls) (p e : Nat) (ps : PSInfo) (display : Bool) (o cl : Str) (body : Option (List Node))
    (st : St) :
    (E.opts.mathMode = .remove → renderNode E c (.math p e ps display o cl body) st = .ok ([], st)) ∧
    (E.opts.mathMode = .verbatim → renderNode E c (.math p e ps display o cl body) st =
      .ok (if display then '\n' :: (indentLines [] (slice E.src p e) ++ ['\n']) else slice E.src p e, st)) ∧
    (E.opts.mathMode = .withDelims → renderNode E c (.math p e ps display o cl body) st =
      andThen (renderBody E c.enterEq body st) fun t st' =>
        .ok (if display then o ++ ('\n' :: (indentLines [] (strip t) ++ ['\n'])) ++ cl else o ++ strip t ++ cl, st')) := by
  refine ⟨?_, ?_, ?_⟩ <;> intro hm <;> rw [math_apply, mathText] <;> simp only [hm, bind_apply]
  · rfl
  · cases display <;> rfl
  · cases display <;> rfl

/-- the documented presets of `strict_latex_spaces`, and the policy they select inside formulas -/
theorem C03_presets :
    parseSls .macros = ⟨true, true, false, .basedOnSource⟩ ∧ parseSls (.bool false) = parseSls .macros ∧
    parseSls .basedOnSource = ⟨false, false, false, .none⟩ ∧
    parseSls .exceptInEq = ⟨true, true, true, .basedOnSource⟩ ∧
    parseSls (.bool true) = ⟨true, true, true, .bool true⟩ ∧
    (parseSls .macros).enterEq = parseSls .basedOnSource ∧
    (parseSls .exceptInEq).enterEq = parseSls .basedOnSource ∧
    (parseSls .basedOnSource).enterEq = parseSls .basedOnSource ∧
    (parseSls (.bool true)).enterEq = parseSls (.bool true) ∧
    (∀ s, (parseSls s).enterEq.enterEq = (parseSls s).enterEq ∨ ∃ a b d e, s = .dict a b d e) := by
  refine ⟨rfl, rfl, rfl, rfl, rfl, rfl, rfl, rfl, rfl, ?_⟩
  intro s
  cases s with
  | dict a b d e => exact Or.inr ⟨a, b, d, e, rfl⟩
  | none => exact Or.inl rfl
  | bool b => cases b <;> exact Or.inl rfl
  | basedOnSource => exact Or.inl rfl
  | macros => exact Or.inl rfl
  | exceptInEq => exact Or.inl rfl

theorem isBare_noargs (E : Env) (p e : Nat) (ps : PSInfo) (name post : Str) :
    isBare E (some (.mac p e ps name post (some []))) = .ok true := by
  unfold isBare; rfl

theorem isBare_notmac (E : Env) (n : Node) (h : ∀ p e ps name post args, n ≠ .mac p e ps name post args) :
    isBare E (some n) = .ok false := by
  unfold isBare
  cases n with
  | mac p e ps name post args => exact absurd rfl (h p e ps name post args)
  | _ => rfl

/-- **the space after a bare macro**: between a bare macro node (no argument at all) and a chars node the macro's
    post-space is put back unless `between-macro-and-chars`; between any other two nodes nothing is inserted -/
theorem C03_bare_macro_space (E : Env) (c : Sls) (xs ys : List Node) (m y : Node) (b : Bool)
    (hb : isBare E (some m) = .ok b) :
    boundaryPre E c (xs ++ [m]) (y :: ys) =
      .ok (if b && isCharsNode y && !c.mc then postSpaceOf (some m) else []) := by
  apply boundaryPre_eq E c _ _ m y b _ rfl hb
  simp

/-- in particular: `\name<post>` without arguments followed by text renders the post-space exactly when the policy's
    `between-macro-and-chars` is off -/
theorem C03_bare_macro_chars (E : Env) (c : Sls) (xs ys : List Node) (p e p' e' : Nat) (ps ps' : PSInfo) (name post ch : Str) :
    boundaryPre E c (xs ++ [.mac p e ps name post (some [])]) (.chars p' e' ps' ch :: ys) = .ok (if c.mc then [] else post) := by
  rw [C03_bare_macro_space E c xs ys _ _ true (isBare_noargs E p e ps name post)]
  cases c.mc <;> rfl

/-- and nothing is inserted in front of a node that is not a chars node, or after a node that is not a macro node -/
theorem C03_plain_boundary (E : Env) (c : Sls) (xs ys : List Node) (l y : Node) (hl : xs.getLast? = some l) (hy : ys.head? = some y)
    (h : isCharsNode y = false ∨ ∀ p e ps name post args, l ≠ .mac p e ps name post args) (hb : ∃ b, isBare E (some l) = .ok b) :
    PlainBoundary E c xs ys := by
  obtain ⟨b, hb⟩ := hb
  unfold PlainBoundary
  rw [boundaryPre_eq E c xs ys l y b hl hy hb]
  rcases h with h | h
  · simp [h]
  · rw [isBare_notmac E l h] at hb
    cases hb
    simp

theorem plain_nil_left (E : Env) (c : Sls) (ys : List Node) : PlainBoundary E c [] ys := by
  unfold PlainBoundary boundaryPre; rfl

theorem plain_nil_right (E : Env) (c : Sls) (xs : List Node) : PlainBoundary E c xs [] := by
  unfold PlainBoundary boundaryPre
  cases xs.getLast? <;> rfl

/-! ### composition of two blocks -/

def isMacNode : Node → Bool
  | .mac .. => true
  | _ => false

theorem notmac_of (n : Node) (h : isMacNode n = false) : ∀ p e ps name post args, n ≠ .mac p e ps name post args := by
  intro p e ps name post args he
  subst he
  cases h

/-- a separator node: not a macro node (so nothing is inserted after it), not a chars node or preceded by a node that
    is not bare (so nothing is inserted before it) -/
theorem sep_law (E : Env) (c : Sls) (xs ys : List Node) (sep : Node) (s : Str) (st : St)
    (hsep : renderNode E c sep = R.pure s) (hnm : isMacNode sep = false)
    (hpre : PlainBoundary E c xs [sep]) :
    renderList E c none [] (xs ++ sep :: ys) st =
      andThen (renderList E c none [] xs st) fun a st1 =>
        andThen (renderList E c none [] ys st1) fun b st2 => .ok (a ++ s ++ b, st2) := by
  have h1 : PlainBoundary E c xs (sep :: ys) := by
    unfold PlainBoundary boundaryPre at hpre ⊢
    simpa using hpre
  have h2 : PlainBoundary E c [sep] ys := by
    cases ys with
    | nil => exact plain_nil_right E c _
    | cons y ys =>
      exact C03_plain_boundary E c [sep] (y :: ys) sep y rfl rfl (Or.inr (notmac_of sep hnm))
        ⟨false, isBare_notmac E sep (notmac_of sep hnm)⟩
  exact C03_symbol E c sep s hsep xs ys h1 h2 st

/-- **C03, composition at tree level.**  Two node lists `xs`, `ys` (the trees of two blocks) joined by

    * a paragraph break (the specials node `\n\n`, which the text database does not list): the text is
      `render xs ++ "\n\n" ++ render ys`;
    * a whitespace-only chars node (the space between two constructs that are not characters):
      `render xs ++ w ++ render ys` under `between-latex-constructs`, `render xs ++ render ys` otherwise,

    provided the last node of `xs` is not a bare macro node (`isBare … = ok false`: LaTeX itself would swallow the
    space).  The second block is rendered from the converter state the first one left. -/
theorem C03_compose_tree (E : Env) (c : Sls) (xs ys : List Node) (st : St)
    (hlast : ∀ l, xs.getLast? = some l → isBare E (some l) = .ok false) :
    (∀ p e ps args, lookupFirst ['\n', '\n'] E.db.specials = none →
      renderList E c none [] (xs ++ .specials p e ps ['\n', '\n'] args :: ys) st =
        andThen (renderList E c none [] xs st) fun a st1 =>
          andThen (renderList E c none [] ys st1) fun b st2 => .ok (a ++ ['\n', '\n'] ++ b, st2)) ∧
    (∀ p e ps w, w.all isPySpace = true →
      renderList E c none [] (xs ++ .chars p e ps w :: ys) st =
        andThen (renderList E c none [] xs st) fun a st1 =>
          andThen (renderList E c none [] ys st1) fun b st2 => .ok (a ++ (if c.lc then w else []) ++ b, st2)) := by
  have hpre : ∀ sep, PlainBoundary E c xs [sep] := by
    intro sep
    cases hl : xs.getLast? with
    | none => unfold PlainBoundary boundaryPre; rw [hl]
    | some l =>
      unfold PlainBoundary
      rw [boundaryPre_eq E c xs [sep] l sep false hl rfl (hlast l hl)]
      simp
  constructor
  · intro p e ps args hl
    exact sep_law E c xs ys _ _ st (C03_specials_unknown E c p e ps _ args hl) rfl (hpre _)
  · intro p e ps w hw
    refine sep_law E c xs ys _ _ st ?_ rfl (hpre _)
    rw [C03_chars, hw]
    cases c.lc <;> rfl

/-! ### the side condition of the append law is needed -/

def cexDb : TextDb := { macros := [(['a'], ⟨true, true, .lit ['A']⟩)] }
def cexLib : Lib := { nfc2 := fun c d => [c, d], upper := fun c => [c], today := [] }
def cexXs : List Node := [.mac 0 3 {} ['a'] [' '] (some [])]
def cexYs : List Node := [.chars 3 4 {} ['b']]

def okIs (o : Out Str) (t : Str) : Bool :=
  match o with
  | .ok a => a == t
  | .crash _ => false

theorem eq_ok_of_okIs {o : Out Str} {t : Str} (h : okIs o t = true) : o = .ok t := by
  cases o with
  | ok a => simp [okIs] at h; rw [h]
  | crash k => cases h

/-- **the plain append law is false without the side condition**: `\a b` under `based-on-source` renders as `A b`,
    but `\a␣` renders as `A` and `b` as `b` (the boundary text is the post-space) -/
theorem C03_append_false :
    render { sls := .basedOnSource } cexDb {} cexLib [] (cexXs ++ cexYs) = .ok ['A', ' ', 'b'] ∧
    render { sls := .basedOnSource } cexDb {} cexLib [] cexXs = .ok ['A'] ∧
    render { sls := .basedOnSource } cexDb {} cexLib [] cexYs = .ok ['b'] ∧
    boundaryPre { opts := { sls := .basedOnSource }, db := cexDb, ctx := {}, lib := cexLib, src := [] }
      (parseSls .basedOnSource) cexXs cexYs = .ok [' '] :=
  ⟨eq_ok_of_okIs (by decide +kernel), eq_ok_of_okIs (by decide +kernel), eq_ok_of_okIs (by decide +kernel),
   eq_ok_of_okIs (by decide +kernel)⟩

/-! ### the string-level statement -/

open Pylx.Doc in
/-- no whitespace item directly after a call without written arguments of a control word (that whitespace is the
    call's post-space and must be written there).  Since the repair of `Doc.WF` (a control word without written argument
    and with an empty `post` is not followed by whitespace other than a paragraph break) this is implied by `WF`:
    `postSpaceInCall_of_WF`. -/
def postSpaceInCall : List Item → Bool
  | [] => true
  | .M name _ args :: .W _ :: _ => !(isControlWord name && isBareArgs args)
  | _ :: tl => postSpaceInCall tl

open Pylx.Doc in
theorem unparseArgs_bare : ∀ (args : List ArgVal), isBareArgs args = true → unparseArgs args = []
  | [], _ => by simp only [unparseArgs]
  | a :: tl, h => by
    unfold isBareArgs at h
    simp only [List.any_cons, Bool.not_eq_eq_eq_not, Bool.not_true, Bool.or_eq_false_iff] at h
    have ih := unparseArgs_bare tl (by unfold isBareArgs; rw [h.2]; rfl)
    cases a <;> first
      | (simp only [unparseArgs]; exact ih)
      | (simp [argWritten] at h)

open Pylx.Doc in
/-- **the helper hypothesis of the earlier statement of `C03_full` follows from the repaired `Doc.WF`** (for every
    context, nesting level and continuation) -/
theorem postSpaceInCall_of_wfItems (ctx : Ctx) : ∀ (d : List Item) (inMath : Bool) (after : Str),
    wfItems ctx inMath after d = true → postSpaceInCall d = true
  | [], _, _, _ => rfl
  | .M name post args :: tl, m, after, h => by
    have htl : wfItems ctx m after tl = true := by
      simp only [wfItems, Bool.and_eq_true] at h
      exact h.2
    cases tl with
    | nil => simp only [postSpaceInCall]
    | cons it tl' =>
      cases it with
      | W w =>
        simp only [postSpaceInCall, Bool.not_eq_eq_eq_not, Bool.not_true, Bool.and_eq_false_iff]
        cases hcw : isControlWord name with
        | false => exact Or.inl rfl
        | true =>
          right
          cases hb : isBareArgs args with
          | false => rfl
          | true =>
            exfalso
            simp only [wfItems, Bool.and_eq_true, hcw, if_true, Bool.not_eq_eq_eq_not, Bool.not_true, decide_eq_true_eq] at h htl
            obtain ⟨⟨⟨_, hpost⟩, _⟩, _⟩ := h
            obtain ⟨⟨⟨⟨hne, hws⟩, hnl⟩, hhead⟩, _⟩ := htl
            rw [unparseArgs_bare args hb] at hpost
            simp only [unparseItems, List.nil_append, List.append_assoc] at hpost
            have hsp : headIs isPySpace (w ++ (unparseItems tl' ++ after)) = true := by
              cases w with
              | nil => simp at hne
              | cons c w =>
                simp only [isWs, List.all_cons, Bool.and_eq_true] at hws
                simp [headIs, hws.1]
            obtain ⟨_, hpost⟩ := hpost
            split at hpost
            · simp only [Bool.and_eq_true, Bool.not_eq_eq_eq_not, Bool.not_true, Bool.or_eq_true] at hpost
              rcases hpost.2 with h1 | h1
              · rw [hsp] at h1; cases h1
              · unfold parStart at h1
                rw [C02.takeWhile_ws hws hhead] at h1
                simp only [Bool.and_eq_true, decide_eq_true_eq] at h1
                omega
            · simp only [Bool.not_eq_eq_eq_not, Bool.not_true] at hpost
              rw [hsp] at hpost; cases hpost
      | _ =>
        have := postSpaceInCall_of_wfItems ctx _ m after htl
        exact this
  | .T _ :: tl, m, after, h => by
    simp only [wfItems, Bool.and_eq_true] at h
    simp only [postSpaceInCall]; exact postSpaceInCall_of_wfItems ctx tl m after h.2
  | .W _ :: tl, m, after, h => by
    simp only [wfItems, Bool.and_eq_true] at h
    simp only [postSpaceInCall]; exact postSpaceInCall_of_wfItems ctx tl m after h.2
  | .P _ :: tl, m, after, h => by
    simp only [wfItems, Bool.and_eq_true] at h
    simp only [postSpaceInCall]; exact postSpaceInCall_of_wfItems ctx tl m after h.2
  | .G _ :: tl, m, after, h => by
    simp only [wfItems, Bool.and_eq_true] at h
    simp only [postSpaceInCall]; exact postSpaceInCall_of_wfItems ctx tl m after h.2
  | .E _ _ _ :: tl, m, after, h => by
    simp only [wfItems, Bool.and_eq_true] at h
    simp only [postSpaceInCall]; exact postSpaceInCall_of_wfItems ctx tl m after h.2
  | .F _ _ :: tl, m, after, h => by
    simp only [wfItems, Bool.and_eq_true] at h
    simp only [postSpaceInCall]; exact postSpaceInCall_of_wfItems ctx tl m after h.2
  | .C _ _ :: tl, m, after, h => by
    have htl : wfItems ctx m after tl = true := by
      cases tl with
      | nil => simp only [wfItems]
      | cons it tl' =>
        cases it <;> (rw [wfItems] at h <;> first
          | (simp only [Bool.and_eq_true] at h; exact h.2)
          | (intro _ _ h; cases h))
    simp only [postSpaceInCall]; exact postSpaceInCall_of_wfItems ctx tl m after htl
  | .S _ _ :: tl, m, after, h => by
    simp only [wfItems, Bool.and_eq_true] at h
    simp only [postSpaceInCall]; exact postSpaceInCall_of_wfItems ctx tl m after h.2
  | .V _ _ :: tl, m, after, h => by
    simp only [wfItems, Bool.and_eq_true] at h
    simp only [postSpaceInCall]; exact postSpaceInCall_of_wfItems ctx tl m after h.2
  | .VE _ _ _ _ :: tl, m, after, h => by
    simp only [wfItems, Bool.and_eq_true] at h
    simp only [postSpaceInCall]; exact postSpaceInCall_of_wfItems ctx tl m after h.2

open Pylx.Doc in
theorem postSpaceInCall_of_WF (ctx : Ctx) (d : List Item) (h : WF ctx d = true) : postSpaceInCall d = true :=
  postSpaceInCall_of_wfItems ctx d false [] h

open Pylx.Doc in
/-- **C03, full statement** (a proposition): for every option set, all library oracles and every well-formed document
    of the core sublanguage, `latex_to_text` of the document's source is the text given by the documented rules.

    Proved in `PylxProofs/C03SCore.lean` (`Pylx.L2T.C03S.C03_full_core`) for every option set and every `CoreText`
    document of the fragment `Doc.Core` on which the exact round trip is proved (`C03S.C02x_core_exact`: the strict parse
    of `unparse d` is exactly the tree `d` was written with, whitespace nodes and post-spaces included;
    `C03S.C03_exact_roundtrip`: so is the tolerant parse `latex_to_text` runs; `C03S.C03_render_erase_congr`: the renderer
    does not depend on positions; `C03S.renderX_spec`: rule by rule the rendering is `specText`).  Outside `Doc.Core`
    (an absent optional argument directly in front of a paragraph break, `\begin` or `\end`) the statement is tied to the
    implementation by the `L2T` / `SPEC` correspondences and the specification oracle of `harness/props/c03.py`.  The
    earlier helper hypothesis `postSpaceInCall d` is implied by the repaired `Doc.WF` (`postSpaceInCall_of_WF`) and was
    dropped. -/
def C03_full : Prop :=
  ∀ (opts : Opts) (lib : Lib) (d : List Item), opts.repaired = true →
    WF Gen.defaultCtx d = true → CoreText d = true →
    latexToText opts lib (unparse d) = .ok (specText opts lib d)

def idLib : Lib := { nfc2 := fun c d => [c, d], upper := fun c => [c], today := ['J'] }

open Pylx.Doc in
/-- `a \alpha b{c} %x⏎␣␣$y \beta z$ \emph{q}~{}\frac{1}{2}\sqrt[3]{x}` -/
def exDocA : List Item :=
  [.T ['a'], .W [' '], .M "alpha".toList [' '] [], .T ['b'], .G [.T ['c']], .W [' '], .C ['x'] ['\n', ' '], .W [' '],
   .F .dollar [.T ['y'], .W [' '], .M "beta".toList [' '] [], .T ['z']], .W [' '], .M "emph".toList [] [.grp [.T ['q']]],
   .S ['~'] [], .G [], .M "frac".toList [] [.grp [.T ['1']], .grp [.T ['2']]], .M "sqrt".toList [] [.br [.T ['3']], .grp [.T ['x']]]]

open Pylx.Doc in
/-- `{a} {bc}\[ u \]⏎⏎\begin{itemize}\item p\end{itemize}\& --` -/
def exDocB : List Item :=
  [.G [.T ['a']], .W [' '], .G [.T ['b', 'c']], .F .brack [.W [' '], .T ['u'], .W [' ']], .P ['\n', '\n'],
   .E "itemize".toList [.absent] [.M "item".toList [' '] [.absent], .T ['p']], .M ['&'] [] [], .W [' '], .S ['-', '-'] []]

set_option maxRecDepth 100000 in
/-- non-vacuity of `postSpaceInCall_of_WF`: the example documents are well formed -/
example : postSpaceInCall exDocA = true ∧ postSpaceInCall exDocB = true :=
  ⟨postSpaceInCall_of_WF Gen.defaultCtx exDocA (by decide +kernel), postSpaceInCall_of_WF Gen.defaultCtx exDocB (by decide +kernel)⟩

set_option maxRecDepth 100000 in
/-- the full statement holds on concrete documents exercising every rule, under the default policy, `based-on-source`,
    strict spaces with kept comments and braces, and the three other math modes (kernel evaluation of parser, renderer
    and `specText`) -/
theorem C03_instances :
    latexToText {} idLib (Doc.unparse exDocA) = .ok (specText {} idLib exDocA) ∧
    latexToText { sls := .basedOnSource } idLib (Doc.unparse exDocA) = .ok (specText { sls := .basedOnSource } idLib exDocA) ∧
    latexToText { sls := .bool true, keepComments := true, keepBraced := true } idLib (Doc.unparse exDocA) =
      .ok (specText { sls := .bool true, keepComments := true, keepBraced := true } idLib exDocA) ∧
    latexToText { mathMode := .withDelims, sls := .exceptInEq } idLib (Doc.unparse exDocA) =
      .ok (specText { mathMode := .withDelims, sls := .exceptInEq } idLib exDocA) ∧
    latexToText {} idLib (Doc.unparse exDocB) = .ok (specText {} idLib exDocB) ∧
    latexToText { sls := .basedOnSource, keepBraced := true } idLib (Doc.unparse exDocB) =
      .ok (specText { sls := .basedOnSource, keepBraced := true } idLib exDocB) ∧
    latexToText { mathMode := .verbatim } idLib (Doc.unparse exDocB) = .ok (specText { mathMode := .verbatim } idLib exDocB) ∧
    latexToText { mathMode := .remove } idLib (Doc.unparse exDocB) = .ok (specText { mathMode := .remove } idLib exDocB) ∧
    Doc.WF Gen.defaultCtx exDocA = true ∧ Doc.WF Gen.defaultCtx exDocB = true ∧ CoreText exDocA = true ∧ CoreText exDocB = true ∧
    postSpaceInCall exDocA = true ∧ postSpaceInCall exDocB = true := by
  decide +kernel

set_option maxRecDepth 100000 in
/-- the texts are not trivial (under `based-on-source` the post-space of `\alpha` comes back and the whitespace-only
    segments between constructs go; `~` is U+00A0) -/
example : specText {} idLib exDocA = ("a ".toList ++ [Char.ofNat 0x3B1] ++ "bc \n  y ".toList ++ [Char.ofNat 0x3B2] ++ " z q".toList ++ [Char.ofNat 0xA0] ++ "1/2".toList ++ [Char.ofNat 0x221A] ++ "(x)".toList) ∧
    specText { sls := .basedOnSource } idLib exDocA = ("a ".toList ++ [Char.ofNat 0x3B1] ++ " bc\n  y ".toList ++ [Char.ofNat 0x3B2] ++ " zq".toList ++ [Char.ofNat 0xA0] ++ "1/2".toList ++ [Char.ofNat 0x221A] ++ "(x)".toList) ∧
    specText {} idLib exDocB = ("a bc\n    u\n\n\n\n  * p& ".toList ++ [Char.ofNat 0x2013]) ∧
    specText { sls := .basedOnSource, keepBraced := true } idLib exDocB = ("a{bc}\n    u\n\n\n\n  *  p&".toList ++ [Char.ofNat 0x2013]) := by
  decide +kernel

/-! ### non-vacuity: the hypotheses of the laws are satisfiable by concrete non-trivial inputs -/

def exEnv : Env := { opts := { sls := .basedOnSource }, db := Gen.defaultTextDb, ctx := Gen.defaultCtx, lib := idLib, src := [] }
/-- `\alpha␣` (bare) -/
def exAlpha : Node := .mac 0 7 {} "alpha".toList [' '] (some [])
/-- `{b}` -/
def exGrp : Node := .group 7 10 {} ['{'] ['}'] (some [.chars 8 9 {} ['b']])
def exB : Node := .chars 7 8 {} ['b']
/-- `\emph{b}` -/
def exEmph : Node := .mac 0 8 {} "emph".toList [] (some [.node exGrp])

set_option maxRecDepth 100000 in
/-- `C03_append_state` with a non-empty boundary text: `\alpha b` under `based-on-source` -/
example : renderList exEnv (parseSls .basedOnSource) none [] ([exAlpha] ++ [exB]) {} =
    andThen (renderList exEnv (parseSls .basedOnSource) none [] [exAlpha] {}) fun a st1 =>
      andThen (renderList exEnv (parseSls .basedOnSource) none [] [exB] st1) fun b st2 => .ok (a ++ [' '] ++ b, st2) :=
  C03_append_state exEnv _ [exAlpha] [exB] [' '] {} (by decide +kernel)

set_option maxRecDepth 100000 in
/-- `C03_append` (plain boundary: the macro is followed by a group, not by characters) -/
example : render { sls := .basedOnSource } Gen.defaultTextDb Gen.defaultCtx idLib [] ([exAlpha] ++ [exGrp]) = .ok ([Char.ofNat 0x3B1] ++ ['b']) :=
  (C03_append { sls := .basedOnSource } Gen.defaultTextDb Gen.defaultCtx idLib [] [exAlpha] [exGrp] [Char.ofNat 0x3B1] ['b']
    (by unfold PlainBoundary; decide +kernel) (by decide +kernel) (by decide +kernel)).1

set_option maxRecDepth 100000 in
/-- `C03_format_transparent` / `C03_format_one_group` on `\emph{b}`, `C03_symbol_macro` on `\alpha`, `C03_symbol_specials` on `~` -/
example : renderNode exEnv (parseSls .macros) exEmph = renderList exEnv (parseSls .macros) none [] [.chars 8 9 {} ['b']] :=
  C03_format_one_group exEnv _ 0 8 {} _ _ 7 10 {} _ _ _ ⟨true, false, .none⟩ (by decide +kernel) rfl rfl rfl
set_option maxRecDepth 100000 in
example : renderNode exEnv (parseSls .macros) exAlpha = R.pure [Char.ofNat 0x3B1] :=
  C03_symbol_macro exEnv _ 0 7 {} _ _ _ ⟨true, true, .lit [Char.ofNat 0x3B1]⟩ _ C03_table_symbols.2.1 rfl (Or.inl (by decide))
set_option maxRecDepth 100000 in
example : renderNode exEnv (parseSls .macros) (.specials 0 1 {} ['~'] (some [])) = R.pure [Char.ofNat 0xA0] := by
  have h := C03_table_specials.1
  cases hl : lookupFirst ['~'] Gen.defaultTextDb.specials with
  | none => rw [hl] at h; cases h
  | some sp =>
    rw [hl] at h
    simp only [Option.map_some, Option.some.injEq] at h
    exact C03_symbol_specials exEnv _ 0 1 {} _ _ sp _ hl h (by decide)

/-- `C03_group_transparent` / `C03_group_braced` on `{b}` -/
example : renderNode exEnv (parseSls .macros) exGrp = renderBody exEnv (parseSls .macros) (some [.chars 8 9 {} ['b']]) :=
  C03_group_transparent exEnv _ 7 10 {} _ _ _ rfl
set_option maxRecDepth 100000 in
example : renderNode { exEnv with opts := { keepBraced := true, minLen := 1 } } (parseSls .macros) exGrp {} = .ok (['{', 'b', '}'], {}) :=
  C03_group_braced { exEnv with opts := { keepBraced := true, minLen := 1 } } _ 7 10 {} _ _ _ {} {} ['b'] rfl (by decide +kernel)

/-- `C03_math_inline` / `C03_math_display`: the hypothesis is `math_mode = 'text'` (the default) -/
example (st : St) : renderNode exEnv (parseSls .macros) (.math 0 3 {} false ['$'] ['$'] (some [exB])) st =
    andThen (renderBody exEnv (parseSls .basedOnSource) (some [exB]) st) fun t st' => .ok (strip t, st') :=
  C03_math_inline exEnv (parseSls .macros) 0 3 {} _ _ _ st rfl

set_option maxRecDepth 100000 in
/-- `C03_bare_macro_space` / `C03_bare_macro_chars`: `x\alpha␣b` -/
example : boundaryPre exEnv (parseSls .basedOnSource) ([.chars 0 1 {} ['x']] ++ [exAlpha]) (exB :: []) = .ok [' '] :=
  C03_bare_macro_chars exEnv (parseSls .basedOnSource) _ _ 0 7 7 8 {} {} _ _ _

set_option maxRecDepth 100000 in
/-- `C03_compose_tree`: the blocks `{b}` and `\emph{b}` (the last node of the first block is not a bare macro; the
    default text database does not list the paragraph specials) -/
example (st : St) := C03_compose_tree exEnv (parseSls .basedOnSource) [exGrp] [exEmph] st
  (by intro l hl; cases hl; exact isBare_notmac exEnv _ (by intro p e ps name post args h; cases h))

/-- `C03_symbol`'s boundary hypotheses hold e.g. between a group, `~` and anything -/
example (ys : List Node) : PlainBoundary exEnv (parseSls .basedOnSource) [exGrp] (.specials 10 11 {} ['~'] (some []) :: ys) :=
  C03_plain_boundary exEnv _ _ _ exGrp _ rfl rfl (Or.inl rfl) ⟨false, isBare_notmac exEnv _ (by intro p e ps name post args h; cases h)⟩

end Pylx.L2T.C03
