/-
  C05BalTok — what one token read by the tokenizer model contributes to the counts of `C05BalScan`:
  for every token `t` read at `p0` under a walker-like parsing state,
  `cnt (s.drop p0) = kindW t + cnt (s.drop t.posEnd)` for every symbol class.
-/
import PylxProofs.C05BalScan
import PylxProofs.C10Lemmas4
namespace Pylx
namespace C05Bal
open Doc

/-! ### weights of tokens -/

def mathW : Sym → Str → Int
  | .dollar, a => (a.count '$' : Nat)
  | .paren, a => if a = ['\\', '('] then 1 else if a = ['\\', ')'] then -1 else 0
  | .brack, a => if a = ['\\', '['] then 1 else if a = ['\\', ']'] then -1 else 0
  | _, _ => 0

def kindW (ctx : Ctx) (k : Sym) (kind : TokKind) (a : Str) : Int :=
  match kind with
  | .braceOpen => if k = .brace ∧ a = ['{'] then 1 else 0
  | .braceClose => if k = .brace ∧ a = ['}'] then -1 else 0
  | .mathInline => mathW k a
  | .mathDisplay => mathW k a
  | .beginEnv => (match k with
    | .env => 1
    | .verb => if envBad ctx a then 1 else 0
    | _ => 0)
  | .endEnv => (match k with
    | .env => -1
    | _ => 0)
  | .macro => (match k with
    | .verb => if macroBad ctx a then 1 else 0
    | _ => 0)
  | _ => 0

/-- the six math delimiters of the walker's default state -/
def sixD : List Str := [['$'], ['\\', '('], ['\\', ')'], ['$', '$'], ['\\', '['], ['\\', ']']]

theorem verbW_paren (ctx : Ctx) {c : Char} (h : c = '(' ∨ c = ')' ∨ c = '[' ∨ c = ']') (r : Str) :
    verbW ctx (c :: r) = 0 := by
  have ha : isAsciiAlpha c = false := by
    rcases h with h | h | h | h <;> (subst h; decide)
  simp only [verbW, ha, Bool.false_eq_true, if_false, if_pos h]

theorem escW_env_nonalpha (ctx : Ctx) {c : Char} (h : isAsciiAlpha c = false) (r : Str) : escW ctx .env (c :: r) = 0 := by
  have : (c :: r).takeWhile isAsciiAlpha = [] := by simp [List.takeWhile, h]
  simp [escW, envW, this, beginW, endW]

theorem escW_math (ctx : Ctx) (k : Sym) {c : Char} (h : c = '(' ∨ c = ')' ∨ c = '[' ∨ c = ']') (r : Str) :
    escW ctx k (c :: r) = mathW k ['\\', c] := by
  have ha : isAsciiAlpha c = false := by
    rcases h with h | h | h | h <;> (subst h; decide)
  cases k with
  | brace => rfl
  | dollar => rcases h with h | h | h | h <;> (subst h; simp [escW, mathW])
  | paren => rcases h with h | h | h | h <;> (subst h; simp [escW, parenW, mathW])
  | brack => rcases h with h | h | h | h <;> (subst h; simp [escW, brackW, mathW])
  | env => rw [escW_env_nonalpha ctx ha]; rfl
  | verb => show verbW ctx (c :: r) = 0; exact verbW_paren ctx h r

theorem cnt_math (ctx : Ctx) (k : Sym) {d : Str} (h : d ∈ sixD) (r : Str) :
    cnt ctx k .n (d ++ r) = mathW k d + cnt ctx k .n r := by
  simp only [sixD, List.mem_cons, List.not_mem_nil, or_false] at h
  rcases h with h | h | h | h | h | h <;> subst h
  · cases k <;> simp [cnt, plainW, mathW]
  · rw [List.cons_append, List.cons_append, List.nil_append, cnt_esc, escW_math ctx k (Or.inl rfl)]
  · rw [List.cons_append, List.cons_append, List.nil_append, cnt_esc, escW_math ctx k (Or.inr (Or.inl rfl))]
  · cases k <;> first | (simp [cnt, plainW, mathW]; done) | (simp [cnt, plainW, mathW]; omega)
  · rw [List.cons_append, List.cons_append, List.nil_append, cnt_esc, escW_math ctx k (Or.inr (Or.inr (Or.inl rfl)))]
  · rw [List.cons_append, List.cons_append, List.nil_append, cnt_esc, escW_math ctx k (Or.inr (Or.inr (Or.inr rfl)))]

/-! ### pairs of group delimiters -/

/-- a pair of group delimiters: `{`…`}` or two plain characters -/
def PairOk (pr : Str × Str) : Prop :=
  pr = (['{'], ['}']) ∨ ∃ a b, pr = ([a], [b]) ∧ plainCh a = true ∧ plainCh b = true

theorem plainCh_ne {c : Char} (h : plainCh c = true) : c ≠ '\\' ∧ c ≠ '%' ∧ c ≠ '{' ∧ c ≠ '}' ∧ c ≠ '$' := by
  unfold plainCh at h
  simp only [Bool.and_eq_true, bne_iff_ne, ne_eq] at h
  exact ⟨h.1.1.1.1, h.1.1.1.2, h.1.1.2, h.1.2, h.2⟩

theorem plainCh_of_ne {c : Char} (h1 : c ≠ '\\') (h2 : c ≠ '%') (h3 : c ≠ '{') (h4 : c ≠ '}') (h5 : c ≠ '$') :
    plainCh c = true := by
  unfold plainCh
  simp only [Bool.and_eq_true, bne_iff_ne, ne_eq]
  exact ⟨⟨⟨⟨h1, h2⟩, h3⟩, h4⟩, h5⟩

/-- opening plus closing delimiter of a pair weigh nothing -/
theorem pair_weight (ctx : Ctx) (k : Sym) {pr : Str × Str} (h : PairOk pr) :
    kindW ctx k .braceOpen pr.1 + kindW ctx k .braceClose pr.2 = 0 := by
  rcases h with h | ⟨a, b, h, ha, hb⟩
  · subst h; cases k <;> simp [kindW]
  · subst h
    have h1 := (plainCh_ne ha).2.2.1
    have h2 := (plainCh_ne hb).2.2.2.1
    simp [kindW, h1, h2]

/-! ### the tokenizer states of a run -/

/-- the facts about a tokenizer state the token lemma uses -/
structure TokF (ps : PState) : Prop where
  esc : ps.f.escapeChar = '\\'
  em : ps.f.enMacros = true
  cs : ps.f.commentStart = ['%']
  ec : ps.f.enComments = true
  eg : ps.f.enGroups = true
  emath : ps.f.enMath = true
  fb : ps.f.forbidden = []
  alpha : ps.f.macroAlpha = C02.alphaStr
  ms : ps.t.mathStart = C02.stdMathStart
  all : ps.t.mathAll = C02.stdMathAll
  expect : ∀ cd, ps.t.expectClose = some cd → cd.1 ∈ sixD
  gopen : ∀ d ∈ ps.t.groupByOpen, PairOk d
  gclose : ∀ c ∈ ps.t.groupClose, ∃ d, PairOk d ∧ d.2 = c
  gbrace : (['{'], ['}']) ∈ ps.t.groupByOpen
  gclose2 : ['}'] ∈ ps.t.groupClose
  keys : ∀ key ∈ ps.f.specials, ∀ c ∈ key, plainCh c = true

/-! ### small list facts -/

theorem dropWhile_all {P : Char → Bool} {w r : Str} (hw : ∀ c ∈ w, P c = true) (hr : headIs P r = false) :
    (w ++ r).dropWhile P = r := by
  induction w with
  | nil =>
    cases r with
    | nil => rfl
    | cons c r => simp only [headIs] at hr; simp [hr]
  | cons c w ih =>
    have := hw c List.mem_cons_self
    simp only [List.cons_append, List.dropWhile, this]
    exact ih (fun x hx => hw x (List.mem_cons_of_mem _ hx))

/-! ### the readers -/

/-- the only tokens the scanner reads differently: `\begin` / `\end` read as plain macros (environments switched off) -/
def Carve (ee : Bool) (t : Token) : Prop := ee = false ∧ t.kind = .macro ∧ (t.arg = beginW ∨ t.arg = endW)

/-- outcome of a reader started at the character at `p` -/
def ResAt (ctx : Ctx) (s : Str) (p : Nat) (ee : Bool) : PeekRes → Prop
  | .tok t => t.pos = p ∧ (Carve ee t ∨ ∀ k, C ctx k s p = kindW ctx k t.kind t.arg + C ctx k s t.posEnd)
  | .eos _ => False
  | .err _ _ _ _ => True

section readers
variable {ctx : Ctx} {ps : PState} {s : Str} {p : Nat} {pre : Str} {c : Char}

theorem C_cons (ctx : Ctx) (k : Sym) (hc : s[p]? = some c) (h1 : c ≠ '\\') (h2 : c ≠ '%') :
    C ctx k s p = plainW k c + C ctx k s (p + 1) := by
  unfold C; rw [drop_cons_of_get hc, cnt_cons ctx k h1 h2]

theorem C_plain (ctx : Ctx) (k : Sym) (hc : s[p]? = some c) (hp : plainCh c = true) :
    C ctx k s p = C ctx k s (p + 1) := by
  unfold C; rw [drop_cons_of_get hc, cnt_plain ctx k hp]

theorem charToken_at (hT : TokF ps) (hc : s[p]? = some c) (hp : plainCh c = true) :
    ResAt ctx s p ps.f.enEnvs (charToken ps c p pre) := by
  unfold charToken
  rw [hT.fb]
  simp only [List.contains_nil, Bool.false_eq_true, if_false]
  refine ⟨rfl, Or.inr (fun k => ?_)⟩
  show C ctx k s p = kindW ctx k .char [c] + C ctx k s (p + 1)
  rw [C_plain ctx k hc hp]
  simp [kindW]

theorem peekSpecialsOrChar_at (hT : TokF ps) (hc : s[p]? = some c) (hp : plainCh c = true) :
    ResAt ctx s p ps.f.enEnvs (peekSpecialsOrChar ps s p c pre) := by
  unfold peekSpecialsOrChar
  split
  · rename_i key hk
    split at hk
    · have hmem := testSpecials_mem hk
      obtain ⟨_, hsw⟩ := testSpecials_spec _ _ _ _ hk
      refine ⟨rfl, Or.inr (fun k => ?_)⟩
      show C ctx k s p = kindW ctx k .specials key + C ctx k s (p + key.length)
      unfold C
      rw [drop_of_startsWith hsw, cnt_plains ctx k (hT.keys key hmem)]
      simp [kindW]
    · cases hk
  · exact charToken_at hT hc hp

theorem peekGroups_at (hT : TokF ps) (hc : s[p]? = some c) (h1 : c ≠ '\\') (h2 : c ≠ '%') (h3 : c ≠ '$') :
    ResAt ctx s p ps.f.enEnvs (peekGroups ps s p c pre) := by
  unfold peekGroups
  rw [hT.eg]
  simp only [if_true]
  split
  · rename_i ho
    rw [List.any_eq_true] at ho
    obtain ⟨d, hd, hdc⟩ := ho
    have hdc : d.1 = [c] := by simpa using hdc
    refine ⟨rfl, Or.inr (fun k => ?_)⟩
    show C ctx k s p = kindW ctx k .braceOpen [c] + C ctx k s (p + 1)
    rw [C_cons ctx k hc h1 h2]
    congr 1
    rcases hT.gopen d hd with h | ⟨a, b, h, ha, hb⟩
    · rw [h] at hdc
      have : c = '{' := by simpa using hdc.symm
      subst this
      cases k <;> simp [plainW, kindW]
    · rw [h] at hdc
      have : c = a := by simpa using hdc.symm
      subst this
      have := plainCh_ne ha
      rw [plainW_plain k ha]
      simp [kindW, this.2.2.1]
  · split
    · rename_i _ hcl
      rw [List.any_eq_true] at hcl
      obtain ⟨d, hd, hdc⟩ := hcl
      have hdc : d = [c] := by simpa using hdc
      subst hdc
      refine ⟨rfl, Or.inr (fun k => ?_)⟩
      show C ctx k s p = kindW ctx k .braceClose [c] + C ctx k s (p + 1)
      rw [C_cons ctx k hc h1 h2]
      congr 1
      obtain ⟨pr, hpr, hpr2⟩ := hT.gclose _ hd
      rcases hpr with h | ⟨a, b, h, ha, hb⟩
      · rw [h] at hpr2
        have : c = '}' := by simpa using hpr2.symm
        subst this
        cases k <;> simp [plainW, kindW]
      · rw [h] at hpr2
        have : c = b := by simpa using hpr2.symm
        subst this
        have := plainCh_ne hb
        rw [plainW_plain k hb]
        simp [kindW, this.2.2.2.1]
    · rename_i hno hnc
      have hb1 : c ≠ '{' := by
        intro e; subst e
        apply hno
        rw [List.any_eq_true]
        exact ⟨_, hT.gbrace, by simp⟩
      have hb2 : c ≠ '}' := by
        intro e; subst e
        apply hnc
        rw [List.any_eq_true]
        exact ⟨['}'], hT.gclose2, by simp⟩
      exact peekSpecialsOrChar_at hT hc (plainCh_of_ne h1 h2 hb1 hb2 h3)

/-! #### comments -/

theorem postSpaceAt_all (s : Str) (e : Nat) : ∀ c ∈ postSpaceAt s e, isPySpace c = true := by
  intro c hc
  unfold postSpaceAt at hc
  dsimp only at hc
  split at hc
  · exact spaceRun_all s e c (List.mem_of_mem_take hc)
  · exact spaceRun_all s e c hc

theorem readComment_at (hT : TokF ps) (hc : s[p]? = some '%') :
    ResAt ctx s p ps.f.enEnvs (readComment ps s p pre) := by
  have hp : ∀ k, C ctx k s p = cnt ctx k .com (s.drop (p + 1)) := by
    intro k; unfold C; rw [drop_cons_of_get hc, cnt_comment]
  unfold readComment
  rw [hT.cs]
  show ResAt ctx s p ps.f.enEnvs (match findCharFrom s '\n' (p + 1) with
    | none => _
    | some nl => _)
  unfold findCharFrom
  cases hf : (s.drop (p + 1)).findIdx? (· == '\n') with
  | none =>
    refine ⟨rfl, Or.inr (fun k => ?_)⟩
    show C ctx k s p = kindW ctx k .comment _ + C ctx k s s.length
    rw [hp k, (cnt_com_find ctx k _).2 hf]
    unfold C
    simp [kindW, cnt]
  | some i =>
    refine ⟨rfl, Or.inr (fun k => ?_)⟩
    show C ctx k s p = kindW ctx k .comment _ + C ctx k s (p + 1 + i + (postSpaceAt s (p + 1 + i)).length)
    rw [hp k, (cnt_com_find ctx k _).1 i hf, List.drop_drop]
    have hget : s[p + 1 + i]? = some '\n' := by
      have := (List.findIdx?_eq_some_iff_getElem.mp hf)
      obtain ⟨hlt, hx, _⟩ := this
      have hx : (s.drop (p + 1))[i] = '\n' := by simpa using hx
      rw [← hx, List.getElem?_eq_getElem (by simp at hlt; omega)]
      simp
    have h1 := C_plain ctx k hget (by decide)
    have h2 := C_ws_skip ctx k (postSpaceAt_prefix s (p + 1 + i)) (postSpaceAt_all s (p + 1 + i)) _ (Nat.le_refl _)
    rw [h2, h1]
    unfold C
    simp only [kindW, Int.zero_add]
    congr 2

theorem startsWith_one (hc : s[p]? = some c) (a : Char) : startsWithAt s [a] p = (a == c) := by
  unfold startsWithAt
  rw [drop_cons_of_get hc]
  simp [List.isPrefixOf]

theorem startsWith_two (hc : s[p]? = some c) {c' : Char} (hc' : s[p + 1]? = some c') (a b : Char) :
    startsWithAt s [a, b] p = (a == c && b == c') := by
  unfold startsWithAt
  rw [drop_cons_of_get hc, drop_cons_of_get hc']
  simp [List.isPrefixOf]

theorem peekComment_at (hT : TokF ps) (hc : s[p]? = some c) (h1 : c ≠ '\\') (h3 : c ≠ '$') :
    ResAt ctx s p ps.f.enEnvs (peekComment ps s p c pre) := by
  unfold peekComment
  rw [hT.ec, hT.cs, startsWith_one hc]
  split
  · rename_i hcond
    have : c = '%' := by
      have h : ('%' == c) = true := by simpa using hcond
      exact (beq_iff_eq.mp h).symm
    subst this
    exact readComment_at hT hc
  · rename_i hcond
    have : c ≠ '%' := by
      intro e; subst e; simp at hcond
    exact peekGroups_at hT hc h1 this h3

/-! #### control sequences -/

theorem alpha_fun (hT : TokF ps) : (fun x => ps.f.macroAlpha.contains x) = isAsciiAlpha := by
  funext x
  rw [hT.alpha, C02.contains_alpha_eq]

theorem headIs_dropWhile (P : Char → Bool) : ∀ l : Str, headIs P (l.dropWhile P) = false := by
  intro l
  induction l with
  | nil => rfl
  | cons a l ih =>
    by_cases ha : P a = true
    · rw [List.dropWhile_cons_of_pos ha]; exact ih
    · rw [List.dropWhile_cons_of_neg ha]
      simpa [headIs] using ha

theorem escW_paren_other (ctx : Ctx) {c : Char} (h1 : c ≠ '(') (h2 : c ≠ ')') (r : Str) : escW ctx .paren (c :: r) = 0 := by
  show parenW (c :: r) = 0
  unfold parenW
  split
  · rename_i heq; cases heq; exact absurd rfl h1
  · rename_i heq; cases heq; exact absurd rfl h2
  · rfl

theorem escW_brack_other (ctx : Ctx) {c : Char} (h1 : c ≠ '[') (h2 : c ≠ ']') (r : Str) : escW ctx .brack (c :: r) = 0 := by
  show brackW (c :: r) = 0
  unfold brackW
  split
  · rename_i heq; cases heq; exact absurd rfl h1
  · rename_i heq; cases heq; exact absurd rfl h2
  · rfl

theorem alpha_not_paren {c : Char} (h : isAsciiAlpha c = true) : c ≠ '(' ∧ c ≠ ')' ∧ c ≠ '[' ∧ c ≠ ']' := by
  refine ⟨?_, ?_, ?_, ?_⟩ <;> (intro e; subst e; revert h; decide)

/-- weight of a control word other than `begin` / `end` -/
theorem escW_word (ctx : Ctx) (k : Sym) {c : Char} {r : Str} (hc : isAsciiAlpha c = true)
    (hb : (c :: r).takeWhile isAsciiAlpha ≠ beginW) (he : (c :: r).takeWhile isAsciiAlpha ≠ endW) :
    escW ctx k (c :: r) = kindW ctx k .macro ((c :: r).takeWhile isAsciiAlpha) := by
  obtain ⟨p1, p2, p3, p4⟩ := alpha_not_paren hc
  cases k with
  | brace => rfl
  | dollar => rfl
  | paren => rw [escW_paren_other ctx p1 p2]; rfl
  | brack => rw [escW_brack_other ctx p3 p4]; rfl
  | env => simp only [escW, envW, if_neg hb, if_neg he]; rfl
  | verb =>
    show verbW ctx (c :: r) = _
    simp only [verbW, hc, if_true, if_neg hb, if_neg he, kindW]

/-- weight of a control symbol (not one of `\( \) \[ \]`) -/
theorem escW_symbol (ctx : Ctx) (k : Sym) {c : Char} (r : Str) (hc : isAsciiAlpha c = false)
    (hp : c ≠ '(' ∧ c ≠ ')' ∧ c ≠ '[' ∧ c ≠ ']') :
    escW ctx k (c :: r) = kindW ctx k .macro [c] := by
  obtain ⟨p1, p2, p3, p4⟩ := hp
  cases k with
  | brace => rfl
  | dollar => rfl
  | paren => rw [escW_paren_other ctx p1 p2]; rfl
  | brack => rw [escW_brack_other ctx p3 p4]; rfl
  | env => rw [escW_env_nonalpha ctx hc]; rfl
  | verb =>
    show verbW ctx (c :: r) = _
    have : ¬ (c = '(' ∨ c = ')' ∨ c = '[' ∨ c = ']') := by
      intro h; rcases h with h | h | h | h <;> contradiction
    simp only [verbW, hc, Bool.false_eq_true, if_false, if_neg this, kindW]

theorem getElem?_drop' (s : Str) (a j : Nat) : (s.drop a)[j]? = s[a + j]? := List.getElem?_drop

/-- the character after a word is not a letter when the word is a maximal run of letters -/
theorem notFollowed_of_word (hT : TokF ps) {R w : Str} (hd : s.drop (p + 1) = R) (hw : R.takeWhile isAsciiAlpha = w) :
    notFollowedByAlpha ps s (p + 1 + w.length) = true := by
  unfold notFollowedByAlpha
  have hsplit : R = w ++ R.dropWhile isAsciiAlpha := by rw [← hw]; exact (List.takeWhile_append_dropWhile).symm
  have hget : s[p + 1 + w.length]? = (R.dropWhile isAsciiAlpha)[0]? := by
    rw [← getElem?_drop', hd]
    conv => lhs; rw [hsplit]
    rw [List.getElem?_append_right (Nat.le_refl _)]
    simp
  rw [hget]
  have hh := headIs_dropWhile isAsciiAlpha R
  cases hdw : R.dropWhile isAsciiAlpha with
  | nil => rfl
  | cons d l =>
    rw [hdw] at hh
    simp only [headIs] at hh
    show (!ps.f.macroAlpha.contains d) = true
    rw [hT.alpha, C02.contains_alpha_eq, hh]; rfl

theorem envWordAt_of_word (hT : TokF ps) (hee : ps.f.enEnvs = true) {R : Str} (hd : s.drop (p + 1) = R)
    (hw : R.takeWhile isAsciiAlpha = beginW ∨ R.takeWhile isAsciiAlpha = endW) : envWordAt ps s p ≠ none := by
  have hsplit : R = R.takeWhile isAsciiAlpha ++ R.dropWhile isAsciiAlpha := (List.takeWhile_append_dropWhile).symm
  unfold envWordAt envWord
  rw [hee]
  simp only [if_true]
  unfold startsWithAt
  rw [hd]
  rcases hw with hw | hw
  · have h1 : ("begin".toList).isPrefixOf R = true := by
      rw [hsplit, hw]; rfl
    have hnf := notFollowed_of_word hT hd hw
    simp only [h1, if_true]
    have : p + 1 + envWordLen true = p + 1 + beginW.length := rfl
    rw [this, hnf]
    simp
  · have h1 : ("begin".toList).isPrefixOf R = false := by
      rw [hsplit, hw]; rfl
    have h2 : ("end".toList).isPrefixOf R = true := by
      rw [hsplit, hw]; rfl
    have hnf := notFollowed_of_word hT hd hw
    simp only [h1, h2, Bool.false_eq_true, if_false, if_true]
    have : p + 1 + envWordLen false = p + 1 + endW.length := rfl
    rw [this, hnf]
    simp

theorem readMacro_at (hT : TokF ps) (hc : s[p]? = some '\\')
    (hnm : ∀ c', s[p + 1]? = some c' → c' ≠ '(' ∧ c' ≠ ')' ∧ c' ≠ '[' ∧ c' ≠ ']')
    (hew : ps.f.enEnvs = true → envWordAt ps s p = none) :
    ResAt ctx s p ps.f.enEnvs (readMacro ps s p pre) := by
  unfold readMacro
  split
  · trivial
  · rename_i c' hc'
    have hd0 := drop_cons_of_get hc
    have hd1 := drop_cons_of_get hc'
    rw [alpha_fun hT]
    have hca : ps.f.macroAlpha.contains c' = isAsciiAlpha c' := by rw [hT.alpha, C02.contains_alpha_eq]
    rw [hca]
    split
    · rename_i ha
      -- a control word
      generalize hrest : (s.drop (p + 2)).takeWhile isAsciiAlpha = rest
      have hpre : rest <+: s.drop (p + 2) := by rw [← hrest]; exact List.takeWhile_prefix _
      have hd2 := drop_of_prefix hpre
      have hword : (c' :: s.drop (p + 2)).takeWhile isAsciiAlpha = c' :: rest := by
        rw [List.takeWhile_cons_of_pos ha, hrest]
      have hrall : ∀ x ∈ rest, isAsciiAlpha x = true := by
        rw [← hrest]; exact takeWhile_all' isAsciiAlpha _
      refine ⟨rfl, ?_⟩
      by_cases hbe : c' :: rest = beginW ∨ c' :: rest = endW
      · by_cases hee : ps.f.enEnvs = true
        · exfalso
          refine envWordAt_of_word hT hee hd1 ?_ (hew hee)
          rw [hword]; exact hbe
        · left
          exact ⟨by simpa using hee, rfl, hbe⟩
      · right
        intro k
        show C ctx k s p = kindW ctx k .macro (c' :: rest) +
          C ctx k s (p + 2 + rest.length + (postSpaceAt s (p + 2 + rest.length)).length)
        have h2 := C_ws_skip ctx k (postSpaceAt_prefix s (p + 2 + rest.length)) (postSpaceAt_all s (p + 2 + rest.length)) _ (Nat.le_refl _)
        rw [h2]
        unfold C
        rw [hd0, hd1, cnt_esc, escW_word ctx k ha (by rw [hword]; exact fun e => hbe (Or.inl e))
          (by rw [hword]; exact fun e => hbe (Or.inr e)), hword]
        congr 1
        rw [hd2, cnt_alphas ctx k hrall]
    · rename_i ha
      have ha : isAsciiAlpha c' = false := by simpa using ha
      refine ⟨rfl, Or.inr (fun k => ?_)⟩
      show C ctx k s p = kindW ctx k .macro [c'] + C ctx k s (p + 2)
      unfold C
      rw [hd0, hd1, cnt_esc, escW_symbol ctx k _ ha (hnm c' hc')]

/-! #### `\begin{name}` / `\end{name}` -/

theorem readEnvName_drop {q : Nat} {name : Str} {e : Nat} (h : readEnvName s q = some (name, e)) :
    ∃ sp, (∀ c ∈ sp, isPySpace c = true) ∧ s.drop q = sp ++ '{' :: (name ++ '}' :: s.drop e) ∧
      (∀ c ∈ name, isEnvNameChar c = true) ∧ name ≠ [] := by
  unfold readEnvName at h
  dsimp only at h
  split at h
  · rename_i hb
    have hall := takeWhile_all' isEnvNameChar (s.drop (q + (spaceRun s q).length + 1))
    have hpre : (s.drop (q + (spaceRun s q).length + 1)).takeWhile isEnvNameChar <+: s.drop (q + (spaceRun s q).length + 1) :=
      List.takeWhile_prefix _
    generalize (s.drop (q + (spaceRun s q).length + 1)).takeWhile isEnvNameChar = nm at h hall hpre
    split at h
    · cases h
    · rename_i hne
      split at h
      · rename_i hcl
        cases h
        have h0 := drop_of_prefix (spaceRun_prefix s q)
        have h1 := drop_cons_of_get hb
        have h2 := drop_of_prefix hpre
        have h3 := drop_cons_of_get hcl
        refine ⟨spaceRun s q, spaceRun_all s q, ?_, hall, ?_⟩
        · rw [h0, h1, h2, h3]
        · intro e; rw [e] at hne; simp at hne
      · cases h
  · cases h

theorem envNameOf_eq {sp name rest : Str} (hsp : ∀ c ∈ sp, isPySpace c = true) (hn : ∀ c ∈ name, isEnvNameChar c = true)
    (hne : name ≠ []) : envNameOf (sp ++ '{' :: (name ++ '}' :: rest)) = some name := by
  unfold envNameOf
  rw [dropWhile_all hsp (by simp [headIs]; decide)]
  have hnall : name.all isEnvNameChar = true := List.all_eq_true.mpr hn
  have h1 : (name ++ '}' :: rest).takeWhile isEnvNameChar = name :=
    C02.takeWhile_all hnall (by simp [headIs]; decide)
  have h2 : (name ++ '}' :: rest).dropWhile isEnvNameChar = '}' :: rest :=
    dropWhile_all hn (by simp [headIs]; decide)
  simp only [h1, h2]
  have : name.isEmpty = false := by
    cases name with
    | nil => exact absurd rfl hne
    | cons a l => rfl
  simp [this]

theorem envWordAt_nf {b : Bool} (h : envWordAt ps s p = some b) :
    notFollowedByAlpha ps s (p + 1 + envWordLen b) = true := by
  unfold envWordAt at h
  cases hw : envWord ps s p with
  | none => rw [hw] at h; cases h
  | some b' =>
    rw [hw] at h
    dsimp only at h
    by_cases hn : notFollowedByAlpha ps s (p + 1 + envWordLen b') = true
    · rw [if_pos hn] at h; cases h; exact hn
    · rw [if_neg hn] at h; cases h

theorem headIs_of_notFollowed (hT : TokF ps) {q : Nat} (h : notFollowedByAlpha ps s q = true) :
    headIs isAsciiAlpha (s.drop q) = false := by
  unfold notFollowedByAlpha at h
  cases hg : s[q]? with
  | none =>
    have : s.drop q = [] := by
      apply List.drop_eq_nil_of_le
      exact List.getElem?_eq_none_iff.mp hg
    rw [this]; rfl
  | some d =>
    rw [hg] at h
    dsimp only at h
    rw [drop_cons_of_get hg]
    simp only [headIs]
    rw [hT.alpha, C02.contains_alpha_eq] at h
    simpa using h

theorem envWordStr_alpha (b : Bool) : (envWordStr b).all isAsciiAlpha = true := by cases b <;> decide

theorem escW_verb (ctx : Ctx) (r : Str) : escW ctx .verb r = verbW ctx r := rfl
theorem escW_env (ctx : Ctx) (r : Str) : escW ctx .env r = envW r := rfl

theorem readEnvironment_at (hT : TokF ps) (hc : s[p]? = some '\\') {b : Bool} (hb : envWordAt ps s p = some b) :
    ResAt ctx s p ps.f.enEnvs (readEnvironment ps s p b pre) := by
  unfold readEnvironment
  split
  · trivial
  · rename_i name e hre
    obtain ⟨sp, hsp, hR, hname, hne⟩ := readEnvName_drop hre
    have hsw := envWordAt_spec hb
    have hnf := headIs_of_notFollowed hT (envWordAt_nf hb)
    have hd0 := drop_cons_of_get hc
    have hd1 := drop_of_startsWith hsw
    rw [envWordStr_length] at hd1
    refine ⟨rfl, Or.inr (fun k => ?_)⟩
    show C ctx k s p = kindW ctx k (if b = true then TokKind.beginEnv else TokKind.endEnv) name + C ctx k s e
    generalize hRR : s.drop (p + 1 + envWordLen b) = R at hd1 hnf hR
    have htw : (envWordStr b ++ R).takeWhile isAsciiAlpha = envWordStr b := C02.takeWhile_all (envWordStr_alpha b) hnf
    have hdw : (envWordStr b ++ R).dropWhile isAsciiAlpha = R :=
      dropWhile_all (List.all_eq_true.mp (envWordStr_alpha b)) hnf
    have hrest : ∀ k, cnt ctx k .n R = plainW k '{' + (plainW k '}' + cnt ctx k .n (s.drop e)) := by
      intro k
      rw [hR, cnt_ws ctx k hsp, cnt_cons ctx k (by decide) (by decide),
        cnt_plains ctx k (fun c hc => envNameChar_plain (hname c hc)), cnt_cons ctx k (by decide) (by decide)]
    unfold C
    rw [hd0, hd1]
    cases b with
    | true =>
      have e1 : envWordStr true = 'b' :: ['e', 'g', 'i', 'n'] := rfl
      rw [e1] at htw hdw ⊢
      rw [List.cons_append, cnt_esc, cnt_alphas ctx k (by decide), hrest k]
      cases k with
      | brace => simp [escW, plainW, kindW]; omega
      | dollar => simp [escW, plainW, kindW]
      | paren => simp [escW, parenW, plainW, kindW]
      | brack => simp [escW, brackW, plainW, kindW]
      | env =>
        have : escW ctx .env ('b' :: (['e', 'g', 'i', 'n'] ++ R)) = 1 := by
          rw [escW_env]
          unfold envW
          rw [← List.cons_append, htw]; rfl
        rw [this]; simp [plainW, kindW]
      | verb =>
        have : escW ctx .verb ('b' :: (['e', 'g', 'i', 'n'] ++ R)) = if envBad ctx name then 1 else 0 := by
          rw [escW_verb]
          unfold verbW
          rw [← List.cons_append, htw, hdw, hR, envNameOf_eq hsp hname hne]
          simp [beginW]
          intro h; exact absurd h (by decide)
        rw [this]; simp [plainW, kindW]
    | false =>
      have e1 : envWordStr false = 'e' :: ['n', 'd'] := rfl
      rw [e1] at htw hdw ⊢
      rw [List.cons_append, cnt_esc, cnt_alphas ctx k (by decide), hrest k]
      cases k with
      | brace => simp [escW, plainW, kindW]; omega
      | dollar => simp [escW, plainW, kindW]
      | paren => simp [escW, parenW, plainW, kindW]
      | brack => simp [escW, brackW, plainW, kindW]
      | env =>
        have : escW ctx .env ('e' :: (['n', 'd'] ++ R)) = -1 := by
          rw [escW_env]
          unfold envW
          rw [← List.cons_append, htw]; rfl
        rw [this]; simp [plainW, kindW]
      | verb =>
        have : escW ctx .verb ('e' :: (['n', 'd'] ++ R)) = 0 := by
          rw [escW_verb]
          unfold verbW
          rw [← List.cons_append, htw]
          simp [beginW, endW]
          intro h; exact absurd h (by decide)
        rw [this]; simp [plainW, kindW]

theorem peekEscape_at (hT : TokF ps) (hc : s[p]? = some c) (hd : c ≠ '$')
    (hnm : c = '\\' → ∀ c', s[p + 1]? = some c' → c' ≠ '(' ∧ c' ≠ ')' ∧ c' ≠ '[' ∧ c' ≠ ']') :
    ResAt ctx s p ps.f.enEnvs (peekEscape ps s p c pre) := by
  unfold peekEscape
  rw [hT.esc]
  split
  · rename_i he
    have he : c = '\\' := by simpa using he
    subst he
    split
    · rename_i b hb
      exact readEnvironment_at hT hc hb
    · rename_i hb
      rw [hT.em]
      simp only [if_true]
      exact readMacro_at hT hc (hnm rfl) (fun _ => hb)
  · rename_i he
    have he : c ≠ '\\' := by simpa using he
    exact peekComment_at hT hc he hd

/-! #### math delimiters -/

theorem stdMathAll_six : ∀ d ∈ C02.stdMathAll, d.1 ∈ sixD := by decide

theorem readMathGeneral_some (hT : TokF ps) {t : Token} (h : readMathGeneral ps s p pre = some t) :
    ∃ d disp, t = mathTok p pre d disp ∧ startsWithAt s d p = true ∧ d ∈ sixD := by
  unfold readMathGeneral at h
  cases hf : ps.t.mathAll.find? (fun d => startsWithAt s d.1 p) with
  | none => rw [hf] at h; cases h
  | some d =>
    rw [hf] at h
    simp only [Option.map_some, Option.some.injEq] at h
    have hmem := List.mem_of_find?_eq_some hf
    rw [hT.all] at hmem
    have hsw : startsWithAt s d.1 p = true := by
      have := List.find?_some hf
      simpa using this
    exact ⟨d.1, d.2, h.symm, hsw, stdMathAll_six d hmem⟩

theorem readMath_some (hT : TokF ps) {t : Token} (h : readMath ps s p pre = some t) :
    ∃ d disp, t = mathTok p pre d disp ∧ startsWithAt s d p = true ∧ d ∈ sixD := by
  unfold readMath at h
  split at h
  · split at h
    · rename_i cd hcd
      split at h
      · rename_i hsw
        cases h
        exact ⟨cd.1, cd.2, rfl, hsw, hT.expect cd hcd⟩
      · exact readMathGeneral_some hT h
    · exact readMathGeneral_some hT h
  · exact readMathGeneral_some hT h

theorem readMathGeneral_none (hT : TokF ps) (h : readMathGeneral ps s p pre = none) :
    ∀ d ∈ C02.stdMathAll, startsWithAt s d.1 p = false := by
  unfold readMathGeneral at h
  cases hf : ps.t.mathAll.find? (fun d => startsWithAt s d.1 p) with
  | some d => rw [hf] at h; cases h
  | none =>
    intro d hd
    rw [hT.all] at hf
    have := List.find?_eq_none.mp hf d hd
    simpa using this

theorem readMath_none (hT : TokF ps) (h : readMath ps s p pre = none) :
    ∀ d ∈ C02.stdMathAll, startsWithAt s d.1 p = false := by
  unfold readMath at h
  split at h
  · split at h
    · split at h
      · cases h
      · exact readMathGeneral_none hT h
    · exact readMathGeneral_none hT h
  · exact readMathGeneral_none hT h

theorem mathTok_pos (p : Nat) (pre d : Str) (disp : Bool) : (mathTok p pre d disp).pos = p := rfl
theorem mathTok_posEnd (p : Nat) (pre d : Str) (disp : Bool) : (mathTok p pre d disp).posEnd = p + d.length := rfl
theorem mathTok_arg (p : Nat) (pre d : Str) (disp : Bool) : (mathTok p pre d disp).arg = d := rfl

theorem kindW_mathTok (ctx : Ctx) (k : Sym) (p : Nat) (pre d : Str) (disp : Bool) :
    kindW ctx k (mathTok p pre d disp).kind (mathTok p pre d disp).arg = mathW k d := by
  cases disp <;> rfl

theorem peekAtChar_at (hT : TokF ps) (hc : s[p]? = some c) :
    ResAt ctx s p ps.f.enEnvs (peekAtChar ps s p c pre) := by
  unfold peekAtChar
  split
  · split
    · rename_i t ht
      obtain ⟨d, disp, rfl, hsw, hd⟩ := readMath_some hT ht
      refine ⟨rfl, Or.inr (fun k => ?_)⟩
      rw [kindW_mathTok, mathTok_posEnd]
      unfold C
      rw [drop_of_startsWith hsw, cnt_math ctx k hd]
    · rename_i hnone
      have hno := readMath_none hT hnone
      refine peekEscape_at hT hc ?_ ?_
      · intro e; subst e
        have := hno (['$'], false) (by decide)
        rw [startsWith_one hc] at this
        simp at this
      · intro e c' hc'
        subst e
        have h1 := hno (['\\', '('], false) (by decide)
        have h2 := hno (['\\', ')'], false) (by decide)
        have h3 := hno (['\\', '['], true) (by decide)
        have h4 := hno (['\\', ']'], true) (by decide)
        rw [startsWith_two hc hc'] at h1 h2 h3 h4
        simp at h1 h2 h3 h4
        exact ⟨fun e => h1 e.symm, fun e => h2 e.symm, fun e => h3 e.symm, fun e => h4 e.symm⟩
  · rename_i hg
    rw [hT.ms, hT.emath] at hg
    have hg : C02.stdMathStart.contains c = false := by simpa using hg
    have h1 : c ≠ '$' := by
      intro e; subst e; revert hg; decide
    have h2 : c ≠ '\\' := by
      intro e; subst e; revert hg; decide
    exact peekEscape_at hT hc h1 (fun e => absurd e h2)

end readers

/-! ### `impl_peek_token` -/

/-- what a read at `p0` guarantees for the counts -/
def ResOk (ctx : Ctx) (s : Str) (p0 : Nat) (ee : Bool) : PeekRes → Prop
  | .tok t => (∀ k, C ctx k s p0 = C ctx k s t.pos) ∧
      (Carve ee t ∨ ∀ k, C ctx k s t.pos = kindW ctx k t.kind t.arg + C ctx k s t.posEnd)
  | .eos fs => ∀ k, C ctx k s p0 = 0 ∧ C ctx k s (p0 + fs.length) = 0
  | .err _ _ _ _ => True

theorem peekPar_ok (ctx : Ctx) (ps : PState) (s : Str) (p0 : Nat) :
    ResOk ctx s p0 ps.f.enEnvs (peekPar ps s p0 (spaceRun s p0)) := by
  have hpre := spaceRun_prefix s p0
  have hall := spaceRun_all s p0
  have h1 := firstNl_le (spaceRun s p0)
  have h2 := lastNlEnd_le (spaceRun s p0)
  have ha : ∀ k, C ctx k s (p0 + firstNl (spaceRun s p0)) = C ctx k s p0 := fun k => C_ws_skip ctx k hpre hall _ h1
  have hb : ∀ k, C ctx k s (p0 + lastNlEnd (spaceRun s p0)) = C ctx k s p0 := fun k => C_ws_skip ctx k hpre hall _ h2
  unfold peekPar
  dsimp only
  split
  · refine ⟨fun k => (ha k).symm, Or.inr (fun k => ?_)⟩
    show C ctx k s (p0 + firstNl (spaceRun s p0)) = kindW ctx k .specials _ + C ctx k s (p0 + lastNlEnd (spaceRun s p0))
    rw [ha, hb]; simp [kindW]
  · refine ⟨fun k => (ha k).symm, Or.inr (fun k => ?_)⟩
    show C ctx k s (p0 + firstNl (spaceRun s p0)) = kindW ctx k .char _ + C ctx k s (p0 + lastNlEnd (spaceRun s p0))
    rw [ha, hb]; simp [kindW]

theorem peekImpl_cnt (ctx : Ctx) {ps : PState} (hT : TokF ps) (s : Str) (p0 : Nat) :
    ResOk ctx s p0 ps.f.enEnvs (peekImpl ps s p0) := by
  have hpre := spaceRun_prefix s p0
  have hall := spaceRun_all s p0
  have hskip : ∀ k, C ctx k s (p0 + (spaceRun s p0).length) = C ctx k s p0 :=
    fun k => C_ws_skip ctx k hpre hall _ (Nat.le_refl _)
  unfold peekImpl
  dsimp only
  split
  · exact peekPar_ok ctx ps s p0
  · split
    · rename_i hnone
      intro k
      rw [← hskip k]
      unfold C
      have : s.drop (p0 + (spaceRun s p0).length) = [] := by
        apply List.drop_eq_nil_of_le
        exact List.getElem?_eq_none_iff.mp hnone
      rw [this]; exact ⟨rfl, rfl⟩
    · rename_i c hc
      have := peekAtChar_at (ctx := ctx) (pre := spaceRun s p0) hT hc
      generalize peekAtChar ps s (p0 + (spaceRun s p0).length) c (spaceRun s p0) = r at this
      cases r with
      | tok t =>
        obtain ⟨hpos, hw⟩ := this
        refine ⟨fun k => by rw [hpos, hskip k], ?_⟩
        rw [hpos]; exact hw
      | eos fs => exact this.elim
      | err w ep t r => trivial

end C05Bal
end Pylx
