/-
  C02 — parsing recovers the structure a well-formed document was written with.

  `C02_full` is the full statement over the document grammar of `Pylx/Doc.lean` (every construct, every context), with
  the repaired separation discipline `Doc.WF` (a control word without written argument and with an empty `post` is not
  followed by whitespace other than a paragraph break; the earlier counterexample `\a x` is excluded, see `cexDoc`).
  It is kept as a proposition.  `C02_core` proves the round trip for the fragment `Doc.Core` (a decidable predicate on
  context and derivation): text of letters / digits / `.,;:`, whitespace items, paragraph breaks (as the `\n\n` specials
  when the context declares them, as plain text otherwise; also directly behind a control word or a comment line), brace
  groups, comments, calls of control-word and control-symbol macros and environments (normal and math bodies, unknown
  names through the context's fallbacks) whose signature (looked up in the context) is made of `m` / `o` / `s` / `t<c>` /
  `r<c1c2>` / `d<c1c2>` slots written as brace groups or single text characters / bracket groups / stars / markers /
  delimited groups or left out (any argument mode deltas), inline and display math with the four delimiter pairs,
  specials without arguments, `\verb`; arbitrary nesting; every context in which no specials string starts with a text
  character, `*`, `[` or `]` — for every derivation of the fragment (unbounded depth and length) and every amount of fuel
  that is large enough (`C02_core_run`), in particular the fuel `parseTop` uses (`C02_core`, `C02_core_ok`).
  Not covered: verbatim environments, `v` arguments, specials with arguments, absent optional arguments directly in front
  of a paragraph break / `\begin` / `\end`.

  Architecture: `Ev` (result for all large fuel) + `run_mono`; `items_reach` / `args_reach` = prefix lemma over every
  collector state, by mutual recursion on the derivation, one lemma per construct (`step_*`, `*_runs`).
-/
import PylxProofs.C02Args
import PylxProofs.C01
namespace Pylx
namespace C02
open Doc

theorem pendSh_ne {w : Str} (h : w.isEmpty = false) : pendSh w = [.chars w] := by
  unfold pendSh; rw [h]; rfl

section constructs
variable {env : Env} {keys : List Str}

/-- `Reaches` with whitespace in hand: the collector stands in front of the whitespace `w` (not yet read) followed by
    text that spells the shapes `trA`; it gets to a state in front of some whitespace `w'` followed by `tail`, and what
    it has produced plus `w'` is what `w` plus `trA` stand for -/
def ReachesW (env : Env) (L : PSFields) (stop : StopTok) (child : ChildPS) (st : LoopSt) (w : Str) (trA : List Shape)
    (tail : Str) : Prop :=
  ∃ tr n w', Reaches env L stop child st tr n ∧ env.s.drop (st.pos + n) = w' ++ tail ∧ isWs w' = true ∧ countNl w' < 2 ∧
    mergeChars (tr ++ pendSh w') = mergeChars (pendSh w ++ trA)

theorem ReachesW.step {L : PSFields} {stop : StopTok} {child : ChildPS} {st : LoopSt} {tr1 : List Shape} {n1 : Nat}
    {w : Str} {x trB : List Shape} {tail : Str} (h1 : Reaches env L stop child st tr1 n1)
    (hm : mergeChars tr1 = mergeChars (pendSh w ++ x))
    (h2 : ∀ st1 : LoopSt, st1.pos = st.pos + n1 → ReachesW env L stop child st1 [] trB tail) :
    ReachesW env L stop child st w (x ++ trB) tail := by
  obtain ⟨st1, hp1, hs1, hk1⟩ := h1
  obtain ⟨tr2, n2, w', ⟨st2, hp2, hs2, hk2⟩, hd2, hw2, hn2, hm2⟩ := h2 st1 hp1
  refine ⟨tr1 ++ tr2, n1 + n2, w', ⟨st2, by omega, ?_, fun R h => hk1 R (hk2 R h)⟩, ?_, hw2, hn2, ?_⟩
  · rw [hs2, ← List.append_assoc]
    exact mergeChars_append_left hs1 tr2
  · rw [← hd2, hp1, Nat.add_assoc]
  · have e1 : mergeChars (tr2 ++ pendSh w') = mergeChars trB := by rw [hm2]; rfl
    rw [List.append_assoc, mergeChars_append_right tr1 e1, mergeChars_append_left hm trB, List.append_assoc]

theorem ReachesW.nil {L : PSFields} {stop : StopTok} {child : ChildPS} {st : LoopSt} {w tail : Str}
    (hd : env.s.drop st.pos = w ++ tail) (hw : isWs w = true) (hn : countNl w < 2) :
    ReachesW env L stop child st w [] tail :=
  ⟨[], 0, w, Reaches.refl env L stop child st, hd, hw, hn, by rw [List.nil_append, List.append_nil]⟩

section text
variable {m : Bool} {br : Xp} {md : Option Str} {stop : StopTok} {child : ChildPS}

/-- one text character behind whitespace -/
theorem reach_char (htol : env.tol = false) (hn : NormOk m md) (hx : XpOk br) (hk : keysCore keys = true) {st : LoopSt} {w : Str} {c : Char}
    {rest : Str} (hd : env.s.drop st.pos = w ++ c :: rest) (hw : isWs w = true) (hnl : countNl w < 2) (hc : isTextChar c = true) :
    Reaches env (stdF keys m md true br) stop child st (pendSh w ++ pendSh [c]) (w.length + 1) := by
  have hps := psStd_std keys m md true br hn
  have hpk : peekImpl (mkPS (stdF keys m md true br)) env.s st.pos = _ :=
    (peekImpl_ws hd hw hnl (textChar_ne hc).2.2.2.2.2).trans (peekAtChar_text hps hx hk (drop_add_of_drop hd) hc)
  have := reach_charTok (stop := stop) (child := child) htol hpk rfl (by show st.pos ≤ st.pos + w.length + 1; omega)
  have e : st.pos + w.length + 1 - st.pos = w.length + 1 := by omega
  simp only [e] at this
  exact this

/-- a run of text characters becomes pending characters -/
theorem reach_letters (htol : env.tol = false) (hn : NormOk m md) (hx : XpOk br) (hk : keysCore keys = true) :
    ∀ (t : Str) (st : LoopSt) (rest : Str), t.all isTextChar = true → env.s.drop st.pos = t ++ rest →
      Reaches env (stdF keys m md true br) stop child st (pendSh t) t.length
  | [], st, _, _, _ => Reaches.refl env _ stop child st
  | c :: t, st, rest, hall, hd => by
    simp only [List.all_cons, Bool.and_eq_true] at hall
    have h1 := reach_char (br := br) (stop := stop) (child := child) (w := []) htol hn hx hk (st := st) (by simpa using hd) rfl (by decide) hall.1
    have h2 := Reaches.trans h1 (fun st1 hp => reach_letters htol hn hx hk t st1 rest hall.2 (by
      rw [hp]; exact drop_succ_of_drop (by simpa using hd)))
    have e : ([] : Str).length + 1 + t.length = (c :: t).length := by simp; omega
    rw [e] at h2
    refine Reaches.congr ?_ h2
    cases t with
    | nil => rfl
    | cons d t => rfl

/-- a text item behind whitespace -/
theorem reach_text (htol : env.tol = false) (hn : NormOk m md) (hx : XpOk br) (hk : keysCore keys = true) {st : LoopSt} {w t rest : Str}
    (hd : env.s.drop st.pos = w ++ (t ++ rest)) (hw : isWs w = true) (hnl : countNl w < 2) (hne : t ≠ [])
    (hall : t.all isTextChar = true) :
    Reaches env (stdF keys m md true br) stop child st (pendSh w ++ [.chars t]) (w.length + t.length) := by
  cases t with
  | nil => exact absurd rfl hne
  | cons c t =>
    simp only [List.all_cons, Bool.and_eq_true] at hall
    have h1 := reach_char (br := br) (stop := stop) (child := child) htol hn hx hk (st := st) (by simpa using hd) hw hnl hall.1
    have h2 := Reaches.trans h1 (fun st1 hp => reach_letters (br := br) htol hn hx hk t st1 rest hall.2 (by
      rw [hp, ← Nat.add_assoc]
      exact drop_succ_of_drop (drop_add_of_drop (by simpa using hd))))
    have e : w.length + 1 + t.length = w.length + (c :: t).length := by simp; omega
    rw [e] at h2
    refine Reaches.congr ?_ h2
    rw [List.append_assoc]
    apply mergeChars_append_right
    cases t with
    | nil => rfl
    | cons d t => rfl

end text

theorem child_same (f : PSFields) (t : Token) : ChildPS.same.get f t = f := rfl

theorem child_group (o : Str) (f : PSFields) (t : Token) : (ChildPS.group o f f).get f t = f := by
  unfold ChildPS.get
  simp

theorem child_br (o : Char) (g K : PSFields) (t : Token) (ho : o ≠ '{') (h : t.kind = .braceOpen → t.arg = ['{']) :
    (ChildPS.group [o] g K).get g t = K := by
  show (if (t.kind == TokKind.braceOpen && t.arg == [o]) = true then g else K) = K
  have : (t.kind == TokKind.braceOpen && t.arg == [o]) = false := by
    cases hk : (t.kind == TokKind.braceOpen) with
    | false => rfl
    | true =>
      have hk' : t.kind = .braceOpen := by
        revert hk; cases t.kind <;> intro hk <;> first | rfl | cases hk
      rw [h hk']
      simp [Ne.symm ho]
  rw [this]
  rfl

theorem stop_brace_math (c : Str) (t : Token) (h : t.kind = .mathInline ∨ t.kind = .mathDisplay) :
    (StopTok.braceClose c).test t = false := by
  rcases h with h | h <;> (simp only [StopTok.test, h]; rfl)

theorem followOk_of_head {c : Char} {r : Str} (hc : isPySpace c = false) (hc2 : c ≠ '\\') : absentFollowOk (c :: r) = true := by
  unfold absentFollowOk
  simp only [List.takeWhile_cons, List.dropWhile_cons, hc, Bool.false_eq_true, if_false]
  have : escSafe (c :: r) = true := by
    unfold escSafe
    split
    · rename_i h; cases h; exact absurd rfl hc2
    · rfl
  rw [this]
  rfl

theorem applyDelta_std (m : Bool) (md : Option Str) (d : Delta) :
    ∃ md', applyDelta (stdF keys m md true) d = stdF keys (deltaMath m d) md' true ∧ (NormOk m md → NormOk (deltaMath m d) md') := by
  cases d with
  | none => exact ⟨md, rfl, fun h => h⟩
  | enterMath => exact ⟨none, rfl, fun _ _ => rfl⟩
  | leaveMath => exact ⟨none, rfl, fun _ _ => rfl⟩

/-- the first character of a non-empty body in math mode is not `$` -/
theorem core_head_not_dollar (ctx : Ctx) (after : Str) : ∀ (b : List Item), coreItems ctx true after b = true →
    ∀ rest, isWs (unparseItems b) = false → headIs (· == '$') (unparseItems b ++ rest) = false
  | [], _, _, h => by simp [unparseItems, isWs] at h
  | .T t :: tl, hc, rest, _ => by
    simp only [coreItems, Bool.and_eq_true, Bool.not_eq_eq_eq_not, Bool.not_true] at hc
    cases t with
    | nil => simp at hc
    | cons c t =>
      have := hc.1.2
      simp only [List.all_cons, Bool.and_eq_true] at this
      have := (textChar_ne this.1).1
      simp [unparseItems, headIs, this]
  | .W w :: tl, hc, rest, _ => by
    simp only [coreItems, Bool.and_eq_true, Bool.not_eq_eq_eq_not, Bool.not_true] at hc
    cases w with
    | nil => simp at hc
    | cons c w =>
      have h1 := hc.1.1.1.2
      simp only [isWs, List.all_cons, Bool.and_eq_true] at h1
      have h2 := h1.1
      have : c ≠ '$' := by intro e; subst e; revert h2; decide
      simp [unparseItems, headIs, this]
  | .G b :: tl, _, rest, _ => by simp [unparseItems, headIs]
  | .C text tail :: tl, _, rest, _ => by simp [unparseItems, headIs]
  | .M name post args :: tl, _, rest, _ => by simp [unparseItems, headIs]
  | .F k b :: tl, hc, rest, _ => by simp [coreItems] at hc
  | .P _ :: _, hc, _, _ => by simp [coreItems] at hc
  | .E _ _ _ :: _, _, rest, _ => by
    simp only [unparseItems, List.append_assoc, beginStr_append, headIs]
    rfl
  | .S name args :: tl, hc, rest, _ => by
    simp only [coreItems, Bool.and_eq_true] at hc
    cases name with
    | nil => simp [headIs] at hc
    | cons c name' =>
      have := (specialsHead_ne (c := c) (by simpa [headIs] using hc.1.1.1.2)).2.2.2.2.2.1
      simp [unparseItems, headIs, this]
  | .V _ _ :: _, _, rest, _ => by
    simp only [unparseItems]
    rfl
  | .VE _ _ _ _ :: _, hc, _, _ => by simp [coreItems] at hc

/-! ### one lemma per construct (the recursive parts are hypotheses) -/

section steps
variable {m : Bool} {md : Option Str}

/-- `{ body }` parsed by the group parser -/
theorem group_node (htol : env.tol = false) (hn : NormOk m md) {q : Nat} {X Y : Str} {trb : List Shape}
    (hd : env.s.drop q = '{' :: X)
    (hbody : ReachesW env (stdF keys m md true) (.braceClose ['}']) (.group ['{'] (stdF keys m md true) (stdF keys m md true))
      { pos := q + 1 } [] trb ('}' :: Y)) :
    ∃ p nd, q ≤ p ∧ env.s.drop p = Y ∧
      Ev env (.pc (.group (.auto ['{']) false false) (stdF keys m md true) q) (.ok (.node nd) p) ∧
      shapeOf nd = .group ['{'] ['}'] (some (normList trb)) := by
  obtain ⟨tr, n, w', hreach, hdrop, hw', hn', hm⟩ := hbody
  have hdrop' : env.s.drop (q + 1 + n) = w' ++ '}' :: Y := hdrop
  have hps := psStd_std keys m md true none hn
  have hpkc : peekImpl (mkPS (stdF keys m md true)) env.s (q + 1 + n) = _ :=
    (peekImpl_ws hdrop' hw' hn' (by decide)).trans (peekAtChar_close hps (drop_add_of_drop hdrop'))
  obtain ⟨a, b, ns, hgen, hsh⟩ := body_runs htol hreach hpkc rfl rfl
  have hgrp := group_runs htol hn hd hgen
  refine ⟨_, _, ?_, drop_succ_of_drop (drop_add_of_drop hdrop'), hgrp, ?_⟩
  · show q ≤ q + 1 + n + w'.length + 1; omega
  · simp only [shapeOf, shapeOfBody]
    rw [normList_congr (hsh.trans hm)]
    rfl

/-- `o body c` parsed by the group parser of a bracket / delimited argument -/
theorem xgroup_node (htol : env.tol = false) (hn : NormOk m md) {o c : Char} (hx : XpOk (some (o, c))) (opt ap : Bool) {q : Nat}
    {X Y : Str} {trb : List Shape} (hd : env.s.drop q = o :: X)
    (hbody : ReachesW env (stdF keys m md true (some (o, c))) (.braceClose [c])
      (.group [o] (stdF keys m md true (some (o, c))) (stdF keys m md true)) { pos := q + 1 } [] trb (c :: Y)) :
    ∃ p nd, q ≤ p ∧ env.s.drop p = Y ∧
      Ev env (.pc (.group (.pair [o] [c]) opt ap) (stdF keys m md true) q) (.ok (.node nd) p) ∧
      shapeOf nd = .group [o] [c] (some (normList trb)) := by
  obtain ⟨tr, n, w', hreach, hdrop, hw', hn', hm⟩ := hbody
  have hdrop' : env.s.drop (q + 1 + n) = w' ++ c :: Y := hdrop
  have hps := psStd_std keys m md true (some (o, c)) hn
  have hpkc : peekImpl (mkPS (stdF keys m md true (some (o, c)))) env.s (q + 1 + n) = _ :=
    (peekImpl_ws hdrop' hw' hn' (xdelim_ne hx.2.1).2.2.2.2.2).trans (peekAtChar_xclose hps hx (drop_add_of_drop hdrop'))
  have hst : ∀ (a b : Nat), (StopTok.braceClose [c]).test { kind := TokKind.braceClose, arg := [c], pos := a, posEnd := b, pre := w' } = true := by
    intro a b
    simp [StopTok.test]
    rfl
  obtain ⟨a, b, ns, hgen, hsh⟩ := body_runs htol hreach hpkc (hst _ _) rfl
  have hgrp := xgroup_runs htol hn hx opt ap hd hgen
  refine ⟨_, _, ?_, drop_succ_of_drop (drop_add_of_drop hdrop'), hgrp, ?_⟩
  · show q ≤ q + 1 + n + w'.length + 1; omega
  · simp only [shapeOf, shapeOfBody]
    rw [normList_congr (hsh.trans hm)]
    rfl

variable {br : Xp} {stop : StopTok} {child : ChildPS}

/-- a brace group in the collector -/
theorem step_group (htol : env.tol = false) (hn : NormOk m md)
    (hch : ∀ t : Token, (t.kind = .braceOpen → t.arg = ['{']) → child.get (stdF keys m md true br) t = stdF keys m md true)
    {st : LoopSt} {w X Y : Str} {trb : List Shape} (hd : env.s.drop st.pos = w ++ ('{' :: X)) (hw : isWs w = true)
    (hnl : countNl w < 2)
    (hbody : ReachesW env (stdF keys m md true) (.braceClose ['}']) (.group ['{'] (stdF keys m md true) (stdF keys m md true))
      { pos := st.pos + w.length + 1 } [] trb ('}' :: Y)) :
    ∃ p, st.pos ≤ p ∧ env.s.drop p = Y ∧
      Reaches env (stdF keys m md true br) stop child st (pendSh w ++ [.group ['{'] ['}'] (some (normList trb))]) (p - st.pos) := by
  have hdq : env.s.drop (st.pos + w.length) = '{' :: X := drop_add_of_drop hd
  obtain ⟨p, nd, hqp, hdp, hgrp, hshape⟩ := group_node htol hn hdq hbody
  have hps := psStd_std keys m md true br hn
  have hpk : peekImpl (mkPS (stdF keys m md true br)) env.s st.pos = _ :=
    (peekImpl_ws hd hw hnl (by decide)).trans (peekAtChar_open hps hdq)
  refine ⟨p, by omega, hdp, ?_⟩
  have := reach_dispatch (stop := stop) (child := child) htol hpk (stop_test_char stop _ (Or.inr (Or.inl rfl))) rfl (by omega)
    (dispatch_group (K := stdF keys m md true) rfl (hch _ (fun _ => rfl)) hgrp)
  rw [hshape] at this
  exact this

/-- a comment with its newline and the whitespace behind it -/
theorem step_comment (htol : env.tol = false) (hn : NormOk m md) {st : LoopSt} {w text post r : Str}
    (hd : env.s.drop st.pos = w ++ ('%' :: (text ++ '\n' :: (post ++ r)))) (hw : isWs w = true) (hnl : countNl w < 2)
    (htext : text.contains '\n' = false) (hws : isWs ('\n' :: post) = true) (hnl2 : countNl ('\n' :: post) < 2)
    (hr : headIs isPySpace r = false) :
    ∃ p, st.pos ≤ p ∧ env.s.drop p = r ∧
      Reaches env (stdF keys m md true br) stop child st (pendSh w ++ [.comment text]) (p - st.pos) := by
  have hdq : env.s.drop (st.pos + w.length) = '%' :: (text ++ '\n' :: (post ++ r)) := drop_add_of_drop hd
  have hps := psStd_std keys m md true br hn
  have hpk : peekImpl (mkPS (stdF keys m md true br)) env.s st.pos = _ :=
    (peekImpl_ws hd hw hnl (by decide)).trans (peekAtChar_comment hps hdq htext hws hnl2 hr)
  refine ⟨st.pos + w.length + 1 + text.length + (1 + post.length), by omega, ?_, ?_⟩
  · have d1 := drop_succ_of_drop hdq
    have d2 := drop_add_of_drop d1
    have d3 := drop_succ_of_drop d2
    have d4 := drop_add_of_drop d3
    rw [← d4]; congr 1; omega
  · exact reach_dispatch (stop := stop) (child := child) htol hpk
      (stop_test_char stop _ (Or.inr (Or.inr (Or.inr (Or.inl rfl))))) rfl
      (by show st.pos ≤ st.pos + w.length + 1 + text.length + (1 + post.length); omega) (dispatch_comment rfl)

/-- a comment in front of a paragraph break: the collector stops right behind the comment's text -/
theorem step_comment_par (htol : env.tol = false) (hn : NormOk m md) {st : LoopSt} {w text R : Str}
    (hd : env.s.drop st.pos = w ++ ('%' :: (text ++ '\n' :: R))) (hw : isWs w = true) (hnl : countNl w < 2)
    (htext : text.contains '\n' = false) (hpar : parStart ('\n' :: R) = true) :
    env.s.drop (st.pos + (w.length + 1 + text.length)) = '\n' :: R ∧
      Reaches env (stdF keys m md true br) stop child st (pendSh w ++ [.comment text]) (w.length + 1 + text.length) := by
  have hdq : env.s.drop (st.pos + w.length) = '%' :: (text ++ '\n' :: R) := drop_add_of_drop hd
  have hps := psStd_std keys m md true br hn
  have hpk : peekImpl (mkPS (stdF keys m md true br)) env.s st.pos = _ :=
    (peekImpl_ws hd hw hnl (by decide)).trans (peekAtChar_comment_par hps hdq htext hpar)
  refine ⟨?_, ?_⟩
  · have d1 := drop_succ_of_drop hdq
    have d2 := drop_add_of_drop d1
    rw [← d2]; congr 1; omega
  · have := reach_dispatch (stop := stop) (child := child) htol hpk
      (stop_test_char stop _ (Or.inr (Or.inr (Or.inr (Or.inl rfl))))) rfl
      (by show st.pos ≤ st.pos + w.length + 1 + text.length; omega) (dispatch_comment rfl)
    have e : st.pos + w.length + 1 + text.length - st.pos = w.length + 1 + text.length := by omega
    rw [e] at this
    exact this

/-- the shape a paragraph break stands for -/
def parShape (ctx : Ctx) (x : Str) : Shape := if parSpec ctx then .specials ['\n', '\n'] [] else .chars x

/-- a paragraph break in the collector -/
theorem reach_par (ctx : Ctx) (htol : env.tol = false) (hn : NormOk m md) (hctx : env.ctx = ctx) (hkeys : ctxKeys ctx = keys)
    (hpc : parCore ctx = true)
    (hch : ∀ t : Token, (t.kind = .braceOpen → t.arg = ['{']) → child.get (stdF keys m md true br) t = stdF keys m md true)
    {st : LoopSt} {x r : Str} (hd : env.s.drop st.pos = x ++ r) (hw : isWs x = true) (hnl : countNl x ≥ 2)
    (hh : x.head? = some '\n') (hl : x.getLast? = some '\n') (hr : headIs isPySpace r = false) :
    Reaches env (stdF keys m md true br) stop child st [parShape ctx x] x.length := by
  have hps := psStd_std keys m md true br hn
  have hpk := peekImpl_par (ps := mkPS (stdF keys m md true br)) hd hw hnl hh hl hr hps.dn
  have hpsp : parSpecials (mkPS (stdF keys m md true br)) = parSpec ctx := by
    unfold parSpecials parSpec
    rw [hps.hc, hps.sp, ← hkeys]
    rfl
  rw [hpsp] at hpk
  unfold parShape
  cases hpsc : parSpec ctx with
  | true =>
    rw [hpsc] at hpk
    simp only [if_true] at hpk ⊢
    have hspec : lookupFirst ['\n', '\n'] env.ctx.specials = some (.std []) := by
      rw [hctx]
      unfold parCore at hpc
      rw [hpsc] at hpc
      simp only [Bool.not_true, Bool.false_or] at hpc
      cases hl : lookupFirst ['\n', '\n'] ctx.specials with
      | none => rw [hl] at hpc; cases hpc
      | some a =>
        rw [hl] at hpc
        cases a with
        | std sig =>
          simp only at hpc
          rw [List.isEmpty_iff.mp hpc]
        | legacyVerb => cases hpc
        | legacyVerbEnv _ _ => cases hpc
        | unknown => cases hpc
    have hcall := specialsCall_runs (t := ({ kind := TokKind.specials, arg := ['\n', '\n'], pos := st.pos, posEnd := st.pos + x.length, pre := [] } : Token))
      (arguments_runs (argsEv_nil (env := env) (stdF keys m md true) [] (st.pos + x.length)))
    have := reach_dispatch (stop := stop) (child := child) htol hpk
      (stop_test_char stop _ (Or.inr (Or.inr (Or.inr (Or.inr (Or.inl rfl)))))) rfl
      (by show st.pos ≤ st.pos + x.length; omega)
      (dispatch_specials (K := stdF keys m md true) rfl hspec (hch _ (fun h => by cases h)) hcall)
    have e : st.pos + x.length - st.pos = x.length := by omega
    rw [e] at this
    exact this
  | false =>
    rw [hpsc] at hpk
    simp only [Bool.false_eq_true, if_false] at hpk ⊢
    have := reach_charTok (stop := stop) (child := child) htol hpk rfl (by show st.pos ≤ st.pos + x.length; omega)
    have e : st.pos + x.length - st.pos = x.length := by omega
    simp only [e] at this
    refine Reaches.congr ?_ this
    have hx : x.isEmpty = false := by
      cases x with
      | nil => cases hh
      | cons c x => rfl
    show mergeChars (pendSh [] ++ pendSh x) = _
    rw [pendSh_ne hx]
    rfl

/-- a macro call in the collector (the control-word token is a hypothesis) -/
theorem step_macro (htol : env.tol = false)
    (hch : ∀ t : Token, (t.kind = .braceOpen → t.arg = ['{']) → child.get (stdF keys m md true br) t = stdF keys m md true)
    {st : LoopSt} {w post X : Str} {c0 : Char} {name' : Str} {al : List Arg} {pA : Nat}
    (hd : env.s.drop st.pos = w ++ ('\\' :: ((c0 :: name') ++ X))) (hw : isWs w = true) (hnl : countNl w < 2)
    (htok : peekAtChar (mkPS (stdF keys m md true br)) env.s (st.pos + w.length) '\\' w =
      .tok { kind := TokKind.macro, arg := (c0 :: name'), pos := st.pos + w.length,
             posEnd := st.pos + w.length + 1 + (c0 :: name').length + post.length, pre := w, post := post })
    {a : ArgsP} {x y : Option Nat} (hspec : env.ctx.macroSpec (c0 :: name') = some a)
    (hargs : Ev env (.pc (.arguments a) (stdF keys m md true) (st.pos + w.length + 1 + (c0 :: name').length + post.length))
      (.ok (.args x y al) pA))
    (hpA : st.pos ≤ pA) :
    Reaches env (stdF keys m md true br) stop child st (pendSh w ++ [.mac (c0 :: name') (some (shapeOfArgList al))]) (pA - st.pos) := by
  have hpk : peekImpl (mkPS (stdF keys m md true br)) env.s st.pos = _ :=
    (peekImpl_ws hd hw hnl (by decide)).trans htok
  have hcall := macroCall_runs (t := ({ kind := TokKind.macro, arg := (c0 :: name'), pos := st.pos + w.length, posEnd := st.pos + w.length + 1 + (c0 :: name').length + post.length, pre := [], post := post } : Token)) hargs
  exact reach_dispatch (stop := stop) (child := child) htol hpk
    (stop_test_char stop _ (Or.inr (Or.inr (Or.inl rfl)))) rfl hpA
    (dispatch_macro (K := stdF keys m md true) rfl hspec (hch _ (fun h => by cases h)) hcall)

theorem stop_endEnv_math (n : Str) (t : Token) (h : t.kind = .mathInline ∨ t.kind = .mathDisplay) :
    (StopTok.endEnv n).test t = false := by
  rcases h with h | h <;> (simp only [StopTok.test, h]; rfl)

theorem envBodyF_eq (bm : Bool) :
    (if bm then applyDelta (stdF keys m md true) .enterMath else stdF keys m md true) =
      stdF keys (m || bm) (if bm then none else md) true := by
  cases bm with
  | true => cases m <;> rfl
  | false => cases m <;> rfl

theorem normOk_envBody (hn : NormOk m md) (bm : Bool) : NormOk (m || bm) (if bm then none else md) := by
  cases bm with
  | true => intro _; rfl
  | false =>
    intro h
    have : m = false := by cases m <;> first | rfl | cases h
    simpa using hn this

/-- an environment in the collector: `\begin{name}`, the arguments, the body up to `\end{name}` -/
theorem step_env (htol : env.tol = false) (hn : NormOk m md)
    (hch : ∀ t : Token, (t.kind = .braceOpen → t.arg = ['{']) → child.get (stdF keys m md true br) t = stdF keys m md true)
    {st : LoopSt} {w name A Y : Str} {sig : List ArgSpec} {bm : Bool} {al : List Arg} {pA : Nat} {trb : List Shape}
    (hd : env.s.drop st.pos = w ++ (beginStr name ++ A)) (hw : isWs w = true) (hnl : countNl w < 2)
    (hne : name ≠ []) (hall : name.all isEnvNameChar = true)
    (hspec : env.ctx.envSpec name = some (.std sig, bm))
    (hargs : ArgsEv env (stdF keys m md true) sig [] (st.pos + w.length + (beginStr name).length) (.ok (.args none none al) pA))
    (hpA : st.pos ≤ pA)
    (hbody : ReachesW env (stdF keys (m || bm) (if bm then none else md) true) (.endEnv name) .same { pos := pA } [] trb
      (endStr name ++ Y)) :
    ∃ p, st.pos ≤ p ∧ env.s.drop p = Y ∧
      Reaches env (stdF keys m md true br) stop child st
        (pendSh w ++ [.env name (some (shapeOfArgList al)) (some (normList trb))]) (p - st.pos) := by
  obtain ⟨tr, n, w', hreach, hdrop, hw', hn', hm⟩ := hbody
  have hdrop' : env.s.drop (pA + n) = w' ++ ('\\' :: (envWordStr false ++ '{' :: (name ++ '}' :: Y))) := by
    rw [← endStr_append]; exact hdrop
  have hnB := normOk_envBody (m := m) (md := md) hn bm
  have hpsB := psStd_std keys (m || bm) (if bm then none else md) true none hnB
  have hpkc : peekImpl (mkPS (stdF keys (m || bm) (if bm then none else md) true)) env.s (pA + n) =
      .tok { kind := TokKind.endEnv, arg := name, pos := pA + n + w'.length,
             posEnd := pA + n + w'.length + 1 + envWordLen false + 1 + name.length + 1, pre := w' } :=
    (peekImpl_ws hdrop' hw' hn' (by decide)).trans
      (peekAtChar_env hpsB (stdExpect_cases _ _) false (drop_add_of_drop hdrop') hne hall)
  have hst : ∀ (a b : Nat), (StopTok.endEnv name).test { kind := TokKind.endEnv, arg := name, pos := a, posEnd := b, pre := w' } = true := by
    intro a b
    simp [StopTok.test]
    rfl
  obtain ⟨a, b, ns, hgen, hsh⟩ := body_runs htol hreach hpkc (hst _ _) rfl
  -- the call
  have hdq : env.s.drop (st.pos + w.length) = '\\' :: (envWordStr true ++ '{' :: (name ++ '}' :: A)) := by
    rw [← beginStr_append]; exact drop_add_of_drop hd
  have hps := psStd_std keys m md true br hn
  have hpk : peekImpl (mkPS (stdF keys m md true br)) env.s st.pos =
      .tok { kind := TokKind.beginEnv, arg := name, pos := st.pos + w.length,
             posEnd := st.pos + w.length + 1 + envWordLen true + 1 + name.length + 1, pre := w } :=
    (peekImpl_ws (c := '\\') (rest := envWordStr true ++ '{' :: (name ++ '}' :: A)) (by rw [hd, beginStr_append]) hw hnl (by decide)).trans
      (peekAtChar_env hps (stdExpect_cases m md) true hdq hne hall)
  have hposA : st.pos + w.length + 1 + envWordLen true + 1 + name.length + 1 = st.pos + w.length + (beginStr name).length := by
    rw [beginStr_length]; omega
  have hgen' : Ev env (.pc (.general (.endEnv name) true .same) (stdF keys (m || bm) (if bm then none else md) true) pA)
      (.ok (.list a b ns) (pA + n + w'.length + 1 + envWordLen false + 1 + name.length + 1)) := hgen
  have hbodyEv := envBody_runs hgen'
  rw [← envBodyF_eq (keys := keys) (m := m) (md := md) bm] at hbodyEv
  have hcall := envCall_runs (K := stdF keys m md true)
    (t := ({ kind := TokKind.beginEnv, arg := name, pos := st.pos + w.length,
             posEnd := st.pos + w.length + 1 + envWordLen true + 1 + name.length + 1, pre := [] } : Token))
    (a := .std sig) (bm := bm) (pos := st.pos + w.length + 1 + envWordLen true + 1 + name.length + 1)
    (by rw [hposA]; exact arguments_runs hargs) hbodyEv
  have hdY : env.s.drop (pA + n + w'.length + 1 + envWordLen false + 1 + name.length + 1) = Y := by
    have h1 := drop_add_of_drop hdrop'
    rw [← endStr_append] at h1
    have h2 := drop_add_of_drop h1
    rw [endStr_length] at h2
    rw [← h2]; congr 1; omega
  refine ⟨pA + n + w'.length + 1 + envWordLen false + 1 + name.length + 1, by omega, hdY, ?_⟩
  have := reach_dispatch (stop := stop) (child := child) htol hpk
    (stop_test_char stop _ (Or.inr (Or.inr (Or.inr (Or.inr (Or.inr rfl)))))) rfl (by omega)
    (dispatch_env (K := stdF keys m md true) (ab := (.std sig, bm)) rfl hspec (hch _ (fun h => by cases h)) hcall)
  have e : shapeOf (Node.env (st.pos + w.length) (pA + n + w'.length + 1 + envWordLen false + 1 + name.length + 1)
      (psInfo (stdF keys m md true)) name (some al) (some ns))
      = .env name (some (shapeOfArgList al)) (some (normList trb)) := by
    simp only [shapeOf, shapeOfArgs, shapeOfBody]
    rw [normList_congr (hsh.trans hm)]
    rfl
  rw [e] at this
  exact this

/-- a specials item in the collector -/
theorem step_specials (htol : env.tol = false) (hn : NormOk m md) (hx : XpOk br)
    (hch : ∀ t : Token, (t.kind = .braceOpen → t.arg = ['{']) → child.get (stdF keys m md true br) t = stdF keys m md true)
    {st : LoopSt} {w R : Str} {c : Char} {name' : Str}
    (hd : env.s.drop st.pos = w ++ ((c :: name') ++ R)) (hw : isWs w = true) (hnl : countNl w < 2)
    (hc : specialsHeadOk c = true) (hts : testSpecials keys ((c :: name') ++ R) 0 = some (c :: name'))
    (hspec : lookupFirst (c :: name') env.ctx.specials = some (.std [])) :
    Reaches env (stdF keys m md true br) stop child st (pendSh w ++ [.specials (c :: name') []]) (w.length + (c :: name').length) := by
  have hdq : env.s.drop (st.pos + w.length) = (c :: name') ++ R := drop_add_of_drop hd
  have hps := psStd_std keys m md true br hn
  have hcs := specialsHead_ne hc
  have hpk : peekImpl (mkPS (stdF keys m md true br)) env.s st.pos = _ :=
    (peekImpl_ws (c := c) (rest := name' ++ R) (by rw [hd]; rfl) hw hnl hcs.1).trans (peekAtChar_specials hps hx hdq hc hts)
  have hcall := specialsCall_runs (t := ({ kind := TokKind.specials, arg := (c :: name'), pos := st.pos + w.length, posEnd := st.pos + w.length + (c :: name').length, pre := [] } : Token))
    (arguments_runs (argsEv_nil (env := env) (stdF keys m md true) [] (st.pos + w.length + (c :: name').length)))
  have := reach_dispatch (stop := stop) (child := child) htol hpk
    (stop_test_char stop _ (Or.inr (Or.inr (Or.inr (Or.inr (Or.inl rfl)))))) rfl
    (by show st.pos ≤ st.pos + w.length + (c :: name').length; omega)
    (dispatch_specials (K := stdF keys m md true) rfl hspec (hch _ (fun h => by cases h)) hcall)
  have e : st.pos + w.length + (c :: name').length - st.pos = w.length + (c :: name').length := by omega
  rw [e] at this
  exact this

end steps

/-- math in the collector -/
theorem step_math (htol : env.tol = false) (k : FKind) {br : Xp} {stop : StopTok} {child : ChildPS}
    (hch : ∀ t : Token, (t.kind = .braceOpen → t.arg = ['{']) → child.get (stdF keys false none true br) t = stdF keys false none true)
    (hstop : ∀ t : Token, t.kind = .mathInline ∨ t.kind = .mathDisplay → stop.test t = false)
    {st : LoopSt} {w X Y : Str} {trb : List Shape} (hd : env.s.drop st.pos = w ++ (k.opener ++ X)) (hw : isWs w = true)
    (hnl : countNl w < 2) (hdollar : k = .dollar → headIs (· == '$') X = false)
    (hbody : ReachesW env (stdF keys true (some k.opener) true) (.mathClose k.display k.closer) .same
      { pos := st.pos + w.length + k.opener.length } [] trb (k.closer ++ Y)) :
    ∃ p, st.pos ≤ p ∧ env.s.drop p = Y ∧
      Reaches env (stdF keys false none true br) stop child st
        (pendSh w ++ [.math k.display k.opener k.closer (some (normList trb))]) (p - st.pos) := by
  have hdq : env.s.drop (st.pos + w.length) = k.opener ++ X := drop_add_of_drop hd
  obtain ⟨tr, n, w', hreach, hdrop, hw', hn', hm⟩ := hbody
  have hdrop' : env.s.drop (st.pos + w.length + k.opener.length + n) = w' ++ (k.closer ++ Y) := hdrop
  -- the closer
  obtain ⟨cc, rc, hcc⟩ : ∃ c r0, k.closer = c :: r0 := by cases k <;> exact ⟨_, _, rfl⟩
  have hccs : isPySpace cc = false := by cases k <;> (cases hcc; decide)
  have hpsM : PSStd keys true true (some (k.closer, k.display)) none (mkPS (stdF keys true (some k.opener) true)) := by
    have := psStd_std keys true (some k.opener) true none (normOk_true _)
    rw [stdExpect_opener] at this
    exact this
  have hpkc : peekImpl (mkPS (stdF keys true (some k.opener) true)) env.s (st.pos + w.length + k.opener.length + n) =
      .tok (mathTok (st.pos + w.length + k.opener.length + n + w'.length) w' k.closer k.display) :=
    (peekImpl_ws (c := cc) (rest := rc ++ Y) (by rw [hdrop', hcc]; rfl) hw' hn' hccs).trans
      (peekAtChar_mathClose k hpsM (drop_add_of_drop hdrop') (by rw [hcc]; rfl))
  have hst : (StopTok.mathClose k.display k.closer).test (mathTok (st.pos + w.length + k.opener.length + n + w'.length) w' k.closer k.display) = true := by
    cases k <;> rfl
  obtain ⟨a, b, ns, hgen, hsh⟩ := body_runs htol hreach hpkc hst rfl
  have hmath := math_runs htol k hdq hdollar hgen
  -- the opener
  obtain ⟨co, ro, hco⟩ : ∃ c r0, k.opener = c :: r0 := by cases k <;> exact ⟨_, _, rfl⟩
  have hcos : isPySpace co = false := by cases k <;> (cases hco; decide)
  have hps := psStd_std keys false none true br (fun _ => rfl)
  have hpk : peekImpl (mkPS (stdF keys false none true br)) env.s st.pos = .tok (mathTok (st.pos + w.length) w k.opener k.display) :=
    (peekImpl_ws (c := co) (rest := ro ++ X) (by rw [hd, hco]; rfl) hw hnl hcos).trans
      (peekAtChar_mathOpen hps k hdq hdollar (by rw [hco]; rfl))
  have hkindm : (mathTok (st.pos + w.length) w k.opener k.display).kind = .mathInline ∨ (mathTok (st.pos + w.length) w k.opener k.display).kind = .mathDisplay := by
    cases k <;> first | exact Or.inl rfl | exact Or.inr rfl
  have hkc : ((mathTok (st.pos + w.length) w k.opener k.display).kind == TokKind.char) = false := by cases k <;> rfl
  have hopen : (mkPS (stdF keys false none true br)).t.mathByOpen.any (fun d => d.1 == k.opener) = true := by
    rw [hps.byOpen]; cases k <;> rfl
  have harg : k.opener ≠ ['['] := by cases k <;> decide
  have hposEnd : (mathTok (st.pos + w.length + k.opener.length + n + w'.length) w' k.closer k.display).posEnd
      = st.pos + w.length + k.opener.length + n + w'.length + k.closer.length := rfl
  rw [hposEnd] at hgen hmath
  refine ⟨st.pos + w.length + k.opener.length + n + w'.length + k.closer.length, by omega, ?_, ?_⟩
  · exact drop_add_of_drop (drop_add_of_drop hdrop')
  · have := reach_dispatch (stop := stop) (child := child) htol hpk (hstop _ hkindm) hkc (by omega)
      (dispatch_math (K := stdF keys false none true) (tk := { mathTok (st.pos + w.length) w k.opener k.display with pre := [] })
        hkindm (hch _ (fun h => by cases k <;> cases h)) hopen hmath)
    have e : shapeOf (Node.math (st.pos + w.length) (st.pos + w.length + k.opener.length + n + w'.length + k.closer.length)
        (psInfo (stdF keys false none true)) k.display k.opener k.closer (some ns))
        = .math k.display k.opener k.closer (some (normList trb)) := by
      simp only [shapeOf, shapeOfBody]
      rw [normList_congr (hsh.trans hm)]
      rfl
    rw [e] at this
    exact this

/-- a comment followed by something that is not whitespace, the rest being handled by `hrec` -/
theorem comment_then (ctx : Ctx) (htol : env.tol = false) {m : Bool} {md : Option Str} (hn : NormOk m md) {br : Xp}
    {stop : StopTok} {child : ChildPS} {X : List Item} {text ind after w : Str} {st : LoopSt}
    (hprev : treeRaw ctx (some ('\n' :: ind)) X = treeRaw ctx none X)
    (hd : env.s.drop st.pos = w ++ (unparseItems (.C text ('\n' :: ind) :: X) ++ after)) (hw : isWs w = true)
    (hnl : countNl w < 2) (htext : text.contains '\n' = false) (hws : isWs ('\n' :: ind) = true)
    (hnl2 : countNl ('\n' :: ind) < 2) (hhead2 : headIs isPySpace (unparseItems X ++ after) = false)
    (hrec : ∀ (st : LoopSt) (w : Str), isWs w = true → countNl w < 2 →
      (w = [] ∨ headIs isPySpace (unparseItems X ++ after) = false) →
      env.s.drop st.pos = w ++ (unparseItems X ++ after) →
      ReachesW env (stdF keys m md true br) stop child st w (treeRaw ctx none X) after) :
    ReachesW env (stdF keys m md true br) stop child st w (treeRaw ctx none (.C text ('\n' :: ind) :: X)) after := by
  have hd' : env.s.drop st.pos = w ++ ('%' :: (text ++ '\n' :: (ind ++ (unparseItems X ++ after)))) := by
    rw [hd]; simp only [unparseItems, List.cons_append, List.append_assoc]
  obtain ⟨p, hp, hdp, hr⟩ := step_comment (br := br) (stop := stop) (child := child) htol hn hd' hw hnl htext hws hnl2 hhead2
  have := ReachesW.step hr rfl (fun st1 hp1 => hrec st1 [] rfl (by decide) (Or.inl rfl) (by
    have e : st.pos + (p - st.pos) = p := by omega
    rw [hp1, e]; exact hdp))
  simpa only [treeRaw, hprev, List.singleton_append] using this

theorem argKind_t_of_beq (k : ArgKind) (c : Char) (h : (k == ArgKind.t c) = true) : k = .t c := by
  cases k with
  | t c' =>
    have : c' = c := by
      by_cases e : c' = c
      · exact e
      · exfalso
        have : (ArgKind.t c' == ArgKind.t c) = decide (c' = c) := rfl
        rw [this] at h
        simp [e] at h
    rw [this]
  | _ => cases h
theorem argKind_r_of_beq (k : ArgKind) (o c : Char) (h : (k == ArgKind.r o c) = true) : k = .r o c := by
  cases k with
  | r o' c' =>
    have : (ArgKind.r o' c' == ArgKind.r o c) = (decide (o' = o) && decide (c' = c)) := rfl
    rw [this] at h
    simp at h
    rw [h.1, h.2]
  | _ => cases h
theorem argKind_d_of_beq (k : ArgKind) (o c : Char) (h : (k == ArgKind.d o c) = true) : k = .d o c := by
  cases k with
  | d o' c' =>
    have : (ArgKind.d o' c' == ArgKind.d o c) = (decide (o' = o) && decide (c' = c)) := rfl
    rw [this] at h
    simp at h
    rw [h.1, h.2]
  | _ => cases h

theorem argKind_s_of_beq (k : ArgKind) (h : (k == ArgKind.s) = true) : k = .s := by
  cases k <;> first | rfl | cases h

theorem argKind_m_of_beq (k : ArgKind) (h : (k == ArgKind.m) = true) : k = .m := by
  cases k <;> first | rfl | cases h

theorem parStart_of {x r : Str} (hw : isWs x = true) (hn : countNl x ≥ 2) (hh : x.head? = some '\n')
    (hr : headIs isPySpace r = false) : parStart (x ++ r) = true := by
  unfold parStart
  rw [takeWhile_ws hw hr]
  cases x with
  | nil => cases hh
  | cons c x =>
    simp only [List.cons_append, List.head?_cons] at hh ⊢
    simp [hh, hn]

/-! ### the prefix lemma, by recursion on the derivation -/

mutual
/-- **prefix lemma.**  With the collector in front of `w ++ unparse a ++ after` (`w` whitespace not yet read; any
    pending characters, any accumulated nodes, any stop condition), it produces the structure of `a` and stands in
    front of (whitespace and) `after`. -/
theorem items_reach (ctx : Ctx) (htol : env.tol = false) (hk : keysCore keys = true) (hctx : env.ctx = ctx)
    (hkeys : ctxKeys ctx = keys) :
    ∀ (a : List Item) (m : Bool) (after : Str), coreItems ctx m after a = true → ∀ (md : Option Str), NormOk m md →
      ∀ (br : Xp) (stop : StopTok) (child : ChildPS), XpOk br →
      (∀ t : Token, (t.kind = .braceOpen → t.arg = ['{']) → child.get (stdF keys m md true br) t = stdF keys m md true) →
      (m = false → ∀ t : Token, t.kind = .mathInline ∨ t.kind = .mathDisplay → stop.test t = false) →
      ∀ (st : LoopSt) (w : Str), isWs w = true → countNl w < 2 →
        (w = [] ∨ headIs isPySpace (unparseItems a ++ after) = false) →
        env.s.drop st.pos = w ++ (unparseItems a ++ after) →
        ReachesW env (stdF keys m md true br) stop child st w (treeRaw ctx none a) after
  | [], m, after, _, md, _, br, stop, child, _, _, _, st, w, hw, hnl, _, hd => by
    simp only [unparseItems, List.nil_append] at hd
    simpa only [treeRaw] using ReachesW.nil hd hw hnl
  | .T t :: tl, m, after, hc, md, hn, br, stop, child, hx, hch, hsm, st, w, hw, hnl, _, hd => by
    simp only [coreItems, Bool.and_eq_true, Bool.not_eq_eq_eq_not, Bool.not_true] at hc
    obtain ⟨⟨hne, hall⟩, htl⟩ := hc
    simp only [unparseItems, List.append_assoc] at hd
    have h1 := reach_text (br := br) (stop := stop) (child := child) htol hn hx hk hd hw hnl
      (by intro e; rw [e] at hne; simp at hne) hall
    have := ReachesW.step h1 rfl (fun st1 hp => items_reach ctx htol hk hctx hkeys tl m after htl md hn br stop child hx hch hsm
      st1 [] rfl (by decide) (Or.inl rfl) (by
        rw [hp, ← Nat.add_assoc]; exact drop_add_of_drop (drop_add_of_drop hd)))
    simpa only [treeRaw, List.singleton_append] using this
  | .W w2 :: tl, m, after, hc, md, hn, br, stop, child, hx, hch, hsm, st, w, hw, hnl, hpre, hd => by
    simp only [coreItems, Bool.and_eq_true, Bool.not_eq_eq_eq_not, Bool.not_true, decide_eq_true_eq] at hc
    obtain ⟨⟨⟨⟨hne, hws⟩, hnl2⟩, hhead⟩, htl⟩ := hc
    have hw0 : w = [] := by
      rcases hpre with h | h
      · exact h
      · exfalso
        cases w2 with
        | nil => simp at hne
        | cons c w2 =>
          simp only [isWs, List.all_cons, Bool.and_eq_true] at hws
          simp [unparseItems, headIs, hws.1] at h
    subst hw0
    simp only [unparseItems, List.append_assoc, List.nil_append] at hd
    obtain ⟨tr, n, w', h1, h2, h3, h4, h5⟩ := items_reach ctx htol hk hctx hkeys tl m after htl md hn br stop child hx hch hsm
      st w2 hws hnl2 (Or.inr hhead) hd
    refine ⟨tr, n, w', h1, h2, h3, h4, ?_⟩
    rw [h5, pendSh_ne hne]
    simp only [treeRaw, pendSh, List.isEmpty_nil, if_true, List.nil_append, List.singleton_append]
  | .G b :: tl, m, after, hc, md, hn, br, stop, child, hx, hch, hsm, st, w, hw, hnl, _, hd => by
    simp only [coreItems, Bool.and_eq_true] at hc
    obtain ⟨hb, htl⟩ := hc
    simp only [unparseItems, List.cons_append, List.append_assoc] at hd
    have hd1 : env.s.drop (st.pos + w.length + 1) = [] ++ (unparseItems b ++ '}' :: (unparseItems tl ++ after)) :=
      drop_succ_of_drop (drop_add_of_drop hd)
    have hbody := items_reach ctx htol hk hctx hkeys b m ('}' :: (unparseItems tl ++ after)) hb md hn none (.braceClose ['}'])
      (.group ['{'] (stdF keys m md true) (stdF keys m md true)) trivial (fun t _ => child_group _ _ t)
      (fun _ t ht => stop_brace_math _ t ht) { pos := st.pos + w.length + 1 } [] rfl (by decide) (Or.inl rfl) hd1
    obtain ⟨p, hp, hdp, hr⟩ := step_group (br := br) (stop := stop) (child := child) htol hn hch hd hw hnl hbody
    have := ReachesW.step hr rfl (fun st1 hp1 => items_reach ctx htol hk hctx hkeys tl m after htl md hn br stop child hx hch hsm
      st1 [] rfl (by decide) (Or.inl rfl) (by
        have e : st.pos + (p - st.pos) = p := by omega
        rw [hp1, e]; exact hdp))
    simpa only [treeRaw, List.singleton_append] using this
  | .C text tail :: tl, m, after, hc, md, hn, br, stop, child, hx, hch, hsm, st, w, hw, hnl, _, hd => by
    cases htlq : tl with
    | nil =>
      rw [htlq] at hc hd
      rw [coreItems] at hc
      rotate_left
      · intro _ _ h; cases h
      · intro _ _ h; cases h
      simp only [Bool.and_eq_true, Bool.not_eq_eq_eq_not, Bool.not_true, decide_eq_true_eq, beq_iff_eq] at hc
      obtain ⟨⟨⟨⟨⟨htext, hhead⟩, hws⟩, hnl2⟩, hhead2⟩, htl⟩ := hc
      cases tail with
      | nil => simp at hhead
      | cons c0 ind =>
        have hc0 : c0 = '\n' := by simpa using hhead
        subst hc0
        exact comment_then ctx htol hn (by simp only [treeRaw]) hd hw hnl htext hws hnl2 hhead2
          (fun st1 w1 hw1 hnl1 _ hd1 => by
            simp only [unparseItems, List.nil_append] at hd1
            simpa only [treeRaw] using ReachesW.nil hd1 hw1 hnl1)
    | cons it tl' =>
      rw [htlq] at hc hd
      have hrecA := fun htl => items_reach ctx htol hk hctx hkeys (it :: tl') m after htl md hn br stop child hx hch hsm
      cases it with
      | W w2 =>
        simp only [coreItems, Bool.and_eq_true, Bool.not_eq_eq_eq_not, Bool.not_true, decide_eq_true_eq, beq_iff_eq] at hc
        obtain ⟨⟨⟨⟨⟨htext, hhead⟩, hws⟩, hnl2⟩, hw20⟩, ⟨⟨⟨_, hws2⟩, _⟩, hhead2⟩, htl⟩ := hc
        cases tail with
        | nil => simp at hhead
        | cons c0 ind =>
          have hc0 : c0 = '\n' := by simpa using hhead
          subst hc0
          simp only [unparseItems, List.cons_append, List.append_assoc] at hd
          have hd' : env.s.drop st.pos = w ++ ('%' :: (text ++ '\n' :: ((ind ++ w2) ++ (unparseItems tl' ++ after)))) := by
            rw [hd]; simp only [List.append_assoc]
          have hwsp : isWs ('\n' :: (ind ++ w2)) = true := by
            simp only [isWs, List.all_cons, List.all_append, Bool.and_eq_true] at hws hws2 ⊢
            exact ⟨hws.1, hws.2, hws2⟩
          have hnlp : countNl ('\n' :: (ind ++ w2)) < 2 := by
            have : countNl ('\n' :: (ind ++ w2)) = countNl ('\n' :: ind) + countNl w2 := by
              simp only [countNl, List.count_cons, List.count_append]; omega
            omega
          obtain ⟨p, hp, hdp, hr⟩ := step_comment (br := br) (stop := stop) (child := child) htol hn hd' hw hnl htext hwsp hnlp hhead2
          have := ReachesW.step hr rfl (fun st1 hp1 => items_reach ctx htol hk hctx hkeys tl' m after htl md hn br stop child hx hch hsm
            st1 [] rfl (by decide) (Or.inl rfl) (by
              have e : st.pos + (p - st.pos) = p := by omega
              rw [hp1, e]; exact hdp))
          simpa only [treeRaw, List.singleton_append] using this
      | P w2 =>
        simp only [coreItems, Bool.and_eq_true, Bool.not_eq_eq_eq_not, Bool.not_true, decide_eq_true_eq, beq_iff_eq, and_true] at hc
        obtain ⟨⟨⟨⟨htext, hhead⟩, hws⟩, hnl2⟩, ⟨⟨⟨⟨⟨⟨hm, hws2⟩, hnl3⟩, hh2⟩, hl2⟩, hhead2⟩, hpc⟩, htl⟩ := hc
        cases tail with
        | nil => simp at hhead
        | cons c0 ind =>
          have hc0 : c0 = '\n' := by simpa using hhead
          subst hc0
          simp only [unparseItems, List.cons_append, List.append_assoc] at hd
          have hxw : isWs ('\n' :: (ind ++ w2)) = true := by
            simp only [isWs, List.all_cons, List.all_append, Bool.and_eq_true] at hws hws2 ⊢
            exact ⟨hws.1, hws.2, hws2⟩
          have hxn : countNl ('\n' :: (ind ++ w2)) ≥ 2 := by
            have : countNl ('\n' :: (ind ++ w2)) = countNl ('\n' :: ind) + countNl w2 := by
              simp only [countNl, List.count_cons, List.count_append]; omega
            omega
          have hxl : ('\n' :: (ind ++ w2)).getLast? = some '\n' := by
            have : ('\n' :: (ind ++ w2)) = ('\n' :: ind) ++ w2 := rfl
            rw [this, List.getLast?_append, hl2]
            rfl
          have hpar : parStart ('\n' :: (ind ++ (w2 ++ (unparseItems tl' ++ after)))) = true := by
            have := parStart_of (x := '\n' :: (ind ++ w2)) (r := unparseItems tl' ++ after) hxw hxn rfl hhead2
            simpa only [List.cons_append, List.append_assoc] using this
          obtain ⟨hdp, hr1⟩ := step_comment_par (br := br) (stop := stop) (child := child) htol hn hd hw hnl htext hpar
          have hr2 := Reaches.trans hr1 (fun st1 hp1 => reach_par (br := br) (stop := stop) (child := child) (st := st1)
            (x := '\n' :: (ind ++ w2)) (r := unparseItems tl' ++ after) ctx htol hn hctx hkeys hpc hch
            (by rw [hp1, hdp]; simp only [List.cons_append, List.append_assoc]) hxw hxn rfl hxl hhead2)
          have := ReachesW.step hr2 (by rw [List.append_assoc]) (fun st1 hp1 => items_reach ctx htol hk hctx hkeys tl' m after htl md hn br stop child hx hch hsm
            st1 [] rfl (by decide) (Or.inl rfl) (by
              have := drop_add_of_drop (a := '\n' :: (ind ++ w2)) (rest := unparseItems tl' ++ after)
                (by rw [hdp]; simp only [List.cons_append, List.append_assoc] : env.s.drop (st.pos + (w.length + 1 + text.length)) = _)
              rw [hp1, List.nil_append, ← this]
              congr 1
              omega))
          simpa only [treeRaw, parShape, Option.getD_some, List.cons_append, List.nil_append, List.singleton_append] using this
      | _ =>
        first
        | (simp [coreItems] at hc; done)
        | (rw [coreItems] at hc
           rotate_left
           · intro _ _ h; cases h
           · intro _ _ h; cases h
           simp only [Bool.and_eq_true, Bool.not_eq_eq_eq_not, Bool.not_true, decide_eq_true_eq, beq_iff_eq] at hc
           obtain ⟨⟨⟨⟨⟨htext, hhead⟩, hws⟩, hnl2⟩, hhead2⟩, htl⟩ := hc
           cases tail with
           | nil => simp at hhead
           | cons c0 ind =>
             have hc0 : c0 = '\n' := by simpa using hhead
             subst hc0
             exact comment_then ctx htol hn (by simp only [treeRaw]) hd hw hnl htext hws hnl2 hhead2 (hrecA htl))
  | .M name post args :: tl, m, after, hc, md, hn, br, stop, child, hx, hch, hsm, st, w, hw, hnl, _, hd => by
    simp only [coreItems, Bool.and_eq_true] at hc
    obtain ⟨⟨hhdr, hargs⟩, htl⟩ := hc
    cases hms : ctx.macroSpec name with
    | none => rw [hms] at hargs; cases hargs
    | some a =>
      cases a with
      | std sig =>
        rw [hms] at hargs
        simp only at hargs
        -- the token of the call and the position behind it
        have htokA : ∃ (c0 : Char) (name' : Str), name = c0 :: name' ∧
            peekAtChar (mkPS (stdF keys m md true br)) env.s (st.pos + w.length) '\\' w =
              .tok { kind := TokKind.macro, arg := (c0 :: name'), pos := st.pos + w.length,
                     posEnd := st.pos + w.length + 1 + (c0 :: name').length + post.length, pre := w, post := post } := by
          have hps := psStd_std keys m md true br hn
          have hdq : env.s.drop (st.pos + w.length) = '\\' :: (name ++ (post ++ (unparseArgs args ++ (unparseItems tl ++ after)))) := by
            have : env.s.drop st.pos = w ++ ('\\' :: (name ++ (post ++ (unparseArgs args ++ (unparseItems tl ++ after))))) := by
              rw [hd]; simp only [unparseItems, List.cons_append, List.append_assoc]
            exact drop_add_of_drop this
          cases hcw : isControlWord name with
          | true =>
            rw [hcw] at hhdr
            simp only [if_true, Bool.and_eq_true, Bool.not_eq_eq_eq_not, Bool.not_true, decide_eq_true_eq,
              bne_iff_ne, ne_eq, Bool.or_eq_true] at hhdr
            obtain ⟨⟨⟨⟨⟨hnb, hnend⟩, hwsp⟩, hnlp⟩, hnext⟩, hhead⟩ := hhdr
            simp only [isControlWord, Bool.and_eq_true, Bool.not_eq_eq_eq_not, Bool.not_true] at hcw
            obtain ⟨hne, hall⟩ := hcw
            cases name with
            | nil => simp at hne
            | cons c0 name' =>
              refine ⟨c0, name', rfl, ?_⟩
              rcases hhead with hh | ⟨hpe, hpar⟩
              · exact peekAtChar_macro hps (stdExpect_cases m md) hdq hall hnext hwsp hnlp hh hnb hnend
              · have hp0 : post = [] := List.isEmpty_iff.mp hpe
                subst hp0
                exact peekAtChar_macro_par hps (stdExpect_cases m md) hdq hall hpar hnb hnend
          | false =>
            rw [hcw] at hhdr
            simp only [Bool.false_eq_true, if_false, Bool.and_eq_true] at hhdr
            obtain ⟨hpe, hsym⟩ := hhdr
            have hp0 : post = [] := List.isEmpty_iff.mp hpe
            subst hp0
            cases name with
            | nil => cases hsym
            | cons c0 name' =>
              cases name' with
              | cons _ _ => cases hsym
              | nil =>
                simp only [isControlSymbol, Bool.and_eq_true, Bool.not_eq_eq_eq_not, Bool.not_true, bne_iff_ne, ne_eq] at hsym
                obtain ⟨⟨⟨⟨⟨ha, _⟩, n1⟩, n2⟩, n3⟩, n4⟩ := hsym
                refine ⟨c0, [], rfl, ?_⟩
                exact peekAtChar_macro1 hps (stdExpect_cases m md) hdq ha n1 n2 n3 n4
        obtain ⟨c0, name', hname, htok⟩ := htokA
        subst hname
        simp only [unparseItems, List.cons_append, List.append_assoc] at hd
        have hd' : env.s.drop st.pos = w ++ ('\\' :: ((c0 :: name') ++ (post ++ (unparseArgs args ++ (unparseItems tl ++ after))))) := by
          rw [hd]; rfl
        have hdA : env.s.drop (st.pos + w.length + 1 + (c0 :: name').length + post.length) = unparseArgs args ++ (unparseItems tl ++ after) :=
          drop_add_of_drop (drop_add_of_drop (drop_succ_of_drop (drop_add_of_drop hd')))
        obtain ⟨al, pA, hAE, hpA, hdpA, hshape⟩ := args_reach ctx htol hk hctx hkeys sig args m (unparseItems tl ++ after) hargs md hn []
          (st.pos + w.length + 1 + (c0 :: name').length + post.length) hdA
        rw [List.nil_append] at hAE
        have hr := step_macro (br := br) (stop := stop) (child := child) htol hch hd' hw hnl htok
          (by rw [hctx]; exact hms) (arguments_runs hAE) (by omega)
        rw [hshape] at hr
        have := ReachesW.step hr rfl (fun st1 hp1 => items_reach ctx htol hk hctx hkeys tl m after htl md hn br stop child hx hch hsm
          st1 [] rfl (by decide) (Or.inl rfl) (by
            have e : st.pos + (pA - st.pos) = pA := by omega
            rw [hp1, e]; exact hdpA))
        simpa only [treeRaw, List.singleton_append] using this
      | legacyVerb => rw [hms] at hargs; cases hargs
      | legacyVerbEnv _ _ => rw [hms] at hargs; cases hargs
      | unknown => rw [hms] at hargs; cases hargs
  | .F k b :: tl, m, after, hc, md, hn, br, stop, child, hx, hch, hsm, st, w, hw, hnl, _, hd => by
    simp only [coreItems, Bool.and_eq_true, Bool.not_eq_eq_eq_not, Bool.not_true, Bool.or_eq_true, bne_iff_ne, ne_eq] at hc
    obtain ⟨⟨⟨hm, hb⟩, hdol⟩, htl⟩ := hc
    subst hm
    have hmd : md = none := hn rfl
    subst hmd
    simp only [unparseItems, List.append_assoc] at hd
    have hd1 : env.s.drop (st.pos + w.length + k.opener.length) = [] ++ (unparseItems b ++ (k.closer ++ (unparseItems tl ++ after))) :=
      drop_add_of_drop (drop_add_of_drop hd)
    have hbody := items_reach ctx htol hk hctx hkeys b true (k.closer ++ (unparseItems tl ++ after)) hb (some k.opener) (normOk_true _)
      none (.mathClose k.display k.closer) .same trivial (fun t _ => rfl) (fun h => by cases h)
      { pos := st.pos + w.length + k.opener.length } [] rfl (by decide) (Or.inl rfl) hd1
    have hdollar : k = .dollar → headIs (· == '$') (unparseItems b ++ (k.closer ++ (unparseItems tl ++ after))) = false := by
      intro hk2
      rcases hdol with h | h
      · subst hk2; cases h
      · exact core_head_not_dollar ctx _ b hb _ h
    obtain ⟨p, hp, hdp, hr⟩ := step_math (br := br) (stop := stop) (child := child) htol k hch (hsm rfl) hd hw hnl hdollar hbody
    have := ReachesW.step hr rfl (fun st1 hp1 => items_reach ctx htol hk hctx hkeys tl false after htl none hn br stop child hx hch hsm
      st1 [] rfl (by decide) (Or.inl rfl) (by
        have e : st.pos + (p - st.pos) = p := by omega
        rw [hp1, e]; exact hdp))
    simpa only [treeRaw, List.singleton_append] using this
  | .P w2 :: tl, m, after, hc, md, hn, br, stop, child, hx, hch, hsm, st, w, hw, hnl, hpre, hd => by
    simp only [coreItems, Bool.and_eq_true, Bool.not_eq_eq_eq_not, Bool.not_true, decide_eq_true_eq, beq_iff_eq] at hc
    obtain ⟨⟨⟨⟨⟨⟨⟨hm, hws⟩, hnl2⟩, hh⟩, hl⟩, hhead⟩, hpc⟩, htl⟩ := hc
    have hw0 : w = [] := by
      rcases hpre with h | h
      · exact h
      · exfalso
        cases w2 with
        | nil => cases hh
        | cons c w2 =>
          have hc : c = '\n' := by simpa using hh
          subst hc
          have h' : headIs isPySpace ('\n' :: (w2 ++ (unparseItems tl ++ after))) = false := by
            simpa only [unparseItems, List.cons_append, List.append_assoc] using h
          revert h'
          show (isPySpace '\n' = false) → False
          decide
    subst hw0
    simp only [unparseItems, List.append_assoc, List.nil_append] at hd
    have h1 := reach_par (br := br) (stop := stop) (child := child) ctx htol hn hctx hkeys hpc hch hd hws hnl2 hh hl hhead
    have := ReachesW.step (w := []) h1 rfl (fun st1 hp => items_reach ctx htol hk hctx hkeys tl m after htl md hn br stop child hx hch hsm
      st1 [] rfl (by decide) (Or.inl rfl) (by rw [hp]; exact drop_add_of_drop hd))
    simpa only [treeRaw, parShape, Option.getD_none, List.nil_append, List.singleton_append] using this
  | .E name args body :: tl, m, after, hc, md, hn, br, stop, child, hx, hch, hsm, st, w, hw, hnl, _, hd => by
    simp only [coreItems, Bool.and_eq_true, Bool.not_eq_eq_eq_not, Bool.not_true] at hc
    obtain ⟨⟨⟨hne, hall⟩, hspec⟩, htl⟩ := hc
    have hne' : name ≠ [] := by intro e; rw [e] at hne; cases hne
    cases hes : ctx.envSpec name with
    | none => rw [hes] at hspec; cases hspec
    | some ab =>
      obtain ⟨a, bm⟩ := ab
      cases a with
      | std sig =>
        rw [hes] at hspec
        simp only [Bool.and_eq_true] at hspec
        obtain ⟨hargs, hbody⟩ := hspec
        simp only [unparseItems, List.append_assoc] at hd
        have hdA : env.s.drop (st.pos + w.length + (beginStr name).length) =
            unparseArgs args ++ (unparseItems body ++ (endStr name ++ (unparseItems tl ++ after))) :=
          drop_add_of_drop (drop_add_of_drop hd)
        obtain ⟨al, pA, hAE, hpA, hdpA, hshape⟩ := args_reach ctx htol hk hctx hkeys sig args m _ hargs md hn []
          (st.pos + w.length + (beginStr name).length) hdA
        rw [List.nil_append] at hAE
        have hbodyR := items_reach ctx htol hk hctx hkeys body (m || bm) (endStr name ++ (unparseItems tl ++ after)) hbody
          (if bm then none else md) (normOk_envBody hn bm) none (.endEnv name) .same trivial (fun t _ => rfl)
          (fun _ t ht => stop_endEnv_math _ t ht) { pos := pA } [] rfl (by decide) (Or.inl rfl) (by simpa using hdpA)
        obtain ⟨p, hp, hdp, hr⟩ := step_env (br := br) (stop := stop) (child := child) htol hn hch hd hw hnl hne' hall
          (by rw [hctx]; exact hes) hAE (by omega) hbodyR
        rw [hshape] at hr
        have := ReachesW.step hr rfl (fun st1 hp1 => items_reach ctx htol hk hctx hkeys tl m after htl md hn br stop child hx hch hsm
          st1 [] rfl (by decide) (Or.inl rfl) (by
            have e : st.pos + (p - st.pos) = p := by omega
            rw [hp1, e]; exact hdp))
        simpa only [treeRaw, List.singleton_append] using this
      | legacyVerb => rw [hes] at hspec; cases hspec
      | legacyVerbEnv _ _ => rw [hes] at hspec; cases hspec
      | unknown => rw [hes] at hspec; cases hspec
  | .S name args :: tl, m, after, hc, md, hn, br, stop, child, hx, hch, hsm, st, w, hw, hnl, _, hd => by
    simp only [coreItems, Bool.and_eq_true, beq_iff_eq] at hc
    obtain ⟨⟨⟨⟨hargs, hhead⟩, hts⟩, hspec⟩, htl⟩ := hc
    have hargs' : args = [] := List.isEmpty_iff.mp hargs
    subst hargs'
    cases name with
    | nil => simp [headIs] at hhead
    | cons c name' =>
      have hc : specialsHeadOk c = true := by simpa [headIs] using hhead
      have hspec' : lookupFirst (c :: name') env.ctx.specials = some (.std []) := by
        rw [hctx]
        cases hl : lookupFirst (c :: name') ctx.specials with
        | none => rw [hl] at hspec; cases hspec
        | some a =>
          rw [hl] at hspec
          cases a with
          | std sig =>
            simp only at hspec
            rw [List.isEmpty_iff.mp hspec]
          | legacyVerb => cases hspec
          | legacyVerbEnv _ _ => cases hspec
          | unknown => cases hspec
      have hd' : env.s.drop st.pos = w ++ ((c :: name') ++ (unparseItems tl ++ after)) := by
        rw [hd]; simp only [unparseItems, unparseArgs, List.nil_append, List.append_assoc]
      rw [hkeys] at hts
      have hr := step_specials (br := br) (stop := stop) (child := child) htol hn hx hch hd' hw hnl hc hts hspec'
      have := ReachesW.step hr rfl (fun st1 hp => items_reach ctx htol hk hctx hkeys tl m after htl md hn br stop child hx hch hsm
        st1 [] rfl (by decide) (Or.inl rfl) (by
          rw [hp, ← Nat.add_assoc]; exact drop_add_of_drop (drop_add_of_drop hd')))
      simpa only [treeRaw, treeArgs, List.singleton_append] using this
  | .V d text :: tl, m, after, hc, md, hn, br, stop, child, hx, hch, hsm, st, w, hw, hnl, _, hd => by
    simp only [coreItems, Bool.and_eq_true, Bool.not_eq_eq_eq_not, Bool.not_true] at hc
    obtain ⟨⟨⟨⟨hspec, hda⟩, hds⟩, hnc⟩, htl⟩ := hc
    have hms : env.ctx.macroSpec "verb".toList = some .legacyVerb := by
      rw [hctx]
      cases hh : ctx.macroSpec "verb".toList with
      | none => rw [hh] at hspec; cases hspec
      | some a =>
        rw [hh] at hspec
        cases a <;> first | rfl | cases hspec
    have hd' : env.s.drop st.pos = w ++ ('\\' :: (('v' :: "erb".toList) ++ ([] ++ (d :: (text ++ d :: (unparseItems tl ++ after)))))) := by
      rw [hd]; simp only [unparseItems, List.append_assoc, List.cons_append]; rfl
    have hdq : env.s.drop (st.pos + w.length) = '\\' :: (('v' :: "erb".toList) ++ ([] ++ (d :: (text ++ d :: (unparseItems tl ++ after))))) :=
      drop_add_of_drop hd'
    have hps := psStd_std keys m md true br hn
    have htok := peekAtChar_macro (pre := w) hps (stdExpect_cases m md) hdq (by decide) (by simp [headIs, hda]) rfl (by decide)
      (by simp [headIs, hds]) (by decide) (by decide)
    have hdA : env.s.drop (st.pos + w.length + 1 + ('v' :: "erb".toList).length + ([] : Str).length) = d :: (text ++ d :: (unparseItems tl ++ after)) :=
      drop_add_of_drop (drop_add_of_drop (drop_succ_of_drop hdq))
    have hargs := legacyVerb_runs (env := env) (stdF keys m md true) hdA hds hnc
    have hr := step_macro (br := br) (stop := stop) (child := child) htol hch hd' hw hnl htok hms hargs (by omega)
    have := ReachesW.step hr rfl (fun st1 hp1 => items_reach ctx htol hk hctx hkeys tl m after htl md hn br stop child hx hch hsm
      st1 [] rfl (by decide) (Or.inl rfl) (by
        have h1 := drop_succ_of_drop hdA
        have h2 := drop_succ_of_drop (drop_add_of_drop h1)
        rw [hp1, List.nil_append, ← h2]
        congr 1
        omega))
    have e : ('v' :: "erb".toList) = "verb".toList := rfl
    rw [e] at this
    simpa only [treeRaw, List.singleton_append, shapeOfArgList, shapeOfArg, shapeOf] using this
  | .VE _ _ _ _ :: _, _, _, hc, _, _, _, _, _, _, _, _, _, _, _, _, _, _ => by simp [coreItems] at hc
termination_by a => sizeOf a
decreasing_by
  all_goals first
    | decreasing_tactic
    | (subst_vars; decreasing_tactic)
/-- the arguments of a call, slot by slot -/
theorem args_reach (ctx : Ctx) (htol : env.tol = false) (hk : keysCore keys = true) (hctx : env.ctx = ctx)
    (hkeys : ctxKeys ctx = keys) :
    ∀ (sig : List ArgSpec) (args : List ArgVal) (m : Bool) (rest : Str), coreArgs ctx m rest sig args = true →
      ∀ (md : Option Str), NormOk m md → ∀ (acc : List Arg) (pos : Nat), env.s.drop pos = unparseArgs args ++ rest →
      ∃ al pA, ArgsEv env (stdF keys m md true) sig acc pos (.ok (.args none none (acc ++ al)) pA) ∧ pos ≤ pA ∧
        env.s.drop pA = rest ∧ shapeOfArgList al = treeArgs ctx args
  | [], [], m, rest, _, md, _, acc, pos, hd => by
    refine ⟨[], pos, ?_, Nat.le_refl _, by simpa [unparseArgs] using hd, by simp only [shapeOfArgList, treeArgs]⟩
    rw [List.append_nil]
    exact argsEv_nil _ _ _
  | sp :: sig, .absent :: tl, m, rest, hc, md, hn, acc, pos, hd => by
    simp only [coreArgs, Bool.and_eq_true] at hc
    obtain ⟨⟨⟨hkind, habs⟩, hfol⟩, hrest⟩ := hc
    simp only [unparseArgs] at hd
    obtain ⟨md', hK', hn'⟩ := applyDelta_std (keys := keys) m md sp.delta
    have hpk := peek_follow_noerr (psStd_std keys m md true none hn) hd hfol
    obtain ⟨al, pA, hAE, hpA, hdpA, hshape⟩ := args_reach ctx htol hk hctx hkeys sig tl m rest hrest md hn (acc ++ [Arg.absent]) pos hd
    refine ⟨.absent :: al, pA, ?_, hpA, hdpA, by simp only [shapeOfArgList, shapeOfArg, treeArgs, hshape]⟩
    have e : acc ++ Arg.absent :: al = acc ++ [Arg.absent] ++ al := by simp
    rw [e]
    cases hkk : sp.kind with
    | o ap =>
      rw [hkk] at habs
      refine argsEv_cons (res := .none) htol hpk ?_ hAE
      rw [hkk, hK']
      refine xgroup_absent_runs htol (hn' hn) (o := '[') (c := ']') (by decide) ap hd hfol ?_
      cases ap <;> simpa [absentOk, slotOpener] using habs
    | s =>
      rw [hkk] at habs
      refine argsEv_cons (res := .none) htol hpk ?_ hAE
      rw [hkk, hK']
      exact marker_absent_runs htol (hn' hn) '*' false hd hfol (by simpa [absentOk, slotOpener] using habs)
    | t c =>
      rw [hkk] at habs
      refine argsEv_cons (res := .none) htol hpk ?_ hAE
      rw [hkk, hK']
      exact marker_absent_runs htol (hn' hn) c true hd hfol (by simpa [absentOk, slotOpener] using habs)
    | d o c =>
      rw [hkk] at habs hkind
      refine argsEv_cons (res := .none) htol hpk ?_ hAE
      rw [hkk, hK']
      exact xgroup_absent_runs htol (hn' hn) (o := o) (c := c) hkind true hd hfol (by simpa [absentOk, slotOpener] using habs)
    | m => rw [hkk] at hkind; cases hkind
    | r _ _ => rw [hkk] at hkind; cases hkind
    | v => rw [hkk] at hkind; cases hkind
    | vd _ _ => rw [hkk] at hkind; cases hkind
  | sp :: sig, .star :: tl, m, rest, hc, md, hn, acc, pos, hd => by
    simp only [coreArgs, Bool.and_eq_true] at hc
    obtain ⟨hkind, hrest⟩ := hc
    have hkk := argKind_s_of_beq _ hkind
    simp only [unparseArgs, List.cons_append] at hd
    obtain ⟨md', hK', hn'⟩ := applyDelta_std (keys := keys) m md sp.delta
    have hpk := peek_follow_noerr (psStd_std keys m md true none hn) hd (followOk_of_head (by decide) (by decide))
    obtain ⟨al, pA, hAE, hpA, hdpA, hshape⟩ := args_reach ctx htol hk hctx hkeys sig tl m rest hrest md hn
      (acc ++ [Arg.node (Node.chars pos (pos + 1) (psInfo (stdF keys (deltaMath m sp.delta) md' true)) ['*'])]) (pos + 1)
      (drop_succ_of_drop hd)
    refine ⟨Arg.node (Node.chars pos (pos + 1) (psInfo (stdF keys (deltaMath m sp.delta) md' true)) ['*']) :: al, pA, ?_, by omega, hdpA,
      by simp only [shapeOfArgList, shapeOfArg, shapeOf, treeArgs, hshape]⟩
    have e : ∀ x : Arg, acc ++ x :: al = acc ++ [x] ++ al := by intro x; simp
    rw [e]
    refine argsEv_cons (res := .node _) htol hpk ?_ hAE
    rw [hkk, hK']
    exact marker_star_runs htol (hn' hn) hk hd
  | sp :: sig, .br b :: tl, m, rest, hc, md, hn, acc, pos, hd => by
    simp only [coreArgs, Bool.and_eq_true] at hc
    obtain ⟨⟨hkind, hb⟩, hrest⟩ := hc
    simp only [unparseArgs, List.cons_append, List.append_assoc] at hd
    obtain ⟨md', hK', hn'⟩ := applyDelta_std (keys := keys) m md sp.delta
    have hpk := peek_follow_noerr (psStd_std keys m md true none hn) hd (followOk_of_head (by decide) (by decide))
    cases hkk : sp.kind with
    | o ap =>
      have hd1 : env.s.drop (pos + 1) = [] ++ (unparseItems b ++ ']' :: (unparseArgs tl ++ rest)) := drop_succ_of_drop hd
      have hbody := items_reach ctx htol hk hctx hkeys b (deltaMath m sp.delta) (']' :: (unparseArgs tl ++ rest)) hb md' (hn' hn) xbr
        (.braceClose [']']) (.group ['['] (stdF keys (deltaMath m sp.delta) md' true xbr) (stdF keys (deltaMath m sp.delta) md' true))
        xpOk_br (fun t ht => child_br '[' _ _ t (by decide) ht) (fun _ t ht => stop_brace_math _ t ht) { pos := pos + 1 } [] rfl (by decide) (Or.inl rfl) hd1
      obtain ⟨p, nd, hqp, hdp, hgrp, hsh⟩ := xgroup_node htol (hn' hn) xpOk_br true ap hd hbody
      obtain ⟨al, pA, hAE, hpA, hdpA, hshape⟩ := args_reach ctx htol hk hctx hkeys sig tl m rest hrest md hn (acc ++ [Arg.node nd]) p hdp
      refine ⟨Arg.node nd :: al, pA, ?_, by omega, hdpA, by simp only [shapeOfArgList, shapeOfArg, treeArgs, hshape, hsh]⟩
      have e : acc ++ Arg.node nd :: al = acc ++ [Arg.node nd] ++ al := by simp
      rw [e]
      refine argsEv_cons (res := .node nd) htol hpk ?_ hAE
      rw [hkk, hK']
      exact hgrp
    | s => rw [hkk] at hkind; cases hkind
    | m => rw [hkk] at hkind; cases hkind
    | t _ => rw [hkk] at hkind; cases hkind
    | r _ _ => rw [hkk] at hkind; cases hkind
    | d _ _ => rw [hkk] at hkind; cases hkind
    | v => rw [hkk] at hkind; cases hkind
    | vd _ _ => rw [hkk] at hkind; cases hkind
  | sp :: sig, .grp b :: tl, m, rest, hc, md, hn, acc, pos, hd => by
    simp only [coreArgs, Bool.and_eq_true] at hc
    obtain ⟨⟨hkind, hb⟩, hrest⟩ := hc
    have hkk := argKind_m_of_beq _ hkind
    simp only [unparseArgs, List.cons_append, List.append_assoc] at hd
    obtain ⟨md', hK', hn'⟩ := applyDelta_std (keys := keys) m md sp.delta
    have hpk := peek_follow_noerr (psStd_std keys m md true none hn) hd (followOk_of_head (by decide) (by decide))
    have hd1 : env.s.drop (pos + 1) = [] ++ (unparseItems b ++ '}' :: (unparseArgs tl ++ rest)) := drop_succ_of_drop hd
    have hbody := items_reach ctx htol hk hctx hkeys b (deltaMath m sp.delta) ('}' :: (unparseArgs tl ++ rest)) hb md' (hn' hn) none
      (.braceClose ['}']) (.group ['{'] (stdF keys (deltaMath m sp.delta) md' true) (stdF keys (deltaMath m sp.delta) md' true))
      trivial (fun t _ => child_group _ _ t) (fun _ t ht => stop_brace_math _ t ht) { pos := pos + 1 } [] rfl (by decide) (Or.inl rfl) hd1
    obtain ⟨p, nd, hqp, hdp, hgrp, hsh⟩ := group_node htol (hn' hn) hd hbody
    obtain ⟨al, pA, hAE, hpA, hdpA, hshape⟩ := args_reach ctx htol hk hctx hkeys sig tl m rest hrest md hn (acc ++ [Arg.node nd]) p hdp
    refine ⟨Arg.node nd :: al, pA, ?_, by omega, hdpA, by simp only [shapeOfArgList, shapeOfArg, treeArgs, hshape, hsh]⟩
    have e : acc ++ Arg.node nd :: al = acc ++ [Arg.node nd] ++ al := by simp
    rw [e]
    refine argsEv_cons (res := .node nd) htol hpk ?_ hAE
    rw [hkk, hK']
    exact expr_runs htol (hn' hn) hd hgrp
  | [], _ :: _, _, _, hc, _, _, _, _, _ => by simp [coreArgs] at hc
  | _ :: _, [], _, _, hc, _, _, _, _, _ => by simp [coreArgs] at hc
  | sp :: sig, .marker c :: tl, m, rest, hc, md, hn, acc, pos, hd => by
    simp only [coreArgs, Bool.and_eq_true] at hc
    obtain ⟨⟨hkind, hmk⟩, hrest⟩ := hc
    have hkk : sp.kind = .t c := argKind_t_of_beq _ _ hkind
    simp only [unparseArgs, List.cons_append] at hd
    rw [hkeys] at hmk
    obtain ⟨md', hK', hn'⟩ := applyDelta_std (keys := keys) m md sp.delta
    have hmk' := hmk
    unfold markerOk at hmk'
    simp only [Bool.and_eq_true, Bool.not_eq_eq_eq_not, Bool.not_true, bne_iff_ne, ne_eq] at hmk'
    have hpk := peek_follow_noerr (psStd_std keys m md true none hn) hd (followOk_of_head hmk'.1.1.1.1.1.1 hmk'.1.1.1.1.1.2)
    obtain ⟨al, pA, hAE, hpA, hdpA, hshape⟩ := args_reach ctx htol hk hctx hkeys sig tl m rest hrest md hn
      (acc ++ [Arg.list (some pos) (some (pos + 1)) [Node.chars pos (pos + 1) (psInfo (stdF keys (deltaMath m sp.delta) md' true)) [c]]]) (pos + 1)
      (drop_succ_of_drop hd)
    refine ⟨Arg.list (some pos) (some (pos + 1)) [Node.chars pos (pos + 1) (psInfo (stdF keys (deltaMath m sp.delta) md' true)) [c]] :: al, pA, ?_, by omega, hdpA,
      by simp only [shapeOfArgList, shapeOfArg, shapeOfNodes, shapeOf, treeArgs, hshape]⟩
    have e : ∀ x : Arg, acc ++ x :: al = acc ++ [x] ++ al := by intro x; simp
    rw [e]
    refine argsEv_cons (res := .list (some pos) (some (pos + 1)) [Node.chars pos (pos + 1) (psInfo (stdF keys (deltaMath m sp.delta) md' true)) [c]]) htol hpk ?_ hAE
    rw [hkk, hK']
    exact marker_runs htol (hn' hn) true hd hmk
  | sp :: sig, .tok c :: tl, m, rest, hc, md, hn, acc, pos, hd => by
    simp only [coreArgs, Bool.and_eq_true] at hc
    obtain ⟨⟨hkind, hc1⟩, hrest⟩ := hc
    have hkk := argKind_m_of_beq _ hkind
    simp only [unparseArgs, List.cons_append] at hd
    obtain ⟨md', hK', hn'⟩ := applyDelta_std (keys := keys) m md sp.delta
    have hcne := textChar_ne hc1
    have hpk := peek_follow_noerr (psStd_std keys m md true none hn) hd (followOk_of_head hcne.2.2.2.2.2 hcne.2.1)
    obtain ⟨al, pA, hAE, hpA, hdpA, hshape⟩ := args_reach ctx htol hk hctx hkeys sig tl m rest hrest md hn
      (acc ++ [Arg.node (Node.chars pos (pos + 1) (psInfo (stdF keys (deltaMath m sp.delta) md' true)) [c])]) (pos + 1)
      (drop_succ_of_drop hd)
    refine ⟨Arg.node (Node.chars pos (pos + 1) (psInfo (stdF keys (deltaMath m sp.delta) md' true)) [c]) :: al, pA, ?_, by omega, hdpA,
      by simp only [shapeOfArgList, shapeOfArg, shapeOf, treeArgs, hshape]⟩
    have e : ∀ x : Arg, acc ++ x :: al = acc ++ [x] ++ al := by intro x; simp
    rw [e]
    refine argsEv_cons (res := .node _) htol hpk ?_ hAE
    rw [hkk, hK']
    exact expr_tok_runs htol (hn' hn) hk hd hc1
  | sp :: sig, .del o c b :: tl, m, rest, hc, md, hn, acc, pos, hd => by
    simp only [coreArgs, Bool.and_eq_true, Bool.or_eq_true, bne_iff_ne, ne_eq] at hc
    obtain ⟨⟨⟨⟨⟨hkind, hxo⟩, hxc⟩, hoc⟩, hb⟩, hrest⟩ := hc
    have hx : XpOk (some (o, c)) := ⟨hxo, hxc, hoc⟩
    have hone := xdelim_ne hxo
    simp only [unparseArgs, List.cons_append, List.append_assoc] at hd
    obtain ⟨md', hK', hn'⟩ := applyDelta_std (keys := keys) m md sp.delta
    have hpk := peek_follow_noerr (psStd_std keys m md true none hn) hd (followOk_of_head hone.2.2.2.2.2 hone.2.1)
    have hd1 : env.s.drop (pos + 1) = [] ++ (unparseItems b ++ c :: (unparseArgs tl ++ rest)) := drop_succ_of_drop hd
    have hbody := items_reach ctx htol hk hctx hkeys b (deltaMath m sp.delta) (c :: (unparseArgs tl ++ rest)) hb md' (hn' hn) (some (o, c))
      (.braceClose [c]) (.group [o] (stdF keys (deltaMath m sp.delta) md' true (some (o, c))) (stdF keys (deltaMath m sp.delta) md' true))
      hx (fun t ht => child_br o _ _ t hone.2.2.2.1 ht) (fun _ t ht => stop_brace_math _ t ht) { pos := pos + 1 } [] rfl (by decide) (Or.inl rfl) hd1
    have hopt : ∃ opt, argParser sp.kind = .group (.pair [o] [c]) opt true := by
      rcases hkind with h | h
      · refine ⟨false, ?_⟩
        have : sp.kind = .r o c := argKind_r_of_beq _ _ _ h
        rw [this]; rfl
      · refine ⟨true, ?_⟩
        have : sp.kind = .d o c := argKind_d_of_beq _ _ _ h
        rw [this]; rfl
    obtain ⟨opt, hopt⟩ := hopt
    obtain ⟨p, nd, hqp, hdp, hgrp, hsh⟩ := xgroup_node htol (hn' hn) hx opt true hd hbody
    obtain ⟨al, pA, hAE, hpA, hdpA, hshape⟩ := args_reach ctx htol hk hctx hkeys sig tl m rest hrest md hn (acc ++ [Arg.node nd]) p hdp
    refine ⟨Arg.node nd :: al, pA, ?_, by omega, hdpA, by simp only [shapeOfArgList, shapeOfArg, treeArgs, hshape, hsh]⟩
    have e : acc ++ Arg.node nd :: al = acc ++ [Arg.node nd] ++ al := by simp
    rw [e]
    refine argsEv_cons (res := .node nd) htol hpk ?_ hAE
    rw [hopt, hK']
    exact hgrp
  | _ :: _, .verb _ _ _ :: _, _, _, hc, _, _, _, _, _ => by simp [coreArgs] at hc
termination_by _ args => sizeOf args
end

end constructs

/-! ### C02 -/

/-- **C02, full statement** (kept as a proposition; proved below for the fragment `Doc.Core`, covered by the
    correspondence check and the structure oracle outside it): for every context and every well-formed document of
    the grammar, the strict parse of its source returns exactly the structure it was written with. -/
def C02_full : Prop :=
  ∀ (ctx : Ctx) (d : List Item), WF ctx d = true → shapeTop (parseStrict ctx (unparse d)) = some (treeOf ctx d)

/-- counterexample context: one macro `\a` without arguments -/
def cexCtx : Ctx := { macros := [(['a'], .std [])] }

/-- counterexample document `\a x`, written as the macro (no post-space), a whitespace item, a text item -/
def cexDoc : List Item := [.M ['a'] [] [], .W [' '], .T ['x']]

/-- the repaired `Doc.WF` excludes it: a control word without written argument and with an empty `post` must not be
    followed by a whitespace item (the generator folds that whitespace into `post`) -/
example : WF cexCtx cexDoc = false := by decide +kernel

/-- written with the blank as the macro's post-space it is well formed -/
example : WF cexCtx [.M ['a'] [' '] [], .T ['x']] = true := by decide +kernel

theorem startFields_std (ctx : Ctx) : startFields ctx = stdF (ctxKeys ctx) false none true := rfl

theorem delimsOk_start (ctx : Ctx) : DelimsOk (startFields ctx) := by
  show ∀ pr ∈ ([(['$'], ['$']), (['\\', '('], ['\\', ')'])] : Pairs) ++ [(['$', '$'], ['$', '$']), (['\\', '['], ['\\', ']'])],
    pr.1 ≠ [] ∧ pr.2 ≠ []
  decide

/-- the top-level task on a core document, for every sufficiently large amount of fuel, ends at the end of the input
    with a node list whose structure is the one the document was written with -/
theorem core_ev (ctx : Ctx) (d : List Item) (h : Core ctx d = true) :
    ∃ a b ns, Ev { tol := false, ctx := ctx, s := unparse d } (topTask (startFields ctx)) (.ok (.list a b ns) (unparse d).length) ∧
      shapeOfList ns = treeOf ctx d := by
  unfold Core at h
  rw [Bool.and_eq_true] at h
  obtain ⟨hk, hc⟩ := h
  obtain ⟨tr, n, w', ⟨st', hp, hs, hkk⟩, hdrop, hw', hn', hm⟩ :=
    items_reach (env := { tol := false, ctx := ctx, s := unparse d }) ctx rfl hk rfl rfl d false [] hc none (fun _ => rfl)
      none .none .same trivial (fun t _ => rfl) (fun _ t _ => rfl) { pos := 0 } [] rfl (by decide) (Or.inl rfl)
      (by simp [unparse])
  have hd' : (unparse d).drop st'.pos = w' := by
    rw [hp]; simpa using hdrop
  obtain ⟨e, he, hsh, herr, hst, hpos⟩ := loop_eos_ws (child := .same)
    (env := { tol := false, ctx := ctx, s := unparse d }) rfl (stdF (ctxKeys ctx) false none true) (st := st') hd' hw' hn'
  have htop := general_of_loop_top (env := { tol := false, ctx := ctx, s := unparse d }) rfl (hkk _ he) herr hst
  have hend : e.pos = (unparse d).length := by
    obtain ⟨N, hN⟩ := htop
    exact (C01_strict_of_delims ctx (unparse d) (startFields ctx) (delimsOk_start ctx) N _ _ _ _ (hN N (Nat.le_refl _))).2.1
  rw [hend] at htop
  refine ⟨_, _, e.nodes, htop, ?_⟩
  unfold shapeOfList treeOf
  apply normList_congr
  rw [hsh]
  have e1 : mergeChars (sh st') = mergeChars tr := by rw [hs]; rfl
  rw [mergeChars_append_left e1, hm]
  rfl

/-- **C02 on the core fragment, every amount of fuel that is large enough.** -/
theorem C02_core_run (ctx : Ctx) (d : List Item) (h : Core ctx d = true) :
    ∃ N, ∀ n, N ≤ n →
      shapeTop (run { tol := false, ctx := ctx, s := unparse d } n (topTask (startFields ctx))) = some (treeOf ctx d) := by
  obtain ⟨a, b, ns, ⟨N, hN⟩, hsh⟩ := core_ev ctx d h
  refine ⟨N, fun n hn => ?_⟩
  rw [hN n hn]
  show some (shapeOfList ns) = _
  rw [hsh]

/-- **C02 on the core fragment** (`parseTop`, i.e. the fuel `fuelFor s` the model runs with): for every context in
    which no specials string starts with a text character and every document made of text (letters, digits,
    `.` `,` `;` `:`), brace groups and comments ending in a newline (plus indentation), nested to any depth, the strict parse of the document's source returns exactly the structure the document was written
    with. -/
theorem C02_core (ctx : Ctx) (d : List Item) (h : Core ctx d = true) :
    shapeTop (parseStrict ctx (unparse d)) = some (treeOf ctx d) := by
  obtain ⟨N, hN⟩ := C02_core_run ctx d h
  show shapeTop (run { tol := false, ctx := ctx, s := unparse d } (fuelFor (unparse d)) (topTask (startFields ctx))) = _
  by_cases hle : N ≤ fuelFor (unparse d)
  · exact hN _ hle
  · have hnf := C06_no_fuel { tol := false, ctx := ctx, s := unparse d } (startFields ctx) (delimsOk_start ctx)
    have := run_mono { tol := false, ctx := ctx, s := unparse d } (fuelFor (unparse d)) N (topTask (startFields ctx)) hnf (by omega)
    rw [← this]
    exact hN N (Nat.le_refl _)

/-- the parse also ends exactly at the end of the source and is a node list (not an error, not a crash) -/
theorem C02_core_ok (ctx : Ctx) (d : List Item) (h : Core ctx d = true) :
    ∃ a b ns, parseStrict ctx (unparse d) = .ok (.list a b ns) (unparse d).length ∧ shapeOfList ns = treeOf ctx d := by
  obtain ⟨a, b, ns, ⟨N, hN⟩, hsh⟩ := core_ev ctx d h
  refine ⟨a, b, ns, ?_, hsh⟩
  show run { tol := false, ctx := ctx, s := unparse d } (fuelFor (unparse d)) (topTask (startFields ctx)) = _
  by_cases hle : N ≤ fuelFor (unparse d)
  · exact hN _ hle
  · have hnf := C06_no_fuel { tol := false, ctx := ctx, s := unparse d } (startFields ctx) (delimsOk_start ctx)
    have := run_mono { tol := false, ctx := ctx, s := unparse d } (fuelFor (unparse d)) N (topTask (startFields ctx)) hnf (by omega)
    rw [← this]
    exact hN N (Nat.le_refl _)

/-! ### non-vacuity -/

/-- `ab{c{}{de}}f` -/
def exDoc : List Item :=
  [.T ['a', 'b'], .G [.T ['c'], .G [], .G [.T ['d', 'e']]], .T ['f']]

/-- `a{%x}\n  b}` followed by `c`: a comment whose text contains a closing brace, inside a group -/
def exDoc2 : List Item :=
  [.T ['a'], .G [.C ['x', '}'] ['\n', ' ', ' '], .T ['b']], .T ['c']]

/-- whitespace between and inside the other items, also behind a comment: `a {b c}` newline `%x` newline, two blanks, `d` -/
def exDocW : List Item :=
  [.T ['a'], .W [' '], .G [.T ['b'], .W [' '], .T ['c'], .W [' ']], .W ['\n'], .C ['x'] ['\n'], .W [' ', ' '], .T ['d']]

/-- macro calls: `\section*[s]{T x} \sqrt{y}\item z` — star, bracket and brace arguments, an absent optional argument
    before a brace group, an absent trailing optional argument, a post-space -/
def exDocM : List Item :=
  [.M "section".toList [] [.star, .br [.T ['s']], .grp [.T ['T'], .W [' '], .T ['x']]], .W [' '],
   .M "sqrt".toList [] [.absent, .grp [.T ['y']]],
   .M "item".toList [' '] [.absent], .T ['z']]

/-- math: `$x$ \(y\) \[z\] $$w$$ $\mbox{\(a\)}$` — the four delimiter pairs, and math inside an argument that leaves math mode -/
def exDocF : List Item :=
  [.F .dollar [.T ['x']], .W [' '], .F .paren [.T ['y']], .W [' '], .F .brack [.T ['z']], .W [' '], .F .ddollar [.T ['w']],
   .W [' '], .F .dollar [.M "mbox".toList [] [.grp [.F .paren [.T ['a']]]]]]

/-- specials: `a~b --- c` and the ligature inside math and inside an argument: `$x~y$\emph{``q''}` -/
def exDocS : List Item :=
  [.T ['a'], .S ['~'] [], .T ['b'], .W [' '], .S ['-', '-', '-'] [], .W [' '], .T ['c'],
   .F .dollar [.T ['x'], .S ['~'] [], .T ['y']],
   .M "emph".toList [] [.grp [.S ['`', '`'] [], .T ['q'], .S ['\'', '\''] []]]]

/-- paragraph breaks: at top level, behind a control word (no post-space then), behind a comment line (whose newline the
    break swallows), inside a group -/
def exDocP : List Item :=
  [.T ['a'], .P ['\n', '\n'], .T ['b'], .W [' '], .M "alpha".toList [] [], .P ['\n', ' ', '\n'], .T ['c'], .C ['x'] ['\n', ' '],
   .P ['\n', '\n', '\n'], .G [.T ['d'], .P ['\n', '\n']]]

/-- a context without the paragraph specials (and with an unknown-macro fallback): a break is plain text there -/
def exCtxNoPar : Ctx := { unknownMacro := some (.std []) }

/-- single-token arguments: `\frac a{b}\frac12 \sqrt[x]y` -/
def exDocTok : List Item :=
  [.M "frac".toList [' '] [.tok 'a', .grp [.T ['b']]], .M "frac".toList [] [.tok '1', .tok '2'], .W [' '],
   .M "sqrt".toList [] [.br [.T ['x']], .tok 'y']]

/-- environments: an absent optional argument, a math body, arguments, an unknown environment (fallback of the default
    context), nesting -/
def exDocE : List Item :=
  [.E "itemize".toList [.absent] [.M "item".toList [' '] [.absent], .T ['a'], .W ['\n']], .W [' '],
   .E "equation".toList [] [.T ['x'], .S ['~'] [], .M "mbox".toList [] [.grp [.F .dollar [.T ['y']]]]],
   .E "array".toList [.br [.T ['t']], .grp [.T ['c']]] [.T ['y'], .S ['&'] [], .T ['z']],
   .E "foo".toList [] [.E "center".toList [] [.T ['z']]]]

/-- a context with delimited (`r`, `d`) and marker (`t`) arguments — the default context has none -/
def exCtxD : Ctx :=
  { macros := [(['r'], .std [⟨.r '(' ')', .none⟩]), (['d'], .std [⟨.d '<' '>', .none⟩, ⟨.m, .none⟩]), (['t'], .std [⟨.t '+', .none⟩]),
               (['e'], .std [⟨.m, .enterMath⟩])],
    specials := [(['~'], .std [])] }

/-- `\r(a{b} ~\e{x})\d<x>{y}\d{z}\t+\t q` + paragraph break + `p` -/
def exDocD : List Item :=
  [.M ['r'] [] [.del '(' ')' [.T ['a'], .G [.T ['b']], .W [' '], .S ['~'] [], .M ['e'] [] [.grp [.T ['x']]]]],
   .M ['d'] [] [.del '<' '>' [.T ['x']], .grp [.T ['y']]], .M ['d'] [] [.absent, .grp [.T ['z']]],
   .M ['t'] [] [.marker '+'], .M ['t'] [' '] [.absent], .T ['q'], .P ['\n', '\n'], .T ['p']]

/-- `\verb`: `a \verb|b{$ %\|x{\verb!!}` -/
def exDocV : List Item :=
  [.T ['a'], .W [' '], .V '|' "b{$ %\\".toList, .T ['x'], .G [.V '!' []]]

/-- control symbols: `a\\*[x] b\,c\%` -/
def exDocSym : List Item :=
  [.T ['a'], .M ['\\'] [] [.star, .br [.T ['x']]], .W [' '], .T ['b'], .M [','] [] [], .T ['c'], .M ['%'] [] []]

theorem exDocSym_core : Core Gen.defaultCtx exDocSym = true := by decide +kernel
example : shapeTop (parseStrict Gen.defaultCtx (unparse exDocSym)) = some (treeOf Gen.defaultCtx exDocSym) := C02_core _ _ exDocSym_core
example : unparse exDocSym = "a\\\\*[x] b\\,c\\%".toList := by decide +kernel

theorem exDocP_core : Core Gen.defaultCtx exDocP = true := by decide +kernel
theorem exDocP_core' : Core exCtxNoPar exDocP = true := by decide +kernel
theorem exDocTok_core : Core Gen.defaultCtx exDocTok = true := by decide +kernel
theorem exDocE_core : Core Gen.defaultCtx exDocE = true := by decide +kernel
theorem exDocD_core : Core exCtxD exDocD = true := by decide +kernel
theorem exDocV_core : Core Gen.defaultCtx exDocV = true := by decide +kernel

example : shapeTop (parseStrict Gen.defaultCtx (unparse exDocP)) = some (treeOf Gen.defaultCtx exDocP) := C02_core _ _ exDocP_core
example : shapeTop (parseStrict exCtxNoPar (unparse exDocP)) = some (treeOf exCtxNoPar exDocP) := C02_core _ _ exDocP_core'
example : shapeTop (parseStrict Gen.defaultCtx (unparse exDocTok)) = some (treeOf Gen.defaultCtx exDocTok) := C02_core _ _ exDocTok_core
example : shapeTop (parseStrict Gen.defaultCtx (unparse exDocE)) = some (treeOf Gen.defaultCtx exDocE) := C02_core _ _ exDocE_core
example : shapeTop (parseStrict exCtxD (unparse exDocD)) = some (treeOf exCtxD exDocD) := C02_core _ _ exDocD_core
example : shapeTop (parseStrict Gen.defaultCtx (unparse exDocV)) = some (treeOf Gen.defaultCtx exDocV) := C02_core _ _ exDocV_core

example : unparse exDocP = "a\n\nb \\alpha\n \nc%x\n \n\n\n{d\n\n}".toList := by decide +kernel
example : unparse exDocTok = "\\frac a{b}\\frac12 \\sqrt[x]y".toList := by decide +kernel
example : unparse exDocE =
    "\\begin{itemize}\\item a\n\\end{itemize} \\begin{equation}x~\\mbox{$y$}\\end{equation}\\begin{array}[t]{c}y&z\\end{array}\\begin{foo}\\begin{center}z\\end{center}\\end{foo}".toList := by
  decide +kernel
example : unparse exDocD = "\\r(a{b} ~\\e{x})\\d<x>{y}\\d{z}\\t+\\t q\n\np".toList := by decide +kernel
example : unparse exDocV = "a \\verb|b{$ %\\|x{\\verb!!}".toList := by decide +kernel

/-- the expected structures (canonical text of `treeOf`): the paragraph specials under the default context … -/
example : showShapeList (treeOf Gen.defaultCtx exDocP) =
    "(c \"a\") (s \"%a;%a;\" <>) (c \"b%20;\") (m \"alpha\" <>) (s \"%a;%a;\" <>) (c \"c\") (% \"x\") (s \"%a;%a;\" <>) (g \"{\" \"}\" [(c \"d\") (s \"%a;%a;\" <>)])" := by
  decide +kernel
/-- … and plain text without them (the break behind the comment holds the comment's newline and indentation) -/
example : showShapeList (treeOf exCtxNoPar exDocP) =
    "(c \"a%a;%a;b%20;\") (m \"alpha\" <>) (c \"%a;%20;%a;c\") (% \"x\") (g \"{\" \"}\" [(c \"d%a;%a;\")])" := by
  decide +kernel
example : showShapeList (treeOf Gen.defaultCtx exDocTok) =
    "(m \"frac\" <(c \"a\") (g \"{\" \"}\" [(c \"b\")])>) (m \"frac\" <(c \"1\") (c \"2\")>) (m \"sqrt\" <(g \"[\" \"]\" [(c \"x\")]) (c \"y\")>)" := by
  decide +kernel
example : showShapeList (treeOf Gen.defaultCtx exDocE) =
    "(e \"itemize\" <-> [(m \"item\" <->) (c \"a%a;\")]) (e \"equation\" <> [(c \"x\") (s \"~\" <>) (m \"mbox\" <(g \"{\" \"}\" [(f I \"$\" \"$\" [(c \"y\")])])>)]) (e \"array\" <(g \"[\" \"]\" [(c \"t\")]) (g \"{\" \"}\" [(c \"c\")])> [(c \"y\") (s \"&\" <>) (c \"z\")]) (e \"foo\" <> [(e \"center\" <> [(c \"z\")])])" := by
  decide +kernel
example : showShapeList (treeOf exCtxD exDocD) =
    "(m \"r\" <(g \"(\" \")\" [(c \"a\") (g \"{\" \"}\" [(c \"b\")]) (s \"~\" <>) (m \"e\" <(g \"{\" \"}\" [(c \"x\")])>)])>) (m \"d\" <(g \"<\" \">\" [(c \"x\")]) (g \"{\" \"}\" [(c \"y\")])>) (m \"d\" <- (g \"{\" \"}\" [(c \"z\")])>) (m \"t\" <(L [(c \"+\")])>) (m \"t\" <->) (c \"q%a;%a;p\")" := by
  decide +kernel
example : showShapeList (treeOf Gen.defaultCtx exDocV) =
    "(c \"a%20;\") (m \"verb\" <(c \"b{$%20;%25;\\\")>) (c \"x\") (g \"{\" \"}\" [(m \"verb\" <(c \"\")>)])" := by
  decide +kernel

theorem exDoc_core : Core Gen.defaultCtx exDoc = true := by decide +kernel
theorem exDocS_core : Core Gen.defaultCtx exDocS = true := by decide +kernel
theorem exDoc2_core : Core Gen.defaultCtx exDoc2 = true := by decide +kernel
theorem exDocW_core : Core Gen.defaultCtx exDocW = true := by decide +kernel
theorem exDocM_core : Core Gen.defaultCtx exDocM = true := by decide +kernel
theorem exDocF_core : Core Gen.defaultCtx exDocF = true := by decide +kernel

/-- the default context and the example documents satisfy the hypothesis of `C02_core`, whose conclusion for them is -/
example : shapeTop (parseStrict Gen.defaultCtx (unparse exDoc)) = some (treeOf Gen.defaultCtx exDoc) :=
  C02_core _ _ exDoc_core
example : shapeTop (parseStrict Gen.defaultCtx (unparse exDoc2)) = some (treeOf Gen.defaultCtx exDoc2) :=
  C02_core _ _ exDoc2_core
example : shapeTop (parseStrict Gen.defaultCtx (unparse exDocW)) = some (treeOf Gen.defaultCtx exDocW) :=
  C02_core _ _ exDocW_core
example : shapeTop (parseStrict Gen.defaultCtx (unparse exDocM)) = some (treeOf Gen.defaultCtx exDocM) :=
  C02_core _ _ exDocM_core
example : shapeTop (parseStrict Gen.defaultCtx (unparse exDocF)) = some (treeOf Gen.defaultCtx exDocF) :=
  C02_core _ _ exDocF_core
example : shapeTop (parseStrict Gen.defaultCtx (unparse exDocS)) = some (treeOf Gen.defaultCtx exDocS) :=
  C02_core _ _ exDocS_core
example : unparse exDocS = "a~b --- c$x~y$\\emph{``q''}".toList := by decide +kernel

/-- the source of the first example -/
example : unparse exDoc = ['a', 'b', '{', 'c', '{', '}', '{', 'd', 'e', '}', '}', 'f'] := by decide +kernel

/-- the expected structures are not trivial (canonical text of `treeOf`) -/
example : showShapeList (treeOf Gen.defaultCtx exDoc) =
    "(c \"ab\") (g \"{\" \"}\" [(c \"c\") (g \"{\" \"}\" []) (g \"{\" \"}\" [(c \"de\")])]) (c \"f\")" := by decide +kernel

example : unparse exDocM = "\\section*[s]{T x} \\sqrt{y}\\item z".toList := by decide +kernel

example : showShapeList (treeOf Gen.defaultCtx exDocM) =
    "(m \"section\" <(c \"*\") (g \"[\" \"]\" [(c \"s\")]) (g \"{\" \"}\" [(c \"T%20;x\")])>) (m \"sqrt\" <- (g \"{\" \"}\" [(c \"y\")])>) (m \"item\" <->) (c \"z\")" := by
  decide +kernel

example : showShapeList (treeOf Gen.defaultCtx exDocF) =
    "(f I \"$\" \"$\" [(c \"x\")]) (f I \"\\(\" \"\\)\" [(c \"y\")]) (f D \"\\[\" \"\\]\" [(c \"z\")]) (f D \"$$\" \"$$\" [(c \"w\")]) (f I \"$\" \"$\" [(m \"mbox\" <(g \"{\" \"}\" [(f I \"\\(\" \"\\)\" [(c \"a\")])])>)])" := by
  decide +kernel

example : unparse exDocF = "$x$ \\(y\\) \\[z\\] $$w$$ $\\mbox{\\(a\\)}$".toList := by decide +kernel

/-- adjacent text items are one chars node for the parser and for `treeOf` alike; the empty context is allowed -/
example : Core {} [.T ['a'], .T ['b'], .G [.T ['x'], .W [' '], .T ['y']]] = true := by decide +kernel

end C02
end Pylx
