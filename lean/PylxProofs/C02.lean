/-
  C02 — parsing recovers the structure a well-formed document was written with.

  `C02_full` is the full statement over the document grammar of `Pylx/Doc.lean` (every construct, every context);
  `C02_core` proves it for the fragment `Doc.Core` (a decidable predicate on context and derivation: text of
  letters / digits / `.,;:`, brace groups, comments ending in a newline plus indentation; context without a specials
  string that starts with a text character), for every
  derivation of the fragment (unbounded depth and length), every context satisfying `Doc.keysCore`, and every amount
  of fuel that is large enough; `C02_core_top` is the instance for `parseTop`.
-/
import PylxProofs.C02Loop
namespace Pylx
namespace C02
open Doc

section constructs
variable {env : Env} {keys : List Str} {m : Bool} {md : Option Str} {stop : StopTok} {child : ChildPS}

theorem Reaches.congr {f : PSFields} {st : LoopSt} {tr tr' : List Shape} {n : Nat} (h : mergeChars tr = mergeChars tr')
    (hr : Reaches env f stop child st tr n) : Reaches env f stop child st tr' n := by
  obtain ⟨st', h1, h2, h3⟩ := hr
  exact ⟨st', h1, by rw [h2]; exact mergeChars_append_right _ h, h3⟩

/-- one text character -/
theorem reach_char (htol : env.tol = false) (hn : NormOk m md) (hk : keysCore keys = true) {st : LoopSt} {c : Char} {rest : Str}
    (hd : env.s.drop st.pos = c :: rest) (hc : isTextChar c = true) :
    Reaches env (stdF keys m md true) stop child st [.chars [c]] 1 := by
  have hpk := peek_alpha (psStd_std keys m md true hn) hk hd hc
  refine ⟨{ (st.push ([] ++ [c]) (st.pos - ([] : Str).length)) with pos := st.pos + 1 }, rfl, ?_, ?_⟩
  · show mergeChars (shapeOfNodes st.acc ++ pendSh (st.pend ++ ([] ++ [c]))) = mergeChars ((shapeOfNodes st.acc ++ pendSh st.pend) ++ [.chars [c]])
    rw [List.append_assoc]
    exact mergeChars_append_right _ (pendSh_append st.pend [c] (by simp))
  · intro R h
    refine Ev.of_tail (fun rec => ?_) h
    show loopStep env rec _ stop child st = _
    rw [loopStep_tok htol hpk, stop_test_char stop _ (Or.inl rfl)]
    rfl

/-- a run of text characters becomes pending characters -/
theorem reach_letters (htol : env.tol = false) (hn : NormOk m md) (hk : keysCore keys = true) :
    ∀ (t : Str) (st : LoopSt) (rest : Str), t.all isTextChar = true → env.s.drop st.pos = t ++ rest →
      Reaches env (stdF keys m md true) stop child st (pendSh t) t.length
  | [], st, _, _, _ => Reaches.refl env _ stop child st
  | c :: t, st, rest, hall, hd => by
    simp only [List.all_cons, Bool.and_eq_true] at hall
    have h1 := reach_char (stop := stop) (child := child) htol hn hk (st := st) (by simpa using hd) hall.1
    have h2 := Reaches.trans h1 (fun st1 hp => reach_letters htol hn hk t st1 rest hall.2 (by
      rw [hp]; exact drop_succ_of_drop (by simpa using hd)))
    have e : 1 + t.length = (c :: t).length := by simp; omega
    rw [e] at h2
    refine Reaches.congr ?_ h2
    cases t with
    | nil => rfl
    | cons d t => rfl

/-- a sub-parse started by the collector for a `{` token -/
theorem reach_group (htol : env.tol = false) (hn : NormOk m md)
    (hch : ∀ t, child.get (stdF keys m md true) t = stdF keys m md true) {st : LoopSt} {rest : Str}
    (hd : env.s.drop st.pos = '{' :: rest) {g : Node} {p : Nat}
    (hg : Ev env (.pc (.group (.auto ['{']) false false) (stdF keys m md true) st.pos) (.ok (.node g) p)) (hp : st.pos ≤ p) :
    Reaches env (stdF keys m md true) stop child st [shapeOf g] (p - st.pos) := by
  have hpk := peek_open (psStd_std keys m md true hn) hd
  generalize htk : ({ kind := .braceOpen, arg := ['{'], pos := st.pos, posEnd := st.pos + 1 } : Token) = tk at hpk
  have hpre : tk.pre = [] := by rw [← htk]
  obtain ⟨hf1, hf2⟩ := sh_flushBefore (stdF keys m md true) st tk hpre
  refine ⟨{ (st.flushBefore (stdF keys m md true) tk) with pos := p, acc := (st.flushBefore (stdF keys m md true) tk).acc ++ [g] },
    by show p = st.pos + (p - st.pos); omega, ?_, ?_⟩
  · show mergeChars (shapeOfNodes ((st.flushBefore (stdF keys m md true) tk).acc ++ [g]) ++ pendSh (st.flushBefore (stdF keys m md true) tk).pend) = _
    rw [shapeOfNodes_append, hf1, hf2]
    simp only [shapeOfNodes, pendSh, List.isEmpty_nil, if_true, List.append_nil]
  · intro R h
    obtain ⟨n1, h1⟩ := hg
    obtain ⟨n2, h2⟩ := h
    refine Ev.of_step ⟨max n1 n2, fun k hk => ?_⟩
    show loopStep env (run env k) _ stop child st = R
    rw [loopStep_tok htol hpk, stop_test_char stop _ (Or.inr (Or.inl (by rw [← htk])))]
    have hkind : (tk.kind == TokKind.char) = false := by rw [← htk]; rfl
    rw [hkind]
    simp only [Bool.false_eq_true, if_false]
    have hk2 : tk.kind = .braceOpen := by rw [← htk]
    have e1 : tk.arg = ['{'] := by rw [← htk]
    have e2 : tk.pos = st.pos := by rw [← htk]
    unfold loopDispatch
    simp only [hk2, e1, e2]
    rw [hch, h1 k (by omega)]
    unfold afterChild
    exact h2 k (by omega)

/-- a comment with its newline and indentation -/
theorem reach_comment (htol : env.tol = false) (hn : NormOk m md) {st : LoopSt} {text ind r : Str}
    (hd : env.s.drop st.pos = '%' :: (text ++ '\n' :: (ind ++ r))) (htext : text.contains '\n' = false)
    (hws : isWs ('\n' :: ind) = true) (hnl : countNl ('\n' :: ind) < 2) (hr : headIs isPySpace r = false) :
    Reaches env (stdF keys m md true) stop child st [.comment text] (1 + text.length + (1 + ind.length)) := by
  have hpk := peek_comment (psStd_std keys m md true hn) hd htext hws hnl hr
  generalize htk : ({ kind := .comment, arg := text, pos := st.pos, posEnd := st.pos + 1 + text.length + (1 + ind.length),
                      pre := [], post := '\n' :: ind } : Token) = tk at hpk
  have hpre : tk.pre = [] := by rw [← htk]
  obtain ⟨hf1, hf2⟩ := sh_flushBefore (stdF keys m md true) st tk hpre
  refine ⟨{ (st.flushBefore (stdF keys m md true) tk) with pos := tk.posEnd, acc := (st.flushBefore (stdF keys m md true) tk).acc ++ [Node.comment tk.pos tk.posEnd (psInfo (stdF keys m md true)) tk.arg tk.post] }, ?_, ?_, ?_⟩
  · show tk.posEnd = _
    rw [← htk]; show st.pos + 1 + text.length + (1 + ind.length) = _; omega
  · show mergeChars (shapeOfNodes ((st.flushBefore (stdF keys m md true) tk).acc ++ [_]) ++ pendSh (st.flushBefore (stdF keys m md true) tk).pend) = _
    rw [shapeOfNodes_append, hf1, hf2]
    have : tk.arg = text := by rw [← htk]
    simp only [shapeOfNodes, shapeOf, pendSh, List.isEmpty_nil, if_true, List.append_nil, this]
  · intro R h
    refine Ev.of_tail (fun rec => ?_) h
    show loopStep env rec _ stop child st = _
    rw [loopStep_tok htol hpk, stop_test_char stop _ (Or.inr (Or.inr (Or.inr (by rw [← htk]))))]
    have hkind : (tk.kind == TokKind.char) = false := by rw [← htk]; rfl
    rw [hkind]
    simp only [Bool.false_eq_true, if_false]
    have hk2 : tk.kind = .comment := by rw [← htk]
    unfold loopDispatch
    simp only [hk2]

theorem core_head (tl : List Item) (rest : Str) (hc : coreItems tl = true) (hr : headIs isPySpace rest = false) :
    headIs isPySpace (unparseItems tl ++ rest) = false := by
  cases tl with
  | nil => simpa [unparseItems] using hr
  | cons it tl =>
    cases it with
    | T t =>
      simp only [coreItems, Bool.and_eq_true, Bool.not_eq_eq_eq_not, Bool.not_true] at hc
      cases t with
      | nil => simp at hc
      | cons c t =>
        have := (textChar_ne (c := c) (by have := hc.1.2; simp only [List.all_cons, Bool.and_eq_true] at this; exact this.1)).2.2.2.2.2
        simp [unparseItems, headIs, this]
    | G b =>
      have : isPySpace '{' = false := by decide
      simp [unparseItems, headIs, this]
    | C text tail =>
      have : isPySpace '%' = false := by decide
      simp [unparseItems, headIs, this]
    | _ => simp [coreItems] at hc

theorem treeRaw_prev (ctx : Ctx) (prev : Option Str) (tl : List Item) (hc : coreItems tl = true) :
    treeRaw ctx prev tl = treeRaw ctx none tl := by
  cases tl with
  | nil => simp only [treeRaw]
  | cons it tl =>
    cases it with
    | T t => simp only [treeRaw]
    | G b => simp only [treeRaw]
    | C text tail => simp only [treeRaw]
    | _ => simp [coreItems] at hc

/-! ### ends of the collector loop, the general-nodes parser, the group parser -/

theorem sh_init (pos : Nat) : sh ({ pos := pos } : LoopSt) = [] := rfl

/-- the collector in front of the closing brace it was asked to stop at -/
theorem loop_close (htol : env.tol = false) (hn : NormOk m md) {st : LoopSt} {rest : Str}
    (hd : env.s.drop st.pos = '}' :: rest) :
    ∃ e : LoopEnd, Ev env (.loop (stdF keys m md true) (.braceClose ['}']) child st) (.loopEnd e) ∧
      shapeOfNodes e.nodes = sh st ∧ e.err = none ∧ ∃ t, e.stopTok = some t ∧ t.posEnd = st.pos + 1 := by
  have hpk := peek_close (psStd_std keys m md true hn) hd
  let tk : Token := { kind := .braceClose, arg := ['}'], pos := st.pos, posEnd := st.pos + 1 }
  let st1 : LoopSt := { (st.push [] (st.pos - ([] : Str).length)) with pos := st.pos }
  refine ⟨{ nodes := (st1.flush (stdF keys m md true)).acc, pos := (st1.flush (stdF keys m md true)).pos,
            stopTok := some tk, err := none }, Ev.of_const (fun rec => ?_), ?_, rfl, tk, rfl, rfl⟩
  · show loopStep env rec _ _ child st = _
    rw [loopStep_tok htol hpk]
    have : StopTok.test (.braceClose ['}']) { kind := .braceClose, arg := ['}'], pos := st.pos, posEnd := st.pos + 1 } = true := rfl
    rw [this]
    simp only [if_true]
    unfold loopFinish
    rfl
  · show shapeOfNodes (st1.flush _).acc = _
    rw [(sh_flush (stdF keys m md true) st1).1]
    show shapeOfNodes st.acc ++ pendSh (st.pend ++ []) = _
    rw [List.append_nil]; rfl

/-- the collector at the end of the input -/
theorem loop_eos (htol : env.tol = false) (f : PSFields) {st : LoopSt} (hd : env.s.drop st.pos = []) :
    ∃ e : LoopEnd, Ev env (.loop f stop child st) (.loopEnd e) ∧
      shapeOfNodes e.nodes = sh st ∧ e.err = none ∧ e.stopTok = none ∧ e.pos = st.pos := by
  have hpk := peek_eos (mkPS f) hd
  refine ⟨{ nodes := (st.flush f).acc, pos := (st.flush f).pos, stopTok := none, err := none },
    Ev.of_const (fun rec => ?_), (sh_flush f st).1, rfl, rfl, (sh_flush f st).2.2⟩
  show loopStep env rec _ _ child st = _
  rw [loopStep_eos htol hpk]
  unfold loopFinish
  rfl

theorem general_of_loop_close {f : PSFields} {c : Str} {pos : Nat} {e : LoopEnd} {t : Token} (htol : env.tol = false)
    (hl : Ev env (.loop f (.braceClose c) child { pos := pos }) (.loopEnd e)) (herr : e.err = none)
    (hst : e.stopTok = some t) :
    Ev env (.pc (.general (.braceClose c) true child) f pos) (.ok (.list
      (match e.nodes.head? with | some n => some n.pos | none => some pos)
      (match e.nodes.getLast? with | some n => some n.posEnd | none => some pos) e.nodes) t.posEnd) := by
  obtain ⟨n, hn⟩ := hl
  refine Ev.of_step ⟨n, fun k hk => ?_⟩
  show parseContent env.tol (rawGeneral (run env k) (.braceClose c) true child f pos) = _
  unfold rawGeneral
  rw [hn k hk, htol]
  unfold retOfLoop
  simp only [herr, hst, StopTok.isSome, Option.isNone_some, Bool.and_false, Bool.false_eq_true, if_false, if_true,
    movePastToken, listOf]
  rfl

theorem general_of_loop_top {f : PSFields} {e : LoopEnd} (htol : env.tol = false)
    (hl : Ev env (.loop f .none .same { pos := 0 }) (.loopEnd e)) (herr : e.err = none) (hst : e.stopTok = none) :
    Ev env (topTask f) (.ok (.list
      (match e.nodes.head? with | some n => some n.pos | none => some 0)
      (match e.nodes.getLast? with | some n => some n.posEnd | none => some 0) e.nodes) e.pos) := by
  obtain ⟨n, hn⟩ := hl
  refine Ev.of_step ⟨n, fun k hk => ?_⟩
  show parseContent env.tol (rawGeneral (run env k) .none true .same f 0) = _
  unfold rawGeneral
  rw [hn k hk, htol]
  unfold retOfLoop
  simp only [herr, hst, StopTok.isSome, Bool.and_false, Bool.false_and, Bool.false_eq_true, if_false, listOf]
  rfl

/-- the body of a brace group -/
theorem body_runs (htol : env.tol = false) (hn : NormOk m md) {pos n : Nat} {tr : List Shape} {rest : Str}
    (hr : Reaches env (stdF keys m md true) (.braceClose ['}']) child { pos := pos } tr n)
    (hd : env.s.drop (pos + n) = '}' :: rest) :
    ∃ a b ns, Ev env (.pc (.general (.braceClose ['}']) true child) (stdF keys m md true) pos) (.ok (.list a b ns) (pos + n + 1)) ∧
      mergeChars (shapeOfNodes ns) = mergeChars tr := by
  obtain ⟨st', hp, hs, hk⟩ := hr
  have hp' : st'.pos = pos + n := hp
  obtain ⟨e, he, hsh, herr, t, hst, hte⟩ := loop_close (keys := keys) (child := child) htol hn (st := st') (by rw [hp']; exact hd)
  have := general_of_loop_close htol (hk _ he) herr hst
  rw [hte, hp'] at this
  refine ⟨_, _, e.nodes, this, ?_⟩
  rw [hsh, hs, sh_init, List.nil_append]

/-- `LatexDelimitedGroupParser` on `{ body }` -/
theorem group_runs (htol : env.tol = false) (hn : NormOk m md) {pos p : Nat} {rest : Str} {a b : Option Nat} {ns : List Node}
    (hd : env.s.drop pos = '{' :: rest)
    (hb : Ev env (.pc (.general (.braceClose ['}']) true (.group ['{'] (stdF keys m md true) (stdF keys m md true)))
      (stdF keys m md true) (pos + 1)) (.ok (.list a b ns) p)) :
    Ev env (.pc (.group (.auto ['{']) false false) (stdF keys m md true) pos)
      (.ok (.node (Node.group pos p (psInfo (stdF keys m md true)) ['{'] ['}'] (some ns))) p) := by
  have hpk := peek_open (psStd_std keys m md true hn) hd
  obtain ⟨n, hb⟩ := hb
  refine Ev.of_step ⟨n, fun k hk => ?_⟩
  show parseContent env.tol (rawGroup env (run env k) (.auto ['{']) false false (stdF keys m md true) pos) = _
  unfold rawGroup
  have hgs : groupState (.auto ['{']) (stdF keys m md true) = some (stdF keys m md true) := by
    unfold groupState
    rw [(psStd_std keys m md true hn).go]
    rfl
  rw [hgs]
  simp only
  rw [htol, peekTok_false, hpk]
  simp only
  unfold rawGroupTok
  have hgc : groupCloser (.auto ['{']) (stdF keys m md true) = some ['}'] := by
    unfold groupCloser
    rw [(psStd_std keys m md true hn).go]
    rfl
  rw [hgc]
  simp only [GroupDelims.opener, List.isEmpty_nil, Bool.not_true, Bool.and_false, Bool.not_false, Bool.true_and,
    beq_self_eq_true]
  rw [hb k hk]
  rfl

theorem child_same (f : PSFields) (t : Token) : ChildPS.same.get f t = f := rfl

theorem child_group (o : Str) (f : PSFields) (t : Token) : (ChildPS.group o f f).get f t = f := by
  unfold ChildPS.get
  simp

/-! ### the prefix lemma, by recursion on the derivation -/

/-- **prefix lemma.**  With the collector at the start of `unparse a ++ rest` (any pending characters, any
    accumulated nodes, any stop condition), it produces the structure of `a` and stands in front of `rest`. -/
theorem items_reach (ctx : Ctx) (htol : env.tol = false) (hk : keysCore keys = true) :
    ∀ (a : List Item), coreItems a = true → ∀ (m : Bool) (md : Option Str), NormOk m md →
      ∀ (stop : StopTok) (child : ChildPS), (∀ t, child.get (stdF keys m md true) t = stdF keys m md true) →
      ∀ (st : LoopSt) (rest : Str), headIs isPySpace rest = false → env.s.drop st.pos = unparseItems a ++ rest →
      Reaches env (stdF keys m md true) stop child st (treeRaw ctx none a) (unparseItems a).length
  | [], _, m, md, _, stop, child, _, st, _, _, _ => by
    simpa only [treeRaw, unparseItems, List.length_nil] using Reaches.refl env (stdF keys m md true) stop child st
  | .T t :: tl, hc, m, md, hn, stop, child, hch, st, rest, hrs, hd => by
    simp only [coreItems, Bool.and_eq_true, Bool.not_eq_eq_eq_not, Bool.not_true] at hc
    obtain ⟨⟨hne, hall⟩, htl⟩ := hc
    simp only [unparseItems, List.append_assoc] at hd
    have h1 := reach_letters (stop := stop) (child := child) htol hn hk t st _ hall hd
    have h2 := Reaches.trans h1 (fun st1 hp =>
      items_reach ctx htol hk tl htl m md hn stop child hch st1 rest hrs (by rw [hp]; exact drop_add_of_drop hd))
    have e1 : pendSh t = [.chars t] := by unfold pendSh; rw [hne]; rfl
    rw [e1] at h2
    simpa only [treeRaw, unparseItems, List.length_append, List.singleton_append] using h2
  | .G b :: tl, hc, m, md, hn, stop, child, hch, st, rest, hrs, hd => by
    simp only [coreItems, Bool.and_eq_true] at hc
    obtain ⟨hb, htl⟩ := hc
    simp only [unparseItems, List.cons_append, List.append_assoc] at hd
    have hd1 : env.s.drop (st.pos + 1) = unparseItems b ++ '}' :: (unparseItems tl ++ rest) := drop_succ_of_drop hd
    have hbody := items_reach ctx htol hk b hb m md hn (.braceClose ['}'])
      (.group ['{'] (stdF keys m md true) (stdF keys m md true)) (child_group _ _) { pos := st.pos + 1 } _ (by show isPySpace '}' = false; decide) hd1
    obtain ⟨a', b', ns, hgen, hsh⟩ := body_runs htol hn hbody (drop_add_of_drop hd1)
    have hgrp := group_runs htol hn hd hgen
    have h1 := reach_group (stop := stop) htol hn hch hd hgrp (by omega)
    have h2 := Reaches.trans h1 (fun st1 hp =>
      items_reach ctx htol hk tl htl m md hn stop child hch st1 rest hrs (by
        rw [hp]
        have : st.pos + (st.pos + 1 + (unparseItems b).length + 1 - st.pos) = st.pos + 1 + (unparseItems b).length + 1 := by omega
        rw [this]
        exact drop_succ_of_drop (drop_add_of_drop hd1)))
    have e1 : shapeOf (Node.group st.pos (st.pos + 1 + (unparseItems b).length + 1) (psInfo (stdF keys m md true)) ['{'] ['}'] (some ns))
        = .group ['{'] ['}'] (some (normList (treeRaw ctx none b))) := by
      simp only [shapeOf, shapeOfBody]
      rw [normList_congr hsh]
    rw [e1] at h2
    have e2 : st.pos + 1 + (unparseItems b).length + 1 - st.pos + (unparseItems tl).length
        = (unparseItems (.G b :: tl)).length := by
      simp only [unparseItems, List.length_cons, List.length_append]; omega
    rw [e2] at h2
    simpa only [treeRaw, List.singleton_append] using h2
  | .C text tail :: tl, hc, m, md, hn, stop, child, hch, st, rest, hrs, hd => by
    simp only [coreItems, Bool.and_eq_true, Bool.not_eq_eq_eq_not, Bool.not_true, decide_eq_true_eq, beq_iff_eq] at hc
    obtain ⟨⟨⟨⟨htext, hhead⟩, hws⟩, hnl⟩, htl⟩ := hc
    cases tail with
    | nil => simp at hhead
    | cons c0 ind =>
      have hc0 : c0 = '\n' := by simpa using hhead
      subst hc0
      simp only [unparseItems, List.cons_append, List.append_assoc] at hd
      have hr := core_head tl rest htl hrs
      have h1 := reach_comment (keys := keys) (stop := stop) (child := child) htol hn hd htext hws hnl hr
      have h2 := Reaches.trans h1 (fun st1 hp =>
        items_reach ctx htol hk tl htl m md hn stop child hch st1 rest hrs (by
          rw [hp]
          have e : st.pos + (1 + text.length + (1 + ind.length)) = st.pos + 1 + text.length + 1 + ind.length := by omega
          rw [e]
          have d1 := drop_succ_of_drop hd
          have d2 := drop_add_of_drop d1
          have d3 := drop_succ_of_drop d2
          exact drop_add_of_drop d3))
      have e2 : 1 + text.length + (1 + ind.length) + (unparseItems tl).length
          = (unparseItems (.C text ('\n' :: ind) :: tl)).length := by
        simp only [unparseItems, List.length_cons, List.length_append]; omega
      rw [e2] at h2
      simpa only [treeRaw, treeRaw_prev ctx _ tl htl, List.singleton_append] using h2
  | .W _ :: _, hc, _, _, _, _, _, _, _, _, _, _ => by simp [coreItems] at hc
  | .P _ :: _, hc, _, _, _, _, _, _, _, _, _, _ => by simp [coreItems] at hc
  | .M _ _ _ :: _, hc, _, _, _, _, _, _, _, _, _, _ => by simp [coreItems] at hc
  | .E _ _ _ :: _, hc, _, _, _, _, _, _, _, _, _, _ => by simp [coreItems] at hc
  | .F _ _ :: _, hc, _, _, _, _, _, _, _, _, _, _ => by simp [coreItems] at hc
  | .S _ _ :: _, hc, _, _, _, _, _, _, _, _, _, _ => by simp [coreItems] at hc
  | .V _ _ :: _, hc, _, _, _, _, _, _, _, _, _, _ => by simp [coreItems] at hc
  | .VE _ _ _ _ :: _, hc, _, _, _, _, _, _, _, _, _, _ => by simp [coreItems] at hc

end constructs

/-! ### C02 -/

/-- **C02, full statement** (kept as a proposition; proved below for the fragment `Doc.Core`, covered by the
    correspondence check and the structure oracle outside it): for every context and every well-formed document of
    the grammar, the strict parse of its source returns exactly the structure it was written with. -/
def C02_full : Prop :=
  ∀ (ctx : Ctx) (d : List Item), WF ctx d = true → shapeTop (parseStrict ctx (unparse d)) = some (treeOf ctx d)

theorem startFields_std (ctx : Ctx) : startFields ctx = stdF (ctxKeys ctx) false none true := rfl

/-- the top-level task on a core document, for every sufficiently large amount of fuel, ends at the end of the input
    with a node list whose structure is the one the document was written with -/
theorem core_ev (ctx : Ctx) (d : List Item) (h : Core ctx d = true) :
    ∃ a b ns, Ev { tol := false, ctx := ctx, s := unparse d } (topTask (startFields ctx)) (.ok (.list a b ns) (unparse d).length) ∧
      shapeOfList ns = treeOf ctx d := by
  unfold Core at h
  rw [Bool.and_eq_true] at h
  obtain ⟨hk, hc⟩ := h
  have hr := items_reach (env := { tol := false, ctx := ctx, s := unparse d }) ctx rfl hk d hc false none (fun _ => rfl)
    .none .same (child_same _) { pos := 0 } [] rfl (by simp [unparse])
  obtain ⟨st', hp, hs, hkk⟩ := hr
  have hp' : st'.pos = (unparseItems d).length := by rw [hp]; simp
  obtain ⟨e, he, hsh, herr, hst, hpos⟩ := loop_eos (stop := .none) (child := .same)
    (env := { tol := false, ctx := ctx, s := unparse d }) rfl (stdF (ctxKeys ctx) false none true) (st := st')
    (by rw [hp']; exact List.drop_length)
  have htop := general_of_loop_top (env := { tol := false, ctx := ctx, s := unparse d }) rfl (hkk _ he) herr hst
  rw [hpos, hp'] at htop
  refine ⟨_, _, e.nodes, htop, ?_⟩
  unfold shapeOfList treeOf
  apply normList_congr
  rw [hsh, hs, sh_init, List.nil_append]

/-- **C02 on the core fragment, every amount of fuel that is large enough.** -/
theorem C02_core_run (ctx : Ctx) (d : List Item) (h : Core ctx d = true) :
    ∃ N, ∀ n, N ≤ n →
      shapeTop (run { tol := false, ctx := ctx, s := unparse d } n (topTask (startFields ctx))) = some (treeOf ctx d) := by
  obtain ⟨a, b, ns, ⟨N, hN⟩, hsh⟩ := core_ev ctx d h
  refine ⟨N, fun n hn => ?_⟩
  rw [hN n hn]
  show some (shapeOfList ns) = _
  rw [hsh]

theorem delimsOk_start (ctx : Ctx) : DelimsOk (startFields ctx) := by
  show ∀ pr ∈ ([(['$'], ['$']), (['\\', '('], ['\\', ')'])] : Pairs) ++ [(['$', '$'], ['$', '$']), (['\\', '['], ['\\', ']'])],
    pr.1 ≠ [] ∧ pr.2 ≠ []
  decide

/-- **C02 on the core fragment** (`parseTop`, i.e. the fuel `fuelFor s` the model runs with): for every context in
    which no specials string starts with a text character and every document made of text (letters, digits,
    `.` `,` `;` `:`), brace groups and comments ending in a newline (plus indentation), nested to any depth, the strict parse of the document's source returns exactly the structure the document was written
    with. -/
theorem C02_core (ctx : Ctx) (d : List Item) (h : Core ctx d = true) :
    shapeTop (parseStrict ctx (unparse d)) = some (treeOf ctx d) := by
  obtain ⟨N, hN⟩ := C02_core_run ctx d h
  show shapeTop (run { tol := false, ctx := ctx, s := unparse d } (fuelFor (unparse d)) (topTask (startFields ctx))) = _
  by_cases hle : N ≤ fuelFor (unparse d)
  · exact hN _ hle
  · have hnf := C06_no_fuel { tol := false, ctx := ctx, s := unparse d } (startFields ctx) (delimsOk_start ctx)
    have := run_mono { tol := false, ctx := ctx, s := unparse d } (fuelFor (unparse d)) N (topTask (startFields ctx)) hnf (by omega)
    rw [← this]
    exact hN N (Nat.le_refl _)

/-- the parse also ends exactly at the end of the source and is a node list (not an error, not a crash) -/
theorem C02_core_ok (ctx : Ctx) (d : List Item) (h : Core ctx d = true) :
    ∃ a b ns, parseStrict ctx (unparse d) = .ok (.list a b ns) (unparse d).length ∧ shapeOfList ns = treeOf ctx d := by
  obtain ⟨a, b, ns, ⟨N, hN⟩, hsh⟩ := core_ev ctx d h
  refine ⟨a, b, ns, ?_, hsh⟩
  show run { tol := false, ctx := ctx, s := unparse d } (fuelFor (unparse d)) (topTask (startFields ctx)) = _
  by_cases hle : N ≤ fuelFor (unparse d)
  · exact hN _ hle
  · have hnf := C06_no_fuel { tol := false, ctx := ctx, s := unparse d } (startFields ctx) (delimsOk_start ctx)
    have := run_mono { tol := false, ctx := ctx, s := unparse d } (fuelFor (unparse d)) N (topTask (startFields ctx)) hnf (by omega)
    rw [← this]
    exact hN N (Nat.le_refl _)

/-! ### non-vacuity -/

/-- `ab{c{}{de}}f` -/
def exDoc : List Item :=
  [.T ['a', 'b'], .G [.T ['c'], .G [], .G [.T ['d', 'e']]], .T ['f']]

/-- `a{%x}\n  b}` followed by `c`: a comment whose text contains a closing brace, inside a group -/
def exDoc2 : List Item :=
  [.T ['a'], .G [.C ['x', '}'] ['\n', ' ', ' '], .T ['b']], .T ['c']]

theorem exDoc2_core : Core Gen.defaultCtx exDoc2 = true := by
  have h : keysCore (ctxKeys Gen.defaultCtx) = true := by decide
  have ha : ∀ c ∈ ['a', 'b', 'c'], isTextChar c = true := by decide
  have hw : isWs ['\n', ' ', ' '] = true := by decide
  have hn : countNl ['\n', ' ', ' '] < 2 := by decide
  have hx : (['x', '}'] : Str).contains '\n' = false := by decide
  simp [Core, h, exDoc2, coreItems, ha, hw, hn]

example : shapeTop (parseStrict Gen.defaultCtx (unparse exDoc2)) = some (treeOf Gen.defaultCtx exDoc2) :=
  C02_core _ _ exDoc2_core

theorem exDoc_core : Core Gen.defaultCtx exDoc = true := by
  have h : keysCore (ctxKeys Gen.defaultCtx) = true := by decide
  have ha : ∀ c ∈ ['a', 'b', 'c', 'd', 'e', 'f'], isTextChar c = true := by decide
  simp [Core, h, exDoc, coreItems, ha]

/-- the source of the example -/
example : unparse exDoc = ['a', 'b', '{', 'c', '{', '}', '{', 'd', 'e', '}', '}', 'f'] := by
  simp [unparse, exDoc, unparseItems]

/-- the expected structure of the example is not trivial: chars, a group holding chars and two groups, chars -/
example : treeOf Gen.defaultCtx exDoc =
    [.chars ['a', 'b'],
     .group ['{'] ['}'] (some [.chars ['c'], .group ['{'] ['}'] (some []), .group ['{'] ['}'] (some [.chars ['d', 'e']])]),
     .chars ['f']] := by
  have hb : ∀ c ∈ ['a', 'b', 'c', 'd', 'e', 'f'], isPySpace c = false := by decide
  simp [treeOf, exDoc, treeRaw, normList, mergeChars, Shape.isBlank, hb]

/-- the default context and a nested document satisfy the hypothesis of `C02_core`, whose conclusion for them is -/
example : shapeTop (parseStrict Gen.defaultCtx (unparse exDoc)) = some (treeOf Gen.defaultCtx exDoc) :=
  C02_core _ _ exDoc_core

/-- adjacent text items are one chars node for the parser and for `treeOf` alike; the empty context is allowed -/
example : Core {} [.T ['a'], .T ['b'], .G [.T ['x'], .T ['y']]] = true := by
  have h : keysCore (ctxKeys {}) = true := by decide
  have ha : ∀ c ∈ ['a', 'b', 'x', 'y'], isTextChar c = true := by decide
  simp [Core, h, coreItems, ha]

end C02
end Pylx
