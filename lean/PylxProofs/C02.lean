/-
  C02 — parsing recovers the structure a well-formed document was written with.

  `C02_full` is the full statement over the document grammar of `Pylx/Doc.lean` (every construct, every context); it is
  FALSE as stated (`C02_full_false`: `Doc.WF` admits a control word without post-space followed by a whitespace item).
  `C02_core` proves the round trip for the fragment `Doc.Core` (a decidable predicate on context and derivation):
  text of letters / digits / `.,;:`, whitespace items (fewer than two newlines) anywhere, brace groups, comments ending
  in a newline plus indentation (and the whitespace behind it), calls of control-word macros whose signature (looked up
  in the context) is made of `m` / `o` / `s` slots written as brace groups / bracket groups / stars or left out (any
  argument mode deltas), inline and display math with the four delimiter pairs, specials without arguments; arbitrary
  nesting; every context in which no specials string starts with a text character, `*`, `[` or `]` — for every
  derivation of the fragment (unbounded depth and length) and every amount of fuel that is large enough
  (`C02_core_run`), in particular the fuel `parseTop` uses (`C02_core`, `C02_core_ok`).

  Architecture: `Ev` (result for all large fuel) + `run_mono`; `items_reach` / `args_reach` = prefix lemma over every
  collector state, by mutual recursion on the derivation, one lemma per construct (`step_*`, `*_runs`).
-/
import PylxProofs.C02Args
import PylxProofs.C01
namespace Pylx
namespace C02
open Doc

section constructs
variable {env : Env} {keys : List Str}

/-- `Reaches` with whitespace in hand: the collector stands in front of the whitespace `w` (not yet read) followed by
    text that spells the shapes `trA`; it gets to a state in front of some whitespace `w'` followed by `tail`, and what
    it has produced plus `w'` is what `w` plus `trA` stand for -/
def ReachesW (env : Env) (L : PSFields) (stop : StopTok) (child : ChildPS) (st : LoopSt) (w : Str) (trA : List Shape)
    (tail : Str) : Prop :=
  ∃ tr n w', Reaches env L stop child st tr n ∧ env.s.drop (st.pos + n) = w' ++ tail ∧ isWs w' = true ∧ countNl w' < 2 ∧
    mergeChars (tr ++ pendSh w') = mergeChars (pendSh w ++ trA)

theorem ReachesW.step {L : PSFields} {stop : StopTok} {child : ChildPS} {st : LoopSt} {tr1 : List Shape} {n1 : Nat}
    {w : Str} {x trB : List Shape} {tail : Str} (h1 : Reaches env L stop child st tr1 n1)
    (hm : mergeChars tr1 = mergeChars (pendSh w ++ x))
    (h2 : ∀ st1 : LoopSt, st1.pos = st.pos + n1 → ReachesW env L stop child st1 [] trB tail) :
    ReachesW env L stop child st w (x ++ trB) tail := by
  obtain ⟨st1, hp1, hs1, hk1⟩ := h1
  obtain ⟨tr2, n2, w', ⟨st2, hp2, hs2, hk2⟩, hd2, hw2, hn2, hm2⟩ := h2 st1 hp1
  refine ⟨tr1 ++ tr2, n1 + n2, w', ⟨st2, by omega, ?_, fun R h => hk1 R (hk2 R h)⟩, ?_, hw2, hn2, ?_⟩
  · rw [hs2, ← List.append_assoc]
    exact mergeChars_append_left hs1 tr2
  · rw [← hd2, hp1, Nat.add_assoc]
  · have e1 : mergeChars (tr2 ++ pendSh w') = mergeChars trB := by rw [hm2]; rfl
    rw [List.append_assoc, mergeChars_append_right tr1 e1, mergeChars_append_left hm trB, List.append_assoc]

theorem ReachesW.nil {L : PSFields} {stop : StopTok} {child : ChildPS} {st : LoopSt} {w tail : Str}
    (hd : env.s.drop st.pos = w ++ tail) (hw : isWs w = true) (hn : countNl w < 2) :
    ReachesW env L stop child st w [] tail :=
  ⟨[], 0, w, Reaches.refl env L stop child st, hd, hw, hn, by rw [List.nil_append, List.append_nil]⟩

section text
variable {m br : Bool} {md : Option Str} {stop : StopTok} {child : ChildPS}

/-- one text character behind whitespace -/
theorem reach_char (htol : env.tol = false) (hn : NormOk m md) (hk : keysCore keys = true) {st : LoopSt} {w : Str} {c : Char}
    {rest : Str} (hd : env.s.drop st.pos = w ++ c :: rest) (hw : isWs w = true) (hnl : countNl w < 2) (hc : isTextChar c = true) :
    Reaches env (stdF keys m md true br) stop child st (pendSh w ++ pendSh [c]) (w.length + 1) := by
  have hps := psStd_std keys m md true br hn
  have hpk : peekImpl (mkPS (stdF keys m md true br)) env.s st.pos = _ :=
    (peekImpl_ws hd hw hnl (textChar_ne hc).2.2.2.2.2).trans (peekAtChar_text hps hk (drop_add_of_drop hd) hc)
  have := reach_charTok (stop := stop) (child := child) htol hpk rfl (by show st.pos ≤ st.pos + w.length + 1; omega)
  have e : st.pos + w.length + 1 - st.pos = w.length + 1 := by omega
  simp only [e] at this
  exact this

/-- a run of text characters becomes pending characters -/
theorem reach_letters (htol : env.tol = false) (hn : NormOk m md) (hk : keysCore keys = true) :
    ∀ (t : Str) (st : LoopSt) (rest : Str), t.all isTextChar = true → env.s.drop st.pos = t ++ rest →
      Reaches env (stdF keys m md true br) stop child st (pendSh t) t.length
  | [], st, _, _, _ => Reaches.refl env _ stop child st
  | c :: t, st, rest, hall, hd => by
    simp only [List.all_cons, Bool.and_eq_true] at hall
    have h1 := reach_char (br := br) (stop := stop) (child := child) (w := []) htol hn hk (st := st) (by simpa using hd) rfl (by decide) hall.1
    have h2 := Reaches.trans h1 (fun st1 hp => reach_letters htol hn hk t st1 rest hall.2 (by
      rw [hp]; exact drop_succ_of_drop (by simpa using hd)))
    have e : ([] : Str).length + 1 + t.length = (c :: t).length := by simp; omega
    rw [e] at h2
    refine Reaches.congr ?_ h2
    cases t with
    | nil => rfl
    | cons d t => rfl

/-- a text item behind whitespace -/
theorem reach_text (htol : env.tol = false) (hn : NormOk m md) (hk : keysCore keys = true) {st : LoopSt} {w t rest : Str}
    (hd : env.s.drop st.pos = w ++ (t ++ rest)) (hw : isWs w = true) (hnl : countNl w < 2) (hne : t ≠ [])
    (hall : t.all isTextChar = true) :
    Reaches env (stdF keys m md true br) stop child st (pendSh w ++ [.chars t]) (w.length + t.length) := by
  cases t with
  | nil => exact absurd rfl hne
  | cons c t =>
    simp only [List.all_cons, Bool.and_eq_true] at hall
    have h1 := reach_char (br := br) (stop := stop) (child := child) htol hn hk (st := st) (by simpa using hd) hw hnl hall.1
    have h2 := Reaches.trans h1 (fun st1 hp => reach_letters (br := br) htol hn hk t st1 rest hall.2 (by
      rw [hp, ← Nat.add_assoc]
      exact drop_succ_of_drop (drop_add_of_drop (by simpa using hd))))
    have e : w.length + 1 + t.length = w.length + (c :: t).length := by simp; omega
    rw [e] at h2
    refine Reaches.congr ?_ h2
    rw [List.append_assoc]
    apply mergeChars_append_right
    cases t with
    | nil => rfl
    | cons d t => rfl

end text

theorem child_same (f : PSFields) (t : Token) : ChildPS.same.get f t = f := rfl

theorem child_group (o : Str) (f : PSFields) (t : Token) : (ChildPS.group o f f).get f t = f := by
  unfold ChildPS.get
  simp

theorem child_br (g K : PSFields) (t : Token) (h : t.arg ≠ ['[']) : (ChildPS.group ['['] g K).get g t = K := by
  show (if (t.kind == TokKind.braceOpen && t.arg == ['[']) = true then g else K) = K
  have : (t.arg == ['[']) = false := by simpa using h
  rw [this, Bool.and_false]
  rfl

theorem stop_brace_math (c : Str) (t : Token) (h : t.kind = .mathInline ∨ t.kind = .mathDisplay) :
    (StopTok.braceClose c).test t = false := by
  rcases h with h | h <;> (simp only [StopTok.test, h]; rfl)

theorem followOk_of_head {c : Char} {r : Str} (hc : isPySpace c = false) (hc2 : c ≠ '\\') : absentFollowOk (c :: r) = true := by
  unfold absentFollowOk
  simp only [List.takeWhile_cons, List.dropWhile_cons, hc, Bool.false_eq_true, if_false]
  have : escSafe (c :: r) = true := by
    unfold escSafe
    split
    · rename_i h; cases h; exact absurd rfl hc2
    · rfl
  rw [this]
  rfl

theorem applyDelta_std (m : Bool) (md : Option Str) (d : Delta) :
    ∃ md', applyDelta (stdF keys m md true) d = stdF keys (deltaMath m d) md' true ∧ (NormOk m md → NormOk (deltaMath m d) md') := by
  cases d with
  | none => exact ⟨md, rfl, fun h => h⟩
  | enterMath => exact ⟨none, rfl, fun _ _ => rfl⟩
  | leaveMath => exact ⟨none, rfl, fun _ _ => rfl⟩

/-- the first character of a non-empty body in math mode is not `$` -/
theorem core_head_not_dollar (ctx : Ctx) (after : Str) : ∀ (b : List Item), coreItems ctx true after b = true →
    ∀ rest, isWs (unparseItems b) = false → headIs (· == '$') (unparseItems b ++ rest) = false
  | [], _, _, h => by simp [unparseItems, isWs] at h
  | .T t :: tl, hc, rest, _ => by
    simp only [coreItems, Bool.and_eq_true, Bool.not_eq_eq_eq_not, Bool.not_true] at hc
    cases t with
    | nil => simp at hc
    | cons c t =>
      have := hc.1.2
      simp only [List.all_cons, Bool.and_eq_true] at this
      have := (textChar_ne this.1).1
      simp [unparseItems, headIs, this]
  | .W w :: tl, hc, rest, _ => by
    simp only [coreItems, Bool.and_eq_true, Bool.not_eq_eq_eq_not, Bool.not_true] at hc
    cases w with
    | nil => simp at hc
    | cons c w =>
      have h1 := hc.1.1.1.2
      simp only [isWs, List.all_cons, Bool.and_eq_true] at h1
      have h2 := h1.1
      have : c ≠ '$' := by intro e; subst e; revert h2; decide
      simp [unparseItems, headIs, this]
  | .G b :: tl, _, rest, _ => by simp [unparseItems, headIs]
  | .C text tail :: tl, _, rest, _ => by simp [unparseItems, headIs]
  | .M name post args :: tl, _, rest, _ => by simp [unparseItems, headIs]
  | .F k b :: tl, hc, rest, _ => by simp [coreItems] at hc
  | .P _ :: _, hc, _, _ => by simp [coreItems] at hc
  | .E _ _ _ :: _, hc, _, _ => by simp [coreItems] at hc
  | .S name args :: tl, hc, rest, _ => by
    simp only [coreItems, Bool.and_eq_true] at hc
    cases name with
    | nil => simp [headIs] at hc
    | cons c name' =>
      have := (specialsHead_ne (c := c) (by simpa [headIs] using hc.1.1.1.2)).2.2.2.2.2.1
      simp [unparseItems, headIs, this]
  | .V _ _ :: _, hc, _, _ => by simp [coreItems] at hc
  | .VE _ _ _ _ :: _, hc, _, _ => by simp [coreItems] at hc

/-! ### one lemma per construct (the recursive parts are hypotheses) -/

section steps
variable {m : Bool} {md : Option Str}

/-- `{ body }` parsed by the group parser -/
theorem group_node (htol : env.tol = false) (hn : NormOk m md) {q : Nat} {X Y : Str} {trb : List Shape}
    (hd : env.s.drop q = '{' :: X)
    (hbody : ReachesW env (stdF keys m md true) (.braceClose ['}']) (.group ['{'] (stdF keys m md true) (stdF keys m md true))
      { pos := q + 1 } [] trb ('}' :: Y)) :
    ∃ p nd, q ≤ p ∧ env.s.drop p = Y ∧
      Ev env (.pc (.group (.auto ['{']) false false) (stdF keys m md true) q) (.ok (.node nd) p) ∧
      shapeOf nd = .group ['{'] ['}'] (some (normList trb)) := by
  obtain ⟨tr, n, w', hreach, hdrop, hw', hn', hm⟩ := hbody
  have hdrop' : env.s.drop (q + 1 + n) = w' ++ '}' :: Y := hdrop
  have hps := psStd_std keys m md true false hn
  have hpkc : peekImpl (mkPS (stdF keys m md true)) env.s (q + 1 + n) = _ :=
    (peekImpl_ws hdrop' hw' hn' (by decide)).trans (peekAtChar_close hps (drop_add_of_drop hdrop'))
  obtain ⟨a, b, ns, hgen, hsh⟩ := body_runs htol hreach hpkc rfl rfl
  have hgrp := group_runs htol hn hd hgen
  refine ⟨_, _, ?_, drop_succ_of_drop (drop_add_of_drop hdrop'), hgrp, ?_⟩
  · show q ≤ q + 1 + n + w'.length + 1; omega
  · simp only [shapeOf, shapeOfBody]
    rw [normList_congr (hsh.trans hm)]
    rfl

/-- `[ body ]` parsed by the group parser of an optional argument -/
theorem brgroup_node (htol : env.tol = false) (hn : NormOk m md) (ap : Bool) {q : Nat} {X Y : Str} {trb : List Shape}
    (hd : env.s.drop q = '[' :: X)
    (hbody : ReachesW env (stdF keys m md true true) (.braceClose [']']) (.group ['['] (stdF keys m md true true) (stdF keys m md true))
      { pos := q + 1 } [] trb (']' :: Y)) :
    ∃ p nd, q ≤ p ∧ env.s.drop p = Y ∧
      Ev env (.pc (.group (.pair ['['] [']']) true ap) (stdF keys m md true) q) (.ok (.node nd) p) ∧
      shapeOf nd = .group ['['] [']'] (some (normList trb)) := by
  obtain ⟨tr, n, w', hreach, hdrop, hw', hn', hm⟩ := hbody
  have hdrop' : env.s.drop (q + 1 + n) = w' ++ ']' :: Y := hdrop
  have hps := psStd_std keys m md true true hn
  have hpkc : peekImpl (mkPS (stdF keys m md true true)) env.s (q + 1 + n) = _ :=
    (peekImpl_ws hdrop' hw' hn' (by decide)).trans (peekAtChar_bclose hps (drop_add_of_drop hdrop'))
  obtain ⟨a, b, ns, hgen, hsh⟩ := body_runs htol hreach hpkc rfl rfl
  have hgrp := brgroup_runs htol hn ap hd hgen
  refine ⟨_, _, ?_, drop_succ_of_drop (drop_add_of_drop hdrop'), hgrp, ?_⟩
  · show q ≤ q + 1 + n + w'.length + 1; omega
  · simp only [shapeOf, shapeOfBody]
    rw [normList_congr (hsh.trans hm)]
    rfl

variable {br : Bool} {stop : StopTok} {child : ChildPS}

/-- a brace group in the collector -/
theorem step_group (htol : env.tol = false) (hn : NormOk m md)
    (hch : ∀ t : Token, t.arg ≠ ['['] → child.get (stdF keys m md true br) t = stdF keys m md true)
    {st : LoopSt} {w X Y : Str} {trb : List Shape} (hd : env.s.drop st.pos = w ++ ('{' :: X)) (hw : isWs w = true)
    (hnl : countNl w < 2)
    (hbody : ReachesW env (stdF keys m md true) (.braceClose ['}']) (.group ['{'] (stdF keys m md true) (stdF keys m md true))
      { pos := st.pos + w.length + 1 } [] trb ('}' :: Y)) :
    ∃ p, st.pos ≤ p ∧ env.s.drop p = Y ∧
      Reaches env (stdF keys m md true br) stop child st (pendSh w ++ [.group ['{'] ['}'] (some (normList trb))]) (p - st.pos) := by
  have hdq : env.s.drop (st.pos + w.length) = '{' :: X := drop_add_of_drop hd
  obtain ⟨p, nd, hqp, hdp, hgrp, hshape⟩ := group_node htol hn hdq hbody
  have hps := psStd_std keys m md true br hn
  have hpk : peekImpl (mkPS (stdF keys m md true br)) env.s st.pos = _ :=
    (peekImpl_ws hd hw hnl (by decide)).trans (peekAtChar_open hps hdq)
  refine ⟨p, by omega, hdp, ?_⟩
  have := reach_dispatch (stop := stop) (child := child) htol hpk (stop_test_char stop _ (Or.inr (Or.inl rfl))) rfl (by omega)
    (dispatch_group (K := stdF keys m md true) rfl (hch _ (by show ['{'] ≠ ['[']; decide)) hgrp)
  rw [hshape] at this
  exact this

/-- a comment with its newline and the whitespace behind it -/
theorem step_comment (htol : env.tol = false) (hn : NormOk m md) {st : LoopSt} {w text post r : Str}
    (hd : env.s.drop st.pos = w ++ ('%' :: (text ++ '\n' :: (post ++ r)))) (hw : isWs w = true) (hnl : countNl w < 2)
    (htext : text.contains '\n' = false) (hws : isWs ('\n' :: post) = true) (hnl2 : countNl ('\n' :: post) < 2)
    (hr : headIs isPySpace r = false) :
    ∃ p, st.pos ≤ p ∧ env.s.drop p = r ∧
      Reaches env (stdF keys m md true br) stop child st (pendSh w ++ [.comment text]) (p - st.pos) := by
  have hdq : env.s.drop (st.pos + w.length) = '%' :: (text ++ '\n' :: (post ++ r)) := drop_add_of_drop hd
  have hps := psStd_std keys m md true br hn
  have hpk : peekImpl (mkPS (stdF keys m md true br)) env.s st.pos = _ :=
    (peekImpl_ws hd hw hnl (by decide)).trans (peekAtChar_comment hps hdq htext hws hnl2 hr)
  refine ⟨st.pos + w.length + 1 + text.length + (1 + post.length), by omega, ?_, ?_⟩
  · have d1 := drop_succ_of_drop hdq
    have d2 := drop_add_of_drop d1
    have d3 := drop_succ_of_drop d2
    have d4 := drop_add_of_drop d3
    rw [← d4]; congr 1; omega
  · exact reach_dispatch (stop := stop) (child := child) htol hpk
      (stop_test_char stop _ (Or.inr (Or.inr (Or.inr (Or.inl rfl))))) rfl
      (by show st.pos ≤ st.pos + w.length + 1 + text.length + (1 + post.length); omega) (dispatch_comment rfl)

/-- a macro call in the collector -/
theorem step_macro (htol : env.tol = false) (hn : NormOk m md)
    (hch : ∀ t : Token, t.arg ≠ ['['] → child.get (stdF keys m md true br) t = stdF keys m md true)
    {st : LoopSt} {w post R : Str} {c0 : Char} {name' : Str} {sig : List ArgSpec} {al : List Arg} {pA : Nat}
    (hd : env.s.drop st.pos = w ++ ('\\' :: ((c0 :: name') ++ (post ++ R)))) (hw : isWs w = true) (hnl : countNl w < 2)
    (hname : (c0 :: name').all isAsciiAlpha = true) (hnext : headIs isAsciiAlpha (post ++ R) = false)
    (hws : isWs post = true) (hnl2 : countNl post < 2) (hr : headIs isPySpace R = false)
    (hb : (c0 :: name') ≠ "begin".toList) (he : (c0 :: name') ≠ "end".toList)
    (hspec : env.ctx.macroSpec (c0 :: name') = some (.std sig))
    (hargs : ArgsEv env (stdF keys m md true) sig [] (st.pos + w.length + 1 + (c0 :: name').length + post.length)
      (.ok (.args none none al) pA))
    (hpA : st.pos ≤ pA) :
    Reaches env (stdF keys m md true br) stop child st (pendSh w ++ [.mac (c0 :: name') (some (shapeOfArgList al))]) (pA - st.pos) := by
  have hdq : env.s.drop (st.pos + w.length) = '\\' :: ((c0 :: name') ++ (post ++ R)) := drop_add_of_drop hd
  have hps := psStd_std keys m md true br hn
  have hpk : peekImpl (mkPS (stdF keys m md true br)) env.s st.pos = _ :=
    (peekImpl_ws hd hw hnl (by decide)).trans (peekAtChar_macro hps (stdExpect_cases m md) hdq hname hnext hws hnl2 hr hb he)
  have hc0 : (c0 :: name') ≠ ['['] := by
    intro e
    simp only [List.all_cons, Bool.and_eq_true] at hname
    have : c0 = '[' := by simpa using (List.cons.inj e).1
    subst this
    have := hname.1
    revert this; decide
  have hcall := macroCall_runs (t := ({ kind := TokKind.macro, arg := (c0 :: name'), pos := st.pos + w.length, posEnd := st.pos + w.length + 1 + (c0 :: name').length + post.length, pre := [], post := post } : Token)) (arguments_runs hargs)
  exact reach_dispatch (stop := stop) (child := child) htol hpk
    (stop_test_char stop _ (Or.inr (Or.inr (Or.inl rfl)))) rfl hpA
    (dispatch_macro (K := stdF keys m md true) rfl hspec (hch _ hc0) hcall)

/-- a specials item in the collector -/
theorem step_specials (htol : env.tol = false) (hn : NormOk m md)
    (hch : ∀ t : Token, t.arg ≠ ['['] → child.get (stdF keys m md true br) t = stdF keys m md true)
    {st : LoopSt} {w R : Str} {c : Char} {name' : Str}
    (hd : env.s.drop st.pos = w ++ ((c :: name') ++ R)) (hw : isWs w = true) (hnl : countNl w < 2)
    (hc : specialsHeadOk c = true) (hts : testSpecials keys ((c :: name') ++ R) 0 = some (c :: name'))
    (hspec : lookupFirst (c :: name') env.ctx.specials = some (.std [])) :
    Reaches env (stdF keys m md true br) stop child st (pendSh w ++ [.specials (c :: name') []]) (w.length + (c :: name').length) := by
  have hdq : env.s.drop (st.pos + w.length) = (c :: name') ++ R := drop_add_of_drop hd
  have hps := psStd_std keys m md true br hn
  have hcs := specialsHead_ne hc
  have hpk : peekImpl (mkPS (stdF keys m md true br)) env.s st.pos = _ :=
    (peekImpl_ws (c := c) (rest := name' ++ R) (by rw [hd]; rfl) hw hnl hcs.1).trans (peekAtChar_specials hps hdq hc hts)
  have hc0 : (c :: name') ≠ ['['] := by
    intro e
    have : c = '[' := by simpa using (List.cons.inj e).1
    exact hcs.2.2.2.2.2.2.1 this
  have hcall := specialsCall_runs (t := ({ kind := TokKind.specials, arg := (c :: name'), pos := st.pos + w.length, posEnd := st.pos + w.length + (c :: name').length, pre := [] } : Token))
    (arguments_runs (argsEv_nil (env := env) (stdF keys m md true) [] (st.pos + w.length + (c :: name').length)))
  have := reach_dispatch (stop := stop) (child := child) htol hpk
    (stop_test_char stop _ (Or.inr (Or.inr (Or.inr (Or.inr (Or.inl rfl)))))) rfl
    (by show st.pos ≤ st.pos + w.length + (c :: name').length; omega)
    (dispatch_specials (K := stdF keys m md true) rfl hspec (hch _ hc0) hcall)
  have e : st.pos + w.length + (c :: name').length - st.pos = w.length + (c :: name').length := by omega
  rw [e] at this
  exact this

end steps

/-- math in the collector -/
theorem step_math (htol : env.tol = false) (k : FKind) {br : Bool} {stop : StopTok} {child : ChildPS}
    (hch : ∀ t : Token, t.arg ≠ ['['] → child.get (stdF keys false none true br) t = stdF keys false none true)
    (hstop : ∀ t : Token, t.kind = .mathInline ∨ t.kind = .mathDisplay → stop.test t = false)
    {st : LoopSt} {w X Y : Str} {trb : List Shape} (hd : env.s.drop st.pos = w ++ (k.opener ++ X)) (hw : isWs w = true)
    (hnl : countNl w < 2) (hdollar : k = .dollar → headIs (· == '$') X = false)
    (hbody : ReachesW env (stdF keys true (some k.opener) true) (.mathClose k.display k.closer) .same
      { pos := st.pos + w.length + k.opener.length } [] trb (k.closer ++ Y)) :
    ∃ p, st.pos ≤ p ∧ env.s.drop p = Y ∧
      Reaches env (stdF keys false none true br) stop child st
        (pendSh w ++ [.math k.display k.opener k.closer (some (normList trb))]) (p - st.pos) := by
  have hdq : env.s.drop (st.pos + w.length) = k.opener ++ X := drop_add_of_drop hd
  obtain ⟨tr, n, w', hreach, hdrop, hw', hn', hm⟩ := hbody
  have hdrop' : env.s.drop (st.pos + w.length + k.opener.length + n) = w' ++ (k.closer ++ Y) := hdrop
  -- the closer
  obtain ⟨cc, rc, hcc⟩ : ∃ c r0, k.closer = c :: r0 := by cases k <;> exact ⟨_, _, rfl⟩
  have hccs : isPySpace cc = false := by cases k <;> (cases hcc; decide)
  have hpsM : PSStd keys true true (some (k.closer, k.display)) false (mkPS (stdF keys true (some k.opener) true)) := by
    have := psStd_std keys true (some k.opener) true false (normOk_true _)
    rw [stdExpect_opener] at this
    exact this
  have hpkc : peekImpl (mkPS (stdF keys true (some k.opener) true)) env.s (st.pos + w.length + k.opener.length + n) =
      .tok (mathTok (st.pos + w.length + k.opener.length + n + w'.length) w' k.closer k.display) :=
    (peekImpl_ws (c := cc) (rest := rc ++ Y) (by rw [hdrop', hcc]; rfl) hw' hn' hccs).trans
      (peekAtChar_mathClose k hpsM (drop_add_of_drop hdrop') (by rw [hcc]; rfl))
  have hst : (StopTok.mathClose k.display k.closer).test (mathTok (st.pos + w.length + k.opener.length + n + w'.length) w' k.closer k.display) = true := by
    cases k <;> rfl
  obtain ⟨a, b, ns, hgen, hsh⟩ := body_runs htol hreach hpkc hst rfl
  have hmath := math_runs htol k hdq hdollar hgen
  -- the opener
  obtain ⟨co, ro, hco⟩ : ∃ c r0, k.opener = c :: r0 := by cases k <;> exact ⟨_, _, rfl⟩
  have hcos : isPySpace co = false := by cases k <;> (cases hco; decide)
  have hps := psStd_std keys false none true br (fun _ => rfl)
  have hpk : peekImpl (mkPS (stdF keys false none true br)) env.s st.pos = .tok (mathTok (st.pos + w.length) w k.opener k.display) :=
    (peekImpl_ws (c := co) (rest := ro ++ X) (by rw [hd, hco]; rfl) hw hnl hcos).trans
      (peekAtChar_mathOpen hps k hdq hdollar (by rw [hco]; rfl))
  have hkindm : (mathTok (st.pos + w.length) w k.opener k.display).kind = .mathInline ∨ (mathTok (st.pos + w.length) w k.opener k.display).kind = .mathDisplay := by
    cases k <;> first | exact Or.inl rfl | exact Or.inr rfl
  have hkc : ((mathTok (st.pos + w.length) w k.opener k.display).kind == TokKind.char) = false := by cases k <;> rfl
  have hopen : (mkPS (stdF keys false none true br)).t.mathByOpen.any (fun d => d.1 == k.opener) = true := by
    rw [hps.byOpen]; cases k <;> rfl
  have harg : k.opener ≠ ['['] := by cases k <;> decide
  have hposEnd : (mathTok (st.pos + w.length + k.opener.length + n + w'.length) w' k.closer k.display).posEnd
      = st.pos + w.length + k.opener.length + n + w'.length + k.closer.length := rfl
  rw [hposEnd] at hgen hmath
  refine ⟨st.pos + w.length + k.opener.length + n + w'.length + k.closer.length, by omega, ?_, ?_⟩
  · exact drop_add_of_drop (drop_add_of_drop hdrop')
  · have := reach_dispatch (stop := stop) (child := child) htol hpk (hstop _ hkindm) hkc (by omega)
      (dispatch_math (K := stdF keys false none true) (tk := { mathTok (st.pos + w.length) w k.opener k.display with pre := [] })
        hkindm (hch _ harg) hopen hmath)
    have e : shapeOf (Node.math (st.pos + w.length) (st.pos + w.length + k.opener.length + n + w'.length + k.closer.length)
        (psInfo (stdF keys false none true)) k.display k.opener k.closer (some ns))
        = .math k.display k.opener k.closer (some (normList trb)) := by
      simp only [shapeOf, shapeOfBody]
      rw [normList_congr (hsh.trans hm)]
      rfl
    rw [e] at this
    exact this

/-- a comment followed by something that is not whitespace, the rest being handled by `hrec` -/
theorem comment_then (ctx : Ctx) (htol : env.tol = false) {m : Bool} {md : Option Str} (hn : NormOk m md) {br : Bool}
    {stop : StopTok} {child : ChildPS} {X : List Item} {text ind after w : Str} {st : LoopSt}
    (hprev : treeRaw ctx (some ('\n' :: ind)) X = treeRaw ctx none X)
    (hd : env.s.drop st.pos = w ++ (unparseItems (.C text ('\n' :: ind) :: X) ++ after)) (hw : isWs w = true)
    (hnl : countNl w < 2) (htext : text.contains '\n' = false) (hws : isWs ('\n' :: ind) = true)
    (hnl2 : countNl ('\n' :: ind) < 2) (hhead2 : headIs isPySpace (unparseItems X ++ after) = false)
    (hrec : ∀ (st : LoopSt) (w : Str), isWs w = true → countNl w < 2 →
      (w = [] ∨ headIs isPySpace (unparseItems X ++ after) = false) →
      env.s.drop st.pos = w ++ (unparseItems X ++ after) →
      ReachesW env (stdF keys m md true br) stop child st w (treeRaw ctx none X) after) :
    ReachesW env (stdF keys m md true br) stop child st w (treeRaw ctx none (.C text ('\n' :: ind) :: X)) after := by
  have hd' : env.s.drop st.pos = w ++ ('%' :: (text ++ '\n' :: (ind ++ (unparseItems X ++ after)))) := by
    rw [hd]; simp only [unparseItems, List.cons_append, List.append_assoc]
  obtain ⟨p, hp, hdp, hr⟩ := step_comment (br := br) (stop := stop) (child := child) htol hn hd' hw hnl htext hws hnl2 hhead2
  have := ReachesW.step hr rfl (fun st1 hp1 => hrec st1 [] rfl (by decide) (Or.inl rfl) (by
    have e : st.pos + (p - st.pos) = p := by omega
    rw [hp1, e]; exact hdp))
  simpa only [treeRaw, hprev, List.singleton_append] using this

theorem argKind_s_of_beq (k : ArgKind) (h : (k == ArgKind.s) = true) : k = .s := by
  cases k <;> first | rfl | cases h

theorem argKind_m_of_beq (k : ArgKind) (h : (k == ArgKind.m) = true) : k = .m := by
  cases k <;> first | rfl | cases h

theorem pendSh_ne {w : Str} (h : w.isEmpty = false) : pendSh w = [.chars w] := by
  unfold pendSh; rw [h]; rfl

/-! ### the prefix lemma, by recursion on the derivation -/

mutual
/-- **prefix lemma.**  With the collector in front of `w ++ unparse a ++ after` (`w` whitespace not yet read; any
    pending characters, any accumulated nodes, any stop condition), it produces the structure of `a` and stands in
    front of (whitespace and) `after`. -/
theorem items_reach (ctx : Ctx) (htol : env.tol = false) (hk : keysCore keys = true) (hctx : env.ctx = ctx)
    (hkeys : ctxKeys ctx = keys) :
    ∀ (a : List Item) (m : Bool) (after : Str), coreItems ctx m after a = true → ∀ (md : Option Str), NormOk m md →
      ∀ (br : Bool) (stop : StopTok) (child : ChildPS),
      (∀ t : Token, t.arg ≠ ['['] → child.get (stdF keys m md true br) t = stdF keys m md true) →
      (m = false → ∀ t : Token, t.kind = .mathInline ∨ t.kind = .mathDisplay → stop.test t = false) →
      ∀ (st : LoopSt) (w : Str), isWs w = true → countNl w < 2 →
        (w = [] ∨ headIs isPySpace (unparseItems a ++ after) = false) →
        env.s.drop st.pos = w ++ (unparseItems a ++ after) →
        ReachesW env (stdF keys m md true br) stop child st w (treeRaw ctx none a) after
  | [], m, after, _, md, _, br, stop, child, _, _, st, w, hw, hnl, _, hd => by
    simp only [unparseItems, List.nil_append] at hd
    simpa only [treeRaw] using ReachesW.nil hd hw hnl
  | .T t :: tl, m, after, hc, md, hn, br, stop, child, hch, hsm, st, w, hw, hnl, _, hd => by
    simp only [coreItems, Bool.and_eq_true, Bool.not_eq_eq_eq_not, Bool.not_true] at hc
    obtain ⟨⟨hne, hall⟩, htl⟩ := hc
    simp only [unparseItems, List.append_assoc] at hd
    have h1 := reach_text (br := br) (stop := stop) (child := child) htol hn hk hd hw hnl
      (by intro e; rw [e] at hne; simp at hne) hall
    have := ReachesW.step h1 rfl (fun st1 hp => items_reach ctx htol hk hctx hkeys tl m after htl md hn br stop child hch hsm
      st1 [] rfl (by decide) (Or.inl rfl) (by
        rw [hp, ← Nat.add_assoc]; exact drop_add_of_drop (drop_add_of_drop hd)))
    simpa only [treeRaw, List.singleton_append] using this
  | .W w2 :: tl, m, after, hc, md, hn, br, stop, child, hch, hsm, st, w, hw, hnl, hpre, hd => by
    simp only [coreItems, Bool.and_eq_true, Bool.not_eq_eq_eq_not, Bool.not_true, decide_eq_true_eq] at hc
    obtain ⟨⟨⟨⟨hne, hws⟩, hnl2⟩, hhead⟩, htl⟩ := hc
    have hw0 : w = [] := by
      rcases hpre with h | h
      · exact h
      · exfalso
        cases w2 with
        | nil => simp at hne
        | cons c w2 =>
          simp only [isWs, List.all_cons, Bool.and_eq_true] at hws
          simp [unparseItems, headIs, hws.1] at h
    subst hw0
    simp only [unparseItems, List.append_assoc, List.nil_append] at hd
    obtain ⟨tr, n, w', h1, h2, h3, h4, h5⟩ := items_reach ctx htol hk hctx hkeys tl m after htl md hn br stop child hch hsm
      st w2 hws hnl2 (Or.inr hhead) hd
    refine ⟨tr, n, w', h1, h2, h3, h4, ?_⟩
    rw [h5, pendSh_ne hne]
    simp only [treeRaw, pendSh, List.isEmpty_nil, if_true, List.nil_append, List.singleton_append]
  | .G b :: tl, m, after, hc, md, hn, br, stop, child, hch, hsm, st, w, hw, hnl, _, hd => by
    simp only [coreItems, Bool.and_eq_true] at hc
    obtain ⟨hb, htl⟩ := hc
    simp only [unparseItems, List.cons_append, List.append_assoc] at hd
    have hd1 : env.s.drop (st.pos + w.length + 1) = [] ++ (unparseItems b ++ '}' :: (unparseItems tl ++ after)) :=
      drop_succ_of_drop (drop_add_of_drop hd)
    have hbody := items_reach ctx htol hk hctx hkeys b m ('}' :: (unparseItems tl ++ after)) hb md hn false (.braceClose ['}'])
      (.group ['{'] (stdF keys m md true) (stdF keys m md true)) (fun t _ => child_group _ _ t)
      (fun _ t ht => stop_brace_math _ t ht) { pos := st.pos + w.length + 1 } [] rfl (by decide) (Or.inl rfl) hd1
    obtain ⟨p, hp, hdp, hr⟩ := step_group (br := br) (stop := stop) (child := child) htol hn hch hd hw hnl hbody
    have := ReachesW.step hr rfl (fun st1 hp1 => items_reach ctx htol hk hctx hkeys tl m after htl md hn br stop child hch hsm
      st1 [] rfl (by decide) (Or.inl rfl) (by
        have e : st.pos + (p - st.pos) = p := by omega
        rw [hp1, e]; exact hdp))
    simpa only [treeRaw, List.singleton_append] using this
  | .C text tail :: tl, m, after, hc, md, hn, br, stop, child, hch, hsm, st, w, hw, hnl, _, hd => by
    cases htlq : tl with
    | nil =>
      rw [htlq] at hc hd
      rw [coreItems] at hc
      rotate_left
      · intro _ _ h; cases h
      simp only [Bool.and_eq_true, Bool.not_eq_eq_eq_not, Bool.not_true, decide_eq_true_eq, beq_iff_eq] at hc
      obtain ⟨⟨⟨⟨⟨htext, hhead⟩, hws⟩, hnl2⟩, hhead2⟩, htl⟩ := hc
      cases tail with
      | nil => simp at hhead
      | cons c0 ind =>
        have hc0 : c0 = '\n' := by simpa using hhead
        subst hc0
        exact comment_then ctx htol hn (by simp only [treeRaw]) hd hw hnl htext hws hnl2 hhead2
          (fun st1 w1 hw1 hnl1 _ hd1 => by
            simp only [unparseItems, List.nil_append] at hd1
            simpa only [treeRaw] using ReachesW.nil hd1 hw1 hnl1)
    | cons it tl' =>
      rw [htlq] at hc hd
      have hrecA := fun htl => items_reach ctx htol hk hctx hkeys (it :: tl') m after htl md hn br stop child hch hsm
      cases it with
      | W w2 =>
        simp only [coreItems, Bool.and_eq_true, Bool.not_eq_eq_eq_not, Bool.not_true, decide_eq_true_eq, beq_iff_eq] at hc
        obtain ⟨⟨⟨⟨⟨htext, hhead⟩, hws⟩, hnl2⟩, hw20⟩, ⟨⟨⟨_, hws2⟩, _⟩, hhead2⟩, htl⟩ := hc
        cases tail with
        | nil => simp at hhead
        | cons c0 ind =>
          have hc0 : c0 = '\n' := by simpa using hhead
          subst hc0
          simp only [unparseItems, List.cons_append, List.append_assoc] at hd
          have hd' : env.s.drop st.pos = w ++ ('%' :: (text ++ '\n' :: ((ind ++ w2) ++ (unparseItems tl' ++ after)))) := by
            rw [hd]; simp only [List.append_assoc]
          have hwsp : isWs ('\n' :: (ind ++ w2)) = true := by
            simp only [isWs, List.all_cons, List.all_append, Bool.and_eq_true] at hws hws2 ⊢
            exact ⟨hws.1, hws.2, hws2⟩
          have hnlp : countNl ('\n' :: (ind ++ w2)) < 2 := by
            have : countNl ('\n' :: (ind ++ w2)) = countNl ('\n' :: ind) + countNl w2 := by
              simp only [countNl, List.count_cons, List.count_append]; omega
            omega
          obtain ⟨p, hp, hdp, hr⟩ := step_comment (br := br) (stop := stop) (child := child) htol hn hd' hw hnl htext hwsp hnlp hhead2
          have := ReachesW.step hr rfl (fun st1 hp1 => items_reach ctx htol hk hctx hkeys tl' m after htl md hn br stop child hch hsm
            st1 [] rfl (by decide) (Or.inl rfl) (by
              have e : st.pos + (p - st.pos) = p := by omega
              rw [hp1, e]; exact hdp))
          simpa only [treeRaw, List.singleton_append] using this
      | _ =>
        first
        | (simp [coreItems] at hc; done)
        | (rw [coreItems] at hc
           rotate_left
           · intro _ _ h; cases h
           simp only [Bool.and_eq_true, Bool.not_eq_eq_eq_not, Bool.not_true, decide_eq_true_eq, beq_iff_eq] at hc
           obtain ⟨⟨⟨⟨⟨htext, hhead⟩, hws⟩, hnl2⟩, hhead2⟩, htl⟩ := hc
           cases tail with
           | nil => simp at hhead
           | cons c0 ind =>
             have hc0 : c0 = '\n' := by simpa using hhead
             subst hc0
             exact comment_then ctx htol hn (by simp only [treeRaw]) hd hw hnl htext hws hnl2 hhead2 (hrecA htl))
  | .M name post args :: tl, m, after, hc, md, hn, br, stop, child, hch, hsm, st, w, hw, hnl, _, hd => by
    simp only [coreItems, isControlWord, Bool.and_eq_true, Bool.not_eq_eq_eq_not, Bool.not_true, decide_eq_true_eq,
      bne_iff_ne, ne_eq] at hc
    obtain ⟨⟨⟨⟨⟨⟨⟨⟨⟨hne, hall⟩, hnb⟩, hnend⟩, hwsp⟩, hnlp⟩, hnext⟩, hhead⟩, hargs⟩, htl⟩ := hc
    cases hms : ctx.macroSpec name with
    | none => rw [hms] at hargs; cases hargs
    | some a =>
      cases a with
      | std sig =>
        rw [hms] at hargs
        simp only at hargs
        cases name with
        | nil => simp at hne
        | cons c0 name' =>
          simp only [unparseItems, List.cons_append, List.append_assoc] at hd
          have hd' : env.s.drop st.pos = w ++ ('\\' :: ((c0 :: name') ++ (post ++ (unparseArgs args ++ (unparseItems tl ++ after))))) := by
            rw [hd]; rfl
          have hdA : env.s.drop (st.pos + w.length + 1 + (c0 :: name').length + post.length) = unparseArgs args ++ (unparseItems tl ++ after) :=
            drop_add_of_drop (drop_add_of_drop (drop_succ_of_drop (drop_add_of_drop hd')))
          obtain ⟨al, pA, hAE, hpA, hdpA, hshape⟩ := args_reach ctx htol hk hctx hkeys sig args m (unparseItems tl ++ after) hargs md hn []
            (st.pos + w.length + 1 + (c0 :: name').length + post.length) hdA
          rw [List.nil_append] at hAE
          have hr := step_macro (br := br) (stop := stop) (child := child) htol hn hch hd' hw hnl hall hnext hwsp hnlp hhead hnb hnend
            (by rw [hctx]; exact hms) hAE (by omega)
          rw [hshape] at hr
          have := ReachesW.step hr rfl (fun st1 hp1 => items_reach ctx htol hk hctx hkeys tl m after htl md hn br stop child hch hsm
            st1 [] rfl (by decide) (Or.inl rfl) (by
              have e : st.pos + (pA - st.pos) = pA := by omega
              rw [hp1, e]; exact hdpA))
          simpa only [treeRaw, List.singleton_append] using this
      | legacyVerb => rw [hms] at hargs; cases hargs
      | legacyVerbEnv _ _ => rw [hms] at hargs; cases hargs
      | unknown => rw [hms] at hargs; cases hargs
  | .F k b :: tl, m, after, hc, md, hn, br, stop, child, hch, hsm, st, w, hw, hnl, _, hd => by
    simp only [coreItems, Bool.and_eq_true, Bool.not_eq_eq_eq_not, Bool.not_true, Bool.or_eq_true, bne_iff_ne, ne_eq] at hc
    obtain ⟨⟨⟨hm, hb⟩, hdol⟩, htl⟩ := hc
    subst hm
    have hmd : md = none := hn rfl
    subst hmd
    simp only [unparseItems, List.append_assoc] at hd
    have hd1 : env.s.drop (st.pos + w.length + k.opener.length) = [] ++ (unparseItems b ++ (k.closer ++ (unparseItems tl ++ after))) :=
      drop_add_of_drop (drop_add_of_drop hd)
    have hbody := items_reach ctx htol hk hctx hkeys b true (k.closer ++ (unparseItems tl ++ after)) hb (some k.opener) (normOk_true _)
      false (.mathClose k.display k.closer) .same (fun t _ => rfl) (fun h => by cases h)
      { pos := st.pos + w.length + k.opener.length } [] rfl (by decide) (Or.inl rfl) hd1
    have hdollar : k = .dollar → headIs (· == '$') (unparseItems b ++ (k.closer ++ (unparseItems tl ++ after))) = false := by
      intro hk2
      rcases hdol with h | h
      · subst hk2; cases h
      · exact core_head_not_dollar ctx _ b hb _ h
    obtain ⟨p, hp, hdp, hr⟩ := step_math (br := br) (stop := stop) (child := child) htol k hch (hsm rfl) hd hw hnl hdollar hbody
    have := ReachesW.step hr rfl (fun st1 hp1 => items_reach ctx htol hk hctx hkeys tl false after htl none hn br stop child hch hsm
      st1 [] rfl (by decide) (Or.inl rfl) (by
        have e : st.pos + (p - st.pos) = p := by omega
        rw [hp1, e]; exact hdp))
    simpa only [treeRaw, List.singleton_append] using this
  | .P _ :: _, _, _, hc, _, _, _, _, _, _, _, _, _, _, _, _, _ => by simp [coreItems] at hc
  | .E _ _ _ :: _, _, _, hc, _, _, _, _, _, _, _, _, _, _, _, _, _ => by simp [coreItems] at hc
  | .S name args :: tl, m, after, hc, md, hn, br, stop, child, hch, hsm, st, w, hw, hnl, _, hd => by
    simp only [coreItems, Bool.and_eq_true, beq_iff_eq] at hc
    obtain ⟨⟨⟨⟨hargs, hhead⟩, hts⟩, hspec⟩, htl⟩ := hc
    have hargs' : args = [] := List.isEmpty_iff.mp hargs
    subst hargs'
    cases name with
    | nil => simp [headIs] at hhead
    | cons c name' =>
      have hc : specialsHeadOk c = true := by simpa [headIs] using hhead
      have hspec' : lookupFirst (c :: name') env.ctx.specials = some (.std []) := by
        rw [hctx]
        cases hl : lookupFirst (c :: name') ctx.specials with
        | none => rw [hl] at hspec; cases hspec
        | some a =>
          rw [hl] at hspec
          cases a with
          | std sig =>
            simp only at hspec
            rw [List.isEmpty_iff.mp hspec]
          | legacyVerb => cases hspec
          | legacyVerbEnv _ _ => cases hspec
          | unknown => cases hspec
      have hd' : env.s.drop st.pos = w ++ ((c :: name') ++ (unparseItems tl ++ after)) := by
        rw [hd]; simp only [unparseItems, unparseArgs, List.nil_append, List.append_assoc]
      rw [hkeys] at hts
      have hr := step_specials (br := br) (stop := stop) (child := child) htol hn hch hd' hw hnl hc hts hspec'
      have := ReachesW.step hr rfl (fun st1 hp => items_reach ctx htol hk hctx hkeys tl m after htl md hn br stop child hch hsm
        st1 [] rfl (by decide) (Or.inl rfl) (by
          rw [hp, ← Nat.add_assoc]; exact drop_add_of_drop (drop_add_of_drop hd')))
      simpa only [treeRaw, treeArgs, List.singleton_append] using this
  | .V _ _ :: _, _, _, hc, _, _, _, _, _, _, _, _, _, _, _, _, _ => by simp [coreItems] at hc
  | .VE _ _ _ _ :: _, _, _, hc, _, _, _, _, _, _, _, _, _, _, _, _, _ => by simp [coreItems] at hc
termination_by a => sizeOf a
decreasing_by
  all_goals first
    | decreasing_tactic
    | (subst_vars; decreasing_tactic)
/-- the arguments of a call, slot by slot -/
theorem args_reach (ctx : Ctx) (htol : env.tol = false) (hk : keysCore keys = true) (hctx : env.ctx = ctx)
    (hkeys : ctxKeys ctx = keys) :
    ∀ (sig : List ArgSpec) (args : List ArgVal) (m : Bool) (rest : Str), coreArgs ctx m rest sig args = true →
      ∀ (md : Option Str), NormOk m md → ∀ (acc : List Arg) (pos : Nat), env.s.drop pos = unparseArgs args ++ rest →
      ∃ al pA, ArgsEv env (stdF keys m md true) sig acc pos (.ok (.args none none (acc ++ al)) pA) ∧ pos ≤ pA ∧
        env.s.drop pA = rest ∧ shapeOfArgList al = treeArgs ctx args
  | [], [], m, rest, _, md, _, acc, pos, hd => by
    refine ⟨[], pos, ?_, Nat.le_refl _, by simpa [unparseArgs] using hd, by simp only [shapeOfArgList, treeArgs]⟩
    rw [List.append_nil]
    exact argsEv_nil _ _ _
  | sp :: sig, .absent :: tl, m, rest, hc, md, hn, acc, pos, hd => by
    simp only [coreArgs, Bool.and_eq_true] at hc
    obtain ⟨⟨⟨hkind, habs⟩, hfol⟩, hrest⟩ := hc
    simp only [unparseArgs] at hd
    obtain ⟨md', hK', hn'⟩ := applyDelta_std (keys := keys) m md sp.delta
    have hpk := peek_follow_noerr (psStd_std keys m md true false hn) hd hfol
    obtain ⟨al, pA, hAE, hpA, hdpA, hshape⟩ := args_reach ctx htol hk hctx hkeys sig tl m rest hrest md hn (acc ++ [Arg.absent]) pos hd
    refine ⟨.absent :: al, pA, ?_, hpA, hdpA, by simp only [shapeOfArgList, shapeOfArg, treeArgs, hshape]⟩
    have e : acc ++ Arg.absent :: al = acc ++ [Arg.absent] ++ al := by simp
    rw [e]
    cases hkk : sp.kind with
    | o ap =>
      rw [hkk] at habs
      refine argsEv_cons (res := .none) htol hpk ?_ hAE
      rw [hkk, hK']
      exact group_absent_runs htol (hn' hn) ap hd hfol habs
    | s =>
      rw [hkk] at habs
      refine argsEv_cons (res := .none) htol hpk ?_ hAE
      rw [hkk, hK']
      exact marker_absent_runs htol (hn' hn) hd hfol habs
    | m => rw [hkk] at hkind; cases hkind
    | t _ => rw [hkk] at hkind; cases hkind
    | r _ _ => rw [hkk] at hkind; cases hkind
    | d _ _ => rw [hkk] at hkind; cases hkind
    | v => rw [hkk] at hkind; cases hkind
    | vd _ _ => rw [hkk] at hkind; cases hkind
  | sp :: sig, .star :: tl, m, rest, hc, md, hn, acc, pos, hd => by
    simp only [coreArgs, Bool.and_eq_true] at hc
    obtain ⟨hkind, hrest⟩ := hc
    have hkk := argKind_s_of_beq _ hkind
    simp only [unparseArgs, List.cons_append] at hd
    obtain ⟨md', hK', hn'⟩ := applyDelta_std (keys := keys) m md sp.delta
    have hpk := peek_follow_noerr (psStd_std keys m md true false hn) hd (followOk_of_head (by decide) (by decide))
    obtain ⟨al, pA, hAE, hpA, hdpA, hshape⟩ := args_reach ctx htol hk hctx hkeys sig tl m rest hrest md hn
      (acc ++ [Arg.node (Node.chars pos (pos + 1) (psInfo (stdF keys (deltaMath m sp.delta) md' true)) ['*'])]) (pos + 1)
      (drop_succ_of_drop hd)
    refine ⟨Arg.node (Node.chars pos (pos + 1) (psInfo (stdF keys (deltaMath m sp.delta) md' true)) ['*']) :: al, pA, ?_, by omega, hdpA,
      by simp only [shapeOfArgList, shapeOfArg, shapeOf, treeArgs, hshape]⟩
    have e : ∀ x : Arg, acc ++ x :: al = acc ++ [x] ++ al := by intro x; simp
    rw [e]
    refine argsEv_cons (res := .node _) htol hpk ?_ hAE
    rw [hkk, hK']
    exact marker_star_runs htol (hn' hn) hk hd
  | sp :: sig, .br b :: tl, m, rest, hc, md, hn, acc, pos, hd => by
    simp only [coreArgs, Bool.and_eq_true] at hc
    obtain ⟨⟨hkind, hb⟩, hrest⟩ := hc
    simp only [unparseArgs, List.cons_append, List.append_assoc] at hd
    obtain ⟨md', hK', hn'⟩ := applyDelta_std (keys := keys) m md sp.delta
    have hpk := peek_follow_noerr (psStd_std keys m md true false hn) hd (followOk_of_head (by decide) (by decide))
    cases hkk : sp.kind with
    | o ap =>
      have hd1 : env.s.drop (pos + 1) = [] ++ (unparseItems b ++ ']' :: (unparseArgs tl ++ rest)) := drop_succ_of_drop hd
      have hbody := items_reach ctx htol hk hctx hkeys b (deltaMath m sp.delta) (']' :: (unparseArgs tl ++ rest)) hb md' (hn' hn) true
        (.braceClose [']']) (.group ['['] (stdF keys (deltaMath m sp.delta) md' true true) (stdF keys (deltaMath m sp.delta) md' true))
        (fun t ht => child_br _ _ t ht) (fun _ t ht => stop_brace_math _ t ht) { pos := pos + 1 } [] rfl (by decide) (Or.inl rfl) hd1
      obtain ⟨p, nd, hqp, hdp, hgrp, hsh⟩ := brgroup_node htol (hn' hn) ap hd hbody
      obtain ⟨al, pA, hAE, hpA, hdpA, hshape⟩ := args_reach ctx htol hk hctx hkeys sig tl m rest hrest md hn (acc ++ [Arg.node nd]) p hdp
      refine ⟨Arg.node nd :: al, pA, ?_, by omega, hdpA, by simp only [shapeOfArgList, shapeOfArg, treeArgs, hshape, hsh]⟩
      have e : acc ++ Arg.node nd :: al = acc ++ [Arg.node nd] ++ al := by simp
      rw [e]
      refine argsEv_cons (res := .node nd) htol hpk ?_ hAE
      rw [hkk, hK']
      exact hgrp
    | s => rw [hkk] at hkind; cases hkind
    | m => rw [hkk] at hkind; cases hkind
    | t _ => rw [hkk] at hkind; cases hkind
    | r _ _ => rw [hkk] at hkind; cases hkind
    | d _ _ => rw [hkk] at hkind; cases hkind
    | v => rw [hkk] at hkind; cases hkind
    | vd _ _ => rw [hkk] at hkind; cases hkind
  | sp :: sig, .grp b :: tl, m, rest, hc, md, hn, acc, pos, hd => by
    simp only [coreArgs, Bool.and_eq_true] at hc
    obtain ⟨⟨hkind, hb⟩, hrest⟩ := hc
    have hkk := argKind_m_of_beq _ hkind
    simp only [unparseArgs, List.cons_append, List.append_assoc] at hd
    obtain ⟨md', hK', hn'⟩ := applyDelta_std (keys := keys) m md sp.delta
    have hpk := peek_follow_noerr (psStd_std keys m md true false hn) hd (followOk_of_head (by decide) (by decide))
    have hd1 : env.s.drop (pos + 1) = [] ++ (unparseItems b ++ '}' :: (unparseArgs tl ++ rest)) := drop_succ_of_drop hd
    have hbody := items_reach ctx htol hk hctx hkeys b (deltaMath m sp.delta) ('}' :: (unparseArgs tl ++ rest)) hb md' (hn' hn) false
      (.braceClose ['}']) (.group ['{'] (stdF keys (deltaMath m sp.delta) md' true) (stdF keys (deltaMath m sp.delta) md' true))
      (fun t _ => child_group _ _ t) (fun _ t ht => stop_brace_math _ t ht) { pos := pos + 1 } [] rfl (by decide) (Or.inl rfl) hd1
    obtain ⟨p, nd, hqp, hdp, hgrp, hsh⟩ := group_node htol (hn' hn) hd hbody
    obtain ⟨al, pA, hAE, hpA, hdpA, hshape⟩ := args_reach ctx htol hk hctx hkeys sig tl m rest hrest md hn (acc ++ [Arg.node nd]) p hdp
    refine ⟨Arg.node nd :: al, pA, ?_, by omega, hdpA, by simp only [shapeOfArgList, shapeOfArg, treeArgs, hshape, hsh]⟩
    have e : acc ++ Arg.node nd :: al = acc ++ [Arg.node nd] ++ al := by simp
    rw [e]
    refine argsEv_cons (res := .node nd) htol hpk ?_ hAE
    rw [hkk, hK']
    exact expr_runs htol (hn' hn) hd hgrp
  | [], _ :: _, _, _, hc, _, _, _, _, _ => by simp [coreArgs] at hc
  | _ :: _, [], _, _, hc, _, _, _, _, _ => by simp [coreArgs] at hc
  | _ :: _, .marker _ :: _, _, _, hc, _, _, _, _, _ => by simp [coreArgs] at hc
  | _ :: _, .tok _ :: _, _, _, hc, _, _, _, _, _ => by simp [coreArgs] at hc
  | _ :: _, .del _ _ _ :: _, _, _, hc, _, _, _, _, _ => by simp [coreArgs] at hc
  | _ :: _, .verb _ _ _ :: _, _, _, hc, _, _, _, _, _ => by simp [coreArgs] at hc
termination_by _ args => sizeOf args
end

end constructs

/-! ### C02 -/

/-- **C02, full statement** (kept as a proposition; proved below for the fragment `Doc.Core`, covered by the
    correspondence check and the structure oracle outside it): for every context and every well-formed document of
    the grammar, the strict parse of its source returns exactly the structure it was written with. -/
def C02_full : Prop :=
  ∀ (ctx : Ctx) (d : List Item), WF ctx d = true → shapeTop (parseStrict ctx (unparse d)) = some (treeOf ctx d)

/-- counterexample context: one macro `\a` without arguments -/
def cexCtx : Ctx := { macros := [(['a'], .std [])] }

/-- counterexample document `\a x`, written as the macro (no post-space), a whitespace item, a text item -/
def cexDoc : List Item := [.M ['a'] [] [], .W [' '], .T ['x']]

/-- **`C02_full` is false as stated**: `Doc.WF` admits a control word without post-space followed by a whitespace item
    (`wfItems` only asks that no letter follows when `post` is empty), but the tokenizer makes that whitespace the
    macro's post-space, so the parse is `\a`, `x` while `treeOf` says `\a`, ` x`.  (The generator never writes such a
    derivation: its `fixup` moves the whitespace into `post`.  `Core` excludes it: `!headIs isPySpace written`.) -/
theorem C02_full_false : ¬ C02_full := by
  intro h
  have h1 := h cexCtx cexDoc (by decide +kernel)
  have h2 : (shapeTop (parseStrict cexCtx (unparse cexDoc))).map showShapeList = some (showShapeList (treeOf cexCtx cexDoc)) := by
    rw [h1]; rfl
  revert h2
  decide +kernel

theorem startFields_std (ctx : Ctx) : startFields ctx = stdF (ctxKeys ctx) false none true := rfl

theorem delimsOk_start (ctx : Ctx) : DelimsOk (startFields ctx) := by
  show ∀ pr ∈ ([(['$'], ['$']), (['\\', '('], ['\\', ')'])] : Pairs) ++ [(['$', '$'], ['$', '$']), (['\\', '['], ['\\', ']'])],
    pr.1 ≠ [] ∧ pr.2 ≠ []
  decide

/-- the top-level task on a core document, for every sufficiently large amount of fuel, ends at the end of the input
    with a node list whose structure is the one the document was written with -/
theorem core_ev (ctx : Ctx) (d : List Item) (h : Core ctx d = true) :
    ∃ a b ns, Ev { tol := false, ctx := ctx, s := unparse d } (topTask (startFields ctx)) (.ok (.list a b ns) (unparse d).length) ∧
      shapeOfList ns = treeOf ctx d := by
  unfold Core at h
  rw [Bool.and_eq_true] at h
  obtain ⟨hk, hc⟩ := h
  obtain ⟨tr, n, w', ⟨st', hp, hs, hkk⟩, hdrop, hw', hn', hm⟩ :=
    items_reach (env := { tol := false, ctx := ctx, s := unparse d }) ctx rfl hk rfl rfl d false [] hc none (fun _ => rfl)
      false .none .same (fun t _ => rfl) (fun _ t _ => rfl) { pos := 0 } [] rfl (by decide) (Or.inl rfl)
      (by simp [unparse])
  have hd' : (unparse d).drop st'.pos = w' := by
    rw [hp]; simpa using hdrop
  obtain ⟨e, he, hsh, herr, hst, hpos⟩ := loop_eos_ws (child := .same)
    (env := { tol := false, ctx := ctx, s := unparse d }) rfl (stdF (ctxKeys ctx) false none true) (st := st') hd' hw' hn'
  have htop := general_of_loop_top (env := { tol := false, ctx := ctx, s := unparse d }) rfl (hkk _ he) herr hst
  have hend : e.pos = (unparse d).length := by
    obtain ⟨N, hN⟩ := htop
    exact (C01_strict_of_delims ctx (unparse d) (startFields ctx) (delimsOk_start ctx) N _ _ _ _ (hN N (Nat.le_refl _))).2.1
  rw [hend] at htop
  refine ⟨_, _, e.nodes, htop, ?_⟩
  unfold shapeOfList treeOf
  apply normList_congr
  rw [hsh]
  have e1 : mergeChars (sh st') = mergeChars tr := by rw [hs]; rfl
  rw [mergeChars_append_left e1, hm]
  rfl

/-- **C02 on the core fragment, every amount of fuel that is large enough.** -/
theorem C02_core_run (ctx : Ctx) (d : List Item) (h : Core ctx d = true) :
    ∃ N, ∀ n, N ≤ n →
      shapeTop (run { tol := false, ctx := ctx, s := unparse d } n (topTask (startFields ctx))) = some (treeOf ctx d) := by
  obtain ⟨a, b, ns, ⟨N, hN⟩, hsh⟩ := core_ev ctx d h
  refine ⟨N, fun n hn => ?_⟩
  rw [hN n hn]
  show some (shapeOfList ns) = _
  rw [hsh]

/-- **C02 on the core fragment** (`parseTop`, i.e. the fuel `fuelFor s` the model runs with): for every context in
    which no specials string starts with a text character and every document made of text (letters, digits,
    `.` `,` `;` `:`), brace groups and comments ending in a newline (plus indentation), nested to any depth, the strict parse of the document's source returns exactly the structure the document was written
    with. -/
theorem C02_core (ctx : Ctx) (d : List Item) (h : Core ctx d = true) :
    shapeTop (parseStrict ctx (unparse d)) = some (treeOf ctx d) := by
  obtain ⟨N, hN⟩ := C02_core_run ctx d h
  show shapeTop (run { tol := false, ctx := ctx, s := unparse d } (fuelFor (unparse d)) (topTask (startFields ctx))) = _
  by_cases hle : N ≤ fuelFor (unparse d)
  · exact hN _ hle
  · have hnf := C06_no_fuel { tol := false, ctx := ctx, s := unparse d } (startFields ctx) (delimsOk_start ctx)
    have := run_mono { tol := false, ctx := ctx, s := unparse d } (fuelFor (unparse d)) N (topTask (startFields ctx)) hnf (by omega)
    rw [← this]
    exact hN N (Nat.le_refl _)

/-- the parse also ends exactly at the end of the source and is a node list (not an error, not a crash) -/
theorem C02_core_ok (ctx : Ctx) (d : List Item) (h : Core ctx d = true) :
    ∃ a b ns, parseStrict ctx (unparse d) = .ok (.list a b ns) (unparse d).length ∧ shapeOfList ns = treeOf ctx d := by
  obtain ⟨a, b, ns, ⟨N, hN⟩, hsh⟩ := core_ev ctx d h
  refine ⟨a, b, ns, ?_, hsh⟩
  show run { tol := false, ctx := ctx, s := unparse d } (fuelFor (unparse d)) (topTask (startFields ctx)) = _
  by_cases hle : N ≤ fuelFor (unparse d)
  · exact hN _ hle
  · have hnf := C06_no_fuel { tol := false, ctx := ctx, s := unparse d } (startFields ctx) (delimsOk_start ctx)
    have := run_mono { tol := false, ctx := ctx, s := unparse d } (fuelFor (unparse d)) N (topTask (startFields ctx)) hnf (by omega)
    rw [← this]
    exact hN N (Nat.le_refl _)

/-! ### non-vacuity -/

/-- `ab{c{}{de}}f` -/
def exDoc : List Item :=
  [.T ['a', 'b'], .G [.T ['c'], .G [], .G [.T ['d', 'e']]], .T ['f']]

/-- `a{%x}\n  b}` followed by `c`: a comment whose text contains a closing brace, inside a group -/
def exDoc2 : List Item :=
  [.T ['a'], .G [.C ['x', '}'] ['\n', ' ', ' '], .T ['b']], .T ['c']]

/-- whitespace between and inside the other items, also behind a comment: `a {b c}` newline `%x` newline, two blanks, `d` -/
def exDocW : List Item :=
  [.T ['a'], .W [' '], .G [.T ['b'], .W [' '], .T ['c'], .W [' ']], .W ['\n'], .C ['x'] ['\n'], .W [' ', ' '], .T ['d']]

/-- macro calls: `\section*[s]{T x} \sqrt{y}\item z` — star, bracket and brace arguments, an absent optional argument
    before a brace group, an absent trailing optional argument, a post-space -/
def exDocM : List Item :=
  [.M "section".toList [] [.star, .br [.T ['s']], .grp [.T ['T'], .W [' '], .T ['x']]], .W [' '],
   .M "sqrt".toList [] [.absent, .grp [.T ['y']]],
   .M "item".toList [' '] [.absent], .T ['z']]

/-- math: `$x$ \(y\) \[z\] $$w$$ $\mbox{\(a\)}$` — the four delimiter pairs, and math inside an argument that leaves math mode -/
def exDocF : List Item :=
  [.F .dollar [.T ['x']], .W [' '], .F .paren [.T ['y']], .W [' '], .F .brack [.T ['z']], .W [' '], .F .ddollar [.T ['w']],
   .W [' '], .F .dollar [.M "mbox".toList [] [.grp [.F .paren [.T ['a']]]]]]

/-- specials: `a~b --- c` and the ligature inside math and inside an argument: `$x~y$\emph{``q''}` -/
def exDocS : List Item :=
  [.T ['a'], .S ['~'] [], .T ['b'], .W [' '], .S ['-', '-', '-'] [], .W [' '], .T ['c'],
   .F .dollar [.T ['x'], .S ['~'] [], .T ['y']],
   .M "emph".toList [] [.grp [.S ['`', '`'] [], .T ['q'], .S ['\'', '\''] []]]]

theorem exDoc_core : Core Gen.defaultCtx exDoc = true := by decide +kernel
theorem exDocS_core : Core Gen.defaultCtx exDocS = true := by decide +kernel
theorem exDoc2_core : Core Gen.defaultCtx exDoc2 = true := by decide +kernel
theorem exDocW_core : Core Gen.defaultCtx exDocW = true := by decide +kernel
theorem exDocM_core : Core Gen.defaultCtx exDocM = true := by decide +kernel
theorem exDocF_core : Core Gen.defaultCtx exDocF = true := by decide +kernel

/-- the default context and the example documents satisfy the hypothesis of `C02_core`, whose conclusion for them is -/
example : shapeTop (parseStrict Gen.defaultCtx (unparse exDoc)) = some (treeOf Gen.defaultCtx exDoc) :=
  C02_core _ _ exDoc_core
example : shapeTop (parseStrict Gen.defaultCtx (unparse exDoc2)) = some (treeOf Gen.defaultCtx exDoc2) :=
  C02_core _ _ exDoc2_core
example : shapeTop (parseStrict Gen.defaultCtx (unparse exDocW)) = some (treeOf Gen.defaultCtx exDocW) :=
  C02_core _ _ exDocW_core
example : shapeTop (parseStrict Gen.defaultCtx (unparse exDocM)) = some (treeOf Gen.defaultCtx exDocM) :=
  C02_core _ _ exDocM_core
example : shapeTop (parseStrict Gen.defaultCtx (unparse exDocF)) = some (treeOf Gen.defaultCtx exDocF) :=
  C02_core _ _ exDocF_core
example : shapeTop (parseStrict Gen.defaultCtx (unparse exDocS)) = some (treeOf Gen.defaultCtx exDocS) :=
  C02_core _ _ exDocS_core
example : unparse exDocS = "a~b --- c$x~y$\\emph{``q''}".toList := by decide +kernel

/-- the source of the first example -/
example : unparse exDoc = ['a', 'b', '{', 'c', '{', '}', '{', 'd', 'e', '}', '}', 'f'] := by decide +kernel

/-- the expected structures are not trivial (canonical text of `treeOf`) -/
example : showShapeList (treeOf Gen.defaultCtx exDoc) =
    "(c \"ab\") (g \"{\" \"}\" [(c \"c\") (g \"{\" \"}\" []) (g \"{\" \"}\" [(c \"de\")])]) (c \"f\")" := by decide +kernel

example : unparse exDocM = "\\section*[s]{T x} \\sqrt{y}\\item z".toList := by decide +kernel

example : showShapeList (treeOf Gen.defaultCtx exDocM) =
    "(m \"section\" <(c \"*\") (g \"[\" \"]\" [(c \"s\")]) (g \"{\" \"}\" [(c \"T%20;x\")])>) (m \"sqrt\" <- (g \"{\" \"}\" [(c \"y\")])>) (m \"item\" <->) (c \"z\")" := by
  decide +kernel

example : showShapeList (treeOf Gen.defaultCtx exDocF) =
    "(f I \"$\" \"$\" [(c \"x\")]) (f I \"\\(\" \"\\)\" [(c \"y\")]) (f D \"\\[\" \"\\]\" [(c \"z\")]) (f D \"$$\" \"$$\" [(c \"w\")]) (f I \"$\" \"$\" [(m \"mbox\" <(g \"{\" \"}\" [(f I \"\\(\" \"\\)\" [(c \"a\")])])>)])" := by
  decide +kernel

example : unparse exDocF = "$x$ \\(y\\) \\[z\\] $$w$$ $\\mbox{\\(a\\)}$".toList := by decide +kernel

/-- adjacent text items are one chars node for the parser and for `treeOf` alike; the empty context is allowed -/
example : Core {} [.T ['a'], .T ['b'], .G [.T ['x'], .W [' '], .T ['y']]] = true := by decide +kernel

end C02
end Pylx
