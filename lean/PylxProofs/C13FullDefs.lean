/-
  C13, parse link for all strings — definitions.

  * `CItem` / `CArg`: the small document grammar the encoder's output lives in — single characters (ordinary
    characters, whitespace; the tokenizer's grouping into whitespace runs, paragraph breaks and specials such as `''`,
    `--`, `~` is *not* part of the grammar, the proof follows the tokenizer), brace groups, inline math `$…$`, macro calls
    (a control word with its post-space, or a control symbol) whose arguments — by the signature the context declares —
    are written as brace groups, bracket groups, single characters, single macro tokens, or (optional ones) left out in
    front of a brace.
  * `unI` / `unA`: the source text.
  * `cwfI` / `cwfA`: the decidable well-formedness condition; every condition that looks at the following text only
    inspects the next character and demands that it exists, so that concatenations of well-formed lists are well formed
    (`cwfI_app` in `PylxProofs/C13Full.lean`).
  * `conv`: a classifier from the item lists of `C13ParseDefs` to this grammar; it is *not* proved correct — the
    kernel checks for each table entry that the classified document unparses to the entry's text (`rawOk`).
-/
import PylxProofs.C13Parse
import PylxProofs.C02
namespace Pylx.C13.Full
open Pylx Pylx.EncB

mutual
inductive CItem where
  | ch (c : Char)
  | grp (body : List CItem)
  | mac (name post : Str) (args : List CArg)
  | math (body : List CItem)
inductive CArg where
  | absent
  | grp (body : List CItem)
  | br (body : List CItem)
  | tok (c : Char)
  | mtok (name : Str)
end

instance : Inhabited CItem := ⟨.ch ' '⟩
instance : Inhabited CArg := ⟨.absent⟩

mutual
def unI : List CItem → Str
  | [] => []
  | .ch c :: tl => c :: unI tl
  | .grp b :: tl => '{' :: (unI b ++ '}' :: unI tl)
  | .mac n post a :: tl => '\\' :: (n ++ (post ++ (unA a ++ unI tl)))
  | .math b :: tl => '$' :: (unI b ++ '$' :: unI tl)
def unA : List CArg → Str
  | [] => []
  | .absent :: tl => unA tl
  | .grp b :: tl => '{' :: (unI b ++ '}' :: unA tl)
  | .br b :: tl => '[' :: (unI b ++ ']' :: unA tl)
  | .tok c :: tl => c :: unA tl
  | .mtok n :: tl => '\\' :: (n ++ unA tl)
end

/-- the next character: the first one of `F`, or the hint `fc` when `F` is empty -/
def nextCh (F : Str) (fc : Option Char) : Option Char :=
  match F with
  | c :: _ => some c
  | [] => fc

/-- a character the tokenizer reads as (part of) a `char` / whitespace / specials token: not `\ { } $ %` and not a
    delimiter of the enclosing bracket group -/
def plainCh (br : C02.Xp) (c : Char) : Bool :=
  c != '\\' && c != '{' && c != '}' && c != '$' && c != '%' &&
  (match br with
   | none => true
   | some (o, c') => c != o && c != c')

/-- a macro name as written: a control word (not `begin` / `end`) with its post-space (whitespace with fewer than two
    newlines) followed by a character that is not whitespace and, directly behind the name, not a letter; or a control
    symbol (no post-space) -/
def nameOk (name post : Str) (next : Option Char) : Bool :=
  if Doc.isControlWord name then
    name != "begin".toList && name != "end".toList && Doc.isWs post && decide (countNl post < 2) &&
    (match next with
     | some c => !isPySpace c && (!post.isEmpty || !isAsciiAlpha c)
     | none => false)
  else post.isEmpty && Doc.isControlSymbol name

/-- a single character written as a mandatory argument: a text character, or a plain character that is not whitespace
    and starts no specials string of the context -/
def tokOk (ctx : Ctx) (c : Char) : Bool :=
  Doc.isTextChar c ||
  (plainCh none c && !isPySpace c && (Doc.ctxKeys ctx).all (fun k => !Doc.headIs (· == c) k))

mutual
/-- `m` = math mode; `fc` = the character that follows the list, when known (`}` in a brace group, `]` in a bracket
    group, `$` in inline math) -/
def cwfI (ctx : Ctx) (m : Bool) (br : C02.Xp) (fc : Option Char) : List CItem → Bool
  | [] => true
  | .ch c :: tl => plainCh br c && cwfI ctx m br fc tl
  | .grp b :: tl => cwfI ctx m none (some '}') b && cwfI ctx m br fc tl
  | .mac name post args :: tl =>
    nameOk name post (nextCh (unA args ++ unI tl) fc) &&
    (match ctx.macroSpec name with
     | some (.std sig) => cwfA ctx m (unI tl) fc sig args
     | _ => false) &&
    cwfI ctx m br fc tl
  | .math b :: tl => !m && !b.isEmpty && cwfI ctx true none (some '$') b && cwfI ctx m br fc tl
/-- one written value per declared slot; `rest` = the source of the items after the call -/
def cwfA (ctx : Ctx) (m : Bool) (rest : Str) (fc : Option Char) : List ArgSpec → List CArg → Bool
  | [], [] => true
  | sp :: sig, .absent :: tl =>
    (match sp.kind with | .o _ => true | .s => true | _ => false) &&
    nextCh (unA tl ++ rest) fc == some '{' && cwfA ctx m rest fc sig tl
  | sp :: sig, .grp b :: tl =>
    sp.kind == .m && cwfI ctx (Doc.deltaMath m sp.delta) none (some '}') b && cwfA ctx m rest fc sig tl
  | sp :: sig, .br b :: tl =>
    (match sp.kind with | .o _ => true | _ => false) && cwfI ctx (Doc.deltaMath m sp.delta) C02.xbr (some ']') b &&
    cwfA ctx m rest fc sig tl
  | sp :: sig, .tok c :: tl => sp.kind == .m && tokOk ctx c && cwfA ctx m rest fc sig tl
  | sp :: sig, .mtok n :: tl => sp.kind == .m && nameOk n [] (nextCh (unA tl ++ rest) fc) && cwfA ctx m rest fc sig tl
  | _, _ => false
end

/-! ### classifier (untrusted: its output is checked) -/

def isChr (c : Char) : Item → Bool
  | .chr d => d == c
  | _ => false

def isWsItem : Item → Bool
  | .chr c => isPySpace c
  | _ => false

def itemChar : Item → Char
  | .chr c => c
  | _ => ' '

mutual
def conv (ctx : Ctx) : Nat → List Item → Option (List CItem)
  | 0, _ => none
  | _ + 1, [] => some []
  | f + 1, .chr c :: tl =>
    if c == '$' then
      match tl.dropWhile (fun x => !isChr '$' x) with
      | _ :: r' =>
        match conv ctx f (tl.takeWhile (fun x => !isChr '$' x)), conv ctx f r' with
        | some b', some tl' => some (.math b' :: tl')
        | _, _ => none
      | [] => none
    else (conv ctx f tl).map (fun r => CItem.ch c :: r)
  | f + 1, .grp b :: tl =>
    match conv ctx f b, conv ctx f tl with
    | some b', some tl' => some (.grp b' :: tl')
    | _, _ => none
  | f + 1, .esc c :: tl => convMac ctx f [c] [] tl
  | f + 1, .word n :: tl => convMac ctx f n ((tl.takeWhile isWsItem).map itemChar) (tl.dropWhile isWsItem)
def convMac (ctx : Ctx) : Nat → Str → Str → List Item → Option (List CItem)
  | 0, _, _, _ => none
  | f + 1, name, post, tl =>
    -- nothing follows in this list: no argument can be written, the signature is not needed here (`cwfI` looks it up)
    match (if tl.isEmpty then some (.std []) else ctx.macroSpec name) with
    | some (.std sig) =>
      match convArgs ctx f sig tl with
      | some (args, tl') => (conv ctx f tl').map (fun r => CItem.mac name post args :: r)
      | none => none
    | _ => none
def convArgs (ctx : Ctx) : Nat → List ArgSpec → List Item → Option (List CArg × List Item)
  | 0, _, _ => none
  | _ + 1, [], tl => some ([], tl)
  | f + 1, sp :: sig, tl =>
    match sp.kind with
    | .m =>
      match tl with
      | .grp b :: tl' =>
        match conv ctx f b, convArgs ctx f sig tl' with
        | some b', some (a, r) => some (.grp b' :: a, r)
        | _, _ => none
      | .chr c :: tl' => (convArgs ctx f sig tl').map (fun x => (CArg.tok c :: x.1, x.2))
      | .esc c :: tl' => (convArgs ctx f sig tl').map (fun x => (CArg.mtok [c] :: x.1, x.2))
      | .word n :: tl' => (convArgs ctx f sig tl').map (fun x => (CArg.mtok n :: x.1, x.2))
      | [] => none
    | .o _ =>
      match tl with
      | it :: tl' =>
        if isChr '[' it then
          match tl'.dropWhile (fun x => !isChr ']' x) with
          | _ :: r' =>
            match conv ctx f (tl'.takeWhile (fun x => !isChr ']' x)), convArgs ctx f sig r' with
            | some b', some (a, r) => some (.br b' :: a, r)
            | _, _ => none
          | [] => none
        else (convArgs ctx f sig tl).map (fun x => (CArg.absent :: x.1, x.2))
      | [] => (convArgs ctx f sig tl).map (fun x => (CArg.absent :: x.1, x.2))
    | .s => (convArgs ctx f sig tl).map (fun x => (CArg.absent :: x.1, x.2))
    | _ => none
end

/-- the document a chunk of encoder output is classified as -/
def chunkDoc (u : Str) : Option (List CItem) :=
  match itemsOf u with
  | some l => conv Gen.defaultCtx (4 * u.length + 8) l
  | none => none

/-- the chunk is the source of a well-formed document (the hint "nothing known about what follows") -/
def chunkOk (u : Str) : Bool :=
  match chunkDoc u with
  | some d => unI d == u && cwfI Gen.defaultCtx false none none d
  | none => false

/-- the four brace protection schemes -/
def braceSchemes : List Prot := [.braces, .bracesAll, .bracesAlmostAll, .bracesAfterMacro]

/-- check of a replacement text `r` that covers its four protected forms (`r`, `{r}`, `r{}`): `r` is the source of a
    document that is well formed whatever follows — or `r` ends in a control word (then `braces` and
    `braces-after-macro` protect it), starts with a backslash (then `braces-almost-all` protects it), and the document is
    well formed in front of `}` and in front of `{` -/
def rawOk (r : Str) : Bool :=
  match chunkDoc r with
  | some d =>
    unI d == r &&
    (cwfI Gen.defaultCtx false none none d ||
     (danglingMacro isAsciiAlpha r && r.head? == some '\\' &&
      cwfI Gen.defaultCtx false none (some '}') d && cwfI Gen.defaultCtx false none (some '{') d))
  | none => false

def entryOk (e : Nat × List Nat) : Bool := rawOk (S e.2)

/-- the same with the code points of `skip` left out (finding F19 for `unicode-xml`) -/
def entryOkX (skip : List Nat) (e : Nat × List Nat) : Bool := skip.contains e.1 || rawOk (S e.2)

theorem chunkOk_spec {u : Str} (h : chunkOk u = true) :
    ∃ d, unI d = u ∧ cwfI Gen.defaultCtx false none none d = true := by
  unfold chunkOk at h
  split at h
  · rename_i d _
    simp only [Bool.and_eq_true, beq_iff_eq] at h
    exact ⟨d, h.1, h.2⟩
  · cases h

end Pylx.C13.Full
