/-
  C05 — parsing raises nothing but `LatexWalkerParseError`, and the error is located inside the input.

  Model-level core: the parser model never returns `Ret.crash` (the image of a Python `IndexError` /
  `TypeError` / `KeyError` / `ValueError` / `AttributeError` …), a strict-mode parse error carries a position
  inside the input, and the reported line / column are the ones of that position (C20).

  The contract and its preservation by every function of the model are in `C05Lemmas`, `C05Tok`, `C05Loop`,
  `C05Raw`; this file derives the property theorems.
-/
import PylxProofs.C05Raw
import PylxProofs.C20
import Pylx.ParseDrv
namespace Pylx

/-! ### hypotheses -/

/-- `StartOk` plus the one extra condition tolerant-mode crash-freedom needs: macros are enabled, or
    environments are disabled.  (Otherwise an escape character that is also a group opener makes the
    expression parser and the group parser disagree on the token at the same position; see
    `C05_no_crash_full_false`.) -/
structure StartOk' (c : Ctx) (f : PSFields) : Prop extends StartOk c f where
  esc : f.enMacros = true ∨ f.enEnvs = false

theorem FOk5.ofStart {tol : Bool} {ctx : Ctx} {s : Str} {f : PSFields} (hf : StartOk ctx f)
    (hesc : tol = true → f.enMacros = true ∨ f.enEnvs = false) : FOk5 { tol := tol, ctx := ctx, s := s } f :=
  ⟨hf.hasCtx, hf.specials, hf.mathDelims, hesc⟩

/-- the contract of the top-level task, for every amount of fuel -/
theorem top_good (env : Env) (hc : env.ctx.Closed) (f : PSFields) (hf : FOk5 env f) (n : Nat) :
    GoodPc env (.general .none true .same) (run env n (topTask f)) :=
  run_good5 hc n (topTask f) ⟨hf, Nat.zero_le _, trivial⟩

/-! ### no exception other than a parse error -/

/-- **C05 (no crash, strict mode).** With `tolerant_parsing=False`, for every closed-world context, every
    start state, every input and every amount of fuel the model never returns a crash. -/
theorem C05_no_crash_strict (ctx : Ctx) (hc : ctx.Closed) (s : Str) (f : PSFields) (hf : StartOk ctx f)
    (n : Nat) (k : String) :
    run { tol := false, ctx := ctx, s := s } n (topTask f) ≠ .crash k := by
  intro h
  have := top_good { tol := false, ctx := ctx, s := s } hc f (.ofStart hf (fun h => nomatch h)) n
  rw [h] at this
  exact this

/-- **C05 (no crash, both modes), partial**: under `StartOk'` (extra hypothesis `esc`). -/
theorem C05_no_crash_partial (tol : Bool) (ctx : Ctx) (hc : ctx.Closed) (s : Str) (f : PSFields)
    (hf : StartOk' ctx f) (n : Nat) (k : String) :
    run { tol := tol, ctx := ctx, s := s } n (topTask f) ≠ .crash k := by
  intro h
  have := top_good { tol := tol, ctx := ctx, s := s } hc f (.ofStart hf.toStartOk (fun _ => hf.esc)) n
  rw [h] at this
  exact this

/-- the statement without the extra hypothesis -/
def C05_no_crash_full : Prop :=
  ∀ (tol : Bool) (ctx : Ctx), ctx.Closed → ∀ (s : Str) (f : PSFields), StartOk ctx f → ∀ (n : Nat) (k : String),
    run { tol := tol, ctx := ctx, s := s } n (topTask f) ≠ .crash k

def Ret.isCrash : Ret → Bool
  | .crash _ => true
  | _ => false

/-- counterexample context: one specials `~` taking a mandatory argument -/
def cxCtx : Ctx := { specials := [(['~'], .std [⟨.m, .none⟩])] }
/-- counterexample state: macros disabled, the escape character `\` is also a group opener -/
def cxFields : PSFields := { groupDelims := [(['\\'], ['}'])], enMacros := false, specials := [['~']] }
def cxInput : Str := "~\\begin{x}".toList

theorem cxCtx_closed : cxCtx.Closed :=
  ⟨(fun p h => nomatch h), (fun p h => nomatch h),
   (fun p h => by
      simp only [cxCtx, List.mem_singleton] at h
      rw [h]; trivial),
   (fun a h => nomatch h), (fun a h => nomatch h)⟩

theorem cxFields_start : StartOk cxCtx cxFields :=
  ⟨rfl, rfl, by decide, by decide, by decide, rfl⟩

/-- **the full statement is false**: in tolerant mode, with macros disabled and an escape character that is
    also a group opener, `~\begin{x}` makes the model crash (the expression parser, reading with environments
    disabled, sees a `brace_open` token `\`; the group parser re-reads with environments enabled, sees
    `\begin{x}`, raises "expected opening delimiter", tolerant recovery returns an empty node list instead of a
    group node, and `LatexExpressionParser` fails on it). -/
theorem C05_no_crash_full_false : ¬ C05_no_crash_full := by
  intro h
  have hcr : (run { tol := true, ctx := cxCtx, s := cxInput } 12 (topTask cxFields)).isCrash = true := by decide
  cases hr : run { tol := true, ctx := cxCtx, s := cxInput } 12 (topTask cxFields) with
  | crash k => exact h true cxCtx cxCtx_closed cxInput cxFields cxFields_start 12 k hr
  | ok r q => rw [hr] at hcr; cases hcr
  | perr e => rw [hr] at hcr; cases hcr
  | loopEnd e => rw [hr] at hcr; cases hcr
  | fuel => rw [hr] at hcr; cases hcr

/-! ### shape of the result -/

/-- **C05 (shape).** The top-level task returns a node list, or (strict mode only) a parse error, or runs out
    of fuel — never a loop result, never `None`, and in tolerant mode never an error. -/
theorem C05_shape (tol : Bool) (ctx : Ctx) (hc : ctx.Closed) (s : Str) (f : PSFields) (hf : StartOk' ctx f) (n : Nat) :
    (∃ p e ns pos, run { tol := tol, ctx := ctx, s := s } n (topTask f) = .ok (.list p e ns) pos ∧ pos ≤ s.length) ∨
    (tol = false ∧ ∃ e, run { tol := tol, ctx := ctx, s := s } n (topTask f) = .perr e) ∨
    run { tol := tol, ctx := ctx, s := s } n (topTask f) = .fuel := by
  have := top_good { tol := tol, ctx := ctx, s := s } hc f (.ofStart hf.toStartOk (fun _ => hf.esc)) n
  cases hr : run { tol := tol, ctx := ctx, s := s } n (topTask f) with
  | ok r q =>
    rw [hr] at this
    obtain ⟨hs, _, hq⟩ := this
    cases r with
    | list p e ns => exact Or.inl ⟨p, e, ns, q, rfl, hq⟩
    | none => exact hs.elim
    | node n => exact hs.elim
    | args a b c => exact hs.elim
  | perr e => rw [hr] at this; exact Or.inr (Or.inl ⟨this.1, e, rfl⟩)
  | loopEnd e => rw [hr] at this; exact this.elim
  | crash k => rw [hr] at this; exact this.elim
  | fuel => exact Or.inr (Or.inr rfl)

/-- **crash-freedom half of C06 / C07 (tolerant mode).** With `tolerant_parsing=True` the top-level parse returns a
    node list (whose end position lies inside the input) unless the model runs out of fuel: no parse error, no
    other exception. -/
theorem C05_tolerant_total (ctx : Ctx) (hc : ctx.Closed) (s : Str) (f : PSFields) (hf : StartOk' ctx f) (n : Nat) :
    (∃ p e ns pos, run { tol := true, ctx := ctx, s := s } n (topTask f) = .ok (.list p e ns) pos ∧ pos ≤ s.length) ∨
    run { tol := true, ctx := ctx, s := s } n (topTask f) = .fuel := by
  rcases C05_shape true ctx hc s f hf n with h | ⟨h, _⟩ | h
  · exact Or.inl h
  · cases h
  · exact Or.inr h

/-- strict mode needs only `StartOk` -/
theorem C05_shape_strict (ctx : Ctx) (hc : ctx.Closed) (s : Str) (f : PSFields) (hf : StartOk ctx f) (n : Nat) :
    (∃ p e ns pos, run { tol := false, ctx := ctx, s := s } n (topTask f) = .ok (.list p e ns) pos ∧ pos ≤ s.length) ∨
    (∃ e, run { tol := false, ctx := ctx, s := s } n (topTask f) = .perr e) ∨
    run { tol := false, ctx := ctx, s := s } n (topTask f) = .fuel := by
  have := top_good { tol := false, ctx := ctx, s := s } hc f (.ofStart hf (fun h => nomatch h)) n
  cases hr : run { tol := false, ctx := ctx, s := s } n (topTask f) with
  | ok r q =>
    rw [hr] at this
    obtain ⟨hs, _, hq⟩ := this
    cases r with
    | list p e ns => exact Or.inl ⟨p, e, ns, q, rfl, hq⟩
    | none => exact hs.elim
    | node n => exact hs.elim
    | args a b c => exact hs.elim
  | perr e => exact Or.inr (Or.inl ⟨e, rfl⟩)
  | loopEnd e => rw [hr] at this; exact this.elim
  | crash k => rw [hr] at this; exact this.elim
  | fuel => exact Or.inr (Or.inr rfl)

/-! ### the error is located inside the input -/

/-- **C05 (located).** A strict-mode parse error carries a position, and the position lies inside the input. -/
theorem C05_located (ctx : Ctx) (hc : ctx.Closed) (s : Str) (f : PSFields) (hf : StartOk ctx f) (n : Nat) (e : PErr)
    (h : run { tol := false, ctx := ctx, s := s } n (topTask f) = .perr e) :
    ∃ p, e.pos = some p ∧ p ≤ s.length := by
  have := top_good { tol := false, ctx := ctx, s := s } hc f (.ofStart hf (fun h => nomatch h)) n
  rw [h] at this
  exact this.2.pos

/-- what the driver prints for a located error: the position and `posToLineCol` of it -/
theorem showRet_perr (s : Str) (e : PErr) (p : Nat) (h : e.pos = some p) :
    showRet s (.perr e) =
      s!"ERR {e.what.show} {p} {(posToLineCol {} s p).1} {(posToLineCol {} s p).2}" := by
  simp only [showRet, h]

/-- **C05 (line and column).** The line and column reported for a strict-mode parse error are those of its
    position in the sense of C20: `line - 1` is the (0-based) index of a line start `st ≤ p`, `p = st + col`,
    and no newline lies between `st` and `p`. -/
theorem C05_line_col (ctx : Ctx) (hc : ctx.Closed) (s : Str) (f : PSFields) (hf : StartOk ctx f) (n : Nat) (e : PErr)
    (h : run { tol := false, ctx := ctx, s := s } n (topTask f) = .perr e) :
    ∃ p, e.pos = some p ∧ p ≤ s.length ∧
      ∃ (idx st : Nat),
        (posToLineCol {} s p).1 = (idx : Int) + 1 ∧
        (lineStarts s)[idx]? = some st ∧ IsLineStart s st ∧ st ≤ p ∧
        (p : Int) = (st : Int) + (posToLineCol {} s p).2 ∧
        (∀ k, st ≤ k → k < p → s[k]? ≠ some '\n') := by
  obtain ⟨p, hp, hle⟩ := C05_located ctx hc s f hf n e h
  obtain ⟨idx, st, h1, h2, h3, h4, h5, h6⟩ := C20_pos_line_col {} s p hle
  refine ⟨p, hp, hle, idx, st, h1, h2, h3, h4, ?_, h6⟩
  have h5' : (p : Int) = (st : Int) + ((posToLineCol {} s p).2 - (if idx = 0 then (0 : Int) else 0)) := h5
  rw [h5']
  split <;> omega

/-! ### `parseTop` instances -/

theorem C05_parseTop_no_crash_strict (ctx : Ctx) (hc : ctx.Closed) (s : Str) (f : PSFields) (hf : StartOk ctx f)
    (k : String) : parseTop { tol := false, ctx := ctx, s := s } f ≠ .crash k :=
  C05_no_crash_strict ctx hc s f hf (fuelFor s) k

theorem C05_parseTop_no_crash_partial (tol : Bool) (ctx : Ctx) (hc : ctx.Closed) (s : Str) (f : PSFields)
    (hf : StartOk' ctx f) (k : String) : parseTop { tol := tol, ctx := ctx, s := s } f ≠ .crash k :=
  C05_no_crash_partial tol ctx hc s f hf (fuelFor s) k

theorem C05_parseTop_located (ctx : Ctx) (hc : ctx.Closed) (s : Str) (f : PSFields) (hf : StartOk ctx f) (e : PErr)
    (h : parseTop { tol := false, ctx := ctx, s := s } f = .perr e) : ∃ p, e.pos = some p ∧ p ≤ s.length :=
  C05_located ctx hc s f hf (fuelFor s) e h

theorem C05_parseTop_line_col (ctx : Ctx) (hc : ctx.Closed) (s : Str) (f : PSFields) (hf : StartOk ctx f) (e : PErr)
    (h : parseTop { tol := false, ctx := ctx, s := s } f = .perr e) :
    ∃ p, e.pos = some p ∧ p ≤ s.length ∧
      ∃ (idx st : Nat),
        (posToLineCol {} s p).1 = (idx : Int) + 1 ∧
        (lineStarts s)[idx]? = some st ∧ IsLineStart s st ∧ st ≤ p ∧
        (p : Int) = (st : Int) + (posToLineCol {} s p).2 ∧
        (∀ k, st ≤ k → k < p → s[k]? ≠ some '\n') :=
  C05_line_col ctx hc s f hf (fuelFor s) e h

theorem C05_parseTop_shape (tol : Bool) (ctx : Ctx) (hc : ctx.Closed) (s : Str) (f : PSFields) (hf : StartOk' ctx f) :
    (∃ p e ns pos, parseTop { tol := tol, ctx := ctx, s := s } f = .ok (.list p e ns) pos ∧ pos ≤ s.length) ∨
    (tol = false ∧ ∃ e, parseTop { tol := tol, ctx := ctx, s := s } f = .perr e) ∨
    parseTop { tol := tol, ctx := ctx, s := s } f = .fuel :=
  C05_shape tol ctx hc s f hf (fuelFor s)

/-! ### non-vacuity -/

instance : DecidablePred ArgsP.Known := fun a => by
  cases a <;> unfold ArgsP.Known <;> infer_instance

set_option maxRecDepth 100000 in
/-- the default walker context is closed -/
theorem defaultCtx_closed : Gen.defaultCtx.Closed :=
  ⟨by decide, by decide, by decide,
   (fun a h => by cases h; trivial), (fun a h => by cases h; trivial)⟩

/-- the default start state satisfies `StartOk'` (hence `StartOk`) -/
example : StartOk' Gen.defaultCtx { specials := Gen.defaultCtx.specials.map (·.1) } :=
  { hasCtx := rfl, specials := rfl, mathDelims := by decide, groupDelims := by decide, comment := by decide,
    normal := rfl, esc := Or.inl rfl }

/-- a small closed context used for the concrete runs below -/
def exCtx5 : Ctx := { macros := [("frac".toList, .std [⟨.m, .none⟩, ⟨.m, .none⟩])], unknownMacro := some (.std []) }

def Ret.errPos : Ret → Option (ErrWhat × Option Nat)
  | .perr e => some (e.what, e.pos)
  | _ => none

/-- strict mode: `\frac{a}` followed by an unmatched `}` — the second argument is missing, the error sits at
    position 8 of 9 -/
example : (parseTop { tol := false, ctx := exCtx5, s := "\\frac{a}}".toList } {}).errPos =
    some (.exprCloseBrace, some 8) := by decide

/-- the line / column reported for an error on the second line -/
example : (parseTop { tol := false, ctx := exCtx5, s := "ab\n}".toList } {}).errPos =
    some (.unexpectedCloseBrace, some 3) ∧ posToLineCol {} "ab\n}".toList 3 = (2, 0) := by decide

/-- tolerant mode recovers from the same input and returns a node list -/
example : (parseTop { tol := true, ctx := exCtx5, s := "ab\n}".toList } {}).isCrash = false := by decide

end Pylx
