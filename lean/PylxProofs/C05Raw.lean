/-
  C05Raw — every parser's own `parse()` keeps the C05 contract; the step and fuel induction.
-/
import PylxProofs.C05Loop
namespace Pylx

variable {env : Env} {rec : Task → Ret}

theorem TokKind.beq_iff (a b : TokKind) : (a == b) = true ↔ a = b := by cases a <;> cases b <;> decide

theorem ErrOk.simple {what : ErrWhat} {p rp : Nat} (hp : p ≤ env.s.length) (hrp : rp ≤ env.s.length) :
    ErrOk env { what := what, pos := some p, rpos := rp } :=
  ⟨⟨p, rfl, hp⟩, hrp, (fun _ h => nomatch h), (fun _ h => nomatch h), trivial⟩

theorem notFoundErr_ok {t : Token} (hloc : TokLoc env t) : ErrOk env (notFoundErr t) :=
  ⟨⟨t.pos, rfl, hloc.pos_len⟩, hloc.end_le, fun t' h => by cases h; exact hloc.pos_len, (fun _ h => nomatch h), trivial⟩

theorem tokErr_raw {p : Parser} {f : PSFields} (hf : FOk5 env f) {pos : Nat} (hpos : pos ≤ env.s.length)
    {w : TokErr} {ep : Nat} {t : Token} {r : Nat}
    (hpk : peekTok env.tol (mkPS f) env.s pos = .err w ep t r) :
    RawGood env p (.ret (.perr { what := tokErrWhat w, pos := some ep, rpos := pos })) := by
  obtain ⟨hle, htol⟩ := peekTok_err_le hf.tables hpk
  exact ⟨ErrOk.simple hle hpos, fun h => by rw [htol] at h; cases h⟩

/-! ### general nodes -/

theorem rawGeneral_good (hrec : RecOk env rec) {stop : StopTok} {req : Bool} {child : ChildPS} {f : PSFields}
    {pos : Nat} (hf : FOk5 env f) (hpos : pos ≤ env.s.length) (hch : ChildOk5 env f child) :
    RawGood env (.general stop req child) (rawGeneral rec stop req child f pos) := by
  unfold rawGeneral
  have hl := hrec.loop (stop := stop) hf hch (st := { pos := pos })
    ⟨hpos, (fun p h => nomatch h), (fun n h => nomatch h)⟩
  cases hr : rec (.loop f stop child { pos := pos }) with
  | ok res q => rw [hr] at hl; exact hl.elim
  | perr e => rw [hr] at hl; exact hl.elim
  | crash k => rw [hr] at hl; exact hl.elim
  | fuel => trivial
  | loopEnd e =>
    rw [hr] at hl
    obtain ⟨hep, hnodes, herr, hstop⟩ := hl
    unfold retOfLoop
    dsimp only
    cases he : e.err with
    | some pe =>
      dsimp only
      exact ⟨⟨herr pe he, hep, (fun _ h => nomatch h), (fun _ h => nomatch h), trivial⟩, fun _ => trivial⟩
    | none =>
      dsimp only
      split
      · refine ⟨⟨?_, hep, (fun _ h => nomatch h), (fun _ h => nomatch h), trivial⟩, fun _ => trivial⟩
        cases hn : e.nodes with
        | nil => exact ⟨pos, rfl, hpos⟩
        | cons n ns => exact ⟨n.pos, rfl, hnodes n (by rw [hn]; exact List.mem_cons_self)⟩
      · cases hs : e.stopTok with
        | none => exact ⟨trivial, trivial, hep⟩
        | some t =>
          refine ⟨trivial, trivial, ?_⟩
          split
          · simp only [movePastToken, if_true]; exact hstop t hs
          · exact hep

/-! ### delimited group -/

theorem groupState_cases (d : GroupDelims) {f : PSFields} (hf : FOk5 env f)
    (hop : ∀ o, d = .auto o → f.groupDelims.any (fun x => x.1 == o) = true) :
    ∃ g, groupState d f = some g ∧ FOk5 env g ∧ ChildOk5 env g (.group d.opener g f) ∧
      (d.isAuto = true → g = f) ∧ ∃ c, groupCloser d g = some c := by
  cases d with
  | auto o =>
    have h := hop o rfl
    refine ⟨f, ?_, hf, ⟨rfl, hf, SameBut.refl f, h, fun a _ ha => ha⟩, fun _ => rfl, ?_⟩
    · unfold groupState
      simp only [mkPS_groupByOpen, h, if_true]
    · unfold groupCloser
      simp only [mkPS_groupByOpen]
      exact lookupLast_some_of_any _ _ h
  | pair o c =>
    by_cases hcont : f.groupDelims.contains (o, c) = true
    · refine ⟨f, ?_, hf, ⟨rfl, hf, SameBut.refl f, ?_, fun a _ ha => ha⟩, (fun h => nomatch h), c, rfl⟩
      · unfold groupState
        simp only [hcont, if_true]
      · have hm := List.contains_iff_mem.mp hcont
        exact List.any_eq_true.mpr ⟨(o, c), hm, by simp [GroupDelims.opener]⟩
    · refine ⟨{ f with groupDelims := f.groupDelims ++ [(o, c)] }, ?_, hf.upd f.inMath f.mathDelim _,
        ⟨rfl, hf, rfl, ?_, ?_⟩, (fun h => nomatch h), c, rfl⟩
      · unfold groupState
        simp only [hcont, if_false, Bool.false_eq_true]
      · simp [GroupDelims.opener, List.any_append]
      · intro a hne ha
        simp only [List.any_append, Bool.or_eq_true] at ha
        rcases ha with ha | ha
        · exact ha
        · exfalso
          simp only [GroupDelims.opener, List.any_cons, List.any_nil, Bool.or_false] at ha hne
          have : o = a := by simpa using ha
          rw [this] at hne
          simp at hne

theorem rawGroupTok_good (hrec : RecOk env rec) {d : GroupDelims} {opt ap : Bool} {f g : PSFields} {t : Token}
    (hg : FOk5 env g) (hch : ChildOk5 env g (.group d.opener g f)) {c : Str} (hcl : groupCloser d g = some c)
    (hloc : TokLoc env t)
    (hcond : env.tol = true → d.isAuto = true → opt = false →
      (!(!ap && !t.pre.isEmpty) && t.kind == .braceOpen && t.arg == d.opener) = true) :
    RawGood env (.group d opt ap) (rawGroupTok rec d opt ap f g t) := by
  unfold rawGroupTok
  split
  · rw [hcl]
    dsimp only
    apply bindOk_good (q := .general (.braceClose c) true (.group d.opener g f)) (hrec.pc hg hloc.end_le hch)
    intro res p _ _ hp
    exact ⟨fun _ _ => trivial, ⟨hloc.pos_len, hp⟩, hp⟩
  · rename_i hn
    split
    · rename_i hopt
      refine ⟨fun _ h => ?_, trivial, ?_⟩
      · rw [hopt] at h; cases h
      · simp only [moveToToken, if_true]; have := hloc.pos_len; omega
    · refine ⟨notFoundErr_ok hloc, fun htol hauto hopt' => ?_⟩
      exact absurd (hcond htol hauto hopt') hn

theorem rawGroup_good (hrec : RecOk env rec) {d : GroupDelims} {opt ap : Bool} {f : PSFields} {pos : Nat}
    (hf : FOk5 env f) (hpos : pos ≤ env.s.length) (hp : PPre5 env (.group d opt ap) f pos) :
    RawGood env (.group d opt ap) (rawGroup env rec d opt ap f pos) := by
  have hp' : ∀ o, d = .auto o →
      f.groupDelims.any (fun d => d.1 == o) = true ∧ NonSpaceAt env.s pos ∧
      (env.tol = true → ∃ t, peekImpl (mkPS f) env.s pos = .tok t ∧ t.kind = .braceOpen ∧ t.arg = o ∧ t.pre = []) := hp
  obtain ⟨g, hgs, hg, hch, hgf, c, hcl⟩ := groupState_cases d hf (fun o ho => (hp' o ho).1)
  unfold rawGroup
  rw [hgs]
  dsimp only
  cases hpk : peekTok env.tol (mkPS g) env.s pos with
  | eos fs =>
    dsimp only
    refine ⟨fun hauto _ => ?_, hpos⟩
    cases d with
    | auto o =>
      have := hgf rfl
      subst this
      exact absurd (peekTok_eos hpk) (peekImpl_not_eos (hp' o rfl).2.1 fs)
    | pair o c => cases hauto
  | err w ep t r => exact tokErr_raw hg hpos hpk
  | tok t =>
    dsimp only
    apply rawGroupTok_good hrec hg hch hcl (.ofSpan (span_of_peekTok _ _ hg.tables _ _ _ hpk))
    intro htol hauto hopt
    cases d with
    | pair o c => cases hauto
    | auto o =>
      have := hgf rfl
      subst this
      obtain ⟨t', ht', hk, ha, hpre⟩ := (hp' o rfl).2.2 htol
      have := peekTok_of_impl (tol := env.tol) ht'
      rw [hpk] at this
      cases this
      have hb : (TokKind.braceOpen == TokKind.braceOpen) = true := by decide
      rw [hk, ha, hpre]
      simp [hb, GroupDelims.opener]

/-! ### math -/

theorem rawMath_good (hrec : RecOk env rec) {d : Str} {f : PSFields} {pos : Nat}
    (hf : FOk5 env f) (hpos : pos ≤ env.s.length) (hp : PPre5 env (.math d) f pos) :
    RawGood env (.math d) (rawMath env rec d f pos) := by
  obtain ⟨hany, hre⟩ : (byOpenOf f).any (fun x => x.1 == d) = true ∧
      (env.tol = true → ∃ t, peekImpl (mkPS f) env.s pos = .tok t ∧
          (t.kind = .mathInline ∨ t.kind = .mathDisplay) ∧ t.arg = d ∧ t.pre = []) := hp
  unfold rawMath
  cases hpk : peekTok env.tol (mkPS f) env.s pos with
  | eos fs => exact ⟨trivial, hpos⟩
  | err w ep t r => exact tokErr_raw hf hpos hpk
  | tok t =>
    dsimp only
    have hloc : TokLoc env t := .ofSpan (span_of_peekTok _ _ hf.tables _ _ _ hpk)
    unfold rawMathTok
    split
    · rename_i hcond
      have hta : t.arg = d := by
        simp only [Bool.and_eq_true] at hcond
        simpa using hcond.2
      have hany' : (byOpenOf f).any (fun x => x.1 == t.arg) = true := by rw [hta]; exact hany
      obtain ⟨cd, hcd⟩ := lookupLast_some_of_any _ _ hany'
      rw [expectClose_mathFields, hcd]
      dsimp only
      apply bindOk_good (q := .general (.mathClose (t.kind == .mathDisplay) cd.1) true .same)
        (hrec.pc (hf.mathFields t.arg) hloc.end_le trivial)
      intro res p _ _ hp
      exact ⟨trivial, ⟨hloc.pos_len, hp⟩, hp⟩
    · rename_i hn
      refine ⟨notFoundErr_ok hloc, fun htol => ?_⟩
      exfalso
      apply hn
      obtain ⟨t', ht', hk, ha, hpre⟩ := hre htol
      have := peekTok_of_impl (tol := env.tol) ht'
      rw [hpk] at this
      cases this
      have hb1 : (TokKind.mathInline == TokKind.mathInline) = true := by decide
      have hb2 : (TokKind.mathDisplay == TokKind.mathDisplay) = true := by decide
      rw [ha, hpre]
      rcases hk with hk | hk <;> rw [hk] <;> simp [hb1, hb2]

/-! ### environment body, calls -/

theorem rawEnvBody_good (hrec : RecOk env rec) {name : Str} {f : PSFields} {pos : Nat}
    (hf : FOk5 env f) (hpos : pos ≤ env.s.length) :
    RawGood env (.envBody name) (rawEnvBody rec name f pos) := by
  unfold rawEnvBody
  apply bindOk_good (q := .general (.endEnv name) true .same) (hrec.pc hf hpos trivial)
  intro res p _ hin hp
  cases res with
  | none => exact ⟨trivial, trivial, hp⟩
  | node n => exact ⟨trivial, hin, hp⟩
  | list a b c => exact ⟨trivial, trivial, hp⟩
  | args a b c => exact ⟨trivial, trivial, hp⟩

theorem rawCall_good (hrec : RecOk env rec) {p : Parser} (hshape : ∀ n, ResShape p (.node n))
    {mk : Nat → Option (List Arg) → Node} {a : ArgsP} {f : PSFields} {pos : Nat}
    (hf : FOk5 env f) (hpos : pos ≤ env.s.length) (ha : a.Known)
    (hmk : ∀ e args, e ≤ env.s.length → NodeIn env (mk e args)) :
    RawGood env p (rawCall rec mk a f pos) := by
  unfold rawCall
  apply bindOk_good (q := .arguments a) (hrec.pc hf hpos ha)
  intro res q _ _ hq
  exact ⟨hshape _, hmk _ _ hq, hq⟩

theorem rawEnvCall_good (hrec : RecOk env rec) {t : Token} {a : ArgsP} {bm : Bool} {f : PSFields} {pos : Nat}
    (hf : FOk5 env f) (hpos : pos ≤ env.s.length) (ha : a.Known) (ht : t.pos ≤ env.s.length) :
    RawGood env (.envCall t a bm) (rawEnvCall rec t a bm f pos) := by
  unfold rawEnvCall
  apply bindOk_good (q := .arguments a) (hrec.pc hf hpos ha)
  intro ares p _ _ hp
  dsimp only
  have hbf : FOk5 env (if bm then applyDelta f .enterMath else f) := by
    split
    · exact hf.applyDelta _
    · exact hf
  apply bindOk_good (q := .envBody t.arg) (hrec.pc hbf hp trivial)
  intro bres p2 _ _ hp2
  exact ⟨trivial, ⟨ht, hp2⟩, hp2⟩

/-! ### arguments -/

theorem rawLegacyVerb_good {a : ArgsP} {f : PSFields} {pos : Nat} (hpos : pos ≤ env.s.length) :
    RawGood env (.arguments a) (rawLegacyVerb env f pos) := by
  unfold rawLegacyVerb
  dsimp only
  have hsp := spaceRun_length_le env.s pos
  have hp : pos + (spaceRun env.s pos).length ≤ env.s.length := by omega
  split
  · exact ⟨ErrOk.simple hp hpos, fun _ => trivial⟩
  · split
    · exact ⟨ErrOk.simple hp hpos, fun _ => trivial⟩
    · rename_i e he
      obtain ⟨_, h2⟩ := findCharFrom_spec _ _ _ _ he
      exact ⟨trivial, trivial, by omega⟩

theorem legacyVerbEnvFinish_good {a : ArgsP} {name : Str} {f : PSFields} {pos : Nat} {pre : List Arg} {p : Nat}
    (hpos : pos ≤ env.s.length) (hp : p ≤ env.s.length) :
    RawGood env (.arguments a) (legacyVerbEnvFinish env name f pos pre p) := by
  unfold legacyVerbEnvFinish
  split
  · exact ⟨ErrOk.simple hp hpos, fun _ => trivial⟩
  · rename_i e he
    exact ⟨trivial, trivial, findStrFrom_le _ _ _ _ he⟩

theorem rawLegacyVerbEnv_good (hrec : RecOk env rec) {a : ArgsP} {name : Str} {optArg : Bool} {f : PSFields} {pos : Nat}
    (hf : FOk5 env f) (hpos : pos ≤ env.s.length) :
    RawGood env (.arguments a) (rawLegacyVerbEnv env rec name optArg f pos) := by
  unfold rawLegacyVerbEnv
  split
  · exact legacyVerbEnvFinish_good hpos hpos
  · split
    · exact legacyVerbEnvFinish_good hpos hpos
    · apply bindOk_good (q := .group (.pair ['['] [']']) true false)
        (hrec.pc hf hpos (fun o ho => nomatch ho))
      intro res _ _ hin _
      cases res with
      | node n => exact legacyVerbEnvFinish_good hpos hin.2
      | none => exact legacyVerbEnvFinish_good hpos hpos
      | list a b c => exact legacyVerbEnvFinish_good hpos hpos
      | args a b c => exact legacyVerbEnvFinish_good hpos hpos

theorem argParser_pre (k : ArgKind) (f : PSFields) (pos : Nat) : PPre5 env (argParser k) f pos := by
  cases k <;> first | trivial | exact (fun o ho => nomatch ho)

theorem argsLoop_good (hrec : RecOk env rec) {a0 : ArgsP} {f : PSFields} (hf : FOk5 env f) :
    ∀ (l : List ArgSpec) (acc : List Arg) (pos : Nat), pos ≤ env.s.length →
      GoodPc env (.arguments a0) (argsLoop env rec f l acc pos) := by
  intro l
  induction l with
  | nil => intro acc pos hpos; exact ⟨trivial, trivial, hpos⟩
  | cons a rest ih =>
    intro acc pos hpos
    unfold argsLoop
    split
    · rename_i w ep _ _ hpk
      obtain ⟨hle, htol⟩ := peekTok_err_le hf.tables hpk
      exact ⟨htol, ErrOk.simple hle hpos⟩
    · have hr := hrec.pc (p := argParser a.kind) (hf.applyDelta a.delta) hpos (argParser_pre _ _ _)
      cases hres : rec (.pc (argParser a.kind) (applyDelta f a.delta) pos) with
      | ok res p => rw [hres] at hr; exact ih _ _ hr.2.2
      | perr e => rw [hres] at hr; exact hr
      | loopEnd e => rw [hres] at hr; exact hr.elim
      | crash k => rw [hres] at hr; exact hr.elim
      | fuel => trivial

theorem rawArguments_good (hrec : RecOk env rec) {a : ArgsP} {f : PSFields} {pos : Nat}
    (hf : FOk5 env f) (hpos : pos ≤ env.s.length) (ha : a.Known) :
    RawGood env (.arguments a) (rawArguments env rec a f pos) := by
  cases a with
  | std l => exact RawGood.ofPc (argsLoop_good hrec hf l [] pos hpos)
  | legacyVerb => exact rawLegacyVerb_good hpos
  | legacyVerbEnv name optArg => exact rawLegacyVerbEnv_good hrec hf hpos
  | unknown => exact ha.elim

/-! ### expression -/

theorem nodesIn_append {sk : List Node} (hsk : ∀ n ∈ sk, NodeIn env n) {m : Node} (hm : NodeIn env m) :
    ∀ n ∈ sk ++ [m], NodeIn env n := by
  intro n hn
  rcases List.mem_append.mp hn with h | h
  · exact hsk n h
  · simp only [List.mem_singleton] at h
    rw [h]; exact hm

theorem exprFinish_good {f : PSFields} {nodes : List Node} {pos : Nat} (hpos : pos ≤ env.s.length)
    (hn : ∀ n ∈ nodes, NodeIn env n) : GoodExpr env (exprFinish f nodes pos) := by
  unfold exprFinish
  split
  · rename_i n hl
    exact ⟨hn n (List.mem_of_getLast? hl), hpos⟩
  · exact ⟨⟨hpos, hpos⟩, hpos⟩

theorem exprOnTok_good (hrec : RecOk env rec) {ap : Bool} {sk : List Node} {f : PSFields} {t : Token}
    (hf : FOk5 env f) (hsk : ∀ n ∈ sk, NodeIn env n) (hloc : TokLoc env t) {p0 : Nat}
    (hpk : t.kind ≠ .char → peekImpl (mkPS ({ f with enEnvs := false } : PSFields).normalize) env.s p0 = .tok t)
    (hnm : t.kind ≠ .macro) (hns : t.kind ≠ .specials) :
    GoodExpr env (exprOnTok env rec ap sk f t) := by
  have hin : NodeIn env (Node.chars t.pos t.posEnd (psInfo f) t.arg) := ⟨hloc.pos_len, hloc.end_le⟩
  unfold exprOnTok
  dsimp only
  cases hk : t.kind <;> dsimp only
  case comment =>
    split
    · exact hrec.expr hf hloc.end_le (nodesIn_append hsk ⟨hloc.pos_len, hloc.end_le⟩)
    · split
      · exact hrec.expr hf hloc.end_le hsk
      · exact ErrOk.simple hloc.pos_len hloc.end_le
  case braceOpen =>
    have hpk' := hpk (by rw [hk]; decide)
    have hop := braceOpen_opener hpk' hk
    rw [ef_groupDelims] at hop
    have hr := hrec.pc (p := .group (.auto t.arg) false false) hf hloc.pos_len (by
      intro o ho
      cases ho
      exact ⟨hop, nonSpaceAt_of_tok hpk' (Or.inl hk),
        fun htol => ⟨_, reread_braceOpen_expr (hf.esc htol) hpk' hk, hk, rfl, rfl⟩⟩)
    cases hres : rec (.pc (.group (.auto t.arg) false false) f t.pos) with
    | ok res p =>
      rw [hres] at hr
      obtain ⟨hs, hrin, hp⟩ := hr
      cases res with
      | node n => exact exprFinish_good hp (nodesIn_append hsk hrin)
      | none => exact (hs rfl rfl).elim
      | list a b c => exact (hs rfl rfl).elim
      | args a b c => exact (hs rfl rfl).elim
    | perr e => rw [hres] at hr; exact hr.2
    | loopEnd e => rw [hres] at hr; exact hr.elim
    | crash k => rw [hres] at hr; exact hr.elim
    | fuel => trivial
  case braceClose =>
    exact ⟨⟨t.pos, rfl, hloc.pos_len⟩, hloc.pos_len, fun t' h => by cases h; exact hloc.pos_len,
      (fun _ h => nomatch h), ⟨hloc.pos_len, hloc.pos_len⟩⟩
  case char => exact exprFinish_good hloc.end_le (nodesIn_append hsk hin)
  case mathInline =>
    refine ⟨⟨t.pos, rfl, hloc.pos_len⟩, hloc.end_le, (fun _ h => nomatch h), fun t' h => by cases h; exact hloc.end_le, ?_⟩
    dsimp only
    split <;> exact ⟨hloc.pos_len, hloc.end_le⟩
  case mathDisplay =>
    refine ⟨⟨t.pos, rfl, hloc.pos_len⟩, hloc.end_le, (fun _ h => nomatch h), fun t' h => by cases h; exact hloc.end_le, ?_⟩
    dsimp only
    split <;> exact ⟨hloc.pos_len, hloc.end_le⟩
  case «macro» => exact absurd hk hnm
  case specials => exact absurd hk hns
  case beginEnv => exact absurd hk (no_env_tok (ef_enEnvs f) (hpk (by rw [hk]; decide))).1
  case endEnv => exact absurd hk (no_env_tok (ef_enEnvs f) (hpk (by rw [hk]; decide))).2

theorem exprTok_good (hrec : RecOk env rec) {ap : Bool} {sk : List Node} {f : PSFields} {t : Token}
    (hf : FOk5 env f) (hsk : ∀ n ∈ sk, NodeIn env n) (hloc : TokLoc env t) {p0 : Nat}
    (hpk : t.kind ≠ .char → peekImpl (mkPS ({ f with enEnvs := false } : PSFields).normalize) env.s p0 = .tok t) :
    GoodExpr env (exprTok env rec ap sk f t) := by
  have hin : ∀ x, NodeIn env x → ∀ n ∈ sk ++ [x], NodeIn env n := fun x hx => nodesIn_append hsk hx
  unfold exprTok
  dsimp only
  split
  · split
    · split
      · exact exprFinish_good hloc.end_le (hin _ ⟨hloc.pos_len, hloc.end_le⟩)
      · exact ErrOk.simple hloc.pos_len hloc.end_le
    · exact exprFinish_good hloc.end_le (hin _ ⟨hloc.pos_len, hloc.end_le⟩)
  · rename_i hnm
    split
    · exact exprFinish_good hloc.end_le (hin _ ⟨hloc.pos_len, hloc.end_le⟩)
    · rename_i hns
      have hpl := hloc.pos_len
      split
      · split
        · refine hrec.expr hf hpl (hin _ ⟨?_, hpl⟩)
          show t.pos - t.pre.length ≤ _
          omega
        · split
          · exact hrec.expr hf hloc.end_le hsk
          · exact ErrOk.simple (by omega) hloc.end_le
      · exact exprOnTok_good hrec hf hsk hloc hpk
          (fun h => hnm ((TokKind.beq_iff _ _).mpr h)) (fun h => hns ((TokKind.beq_iff _ _).mpr h))

theorem exprStep_good5 (hrec : RecOk env rec) {ap : Bool} {sk : List Node} {f : PSFields} {pos : Nat}
    (hf : FOk5 env f) (hpos : pos ≤ env.s.length) (hsk : ∀ n ∈ sk, NodeIn env n) :
    GoodExpr env (exprStep env rec ap sk f pos) := by
  have hef : FOk5 env (({ f with enEnvs := false } : PSFields).normalize) :=
    FOk5.normalize ⟨hf.hasCtx, hf.specials, hf.delims, fun _ => Or.inr rfl⟩
  unfold exprStep
  dsimp only
  cases hpk : peekTok env.tol (mkPS ({ f with enEnvs := false } : PSFields).normalize) env.s pos with
  | err w ep t r =>
    exact ErrOk.simple (peekTok_err_le hef.tables hpk).1 hpos
  | eos fs =>
    dsimp only
    split
    · exact exprFinish_good hpos hsk
    · exact ErrOk.simple hpos hpos
  | tok t =>
    exact exprTok_good hrec hf hsk (.ofSpan (span_of_peekTok _ _ hef.tables _ _ _ hpk))
      (fun hk => peekTok_nonchar hpk hk)

/-! ### marker, verbatim -/

theorem rawMarker_good {c : Char} {fl ap : Bool} {f : PSFields} {pos : Nat}
    (hf : FOk5 env f) (hpos : pos ≤ env.s.length) :
    RawGood env (.marker c fl ap) (rawMarker env c fl ap f pos) := by
  unfold rawMarker
  cases hpk : peekTok env.tol (mkPS f) env.s pos with
  | eos fs => exact ⟨trivial, trivial, hpos⟩
  | err w ep t r => exact tokErr_raw hf hpos hpk
  | tok t =>
    have hloc : TokLoc env t := .ofSpan (span_of_peekTok _ _ hf.tables _ _ _ hpk)
    dsimp only
    split
    · exact ⟨trivial, trivial, hpos⟩
    · split
      · refine ⟨trivial, ?_, hloc.end_le⟩
        split
        · trivial
        · exact ⟨hloc.pos_len, hloc.end_le⟩
      · split
        · exact ⟨trivial, hpos⟩
        · exact ⟨trivial, trivial, hpos⟩

theorem rawVerbatim_good {delims : Option (Char × Char)} {f : PSFields} {pos : Nat}
    (hpos : pos ≤ env.s.length) :
    RawGood env (.verbatim delims) (rawVerbatim env delims f pos) := by
  unfold rawVerbatim
  dsimp only
  have hsp := spaceRun_length_le env.s pos
  have hp : pos + (spaceRun env.s pos).length ≤ env.s.length := by omega
  generalize pos + (spaceRun env.s pos).length = p at hp
  cases hfirst : env.s[p]? with
  | none => exact ⟨trivial, hp⟩
  | some first =>
    have hlt : p < env.s.length := getElem?_lt _ _ _ hfirst
    dsimp only
    have tail : ∀ (o c : Char), RawGood env (.verbatim delims)
        (match verbScan o c (List.drop (p + 1) env.s) 1 (p + 1) with
        | some e =>
          .ret (.ok (.node (Node.group p (e + 1) (psInfo f) [o] [c]
            (some [Node.chars (p + 1) e (psInfo f) (slice env.s (p + 1) e)]))) (e + 1))
        | none =>
          .ret (.perr { what := .verbEOS, pos := some env.s.length, rpos := env.s.length,
                        recNodes := .node (Node.chars (p + 1) env.s.length (psInfo f)
                          (slice env.s (p + 1) env.s.length)) })) := by
      intro o c
      cases hv : verbScan o c (List.drop (p + 1) env.s) 1 (p + 1) with
      | some e =>
        have := verbScan_lt _ _ _ _ _ _ hv
        simp only [List.length_drop] at this
        exact ⟨trivial, ⟨hp, by show e + 1 ≤ _; omega⟩, by omega⟩
      | none =>
        exact ⟨⟨⟨_, rfl, Nat.le_refl _⟩, Nat.le_refl _, (fun _ h => nomatch h), (fun _ h => nomatch h),
          ⟨by show p + 1 ≤ _; omega, Nat.le_refl _⟩⟩, fun _ => trivial⟩
    cases delims with
    | none => exact tail _ _
    | some oc =>
      obtain ⟨o, c⟩ := oc
      dsimp only
      by_cases ho : (first == o) = true
      · simp only [ho, if_true]
        exact tail _ _
      · simp only [ho, if_false, Bool.false_eq_true]
        exact ⟨ErrOk.simple hp (by omega), fun _ => trivial⟩

/-! ### the step and the induction on fuel -/

theorem RawGood.ofExpr {ap : Bool} {r : Ret} (h : GoodExpr env r) : RawGood env (.expression ap) (.ret r) := by
  cases r with
  | ok res q => exact ⟨trivial, h.1, h.2⟩
  | perr e => exact ⟨h, fun _ => trivial⟩
  | loopEnd e => exact h
  | crash k => exact h
  | fuel => trivial

theorem rawParse_good (hrec : RecOk env rec) {p : Parser} {f : PSFields} {pos : Nat}
    (hf : FOk5 env f) (hpos : pos ≤ env.s.length) (hp : PPre5 env p f pos) :
    RawGood env p (rawParse env rec p f pos) := by
  cases p with
  | general stop req child => exact rawGeneral_good hrec hf hpos hp
  | group d o a => exact rawGroup_good hrec hf hpos hp
  | math d => exact rawMath_good hrec hf hpos hp
  | envBody n => exact rawEnvBody_good hrec hf hpos
  | macroCall t a =>
    exact rawCall_good (p := .macroCall t a) hrec (fun _ => trivial) hf hpos hp.1 (fun e _ he => ⟨hp.2, he⟩)
  | specialsCall t a =>
    exact rawCall_good (p := .specialsCall t a) hrec (fun _ => trivial) hf hpos hp.1 (fun e _ he => ⟨hp.2, he⟩)
  | envCall t a bm => exact rawEnvCall_good hrec hf hpos hp.1 hp.2
  | arguments a => exact rawArguments_good hrec hf hpos hp
  | expression ap => exact RawGood.ofExpr (hrec.expr hf hpos (fun n h => nomatch h))
  | marker c fl ap => exact rawMarker_good hf hpos
  | verbatim d => exact rawVerbatim_good hpos

theorem step_good5 (hc : env.ctx.Closed) (hrec : RecOk env rec) : RecOk env (step env rec) := by
  intro t hpre
  cases t with
  | pc p f pos =>
    obtain ⟨hf, hpos, hp⟩ := hpre
    exact parseContent_good (rawParse_good hrec hf hpos hp)
  | loop f stop child st =>
    obtain ⟨hf, hch, hst⟩ := hpre
    exact loopStep_good5 hc hrec hf hch hst
  | expr ap sk f pos =>
    obtain ⟨hf, hpos, hsk⟩ := hpre
    exact exprStep_good5 hrec hf hpos hsk

theorem run_good5 (hc : env.ctx.Closed) : ∀ n, RecOk env (run env n) := by
  intro n
  induction n with
  | zero => intro t _; cases t <;> trivial
  | succ n ih => exact step_good5 hc ih

end Pylx
