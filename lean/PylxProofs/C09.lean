/-
  C09 — parsing is a pure function of input, context and flags.

  `Pylx.World` models exactly the state that outlives a parse (the regenerated inventory
  `Pylx.Gen.StateInventory`): the process-wide cache of standard-argument parsers, each instance's lazily created
  inner parser, the `frozen` flag and the (never written) content of the context databases.  The parse *reads* the
  world: every argument specification is resolved to the parser that the world's instance delegates to.

  * `C09_noninterference`  — in every world reachable by any sequence of calls (each having created / initialised
                             any subset of the parsers its database declares) a call returns what it returns in a
                             fresh process;  `C09_history` — the same for whole histories (what `HIST` runs);
  * `C09_ctx_unchanged`    — a call leaves the content of every database as it was; `frozen` only goes from false to
                             true, and only for the database of the call;
  * `C09_cache_monotone`   — cache entries are never removed or replaced, an inner parser once created stays, and
                             every entry remains a function of its key;
  * `C09_inventory_accounted` — every store of the regenerated inventory is on the allow-list of `Pylx.World`;
  * `C09_asIs_interference`   — for the tree before the repair (nesting counter on the cached verbatim parser) the
                             second parse of `\vv{a{b}c}d` fails: kernel-checked witness.
-/
import Pylx.World
namespace Pylx.World

/-! ### well-formed worlds -/

/-- every cache entry is a function of its key: built from the key, inner parser absent or built from the key -/
def WFCache (c : List (ArgKind × Inst)) : Prop :=
  ∀ k i, lookupK k c = some i → i.kind = k ∧ (i.inner = none ∨ i.inner = some k)

structure WF (dbs : List Ctx) (w : World) : Prop where
  cache : WFCache w.cache
  dbs : w.dbs.map (·.ctx) = dbs

/-- worlds reachable from a fresh process by calls; a call may have touched any of the parsers its database declares -/
inductive Reachable (m : Mode) (dbs : List Ctx) : World → Prop where
  | init : Reachable m dbs (World.init dbs)
  | step {w : World} (call : Call) (ks : List ArgKind) :
      Reachable m dbs w → (∀ k, k ∈ ks → k ∈ callKinds w call) →
      Reachable m dbs { advance w call ks with depths := (parseIn m w call).2 }

/-! ### the cache -/

theorem instOf_parserKind {c : List (ArgKind × Inst)} (h : WFCache c) (k : ArgKind) :
    (instOf c k).parserKind = k := by
  unfold instOf
  cases hl : lookupK k c with
  | none => rfl
  | some i =>
    obtain ⟨hk, hi⟩ := h k i hl
    simp only [Option.getD_some, Inst.parserKind]
    rcases hi with hi | hi <;> rw [hi] <;> simp [hk]

theorem instOf_kind {c : List (ArgKind × Inst)} (h : WFCache c) (k : ArgKind) : (instOf c k).kind = k := by
  unfold instOf
  cases hl : lookupK k c with
  | none => rfl
  | some i => exact (h k i hl).1

theorem lookupK_map_touch (k k' : ArgKind) (x : Inst) (c : List (ArgKind × Inst)) :
    lookupK k' (c.map (fun e => if e.1 = k then (e.1, x) else e))
      = if k' = k then (lookupK k c).map (fun _ => x) else lookupK k' c := by
  induction c with
  | nil => simp [lookupK]
  | cons e l ih =>
    simp only [List.map_cons, lookupK]
    by_cases hek : e.1 = k
    · simp only [hek, if_true]
      by_cases hkk : k' = k
      · simp [hkk]
      · have : ¬ k = k' := fun h => hkk h.symm
        simp only [this, if_false, hkk]
        rw [ih]; simp [hkk]
    · simp only [hek, if_false]
      by_cases hkk : k' = k
      · subst hkk
        simp only [hek, if_false, if_true]
        rw [ih]; simp
      · simp only [hkk, if_false]
        by_cases he' : e.1 = k'
        · simp [he']
        · simp only [he', if_false]; rw [ih]; simp [hkk]

theorem lookupK_append (k' : ArgKind) (c : List (ArgKind × Inst)) (k : ArgKind) (x : Inst) :
    lookupK k' (c ++ [(k, x)]) = match lookupK k' c with
      | some i => some i
      | none => if k = k' then some x else none := by
  induction c with
  | nil => simp [lookupK]
  | cons e l ih =>
    simp only [List.cons_append, lookupK]
    by_cases he : e.1 = k'
    · simp [he]
    · simp only [he, if_false]; exact ih

/-- what a lookup finds after `touch c k` -/
theorem lookupK_touch (c : List (ArgKind × Inst)) (k k' : ArgKind) :
    lookupK k' (touch c k) = if k' = k then some (instOf c k).initialised else lookupK k' c := by
  unfold touch instOf
  cases hl : lookupK k c with
  | some i =>
    simp only [Option.getD_some]
    rw [lookupK_map_touch, hl]; rfl
  | none =>
    simp only [Option.getD_none]
    rw [lookupK_append]
    by_cases hkk : k' = k
    · subst hkk; simp [hl]
    · have : ¬ k = k' := fun h => hkk h.symm
      simp only [hkk, if_false, this]
      cases lookupK k' c <;> rfl

theorem WFCache_nil : WFCache [] := by
  intro k i h; simp [lookupK] at h

theorem WFCache_touch {c : List (ArgKind × Inst)} (h : WFCache c) (k : ArgKind) : WFCache (touch c k) := by
  intro k' i hl
  rw [lookupK_touch] at hl
  by_cases hkk : k' = k
  · subst hkk
    simp only [if_true, Option.some.injEq] at hl
    subst hl
    refine ⟨?_, Or.inr ?_⟩
    · show (instOf c k').kind = k'
      exact instOf_kind h k'
    · show some (instOf c k').parserKind = some k'
      rw [instOf_parserKind h]
  · simp only [hkk, if_false] at hl
    exact h k' i hl

theorem WFCache_foldl {c : List (ArgKind × Inst)} (h : WFCache c) (ks : List ArgKind) :
    WFCache (ks.foldl touch c) := by
  induction ks generalizing c with
  | nil => exact h
  | cons k l ih => exact ih (WFCache_touch h k)

/-- an entry survives `touch`: same constructor arguments, and an inner parser that exists is kept -/
def Keeps (i i' : Inst) : Prop := i'.kind = i.kind ∧ ∀ x, i.inner = some x → i'.inner = some x

theorem Keeps.refl (i : Inst) : Keeps i i := ⟨rfl, fun _ h => h⟩

theorem Keeps.trans {a b c : Inst} (h1 : Keeps a b) (h2 : Keeps b c) : Keeps a c :=
  ⟨h2.1.trans h1.1, fun x hx => h2.2 x (h1.2 x hx)⟩

theorem keeps_initialised (i : Inst) : Keeps i i.initialised := by
  refine ⟨rfl, fun x hx => ?_⟩
  simp [Inst.initialised, Inst.parserKind, hx]

theorem touch_keeps (c : List (ArgKind × Inst)) (k k' : ArgKind) (i : Inst) (hl : lookupK k' c = some i) :
    ∃ i', lookupK k' (touch c k) = some i' ∧ Keeps i i' := by
  rw [lookupK_touch]
  by_cases hkk : k' = k
  · subst hkk
    simp only [if_true]
    refine ⟨_, rfl, ?_⟩
    have : instOf c k' = i := by simp [instOf, hl]
    rw [this]; exact keeps_initialised i
  · simp only [hkk, if_false]
    exact ⟨i, hl, Keeps.refl i⟩

theorem foldl_touch_keeps (ks : List ArgKind) (c : List (ArgKind × Inst)) (k' : ArgKind) (i : Inst)
    (hl : lookupK k' c = some i) : ∃ i', lookupK k' (ks.foldl touch c) = some i' ∧ Keeps i i' := by
  induction ks generalizing c i with
  | nil => exact ⟨i, hl, Keeps.refl i⟩
  | cons k l ih =>
    obtain ⟨i1, h1, k1⟩ := touch_keeps c k k' i hl
    obtain ⟨i2, h2, k2⟩ := ih (touch c k) i1 h1
    exact ⟨i2, h2, k1.trans k2⟩

/-! ### resolution is the identity in a well-formed world -/

theorem resolveSpec_id {w : World} (h : WFCache w.cache) (a : ArgSpec) : resolveSpec w a = a := by
  unfold resolveSpec World.inst
  rw [instOf_parserKind h]

theorem resolveArgsP_id {w : World} (h : WFCache w.cache) (a : ArgsP) : resolveArgsP w a = a := by
  cases a with
  | std l =>
    simp only [resolveArgsP]
    congr 1
    induction l with
    | nil => rfl
    | cons x l ih => simp only [List.map_cons, resolveSpec_id h, ih]
  | legacyVerb => rfl
  | legacyVerbEnv n o => rfl
  | unknown => rfl

theorem map_resolve_pair {w : World} (h : WFCache w.cache) (l : List (Str × ArgsP)) :
    l.map (fun p => (p.1, resolveArgsP w p.2)) = l := by
  induction l with
  | nil => rfl
  | cons x l ih => obtain ⟨a, b⟩ := x; rw [List.map_cons, ih, resolveArgsP_id h]

theorem map_resolve_env {w : World} (h : WFCache w.cache) (l : List (Str × (ArgsP × Bool))) :
    l.map (fun p => (p.1, (resolveArgsP w p.2.1, p.2.2))) = l := by
  induction l with
  | nil => rfl
  | cons x l ih => obtain ⟨a, b, c⟩ := x; rw [List.map_cons, ih, resolveArgsP_id h]

theorem resolveCtx_id {w : World} (h : WFCache w.cache) (c : Ctx) : resolveCtx w c = c := by
  cases c with
  | mk ms es ss um ue =>
    simp only [resolveCtx, map_resolve_pair h, map_resolve_env h]
    congr 1
    · cases um <;> simp [resolveArgsP_id h]
    · cases ue <;> simp [resolveArgsP_id h]

/-! ### databases -/

theorem freezeAt_ctx (l : List DbObj) (n : Nat) : (freezeAt l n).map (·.ctx) = l.map (·.ctx) := by
  induction l generalizing n with
  | nil => rfl
  | cons d l ih =>
    cases n with
    | zero => rfl
    | succ n => simp only [freezeAt, List.map_cons, ih]

theorem freezeAt_get (l : List DbObj) (n j : Nat) :
    (freezeAt l n)[j]? = (l[j]?).map (fun d => if j = n then { d with frozen := true } else d) := by
  induction l generalizing n j with
  | nil => simp [freezeAt]
  | cons d l ih =>
    cases n with
    | zero =>
      cases j with
      | zero => simp [freezeAt]
      | succ j => simp [freezeAt]
    | succ n =>
      cases j with
      | zero => simp [freezeAt]
      | succ j => simp only [freezeAt, List.getElem?_cons_succ, ih]; simp

theorem getElem?_ctx_of_map {l : List DbObj} {dbs : List Ctx} (h : l.map (·.ctx) = dbs) (i : Nat) :
    (l[i]?).map (·.ctx) = dbs[i]? := by
  rw [← h, List.getElem?_map]

theorem WF_init (dbs : List Ctx) : WF dbs (World.init dbs) := by
  refine ⟨WFCache_nil, ?_⟩
  simp [World.init, List.map_map, Function.comp_def]

theorem WF_advance {dbs : List Ctx} {w : World} (h : WF dbs w) (call : Call) (ks : List ArgKind)
    (ds : List (Option (Char × Char) × Int)) : WF dbs { advance w call ks with depths := ds } := by
  refine ⟨WFCache_foldl h.cache ks, ?_⟩
  show (freezeAt w.dbs call.db).map (·.ctx) = dbs
  rw [freezeAt_ctx]; exact h.dbs

theorem WF_of_reachable {m : Mode} {dbs : List Ctx} {w : World} (h : Reachable m dbs w) : WF dbs w := by
  induction h with
  | init => exact WF_init dbs
  | step call ks _ _ ih => exact WF_advance ih call ks _

/-! ### the result of a call in a well-formed world -/

/-- what a call returns when nothing is shared: the parser model applied to the call's own database -/
def pureResult (dbs : List Ctx) (call : Call) : Ret :=
  match dbs[call.db]? with
  | none => noDb
  | some c => parseTop { tol := call.tol, ctx := c, s := call.s } (topFieldsOf c call.base)

theorem parseIn_of_WF {dbs : List Ctx} {w : World} (h : WF dbs w) (call : Call) :
    (parseIn .repaired w call).1 = pureResult dbs call := by
  unfold parseIn pureResult
  have hg := getElem?_ctx_of_map h.dbs call.db
  cases hd : w.dbs[call.db]? with
  | none => rw [hd] at hg; simp only [Option.map_none] at hg; rw [← hg]
  | some d =>
    rw [hd] at hg; simp only [Option.map_some] at hg; rw [← hg]
    simp only [resolveCtx_id h.cache]

/-- **C09 (non-interference), for every well-formed world** -/
theorem C09_noninterference_wf {dbs : List Ctx} {w : World} (h : WF dbs w) (call : Call) :
    (parseW .repaired w call).1 = (parseW .repaired (World.init dbs) call).1 := by
  show (parseIn .repaired w call).1 = (parseIn .repaired (World.init dbs) call).1
  rw [parseIn_of_WF h, parseIn_of_WF (WF_init dbs)]

/-- **C09 (non-interference)**: in every world reachable by any sequence of calls, a call returns exactly what it
    returns in a fresh process -/
theorem C09_noninterference {dbs : List Ctx} {w : World} (h : Reachable .repaired dbs w) (call : Call) :
    (parseW .repaired w call).1 = (parseW .repaired (World.init dbs) call).1 :=
  C09_noninterference_wf (WF_of_reachable h) call

theorem reachable_parseW {m : Mode} {dbs : List Ctx} {w : World} (h : Reachable m dbs w) (call : Call) :
    Reachable m dbs (parseW m w call).2 :=
  Reachable.step call (callKinds w call) h (fun _ hk => hk)

theorem runHist_of_reachable {dbs : List Ctx} (calls : List Call) {w : World} (h : Reachable .repaired dbs w) :
    (runHist .repaired w calls).1 = calls.map (fun c => (parseW .repaired (World.init dbs) c).1) := by
  induction calls generalizing w with
  | nil => rfl
  | cons c cs ih =>
    simp only [runHist, List.map_cons]
    rw [C09_noninterference h c, ih (reachable_parseW h c)]

/-- **C09 for histories**: the results of a history are, call by call, the results of the same calls each made in a
    fresh process — whatever was parsed before, in whatever order -/
theorem C09_history (dbs : List Ctx) (calls : List Call) :
    (runHist .repaired (World.init dbs) calls).1 = calls.map (fun c => (parseW .repaired (World.init dbs) c).1) :=
  runHist_of_reachable calls Reachable.init

/-- every ordering of a set of calls gives every call the same result -/
theorem C09_order_irrelevant (dbs : List Ctx) (pre1 pre2 : List Call) (c : Call) :
    (parseW .repaired (runHist .repaired (World.init dbs) pre1).2 c).1
      = (parseW .repaired (runHist .repaired (World.init dbs) pre2).2 c).1 := by
  have reach : ∀ (pre : List Call) {w : World}, Reachable .repaired dbs w →
      Reachable .repaired dbs (runHist .repaired w pre).2 := by
    intro pre
    induction pre with
    | nil => intro w h; exact h
    | cons a l ih => intro w h; exact ih (reachable_parseW h a)
  rw [C09_noninterference (reach pre1 Reachable.init), C09_noninterference (reach pre2 Reachable.init)]

/-- **C09 (context unchanged)**: a call (in either mode, in any world) leaves the content of every database as it
    was; the `frozen` flag of the call's database becomes true, every other flag is untouched -/
theorem C09_ctx_unchanged (m : Mode) (w : World) (call : Call) :
    (parseW m w call).2.dbs.map (·.ctx) = w.dbs.map (·.ctx)
    ∧ ∀ j, ((parseW m w call).2.dbs[j]?).map (·.frozen)
          = (w.dbs[j]?).map (fun d => if j = call.db then true else d.frozen) := by
  refine ⟨freezeAt_ctx w.dbs call.db, fun j => ?_⟩
  show ((freezeAt w.dbs call.db)[j]?).map (·.frozen) = _
  rw [freezeAt_get]
  cases w.dbs[j]? with
  | none => rfl
  | some d => by_cases hj : j = call.db <;> simp [hj]

/-- **C09 (cache monotone)**: the world only gains cache entries — an entry is never removed, keeps its constructor
    arguments and, once created, its inner parser — and every entry stays a function of its key -/
theorem C09_cache_monotone (m : Mode) (w : World) (call : Call) :
    (∀ k i, lookupK k w.cache = some i → ∃ i', lookupK k (parseW m w call).2.cache = some i' ∧ Keeps i i')
    ∧ (WFCache w.cache → WFCache (parseW m w call).2.cache) :=
  ⟨fun k i hl => foldl_touch_keeps (callKinds w call) w.cache k i hl,
   fun h => WFCache_foldl h (callKinds w call)⟩

/-- **C09 (inventory)**: every module-level container that is written to, every attribute store outside construction on
    an object that outlives a parse, every call site of a state-changing database method and every store on the
    walker found by the regenerated `ast` scan is on the allow-list of `Pylx.World` -/
theorem C09_inventory_accounted : inventoryAccounted = true := by decide

/-! ### the tree before the repair -/

/-- started with a positive counter the pre-repair scan is the repaired scan (which always starts at 1) -/
theorem verbScanA_pos (o c : Char) (s : Str) (d : Nat) (i : Nat) (hd : 1 ≤ d) :
    (verbScanA o c s (d : Int) i).1 = verbScan o c s d i := by
  induction s generalizing d i with
  | nil => rfl
  | cons ch rest ih =>
    simp only [verbScanA, verbScan]
    by_cases h1 : (ch == c) = true
    · simp only [h1, if_true]
      by_cases h2 : d ≤ 1
      · have : (d : Int) - 1 ≤ 0 := by omega
        simp [h2, this]
      · have : ¬ ((d : Int) - 1 ≤ 0) := by omega
        simp only [h2, this, if_false]
        have e : (d : Int) - 1 = ((d - 1 : Nat) : Int) := by omega
        rw [e]; exact ih (d - 1) (i + 1) (by omega)
    · simp only [h1]
      by_cases h3 : (ch == o) = true
      · simp only [h3, if_true]
        have e : (d : Int) + 1 = ((d + 1 : Nat) : Int) := by omega
        rw [e]; exact ih (d + 1) (i + 1) (by omega)
      · simp only [h3]; exact ih d (i + 1) hd

theorem verbScanA_match (o c : Char) (s : Str) (i : Nat) (A : Nat → Raw) (B : Raw) :
    (match verbScanA o c s 1 i with
      | (some e, dOut) => (A e, dOut)
      | (none, dOut) => (B, dOut)).1
    = (match verbScan o c s 1 i with
      | some e => A e
      | none => B) := by
  have h := verbScanA_pos o c s 1 i (Nat.le_refl 1)
  rw [← h]
  generalize verbScanA o c s ((1 : Nat) : Int) i = r
  obtain ⟨r1, r2⟩ := r
  cases r1 <;> rfl

/-- the pre-repair verbatim parser started with the counter at 1 is the repaired verbatim parser -/
theorem rawVerbatimA_one (env : Env) (d : Option (Char × Char)) (f : PSFields) (pos : Nat) :
    (rawVerbatimA env 1 d f pos).1 = rawVerbatim env d f pos := by
  unfold rawVerbatimA rawVerbatim
  simp only
  cases env.s[pos + (spaceRun env.s pos).length]? with
  | none => rfl
  | some first =>
    simp only
    cases d with
    | none => simp only; exact verbScanA_match _ _ _ _ _ _
    | some oc =>
      obtain ⟨o, c⟩ := oc
      simp only
      by_cases hf : (first == o) = true
      · simp only [hf, if_true]; exact verbScanA_match _ _ _ _ _ _
      · simp only [hf]; rfl

def _root_.Pylx.Ret.isOkB : Ret → Bool
  | .ok _ _ => true
  | _ => false

def _root_.Pylx.Ret.errAt : Ret → Option (ErrWhat × Option Nat)
  | .perr e => some (e.what, e.pos)
  | _ => none

/-- a database with one macro `\vv` taking a verbatim argument -/
def witnessCtx : Ctx := { macros := [("vv".toList, .std [⟨.v, .none⟩])] }
def witnessCall : Call := { db := 0, tol := false, s := "\\vv{a{b}c}d".toList }

/-- **C09 is false of the tree before 7bf8923** (kernel-checked witness history): the first strict parse of
    `\vv{a{b}c}d` succeeds and leaves the cached verbatim parser's counter at 0; the second parse of the same
    input with the same context and flags then stops at the inner `}` and fails with "unexpected closing brace"
    at offset 9 — in a world that is reachable by that one call -/
theorem C09_asIs_interference :
    (parseW .asIs (World.init [witnessCtx]) witnessCall).1.isOkB = true
    ∧ (parseW .asIs (World.init [witnessCtx]) witnessCall).2.depths = [(none, 0)]
    ∧ (parseW .asIs (parseW .asIs (World.init [witnessCtx]) witnessCall).2 witnessCall).1.errAt
        = some (.unexpectedCloseBrace, some 9)
    ∧ Reachable .asIs [witnessCtx] (parseW .asIs (World.init [witnessCtx]) witnessCall).2 :=
  ⟨by decide, by decide, by decide, reachable_parseW Reachable.init witnessCall⟩

/-- the same history in the repaired tree: both parses succeed -/
example :
    (parseW .repaired (World.init [witnessCtx]) witnessCall).1.isOkB = true
    ∧ (parseW .repaired (parseW .repaired (World.init [witnessCtx]) witnessCall).2 witnessCall).1.isOkB = true := by
  decide

/-! ### non-vacuity -/

def exCtx9 : Ctx :=
  { macros := [("o".toList, .std [⟨.o true, .none⟩, ⟨.m, .none⟩]), ("v".toList, .std [⟨.v, .none⟩]),
               ("\\".toList, .std [⟨.s, .none⟩, ⟨.o false, .none⟩])],
    envs := [("e".toList, (.std [⟨.d '<' '>', .none⟩], false))], unknownMacro := some (.std []) }

def exCalls9 : List Call :=
  [{ db := 0, tol := false, s := "\\v{a{b}c}".toList }, { db := 1, tol := true, s := "\\o[x]{y}}".toList },
   { db := 0, tol := false, s := "\\\\ [x]".toList }]

/-- a reachable world that is not the initial one: three calls on two databases; the cache has gained entries, one
    database is frozen by its first use, and the non-interference theorem applies to it -/
example :
    let w := (runHist .repaired (World.init [exCtx9, witnessCtx]) exCalls9).2
    Reachable .repaired [exCtx9, witnessCtx] w ∧ w.cache.length = 6 ∧ w.dbs.map (·.frozen) = [true, true]
    ∧ (parseW .repaired w { db := 1, tol := false, s := "\\vv{a{b}c}}".toList }).1.errAt
        = some (.unexpectedCloseBrace, some 10) := by
  refine ⟨?_, by decide, by decide, by decide⟩
  exact reachable_parseW (reachable_parseW (reachable_parseW Reachable.init _) _) _

/-- `C09_history` on that history: results in the shared world = results of the three calls made alone -/
example : (runHist .repaired (World.init [exCtx9, witnessCtx]) exCalls9).1.map Ret.isOkB = [true, true, true] := by
  decide

/-- a world that is *not* well-formed (a cache entry for `[` built without pre-space, as a cache keyed without the
    keyword arguments would produce) does change results: `WF` is what the theorem needs -/
example :
    let bad : World := { (World.init [exCtx9]) with cache := [(.o true, { kind := .o false })] }
    (parseW .repaired bad { db := 0, tol := false, s := "\\o [x]{y}".toList }).1.isOkB
      ≠ (parseW .repaired (World.init [exCtx9]) { db := 0, tol := false, s := "\\o [x]{y}".toList }).1.isOkB
    ∨ (parseW .repaired bad { db := 0, tol := false, s := "\\o [x]{y}".toList }).1.errAt
      ≠ (parseW .repaired (World.init [exCtx9]) { db := 0, tol := false, s := "\\o [x]{y}".toList }).1.errAt
    ∨ ¬ WFCache bad.cache := by
  refine Or.inr (Or.inr ?_)
  intro h
  have := (h (.o true) { kind := .o false } (by decide)).1
  exact absurd this (by decide)

end Pylx.World
